import PGM.Driver.C07
import PGM.Driver.C05
/-!
Line-protocol driver: one JSON request per input line, one JSON response per output line.
Run with the compiled `pgmgen` (handlers over the py2lean-generated definitions only).
-/
open Lean PGM PGM.Driver

def dispatch (req : Json) : Except String Json := do
  let op ← (← req.getObjVal? "op").getStr?
  match op with
  | "cdp" => handleCdp req
  | "em" => handleEM req
  | "scale" => handleScale req
  | "ada_query" => handleAdaQuery req
  | _ => throw s!"unknown op {op}"

def respond (line : String) : String :=
  match Json.parse line with
  | .error e => (Json.mkObj [("ok", false), ("err", s!"parse: {e}")]).compress
  | .ok req =>
    let id := (req.getObjVal? "id").toOption.getD Json.null
    match dispatch req with
    | .ok out => (Json.mkObj [("id", id), ("ok", true), ("out", out)]).compress
    | .error e => (Json.mkObj [("id", id), ("ok", false), ("err", e)]).compress

partial def loop (h : IO.FS.Stream) (out : IO.FS.Stream) : IO Unit := do
  let line ← h.getLine
  if line.isEmpty then return ()
  let t := line.trimAscii.toString
  if t.isEmpty then loop h out else
  out.putStrLn (respond t)
  loop h out

def main : IO Unit := do
  let stdin ← IO.getStdin
  let stdout ← IO.getStdout
  loop stdin stdout
  stdout.flush
