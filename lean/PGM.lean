import PGM.Model.Index
import PGM.Model.Scalar
import PGM.Model.Factor
