import PGM.Properties.C01
import PGM.Properties.C02
import PGM.Properties.C04
import PGM.Properties.C07
import PGM.Properties.C09
import PGM.Properties.C12
import PGM.Properties.C14
import PGM.Properties.C15
