import PGM.Proofs.LossSem
/-!
# C04 — the optimised objective, its gradient and smoothness bound are the stated ones

Theorems about `PGM/Model/Loss.lean` (transcription of `inference.py`'s `_setup` grouping,
`_marginal_loss`, `_lipschitz`), over any linearly ordered field.
-/
namespace PGM.C04
open PGM PGM.JT PGM.Loss
variable {K : Type} [Field K] [LinearOrder K] [IsStrictOrderedRing K]

/-- every measurement whose projection fits some clique is charged to exactly one clique -/
theorem groupOf_spec (d : Dom) (cliques : List Clique) (proj : List Attr) :
    (∀ c, groupOf d cliques proj = some c → c ∈ cliques ∧ JT.subset proj c = true) ∧
    ((∃ c ∈ cliques, JT.subset proj c = true) → ∃ c, groupOf d cliques proj = some c) :=
  Loss.groupOf_spec d cliques proj

/-- **each measurement is counted exactly once**, however the cliques overlap or repeat -/
theorem loss_each_once (d : Dom) (cliques : List Clique) (meas : List (Meas (PlainOf K)))
    (mu : CliqueVec (PlainOf K)) (hmu : VecOK d cliques mu) (hm : ∀ m ∈ meas, MeasOK d m)
    (hcov : ∀ m ∈ meas, ∃ c ∈ cliques, JT.subset m.proj c = true) :
    (marginalLoss d cliques meas mu).1.v
      = (meas.map (fun m => lossM m (mu.get ((groupOf d cliques m.proj).getD [])))).sum :=
  Loss.loss_each_once d cliques meas mu hmu hm hcov

/-- **exact second-order expansion** — the returned gradient is *the* derivative of the loss -/
theorem loss_expansion (d : Dom) (cliques : List Clique) (meas : List (Meas (PlainOf K)))
    (mu h : CliqueVec (PlainOf K)) (hmu : VecOK d cliques mu) (hh : VecOK d cliques h)
    (hm : ∀ m ∈ meas, MeasOK d m) (hcov : ∀ m ∈ meas, ∃ c ∈ cliques, JT.subset m.proj c = true) :
    (marginalLoss d cliques meas (cvAdd mu h)).1.v
      = (marginalLoss d cliques meas mu).1.v + cvDot (marginalLoss d cliques meas mu).2 h
        + (meas.map (fun m => quadM m (h.get ((groupOf d cliques m.proj).getD [])))).sum :=
  Loss.loss_expansion d cliques meas mu h hmu hh hm hcov

/-- **smoothness bound**: the constant returned by `_lipschitz` dominates the Hessian's quadratic
form (given the `eigsh` contract for each query matrix) -/
theorem hessian_bound (d : Dom) (cliques : List Clique) (meas : List (Meas (PlainOf K)))
    (eigs : List (PlainOf K)) (h : CliqueVec (PlainOf K)) (hh : VecOK d cliques h)
    (hm : ∀ m ∈ meas, MeasOK d m) (hcov : ∀ m ∈ meas, ∃ c ∈ cliques, JT.subset m.proj c = true)
    (hlen : eigs.length = meas.length) (hsizes : ∀ p ∈ d, 0 < p.2) (hne : cliques ≠ [])
    (heig : ∀ i (hi : i < meas.length) (x : List K), x.length = d.sizeOf (meas[i]).proj →
      vdot (qx meas[i] x) (qx meas[i] x) ≤ (eigs.getD i ⟨0⟩).v * vdot x x) :
    (meas.map (fun m => quadM m (h.get ((groupOf d cliques m.proj).getD [])))).sum
      ≤ (1 / 2) * (lipschitz d cliques meas eigs).v * cvNormSq h :=
  Loss.hessian_bound d cliques meas eigs h hh hm hcov hlen hsizes hne heig

end PGM.C04
