import PGM.Model.Loss
namespace PGM.C04
end PGM.C04
