import PGM.Properties.C18E
import PGM.Proofs.OracleLaid
import PGM.Proofs.OracleLaidRG
/-!
# C18 (end to end, generated losses) — `gen_local_estimate_tables_valid_*` WITHOUT the hypothesis `hgrad`

`Properties/C18E.lean` proves that the marginals the generated `LocalInference.estimate` stores are valid tables "for any loss"
whose gradient is laid out on the model's cliques whenever the marginals are valid tables (`hgrad`).  `TablesOn` records cell
VALUES only, so `hgrad` could not be discharged for the generated `_marginal_loss`: that needs the DOMAINS of the oracle's output.

## 1. the domain invariant of the three generated oracles (`gen_lbp_laid`, `gen_gbp_laid`, `gen_hps_laid`)

`Laid pots → Laid (bp …).1 ∧ MsgsLaid (bp …).2`, for any `total` and any number of sweeps (`> 0` for HPS), where `MsgsLaid` is

* LBP (`MsgsLaidG`): `mu_n[v][cl]`, `mu_f[cl][v]` are well-formed tables on `dom.project [v]`, for `v ∈ cl ∈ cliques`;
* GBP (`MsgsLaidGBP`): the message of every edge `(ru, rd)` of the message order is a well-formed table INSIDE `rd` with the
  domain's extents (`Convex.Sub`) — NOT on `dom.project rd`: `logsumexp` of a table on `ru` over `ru ∖ rd` lists the attributes
  of `rd` in `ru`'s order.  Marginals: `Laid` on `g.cliques`;
* HPS (`MsgsLaidHPS`): on every edge `(p, c)` both `messages[c,p]` and `messages[p,c]` are on `dom.project c`.  Marginals: `Laid`
  on `g.regions` (the order in which `hazan_peng_shashua` fills `mu`), the potentials on `g.cliques` (the same set, sorted by
  length); `theta - alpha*dL` reads the gradient `get`-wise (`laid_update_get`).

The message states of the generated `init_messages` / `build_graph` have these layouts (`gen_init_messages_laid`,
`genMessagesN_laid`, `genMessagesC_laid`), every oracle call keeps them, so they hold in every reachable state.  The graph
hypotheses (`GbpLaidHyp`, `HpsLaidHyp`) hold for the graphs the generated `build_graph` builds (`gbpLaidHyp_genN`,
`hpsLaidHyp_genC`).  Proofs: `Proofs/OracleLaid.lean` (LBP, new) and `Proofs/OracleLaidRG.lean` (assembled from the layout
invariants of the GBP fixed-point and HPS duality proofs, `GbpFixed.Hyp.iterate`, `Convex.shape_preserved`).

## 2. the end-to-end theorems for the generated L2 / L1 losses (`…_{pairwise,approx,convex}_{L2,L1}`)

Same hypotheses on the inputs as in C18E — plus, for the two region-graph oracles, `dom.WF` (distinct attribute names, which a
Python dict guarantees) — and NO hypothesis on the loss: the loss is the generated `marginalLossL2` / `marginalLossL1` of `LocalG`
(on ANY measurement list `lmeas` and ANY `cliques` argument `cl'` of `setupGroups`; `LocalInference` passes the model's).
Conclusion: that of C18E, and the stored marginals are `Laid` and the stored messages have the layout; for 'pairwise' (whose
state has no `marginals` field) the C18E conclusion `∃ mu st, …` was derivable without any run, so here it is replaced by a
statement about the `mu` returned by the generated `mirror_descent_auto` run that `estimate` performs.  'pairwise' needs the
measured cliques to be pairwise distinct (`hnd`); 'approx' / 'convex' do not.  THESE (`…_L2` / `…_L1`) ARE THE THEOREMS TO CITE:
the `hgrad` of the C18E forms is false for the generated loss (`hgrad_convex_false`, §3).  The general versions
(`…_laid`) keep an `hgrad` whose premise includes the layout of the marginals (so it is dischargeable for any loss whose
gradient has the layout of its argument).

## 3. satisfiability: the instance of C18E, with the generated L2 loss.
-/
namespace PGM.C18H
open PGM PGM.JT PGM.Local PGM.LocalE2E PGM.Oracle PGM.C18.LocalG PGM.C18E PGM.OracleLaid
open PGM.LocalGen (HalfLaw)
set_option linter.unusedSectionVars false
set_option linter.unusedVariables false

/-! ## loopy belief propagation (`marginal_oracle='pairwise'`) -/

/-- the layout of a generated message state `(mu_n, mu_f)` -/
def MsgsLaidG (dom : Dom) (cliques : List Clique) (m : FGG.MuN ℝ × FGG.MuF ℝ) : Prop :=
  MsgsLaidFG dom cliques ⟨m.1, m.2⟩

/-- **the domain invariant of the generated `loopy_belief_propagation`** (any `total`, any number of sweeps): the returned
marginals are laid out on the cliques, and so are the stored `self.marginals`; the stored `self.messages` keep their layout -/
theorem gen_lbp_laid (dom : Dom) (cliques : List Clique) (T : ℝ) (iters : Nat) (msgs : FGG.MuN ℝ × FGG.MuF ℝ)
    (pots : CliqueVec ℝ) (hnd : cliques.Nodup) (hcl : ∀ cl ∈ cliques, cl.Nodup)
    (hp : Laid dom cliques pots) (hm : MsgsLaidG dom cliques msgs) :
    Laid dom cliques (FGG.loopyBeliefPropagation dom cliques T iters msgs pots).1 ∧
    Laid dom cliques (FGG.loopyBeliefPropagation dom cliques T iters msgs pots).2.2.2.2 ∧
    MsgsLaidG dom cliques (FGG.loopyBeliefPropagation dom cliques T iters msgs pots).2.2.2.1 := by
  obtain ⟨h1, h2⟩ := lbp_laid dom cliques pots T iters ⟨msgs.1, msgs.2⟩ hnd hcl hp hm
  have e1 := C16.FGG.gen_lbp_return dom cliques T iters ⟨msgs.1, msgs.2⟩ pots
  have e2 := C16.FGG.gen_lbp_messages dom cliques T iters ⟨msgs.1, msgs.2⟩ pots
  have e0 : PGM.FGGen.tup (⟨msgs.1, msgs.2⟩ : FG.State ℝ) = msgs := rfl
  rw [e0] at e1 e2
  refine ⟨e1 ▸ h1, ?_, ?_⟩
  · have : (FGG.loopyBeliefPropagation dom cliques T iters msgs pots).2.2.2.2
        = (FGG.loopyBeliefPropagation dom cliques T iters msgs pots).1 := rfl
    rw [this]; exact e1 ▸ h1
  · rw [e2]; exact h2

/-- the messages the generated `__init__` / `init_messages` stores have the layout -/
theorem gen_init_messages_laid (dom : Dom) (cliques : List Clique) (T : ℝ) (iters : Nat) :
    MsgsLaidG dom cliques (FGG.init (α := ℝ) dom cliques T iters).2.2.2.2.2.2.2.2.2.1 := by
  rw [C16.FGG.gen_init_messages]
  exact initMessages_laidFG dom cliques

/-- the state invariant of a `FactorGraph` during a run, with the layout of the persisted messages -/
def FGInvL (dom : Dom) (cliques : List Clique) (T : ℝ) (s : FGState ℝ) : Prop :=
  FGInv T s ∧ MsgsLaidG dom cliques s.messages

theorem keeps_lbp_laid (dom : Dom) (cliques : List Clique) (iters : Nat) (T : ℝ) (loss : CliqueVec ℝ → ℝ × CliqueVec ℝ)
    (hT : 0 < T) (hdom : PosDom dom) (hnd : cliques.Nodup) (hcl : ∀ c ∈ cliques, PGM.Convex.RegOK dom c)
    (hgrad : ∀ mu, TablesOn T cliques mu → Laid dom cliques mu → Laid dom cliques (loss mu).2) :
    Keeps (pyOps (objLBP dom cliques iters) loss) (Laid dom cliques)
      (fun mu => TablesOn T cliques mu ∧ Laid dom cliques mu) (FGInvL dom cliques T) := by
  refine ⟨?_, ?_, ?_⟩
  · intro st θ hI hP
    obtain ⟨a, b⟩ := lbp_call_inv dom cliques iters T hT hdom hnd hcl st θ hI.1 hP
    obtain ⟨l1, -, l3⟩ := gen_lbp_laid dom cliques st.total iters st.messages θ hnd (fun c hc => (hcl c hc).1) hP hI.2
    exact ⟨⟨a, l1⟩, b, l3⟩
  · intro θ a mu hP hQ
    exact laid_update dom cliques θ (loss mu).2 a hP (hgrad mu hQ.1 hQ.2)
  · intro st hI
    exact hI

/-- **`marginal_oracle='pairwise'`, end to end, with the layout**: as `C18E.gen_local_estimate_tables_valid_pairwise`, but `hgrad`
may assume that the marginals are laid out on the cliques, and the conclusion is about THE `mu` OF THE RUN.

The C18E form concluded `∃ mu st, … TablesOn T cl mu`, which is derivable from `Laid dom cl m.potentials` alone (audit:
`pairwise_mu_part_is_free`, `audit/scratch/c18_more.lean`) — it did not say which tables the run returned.  Here the witness is
pinned: the generated `estimate` IS the generated `mirror_descent_auto` run `… = .ok (l, m.potentials, mu, model', w')` (a
function, so `l, mu, model'` are unique), the returned model is `model'` with `potentials := theta`, and THAT `mu` — the value
`estimate` assigns to `model.marginals` — is a valid table family, laid out on the cliques, and is the generated LBP's output
on the returned potentials from a state satisfying the invariant.  `FGState` has no `marginals` field (`objLBP.setMarg` is the
identity; the full object is not a `Frame`, `C18E.objLBPfull_not_frame`): that the attribute `self.marginals` written by the
oracle call itself (component `.2.2.2.2`) is the same value is the last conjunct, cf. `C18E.lbp_stores_what_it_returns`.

RESTRICTION (`hnd`): the measured cliques must be pairwise distinct.  `FactorGraph` keys its messages by clique, and the
positivity / layout invariants of LBP are proved for duplicate-free clique lists only; two measurements of the same clique are
outside this theorem for 'pairwise' (they are covered for 'approx' / 'convex', where `build_graph` deduplicates regions). -/
theorem gen_local_estimate_tables_valid_pairwise_laid (dom : Dom) (meas : List (Loss.Meas ℝ)) (T : ℝ) (inner : Nat)
    (loss : CliqueVec ℝ → ℝ × CliqueVec ℝ) {κ : Type}
    (hT : 0 < T) (hdom : PosDom dom) (hmeas : ∀ m ∈ meas, PGM.Convex.RegOK dom m.proj)
    (hnd : (meas.map (·.proj)).Nodup)
    (hgrad : ∀ mu, TablesOn T (LocalG.setupCliques meas []) mu → Laid dom (LocalG.setupCliques meas []) mu →
      Laid dom (LocalG.setupCliques meas []) (loss mu).2)
    (reg facC : Dom → List Clique → ℝ → Bool → Nat → FGState ℝ) (warm : Bool) (prev : Option (FGState ℝ))
    (hcold : (warm && prev.isSome) = false)
    (fuel : Nat) (w : κ) (oia : Option ℝ) (iters : Nat) (cb : Option (CliqueVec ℝ → κ → κ)) (log : Bool)
    (logger : CliqueVec ℝ → κ → κ) (m0 m1 m : FGState ℝ) (w' : κ)
    (h0 : LocalG.setupModel (mkFG reg facC) (objLBP dom (LocalG.setupCliques meas []) inner) dom
      (.name "pairwise") (LocalG.setupCliques meas []) T inner = .ok m0)
    (h1 : LocalG.setupPotentials (objLBP dom (LocalG.setupCliques meas []) inner) dom [] warm prev
      (.name "pairwise") m0 = .ok m1)
    (h : LocalG.estimate (objLBP dom (LocalG.setupCliques meas []) inner) loss fuel m1 w oia iters cb log
      logger = .ok (m, w')) :
    let cl := LocalG.setupCliques meas ([] : CliqueVec ℝ)
    Laid dom cl m.potentials ∧ m.total = T ∧ MsgsLaidG dom cl m.messages ∧
    ∃ l mu model',
      LocalG.mirrorDescentAuto (objLBP dom cl inner) loss (estimateCallback cb log logger) fuel m1 w
        (oia.getD defaultAlpha) iters = .ok (l, m.potentials, mu, model', w') ∧
      m = { model' with potentials := m.potentials } ∧
      TablesOn T cl mu ∧ Laid dom cl mu ∧
      ∃ st, FGInvL dom cl T st ∧ st.total = T ∧
        mu = (FGG.loopyBeliefPropagation dom cl T inner st.messages m.potentials).1 ∧
        mu = (FGG.loopyBeliefPropagation dom cl T inner st.messages m.potentials).2.2.2.2 := by
  intro cl
  have hcle : cl = meas.map (·.proj) := by
    show LocalG.setupCliques meas ([] : CliqueVec ℝ) = _
    rw [gen_setupCliques]
    simp [Local.setupCliques]
  have hcl : ∀ c ∈ cl, PGM.Convex.RegOK dom c := by
    intro c hc
    rw [hcle] at hc
    obtain ⟨mm, hmm, rfl⟩ := List.mem_map.mp hc
    exact hmeas mm hmm
  have hndc : cl.Nodup := hcle ▸ hnd
  rw [gen_setupModel] at h0
  have h0' : m0 = (mkFG reg facC).factor dom cl T false inner := by
    unfold Local.setupModel at h0
    simp at h0
    exact h0.symm
  rw [gen_setupPotentials _ (objLBP_potLens dom cl inner)] at h1
  simp only [Py.ok.injEq] at h1
  have hm1 : m1 = { m0 with potentials := CliqueVec.zerosV dom cl } := by
    rw [← h1]
    unfold Local.setupPotentials
    cases warm <;> cases prev <;> simp_all [PGM.CVSem.combine_nil] <;> rfl
  have hPm : Laid dom cl m1.potentials := by
    rw [hm1]
    exact laid_zerosV dom cl (fun c hc => (hcl c hc).1)
  have hIm : FGInvL dom cl T m1 := by
    rw [hm1, h0']
    refine ⟨⟨?_, rfl⟩, ?_⟩
    · show PosState (⟨((FGG.init dom cl T inner).2.2.2.2.2.2.2.2.2.1).1, ((FGG.init dom cl T inner).2.2.2.2.2.2.2.2.2.1).2⟩ : FG.State ℝ)
      rw [C16.FGG.gen_init_messages]
      exact fg_initMessages_pos dom cl hdom (fun c hc => (hcl c hc).2)
    · exact gen_init_messages_laid dom cl T inner
  obtain ⟨l, theta, mu, model', hm, rfl⟩ :=
    gen_estimate_ok_inv (objLBP dom cl inner) loss fuel m1 w oia iters cb log logger m w' h
  obtain ⟨p1, p2, p3, st, p4, p5⟩ :=
    gen_mda_inv (objLBP dom cl inner) (objLBP_frame dom cl inner) halfLaw_real loss _ _ _
      (keeps_lbp_laid dom cl inner T loss hT hdom hndc hcl hgrad) _ fuel m1 w _ iters l theta mu model' w' hPm hIm hm
  refine ⟨p1, p2.1.2, p2.2, l, mu, model', hm, rfl, p3.1, p3.2, st, p4, p4.1.2, ?_, ?_⟩
  · rw [← p4.1.2]; exact p5
  · rw [← p4.1.2]; exact p5

/-- **`marginal_oracle='pairwise'`, end to end, for the GENERATED L2 loss — no hypothesis on the loss.**  `lmeas`, `cl'` are the
`self.measurements`, `self.cliques` that `_marginal_loss` groups by (any; `LocalInference` uses `meas` and the model's cliques).
The conclusion speaks about the `mu` the run `mirrorDescentAuto … = .ok (l, m.potentials, mu, model', w')` returned (see
`gen_local_estimate_tables_valid_pairwise_laid`); `hnd`: measured cliques pairwise distinct (restriction of 'pairwise' only) -/
theorem gen_local_estimate_tables_valid_pairwise_L2 (dom : Dom) (meas : List (Loss.Meas ℝ)) (T : ℝ) (inner : Nat)
    (lmeas : List (Loss.Meas ℝ)) (cl' : List Clique) {κ : Type}
    (hT : 0 < T) (hdom : PosDom dom) (hmeas : ∀ m ∈ meas, PGM.Convex.RegOK dom m.proj)
    (hnd : (meas.map (·.proj)).Nodup)
    (reg facC : Dom → List Clique → ℝ → Bool → Nat → FGState ℝ) (warm : Bool) (prev : Option (FGState ℝ))
    (hcold : (warm && prev.isSome) = false)
    (fuel : Nat) (w : κ) (oia : Option ℝ) (iters : Nat) (cb : Option (CliqueVec ℝ → κ → κ)) (log : Bool)
    (logger : CliqueVec ℝ → κ → κ) (m0 m1 m : FGState ℝ) (w' : κ)
    (h0 : LocalG.setupModel (mkFG reg facC) (objLBP dom (LocalG.setupCliques meas []) inner) dom
      (.name "pairwise") (LocalG.setupCliques meas []) T inner = .ok m0)
    (h1 : LocalG.setupPotentials (objLBP dom (LocalG.setupCliques meas []) inner) dom [] warm prev
      (.name "pairwise") m0 = .ok m1)
    (h : LocalG.estimate (objLBP dom (LocalG.setupCliques meas []) inner) (LocalG.marginalLossL2 dom cl' lmeas) fuel m1 w oia
      iters cb log logger = .ok (m, w')) :
    let cl := LocalG.setupCliques meas ([] : CliqueVec ℝ)
    Laid dom cl m.potentials ∧ m.total = T ∧ MsgsLaidG dom cl m.messages ∧
    ∃ l mu model',
      LocalG.mirrorDescentAuto (objLBP dom cl inner) (LocalG.marginalLossL2 dom cl' lmeas) (estimateCallback cb log logger) fuel m1 w
        (oia.getD defaultAlpha) iters = .ok (l, m.potentials, mu, model', w') ∧
      m = { model' with potentials := m.potentials } ∧
      TablesOn T cl mu ∧ Laid dom cl mu ∧
      ∃ st, FGInvL dom cl T st ∧ st.total = T ∧
        mu = (FGG.loopyBeliefPropagation dom cl T inner st.messages m.potentials).1 ∧
        mu = (FGG.loopyBeliefPropagation dom cl T inner st.messages m.potentials).2.2.2.2 := by
  have hcn : (LocalG.setupCliques meas ([] : CliqueVec ℝ)).Nodup := by
    rw [gen_setupCliques]; simpa [Local.setupCliques] using hnd
  exact gen_local_estimate_tables_valid_pairwise_laid dom meas T inner _ hT hdom hmeas hnd
    (fun mu _ hl => gen_local_lossL2_laid dom _ cl' hcn lmeas mu hl)
    reg facC warm prev hcold fuel w oia iters cb log logger m0 m1 m w' h0 h1 h

/-- … and for the GENERATED L1 loss -/
theorem gen_local_estimate_tables_valid_pairwise_L1 (dom : Dom) (meas : List (Loss.Meas ℝ)) (T : ℝ) (inner : Nat)
    (lmeas : List (Loss.Meas ℝ)) (cl' : List Clique) {κ : Type}
    (hT : 0 < T) (hdom : PosDom dom) (hmeas : ∀ m ∈ meas, PGM.Convex.RegOK dom m.proj)
    (hnd : (meas.map (·.proj)).Nodup)
    (reg facC : Dom → List Clique → ℝ → Bool → Nat → FGState ℝ) (warm : Bool) (prev : Option (FGState ℝ))
    (hcold : (warm && prev.isSome) = false)
    (fuel : Nat) (w : κ) (oia : Option ℝ) (iters : Nat) (cb : Option (CliqueVec ℝ → κ → κ)) (log : Bool)
    (logger : CliqueVec ℝ → κ → κ) (m0 m1 m : FGState ℝ) (w' : κ)
    (h0 : LocalG.setupModel (mkFG reg facC) (objLBP dom (LocalG.setupCliques meas []) inner) dom
      (.name "pairwise") (LocalG.setupCliques meas []) T inner = .ok m0)
    (h1 : LocalG.setupPotentials (objLBP dom (LocalG.setupCliques meas []) inner) dom [] warm prev
      (.name "pairwise") m0 = .ok m1)
    (h : LocalG.estimate (objLBP dom (LocalG.setupCliques meas []) inner) (LocalG.marginalLossL1 dom cl' lmeas) fuel m1 w oia
      iters cb log logger = .ok (m, w')) :
    let cl := LocalG.setupCliques meas ([] : CliqueVec ℝ)
    Laid dom cl m.potentials ∧ m.total = T ∧ MsgsLaidG dom cl m.messages ∧
    ∃ l mu model',
      LocalG.mirrorDescentAuto (objLBP dom cl inner) (LocalG.marginalLossL1 dom cl' lmeas) (estimateCallback cb log logger) fuel m1 w
        (oia.getD defaultAlpha) iters = .ok (l, m.potentials, mu, model', w') ∧
      m = { model' with potentials := m.potentials } ∧
      TablesOn T cl mu ∧ Laid dom cl mu ∧
      ∃ st, FGInvL dom cl T st ∧ st.total = T ∧
        mu = (FGG.loopyBeliefPropagation dom cl T inner st.messages m.potentials).1 ∧
        mu = (FGG.loopyBeliefPropagation dom cl T inner st.messages m.potentials).2.2.2.2 := by
  have hcn : (LocalG.setupCliques meas ([] : CliqueVec ℝ)).Nodup := by
    rw [gen_setupCliques]; simpa [Local.setupCliques] using hnd
  exact gen_local_estimate_tables_valid_pairwise_laid dom meas T inner _ hT hdom hmeas hnd
    (fun mu _ hl => gen_local_lossL1_laid dom _ cl' hcn lmeas mu hl)
    reg facC warm prev hcold fuel w oia iters cb log logger m0 m1 m w' h0 h1 h

/-! ## region graphs: the layout hypotheses on the graph -/

theorem graphLaid_buildOn (dom : Dom) (regions : List RG.Region) (convex minimal : Bool) (hwf : dom.WF) (hdom : PosDom dom)
    (h : PGM.Convex.RegsOK dom regions) : GraphLaid dom (RG.buildOn regions convex minimal) :=
  ⟨hwf, fun p hp => Nat.pos_of_ne_zero (hdom p hp), h.1, sortByLen_nodup _ h.1,
   fun r => (mem_sortByLen regions r).symm, h.2, PGM.Convex.buildOn_ok regions convex minimal h.1⟩

/-- the graph `g` agrees with a graph `g0` satisfying the layout hypotheses on every field `generalized_belief_propagation`
reads (the generated `build_graph` is only proved equal to `RG.buildOn` field by field) -/
def GbpLaidHyp (dom : Dom) (g : RG.Graph) : Prop :=
  ∃ g0 : RG.Graph, g.regions = g0.regions ∧ g.cliques = g0.cliques ∧ g.N = g0.N ∧ g.D = g0.D ∧ g.B = g0.B ∧
    g.messageOrder = g0.messageOrder ∧ GraphLaid dom g0 ∧ GbpFixed.Shape g0

/-- … on every field `hazan_peng_shashua` reads -/
def HpsLaidHyp (dom : Dom) (g : RG.Graph) : Prop :=
  ∃ g0 : RG.Graph, g.regions = g0.regions ∧ g.cliques = g0.cliques ∧ g.children = g0.children ∧ g.parents = g0.parents ∧
    GraphLaid dom g0

theorem gbpLaidHyp_genN (dom : Dom) (cliques : List Clique) (hwf : dom.WF) (hdom : PosDom dom)
    (hcl : ∀ c ∈ cliques, PGM.Convex.RegOK dom c) : GbpLaidHyp dom (genGraphApprox dom cliques) := by
  have hr := genRegions_ok dom cliques false hcl
  obtain ⟨f1, f2, -, -, -, -, f7, f8, f9, f10⟩ := C17G.genGraphN'_fields dom (genRegions cliques false) true
    (fuelOf (genRegions cliques false)) hr.1
  exact ⟨_, f1, f2, f7, f8, f9, f10, graphLaid_buildOn dom _ false true hwf hdom hr,
    GbpFixed.shape_buildOn _ hr.1 (fun r h => (hr.2 r h).1)⟩

theorem hpsLaidHyp_genC (dom : Dom) (cliques : List Clique) (hwf : dom.WF) (hdom : PosDom dom)
    (hcl : ∀ c ∈ cliques, PGM.Convex.RegOK dom c) : HpsLaidHyp dom (genGraphConvex dom cliques) := by
  obtain ⟨f1, f2, f3, f4, -, -⟩ := genGraphConvex_fields dom cliques hcl
  exact ⟨_, f1, f2, f3, f4, graphLaid_buildOn dom _ true true hwf hdom (genRegions_ok dom cliques true hcl)⟩

/-! ## generalised belief propagation (`marginal_oracle='approx'`) -/

/-- **the domain invariant of the generated `generalized_belief_propagation`**: potentials laid out on the cliques and every
message of the message order a table inside the child region of its edge give marginals laid out on the cliques and messages
with the same layout (any `total`, any number of sweeps) -/
theorem gen_gbp_laid (dom : Dom) (g : RG.Graph) (hg : GbpLaidHyp dom g) (pots : CliqueVec ℝ) (T : ℝ) (iters : Nat)
    (msgs : RGG.Msgs ℝ) (hp : Laid dom g.cliques pots) (hm : MsgsLaidGBP dom g msgs) :
    Laid dom g.cliques (C17G.genGbp dom g pots T iters msgs).1 ∧ MsgsLaidGBP dom g (C17G.genGbp dom g pots T iters msgs).2 := by
  obtain ⟨g0, e1, e2, e3, e4, e5, e6, hl, hs⟩ := hg
  have hmm : ∀ m, MsgsLaidGBP dom g m ↔ MsgsLaidGBP dom g0 m := by
    intro m; unfold MsgsLaidGBP; rw [e6]
  have hcall : C17G.genGbp dom g pots T iters msgs = RG.gbp dom g0 pots T iters msgs := by
    show RGG.generalizedBeliefPropagation dom g.regions g.cliques g.N g.D g.B g.messageOrder T iters pots msgs = _
    rw [e1, e2, e3, e4, e5, e6]
    exact C17G.gen_gbp dom g0 pots T iters msgs (fun e he => (hl.built.order_sound e he).1)
  rw [hcall, hmm, e2]
  exact gbp_laid dom g0 hl hs pots T iters msgs (e2 ▸ hp) ((hmm msgs).mp hm)

/-- the messages the generated non-convex `build_graph` stores have the layout -/
theorem genMessagesN_laid (dom : Dom) (cliques : List Clique) (hwf : dom.WF) (hdom : PosDom dom)
    (hcl : ∀ c ∈ cliques, PGM.Convex.RegOK dom c) :
    MsgsLaidGBP dom (genGraphApprox dom cliques) (genMessagesN dom cliques) := by
  have hr := genRegions_ok dom cliques false hcl
  obtain ⟨-, -, -, -, -, -, -, -, -, f10⟩ := C17G.genGraphN'_fields dom (genRegions cliques false) true
    (fuelOf (genRegions cliques false)) hr.1
  obtain ⟨-, -, -, -, h5⟩ := C17G.gen_buildGraphNM_skeleton (α := ℝ) dom (genRegions cliques false)
    (fuelOf (genRegions cliques false)) hr.1
  unfold genMessagesN MsgsLaidGBP genGraphApprox
  rw [h5, C17G.gen_initMessages_buildOn dom _ false true hr.1, f10]
  exact initMessages_laidGBP dom _ (graphLaid_buildOn dom _ false true hwf hdom hr)

/-- the state invariant of a non-convex `RegionGraph` during a run, with the layout of the persisted messages -/
def RGInvL (dom : Dom) (g : RG.Graph) (T : ℝ) (s : RGState ℝ) : Prop := RGInv T s ∧ MsgsLaidGBP dom g s.messages

theorem keeps_gbp_laid (dom : Dom) (g : RG.Graph) (iters : Nat) (T : ℝ) (loss : CliqueVec ℝ → ℝ × CliqueVec ℝ)
    (hT : 0 < T) (hdom : PosDom dom) (hg : GraphHyp dom g) (hgl : GbpLaidHyp dom g)
    (hgrad : ∀ mu, TablesOn T g.cliques mu → Laid dom g.cliques mu → Laid dom g.cliques (loss mu).2) :
    Keeps (pyOps (objGBP dom g iters) loss) (Laid dom g.cliques)
      (fun mu => TablesOn T g.cliques mu ∧ Laid dom g.cliques mu) (RGInvL dom g T) := by
  refine ⟨?_, ?_, ?_⟩
  · intro st θ hI hP
    obtain ⟨a, b⟩ := gbp_call_inv dom g iters T hT hdom hg st θ hI.1 hP
    obtain ⟨l1, l2⟩ := gen_gbp_laid dom g hgl θ st.total iters st.messages hP hI.2
    exact ⟨⟨a, l1⟩, b, l2⟩
  · intro θ a mu hP hQ
    exact laid_update dom g.cliques θ (loss mu).2 a hP (hgrad mu hQ.1 hQ.2)
  · intro st hI
    exact hI

/-- **`marginal_oracle='approx'`, end to end, with the layout**: as `C18E.gen_local_estimate_tables_valid_approx` (plus: the
attribute names of the domain are distinct), but `hgrad` may assume that the marginals are laid out on the cliques, and the
conclusion says that they are -/
theorem gen_local_estimate_tables_valid_approx_laid (dom : Dom) (meas : List (Loss.Meas ℝ)) (T : ℝ) (inner : Nat)
    (loss : CliqueVec ℝ → ℝ × CliqueVec ℝ) {κ : Type}
    (hT : 0 < T) (hwf : dom.WF) (hdom : PosDom dom) (hmeas : ∀ m ∈ meas, PGM.Convex.RegOK dom m.proj)
    (hgrad : ∀ mu, TablesOn T (genGraphApprox dom (LocalG.setupCliques meas [])).cliques mu →
      Laid dom (genGraphApprox dom (LocalG.setupCliques meas [])).cliques mu →
      Laid dom (genGraphApprox dom (LocalG.setupCliques meas [])).cliques (loss mu).2)
    (rest : RGState ℝ) (fac : Dom → List Clique → ℝ → Bool → Nat → RGState ℝ) (warm : Bool) (prev : Option (RGState ℝ))
    (hcold : (warm && prev.isSome) = false)
    (fuel : Nat) (w : κ) (oia : Option ℝ) (iters : Nat) (cb : Option (CliqueVec ℝ → κ → κ)) (log : Bool)
    (logger : CliqueVec ℝ → κ → κ) (m0 m1 m : RGState ℝ) (w' : κ)
    (h0 : LocalG.setupModel (mkRG rest fac) (objGBP dom (genGraphApprox dom (LocalG.setupCliques meas [])) inner) dom
      (.name "approx") (LocalG.setupCliques meas []) T inner = .ok m0)
    (h1 : LocalG.setupPotentials (objGBP dom (genGraphApprox dom (LocalG.setupCliques meas [])) inner) dom [] warm prev
      (.name "approx") m0 = .ok m1)
    (h : LocalG.estimate (objGBP dom (genGraphApprox dom (LocalG.setupCliques meas [])) inner) loss fuel m1 w oia iters cb log
      logger = .ok (m, w')) :
    let g := genGraphApprox dom (LocalG.setupCliques meas [])
    Laid dom g.cliques m.potentials ∧ TablesOn T g.cliques m.marginals ∧ Laid dom g.cliques m.marginals ∧ m.total = T ∧
    MsgsLaidGBP dom g m.messages ∧
    ∃ st, RGInvL dom g T st ∧ m.marginals = (C17G.genGbp dom g m.potentials T inner st.messages).1 := by
  intro g
  have hcl : ∀ c ∈ LocalG.setupCliques meas ([] : CliqueVec ℝ), PGM.Convex.RegOK dom c := by
    intro c hc
    rw [gen_setupCliques] at hc
    simp only [Local.setupCliques, List.map_nil, List.append_nil, List.mem_map] at hc
    obtain ⟨mm, hmm, rfl⟩ := hc
    exact hmeas mm hmm
  have hg : GraphHyp dom g := graphHyp_genN dom _ hcl
  have hgl : GbpLaidHyp dom g := gbpLaidHyp_genN dom _ hwf hdom hcl
  rw [gen_setupModel] at h0
  simp only [Local.setupModel, beq_self_eq_true, if_true, Py.ok.injEq] at h0
  rw [gen_setupPotentials _ (objGBP_potLens dom g inner)] at h1
  simp only [Py.ok.injEq] at h1
  have hm1 : m1 = { m0 with potentials := CliqueVec.zerosV dom g.cliques } := by
    rw [← h1]
    unfold Local.setupPotentials
    cases warm <;> cases prev <;> simp_all [PGM.CVSem.combine_nil] <;> rfl
  have hPm : Laid dom g.cliques m1.potentials := by
    rw [hm1]
    exact laid_zerosV dom g.cliques (fun c hc => (hg.cl_ok c hc).1)
  have hIm : RGInvL dom g T m1 := by
    rw [hm1, ← h0]
    exact ⟨⟨genMessagesN_pos dom _ hdom hcl, rfl⟩, genMessagesN_laid dom _ hwf hdom hcl⟩
  obtain ⟨theta, mu, model', rfl, p1, p2, p3, st, p4, p5⟩ :=
    gen_estimate_inv (objGBP dom g inner) (objGBP_frame dom g inner) halfLaw_real loss _ _ _
      (keeps_gbp_laid dom g inner T loss hT hdom hg hgl hgrad) fuel m1 w oia iters cb log logger m w' hPm hIm h
  refine ⟨p1, p3.1, p3.2, p2.1.2, p2.2, st, p4, ?_⟩
  rw [← p4.1.2]
  exact p5

/-- **`marginal_oracle='approx'`, end to end, for the GENERATED L2 loss — no hypothesis on the loss** -/
theorem gen_local_estimate_tables_valid_approx_L2 (dom : Dom) (meas : List (Loss.Meas ℝ)) (T : ℝ) (inner : Nat)
    (lmeas : List (Loss.Meas ℝ)) (cl' : List Clique) {κ : Type}
    (hT : 0 < T) (hwf : dom.WF) (hdom : PosDom dom) (hmeas : ∀ m ∈ meas, PGM.Convex.RegOK dom m.proj)
    (rest : RGState ℝ) (fac : Dom → List Clique → ℝ → Bool → Nat → RGState ℝ) (warm : Bool) (prev : Option (RGState ℝ))
    (hcold : (warm && prev.isSome) = false)
    (fuel : Nat) (w : κ) (oia : Option ℝ) (iters : Nat) (cb : Option (CliqueVec ℝ → κ → κ)) (log : Bool)
    (logger : CliqueVec ℝ → κ → κ) (m0 m1 m : RGState ℝ) (w' : κ)
    (h0 : LocalG.setupModel (mkRG rest fac) (objGBP dom (genGraphApprox dom (LocalG.setupCliques meas [])) inner) dom
      (.name "approx") (LocalG.setupCliques meas []) T inner = .ok m0)
    (h1 : LocalG.setupPotentials (objGBP dom (genGraphApprox dom (LocalG.setupCliques meas [])) inner) dom [] warm prev
      (.name "approx") m0 = .ok m1)
    (h : LocalG.estimate (objGBP dom (genGraphApprox dom (LocalG.setupCliques meas [])) inner)
      (LocalG.marginalLossL2 dom cl' lmeas) fuel m1 w oia iters cb log logger = .ok (m, w')) :
    let g := genGraphApprox dom (LocalG.setupCliques meas [])
    Laid dom g.cliques m.potentials ∧ TablesOn T g.cliques m.marginals ∧ Laid dom g.cliques m.marginals ∧ m.total = T ∧
    MsgsLaidGBP dom g m.messages ∧
    ∃ st, RGInvL dom g T st ∧ m.marginals = (C17G.genGbp dom g m.potentials T inner st.messages).1 := by
  have hcl : ∀ c ∈ LocalG.setupCliques meas ([] : CliqueVec ℝ), PGM.Convex.RegOK dom c := by
    intro c hc
    rw [gen_setupCliques] at hc
    simp only [Local.setupCliques, List.map_nil, List.append_nil, List.mem_map] at hc
    obtain ⟨mm, hmm, rfl⟩ := hc
    exact hmeas mm hmm
  exact gen_local_estimate_tables_valid_approx_laid dom meas T inner _ hT hwf hdom hmeas
    (fun mu _ hl => gen_local_lossL2_laid dom _ cl' (graphHyp_genN dom _ hcl).cl_nodup lmeas mu hl)
    rest fac warm prev hcold fuel w oia iters cb log logger m0 m1 m w' h0 h1 h

/-- … and for the GENERATED L1 loss -/
theorem gen_local_estimate_tables_valid_approx_L1 (dom : Dom) (meas : List (Loss.Meas ℝ)) (T : ℝ) (inner : Nat)
    (lmeas : List (Loss.Meas ℝ)) (cl' : List Clique) {κ : Type}
    (hT : 0 < T) (hwf : dom.WF) (hdom : PosDom dom) (hmeas : ∀ m ∈ meas, PGM.Convex.RegOK dom m.proj)
    (rest : RGState ℝ) (fac : Dom → List Clique → ℝ → Bool → Nat → RGState ℝ) (warm : Bool) (prev : Option (RGState ℝ))
    (hcold : (warm && prev.isSome) = false)
    (fuel : Nat) (w : κ) (oia : Option ℝ) (iters : Nat) (cb : Option (CliqueVec ℝ → κ → κ)) (log : Bool)
    (logger : CliqueVec ℝ → κ → κ) (m0 m1 m : RGState ℝ) (w' : κ)
    (h0 : LocalG.setupModel (mkRG rest fac) (objGBP dom (genGraphApprox dom (LocalG.setupCliques meas [])) inner) dom
      (.name "approx") (LocalG.setupCliques meas []) T inner = .ok m0)
    (h1 : LocalG.setupPotentials (objGBP dom (genGraphApprox dom (LocalG.setupCliques meas [])) inner) dom [] warm prev
      (.name "approx") m0 = .ok m1)
    (h : LocalG.estimate (objGBP dom (genGraphApprox dom (LocalG.setupCliques meas [])) inner)
      (LocalG.marginalLossL1 dom cl' lmeas) fuel m1 w oia iters cb log logger = .ok (m, w')) :
    let g := genGraphApprox dom (LocalG.setupCliques meas [])
    Laid dom g.cliques m.potentials ∧ TablesOn T g.cliques m.marginals ∧ Laid dom g.cliques m.marginals ∧ m.total = T ∧
    MsgsLaidGBP dom g m.messages ∧
    ∃ st, RGInvL dom g T st ∧ m.marginals = (C17G.genGbp dom g m.potentials T inner st.messages).1 := by
  have hcl : ∀ c ∈ LocalG.setupCliques meas ([] : CliqueVec ℝ), PGM.Convex.RegOK dom c := by
    intro c hc
    rw [gen_setupCliques] at hc
    simp only [Local.setupCliques, List.map_nil, List.append_nil, List.mem_map] at hc
    obtain ⟨mm, hmm, rfl⟩ := hc
    exact hmeas mm hmm
  exact gen_local_estimate_tables_valid_approx_laid dom meas T inner _ hT hwf hdom hmeas
    (fun mu _ hl => gen_local_lossL1_laid dom _ cl' (graphHyp_genN dom _ hcl).cl_nodup lmeas mu hl)
    rest fac warm prev hcold fuel w oia iters cb log logger m0 m1 m w' h0 h1 h

/-! ## the convex oracle (`marginal_oracle='convex'`)

`hazan_peng_shashua` fills `mu` in the order of `self.regions`; the potentials are keyed by `self.cliques =
sorted(self.regions, key=len)` — the same set.  So: marginals and gradient are `Laid` on `g.regions`, the potentials on
`g.cliques`, and `theta - alpha*dL` reads the gradient `get`-wise (`laid_update_get`). -/

/-- `theta - alpha*dL` keeps the layout of `theta` when the gradient has a well-formed table over `c` under every key `c` of
`theta` (whatever the order of its keys) -/
theorem laid_update_get (d : Dom) (cliques : List Clique) (θ g : CliqueVec ℝ) (a : ℝ) (hθ : Laid d cliques θ)
    (hg : ∀ c ∈ cliques, ((CliqueVec.smul (Scalar.neg Scalar.one) (CliqueVec.smul a g)).get c).WF ∧
      ((CliqueVec.smul (Scalar.neg Scalar.one) (CliqueVec.smul a g)).get c).dom = d.project c) :
    Laid d cliques (CliqueVec.subV θ (CliqueVec.smul a g)) := by
  show Laid d cliques (CliqueVec.addV θ (CliqueVec.smul (Scalar.neg Scalar.one) (CliqueVec.smul a g)))
  refine ⟨?_, ?_⟩
  · rw [← hθ.1]
    exact CVSem.keys_map θ (fun k f => f.add ((CliqueVec.smul (Scalar.neg Scalar.one) (CliqueVec.smul a g)).get k))
  · intro p hp
    obtain ⟨q, hq, rfl⟩ := List.mem_map.mp hp
    have hq1 : q.1 ∈ cliques := by rw [← hθ.1]; exact List.mem_map_of_mem hq
    obtain ⟨h1, h2⟩ := hθ.2 q hq
    obtain ⟨h3, h4⟩ := hg q.1 hq1
    obtain ⟨h5, h6⟩ := PGM.Coherent.binop_same_dom Scalar.add q.2 _ h1 h3 (h4.trans h2.symm)
    exact ⟨h5, h6.trans h2⟩

/-- **the domain invariant of the generated `hazan_peng_shashua`** (`iters > 0`): potentials laid out on `g.cliques` and, on every
edge `(p, c)`, both messages tables on `c`, give marginals laid out on `g.regions` and messages with the same layout (any
counting numbers, `total`, damping, convergence threshold) -/
theorem gen_hps_laid (dom : Dom) (g : RG.Graph) (hg : HpsLaidHyp dom g) (c0 : RG.Region → ℝ) (pots : CliqueVec ℝ)
    (T rho conv : ℝ) (iters : Nat) (hi : 0 < iters) (msgs : RGG.Msgs ℝ) (hp : Laid dom g.cliques pots)
    (hm : MsgsLaidHPS dom g msgs) :
    Laid dom g.regions (RGG.hazanPengShashua dom g.regions g.cliques g.children g.parents c0 T rho conv iters pots msgs).1 ∧
    MsgsLaidHPS dom g (RGG.hazanPengShashua dom g.regions g.cliques g.children g.parents c0 T rho conv iters pots msgs).2 := by
  obtain ⟨g0, e1, e2, e3, e4, hl⟩ := hg
  have hmm : ∀ m, MsgsLaidHPS dom g m ↔ MsgsLaidHPS dom g0 m := by
    intro m; unfold MsgsLaidHPS; rw [e1, e3]
  rw [hmm, e1, e2, e3, e4,
    C17G.gen_hps dom g0 c0 pots T rho conv iters msgs (fun r hr p hp' => ((hl.built.parents_dual r hr p).mp hp').1)]
  exact hps_laid dom g0 hl c0 pots T rho conv iters hi msgs (e2 ▸ hp) ((hmm msgs).mp hm)

/-- the messages the generated convex `build_graph` stores have the layout -/
theorem genMessagesC_laid (dom : Dom) (cliques : List Clique) (hwf : dom.WF) (hdom : PosDom dom)
    (hcl : ∀ c ∈ cliques, PGM.Convex.RegOK dom c) :
    MsgsLaidHPS dom (genGraphConvex dom cliques) (genMessagesC dom cliques) := by
  obtain ⟨f1, -, f3, -, -, f6⟩ := genGraphConvex_fields dom cliques hcl
  have hr := genRegions_ok dom cliques true hcl
  have hl := graphLaid_buildOn dom _ true true hwf hdom hr
  unfold MsgsLaidHPS
  rw [f1, f3, f6]
  exact initMessages_laidHPS dom _ hl (fun r => Factor.zeros (dom.project r))
    (fun r hr' => PGM.Convex.zeros_on (hl.region_ok r hr'))

/-- the state invariant of a convex `RegionGraph` during a run, with the layout of the persisted messages -/
def RGInvC (dom : Dom) (g : RG.Graph) (T : ℝ) (s : RGState ℝ) : Prop := RGInv T s ∧ MsgsLaidHPS dom g s.messages

theorem keeps_hps_laid (dom : Dom) (g : RG.Graph) (conv : ℝ) (iters : Nat) (T : ℝ) (loss : CliqueVec ℝ → ℝ × CliqueVec ℝ)
    (hT : 0 < T) (hi : 0 < iters) (hdom : PosDom dom) (hg : GraphHyp dom g) (hgl : HpsLaidHyp dom g)
    (hgrad : ∀ mu, TablesOn T g.regions mu → Laid dom g.regions mu → Laid dom g.regions (loss mu).2) :
    Keeps (pyOps (objHPS dom g (fun _ => (1 : ℝ)) conv iters) loss) (Laid dom g.cliques)
      (fun mu => TablesOn T g.regions mu ∧ Laid dom g.regions mu) (RGInvC dom g T) := by
  refine ⟨?_, ?_, ?_⟩
  · intro st θ hI hP
    obtain ⟨a, b⟩ := hps_call_inv dom g conv iters T hT hi hdom hg st θ hI.1 hP
    obtain ⟨l1, l2⟩ := gen_hps_laid dom g hgl (fun _ => (1 : ℝ)) θ st.total st.damping conv iters hi st.messages hP hI.2
    exact ⟨⟨a, l1⟩, b, l2⟩
  · intro θ a mu hP hQ
    have hL := laid_smul dom g.regions (Scalar.neg Scalar.one) _ (laid_smul dom g.regions a _ (hgrad mu hQ.1 hQ.2))
    exact laid_update_get dom g.cliques θ (loss mu).2 a hP (fun c hc => hL.get c ((hg.reg_cl c).mpr hc))
  · intro st hI
    exact hI

/-- **`marginal_oracle='convex'`, end to end, with the layout**: as `C18E.gen_local_estimate_tables_valid_convex` (plus: the
attribute names of the domain are distinct); `hgrad` speaks of the layout on `g.regions` — the key order of the marginals — both
in its premise and in its conclusion, and the stored marginals are laid out on `g.regions` -/
theorem gen_local_estimate_tables_valid_convex_laid (dom : Dom) (meas : List (Loss.Meas ℝ)) (T conv : ℝ) (inner : Nat)
    (loss : CliqueVec ℝ → ℝ × CliqueVec ℝ) {κ : Type}
    (hT : 0 < T) (hi : 0 < inner) (hwf : dom.WF) (hdom : PosDom dom) (hmeas : ∀ m ∈ meas, PGM.Convex.RegOK dom m.proj)
    (hgrad : ∀ mu, TablesOn T (genGraphConvex dom (LocalG.setupCliques meas [])).regions mu →
      Laid dom (genGraphConvex dom (LocalG.setupCliques meas [])).regions mu →
      Laid dom (genGraphConvex dom (LocalG.setupCliques meas [])).regions (loss mu).2)
    (rest : RGState ℝ) (fac : Dom → List Clique → ℝ → Bool → Nat → RGState ℝ) (warm : Bool) (prev : Option (RGState ℝ))
    (hcold : (warm && prev.isSome) = false)
    (fuel : Nat) (w : κ) (oia : Option ℝ) (iters : Nat) (cb : Option (CliqueVec ℝ → κ → κ)) (log : Bool)
    (logger : CliqueVec ℝ → κ → κ) (m0 m1 m : RGState ℝ) (w' : κ)
    (h0 : LocalG.setupModel (mkRG rest fac)
      (objHPS dom (genGraphConvex dom (LocalG.setupCliques meas [])) (fun _ => (1 : ℝ)) conv inner) dom
      (.name "convex") (LocalG.setupCliques meas []) T inner = .ok m0)
    (h1 : LocalG.setupPotentials (objHPS dom (genGraphConvex dom (LocalG.setupCliques meas [])) (fun _ => (1 : ℝ)) conv inner)
      dom [] warm prev (.name "convex") m0 = .ok m1)
    (h : LocalG.estimate (objHPS dom (genGraphConvex dom (LocalG.setupCliques meas [])) (fun _ => (1 : ℝ)) conv inner) loss
      fuel m1 w oia iters cb log logger = .ok (m, w')) :
    let g := genGraphConvex dom (LocalG.setupCliques meas [])
    Laid dom g.cliques m.potentials ∧ TablesOn T g.regions m.marginals ∧ Laid dom g.regions m.marginals ∧ m.total = T ∧
    MsgsLaidHPS dom g m.messages ∧
    ∃ st, RGInvC dom g T st ∧ m.marginals = (C17G.genHps dom g m.potentials T st.damping conv inner st.messages).1 := by
  intro g
  have hcl : ∀ c ∈ LocalG.setupCliques meas ([] : CliqueVec ℝ), PGM.Convex.RegOK dom c := by
    intro c hc
    rw [gen_setupCliques] at hc
    simp only [Local.setupCliques, List.map_nil, List.append_nil, List.mem_map] at hc
    obtain ⟨mm, hmm, rfl⟩ := hc
    exact hmeas mm hmm
  have hg : GraphHyp dom g := graphHyp_genC dom _ hcl
  have hgl : HpsLaidHyp dom g := hpsLaidHyp_genC dom _ hwf hdom hcl
  rw [gen_setupModel] at h0
  have h0' : m0 = (mkRG rest fac).region dom (LocalG.setupCliques meas []) T true inner := by
    unfold Local.setupModel at h0
    simp at h0
    exact h0.symm
  rw [gen_setupPotentials _ (objHPS_potLens dom g _ conv inner)] at h1
  simp only [Py.ok.injEq] at h1
  have hm1 : m1 = { m0 with potentials := CliqueVec.zerosV dom g.cliques } := by
    rw [← h1]
    unfold Local.setupPotentials
    cases warm <;> cases prev <;> simp_all [PGM.CVSem.combine_nil] <;> rfl
  have hPm : Laid dom g.cliques m1.potentials := by
    rw [hm1]
    exact laid_zerosV dom g.cliques (fun c hc => (hg.cl_ok c hc).1)
  have hIm : RGInvC dom g T m1 := by
    rw [hm1, h0']
    exact ⟨⟨genMessagesC_pos dom _ hdom hcl, rfl⟩, genMessagesC_laid dom _ hwf hdom hcl⟩
  obtain ⟨theta, mu, model', rfl, p1, p2, p3, st, p4, p5⟩ :=
    gen_estimate_inv (objHPS dom g (fun _ => (1 : ℝ)) conv inner) (objHPS_frame dom g _ conv inner) halfLaw_real loss _ _ _
      (keeps_hps_laid dom g conv inner T loss hT hi hdom hg hgl hgrad) fuel m1 w oia iters cb log logger m w' hPm hIm h
  refine ⟨p1, p3.1, p3.2, p2.1.2, p2.2, st, p4, ?_⟩
  rw [← p4.1.2]
  exact p5

/-- **`marginal_oracle='convex'`, end to end, for the GENERATED L2 loss — no hypothesis on the loss** -/
theorem gen_local_estimate_tables_valid_convex_L2 (dom : Dom) (meas : List (Loss.Meas ℝ)) (T conv : ℝ) (inner : Nat)
    (lmeas : List (Loss.Meas ℝ)) (cl' : List Clique) {κ : Type}
    (hT : 0 < T) (hi : 0 < inner) (hwf : dom.WF) (hdom : PosDom dom) (hmeas : ∀ m ∈ meas, PGM.Convex.RegOK dom m.proj)
    (rest : RGState ℝ) (fac : Dom → List Clique → ℝ → Bool → Nat → RGState ℝ) (warm : Bool) (prev : Option (RGState ℝ))
    (hcold : (warm && prev.isSome) = false)
    (fuel : Nat) (w : κ) (oia : Option ℝ) (iters : Nat) (cb : Option (CliqueVec ℝ → κ → κ)) (log : Bool)
    (logger : CliqueVec ℝ → κ → κ) (m0 m1 m : RGState ℝ) (w' : κ)
    (h0 : LocalG.setupModel (mkRG rest fac)
      (objHPS dom (genGraphConvex dom (LocalG.setupCliques meas [])) (fun _ => (1 : ℝ)) conv inner) dom
      (.name "convex") (LocalG.setupCliques meas []) T inner = .ok m0)
    (h1 : LocalG.setupPotentials (objHPS dom (genGraphConvex dom (LocalG.setupCliques meas [])) (fun _ => (1 : ℝ)) conv inner)
      dom [] warm prev (.name "convex") m0 = .ok m1)
    (h : LocalG.estimate (objHPS dom (genGraphConvex dom (LocalG.setupCliques meas [])) (fun _ => (1 : ℝ)) conv inner)
      (LocalG.marginalLossL2 dom cl' lmeas) fuel m1 w oia iters cb log logger = .ok (m, w')) :
    let g := genGraphConvex dom (LocalG.setupCliques meas [])
    Laid dom g.cliques m.potentials ∧ TablesOn T g.regions m.marginals ∧ Laid dom g.regions m.marginals ∧ m.total = T ∧
    MsgsLaidHPS dom g m.messages ∧
    ∃ st, RGInvC dom g T st ∧ m.marginals = (C17G.genHps dom g m.potentials T st.damping conv inner st.messages).1 := by
  have hcl : ∀ c ∈ LocalG.setupCliques meas ([] : CliqueVec ℝ), PGM.Convex.RegOK dom c := by
    intro c hc
    rw [gen_setupCliques] at hc
    simp only [Local.setupCliques, List.map_nil, List.append_nil, List.mem_map] at hc
    obtain ⟨mm, hmm, rfl⟩ := hc
    exact hmeas mm hmm
  exact gen_local_estimate_tables_valid_convex_laid dom meas T conv inner _ hT hi hwf hdom hmeas
    (fun mu _ hl => gen_local_lossL2_laid dom _ cl' (graphHyp_genC dom _ hcl).reg_nodup lmeas mu hl)
    rest fac warm prev hcold fuel w oia iters cb log logger m0 m1 m w' h0 h1 h

/-- … and for the GENERATED L1 loss -/
theorem gen_local_estimate_tables_valid_convex_L1 (dom : Dom) (meas : List (Loss.Meas ℝ)) (T conv : ℝ) (inner : Nat)
    (lmeas : List (Loss.Meas ℝ)) (cl' : List Clique) {κ : Type}
    (hT : 0 < T) (hi : 0 < inner) (hwf : dom.WF) (hdom : PosDom dom) (hmeas : ∀ m ∈ meas, PGM.Convex.RegOK dom m.proj)
    (rest : RGState ℝ) (fac : Dom → List Clique → ℝ → Bool → Nat → RGState ℝ) (warm : Bool) (prev : Option (RGState ℝ))
    (hcold : (warm && prev.isSome) = false)
    (fuel : Nat) (w : κ) (oia : Option ℝ) (iters : Nat) (cb : Option (CliqueVec ℝ → κ → κ)) (log : Bool)
    (logger : CliqueVec ℝ → κ → κ) (m0 m1 m : RGState ℝ) (w' : κ)
    (h0 : LocalG.setupModel (mkRG rest fac)
      (objHPS dom (genGraphConvex dom (LocalG.setupCliques meas [])) (fun _ => (1 : ℝ)) conv inner) dom
      (.name "convex") (LocalG.setupCliques meas []) T inner = .ok m0)
    (h1 : LocalG.setupPotentials (objHPS dom (genGraphConvex dom (LocalG.setupCliques meas [])) (fun _ => (1 : ℝ)) conv inner)
      dom [] warm prev (.name "convex") m0 = .ok m1)
    (h : LocalG.estimate (objHPS dom (genGraphConvex dom (LocalG.setupCliques meas [])) (fun _ => (1 : ℝ)) conv inner)
      (LocalG.marginalLossL1 dom cl' lmeas) fuel m1 w oia iters cb log logger = .ok (m, w')) :
    let g := genGraphConvex dom (LocalG.setupCliques meas [])
    Laid dom g.cliques m.potentials ∧ TablesOn T g.regions m.marginals ∧ Laid dom g.regions m.marginals ∧ m.total = T ∧
    MsgsLaidHPS dom g m.messages ∧
    ∃ st, RGInvC dom g T st ∧ m.marginals = (C17G.genHps dom g m.potentials T st.damping conv inner st.messages).1 := by
  have hcl : ∀ c ∈ LocalG.setupCliques meas ([] : CliqueVec ℝ), PGM.Convex.RegOK dom c := by
    intro c hc
    rw [gen_setupCliques] at hc
    simp only [Local.setupCliques, List.map_nil, List.append_nil, List.mem_map] at hc
    obtain ⟨mm, hmm, rfl⟩ := hc
    exact hmeas mm hmm
  exact gen_local_estimate_tables_valid_convex_laid dom meas T conv inner _ hT hi hwf hdom hmeas
    (fun mu _ hl => gen_local_lossL1_laid dom _ cl' (graphHyp_genC dom _ hcl).reg_nodup lmeas mu hl)
    rest fac warm prev hcold fuel w oia iters cb log logger m0 m1 m w' h0 h1 h

/-! ## the hypotheses are jointly satisfiable (the instance of `C18E`: `{a,b}`, `{b,c}` over `a:2, b:3, c:2`, generated L2 loss
on the measurements themselves, one iteration, cold start) -/

section examples

theorem exDom_wf : exDom.WF := by decide

theorem exCl_ok : ∀ c ∈ LocalG.setupCliques exMeas ([] : CliqueVec ℝ), PGM.Convex.RegOK exDom c := by
  intro c hc
  rw [gen_setupCliques] at hc
  simp only [Local.setupCliques, List.map_nil, List.append_nil, List.mem_map] at hc
  obtain ⟨mm, hmm, rfl⟩ := hc
  exact exMeas_ok mm hmm

/-! ### why the C18E forms are not the ones to cite: their `hgrad` fails for the real generated loss

`C18E.gen_local_estimate_tables_valid_convex` asks `∀ mu, TablesOn T g.regions mu → Laid dom g.cliques (loss mu).2`.  The
generated `_marginal_loss` returns a gradient with the keys of its ARGUMENT (`for cl in marginals`), i.e. keyed by `g.regions`,
while `Laid dom g.cliques` wants the key list `g.cliques = sorted(g.regions, key=len)`; on the instance the two orders differ
(`[ab, bc, b]` vs `[b, ab, bc]`), so `hgrad` is false even at perfectly well-formed marginals.  (For 'approx' / 'pairwise' the
C18E `hgrad` fails on tables with valid VALUES but junk domains, which `TablesOn` admits; `audit/scratch/c18_more.lean`.)
The `…_L2` / `…_L1` theorems above have no such hypothesis. -/


/-- perfectly well-formed uniform tables on the regions [ab, bc, b] of exMeas, total 6 -/
def goodMu : CliqueVec ℝ :=
  [(["a","b"], ⟨[("a",2),("b",3)], ⟨[2,3], #[1,1,1,1,1,1]⟩⟩),
   (["b","c"], ⟨[("b",3),("c",2)], ⟨[3,2], #[1,1,1,1,1,1]⟩⟩),
   (["b"], ⟨[("b",3)], ⟨[3], #[2,2,2]⟩⟩)]

theorem exConvex_regions : (genGraphConvex exDom (LocalG.setupCliques exMeas [])).regions = [["a","b"],["b","c"],["b"]] := by
  have : LocalG.setupCliques exMeas ([] : CliqueVec ℝ) = [["a","b"],["b","c"]] := rfl
  unfold genGraphConvex
  rw [this]
  decide
theorem exConvex_cliques : (genGraphConvex exDom (LocalG.setupCliques exMeas [])).cliques = [["b"],["a","b"],["b","c"]] := by
  have : LocalG.setupCliques exMeas ([] : CliqueVec ℝ) = [["a","b"],["b","c"]] := rfl
  unfold genGraphConvex
  rw [this]
  decide

theorem goodMu_tables : TablesOn 6 (genGraphConvex exDom (LocalG.setupCliques exMeas [])).regions goodMu := by
  rw [exConvex_regions]
  refine ⟨rfl, ?_⟩
  intro p hp
  simp only [goodMu, List.mem_cons, List.not_mem_nil, or_false] at hp
  rcases hp with rfl | rfl | rfl <;> refine ⟨?_, ?_⟩ <;> simp [Factor.datavector] <;> norm_num

theorem goodMu_laid : Laid exDom [["a","b"],["b","c"],["b"]] goodMu := by
  refine ⟨rfl, ?_⟩
  intro p hp
  simp only [goodMu, List.mem_cons, List.not_mem_nil, or_false] at hp
  rcases hp with rfl | rfl | rfl <;> exact ⟨by decide, by decide⟩

/-- **machine-checked witness (independent audit): the hypothesis `hgrad` of `C18E.gen_local_estimate_tables_valid_convex` is FALSE** for the generated `_marginal_loss`, even at well-formed marginals:
the gradient is keyed like `mu` (by `regions`), hgrad wants it keyed by `cliques = sorted(regions, key=len)` -/
theorem hgrad_convex_false :
    ¬ (∀ mu, TablesOn 6 (genGraphConvex exDom (LocalG.setupCliques exMeas [])).regions mu →
        Laid exDom (genGraphConvex exDom (LocalG.setupCliques exMeas [])).cliques
          (LocalG.marginalLossL2 exDom (genGraphConvex exDom (LocalG.setupCliques exMeas [])).cliques exMeas mu).2) := by
  intro h
  have h1 := (h goodMu goodMu_tables).1
  rw [exConvex_cliques] at h1
  have : (LocalG.marginalLossL2 exDom [["b"],["a","b"],["b","c"]] exMeas goodMu).2.map Prod.fst
      = [["a","b"],["b","c"],["b"]] := by rfl
  rw [this] at h1
  exact absurd h1 (by decide)

/-- and for ANY loss whose gradient has the keys of its argument (what `_marginal_loss` does: `for cl in marginals`) -/
theorem hgrad_convex_false_any (loss : CliqueVec ℝ → ℝ × CliqueVec ℝ)
    (hkeys : ∀ mu, (loss mu).2.map Prod.fst = mu.map Prod.fst) :
    ¬ (∀ mu, TablesOn 6 (genGraphConvex exDom (LocalG.setupCliques exMeas [])).regions mu →
        Laid exDom (genGraphConvex exDom (LocalG.setupCliques exMeas [])).cliques (loss mu).2) := by
  intro h
  have h1 := (h goodMu goodMu_tables).1
  rw [exConvex_cliques, hkeys] at h1
  exact absurd h1 (by decide)

/-- `gen_local_estimate_tables_valid_pairwise_L2` -/
example : let cl := LocalG.setupCliques exMeas ([] : CliqueVec ℝ)
    let junk : Dom → List Clique → ℝ → Bool → Nat → FGState ℝ := fun _ _ _ _ _ => ⟨[], ([], []), 1⟩
    (0 : ℝ) < 10 ∧ PosDom exDom ∧ (∀ m ∈ exMeas, PGM.Convex.RegOK exDom m.proj) ∧ (exMeas.map (·.proj)).Nodup ∧
    ∃ m0 m1 m w',
      LocalG.setupModel (mkFG junk junk) (objLBP exDom cl 1) exDom (.name "pairwise") cl 10 1 = .ok m0 ∧
      LocalG.setupPotentials (objLBP exDom cl 1) exDom [] false none (.name "pairwise") m0 = .ok m1 ∧
      LocalG.estimate (objLBP exDom cl 1) (LocalG.marginalLossL2 exDom cl exMeas) 1 m1 () none 1
        (none : Option (CliqueVec ℝ → Unit → Unit)) false (fun _ u => u) = .ok (m, w') := by
  intro cl junk
  refine ⟨by norm_num, exDom_pos, exMeas_ok, by decide, ?_⟩
  rw [gen_setupModel]
  obtain ⟨m, w', h⟩ := gen_estimate_one_iter_ok (objLBP exDom cl 1) (objLBP_frame exDom cl 1) halfLaw_real
    (LocalG.marginalLossL2 exDom cl exMeas) 0
    ((objLBP exDom cl 1).setPot ((mkFG junk junk).factor exDom cl 10 false 1) (CliqueVec.zerosV exDom cl)) () none
    (none : Option (CliqueVec ℝ → Unit → Unit)) false (fun _ u => u)
  refine ⟨(mkFG junk junk).factor exDom cl 10 false 1, _, m, w', ?_, ?_, h⟩
  · unfold Local.setupModel; simp
  · rw [gen_setupPotentials _ (objLBP_potLens exDom cl 1)]; rfl

/-- `gen_local_estimate_tables_valid_approx_L2` -/
example : let g := genGraphApprox exDom (LocalG.setupCliques exMeas [])
    let rest : RGState ℝ := ⟨[], [], [], 1 / 2, 1⟩
    (0 : ℝ) < 10 ∧ exDom.WF ∧ PosDom exDom ∧ (∀ m ∈ exMeas, PGM.Convex.RegOK exDom m.proj) ∧
    ∃ m0 m1 m w',
      LocalG.setupModel (mkRG rest (fun _ _ _ _ _ => rest)) (objGBP exDom g 1) exDom (.name "approx")
        (LocalG.setupCliques exMeas []) 10 1 = .ok m0 ∧
      LocalG.setupPotentials (objGBP exDom g 1) exDom [] false none (.name "approx") m0 = .ok m1 ∧
      LocalG.estimate (objGBP exDom g 1) (LocalG.marginalLossL2 exDom g.cliques exMeas) 1 m1 () none 1
        (none : Option (CliqueVec ℝ → Unit → Unit)) false (fun _ u => u) = .ok (m, w') := by
  intro g rest
  refine ⟨by norm_num, exDom_wf, exDom_pos, exMeas_ok, ?_⟩
  rw [gen_setupModel]
  obtain ⟨m, w', h⟩ := gen_estimate_one_iter_ok (objGBP exDom g 1) (objGBP_frame exDom g 1) halfLaw_real
    (LocalG.marginalLossL2 exDom g.cliques exMeas) 0
    ((objGBP exDom g 1).setPot ((mkRG rest (fun _ _ _ _ _ => rest)).region exDom (LocalG.setupCliques exMeas []) 10 false 1)
      (CliqueVec.zerosV exDom g.cliques)) () none (none : Option (CliqueVec ℝ → Unit → Unit)) false (fun _ u => u)
  refine ⟨(mkRG rest (fun _ _ _ _ _ => rest)).region exDom (LocalG.setupCliques exMeas []) 10 false 1, _, m, w', ?_, ?_, h⟩
  · unfold Local.setupModel; simp
  · rw [gen_setupPotentials _ (objGBP_potLens exDom g 1)]; rfl

/-- `gen_local_estimate_tables_valid_convex_L2` -/
example : let g := genGraphConvex exDom (LocalG.setupCliques exMeas [])
    let rest : RGState ℝ := ⟨[], [], [], 1 / 2, 1⟩
    (0 : ℝ) < 10 ∧ 0 < 1 ∧ exDom.WF ∧ PosDom exDom ∧ (∀ m ∈ exMeas, PGM.Convex.RegOK exDom m.proj) ∧
    ∃ m0 m1 m w',
      LocalG.setupModel (mkRG rest (fun _ _ _ _ _ => rest)) (objHPS exDom g (fun _ => (1 : ℝ)) (1 / 1000) 1) exDom
        (.name "convex") (LocalG.setupCliques exMeas []) 10 1 = .ok m0 ∧
      LocalG.setupPotentials (objHPS exDom g (fun _ => (1 : ℝ)) (1 / 1000) 1) exDom [] false none (.name "convex") m0 = .ok m1 ∧
      LocalG.estimate (objHPS exDom g (fun _ => (1 : ℝ)) (1 / 1000) 1) (LocalG.marginalLossL2 exDom g.cliques exMeas) 1 m1 ()
        none 1 (none : Option (CliqueVec ℝ → Unit → Unit)) false (fun _ u => u) = .ok (m, w') := by
  intro g rest
  refine ⟨by norm_num, by norm_num, exDom_wf, exDom_pos, exMeas_ok, ?_⟩
  rw [gen_setupModel]
  obtain ⟨m, w', h⟩ := gen_estimate_one_iter_ok (objHPS exDom g (fun _ => (1 : ℝ)) (1 / 1000) 1)
    (objHPS_frame exDom g _ _ 1) halfLaw_real (LocalG.marginalLossL2 exDom g.cliques exMeas) 0
    ((objHPS exDom g (fun _ => (1 : ℝ)) (1 / 1000) 1).setPot
      ((mkRG rest (fun _ _ _ _ _ => rest)).region exDom (LocalG.setupCliques exMeas []) 10 true 1)
      (CliqueVec.zerosV exDom g.cliques)) () none (none : Option (CliqueVec ℝ → Unit → Unit)) false (fun _ u => u)
  refine ⟨(mkRG rest (fun _ _ _ _ _ => rest)).region exDom (LocalG.setupCliques exMeas []) 10 true 1, _, m, w', ?_, ?_, h⟩
  · unfold Local.setupModel; simp
  · rw [gen_setupPotentials _ (objHPS_potLens exDom g _ _ 1)]; rfl

/-- the message-layout hypotheses of the three domain invariants hold at the generated initial messages of the instance, and the
zero potentials are laid out: `gen_lbp_laid`, `gen_gbp_laid`, `gen_hps_laid` apply -/
example : let cl := LocalG.setupCliques exMeas ([] : CliqueVec ℝ)
    (MsgsLaidG exDom cl (FGG.init (α := ℝ) exDom cl 10 1).2.2.2.2.2.2.2.2.2.1 ∧ Laid (α := ℝ) exDom cl (CliqueVec.zerosV exDom cl)) ∧
    (GbpLaidHyp exDom (genGraphApprox exDom cl) ∧ MsgsLaidGBP exDom (genGraphApprox exDom cl) (genMessagesN exDom cl)) ∧
    (HpsLaidHyp exDom (genGraphConvex exDom cl) ∧ MsgsLaidHPS exDom (genGraphConvex exDom cl) (genMessagesC exDom cl)) := by
  intro cl
  exact ⟨⟨gen_init_messages_laid exDom cl 10 1, laid_zerosV exDom cl (fun c hc => (exCl_ok c hc).1)⟩,
    ⟨gbpLaidHyp_genN exDom cl exDom_wf exDom_pos exCl_ok, genMessagesN_laid exDom cl exDom_wf exDom_pos exCl_ok⟩,
    ⟨hpsLaidHyp_genC exDom cl exDom_wf exDom_pos exCl_ok, genMessagesC_laid exDom cl exDom_wf exDom_pos exCl_ok⟩⟩

end examples

end PGM.C18H
