import PGM.Proofs.JTSchedule
import PGM.Proofs.JTScheduleExists
import PGM.Proofs.JTSchedulePicks
import PGM.Proofs.JTScheduleDet
/-!
# C12 (continued) — the message schedule `mp_order` and the stochastic / integer elimination modes

`JunctionTree.mp_order` hands the dependency digraph of the directed tree edges to
`nx.topological_sort`.  networkx is modelled by contract (`isTopoSort`: *some* linear extension), so
the theorems quantify over every order the contract allows: each is a valid schedule
(`mp_order_valid`), and one always exists (`mp_order_exists`: the digraph is acyclic, so
`NetworkXUnfeasible` cannot be raised).

`_greedy_order(stochastic=True)` draws the attribute to eliminate at random; `greedyOrderPicks` takes
the drawn indices as an argument, so the theorems hold for every outcome of the draws.
-/
namespace PGM.C12
open PGM PGM.JT

/-- the 3-node path used in the non-vacuity examples -/
def exTree : Tree :=
  ⟨[["a", "b"], ["b", "c"], ["c", "d"]], [(["a", "b"], ["b", "c"]), (["b", "c"], ["c", "d"])]⟩

/-- one linear extension of its dependency digraph -/
def exOrder : List Msg :=
  [(["a", "b"], ["b", "c"]), (["c", "d"], ["b", "c"]), (["b", "c"], ["a", "b"]), (["b", "c"], ["c", "d"])]

/-- **1. every order `nx.topological_sort` may return is a valid message schedule**: it lists each
direction of each tree edge exactly once, and every message only after all messages it depends on.
(The duplicate-freeness of `messages t` is derived from `isTree`: see `isTree_messages_nodup`.) -/
theorem mp_order_valid (t : Tree) (ht : isTree t = true) (order : List Msg)
    (h : isTopoSort (messages t) (depEdges t) order = true) :
    scheduleComplete t order = true ∧ scheduleRespects t [] order = true :=
  JT.mp_order_valid t ht order h

example : isTree exTree = true ∧
    isTopoSort (messages exTree) (depEdges exTree) exOrder = true := by decide

/-- a tree lists no edge twice and no edge in both directions, so the `2(n-1)` messages are
distinct -/
theorem isTree_messages_nodup (t : Tree) (h : isTree t = true) : JT.nodup (messages t) = true :=
  JT.isTree_messages_nodup t h

/-- **2. the dependency digraph of a tree is acyclic**: a topological sort exists, so
`nx.topological_sort` cannot raise `NetworkXUnfeasible` inside `mp_order` -/
theorem mp_order_exists (t : Tree) (ht : isTree t = true) :
    ∃ order, isTopoSort (messages t) (depEdges t) order = true :=
  JT.mp_order_exists t ht

example : isTree exTree = true := by decide

/-- the same fact in chain form: no message depends, through any chain of arcs, on itself -/
theorem depEdges_no_cycle (t : Tree) (ht : isTree t = true) (m : Msg) (chain : List Msg)
    (hchain : List.IsChain (fun x y => (x, y) ∈ depEdges t) (m :: chain ++ [m])) : False :=
  JT.depEdges_no_cycle t ht m chain hchain

/-- **3. `depEdges` is the arc set built by the double loop of `mp_order`** -/
theorem depEdges_spec (t : Tree) (m1 m2 : Msg) :
    (m1, m2) ∈ depEdges t ↔
      m1 ∈ messages t ∧ m2 ∈ messages t ∧ m1.2 = m2.1 ∧ m1.1 ≠ m2.2 :=
  JT.depEdges_spec t m1 m2

example : ((["a", "b"], ["b", "c"]), (["b", "c"], ["c", "d"])) ∈ depEdges exTree ∧
    ((["a", "b"], ["b", "c"]), (["b", "c"], ["a", "b"])) ∉ depEdges exTree := by decide

/-- **4. the stochastic elimination order is a permutation of the attributes**, whatever indices
`np.random.choice` draws (`picksInRange n picks`: the `k`-th draw is `< n - k`) -/
theorem greedyOrderPicks_perm (d : Dom) (cliques : List Clique) (attrs : List Attr)
    (picks : List Nat) (hnd : attrs.Nodup) (hlen : picks.length = attrs.length)
    (hrange : picksInRange attrs.length picks = true) :
    (greedyOrderPicks d cliques attrs picks).1.Perm attrs :=
  JT.greedyOrderPicks_perm d picks cliques attrs hnd hlen hrange

/-- `picksInRange` says what it should -/
theorem picksInRange_iff (n : Nat) (picks : List Nat) :
    picksInRange n picks = true ↔ ∀ k (h : k < picks.length), picks[k] < n - k :=
  JT.picksInRange_iff n picks

example : ["a", "b", "c", "d"].Nodup ∧ [2, 0, 1, 0].length = ["a", "b", "c", "d"].length ∧
    picksInRange ["a", "b", "c", "d"].length [2, 0, 1, 0] = true := by decide

/-- **5. `min(orders, key=cost)` returns a member of least cost** … -/
theorem firstMin_mem (l : List (List Attr × Nat)) (o : List Attr × Nat)
    (h : firstMin l = some o) : o ∈ l ∧ ∀ x ∈ l, o.2 ≤ x.2 :=
  JT.firstMin_mem l o h

/-- … the first such (every earlier candidate is strictly more expensive) -/
theorem firstMin_first (l : List (List Attr × Nat)) (o : List Attr × Nat)
    (h : firstMin l = some o) :
    ∃ pre post, l = pre ++ o :: post ∧ ∀ x ∈ pre, o.2 < x.2 :=
  JT.firstMin_first l o h

example : firstMin [(["a", "b"], 5), (["b", "a"], 3), (["a", "b"], 3)] = some (["b", "a"], 3) := by
  decide

/-- **integer mode**: if every candidate order is a permutation of `attrs`, the candidate list being
non-empty, `min` returns one, of least cost, and it is a permutation of `attrs` -/
theorem int_mode_order_perm (attrs : List Attr) (l : List (List Attr × Nat)) (hne : l ≠ [])
    (hall : ∀ x ∈ l, x.1.Perm attrs) :
    ∃ o, firstMin l = some o ∧ o ∈ l ∧ (∀ x ∈ l, o.2 ≤ x.2) ∧ o.1.Perm attrs :=
  JT.int_mode_order_perm attrs l hne hall

example : [(["a", "b"], 5), (["b", "a"], 3)] ≠ [] ∧
    ∀ x ∈ [(["a", "b"], 5), (["b", "a"], 3)], x.1.Perm ["a", "b"] := by decide

/-- integer mode instantiated with the candidates `_make_tree(order = n)` really builds (the
deterministic order first, then one stochastic order per sequence of draws): the chosen elimination
order is a permutation of the domain's attributes, so `triangulate_isPEO` applies to it -/
theorem int_mode_make_tree_perm (d : Dom) (cliques : List Clique) (attrs : List Attr)
    (hnd : attrs.Nodup) (draws : List (List Nat))
    (hdraws : ∀ picks ∈ draws, picks.length = attrs.length ∧
      picksInRange attrs.length picks = true) :
    ∃ o, firstMin (intModeCandidates d cliques attrs draws) = some o ∧ o.1.Perm attrs :=
  JT.int_mode_make_tree_perm d cliques attrs hnd draws hdraws

/-- **6. the two modes describe the same loop**: when every pick is the index of the first unmarked
attribute of least `elimCost` (`detPicks`), `greedyOrderPicks` returns the order of `greedyOrder`
together with its accumulated cost -/
theorem greedyCost_eq (d : Dom) (cliques : List Clique) (attrs : List Attr) (picks : List Nat)
    (hnd : attrs.Nodup) (hdet : detPicks d cliques attrs picks = true) :
    greedyOrderPicks d cliques attrs picks =
      (greedyOrder d cliques attrs attrs.length,
        greedyCost d cliques (greedyOrder d cliques attrs attrs.length)) :=
  JT.greedyOrderPicks_det d picks cliques attrs hnd hdet

/-- `isFirstMinIdx f l i`: `i` is a valid index, `l[i]` has least key, and strictly less than every
earlier element -/
theorem isFirstMinIdx_iff (f : Attr → Nat) (l : List Attr) (i : Nat) :
    isFirstMinIdx f l i = true ↔
      ∃ h : i < l.length, (∀ k (hk : k < l.length), f l[i] ≤ f l[k]) ∧
        ∀ k (hk : k < i), f l[i] < f l[k] :=
  JT.isFirstMinIdx_iff f l i

/-- such picks exist for every input (and are in range), so `greedyCost_eq` is not vacuous -/
theorem detPicks_exists (d : Dom) (cliques : List Clique) (attrs : List Attr) (hnd : attrs.Nodup) :
    ∃ picks, detPicks d cliques attrs picks = true ∧ picks.length = attrs.length ∧
      picksInRange attrs.length picks = true :=
  JT.detPicks_exists d attrs.length cliques attrs hnd rfl

example : detPicks [("a", 3), ("b", 3), ("c", 2)] [["a", "b"], ["b", "c"]] ["a", "b", "c"] [2, 0, 0]
    = true := by decide

end PGM.C12
