import PGM.Proofs.CliqueVecSem
/-!
# C14 (part B) — `CliqueVector` arithmetic is clique-by-clique, by attribute name

Property theorems only; proofs live in `PGM/Proofs/CliqueVecSem.lean`.  The theorems are about the
model `PGM/Model/Solvers.lean` (namespace `CliqueVec`: `smul`, `addV`, `subV`, `dotV`, `zerosV`,
`combine`), the transcription of `src/mbi/clique_vector.py` on top of the factor model of C14.

A `CliqueVec α` is the Python dictionary as an association list in insertion order; `v.map Prod.fst`
is its key list and `v.get c` the factor stored under `c` (the first entry with that key).
`f.sem σ` is the value of factor `f` at the joint assignment `σ : Attr → Nat`, looked up through `f`'s
own attribute order.  Every statement holds for an arbitrary scalar type — no algebraic law is used.

The running example `Ex` (exact extended rationals) instantiates the hypotheses of each theorem.
-/
namespace PGM.C14
open PGM PGM.JT PGM.CVSem CliqueVec

variable {α : Type} [Scalar α]

/-! ### a concrete instance used by the `example`s -/
namespace Ex
/-- three attributes of sizes 2, 3, 2 -/
def d : Dom := [("a", 2), ("b", 3), ("c", 2)]
/-- the table over `d.project c` with the given row-major integer entries -/
def tab (c : Clique) (xs : List Int) : Factor ExtQ :=
  Factor.mk' (d.project c) ⟨(d.project c).shape, (xs.map (fun x => ExtQ.fin x)).toArray⟩
/-- two overlapping keys -/
def self : CliqueVec ExtQ :=
  [(["a", "b"], tab ["a", "b"] [1, 2, 3, 4, 5, 6]), (["b", "c"], tab ["b", "c"] [10, 20, 30, 40, 50, 60])]
/-- same keys, the first table stored with its axes in the other order -/
def vec2 : CliqueVec ExtQ :=
  [(["b", "c"], tab ["b", "c"] [1, 1, 1, 1, 1, 1]), (["a", "b"], tab ["b", "a"] [7, 8, 9, 10, 11, 12])]
/-- `["b"]` is inside both keys, `["d"]` inside none, `["c","b"]` is a transposed sub-clique of the
second key, `["a"]` is inside the first key only -/
def other : CliqueVec ExtQ :=
  [(["b"], tab ["b"] [100, 200, 300]), (["d"], tab ["d"] []),
   (["c", "b"], tab ["c", "b"] [1, 2, 3, 4, 5, 6]), (["a"], tab ["a"] [1000, 2000])]
def σ : Attr → Nat := fun x => if x = "b" then 2 else 1
end Ex

/-! ### 1. keys -/

/-- `const * v`, `a + b`, `a - b` have exactly the keys of their first argument, in order;
`self.combine(other)` keeps the keys of `self` -/
theorem cv_keys (k : α) (a b : CliqueVec α) :
    (smul k a).map Prod.fst = a.map Prod.fst ∧
    (addV a b).map Prod.fst = a.map Prod.fst ∧
    (subV a b).map Prod.fst = a.map Prod.fst ∧
    (combine a b).map Prod.fst = a.map Prod.fst :=
  ⟨keys_smul k a, keys_addV a b, keys_subV a b, keys_combine a b⟩

/-! ### 2. scalar multiple -/

/-- `(k * v)[c]` at `σ` is `nan_to_num(k * v[c](σ))` — `Factor.__mul__` by a scalar applies
`np.nan_to_num` — over the same domain, and well-formed -/
theorem sem_smul (k : α) (v : CliqueVec α) (c : Clique) (σ : Attr → Nat)
    (hc : c ∈ v.map Prod.fst) (hw : (v.get c).WF) (hσ : (v.get c).dom.Valid σ) :
    ((smul k v).get c).sem σ = Scalar.nanToNum (Scalar.mul k ((v.get c).sem σ)) ∧
    ((smul k v).get c).dom = (v.get c).dom ∧
    ((smul k v).get c).WF :=
  CVSem.sem_smul k v c σ hc hw hσ

example : ["a", "b"] ∈ Ex.self.map Prod.fst ∧ (Ex.self.get ["a", "b"]).WF ∧
    (Ex.self.get ["a", "b"]).dom.Valid Ex.σ :=
  ⟨by decide, by decide, by unfold Dom.Valid; decide⟩

/-! ### 3. sum and difference -/

/-- `(a + b)[c]` at `σ` is `a[c](σ) + b[c](σ)`, whatever the attribute orders of the two tables; the
result lives on the merged domain.

Totalised lookup (audit 2, `A_c14b_missing_key`): `c` is required to be a key of `a` only.  If `c` is NOT a key of `b`, the model's
`b.get c` is the default `Factor.zeros []` (a scalar table) and all hypotheses can still hold, so the theorem then asserts a definite
value `a[c](σ) + default`; the source evaluates `other[cl]` and raises `KeyError`.  The statement describes the code only for
`c ∈ b.map Prod.fst` (as `sem_subV` asks with `hcb`). -/
theorem sem_addV (a b : CliqueVec α) (c : Clique) (σ : Attr → Nat)
    (hc : c ∈ a.map Prod.fst) (ha : (a.get c).WF) (hb : (b.get c).WF)
    (hcompat : (a.get c).dom.Compatible (b.get c).dom)
    (hσ : ((a.get c).dom.merge (b.get c).dom).Valid σ) :
    ((addV a b).get c).sem σ = Scalar.add ((a.get c).sem σ) ((b.get c).sem σ) ∧
    ((addV a b).get c).dom = (a.get c).dom.merge (b.get c).dom ∧
    ((addV a b).get c).WF :=
  CVSem.sem_addV a b c σ hc ha hb hcompat hσ

example : ["a", "b"] ∈ Ex.self.map Prod.fst ∧ (Ex.self.get ["a", "b"]).WF ∧
    (Ex.vec2.get ["a", "b"]).WF ∧
    (Ex.self.get ["a", "b"]).dom.Compatible (Ex.vec2.get ["a", "b"]).dom ∧
    ((Ex.self.get ["a", "b"]).dom.merge (Ex.vec2.get ["a", "b"]).dom).Valid Ex.σ ∧
    (Ex.vec2.get ["a", "b"]).dom.attrs = ["b", "a"] :=
  ⟨by decide, by decide, by decide,
   Dom.compatible_of_agrees _ _ (by decide) (by unfold Dom.Agrees; decide),
   by unfold Dom.Valid; decide, by decide⟩

/-- the usual case — both vectors store the same domain under `c`: the domain is unchanged -/
theorem sem_addV_same (a b : CliqueVec α) (c : Clique) (σ : Attr → Nat)
    (hc : c ∈ a.map Prod.fst) (ha : (a.get c).WF) (hb : (b.get c).WF)
    (hd : (b.get c).dom = (a.get c).dom) (hσ : (a.get c).dom.Valid σ) :
    ((addV a b).get c).sem σ = Scalar.add ((a.get c).sem σ) ((b.get c).sem σ) ∧
    ((addV a b).get c).dom = (a.get c).dom ∧
    ((addV a b).get c).WF :=
  CVSem.sem_addV_same a b c σ hc ha hb hd hσ

/-- `(a - b)[c]` at `σ` is `a[c](σ) + nan_to_num(-1 * b[c](σ))` (`a - b` is `a + -1*b`, and the
scalar multiple applies `np.nan_to_num`) -/
theorem sem_subV (a b : CliqueVec α) (c : Clique) (σ : Attr → Nat)
    (hc : c ∈ a.map Prod.fst) (hcb : c ∈ b.map Prod.fst) (ha : (a.get c).WF) (hb : (b.get c).WF)
    (hcompat : (a.get c).dom.Compatible (b.get c).dom)
    (hσ : ((a.get c).dom.merge (b.get c).dom).Valid σ) :
    ((subV a b).get c).sem σ
      = Scalar.add ((a.get c).sem σ)
          (Scalar.nanToNum (Scalar.mul (Scalar.neg Scalar.one) ((b.get c).sem σ))) ∧
    ((subV a b).get c).dom = (a.get c).dom.merge (b.get c).dom ∧
    ((subV a b).get c).WF :=
  CVSem.sem_subV a b c σ hc hcb ha hb hcompat hσ

example : ["a", "b"] ∈ Ex.self.map Prod.fst ∧ ["a", "b"] ∈ Ex.vec2.map Prod.fst := by decide

/-! ### 4. inner product -/

/-- (Same totalised lookup as `sem_addV`: for a key of `a` missing from `b` the model reads `Factor.zeros []` where the source's
`other[cl]` raises `KeyError`; the statement describes the code when every key of `a` is a key of `b`.)

`a.dot(b)`: the scalar sum over the keys `c` of `a` (in order) of the scalar sum over all cells
`v` of clique `c` (row-major) of `a[c] * b[c]` at the assignment naming that cell;
`dotDom a b c = (a.get c).dom.merge (b.get c).dom` -/
theorem dotV_spec (a b : CliqueVec α) (hnd : (a.map Prod.fst).Nodup)
    (h : ∀ c ∈ a.map Prod.fst, (a.get c).WF ∧ (b.get c).WF ∧
      (a.get c).dom.Compatible (b.get c).dom) :
    dotV a b
      = Scalar.sum ((a.map Prod.fst).map (fun c =>
          Scalar.sum ((cells (dotDom a b c).shape).map (fun v =>
            Scalar.mul ((a.get c).sem (Dom.assign (dotDom a b c).attrs v))
              ((b.get c).sem (Dom.assign (dotDom a b c).attrs v)))))) :=
  CVSem.dotV_spec a b hnd h

/-- the single-factor ingredient: `Factor.sum()` over everything -/
theorem sumAll_spec (f : Factor α) (hf : f.WF) :
    f.sumAll = Scalar.sum ((cells f.dom.shape).map (fun v => f.sem (Dom.assign f.dom.attrs v))) :=
  CVSem.sumAll_spec f hf

example : (Ex.self.map Prod.fst).Nodup ∧
    ∀ c ∈ Ex.self.map Prod.fst, (Ex.self.get c).WF ∧ (Ex.vec2.get c).WF ∧
      (Ex.self.get c).dom.Compatible (Ex.vec2.get c).dom := by
  refine ⟨by decide, ?_⟩
  intro c hc
  have hc' : c = ["a", "b"] ∨ c = ["b", "c"] := by simpa [Ex.self] using hc
  rcases hc' with rfl | rfl
  · exact ⟨by decide, by decide,
      Dom.compatible_of_agrees _ _ (by decide) (by unfold Dom.Agrees; decide)⟩
  · exact ⟨by decide, by decide,
      Dom.compatible_of_agrees _ _ (by decide) (by unfold Dom.Agrees; decide)⟩

/-! ### 5. `combine` -/

/-- the meaning of `firstCover self cl = some c`: `c` is a key of `self` containing `cl` and no
earlier key contains `cl` — the `cl2` at which Python's inner loop `break`s -/
theorem firstCover_eq_some_iff (self : CliqueVec α) (cl c : Clique) :
    firstCover self cl = some c ↔
      (∀ x ∈ cl, x ∈ c) ∧ ∃ pre post, self.map Prod.fst = pre ++ c :: post ∧
        ∀ k ∈ pre, ¬ ∀ x ∈ cl, x ∈ k :=
  CVSem.firstCover_eq_some_iff self cl c

/-- factor level, no hypotheses: `landing self other c2` being the sub-list of the entries `o` of
`other` with `firstCover self o.1 = some c2`, the factor under `c2` after `self.combine(other)` is
the old one with exactly those factors added in place, in the order of `other` -/
theorem combine_get (self other : CliqueVec α) (c2 : Clique) :
    (combine self other).get c2
      = (landing self other c2).foldl (fun f o => f.iadd o.2) (self.get c2) :=
  CVSem.combine_get self other c2

/-- value level: at every assignment, the value of `self[c2]` plus, in the order of `other`, the
values of exactly the factors of `other` for which `c2` is the first covering key; the domain of
`self[c2]` is unchanged.  Only the factors landing at `c2` need to be well-formed sub-tables -/
theorem combine_spec (self other : CliqueVec α) (c2 : Clique) (σ : Attr → Nat)
    (hw : (self.get c2).WF) (hσ : (self.get c2).dom.Valid σ)
    (ho : ∀ o ∈ other, firstCover self o.1 = some c2 →
      o.2.WF ∧ (self.get c2).dom.contains o.2.dom = true ∧ o.2.dom.Agrees (self.get c2).dom) :
    ((combine self other).get c2).sem σ
        = List.foldl Scalar.add ((self.get c2).sem σ)
            ((other.filter (fun o => decide (firstCover self o.1 = some c2))).map
              (fun o => o.2.sem σ)) ∧
    ((combine self other).get c2).dom = (self.get c2).dom ∧
    ((combine self other).get c2).WF :=
  CVSem.combine_spec self other c2 σ hw hσ ho

/-- the same when every table is the projection of a common domain `d` onto its clique (as built
by `CliqueVector.zeros`, `Factor.active`, the marginal oracle …) -/
theorem combine_spec_project (d : Dom) (self other : CliqueVec α) (c2 : Clique) (σ : Attr → Nat)
    (hw : (self.get c2).WF) (hdom : (self.get c2).dom = d.project c2)
    (hσ : (d.project c2).Valid σ)
    (ho : ∀ o ∈ other, firstCover self o.1 = some c2 → o.2.WF ∧ o.2.dom = d.project o.1) :
    ((combine self other).get c2).sem σ
        = List.foldl Scalar.add ((self.get c2).sem σ)
            ((other.filter (fun o => decide (firstCover self o.1 = some c2))).map
              (fun o => o.2.sem σ)) ∧
    ((combine self other).get c2).dom = d.project c2 ∧
    ((combine self other).get c2).WF :=
  CVSem.combine_spec_project d self other c2 σ hw hdom hσ ho

/-- hypotheses of `combine_spec_project` on the example, and what lands where: `["b"]` and `["a"]`
at the first key (although `["b"]` is inside the second key too), the transposed `["c","b"]` at the
second key, `["d"]` nowhere -/
example : (Ex.self.get ["a", "b"]).WF ∧ (Ex.self.get ["a", "b"]).dom = Ex.d.project ["a", "b"] ∧
    (Ex.d.project ["a", "b"]).Valid Ex.σ ∧
    (∀ o ∈ Ex.other, firstCover Ex.self o.1 = some ["a", "b"] → o.2.WF ∧ o.2.dom = Ex.d.project o.1) ∧
    (landing Ex.self Ex.other ["a", "b"]).map Prod.fst = [["b"], ["a"]] ∧
    (landing Ex.self Ex.other ["b", "c"]).map Prod.fst = [["c", "b"]] ∧
    JT.subset ["b"] ["b", "c"] = true :=
  ⟨by decide, by decide, by unfold Dom.Valid; decide, by decide, by decide, by decide, by decide⟩

theorem combine_nil (self : CliqueVec α) : combine self [] = self :=
  CVSem.combine_nil self

/-- a factor of `other` contained in no key of `self` is ignored -/
theorem combine_ignores_uncovered (self l₁ l₂ : CliqueVec α) (o : Clique × Factor α)
    (h : ∀ k ∈ self.map Prod.fst, JT.subset o.1 k = false) :
    combine self (l₁ ++ o :: l₂) = combine self (l₁ ++ l₂) :=
  CVSem.combine_ignores_uncovered self l₁ l₂ o h

example : ∀ k ∈ Ex.self.map Prod.fst, JT.subset (["d"] : Clique) k = false := by decide

/-- all uncovered factors at once -/
theorem combine_filter_covered (self other : CliqueVec α) :
    combine self other = combine self (other.filter (fun o => (firstCover self o.1).isSome)) :=
  CVSem.combine_filter_covered self other

/-- a factor whose first covering key is `c1` changes no other key — in particular none of the
later keys that also contain it: overlapping keys do not double count -/
theorem combine_first_only (self l₁ l₂ : CliqueVec α) (o : Clique × Factor α) (c1 c2 : Clique)
    (h1 : firstCover self o.1 = some c1) (hne : c2 ≠ c1) :
    (combine self (l₁ ++ o :: l₂)).get c2 = (combine self (l₁ ++ l₂)).get c2 :=
  CVSem.combine_first_only self l₁ l₂ o c1 c2 h1 hne

/-- … and it is added, once, at `c1` -/
theorem combine_single (self : CliqueVec α) (o : Clique × Factor α) (c1 : Clique)
    (h1 : firstCover self o.1 = some c1) :
    (combine self [o]).get c1 = (self.get c1).iadd o.2 ∧
    ∀ c2, c2 ≠ c1 → (combine self [o]).get c2 = self.get c2 :=
  CVSem.combine_single self o c1 h1

/-- `["b"]` is inside both keys of the example; its first cover is the first key -/
example : firstCover Ex.self ["b"] = some ["a", "b"] ∧ (["b", "c"] : Clique) ≠ ["a", "b"] ∧
    JT.subset ["b"] ["b", "c"] = true := by decide

/-! ### 6. zeros -/

/-- `CliqueVector.zeros(d, cliques)[c]` is the zero table over `d.project c` -/
theorem zerosV_spec (d : Dom) (cliques : List Clique) (c : Clique) (σ : Attr → Nat)
    (hc : c ∈ cliques) :
    ((zerosV d cliques : CliqueVec α).get c).dom = d.project c ∧
    ((d.project c).Valid σ → ((zerosV d cliques : CliqueVec α).get c).sem σ = Scalar.zero) ∧
    (c.Nodup → ((zerosV d cliques : CliqueVec α).get c).WF) :=
  CVSem.zerosV_spec d cliques c σ hc

example : (["b", "c"] : Clique) ∈ [["a", "b"], ["b", "c"]] ∧ (Ex.d.project ["b", "c"]).Valid Ex.σ ∧
    (["b", "c"] : Clique).Nodup :=
  ⟨by decide, by unfold Dom.Valid; decide, by decide⟩

end PGM.C14
