import PGM.Properties.C08
import PGM.Proofs.JTPreorder
import PGM.Proofs.JTPreorderExists
/-!
# C08 (continued) — the clique order `mle` walks is a running-intersection order

`JunctionTree.maximal_cliques()` returns `list(nx.dfs_preorder_nodes(self.tree))`, and
`GraphicalModel.mle` (graphical_model.py:178-191) divides each clique marginal, in that order, by its
marginal on the attributes already covered by *earlier* cliques.  `C08.mle_roundtrip` assumed that the
order has the running-intersection property (`RIPOrder`); here that assumption is discharged from the
contract of a depth-first preorder (`isPreorder`: every node once, every node after the first has a
tree neighbour earlier in the list) of a junction tree (`isTree`, `rip`).

networkx is modelled by contract, so the theorems hold for every listing the contract allows — any
root, any order of visiting children (and in fact any "connected growth" order, e.g. breadth-first).
-/
namespace PGM.C08
open PGM PGM.JT PGM.GM PGM.Sem PGM.Solvers PGM.Coherent

/-- a 4-node junction tree with a branching node: the centre `{c,d,e}` with three leaves -/
def exTree : Tree :=
  ⟨[["a", "c"], ["b", "d"], ["c", "d", "e"], ["e", "f"]],
   [(["a", "c"], ["c", "d", "e"]), (["c", "d", "e"], ["b", "d"]), (["e", "f"], ["c", "d", "e"])]⟩

def exAttrs : List Attr := ["a", "b", "c", "d", "e", "f"]

/-- a depth-first preorder from the leaf `{a,c}` -/
def exPreorder : List Clique := [["a", "c"], ["c", "d", "e"], ["b", "d"], ["e", "f"]]

/-- the same cliques, sorted -/
def exSorted : List Clique := [["a", "c"], ["b", "d"], ["c", "d", "e"], ["e", "f"]]

/-- the executable order check decides the Prop `RIPOrder` assumed by `mle_roundtrip` -/
theorem ripOrder_iff (l : List Clique) : ripOrder l = true ↔ RIPOrder l :=
  JT.ripOrder_iff l

/-- **1. a depth-first preorder of a junction tree is a running-intersection order**: each clique
meets the union of the earlier ones inside a single earlier clique (its DFS parent) -/
theorem preorder_is_rip_order (attrs : List Attr) (t : Tree) (ht : isTree t = true)
    (hrip : rip attrs t = true) (hattrs : ∀ n ∈ t.nodes, ∀ a ∈ n, a ∈ attrs)
    (l : List Clique) (hl : isPreorder t l = true) :
    RIPOrder l ∧ ripOrder l = true :=
  ⟨JT.preorder_is_rip_order attrs t ht hrip hattrs l hl,
   (JT.ripOrder_iff l).mpr (JT.preorder_is_rip_order attrs t ht hrip hattrs l hl)⟩

/-- the hypotheses hold on the example, so the theorem is not vacuous … -/
example : isTree exTree = true ∧ rip exAttrs exTree = true ∧
    (∀ n ∈ exTree.nodes, ∀ a ∈ n, a ∈ exAttrs) ∧ isPreorder exTree exPreorder = true := by decide

/-- … its conclusion, computed … -/
example : ripOrder exPreorder = true := by decide

/-- … and **the order matters**: the sorted listing of the same cliques is *not* a
running-intersection order (`{c,d,e}` meets `{a,c} ∪ {b,d}` in `{c,d}`, inside neither), and it is
not a preorder (`{b,d}` is not adjacent to `{a,c}`) -/
example : exSorted.Perm exPreorder ∧ ripOrder exSorted = false ∧ ¬ RIPOrder exSorted ∧
    isPreorder exTree exSorted = false := by
  refine ⟨by decide, by decide, ?_, by decide⟩
  rw [← ripOrder_iff]
  decide

/-- the parent is the witness: whatever `l[i]` shares with *any* earlier clique lies in *every*
earlier tree neighbour of `l[i]` -/
theorem preorder_parent_contains (attrs : List Attr) (t : Tree) (ht : isTree t = true)
    (hrip : rip attrs t = true) (hattrs : ∀ n ∈ t.nodes, ∀ a ∈ n, a ∈ attrs)
    (l : List Clique) (hl : isPreorder t l = true)
    (i j k : Nat) (hi : i < l.length) (hj : j < i) (hk : k < i)
    (hadj : t.adj (l.getD j []) (l.getD i []) = true)
    (a : Attr) (hai : a ∈ l.getD i []) (hak : a ∈ l.getD k []) : a ∈ l.getD j [] :=
  JT.parent_contains attrs t ht hrip hattrs l hl i j k hi hj hk hadj a hai hak

example : exTree.adj (exPreorder.getD 1 []) (exPreorder.getD 3 []) = true ∧
    "e" ∈ exPreorder.getD 3 [] ∧ "e" ∈ exPreorder.getD 1 [] := by decide

/-- **2. every tree has a preorder** (the search order from its first node), so the hypothesis
`isPreorder t l` of the theorems here can always be met -/
theorem preorder_exists (t : Tree) (ht : isTree t = true) : ∃ l, isPreorder t l = true :=
  JT.preorder_exists t ht

example : isTree exTree = true := by decide

/-- the listing the proof constructs, on the example: it starts at `{a,c}` -/
example : isPreorder exTree (reach exTree exTree.nodes exTree.nodes.length [["a", "c"]]) = true := by
  decide

variable {K : Type} [Field K] [LinearOrder K] [IsStrictOrderedRing K]

/-- **3. refit round trip, for the order the implementation uses**: `C08.mle_roundtrip` with its
hypothesis `RIPOrder cliques` replaced by "`cliques` is a depth-first preorder of a junction tree `t`
over the domain".  (Duplicate-freeness of `cliques` and "the nodes of `t` only mention domain
attributes" are no longer assumed: both follow from `isPreorder` and `hcl`.) -/
theorem mle_roundtrip_preorder (d : Dom) (cliques : List Clique) (t : Tree) (w : CliqueVec (PlainOf K))
    (hd : d.WF) (hcl : ∀ c ∈ cliques, c.Nodup ∧ ∀ a ∈ c, a ∈ d.attrs)
    (hcover : ∀ a ∈ d.attrs, ∃ c ∈ cliques, a ∈ c) (hsizes : ∀ p ∈ d, 0 < p.2)
    (ht : isTree t = true) (hrip : rip d.attrs t = true) (hpre : isPreorder t cliques = true)
    (hw : Realisable d cliques w) (hT : 0 < mass d w (cliques.headD []))
    (c : Clique) (hc : c ∈ cliques) (σ : Attr → Nat) (hσ : d.Valid σ) :
    partition d (mle toLog cliques w) = 1 ∧
    marginal d (mle toLog cliques w) c σ = ((w.get c).sem σ).v / mass d w (cliques.headD []) := by
  obtain ⟨hcn, _, hsub, _⟩ := (JT.isPreorder_iff t cliques).mp hpre
  have hattrs : ∀ n ∈ t.nodes, ∀ a ∈ n, a ∈ d.attrs := fun n hn => (hcl n (hsub n hn)).2
  exact mle_roundtrip d cliques w hd hcl hcn hcover hsizes
    (JT.preorder_is_rip_order d.attrs t ht hrip hattrs cliques hpre) hw hT c hc σ hσ

/-- the structural hypotheses of 3 on the example (domain `a..f`, all of size 2) -/
def exDom : Dom := [("a", 2), ("b", 2), ("c", 2), ("d", 2), ("e", 2), ("f", 2)]

example : exDom.WF ∧ (∀ c ∈ exPreorder, c.Nodup ∧ ∀ a ∈ c, a ∈ exDom.attrs) ∧
    (∀ a ∈ exDom.attrs, ∃ c ∈ exPreorder, a ∈ c) ∧ (∀ p ∈ exDom, 0 < p.2) ∧
    isTree exTree = true ∧ rip exDom.attrs exTree = true ∧ isPreorder exTree exPreorder = true := by
  unfold Dom.WF
  decide

end PGM.C08
