import PGM.Generated.GraphicalModelG
import PGM.Proofs.GMGen
import PGM.Proofs.BPCorrect
import PGM.Proofs.VECorrect
import PGM.Proofs.RealScalar
import PGM.Proofs.ExactDisjoint
import PGM.Model.LogQ
/-!
# C01/C02 (translator tie) — the regenerated reading of the inference core of `src/mbi/graphical_model.py` is the hand model

`PGM/Generated/GraphicalModelG.lean` is produced on every run by `tools/py2gm.py` from the current source of
`GraphicalModel.belief_propagation`, `datavector`, `mle`, `variable_elimination_logspace`, `variable_elimination`,
statement by statement.  Every generated definition is related here to the definition of `PGM/Model/GM.lean` that the
C01 / C02 / C08 theorems are about, so those theorems are re-checked against what the source says now: a semantic change of
the source breaks the translation or one of these equalities.

Where the source does more than the model, the relation is stated under the minimal law that makes the extra step vanish,
and the law is proved for the scalar instances the theorems use:

* `reduce(lambda x,y: x+y, xs, 0)` / `sum(xs)` start from the Python int `0`: `0 + f` is `Factor.__radd__`, an extra pass
  `0 + values` — law `AddZeroLaw`: `0 + x = x` (holds for `LogOf K`, `PlainOf K`, `ExtQ`, `LogQ`, `ℝ`);
* `reduce(lambda x,y: x*y, xs, 1)` starts from `1`: `1 * f` is `Factor.__rmul__`, an extra pass `nan_to_num(1 * values)` — law
  `MulOneLaw`: `nan_to_num (1 * x) = x` (holds for `PlainOf K`, `ℝ`; FALSE for `ExtQ` on `±∞`/`nan`: `extq_mulOne_fails`,
  `ve_start_differs` — a real difference between the model and the source, recorded below);
* `potentials[cl].copy()`, the in-place `exp(out=…)`, `0 + f`, `1 * f` rebuild the array with the domain's shape — hypothesis
  `Shaped` (`values.shape == domain.shape`, part of `Factor.WF`).

Python's dictionary stores (`messages[(i,j)] = …`, `potentials[cl] = …`) overwrite an existing key where the model appends:
equal exactly when the schedule / the clique list has no repetition (`order.Nodup`, `cliques.Nodup`: what
`nx.topological_sort` / `nx.dfs_preorder_nodes` return, and what `checkJT` checks).
-/
namespace PGM.C01.GMG
open PGM PGM.JT PGM.GMGen PGM.Sem
set_option linter.unusedSectionVars false

/-! ## the scalar laws, and the instances that satisfy them -/

/-- `0 + x = x`: makes the start `0 + f` of `reduce(…, 0)` / `sum(…)` vanish -/
def AddZeroLaw (α : Type) [Scalar α] : Prop := ∀ x : α, Scalar.add Scalar.zero x = x
/-- `nan_to_num(1 * x) = x`: makes the start `1 * f` of `reduce(…, 1)` vanish -/
def MulOneLaw (α : Type) [Scalar α] : Prop := ∀ x : α, Scalar.nanToNum (Scalar.mul Scalar.one x) = x

section laws
variable {K : Type} [Field K] [LinearOrder K] [IsStrictOrderedRing K]

/-- log space over any ordered field: `0` is `log 1`, `+` is the product -/
theorem addZero_LogOf : AddZeroLaw (LogOf K) := by
  intro x
  show (⟨1 * x.v⟩ : LogOf K) = x
  rw [one_mul]

theorem addZero_PlainOf : AddZeroLaw (PlainOf K) := by
  intro x
  show (⟨0 + x.v⟩ : PlainOf K) = x
  rw [zero_add]

theorem mulOne_PlainOf : MulOneLaw (PlainOf K) := by
  intro x
  show (⟨1 * x.v⟩ : PlainOf K) = x
  rw [one_mul]

theorem addZero_Real : AddZeroLaw ℝ := fun x => zero_add x
theorem mulOne_Real : MulOneLaw ℝ := fun x => one_mul x

/-- exact extended rationals (all of `±∞`, `nan` included) -/
theorem addZero_ExtQ : AddZeroLaw ExtQ := by
  intro x
  cases x with
  | fin q => show ExtQ.fin (0 + q) = ExtQ.fin q; rw [Rat.zero_add]
  | pinf => rfl
  | ninf => rfl
  | nan => rfl

/-- the exact log-space instance: `0` is `⟨1⟩`, `+` is `ExtQ.mul` -/
theorem addZero_LogQ : AddZeroLaw LogQ := by
  intro x
  obtain ⟨v⟩ := x
  show (⟨ExtQ.mul (ExtQ.fin 1) v⟩ : LogQ) = ⟨v⟩
  congr 1
  cases v with
  | fin q => show ExtQ.fin (1 * q) = ExtQ.fin q; rw [Rat.one_mul]
  | pinf => decide
  | ninf => decide
  | nan => rfl

/-- on finite values `1 * x` is exact over `ExtQ` … -/
theorem mulOne_ExtQ_fin (q : Rat) : Scalar.nanToNum (Scalar.mul Scalar.one (ExtQ.fin q)) = ExtQ.fin q := by
  show ExtQ.nanToNum (ExtQ.fin (1 * q)) = ExtQ.fin q
  rw [Rat.one_mul]; rfl

/-- … but not on the special values: `np.nan_to_num(1 * inf)` is the largest float -/
theorem extq_mulOne_fails : ¬ MulOneLaw ExtQ := by
  intro h
  have := h ExtQ.nan
  exact absurd this (by decide)

end laws

/-! ## `Domain.invert` reads its argument as a set (`sep_axes[(i,j)] = tuple(set(i) & set(j))`) -/

/-- whatever order Python's set iteration gives the separator tuple, `beliefs[i].domain.invert(sep_axes[(i,j)])` is what the
generated (and the hand) definition computes from `JT.inter i j` -/
theorem gen_invert_sep (d : Dom) (i j sep : List Attr) (h : ∀ a, a ∈ sep ↔ (a ∈ i ∧ a ∈ j)) :
    d.invert sep = d.invert (JT.inter i j) := GMGen.Dom.invert_sep d i j sep h

theorem gen_invert_congr (d : Dom) (as bs : List Attr) (h : ∀ a, a ∈ as ↔ a ∈ bs) : d.invert as = d.invert bs :=
  GMGen.Dom.invert_congr d as bs h

example : Dom.invert [("a", 2), ("b", 3), ("c", 4)] ["c", "a"] = Dom.invert [("a", 2), ("b", 3), ("c", 4)] ["a", "c"] := by
  decide

/-! ## the generated definitions in normal form

Each generated definition is first shown equal — by unfolding only (`rfl` up to the eta rule for pairs) — to a normal form
of `PGM/Proofs/GMGen.lean` in which every loop is a `List.foldl` of a named step function (`bpStepG`, `normStepG`, `veStepG`,
`mleStepG`: the loop bodies of the source, statement by statement).  The semantic lemmas of GMGen are about these folds. -/
section shape
variable {α : Type} [Scalar α] {β : Type} [Scalar β]

theorem shape_bpLoop (order : List (Clique × Clique)) (pots : CliqueVec α) :
    GMG.bpLoop order pots = bpLoopF order pots :=
  pair_eta (bpLoopF order pots)

theorem shape_logZ (cliques : List Clique) (order : List (Clique × Clique)) (pots : CliqueVec α) :
    GMG.logZ cliques order pots = logZF cliques order pots := by
  unfold GMG.logZ logZF
  rw [shape_bpLoop]

theorem shape_beliefPropagation (cliques : List Clique) (order : List (Clique × Clique)) (pots : CliqueVec α) (total : α) :
    GMG.beliefPropagation cliques order pots total = beliefPropagationF cliques order pots total := by
  unfold GMG.beliefPropagation beliefPropagationF
  rw [shape_bpLoop]
  rfl

theorem shape_veLogspace (pots : List (Factor α)) (elim : List Attr) (total : α) :
    GMG.veLogspace pots elim total = veLogspaceF pots elim total := rfl

theorem shape_variableElimination (fs : List (Factor α)) (elim : List Attr) :
    GMG.variableElimination fs elim = variableEliminationF fs elim := rfl

theorem shape_datavector (plain : α → β) (d : Dom) (cliques : List Clique) (pots : CliqueVec α) (total : β) :
    GMG.datavector plain d cliques pots total = datavectorF plain d cliques pots total := rfl

theorem shape_mle (logf : Factor β → Factor α) (cliques : List Clique) (marg : CliqueVec β) :
    GMG.mle logf cliques marg = mleF logf cliques marg :=
  pair_fst (cliques.foldl (mleStepG logf marg) ([], []))

end shape

/-! ## `belief_propagation` -/
section bp
variable {α : Type} [Scalar α]

instance (f : Factor α) : Decidable (Shaped f) := by unfold Shaped; infer_instance

/-- **the message loop** (`for i,j in self.message_order: …`, with `beliefs` built from copies and `messages` a dictionary):
the state `(beliefs, messages)` after the loop is the model's, for a schedule without repeated edges and a potential
dictionary (distinct keys) of factors whose arrays have their domains' shapes -/
theorem gen_bpLoop (order : List (Clique × Clique)) (pots : CliqueVec α) (hord : order.Nodup)
    (hk : (pots.map Prod.fst).Nodup) (hs : ∀ p ∈ pots, Shaped p.2) :
    GMG.bpLoop order pots = GM.bpLoop order pots :=
  (shape_bpLoop order pots).trans (bpLoopG_eq_model order pots hord hk hs)

/-- exit `logZ=True` -/
theorem gen_logZ (cliques : List Clique) (order : List (Clique × Clique)) (pots : CliqueVec α) (hord : order.Nodup)
    (hk : (pots.map Prod.fst).Nodup) (hs : ∀ p ∈ pots, Shaped p.2) :
    GMG.logZ cliques order pots = GM.logZ cliques order pots := by
  rw [shape_logZ, logZG_eq, bpLoopG_eq_model order pots hord hk hs]; rfl

/-- exit `logZ=False`, read under a clique: Python returns the dictionary `beliefs` (the keys of `potentials`, in their order,
each entry shifted and exponentiated in place); under every clique of the model it holds the model's table -/
theorem gen_beliefPropagation_get (cliques : List Clique) (order : List (Clique × Clique)) (pots : CliqueVec α) (total : α)
    (hord : order.Nodup) (hk : (pots.map Prod.fst).Nodup) (hs : ∀ p ∈ pots, Shaped p.2) (hcl : cliques.Nodup)
    (c : Clique) (hc : c ∈ cliques) :
    (GMG.beliefPropagation cliques order pots total).get c = (GM.beliefPropagation cliques order pots total).get c := by
  rw [shape_beliefPropagation]
  exact beliefPropagationG_get cliques order pots total hord hk hs hcl c hc

/-- exit `logZ=False`, the whole dictionary: when `potentials` is keyed by the model's cliques in the model's order (as
`CliqueVector.zeros(domain, self.cliques)` and `mle` build it) and messages only go to cliques, the result IS the model's list -/
theorem gen_beliefPropagation (cliques : List Clique) (order : List (Clique × Clique)) (pots : CliqueVec α) (total : α)
    (hord : order.Nodup) (hkeys : pots.map Prod.fst = cliques) (hs : ∀ p ∈ pots, Shaped p.2) (hcl : cliques.Nodup)
    (hrecv : ∀ ij ∈ order, ij.2 ∈ cliques) :
    GMG.beliefPropagation cliques order pots total = GM.beliefPropagation cliques order pots total :=
  (shape_beliefPropagation cliques order pots total).trans
    (beliefPropagationG_eq_model cliques order pots total hord hkeys hs hcl hrecv)

/-- the in-place `exp`: `f.exp(out=f)` is `f.exp()` on a factor whose array has the domain's shape -/
theorem gen_expInto (f : Factor α) (h : Shaped f) : GMG.expInto f f = Factor.exp f := expInto_self f h

/-- why `order.Nodup` is needed: after a second store under the same key Python reads the NEW message, the model's appended
list still finds the OLD one (`List.lookup` returns the first entry) -/
theorem repeated_key_differs (m : GM.Msgs α) (k : Clique × Clique) (v v' : Factor α) :
    GMG.msgGet (GM.dictSet (GM.dictSet m k v) k v') k = v' ∧
    (List.lookup k ((m ++ [(k, v)]) ++ [(k, v')])).getD (Factor.zeros []) = (List.lookup k (m ++ [(k, v)])).getD (Factor.zeros []) := by
  refine ⟨msgGet_dictSet_self _ _ _, ?_⟩
  rw [List.lookup_append]
  cases h : List.lookup k (m ++ [(k, v)]) with
  | some x => rfl
  | none =>
    rw [List.lookup_append] at h
    simp at h

end bp

/-! ## `variable_elimination_logspace`, `variable_elimination` -/
section ve
variable {α : Type} [Scalar α]

/-- **`variable_elimination_logspace`**: the dictionary `psi` with fresh integer keys is the list of its values; `reduce` from the
int `0`; for a duplicate-free elimination list each of whose attributes occurs in some factor (`preVE`) -/
theorem gen_veLogspace (hz : AddZeroLaw α) (pots : List (Factor α)) (elim : List Attr) (total : α)
    (hs : ∀ f ∈ pots, Shaped f) (hnd : elim.Nodup) (hpre : GM.preVE pots elim = true) :
    GMG.veLogspace pots elim total = GM.veLogspace pots elim total :=
  (shape_veLogspace pots elim total).trans (veLogspaceG_eq_model hz pots elim total hs hnd hpre)

/-- **`variable_elimination`**: the Python value returned (`reduce(…, 1)` is a number when nothing is left) is the model's Factor -/
theorem gen_variableElimination (ho : MulOneLaw α) (fs : List (Factor α)) (elim : List Attr)
    (hs : ∀ f ∈ fs, Shaped f) (hnd : elim.Nodup) (hpre : GM.preVE fs elim = true) :
    GMG.variableElimination fs elim = GMG.PyVal.fac (GM.variableElimination fs elim) :=
  (shape_variableElimination fs elim).trans (variableEliminationG_eq_model ho fs elim hs hnd hpre)

/-- without any law: what the source computes when nothing is eliminated from a single factor is `1 * f` -/
theorem gen_variableElimination_single (f : Factor α) :
    GMG.variableElimination [f] [] = GMG.PyVal.fac (Factor.mulScalar Scalar.one f) := rfl

private def finf : Factor ExtQ := ⟨[("a", 2)], ⟨[2], #[ExtQ.pinf, ExtQ.fin 1]⟩⟩

/-- **a real difference, recorded**: `variable_elimination([f], [])` with an infinite cell.  Python returns
`1 * f = Factor(dom, np.nan_to_num(1 * values))`, i.e. `[1.797…e308, 1]`; the hand model returns `f`, i.e. `[inf, 1]`.
(`preVE` holds, the factor is well-formed; the model drops the `nan_to_num` of the start `1 * f`.) -/
theorem ve_start_differs :
    GM.preVE [finf] [] = true ∧ finf.WF ∧
    (GMG.PyVal.asFactor (GMG.variableElimination [finf] [])).vals.data = #[ExtQ.fin ExtQ.maxFloat, ExtQ.fin 1] ∧
    (GM.variableElimination [finf] []).vals.data = #[ExtQ.pinf, ExtQ.fin 1] := by
  refine ⟨by decide, by decide, by decide +kernel, by decide⟩

end ve

/-! ## `datavector`, `mle` -/
section dvmle
variable {α : Type} [Scalar α] {β : Type} [Scalar β]

/-- **`datavector()`** (flatten=True): `sum(…)` from the int `0`, `np.exp(logp - logp.logsumexp())`, `expand`, then
`* wgt * self.total` on the flat vector — the model's `datavectorCore` followed by `datavectorScale`, with the weight the source
computes, `wgtOf = |dom(logp)| / |domain|` (the model takes the weight as an argument; C02 `datavector_correct` uses `1`,
its value when the cliques cover the domain) -/
theorem gen_datavector (hz : AddZeroLaw α) (plain : α → β) (d : Dom) (cliques : List Clique) (pots : CliqueVec α) (total : β)
    (hne : cliques ≠ []) (hs : Shaped (pots.get (cliques.headD []))) :
    GMG.datavector plain d cliques pots total
      = GM.datavectorScale ((GM.datavectorCore d cliques pots).datavector.map plain) (wgtOf d cliques pots) total :=
  (shape_datavector plain d cliques pots total).trans (datavectorG_eq_model hz plain d cliques pots total hne hs)

/-- **`mle`**: the running set `variables` as the list of first occurrences, `potentials[cl] = …` as a dictionary store; for a
duplicate-free clique list -/
theorem gen_mle (logf : Factor β → Factor α) (cliques : List Clique) (marg : CliqueVec β) (hnd : cliques.Nodup) :
    GMG.mle logf cliques marg = GM.mle logf cliques marg :=
  (shape_mle logf cliques marg).trans (mleG_eq_model logf cliques marg hnd)

end dvmle

/-! ## the C01 / C02 theorems hold for the generated definitions -/
section transfer
variable {K : Type} [Field K] [LinearOrder K] [IsStrictOrderedRing K]

/-- what `ModelOK` gives the equalities above -/
theorem modelOK_facts (d : Dom) (cliques : List Clique) (t : Tree) (order : List (Clique × Clique))
    (pots : CliqueVec (LogOf K)) (hok : ModelOK d cliques t order pots) :
    order.Nodup ∧ cliques.Nodup ∧ (pots.map Prod.fst).Nodup ∧ ∀ p ∈ pots, Shaped p.2 := by
  have hnodes : cliques.Nodup := hok.nodes ▸ (treeFacts t (Sem.BP.isTree_of_check hok.jt)).nodes_nodup
  exact ⟨(checkJT_sound d.attrs [] t order hok.jt).sched_nodup, hnodes, hok.keys ▸ hnodes,
    fun p hp => Shaped.of_wf (hok.pot_ok p hp).1⟩

/-- C01 `logZ_correct` for the GENERATED `belief_propagation(potentials, logZ=True)` -/
theorem gen_logZ_correct (d : Dom) (cliques : List Clique) (t : Tree) (order : List (Clique × Clique))
    (pots : CliqueVec (LogOf K)) (hok : ModelOK d cliques t order pots) :
    (GMG.logZ cliques order pots).v = partition d pots := by
  obtain ⟨h1, _, h3, h4⟩ := modelOK_facts d cliques t order pots hok
  rw [gen_logZ cliques order pots h1 h3 h4]
  exact Sem.BP.logZ_correct d cliques t order pots hok

/-- the field identity behind `gen_bp_marginals`, for EVERY `total : K` (no sign hypothesis): at `LogOf K` the source's
`np.log(total)` is read as `id` on the exp-space carrier, so `total · marginal / Z` is plain field algebra.  Only `0 < total`
corresponds to the code (`np.log` of a negative total is `nan`; the model then returns negative "marginals"); this form is kept for
callers whose own statement carries the sign condition separately (C08E). -/
theorem gen_bp_marginals_anyTotal (d : Dom) (cliques : List Clique) (t : Tree) (order : List (Clique × Clique))
    (pots : CliqueVec (LogOf K)) (hok : ModelOK d cliques t order pots) (total : LogOf K)
    (hZ : partition d pots ≠ 0) (c : Clique) (hc : c ∈ cliques) (σ : Attr → Nat) (hσ : d.Valid σ) :
    ((GMG.beliefPropagation cliques order pots total).get c).dom.attrs = (pots.get c).dom.attrs ∧
    (((GMG.beliefPropagation cliques order pots total).get c).sem σ).v
      = total.v * marginal d pots c σ / partition d pots := by
  obtain ⟨h1, h2, h3, h4⟩ := modelOK_facts d cliques t order pots hok
  rw [gen_beliefPropagation_get cliques order pots total h1 h3 h4 h2 c hc]
  exact Sem.BP.bp_marginals d cliques t order pots hok total hZ c hc σ hσ

/-- **C01 `bp_marginals` for the GENERATED `belief_propagation`**: for every junction tree, every accepted message schedule,
every nonnegative potential and every POSITIVE total, each clique table of the dictionary the translated source returns is
`total · marginal / Z` of the product of the potentials (`0 < total`: see `C01.bp_marginals`; not used by the proof) -/
theorem gen_bp_marginals (d : Dom) (cliques : List Clique) (t : Tree) (order : List (Clique × Clique))
    (pots : CliqueVec (LogOf K)) (hok : ModelOK d cliques t order pots) (total : LogOf K)
    (hZ : partition d pots ≠ 0) (_htot : 0 < total.v) (c : Clique) (hc : c ∈ cliques) (σ : Attr → Nat) (hσ : d.Valid σ) :
    ((GMG.beliefPropagation cliques order pots total).get c).dom.attrs = (pots.get c).dom.attrs ∧
    (((GMG.beliefPropagation cliques order pots total).get c).sem σ).v
      = total.v * marginal d pots c σ / partition d pots :=
  gen_bp_marginals_anyTotal d cliques t order pots hok total hZ c hc σ hσ

/-- the hypotheses are satisfiable: the two-clique example model of `PGM/Proofs/ExactDisjoint.lean` -/
example (total : LogOf ℝ) (hZ : partition Oracle.exDom (ExactDisjoint.expPots Oracle.exPots) ≠ 0) (htot : 0 < total.v) (c : Clique)
    (hc : c ∈ Oracle.exCliques) :=
  gen_bp_marginals Oracle.exDom Oracle.exCliques ExactDisjoint.exTree ExactDisjoint.exOrder
    (ExactDisjoint.expPots Oracle.exPots) ExactDisjoint.ex_modelOK total hZ htot c hc (fun _ => 0) ExactDisjoint.ex_valid

/-- C02 `veLogspace_correct` for the GENERATED `variable_elimination_logspace` -/
theorem gen_veLogspace_correct (d : Dom) (fs : List (Factor (LogOf K))) (elim : List Attr)
    (total : LogOf K) (σ : Attr → Nat)
    (hd : d.WF) (hfs : FactorsOK d fs) (hpre : GM.preVE fs elim = true) (hnd : elim.Nodup)
    (hsub : ∀ a ∈ elim, a ∈ d.attrs) (hcover : ∀ a ∈ d.attrs, ∃ f ∈ fs, a ∈ f.dom.attrs) (hσ : d.Valid σ)
    (hZ : sumOver d d.attrs (fun _ => 0) (fun τ => (fs.map (fun f => (f.sem τ).v)).prod) ≠ 0) :
    ((GMG.veLogspace fs elim total).sem σ).v
      = total.v * sumOver d elim σ (fun τ => (fs.map (fun f => (f.sem τ).v)).prod)
        / sumOver d d.attrs (fun _ => 0) (fun τ => (fs.map (fun f => (f.sem τ).v)).prod) := by
  rw [gen_veLogspace addZero_LogOf fs elim total (fun f hf => Shaped.of_wf (hfs f hf).1) hnd hpre]
  exact Sem.veLogspace_correct d fs elim total σ hd hfs hpre hnd hsub hcover hσ hZ

/-- C02 `ve_correct` for the GENERATED `variable_elimination` (the value returned is a Factor, and it is the sum-product) -/
theorem gen_ve_correct (d : Dom) (fs : List (Factor (PlainOf K))) (elim : List Attr) (σ : Attr → Nat)
    (hd : d.WF) (hfs : FactorsOK d fs) (hpre : GM.preVE fs elim = true) (hnd : elim.Nodup)
    (hsub : ∀ a ∈ elim, a ∈ d.attrs) (hσ : d.Valid σ) :
    ∃ g, GMG.variableElimination fs elim = GMG.PyVal.fac g ∧
      (g.sem σ).v = sumOver d elim σ (fun τ => (fs.map (fun f => (f.sem τ).v)).prod) ∧
      (∀ a, a ∈ g.dom.attrs ↔ (a ∉ elim ∧ ∃ f ∈ fs, a ∈ f.dom.attrs)) :=
  ⟨_, gen_variableElimination mulOne_PlainOf fs elim (fun f hf => Shaped.of_wf (hfs f hf).1) hnd hpre,
    Sem.ve_correct d fs elim σ hd hfs hpre hnd hsub hσ⟩

end transfer

/-! ## the generated definitions compute, and the hypotheses are satisfiable (exact log-space rationals) -/
section examples

private def qa : Factor LogQ := ⟨[("a", 2)], ⟨[2], #[⟨.fin 1⟩, ⟨.fin 3⟩]⟩⟩
private def qab : Factor LogQ := ⟨[("a", 2), ("b", 2)], ⟨[2, 2], #[⟨.fin 1⟩, ⟨.fin 2⟩, ⟨.fin 0⟩, ⟨.fin 4⟩]⟩⟩
private def qpots : CliqueVec LogQ := [(["a"], qa), (["a", "b"], qab)]
private def qorder : List (Clique × Clique) := [(["a"], ["a", "b"]), (["a", "b"], ["a"])]

/-- the hypotheses of `gen_bpLoop` / `gen_beliefPropagation` on a two-clique chain -/
example : qorder.Nodup ∧ (qpots.map Prod.fst).Nodup ∧ (∀ p ∈ qpots, Shaped p.2) ∧
    (qpots.map Prod.fst = [["a"], ["a", "b"]]) ∧ (∀ ij ∈ qorder, ij.2 ∈ [["a"], ["a", "b"]]) := by decide

/-- … on which the generated belief propagation computes `total · marginal / Z` exactly: `Z = 1·1 + 1·2 + 3·0 + 3·4 = 15`,
the `a`-marginal is `(3, 12)`, total `5` gives `(1, 4)` -/
example : ((GMG.beliefPropagation [["a"], ["a", "b"]] qorder qpots ⟨.fin 5⟩).get ["a"]).vals.data.map (·.v)
    = #[.fin 1, .fin 4] := by decide +kernel

example : (GMG.logZ [["a"], ["a", "b"]] qorder qpots).v = .fin 15 := by decide +kernel

/-- `preVE`, duplicate-free elimination list, shapes: the hypotheses of `gen_veLogspace` -/
example : GM.preVE [qa, qab] ["a"] = true ∧ ["a"].Nodup ∧ ∀ f ∈ [qa, qab], Shaped f := by decide

example : (GMG.veLogspace [qa, qab] ["a"] ⟨.fin 5⟩).vals.data.map (·.v) = #[.fin (5 * 1 / 15), .fin (5 * 14 / 15)] := by
  decide +kernel

/-- `gen_mle`, `gen_datavector`: hypotheses on the chain -/
example : [["a"], ["a", "b"]].Nodup ∧ ([["a"], ["a", "b"]] : List Clique) ≠ [] ∧
    Shaped (qpots.get (([["a"], ["a", "b"]] : List Clique).headD [])) := by decide

end examples

end PGM.C01.GMG
