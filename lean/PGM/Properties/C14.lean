import PGM.Proofs.Factor
/-!
# C14 — factor algebra is addressed by attribute name, never by position

Property theorems only; helper lemmas live in `PGM/Proofs/`.  Every theorem is about the model
`PGM/Model/Factor.lean`, the line-by-line transcription of `src/mbi/factor.py` on the numpy
contracts of `PGM/Model/NdArr.lean`; the correspondence check ties that model to the Python.

`f.sem σ` is the value of factor `f` at the joint assignment `σ : Attr → Nat` — looked up through
`f`'s own attribute order.  All statements quantify over arbitrary scalar types, arbitrary numbers
and orders of attributes and arbitrary sizes.
-/
namespace PGM.C14
open PGM Factor

variable {α : Type} [Scalar α]

/-- expansion onto a larger domain (any order of attributes) preserves the value at every
assignment, and the result carries exactly the requested domain -/
theorem sem_expand (f : Factor α) (D : Dom) (σ : Attr → Nat)
    (hf : f.WF) (hD : D.WF) (hc : D.contains f.dom = true) (ha : f.dom.Agrees D) (hσ : D.Valid σ) :
    (f.expand D).sem σ = f.sem σ ∧ (f.expand D).dom = D ∧ (f.expand D).WF :=
  ⟨Factor.sem_expand f D σ hf hD hc ha hσ, rfl, Factor.expand_WF f D hf hD hc ha⟩

/-- transposition to any permutation of the attributes preserves the value at every assignment and
returns the axes in the requested order -/
theorem sem_transpose (f : Factor α) (as : List Attr) (σ : Attr → Nat)
    (hf : f.WF) (hp : as.Perm f.dom.attrs) (hσ : f.dom.Valid σ) :
    (f.transpose as).sem σ = f.sem σ ∧ (f.transpose as).dom.attrs = as ∧ (f.transpose as).WF :=
  ⟨Factor.sem_transpose f as σ hf hp hσ, Factor.transpose_attrs f as, Factor.transpose_WF f as hf hp⟩

/-- every binary operation (`+`, `*`, `logaddexp`, and through them `-`) combines the operands'
values at the same joint assignment, whatever the attribute orders and overlap -/
theorem sem_binop (op : α → α → α) (f g : Factor α) (σ : Attr → Nat)
    (hf : f.WF) (hg : g.WF) (hcompat : f.dom.Compatible g.dom) (hσ : (f.dom.merge g.dom).Valid σ) :
    (binop op f g).sem σ = op (f.sem σ) (g.sem σ) ∧ (binop op f g).WF :=
  ⟨Factor.sem_binop op f g σ hf hg hcompat hσ, Factor.binop_WF op f g hf hg hcompat⟩

theorem sem_add (f g : Factor α) (σ : Attr → Nat)
    (hf : f.WF) (hg : g.WF) (hcompat : f.dom.Compatible g.dom) (hσ : (f.dom.merge g.dom).Valid σ) :
    (f.add g).sem σ = Scalar.add (f.sem σ) (g.sem σ) :=
  (sem_binop _ f g σ hf hg hcompat hσ).1

theorem sem_mul (f g : Factor α) (σ : Attr → Nat)
    (hf : f.WF) (hg : g.WF) (hcompat : f.dom.Compatible g.dom) (hσ : (f.dom.merge g.dom).Valid σ) :
    (f.mul g).sem σ = Scalar.mul (f.sem σ) (g.sem σ) :=
  (sem_binop _ f g σ hf hg hcompat hσ).1

theorem sem_logaddexp (f g : Factor α) (σ : Attr → Nat)
    (hf : f.WF) (hg : g.WF) (hcompat : f.dom.Compatible g.dom) (hσ : (f.dom.merge g.dom).Valid σ) :
    (f.logaddexpF g).sem σ = Scalar.logaddexp (f.sem σ) (g.sem σ) :=
  (sem_binop _ f g σ hf hg hcompat hσ).1

/-- subtraction with the `-inf`-aware rewrite of `__sub__` -/
theorem sem_sub (f g : Factor α) (σ : Attr → Nat)
    (hf : f.WF) (hg : g.WF) (hcompat : f.dom.Compatible g.dom) (hσ : (f.dom.merge g.dom).Valid σ) :
    (f.sub g).sem σ = Scalar.add (f.sem σ) (negInfAware (g.sem σ)) :=
  Factor.sem_sub f g σ hf hg hcompat hσ

/-- division by a factor over a sub-domain: divide where the divisor is positive, 0 where ≤ 0 -/
theorem sem_div (f g : Factor α) (σ : Attr → Nat)
    (hf : f.WF) (hg : g.WF) (hc : f.dom.contains g.dom = true) (ha : g.dom.Agrees f.dom)
    (hσ : f.dom.Valid σ) :
    (f.divF g).sem σ = safeDiv (f.sem σ) (g.sem σ) :=
  Factor.sem_div f g σ hf hg hc ha hσ

/-- the in-place forms are by-name too … -/
theorem sem_iop (op : α → α → α) (f g : Factor α) (σ : Attr → Nat)
    (hf : f.WF) (hg : g.WF) (hc : f.dom.contains g.dom = true) (ha : g.dom.Agrees f.dom)
    (hσ : f.dom.Valid σ) :
    (iop op f g).sem σ = op (f.sem σ) (g.sem σ) ∧ (iop op f g).dom = f.dom :=
  ⟨Factor.sem_iop op f g σ hf hg hc ha hσ, rfl⟩

/-- … and agree with their pure counterparts (same domain, same value everywhere) -/
theorem iop_eq_binop (op : α → α → α) (f g : Factor α) (σ : Attr → Nat)
    (hf : f.WF) (hg : g.WF) (hc : f.dom.contains g.dom = true) (ha : g.dom.Agrees f.dom)
    (hσ : f.dom.Valid σ) :
    (iop op f g).sem σ = (binop op f g).sem σ ∧ (iop op f g).dom = (binop op f g).dom :=
  Factor.iop_eq_binop op f g σ hf hg hc ha hσ

/-- aggregation (`sum`, `logsumexp`, `max` are `reduce r` for the respective `r`) over named
attributes: the value at `σ` is the aggregate of `f` over all settings of the removed attributes.

Totalised lookup (audit 2): an attribute of `as` that is NOT in `f.dom` is ignored by the model (`Dom.removed` filters `f.dom.attrs`)
where the source's `self.attrs.index(a)` raises `ValueError`; the statement describes the code under `Factor.preReduce f as`
(`f.dom.hasAll as`), which is not a hypothesis.  Likewise for the `CliqueVec` theorems of C14B (`sem_addV`, `dotV_spec`): a
missing KEY reads the default `Factor.zeros []` where Python raises `KeyError`.  Not translated at all: the `out=` variants of
`Factor.exp` / `Factor.log` / `copy` (in-place store into a caller's table) — `tools/py2factor.py` leaves those branches out. -/
theorem sem_reduce (r : List α → α) (f : Factor α) (as : List Attr) (σ : Attr → Nat)
    (hf : f.WF) (hσ : f.dom.Valid σ) :
    (reduce r f as).sem σ
      = r ((cells ((f.dom.removed as).map f.dom.cfg)).map
            (fun v => f.sem (Dom.override σ (f.dom.removed as) v))) ∧
    (reduce r f as).dom.attrs = f.dom.invert as :=
  ⟨Factor.sem_reduce r f as σ hf hσ, Factor.reduce_attrs r f as⟩

/-- projection returns its axes in the order requested, and is the aggregate over the others -/
theorem sem_project (r : List α → α) (f : Factor α) (as : List Attr) (σ : Attr → Nat)
    (hf : f.WF) (has : as.Nodup) (hsub : ∀ a ∈ as, a ∈ f.dom.attrs) (hσ : f.dom.Valid σ) :
    (project r f as).dom.attrs = as ∧
    (project r f as).sem σ
      = r ((cells ((f.dom.invert as).map f.dom.cfg)).map
            (fun v => f.sem (Dom.override σ (f.dom.invert as) v))) :=
  ⟨Factor.project_attrs r f as, Factor.sem_project r f as σ hf has hsub hσ⟩

/-- conditioning on evidence fixes the named attributes -/
theorem sem_condition (f : Factor α) (ev : List (Attr × Nat)) (σ : Attr → Nat)
    (hf : f.WF) (hev : ∀ p ∈ ev, p.1 ∈ f.dom.attrs ∧ p.2 < f.dom.cfg p.1) (hσ : f.dom.Valid σ) :
    (f.condition ev).sem σ = f.sem (fun a => (ev.lookup a).getD (σ a)) :=
  Factor.sem_condition f ev σ hf hev hσ

end PGM.C14
