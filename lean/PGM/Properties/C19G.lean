import PGM.Generated.PublicG
import PGM.Proofs.PublicGen
import PGM.Properties.C19
import PGM.Properties.C09G
/-!
# C19 (translator tie) — the regenerated reading of `src/mbi/public_inference.py` is the hand-written model

`PGM/Generated/PublicG.lean` is produced on every run by `tools/py2pub.py` from the current source:

* `entropic_mirror_descent` → `PubG.entropicMirrorDescent` (+ its loop body `…_loop1`, state
  `(logP, loss, dL, alpha, begun)`; the stale `P` is a parameter of the body, not state)
* `PublicInference.__init__` → `PubG.initWeights`
* `PublicInference._marginal_loss` → `PubG.marginalLossL2 / L1 / Fn` (+ loop bodies)
* the closure `loss_and_grad` of `estimate` → `PubG.lossAndGrad` (+ loop body)
* `PublicInference.estimate` → `PubG.estimateGiven / estimateNone` (`estimate_total` is C09G's)

Each is proved equal — for every scalar type and all arguments, without hypotheses — to the definition of
`PGM/Model/Public.lean` the C19 theorems are about (`emdStep`, `emd`, `initWeights`, `marginalLoss`,
`marginalLossL1`, `lossAndGrad`, `estimate`).  Then the C19 theorems are re-stated for the GENERATED definitions,
first for the descent alone (any objective), then for `estimate` as a whole: one positive weight per public record,
summing to the given or estimated total, over the unchanged records, never fitting worse than the uniformly
weighted public data with the same total — for EVERY `_marginal_loss` (L2, L1, callable), every measurement list.

Model repair made on the way: the acceptance test `loss - new_loss >= thr` was modelled as `!(thr − (loss − new) > 0)`,
which ACCEPTS when a nan is involved; Python's `>=` rejects.  `emdStep` now uses `le0 (thr − (loss − new))`
(`accept_test_nan` below shows the two readings apart); over `ℝ` nothing changes.
-/
namespace PGM.C19G
open PGM PGM.Public
section generic
variable {α : Type} [Scalar α]

/-! ## `entropic_mirror_descent` -/

/-- the centring statement `dL = dL - dL.mean()` as generated (a broadcast subtraction of `sum/len`) is `center` -/
theorem gen_center (d : List α) :
    List.map (fun v => Scalar.sub v (Scalar.div (Scalar.sum d) (Scalar.ofNat (List.length d)))) d = center d := rfl

/-- one iteration of the loop: the generated body, on the tuple state, is `emdStep` (stale `P` included) -/
theorem gen_emdStep (lossgrad : List α → α × List α) (total : α) (P : List α)
    (st : List α × α × List α × α × Bool) (k : Nat) :
    toState (PubG.entropicMirrorDescent_loop1 lossgrad total P st k) = emdStep lossgrad total P (toState st) := by
  obtain ⟨logP, loss, dL, alpha, begun⟩ := st
  simp only [PubG.entropicMirrorDescent_loop1, emdStep, toState, PubG.geG, Loss.dot, dotv, center, vsum, tilt_eq]
  split <;> rename_i h <;> simp only [h, ↓reduceIte, Bool.false_eq_true] <;> cases begun <;> rfl

/-- `entropic_mirror_descent` is `emd` -/
theorem gen_emd (lossgrad : List α → α × List α) (x0 : List α) (total eps0 : α) (iters : Nat) :
    PubG.entropicMirrorDescent lossgrad x0 total eps0 iters = emd lossgrad x0 total eps0 iters := by
  simp only [PubG.entropicMirrorDescent, emd, vsum, init_logP_eq, init_P_eq]
  exact congrArg (fun s => List.map Scalar.exp s.logP)
    (foldl_sim toState _ (fun s _ => emdStep lossgrad total _ s) (gen_emdStep lossgrad total _) (List.range iters) _)

/-- the two readings of the acceptance test differ exactly on nan: the earlier model accepted, Python (and the
model now) rejects -/
theorem accept_test_nan : (!(Scalar.gt0 ExtQ.nan)) = true ∧ Scalar.le0 ExtQ.nan = false := ⟨rfl, rfl⟩

/-! ## `PublicInference` -/

/-- `__init__`: unit weights -/
theorem gen_initWeights (pub : Dataset α) : PubG.initWeights pub = Public.initWeights pub := rfl

theorem gen_frame (pub : Dataset α) : PubG.frame pub = ⟨pub.dom.attrs, pub.rows⟩ := rfl
theorem gen_fromData (est : Dataset α) (cliques : List JT.Clique) :
    PubG.fromData est cliques = tabulate est cliques := rfl
theorem gen_gather (a : NdArr α) (idx : List (List Int)) : PubG.gather a idx = Public.gather a idx := rfl

/-- one measurement of `_marginal_loss`, metric L2 -/
theorem gen_marginalLossL2_step (mu : CliqueVec α) (st : α × CliqueVec α) (m : Loss.Meas α) :
    PubG.marginalLossL2_loop1 mu st m
      = measStep (fun d => Scalar.mul (Scalar.div Scalar.one (Scalar.add Scalar.one Scalar.one)) (Loss.dot d d))
          (fun d => d) mu st m := rfl

/-- one measurement of `_marginal_loss`, metric L1 -/
theorem gen_marginalLossL1_step (mu : CliqueVec α) (st : α × CliqueVec α) (m : Loss.Meas α) :
    PubG.marginalLossL1_loop1 mu st m
      = measStep (fun d => Scalar.sum (d.map Loss.absS)) (fun d => d.map Loss.signS) mu st m := rfl

/-- `_marginal_loss`, metric 'L2' (any string other than 'L1') -/
theorem gen_marginalLossL2 (ms : List (Loss.Meas α)) (mu : CliqueVec α) :
    PubG.marginalLossL2 ms mu = Public.marginalLoss ms mu := rfl

/-- `_marginal_loss`, metric 'L1' -/
theorem gen_marginalLossL1 (ms : List (Loss.Meas α)) (mu : CliqueVec α) :
    PubG.marginalLossL1 ms mu = Public.marginalLossL1 ms mu := rfl

/-- `_marginal_loss` with a callable metric: the callable is applied to the tables -/
theorem gen_marginalLossFn (metric : CliqueVec α → α × CliqueVec α) (ms : List (Loss.Meas α)) (mu : CliqueVec α) :
    PubG.marginalLossFn metric ms mu = metric mu := rfl

/-- one clique of the gather loop of `loss_and_grad` -/
theorem gen_lossAndGrad_step (est : Dataset α) (dL : CliqueVec α) (dw : List α) (cl : JT.Clique) :
    PubG.lossAndGrad_loop1 est dL dw cl
      = List.zipWith Scalar.add dw (Public.gather (dL.get cl).vals (est.project cl).rows) := rfl

/-- the closure `loss_and_grad` (with `cliques = [M[-1] for M in measurements]` as `estimate` sets it) -/
theorem gen_lossAndGrad (mloss : List (Loss.Meas α) → CliqueVec α → α × CliqueVec α) (pub : Dataset α)
    (ms : List (Loss.Meas α)) (w : List α) :
    PubG.lossAndGrad mloss ms (ms.map (fun M => M.proj)) pub w = Public.lossAndGrad mloss pub ms w := rfl

/-- `estimate(measurements, total)` with `total` given -/
theorem gen_estimateGiven (mloss : List (Loss.Meas α) → CliqueVec α → α × CliqueVec α) (pub : Dataset α)
    (w0 : List α) (ms : List (Loss.Meas α)) (total eps0 : α) :
    PubG.estimateGiven mloss pub w0 ms total eps0 = Public.estimate mloss pub w0 ms total eps0 := by
  simp only [PubG.estimateGiven, Public.estimate, gen_emd]
  rfl

/-- `estimate(measurements)` with `total=None`: the same with the total `estimate_total(measurements)` -/
theorem gen_estimateNone (mloss : List (Loss.Meas α) → CliqueVec α → α × CliqueVec α)
    (estimateTotal : List (Loss.Meas α) → α) (pub : Dataset α) (w0 : List α) (ms : List (Loss.Meas α)) (eps0 : α) :
    PubG.estimateNone mloss estimateTotal pub w0 ms eps0
      = Public.estimate mloss pub w0 ms (estimateTotal ms) eps0 := by
  simp only [PubG.estimateNone, Public.estimate, gen_emd]
  rfl

end generic

/-! ## the C19 theorems for the generated descent (real numbers, `eps0 = 0`)

`eps0`: the source computes `logP = np.log(x0 + np.nextafter(0, 1)) + …`; the translator makes `np.nextafter(0, 1)` the
parameter `eps0` of the generated definition, and `gen_emd` / `gen_emdStep` hold for EVERY `eps0`.  The theorems below
(`gen_emd_weights_valid`, `gen_emd_zero_iters`, `gen_emd_never_worse_than_start`, and `gen_estimate*_c19`) instantiate it
with `0`: the smallest positive double (`5e-324`) has no counterpart over `ℝ`, `x + 5e-324 == x` in floating point for
every normal `x > 0`, and the guard only matters for zero weights, which the hypothesis `∀ x ∈ x0, 0 < x` (unit weights
from `__init__`) excludes.  For a positive real `eps0` the statements would change (e.g. `gen_emd_zero_iters`: the
start is `(x + eps0)·total/Σx`, whose sum is not `total`). -/

/-- `emd_weights_valid` for the generated `entropic_mirror_descent` (with `eps0 := 0` for the source's
`np.nextafter(0, 1)`, see above) -/
theorem gen_emd_weights_valid (lossgrad : List ℝ → ℝ × List ℝ) (x0 : List ℝ) (total : ℝ) (iters : Nat)
    (hg : GradLen lossgrad) (hx : ∀ x ∈ x0, 0 < x) (hne : x0 ≠ []) (ht : 0 < total) :
    (PubG.entropicMirrorDescent lossgrad x0 total 0 iters).length = x0.length ∧
    (∀ w ∈ PubG.entropicMirrorDescent lossgrad x0 total 0 iters, 0 < w) ∧
    (PubG.entropicMirrorDescent lossgrad x0 total 0 iters).sum = total := by
  rw [gen_emd]; exact C19.emd_weights_valid lossgrad x0 total iters hg hx hne ht

/-- `emd_zero_iters` for the generated `entropic_mirror_descent` (`eps0 := 0` for `np.nextafter(0, 1)`) -/
theorem gen_emd_zero_iters (lossgrad : List ℝ → ℝ × List ℝ) (x0 : List ℝ) (total : ℝ)
    (hx : ∀ x ∈ x0, 0 < x) (hne : x0 ≠ []) (ht : 0 < total) :
    PubG.entropicMirrorDescent lossgrad x0 total 0 0 = x0.map (fun x => x * total / x0.sum) := by
  rw [gen_emd]; exact C19.emd_zero_iters lossgrad x0 total hx hne ht

/-- `emd_never_worse_than_start` for the generated `entropic_mirror_descent` (`eps0 := 0` for `np.nextafter(0, 1)`) -/
theorem gen_emd_never_worse_than_start (lossgrad : List ℝ → ℝ × List ℝ) (x0 : List ℝ) (total : ℝ)
    (iters : Nat) (hg : GradLen lossgrad) (hx : ∀ x ∈ x0, 0 < x) (hne : x0 ≠ []) (ht : 0 < total) :
    (lossgrad (PubG.entropicMirrorDescent lossgrad x0 total 0 iters)).1
      ≤ (lossgrad (x0.map (fun x => x * total / x0.sum))).1 := by
  rw [gen_emd]; exact C19.emd_never_worse_than_start lossgrad x0 total iters hg hx hne ht

/-- the hypotheses are satisfiable (the example objective of C19) -/
example : GradLen exLG ∧ (∀ x ∈ ([1, 1] : List ℝ), 0 < x) ∧ ([1, 1] : List ℝ) ≠ [] ∧ (0 : ℝ) < 2 :=
  ⟨exLG_gradlen, by simp, by simp, by norm_num⟩

/-- the generated descent on the example run of C19: weights after 0, 1, 2 iterations -/
theorem gen_emd_example_run :
    PubG.entropicMirrorDescent exLG [1, 1] 2 0 0 = [1, 1] ∧
    PubG.entropicMirrorDescent exLG [1, 1] 2 0 1 = [2 / 17, 32 / 17] ∧
    PubG.entropicMirrorDescent exLG [1, 1] 2 0 2 = [2 / 5, 8 / 5] := by
  simp only [gen_emd]
  exact ⟨C19.emd_example_run.1, C19.emd_example_run.2.1, C19.emd_example_run.2.2.1⟩

/-! ## C19 for the generated `estimate` -/

/-- the generated closure `loss_and_grad` returns one gradient entry per public record, whatever `_marginal_loss` is -/
theorem gen_lossAndGrad_gradLen (mloss : List (Loss.Meas ℝ) → CliqueVec ℝ → ℝ × CliqueVec ℝ) (pub : Dataset ℝ)
    (ms : List (Loss.Meas ℝ)) :
    GradLenAt pub.records (PubG.lossAndGrad mloss ms (ms.map (fun M => M.proj)) pub) := by
  intro w hw
  rw [gen_lossAndGrad]
  exact lossAndGrad_length mloss pub ms w hw

theorem sum_replicate_one (n : Nat) : (List.replicate n (1 : ℝ)).sum = n := by
  simp

/-- **C19 for the generated code, total given.**  For every public dataset with at least one record, every
measurement list, every `_marginal_loss` (`PubG.marginalLossL2`, `PubG.marginalLossL1`, `PubG.marginalLossFn f`, …),
every total > 0, a fresh `PublicInference(pub).estimate(ms, total)` returns a dataset
* whose weights are `self.weights`, one per public record, each strictly positive (hence finite and nonnegative),
  summing to `total`;
* over the public domain and — when the attribute names are distinct and every record has one value per attribute —
  over the unchanged public records;
* whose objective value is at most that of the uniform weights `total / n` on the same records.

The objective is abstract here (any `mloss`).  For `PubG.marginalLossL2 / L1` it divides by the noise scale of each
measurement; with `noise = 0` the model's `x/0 = 0` makes it constant `0` (Python: `1.0/noise` fails), so the instances
with the objective written out (`C19E.gen_reweighting_never_worse_than_uniform*`) assume `0 < noise`.  The last argument
`0` is `eps0` (source: `np.nextafter(0, 1)`, see the section on the descent above). -/
theorem gen_estimateGiven_c19 (mloss : List (Loss.Meas ℝ) → CliqueVec ℝ → ℝ × CliqueVec ℝ) (pub : Dataset ℝ)
    (ms : List (Loss.Meas ℝ)) (total : ℝ) (hn : 0 < pub.records) (ht : 0 < total) :
    let r := PubG.estimateGiven mloss pub (PubG.initWeights pub) ms total 0
    let obj := PubG.lossAndGrad mloss ms (ms.map (fun M => M.proj)) pub
    r.1.weights = some r.2 ∧ r.1.dom = pub.dom ∧
    (pub.dom.attrs.Nodup → (∀ row ∈ pub.rows, row.length = pub.dom.attrs.length) → r.1.rows = pub.rows) ∧
    r.2.length = pub.records ∧ (∀ w ∈ r.2, 0 < w) ∧ r.2.sum = total ∧
    (obj r.2).1 ≤ (obj (List.replicate pub.records (total / pub.records))).1 := by
  intro r obj
  have hr : r = Public.estimate mloss pub (Public.initWeights pub) ms total 0 := gen_estimateGiven _ _ _ _ _ _
  have hobj : obj = Public.lossAndGrad mloss pub ms := funext (gen_lossAndGrad mloss pub ms)
  have hg : GradLenAt (Public.initWeights pub).length (Public.lossAndGrad mloss pub ms) := by
    rw [← hobj]; simpa [Public.initWeights] using gen_lossAndGrad_gradLen mloss pub ms
  have hx : ∀ x ∈ (Public.initWeights pub : List ℝ), 0 < x := by
    intro x hx; simp only [Public.initWeights, List.mem_replicate] at hx; rw [hx.2]; exact one_pos
  have hne : (Public.initWeights pub : List ℝ) ≠ [] := by
    simp only [Public.initWeights, r_one]; intro h; simp at h; omega
  have hv := emd_weights_valid_at _ _ total 250 hg hx hne ht
  have hw := emd_never_worse_than_start_at _ _ total 250 hg hx hne ht
  have hu : (Public.initWeights pub : List ℝ).map (fun x => x * total / (Public.initWeights pub : List ℝ).sum)
      = List.replicate pub.records (total / pub.records) := by
    simp [Public.initWeights]
  rw [hu] at hw
  rw [hr, hobj]
  refine ⟨rfl, rfl, fun hnd hwd => reweight_rows pub _ hnd hwd, ?_, hv.2.1, hv.2.2, hw⟩
  show (emd (Public.lossAndGrad mloss pub ms) (Public.initWeights pub) total 0 250).length = pub.records
  simpa [Public.initWeights] using hv.1

/-- **C19 for the generated code, total omitted**: the same with the total `estimate_total(measurements)`, whenever
that is positive -/
theorem gen_estimateNone_c19 (mloss : List (Loss.Meas ℝ) → CliqueVec ℝ → ℝ × CliqueVec ℝ)
    (estimateTotal : List (Loss.Meas ℝ) → ℝ) (pub : Dataset ℝ)
    (ms : List (Loss.Meas ℝ)) (hn : 0 < pub.records) (ht : 0 < estimateTotal ms) :
    let r := PubG.estimateNone mloss estimateTotal pub (PubG.initWeights pub) ms 0
    let obj := PubG.lossAndGrad mloss ms (ms.map (fun M => M.proj)) pub
    r.1.weights = some r.2 ∧ r.1.dom = pub.dom ∧
    (pub.dom.attrs.Nodup → (∀ row ∈ pub.rows, row.length = pub.dom.attrs.length) → r.1.rows = pub.rows) ∧
    r.2.length = pub.records ∧ (∀ w ∈ r.2, 0 < w) ∧ r.2.sum = estimateTotal ms ∧
    (obj r.2).1 ≤ (obj (List.replicate pub.records (estimateTotal ms / pub.records))).1 := by
  have h : PubG.estimateNone mloss estimateTotal pub (PubG.initWeights pub) ms 0
      = PubG.estimateGiven mloss pub (PubG.initWeights pub) ms (estimateTotal ms) 0 := by
    rw [gen_estimateNone, gen_estimateGiven]
  rw [h]
  exact gen_estimateGiven_c19 mloss pub ms (estimateTotal ms) hn ht

/-- a measurement as the tuple `(Q, y, noise, proj)` of tools/py2total.py -/
def measTuple (m : Loss.Meas ℝ) : List (List ℝ) × List ℝ × ℝ × List Attr := (m.Q, m.y, m.noise, m.proj)

/-- with `estimate_total` as regenerated by tools/py2total.py (`TotalG.estimateTotal_public`, under the contract
`Total.LsmrOK` of C09G: `lsmr` returns the minimum-norm solution of `Qᵀ v = 1` where that system is consistent, and
whatever it returns fails the `allclose` test where it is not) the estimated total is at least 1, so the hypothesis of
`gen_estimateNone_c19` holds: the weights sum to the estimated total -/
theorem gen_estimateNone_total (mloss : List (Loss.Meas ℝ) → CliqueVec ℝ → ℝ × CliqueVec ℝ)
    (lsmrSolve : List (List ℝ) → List ℝ) (allclose : List ℝ → List ℝ → Bool) (pub : Dataset ℝ)
    (ms : List (Loss.Meas ℝ)) (hn : 0 < pub.records)
    (hl : Total.LsmrOK lsmrSolve allclose (ms.map measTuple)) :
    let et := fun ms => PGM.TotalG.estimateTotal_public lsmrSolve allclose (ms.map measTuple)
    let r := PubG.estimateNone mloss et pub (PubG.initWeights pub) ms 0
    1 ≤ et ms ∧ r.2.sum = et ms ∧ r.2.length = pub.records ∧ (∀ w ∈ r.2, 0 < w) := by
  intro et r
  have h1 : 1 ≤ et ms := (C09.TotalG.gen_total_ge_one lsmrSolve allclose (ms.map measTuple) hl).2.2
  have h := gen_estimateNone_c19 mloss et pub ms hn (by linarith)
  exact ⟨h1, h.2.2.2.2.2.1, h.2.2.2.1, h.2.2.2.2.1⟩

/-! ## the hypotheses are satisfiable; a concrete public dataset -/

/-- three public records over two binary attributes -/
def exPub : Dataset ℝ := ⟨[("a", 2), ("b", 2)], [[0, 1], [1, 1], [0, 1]], none⟩

/-- one measurement: the one-way marginal on `a`, answers `[3, 1]`, unit noise -/
def exMs : List (Loss.Meas ℝ) := [⟨[[1, 0], [0, 1]], [3, 1], 1, ["a"]⟩]

example : 0 < exPub.records ∧ exPub.dom.attrs.Nodup ∧ (∀ row ∈ exPub.rows, row.length = exPub.dom.attrs.length) ∧
    (0 : ℝ) < 4 := by
  refine ⟨by decide, by decide, ?_, by norm_num⟩
  intro row h
  simp only [exPub, List.mem_cons, List.not_mem_nil, or_false] at h
  rcases h with rfl | rfl | rfl <;> rfl

/-- for this dataset the L2 instance of the theorem, spelled out -/
example :
    let r := PubG.estimateGiven PubG.marginalLossL2 exPub (PubG.initWeights exPub) exMs 4 0
    r.1.rows = exPub.rows ∧ r.2.length = 3 ∧ r.2.sum = 4 ∧ (∀ w ∈ r.2, 0 < w) := by
  have h := gen_estimateGiven_c19 PubG.marginalLossL2 exPub exMs 4 (by decide) (by norm_num)
  refine ⟨h.2.2.1 (by decide) ?_, h.2.2.2.1, h.2.2.2.2.2.1, h.2.2.2.2.1⟩
  intro row hr
  simp only [exPub, List.mem_cons, List.not_mem_nil, or_false] at hr
  rcases hr with rfl | rfl | rfl <;> rfl

/-- the contract of `gen_estimateNone_total` holds for the model's own solver and the exact test (as in C09G, where
`lsmrOK_exLS` also has a scipy-like `lsmr` and a tolerance test on a list with non-qualifying matrices) -/
example : 0 < exPub.records ∧
    Total.LsmrOK Total.minNormSol (fun a b : List ℝ => decide (a = b)) (exMs.map measTuple) :=
  ⟨by decide, Total.LsmrOK.of_exact _ _ _ (fun _ _ => rfl) (fun _ _ => rfl)⟩

end PGM.C19G
