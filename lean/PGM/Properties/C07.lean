import PGM.Generated.Cdp2adpR
import PGM.Proofs.Fold
/-!
# C07 — zCDP ↔ (ε, δ) conversions

Theorems about `PGM/Generated/Cdp2adpR.lean`, which `tools/py2lean.py` regenerates from
`mechanisms/cdp2adp.py` on every run.  A change of the Python that alters the program's meaning
changes the generated definitions and these proofs are re-checked against it.
-/
namespace PGM.C07
open PGM.Gen.R

theorem cdp_delta_zero (eps : ℝ) : cdp_delta 0 eps = 0 := by
  simp [cdp_delta]

/-- **Soundness of `cdp_rho`** (a loop invariant, independent of what `cdp_delta` computes):
the budget returned for a target `(ε, δ)` never implies more than `δ`. -/
theorem cdp_rho_sound (eps delta : ℝ) (hd : 0 < delta) :
    cdp_delta (cdp_rho eps delta) eps ≤ delta := by
  unfold cdp_rho
  split
  · norm_num [cdp_delta_zero]; exact hd.le
  · have key := fold_inv (fun st : ℝ × ℝ × ℝ => cdp_delta st.2.1 eps ≤ delta)
      (cdp_rho_loop1 eps delta) 1000 ((0:ℝ), (0.0:ℝ), eps + 1)
      (by norm_num [cdp_delta_zero]; exact hd.le)
      (by
        rintro ⟨rho, rhomin, rhomax⟩ h
        simp only [cdp_rho_loop1]
        split <;> simp_all)
    exact key


theorem cdp_delta_le_one (rho eps : ℝ) : cdp_delta rho eps ≤ 1 := by
  unfold cdp_delta
  split
  · norm_num
  · simp only []
    exact le_trans (min_le_right _ _) (by norm_num)

/-- the expression the α-search drives to zero (as generated from the source) -/
noncomputable def dexpr (rho eps alpha : ℝ) : ℝ :=
  ((2 * alpha - 1) * rho - eps) + Real.log (1 + (-1) / alpha)

/-- the Rényi-order bound evaluated by the last line of `cdp_delta` -/
noncomputable def renyiBound (rho eps alpha : ℝ) : ℝ :=
  Real.exp ((alpha - 1) * (alpha * rho - eps) + alpha * Real.log (1 + (-1) / alpha)) / (alpha - 1)

/-- upper end of the search bracket -/
noncomputable def amax0 (rho eps : ℝ) : ℝ := (eps + 1) / (2 * rho) + 2

/-- final state of the α-search -/
noncomputable def alphaSearch (rho eps : ℝ) (n : Nat) : ℝ × ℝ × ℝ × ℝ :=
  Nat.fold n (fun _ _ st => cdp_delta_loop1 rho eps st) (0, 0, 1.01, amax0 rho eps)

/-- **Bracket invariant of the α-search**, for every iteration count `n`: the bracket stays inside
`[1.01, amax0]`, halves every step, `α` is an end point of it from the first step on, and the sign
of the driving expression is negative at the lower end / nonnegative at the upper end unless that
end has never moved. -/
theorem alpha_bracket (rho eps : ℝ) (h0 : 1.01 ≤ amax0 rho eps) (n : Nat) :
    let st := alphaSearch rho eps n
    (1.01 ≤ st.2.2.1 ∧ st.2.2.1 ≤ st.2.2.2 ∧ st.2.2.2 ≤ amax0 rho eps) ∧
    (st.2.2.2 - st.2.2.1 = (amax0 rho eps - 1.01) / 2 ^ n) ∧
    (1 ≤ n → st.2.2.1 ≤ st.1 ∧ st.1 ≤ st.2.2.2) ∧
    (st.2.2.1 = 1.01 ∨ dexpr rho eps st.2.2.1 < 0) ∧
    (st.2.2.2 = amax0 rho eps ∨ 0 ≤ dexpr rho eps st.2.2.2) := by
  refine fold_inv_idx (fun k (st : ℝ × ℝ × ℝ × ℝ) =>
    (1.01 ≤ st.2.2.1 ∧ st.2.2.1 ≤ st.2.2.2 ∧ st.2.2.2 ≤ amax0 rho eps) ∧
    (st.2.2.2 - st.2.2.1 = (amax0 rho eps - 1.01) / 2 ^ k) ∧
    (1 ≤ k → st.2.2.1 ≤ st.1 ∧ st.1 ≤ st.2.2.2) ∧
    (st.2.2.1 = 1.01 ∨ dexpr rho eps st.2.2.1 < 0) ∧
    (st.2.2.2 = amax0 rho eps ∨ 0 ≤ dexpr rho eps st.2.2.2))
    (cdp_delta_loop1 rho eps) n _ ?_ ?_
  · refine ⟨⟨le_refl _, h0, le_refl _⟩, by simp, by simp, Or.inl rfl, Or.inl rfl⟩
  · rintro k ⟨alpha, der, amin, amax⟩ ⟨⟨h1, h2, h3⟩, hw, _, hlo, hhi⟩
    simp only [] at h1 h2 h3 hw hlo hhi
    simp only [cdp_delta_loop1]
    have hmid1 : amin ≤ (amin + amax) / 2 := by linarith
    have hmid2 : (amin + amax) / 2 ≤ amax := by linarith
    have hd : ((2 : ℝ) * ((amin + amax) / 2) - 1) * rho - eps + Real.log (1 + -(1.0 : ℝ) / ((amin + amax) / 2))
        = dexpr rho eps ((amin + amax) / 2) := by
      unfold dexpr; norm_num
    split
    · rename_i hneg
      rw [hd] at hneg
      refine ⟨⟨by linarith, hmid2, h3⟩, ?_, fun _ => ⟨le_refl _, hmid2⟩, Or.inr hneg, hhi⟩
      simp only []
      rw [pow_succ]; field_simp; field_simp at hw; linarith
    · rename_i hneg
      rw [hd] at hneg
      refine ⟨⟨h1, hmid1, by linarith⟩, ?_, fun _ => ⟨hmid1, le_refl _⟩, hlo, Or.inr (not_lt.mp hneg)⟩
      simp only []
      rw [pow_succ]; field_simp; field_simp at hw; linarith


theorem one_dot_zero : (1.0 : ℝ) = 1 := by norm_num

/-- `cdp_delta` is the Rényi-order bound at the order found by the search, capped at 1 -/
theorem cdp_delta_eq (rho eps : ℝ) (hr : rho ≠ 0) :
    cdp_delta rho eps = min (renyiBound rho eps (alphaSearch rho eps 1000).1) 1 := by
  unfold cdp_delta
  rw [if_neg hr]
  simp only [renyiBound, alphaSearch, amax0, one_dot_zero]

/-- the order used is a legitimate Rényi order (> 1), inside the bracket -/
theorem alpha_final_range (rho eps : ℝ) (h0 : 1.01 ≤ amax0 rho eps) :
    1.01 ≤ (alphaSearch rho eps 1000).1 ∧ (alphaSearch rho eps 1000).1 ≤ amax0 rho eps := by
  have h := alpha_bracket rho eps h0 1000
  simp only [] at h
  obtain ⟨⟨h1, h2, h3⟩, _, h4, _, _⟩ := h
  have := h4 (by norm_num)
  exact ⟨by linarith [this.1], by linarith [this.2]⟩

theorem amax0_ge (rho eps : ℝ) (hr : 0 < rho) (he : 0 ≤ eps) : 2 ≤ amax0 rho eps := by
  unfold amax0
  have : 0 ≤ (eps + 1) / (2 * rho) := by positivity
  linarith

/-- **Dominance over the exact δ, given the published bound.**  `exact` is the exact δ of the
Gaussian mechanism at `(ρ, ε)`; hypothesis `hCKS` is Canonne–Kamath–Steinke Prop. 12 (every Rényi
order `α > 1` yields a valid δ) and is *cited*, not proved here.  Conclusion: the value computed by
`cdp_delta` is an upper bound on the exact δ. -/
theorem cdp_delta_ge_exact (rho eps exact : ℝ) (hr : 0 < rho) (he : 0 ≤ eps)
    (hle1 : exact ≤ 1) (hCKS : ∀ alpha : ℝ, 1 < alpha → exact ≤ renyiBound rho eps alpha) :
    exact ≤ cdp_delta rho eps := by
  rw [cdp_delta_eq rho eps hr.ne']
  have h2 := amax0_ge rho eps hr he
  have hrange := alpha_final_range rho eps (by linarith)
  exact le_min (hCKS _ (by linarith [hrange.1])) hle1

/-- `cdp_delta` is positive for a positive budget: a genuine probability bound -/
theorem cdp_delta_pos (rho eps : ℝ) (hr : 0 < rho) (he : 0 ≤ eps) : 0 < cdp_delta rho eps := by
  rw [cdp_delta_eq rho eps hr.ne']
  have h2 := amax0_ge rho eps hr he
  have hrange := alpha_final_range rho eps (by linarith)
  refine lt_min ?_ one_pos
  unfold renyiBound
  apply div_pos (Real.exp_pos _)
  linarith [hrange.1]

/-- the driving expression is strictly increasing in the order on `(1, ∞)` (for `ρ ≥ 0`), so the
bisection's sign test brackets its unique root -/
theorem dexpr_strictMono (rho eps a b : ℝ) (hr : 0 ≤ rho) (ha : 1 < a) (hab : a < b) :
    dexpr rho eps a < dexpr rho eps b := by
  unfold dexpr
  have hapos : 0 < a := by linarith
  have hbpos : 0 < b := by linarith
  have h1 : 0 < 1 + (-1) / a := by
    have : (1:ℝ) / a < 1 := by rw [div_lt_one hapos]; exact ha
    have e : (-1 : ℝ) / a = -(1 / a) := by ring
    linarith
  have h2 : 1 + (-1) / a < 1 + (-1) / b := by
    have : (1:ℝ) / b < 1 / a := one_div_lt_one_div_of_lt hapos hab
    have e1 : (-1 : ℝ) / a = -(1 / a) := by ring
    have e2 : (-1 : ℝ) / b = -(1 / b) := by ring
    linarith
  have hlog := Real.log_lt_log h1 h2
  nlinarith

/-- **The search localises the optimum — WHEN the optimum is inside the bracket.** If the driving expression has a root `r`
in the initial bracket `[1.01, amax0]`, the root lies in the final bracket, whose width is `(amax0 − 1.01)/2^1000`; hence the
order used differs from the optimal order by at most that width.

Scope (audit 2, `C_no_root`): `dexpr` is strictly increasing (`dexpr_strictMono`) and positive at `amax0` (`amax0_above_root`),
so a root in the bracket exists exactly when `dexpr rho eps 1.01 ≤ 0`, i.e. `1.02·ρ ≤ ε + log 101`.  For the other parameter
points of the property's range (e.g. `ρ = 100, ε = 1`: `dexpr 100 1 1.01 = 102 − 1 − log 101 > 0`) the hypotheses `hr1`, `hr2`,
`hroot` are jointly UNSATISFIABLE and this lemma says nothing: there the search keeps the lower end and returns `α = 1.01`
(`alpha_bracket`, `alpha_final_range`), which is not the optimal order.  Existence of the root in the satisfiable regime
(intermediate value theorem) is not proved here.  The lemma is used by no other theorem: soundness of the conversion
(`cdp_delta_ge_exact`, `cdp_rho_sound`) holds for EVERY order `α > 1` and does not depend on the search finding the optimum —
the lemma only records how tight the search is when the optimum is reachable. -/
theorem alpha_near_root (rho eps r : ℝ) (hr : 0 ≤ rho) (h0 : 1.01 ≤ amax0 rho eps)
    (hr1 : 1.01 ≤ r) (hr2 : r ≤ amax0 rho eps) (hroot : dexpr rho eps r = 0) :
    |(alphaSearch rho eps 1000).1 - r| ≤ (amax0 rho eps - 1.01) / 2 ^ 1000 := by
  have h := alpha_bracket rho eps h0 1000
  simp only [] at h
  obtain ⟨⟨h1, h2, h3⟩, hw, h4, hlo, hhi⟩ := h
  obtain ⟨h5, h6⟩ := h4 (by norm_num)
  set st := alphaSearch rho eps 1000
  have hlo' : st.2.2.1 ≤ r := by
    rcases hlo with hlo | hlo
    · rw [hlo]; exact hr1
    · by_contra hcon
      have hcon := not_le.mp hcon
      have := dexpr_strictMono rho eps r st.2.2.1 hr (by linarith) hcon
      linarith
  have hhi' : r ≤ st.2.2.2 := by
    rcases hhi with hhi | hhi
    · rw [hhi]; exact hr2
    · by_contra hcon
      have hcon := not_le.mp hcon
      have := dexpr_strictMono rho eps st.2.2.2 r hr (by linarith) hcon
      linarith
  rw [abs_le]
  constructor <;> linarith


/-- the upper end of the initial bracket is always to the right of the root -/
theorem amax0_above_root (rho eps : ℝ) (hr : 0 < rho) (he : 0 ≤ eps) :
    0 < dexpr rho eps (amax0 rho eps) := by
  have h2 := amax0_ge rho eps hr he
  have hpos : 0 < amax0 rho eps := by linarith
  have hhalf : (1:ℝ) / 2 ≤ 1 + (-1) / amax0 rho eps := by
    have : (1:ℝ) / amax0 rho eps ≤ 1 / 2 := one_div_le_one_div_of_le (by norm_num) h2
    have e : (-1 : ℝ) / amax0 rho eps = -(1 / amax0 rho eps) := by ring
    linarith
  have hlog : Real.log (1 / 2) ≤ Real.log (1 + (-1) / amax0 rho eps) :=
    Real.log_le_log (by norm_num) hhalf
  have hl2 : Real.log (1 / 2) = - Real.log 2 := by
    rw [one_div, Real.log_inv]
  have hlt : Real.log 2 < 2 - 1 := Real.log_lt_sub_one_of_pos (by norm_num) (by norm_num)
  have key : (2 * amax0 rho eps - 1) * rho = eps + 1 + 3 * rho := by
    unfold amax0; field_simp; ring
  unfold dexpr
  rw [key]
  linarith

/-- bracket invariant of `cdp_rho`'s bisection for every iteration count: the lower end is sound,
the upper end either never moved or is unsound, and the width halves every step.

What this does NOT say: that the returned budget is "the largest sound one up to `(ε+1)/2^n`".  That reading needs
`cdp_delta · eps` to be monotone in `ρ` (so that every `ρ` above an unsound upper end is unsound too); monotonicity is
TESTED on log grids by the C07 harness, it is not proved.  Proved: some unsound `ρ` (or the untouched initial end `ε + 1`)
lies within `(ε+1)/2^n` above the returned sound one. -/
theorem cdp_rho_bracket (eps delta : ℝ) (hd : 0 < delta) (n : Nat) :
    let st := Nat.fold n (fun _ _ st => cdp_rho_loop1 eps delta st) ((0:ℝ), (0:ℝ), eps + 1)
    cdp_delta st.2.1 eps ≤ delta ∧
    (st.2.2 = eps + 1 ∨ delta < cdp_delta st.2.2 eps) ∧
    st.2.2 - st.2.1 = (eps + 1) / 2 ^ n := by
  refine fold_inv_idx (fun k (st : ℝ × ℝ × ℝ) =>
    cdp_delta st.2.1 eps ≤ delta ∧ (st.2.2 = eps + 1 ∨ delta < cdp_delta st.2.2 eps) ∧
    st.2.2 - st.2.1 = (eps + 1) / 2 ^ k) (cdp_rho_loop1 eps delta) n _ ?_ ?_
  · exact ⟨by simpa [cdp_delta_zero] using hd.le, Or.inl rfl, by simp⟩
  · rintro k ⟨rho, rhomin, rhomax⟩ ⟨h1, h2, hw⟩
    simp only [] at h1 h2 hw
    simp only [cdp_rho_loop1]
    split
    · rename_i hle
      refine ⟨hle, h2, ?_⟩
      simp only []
      rw [pow_succ]; field_simp; field_simp at hw; linarith
    · rename_i hle
      refine ⟨h1, Or.inr (not_le.mp hle), ?_⟩
      simp only []
      rw [pow_succ]; field_simp; field_simp at hw; linarith

/-- **Soundness of `cdp_eps`**, given that the standard bound really starts the bracket on the
sound side (`hinit`; the stretch lemma `standard_ge_new` of DESIGN §C07 is not proved, so this
theorem is `_partial`): the returned ε implies at most δ. -/
theorem cdp_eps_sound_partial (rho delta : ℝ) (hd : 0 < delta)
    (hinit : cdp_delta rho (rho + 2 * Real.sqrt (rho * Real.log (1 / delta))) ≤ delta) :
    cdp_delta rho (cdp_eps rho delta) ≤ delta := by
  unfold cdp_eps
  split
  · rename_i h
    rcases h with h | h
    · exact le_trans (cdp_delta_le_one _ _) h
    · rw [h, cdp_delta_zero]; exact hd.le
  · exact fold_inv (fun st : ℝ × ℝ × ℝ => cdp_delta rho st.2.1 ≤ delta)
      (cdp_eps_loop1 rho delta) 1000 _ hinit
      (by
        rintro ⟨e, emax, emin⟩ h
        simp only [cdp_eps_loop1]
        split <;> simp_all)

/-! non-vacuity: the hypotheses are met by ordinary parameter values -/
example : (0:ℝ) < 1 ∧ (0:ℝ) ≤ 1 ∧ (1.01:ℝ) ≤ amax0 1 1 := by
  refine ⟨by norm_num, by norm_num, ?_⟩
  unfold amax0; norm_num

end PGM.C07
