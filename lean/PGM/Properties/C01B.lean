import PGM.Properties.C01
import PGM.Proofs.BPBounded
/-!
# C01 (continued) — exact inference stays finite

Every answer of exact inference (`belief_propagation`, `project`, `datavector`; model in
`PGM/Model/GM.lean`) is a nonnegative number bounded by the model total, whatever the magnitude of
the potentials: the value handed to the final `exp` is at most `log total`; every stored message of
the loop is bounded too (section 5).  The scalar is `LogOf K`
(a log-space value `x` stands for `log x.v`, `x.v ≥ 0`, `x.v = 0` for `-∞`) over any linearly ordered
field `K`; the log-sum-exp bounds are over `ℝ` (`PGM/Proofs/RealScalar.lean`).
-/
namespace PGM.C01
open PGM PGM.JT PGM.GM PGM.Sem
variable {K : Type} [Field K] [LinearOrder K] [IsStrictOrderedRing K]

/-! ## non-vacuity instance: `a, b, c` binary, cliques `{a,b}`, `{b,c}` sharing `b`, potentials with
a huge entry (`10⁶`) and structural zeros (`-∞` in log space), total `100` -/
section Example
def exD : Dom := [("a", 2), ("b", 2), ("c", 2)]
def exCl : List Clique := [["a", "b"], ["b", "c"]]
def exT : Tree := ⟨exCl, [(["a", "b"], ["b", "c"])]⟩
def exOrd : List (Clique × Clique) := [(["a", "b"], ["b", "c"]), (["b", "c"], ["a", "b"])]
def exPots : CliqueVec (LogOf ℚ) :=
  [(["a", "b"], ⟨[("a", 2), ("b", 2)], ⟨[2, 2], #[⟨1⟩, ⟨1000000⟩, ⟨0⟩, ⟨3⟩]⟩⟩),
   (["b", "c"], ⟨[("b", 2), ("c", 2)], ⟨[2, 2], #[⟨2⟩, ⟨5⟩, ⟨7⟩, ⟨0⟩]⟩⟩)]

theorem exNonneg : ∀ p ∈ exPots, ∀ x ∈ p.2.vals.data.toList, 0 ≤ x.v := by
  intro p hp x hx
  simp only [exPots, List.mem_cons, List.not_mem_nil, or_false] at hp
  rcases hp with rfl | rfl <;> simp at hx <;> rcases hx with rfl | rfl | rfl | rfl <;> norm_num

theorem exModelOK : ModelOK exD exCl exT exOrd exPots where
  dom_wf := by decide
  nodes := rfl
  jt := by decide
  clique_ok := by decide
  keys := rfl
  pot_ok := by
    intro p hp
    simp only [exPots, List.mem_cons, List.not_mem_nil, or_false] at hp
    rcases hp with rfl | rfl <;> exact ⟨by decide, by decide, by unfold Dom.Agrees; decide⟩
  nonneg := exNonneg

theorem exFactorsOK : FactorsOK exD (exPots.map Prod.snd) := by
  intro f hf
  simp only [exPots, List.map_cons, List.map_nil, List.mem_cons, List.not_mem_nil, or_false] at hf
  rcases hf with rfl | rfl <;> exact ⟨by decide, by unfold Dom.Agrees; decide, by decide⟩

theorem exCover : ∀ a ∈ exD.attrs, ∃ p ∈ exPots, a ∈ p.2.dom.attrs := by decide

/-- `Z = 1·2 + 1·5 + 10⁶·7 + 0 + 0 + 0 + 3·7 + 0 = 7000028` -/
theorem exZ : partition exD exPots = 7000028 := by
  rw [← Sem.BP.logZ_correct exD exCl exT exOrd exPots exModelOK]
  decide +kernel

theorem exZ_ne : partition exD exPots ≠ 0 := by rw [exZ]; norm_num

theorem exValid : exD.Valid (fun _ => 1) := by unfold Dom.Valid; decide

/-- `bp_const_shift_invariant` (hence `bp_tree_indep` with `k ≠ 1`) is NOT vacuous: on the example model, adding `log 5` to the
potential on `[b,c]` (exp-space: that table times 5) — all hypotheses hold, total `100` -/
example := bp_const_shift_invariant exD exCl exT exOrd
  [(["a", "b"], ⟨[("a", 2), ("b", 2)], ⟨[2, 2], #[⟨1⟩, ⟨1000000⟩, ⟨0⟩, ⟨3⟩]⟩⟩)] []
  ["b", "c"] ⟨[("b", 2), ("c", 2)], ⟨[2, 2], #[⟨2⟩, ⟨5⟩, ⟨7⟩, ⟨0⟩]⟩⟩ exModelOK (⟨100⟩ : LogOf ℚ) 5 (by norm_num) exZ_ne
  (by norm_num) ["a", "b"] (by decide) (fun _ => 1) exValid
/-- ... and by evaluation: the shifted potentials are different, the returned table is the same -/
example :
    let shifted : CliqueVec (LogOf ℚ) :=
      [(["a", "b"], ⟨[("a", 2), ("b", 2)], ⟨[2, 2], #[⟨1⟩, ⟨1000000⟩, ⟨0⟩, ⟨3⟩]⟩⟩), (["b", "c"], (Factor.addScalar (⟨5⟩ : LogOf ℚ) ⟨[("b", 2), ("c", 2)], ⟨[2, 2], #[⟨2⟩, ⟨5⟩, ⟨7⟩, ⟨0⟩]⟩⟩))]
    (shifted.get ["b", "c"]).vals.data.toList.map (·.v) = [10, 25, 35, 0] ∧
    ((beliefPropagation exCl exOrd shifted ⟨100⟩).get ["a", "b"]).vals.data.toList.map (·.v)
      = ((beliefPropagation exCl exOrd exPots ⟨100⟩).get ["a", "b"]).vals.data.toList.map (·.v) := by
  decide +kernel
end Example

/-! ## 1. the specification: `0 ≤ marginal ≤ Z` -/

/-- marginals of nonnegative potentials are nonnegative (any attribute tuple, any assignment) -/
theorem marginal_nonneg (d : Dom) (pots : CliqueVec (LogOf K)) (as : List Attr) (σ : Attr → Nat)
    (hnn : ∀ p ∈ pots, ∀ x ∈ p.2.vals.data.toList, 0 ≤ x.v) :
    0 ≤ marginal d pots as σ :=
  Bd.marginal_nonneg d pots as σ hnn

/-- … and so is the partition function -/
theorem partition_nonneg (d : Dom) (pots : CliqueVec (LogOf K))
    (hnn : ∀ p ∈ pots, ∀ x ∈ p.2.vals.data.toList, 0 ≤ x.v) :
    0 ≤ partition d pots :=
  Bd.partition_nonneg d pots hnn

/-- **a marginal is at most the partition function**: nonnegative potentials over attributes of the
domain, any attribute tuple (duplicates and foreign attributes allowed), any valid assignment -/
theorem marginal_le_partition (d : Dom) (pots : CliqueVec (LogOf K)) (as : List Attr) (σ : Attr → Nat)
    (hd : d.WF) (hsub : ∀ p ∈ pots, ∀ a ∈ p.2.dom.attrs, a ∈ d.attrs)
    (hnn : ∀ p ∈ pots, ∀ x ∈ p.2.vals.data.toList, 0 ≤ x.v) (hσ : d.Valid σ) :
    marginal d pots as σ ≤ partition d pots :=
  Bd.marginal_le_partition d pots as σ hd hsub hnn hσ

/-- hence every normalised answer `total · marginal / Z` lies in `[0, total]` -/
theorem scaled_marginal_bounded (d : Dom) (pots : CliqueVec (LogOf K)) (as : List Attr) (σ : Attr → Nat)
    (total : K) (hd : d.WF) (hsub : ∀ p ∈ pots, ∀ a ∈ p.2.dom.attrs, a ∈ d.attrs)
    (hnn : ∀ p ∈ pots, ∀ x ∈ p.2.vals.data.toList, 0 ≤ x.v) (hσ : d.Valid σ)
    (htot : 0 ≤ total) (hZ : partition d pots ≠ 0) :
    0 ≤ total * marginal d pots as σ / partition d pots ∧
    total * marginal d pots as σ / partition d pots ≤ total :=
  Bd.scaled_bounds _ _ _ htot (Bd.marginal_nonneg d pots as σ hnn)
    (Bd.marginal_le_partition d pots as σ hd hsub hnn hσ) hZ

/-- non-vacuity of 1 (the marginal onto `[b]` at `b = 1` is `10⁶·7 + 3·7`, strictly inside) -/
example : exD.WF ∧ (∀ p ∈ exPots, ∀ a ∈ p.2.dom.attrs, a ∈ exD.attrs) ∧
    (∀ p ∈ exPots, ∀ x ∈ p.2.vals.data.toList, 0 ≤ x.v) ∧ exD.Valid (fun _ => 1) :=
  ⟨by decide, Bd.modelOK_attrs_sub _ _ _ _ _ exModelOK, exNonneg, exValid⟩

/-- why `marginal_le_partition` needs `d.Valid σ`: an out-of-range read returns the default `log 1`,
here `1 > Z = 1/5` (numpy would raise `IndexError` instead) -/
example : marginal [("a", 2)] ([(["a"], ⟨[("a", 2)], ⟨[2], #[⟨1/10⟩, ⟨1/10⟩]⟩⟩)] : CliqueVec (LogOf ℚ))
      ["a"] (fun _ => 7) = 1 ∧
    partition [("a", 2)] ([(["a"], ⟨[("a", 2)], ⟨[2], #[⟨1/10⟩, ⟨1/10⟩]⟩⟩)] : CliqueVec (LogOf ℚ))
      = 1/5 := by decide +kernel

/-! ## 2. `belief_propagation` -/

/-- **every cell of every clique table returned by `belief_propagation` lies in `[0, total]`**
(hypotheses of `bp_marginals`, `0 ≤ total`) -/
theorem bp_entries_bounded (d : Dom) (cliques : List Clique) (t : Tree) (order : List (Clique × Clique))
    (pots : CliqueVec (LogOf K)) (hok : ModelOK d cliques t order pots) (total : LogOf K)
    (htot : 0 ≤ total.v) (hZ : partition d pots ≠ 0) (c : Clique) (hc : c ∈ cliques) :
    ∀ x ∈ ((beliefPropagation cliques order pots total).get c).vals.data.toList,
      0 ≤ x.v ∧ x.v ≤ total.v :=
  Bd.bp_entries_bounded d cliques t order pots hok total htot hZ c hc

/-- the same read through `toPlain` (the plain-space table the caller receives) -/
theorem bp_entries_bounded_plain (d : Dom) (cliques : List Clique) (t : Tree)
    (order : List (Clique × Clique)) (pots : CliqueVec (LogOf K))
    (hok : ModelOK d cliques t order pots) (total : LogOf K)
    (htot : 0 ≤ total.v) (hZ : partition d pots ≠ 0) (c : Clique) (hc : c ∈ cliques) :
    ∀ x ∈ (toPlain ((beliefPropagation cliques order pots total).get c)).vals.data.toList,
      0 ≤ x.v ∧ x.v ≤ total.v :=
  Bd.bp_entries_bounded_plain d cliques t order pots hok total htot hZ c hc

/-- **no overflow in the final `exp`**: every argument `y = belief + log total − logZ` handed to
`exp` (a log-space value standing for `log y.v`) satisfies `y.v ≤ total.v`, i.e. is at most
`log total` — however large the potentials are -/
theorem bp_exp_args_bounded (d : Dom) (cliques : List Clique) (t : Tree)
    (order : List (Clique × Clique)) (pots : CliqueVec (LogOf K))
    (hok : ModelOK d cliques t order pots) (total : LogOf K)
    (htot : 0 ≤ total.v) (hZ : partition d pots ≠ 0) (c : Clique) (hc : c ∈ cliques) :
    ∀ y ∈ (((bpLoop order pots).1.get c).iaddScalar
        (Scalar.sub (Scalar.log total) (logZ cliques order pots))).vals.data.toList,
      0 ≤ y.v ∧ y.v ≤ total.v :=
  Bd.bp_exp_args_bounded d cliques t order pots hok total htot hZ c hc

/-- non-vacuity of 2: the example model, total `100`, both cliques -/
example (c : Clique) (hc : c ∈ exCl) :=
  bp_entries_bounded exD exCl exT exOrd exPots exModelOK ⟨100⟩ (by norm_num) exZ_ne c hc

/-- … whose table for `{a,b}` is `100/Z · [7, 7·10⁶, 0, 21]`: the bounds are attained up to `28/Z` -/
example : ((beliefPropagation exCl exOrd exPots ⟨100⟩).get ["a", "b"]).vals.data.toList.map (·.v)
    = [700 / 7000028, 700000000 / 7000028, 0, 2100 / 7000028] := by decide +kernel

/-! ## 3. `project`, `datavector` -/

/-- **every cell of the table returned by `project` lies in `[0, total]`** (hypotheses of
`project_correct`, nonnegative potentials, `0 ≤ total`) -/
theorem project_entries_bounded (d : Dom) (pots : CliqueVec (LogOf K)) (total : LogOf K)
    (attrs : List Attr) (hd : d.WF) (hfs : FactorsOK d (pots.map Prod.snd))
    (hne : pots ≠ []) (hcover : ∀ a ∈ d.attrs, ∃ p ∈ pots, a ∈ p.2.dom.attrs)
    (hnd : attrs.Nodup) (hsub : ∀ a ∈ attrs, a ∈ d.attrs)
    (hnn : ∀ p ∈ pots, ∀ x ∈ p.2.vals.data.toList, 0 ≤ x.v)
    (htot : 0 ≤ total.v) (hZ : partition d pots ≠ 0) :
    ∀ x ∈ (GMproject d pots total attrs).vals.data.toList, 0 ≤ x.v ∧ x.v ≤ total.v :=
  Bd.project_entries_bounded d pots total attrs hd hfs hne hcover hnd hsub hnn htot hZ

/-- non-vacuity: the out-of-clique pair `(c, a)` of the example -/
example :=
  project_entries_bounded exD exPots ⟨100⟩ ["c", "a"] (by decide) exFactorsOK (by decide) exCover
    (by decide) (by decide) exNonneg (by norm_num) exZ_ne

/-- **every entry of the materialised `datavector` lies in `[0, total]`** (hypotheses of
`datavector_correct`, nonnegative potentials, `0 ≤ total`; record weight 1) -/
theorem datavector_entries_bounded (d : Dom) (cliques : List Clique) (pots : CliqueVec (LogOf K))
    (total : LogOf K) (hd : d.WF) (hfs : FactorsOK d (pots.map Prod.snd))
    (hkeys : pots.map Prod.fst = cliques) (hnd : cliques.Nodup)
    (hne : cliques ≠ []) (hcover : ∀ a ∈ d.attrs, ∃ p ∈ pots, a ∈ p.2.dom.attrs)
    (hsizes : ∀ p ∈ d, 0 < p.2)
    (hnn : ∀ p ∈ pots, ∀ x ∈ p.2.vals.data.toList, 0 ≤ x.v)
    (htot : 0 ≤ total.v) (hZ : partition d pots ≠ 0) :
    ∀ x ∈ datavectorScale ((datavectorCore d cliques pots).vals.data.toList.map
        (fun x => (⟨x.v⟩ : PlainOf K))) ⟨1⟩ ⟨total.v⟩,
      0 ≤ x.v ∧ x.v ≤ total.v :=
  Bd.datavector_entries_bounded d cliques pots total hd hfs hkeys hnd hne hcover hsizes hnn htot hZ

example :=
  datavector_entries_bounded exD exCl exPots ⟨100⟩ (by decide) exFactorsOK rfl (by decide) (by decide)
    exCover (by decide) exNonneg (by norm_num) exZ_ne

/-! ## 4. log-sum-exp over `ℝ` -/

/-- **`m ≤ log Σ exp x ≤ m + log n`** for the maximum `m` of a nonempty list, and every shifted
argument `x − m` that scipy's `logsumexp` hands to `exp` is `≤ 0` -/
theorem lse_shift_bounds (l : List ℝ) (m : ℝ) (hm : m ∈ l) (hmax : ∀ x ∈ l, x ≤ m) :
    (∀ x ∈ l, x - m ≤ 0) ∧
    m ≤ Real.log ((l.map Real.exp).sum) ∧
    Real.log ((l.map Real.exp).sum) ≤ m + Real.log (l.length : ℝ) :=
  Lse.lse_shift_bounds l m hm hmax

/-- the same for the model's `Scalar.lse` and `Scalar.maxL` at the real instance -/
theorem lse_shift_bounds_model (l : List ℝ) (hne : l ≠ []) :
    (∀ x ∈ l, Scalar.sub x (Scalar.maxL l) ≤ 0) ∧
    Scalar.maxL l ≤ Scalar.lse l ∧
    Scalar.lse l ≤ Scalar.maxL l + Real.log (l.length : ℝ) :=
  Lse.lse_shift_bounds_model l hne

/-- the shift identity scipy relies on (any shift `m`) -/
theorem lse_shift_eq (l : List ℝ) (hne : l ≠ []) (m : ℝ) :
    Real.log ((l.map Real.exp).sum) = m + Real.log ((l.map (fun x => Real.exp (x - m))).sum) :=
  Lse.lse_shift_eq l hne m

/-- after the shift every exponential lies in `(0, 1]` and their sum in `[1, n]` -/
theorem shifted_sum_bounds (l : List ℝ) (m : ℝ) (hm : m ∈ l) (hmax : ∀ x ∈ l, x ≤ m) :
    (∀ x ∈ l, 0 < Real.exp (x - m) ∧ Real.exp (x - m) ≤ 1) ∧
    1 ≤ (l.map (fun x => Real.exp (x - m))).sum ∧
    (l.map (fun x => Real.exp (x - m))).sum ≤ (l.length : ℝ) :=
  Lse.shifted_sum_bounds l m hm hmax

/-- **`|log Σ exp x| ≤ max |x| + log n`** (`B` any bound on the `|x|`, e.g. their maximum) -/
theorem lse_abs_le (l : List ℝ) (hne : l ≠ []) (B : ℝ) (hB : ∀ x ∈ l, |x| ≤ B) :
    |Real.log ((l.map Real.exp).sum)| ≤ B + Real.log (l.length : ℝ) :=
  Lse.lse_abs_le l hne B hB

/-- … with the model's maximum of the absolute values -/
theorem lse_abs_le_model (l : List ℝ) (hne : l ≠ []) :
    |(Scalar.lse l : ℝ)| ≤ Scalar.maxL (l.map (fun x => |x|)) + Real.log (l.length : ℝ) :=
  Lse.lse_abs_le_model l hne

/-- non-vacuity of 4: `[-800, 3, 700]` (naive `exp 700`/`exp (-800)` over/underflow in doubles) -/
example : (700 : ℝ) ∈ [-800, 3, 700] ∧ (∀ x ∈ [(-800 : ℝ), 3, 700], x ≤ 700) ∧
    ([(-800 : ℝ), 3, 700] ≠ []) ∧ ∀ x ∈ [(-800 : ℝ), 3, 700], |x| ≤ 800 := by
  refine ⟨by simp, ?_, by simp, ?_⟩ <;> intro x hx <;> simp at hx <;>
    rcases hx with rfl | rfl | rfl <;> norm_num

/-! ## 5. the log-space messages

Every message stored by the loop of `belief_propagation` (`(bpLoop order pots).2`, keyed by the
directed edge) is bounded in terms of the potentials' bounds and the number of cells of the domain.
With structural zeros a message can be `-∞`, so in general only the upper bound is finite. -/

/-- **upper bound**: entries of the potential of clique `c` at most `hi c` ⇒ every cell of every
message is in `[0, |domain| · Π_c max(1, hi c)]`, i.e. in log space
`msg ≤ log |domain| + Σ_c max(0, log hi c)` -/
theorem bp_message_le (d : Dom) (cliques : List Clique) (t : Tree) (order : List (Clique × Clique))
    (pots : CliqueVec (LogOf K)) (hok : ModelOK d cliques t order pots)
    (hpos : ∀ p ∈ d, 0 < p.2) (hi : Clique → K)
    (hB : ∀ p ∈ pots, ∀ x ∈ p.2.vals.data.toList, x.v ≤ hi p.1) :
    ∀ e ∈ (bpLoop order pots).2, ∀ x ∈ e.2.vals.data.toList,
      0 ≤ x.v ∧ x.v ≤ (d.size : K) * (cliques.map (fun c => max 1 (hi c))).prod :=
  Bd.bp_message_le d cliques t order pots hok hpos hi hB

/-- non-vacuity: the example with the `10⁶` entry and zeros -/
example :=
  bp_message_le exD exCl exT exOrd exPots exModelOK (by decide) (fun _ => 1000000)
    (by
      intro p hp x hx
      simp only [exPots, List.mem_cons, List.not_mem_nil, or_false] at hp
      rcases hp with rfl | rfl <;> simp at hx <;> rcases hx with rfl | rfl | rfl | rfl <;> norm_num)

/-- **two-sided bound for strictly positive potentials**: entries of the potential of clique `c`
in `[lo c, hi c]`, `lo c > 0` ⇒ every cell of every message lies in
`[Π_c min(1, lo c), |domain| · Π_c max(1, hi c)]` -/
theorem bp_message_bounds (d : Dom) (cliques : List Clique) (t : Tree) (order : List (Clique × Clique))
    (pots : CliqueVec (LogOf K)) (hok : ModelOK d cliques t order pots)
    (hpos : ∀ p ∈ d, 0 < p.2) (lo hi : Clique → K) (hlo0 : ∀ c ∈ cliques, 0 < lo c)
    (hLB : ∀ p ∈ pots, ∀ x ∈ p.2.vals.data.toList, lo p.1 ≤ x.v ∧ x.v ≤ hi p.1) :
    ∀ e ∈ (bpLoop order pots).2, ∀ x ∈ e.2.vals.data.toList,
      (cliques.map (fun c => min 1 (lo c))).prod ≤ x.v ∧
      x.v ≤ (d.size : K) * (cliques.map (fun c => max 1 (hi c))).prod :=
  Bd.bp_message_bounds d cliques t order pots hok hpos lo hi hlo0 hLB

/-- **magnitude of every log-space message** (`K = ℝ`): if every log-potential of clique `c` has
magnitude at most `b c` (its exp-space entry lies in `[exp (−b c), exp (b c)]`), every log-space
message entry `log x.v` is finite and `|log x.v| ≤ log |domain| + Σ_c b c` -/
theorem bp_message_magnitude (d : Dom) (cliques : List Clique) (t : Tree)
    (order : List (Clique × Clique)) (pots : CliqueVec (LogOf ℝ))
    (hok : ModelOK d cliques t order pots) (hpos : ∀ p ∈ d, 0 < p.2)
    (b : Clique → ℝ) (hb : ∀ c ∈ cliques, 0 ≤ b c)
    (hθ : ∀ p ∈ pots, ∀ x ∈ p.2.vals.data.toList,
      Real.exp (-(b p.1)) ≤ x.v ∧ x.v ≤ Real.exp (b p.1)) :
    ∀ e ∈ (bpLoop order pots).2, ∀ x ∈ e.2.vals.data.toList,
      0 < x.v ∧ |Real.log x.v| ≤ Real.log (d.size : ℝ) + (cliques.map b).sum :=
  Lse.bp_message_magnitude d cliques t order pots hok hpos b hb hθ

section ExampleR
/-- strictly positive real potentials on the same tree -/
noncomputable def exPotsR : CliqueVec (LogOf ℝ) :=
  [(["a", "b"], ⟨[("a", 2), ("b", 2)], ⟨[2, 2], #[⟨1⟩, ⟨2⟩, ⟨3⟩, ⟨4⟩]⟩⟩),
   (["b", "c"], ⟨[("b", 2), ("c", 2)], ⟨[2, 2], #[⟨2⟩, ⟨1⟩, ⟨1⟩, ⟨3⟩]⟩⟩)]

theorem exRange : ∀ p ∈ exPotsR, ∀ x ∈ p.2.vals.data.toList, (1 : ℝ) ≤ x.v ∧ x.v ≤ 4 := by
  intro p hp x hx
  simp only [exPotsR, List.mem_cons, List.not_mem_nil, or_false] at hp
  rcases hp with rfl | rfl <;> simp at hx <;> rcases hx with rfl | rfl | rfl | rfl <;> norm_num

theorem exModelOKR : ModelOK exD exCl exT exOrd exPotsR where
  dom_wf := by decide
  nodes := rfl
  jt := by decide
  clique_ok := by decide
  keys := rfl
  pot_ok := by
    intro p hp
    simp only [exPotsR, List.mem_cons, List.not_mem_nil, or_false] at hp
    rcases hp with rfl | rfl <;> exact ⟨by decide, by decide, by unfold Dom.Agrees; decide⟩
  nonneg := fun p hp x hx => le_trans zero_le_one (exRange p hp x hx).1
end ExampleR

/-- non-vacuity of the two-sided bound and of the magnitude bound (`b = 3`: `e⁻³ ≤ 1`, `4 ≤ e³`) -/
example :=
  bp_message_bounds exD exCl exT exOrd exPotsR exModelOKR (by decide) (fun _ => 1) (fun _ => 4)
    (fun _ _ => one_pos) exRange

example :=
  bp_message_magnitude exD exCl exT exOrd exPotsR exModelOKR (by decide) (fun _ => 3)
    (fun _ _ => by norm_num)
    (fun p hp x hx => ⟨le_trans (Real.exp_le_one_iff.mpr (by norm_num)) (exRange p hp x hx).1,
      le_trans (exRange p hp x hx).2 (by have := Real.add_one_le_exp (3 : ℝ); linarith)⟩)

end PGM.C01
