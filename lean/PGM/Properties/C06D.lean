import PGM.Generated.MstDomG
import PGM.Proofs.MstDomGen
/-!
# C06 (translator tie, domain compression) — "the returned data conforms to the input's original domain"

`PGM/Generated/MstDomG.lean` is produced on every run by `tools/py2mstdom.py` from the current source of
`mechanisms/mst.py`: `compress_domain`, `transform_data`, `reverse_data` (one definition per function and per loop body)
and the body of `MST(...)`.  Library calls are the contracts written out in `PGM/Model/MstDom.lean`;
`np.random.choice` is an outcome parameter constrained by `Admissible` only.  This file proves, about the GENERATED
definitions:

* `gen_transform_inner_step`, `gen_transform_step`, `gen_reverse_step`, `gen_compress_step` — what one pass of each loop
  does (per column: `transformCol`, `reverseCol` of `Proofs/MstDomGen.lean`); `gen_transform_assert` — the source's
  `assert idx == size` never fails;
* `gen_compress_domain_spec` (1), `gen_transform_in_compressed_domain` (2), `gen_reverse_in_original_domain`,
  `gen_reverse_values`, `gen_reverse_transform_supported` (3), `gen_edge_*` (4), and `gen_MST_original_domain`
  (the three helpers as `MST` threads them, with `measure` / `select` / estimation / `synthetic_data` opaque).

Scope (audit 2): "the returned data conforms to the input's original domain" is proved HERE for MST only — the one mechanism that
re-codes the domain.  For the other three mechanisms (AIM, MWEM+PGM, Adaptive Grid) there is no re-coding: the returned data
is `synthetic_data` of a model built over the input's domain, and conformance is `gen_synth_in_domain` (C11G, composed end to end in C11E: every generated record
lies in the model's domain); no C06D theorem is stated for them.

Exceptions are collapsed to values (`KeyError` → default, `IndexError`/`NaN` → the invalid cell `none`); the theorems
conclude that every cell of the result is a valid code, so on the inputs they cover none of these occurs.
-/
namespace PGM.C06D
open PGM PGM.MstDom PGM.MstDomG

variable {α κ ε μ : Type} [MScalar α] [QMat α κ]

theorem gen_transform_inner_step (support : List Bool) (size : Nat) (st : List (Nat × Nat) × Nat) (i : Nat) :
    transform_data_body_body support size st i = mapStep support size st i := by
  unfold transform_data_body_body mapStep
  cases maskAt support i <;> rfl

theorem gen_transform_step (supports : List (Attr × List Bool)) (st : List (Attr × Nat) × Frame) (col : Attr) :
    transform_data_body supports st col
      = (dictSet st.1 col (newSize (dictGet supports col)),
         Frame.set st.2 col (transformCol (dictGet supports col) (Frame.get st.2 col))) := by
  unfold transform_data_body
  have hf : transform_data_body_body (dictGet supports col) (maskSum (dictGet supports col))
      = mapStep (dictGet supports col) (maskSum (dictGet supports col)) := by
    funext st i; exact gen_transform_inner_step _ _ st i
  simp only [hf, foldl_mapStep, dictSet_dictSet, dictGet_dictSet_self]
  congr 1
  by_cases h : maskSum (dictGet supports col) < (dictGet supports col).length <;> simp [newSize, h]

theorem gen_transform_assert (supports : List (Attr × List Bool)) (st : List (Attr × Nat) × Frame) (col : Attr) :
    transform_data_body_assert1 supports st col = true := by
  unfold transform_data_body_assert1
  have hf : transform_data_body_body (dictGet supports col) (maskSum (dictGet supports col))
      = mapStep (dictGet supports col) (maskSum (dictGet supports col)) := by
    funext st i; exact gen_transform_inner_step _ _ st i
  simp only [hf, foldl_mapStep, maskSum_take_all, decide_true]

theorem gen_reverse_step (choice : Nat → List Nat → Nat → List Nat) (supports : List (Attr × List Bool))
    (st : List (Attr × Nat) × Frame × Nat) (col : Attr) :
    reverse_data_body choice supports st col
      = (dictSet st.1 col (dictGet supports col).length,
         Frame.set st.2.1 col (reverseCol choice st.2.2 (dictGet supports col) (Frame.get st.2.1 col)),
         st.2.2 + (if (npWhere (maskNot (dictGet supports col))).length = 0 then 0 else 1)) := by
  unfold reverse_data_body
  simp only []
  rw [locSet_pair_eq choice st.2.2 (dictGet supports col) st.2.1 col _ (by split <;> simp_all)]
  congr 2
  split <;> simp_all


/-! ## whole functions -/

/-- the domain `transform_data` produces: `#supported`, plus one bucket when something is merged -/
def compressedDom (d : Dom) (supports : List (Attr × List Bool)) : Dom :=
  d.map (fun p => (p.1, newSize (dictGet supports p.1)))

/-- the support recorded for every attribute has the attribute's original size (`y.size` of its one-way measurement) -/
def SupportsFit (d : Dom) (supports : List (Attr × List Bool)) : Prop :=
  ∀ p ∈ d, (dictGet supports p.1).length = p.2

theorem attrs_compressedDom (d : Dom) (supports : List (Attr × List Bool)) :
    Dom.attrs (compressedDom d supports) = Dom.attrs d := by
  simp [compressedDom, Dom.attrs, List.map_map, Function.comp_def]

/-- `transform_data`, column by column -/
theorem gen_transform_cols (data : DS) (supports : List (Attr × List Bool)) (hnd : (Dom.attrs data.domain).Nodup)
    (hl : data.df.labels = Dom.attrs data.domain) :
    (transform_data data supports).domain = compressedDom data.domain supports ∧
    (transform_data data supports).df.labels = Dom.attrs data.domain ∧
    ∀ a ∈ Dom.attrs data.domain,
      (transform_data data supports).df.get a = transformCol (dictGet supports a) (data.df.get a) := by
  obtain ⟨h1, _, _, h4⟩ := foldl_cols (S := List (Attr × Nat) × Frame) (X := Unit) (fun s => s.1) (fun s => s.2)
    (fun _ => ()) (transform_data_body supports) (fun a => newSize (dictGet supports a))
    (fun _ a col => transformCol (dictGet supports a) col)
    (fun s a => by rw [gen_transform_step]) (fun s a => by rw [gen_transform_step])
    (Dom.attrs data.domain) ([], data.df) hnd (by simp [dictKeys])
  have hdom : (transform_data data supports).domain = compressedDom data.domain supports := by
    unfold transform_data
    simp only [mkDataset]
    rw [h1]
    simp [compressedDom, Dom.attrs, List.map_map, Function.comp_def]
  refine ⟨hdom, ?_, ?_⟩
  · have : (transform_data data supports).df.labels = Dom.attrs (transform_data data supports).domain := by
      unfold transform_data
      simp [mkDataset, Frame.labels, List.map_map, Function.comp_def]
    rw [this, hdom, attrs_compressedDom]
  · intro a ha
    obtain ⟨_, hx⟩ := h4 a ha (by rw [show Frame.labels data.df = _ from hl]; exact ha)
    have hget : (transform_data data supports).df.get a
        = Frame.get (List.foldl (transform_data_body supports) ([], data.df) (Dom.attrs data.domain)).2 a := by
      have hmem : a ∈ Dom.attrs (List.foldl (transform_data_body supports) ([], data.df) (Dom.attrs data.domain)).1 := by
        rw [h1]; simpa [Dom.attrs, List.map_map, Function.comp_def] using ha
      unfold transform_data
      simp only [mkDataset]
      exact Frame.get_mk _ _ a hmem
    rw [hget, hx]

/-- `reverse_data`, column by column (`n` = the number of random draws made before the column's turn) -/
theorem gen_reverse_cols (choice : Nat → List Nat → Nat → List Nat) (rng : Nat) (D : DS)
    (supports : List (Attr × List Bool)) (hnd : (Dom.attrs D.domain).Nodup) (hl : D.df.labels = Dom.attrs D.domain) :
    (reverse_data choice rng D supports).domain = D.domain.map (fun p => (p.1, (dictGet supports p.1).length)) ∧
    (reverse_data choice rng D supports).df.labels = Dom.attrs D.domain ∧
    ∀ a ∈ Dom.attrs D.domain, ∃ n,
      (reverse_data choice rng D supports).df.get a = reverseCol choice n (dictGet supports a) (D.df.get a) := by
  obtain ⟨h1, _, _, h4⟩ := foldl_cols (S := List (Attr × Nat) × Frame × Nat) (X := Nat) (fun s => s.1) (fun s => s.2.1)
    (fun s => s.2.2) (reverse_data_body choice supports) (fun a => (dictGet supports a).length)
    (fun n a col => reverseCol choice n (dictGet supports a) col)
    (fun s a => by rw [gen_reverse_step]) (fun s a => by rw [gen_reverse_step])
    (Dom.attrs D.domain) ([], D.df, rng) hnd (by simp [dictKeys])
  have hdom : (reverse_data choice rng D supports).domain
      = D.domain.map (fun p => (p.1, (dictGet supports p.1).length)) := by
    unfold reverse_data
    simp only [mkDataset]
    rw [h1]
    simp [Dom.attrs, List.map_map, Function.comp_def]
  have hattrs : Dom.attrs (D.domain.map (fun p => (p.1, (dictGet supports p.1).length))) = Dom.attrs D.domain := by
    simp [Dom.attrs, List.map_map, Function.comp_def]
  refine ⟨hdom, ?_, ?_⟩
  · have : (reverse_data choice rng D supports).df.labels = Dom.attrs (reverse_data choice rng D supports).domain := by
      unfold reverse_data
      simp [mkDataset, Frame.labels, List.map_map, Function.comp_def]
    rw [this, hdom, hattrs]
  · intro a ha
    obtain ⟨n, hx⟩ := h4 a ha (by rw [show Frame.labels D.df = _ from hl]; exact ha)
    refine ⟨n, ?_⟩
    have hget : (reverse_data choice rng D supports).df.get a
        = Frame.get (List.foldl (reverse_data_body choice supports) ([], D.df, rng) (Dom.attrs D.domain)).2.1 a := by
      have hmem : a ∈ Dom.attrs (List.foldl (reverse_data_body choice supports) ([], D.df, rng) (Dom.attrs D.domain)).1 := by
        rw [h1]; simpa [Dom.attrs, List.map_map, Function.comp_def] using ha
      unfold reverse_data
      simp only [mkDataset]
      exact Frame.get_mk _ _ a hmem
    rw [hget, hx]


theorem mem_attrs_of_mem {d : Dom} {p : Attr × Nat} (h : p ∈ d) : p.1 ∈ Dom.attrs d :=
  List.mem_map_of_mem (f := Prod.fst) h

/-- **(2)** every re-coded private record lies in the compressed domain: the result carries the compressed domain,
exactly its columns, the same number of rows, and every value is below the compressed size -/
theorem gen_transform_in_compressed_domain (data : DS) (supports : List (Attr × List Bool)) (rows : Nat)
    (hnd : (Dom.attrs data.domain).Nodup) (hfit : SupportsFit data.domain supports)
    (hD : data.Over data.domain rows) :
    (transform_data data supports).Over (compressedDom data.domain supports) rows := by
  obtain ⟨h1, h2, h3⟩ := gen_transform_cols data supports hnd hD.2.1
  refine ⟨h1, by rw [h2, attrs_compressedDom], ?_⟩
  intro p hp
  simp only [compressedDom, List.mem_map] at hp
  obtain ⟨q, hq, rfl⟩ := hp
  obtain ⟨hlen, hin⟩ := hD.2.2 q hq
  rw [h3 q.1 (mem_attrs_of_mem hq)]
  refine ⟨by rw [transformCol_length, hlen], ?_⟩
  apply transformCol_in
  rw [hfit q hq]; exact hin

/-- **(3)** for every synthetic table over the compressed domain and every admissible random outcome, `reverse_data`
returns a table over the ORIGINAL domain: the original attribute list and sizes, exactly those columns, the same number
of rows, every value below the original size -/
theorem gen_reverse_in_original_domain (choice : Nat → List Nat → Nat → List Nat) (hadm : Admissible choice) (rng : Nat)
    (orig : Dom) (supports : List (Attr × List Bool)) (synth : DS) (rows : Nat)
    (hnd : (Dom.attrs orig).Nodup) (hfit : SupportsFit orig supports)
    (hS : synth.Over (compressedDom orig supports) rows) :
    (reverse_data choice rng synth supports).Over orig rows := by
  have hdom := hS.1
  have hat : Dom.attrs synth.domain = Dom.attrs orig := by rw [hdom, attrs_compressedDom]
  obtain ⟨h1, h2, h3⟩ := gen_reverse_cols choice rng synth supports (by rw [hat]; exact hnd)
    (by rw [hS.2.1, hdom])
  have hd : (reverse_data choice rng synth supports).domain = orig := by
    rw [h1, hdom, compressedDom, List.map_map]
    conv => rhs; rw [← List.map_id orig]
    apply List.map_congr_left
    intro p hp
    simp only [Function.comp_def, id]
    rw [hfit p hp]
  refine ⟨hd, by rw [h2, hat], ?_⟩
  intro p hp
  obtain ⟨n, hn⟩ := h3 p.1 (by rw [hat]; exact mem_attrs_of_mem hp)
  have hq : (p.1, newSize (dictGet supports p.1)) ∈ compressedDom orig supports :=
    List.mem_map_of_mem (f := fun p : Attr × Nat => (p.1, newSize (dictGet supports p.1))) hp
  obtain ⟨hlen, hin⟩ := hS.2.2 _ hq
  rw [hn]
  refine ⟨by rw [reverseCol_length]; exact hlen, ?_⟩
  rw [← hfit p hp]
  exact reverseCol_in choice hadm n _ _ hin

/-- **(3, values)** where each synthetic value goes: a code `k < #supported` goes to the `k`-th supported original value
(`np.where(support)[0][k]`), a record of the merged bucket receives one of the *merged* (unsupported) original values -/
theorem gen_reverse_values (choice : Nat → List Nat → Nat → List Nat) (hadm : Admissible choice) (rng : Nat)
    (orig : Dom) (supports : List (Attr × List Bool)) (synth : DS) (rows : Nat)
    (hnd : (Dom.attrs orig).Nodup) (hS : synth.Over (compressedDom orig supports) rows)
    (p : Attr × Nat) (hp : p ∈ orig) (i k : Nat) (hi : (synth.df.get p.1)[i]? = some (some k)) :
    (k < maskSum (dictGet supports p.1) →
      ∃ w, (npWhere (dictGet supports p.1))[k]? = some w ∧
        ((reverse_data choice rng synth supports).df.get p.1)[i]? = some (some w) ∧
        (dictGet supports p.1)[w]? = some true) ∧
    (k = maskSum (dictGet supports p.1) →
      ∃ w, ((reverse_data choice rng synth supports).df.get p.1)[i]? = some (some w) ∧
        (dictGet supports p.1)[w]? = some false) := by
  have hdom := hS.1
  have hat : Dom.attrs synth.domain = Dom.attrs orig := by rw [hdom, attrs_compressedDom]
  obtain ⟨_, _, h3⟩ := gen_reverse_cols choice rng synth supports (by rw [hat]; exact hnd)
    (by rw [hS.2.1, hdom])
  obtain ⟨n, hn⟩ := h3 p.1 (by rw [hat]; exact mem_attrs_of_mem hp)
  have hq : (p.1, newSize (dictGet supports p.1)) ∈ compressedDom orig supports :=
    List.mem_map_of_mem (f := fun p : Attr × Nat => (p.1, newSize (dictGet supports p.1))) hp
  obtain ⟨_, hin⟩ := hS.2.2 _ hq
  rw [hn]
  constructor
  · intro hk
    obtain ⟨w, hw, hr, hm, _⟩ := reverseCol_supported choice n (dictGet supports p.1) _ i k hi hk
    exact ⟨w, hw, hr, hm⟩
  · intro hk
    subst hk
    obtain ⟨w, hr, _, hf⟩ := reverseCol_merged choice hadm n (dictGet supports p.1) _ hin i hi
    exact ⟨w, hr, hf⟩

/-- **(3, round trip)** `reverse_data ∘ transform_data` gives every supported value back -/
theorem gen_reverse_transform_supported (choice : Nat → List Nat → Nat → List Nat) (rng : Nat)
    (data : DS) (supports : List (Attr × List Bool)) (rows : Nat)
    (hnd : (Dom.attrs data.domain).Nodup) (hD : data.Over data.domain rows)
    (a : Attr) (ha : a ∈ Dom.attrs data.domain) (i v : Nat) (hi : (data.df.get a)[i]? = some (some v))
    (hv : (dictGet supports a)[v]? = some true) :
    ((reverse_data choice rng (transform_data data supports) supports).df.get a)[i]? = some (some v) := by
  obtain ⟨t1, t2, t3⟩ := gen_transform_cols data supports hnd hD.2.1
  have hat : Dom.attrs (transform_data data supports).domain = Dom.attrs data.domain := by
    rw [t1, attrs_compressedDom]
  obtain ⟨_, _, h3⟩ := gen_reverse_cols choice rng (transform_data data supports) supports
    (by rw [hat]; exact hnd) (by rw [t2, hat])
  obtain ⟨n, hn⟩ := h3 a (by rw [hat]; exact ha)
  rw [hn, t3 a ha]
  exact reverse_transform_supported choice n _ _ i v hi hv


/-! ## `compress_domain` -/

/-- the attribute a one-way measurement is about: `proj[0]` -/
def colOf (m : Meas α κ) : Attr := m.2.2.2.getD 0 ""
/-- the values kept: `y >= 3*sigma` -/
def supOf (m : Meas α κ) : List Bool := m.2.1.map (fun v => MScalar.ge v (MScalar.mul (MScalar.ofInt 3) m.2.2.1))
/-- `sqrt(y.size - y2.size + 1.0)` with `y2.size = #supported + 1`, i.e. the square root of the number of merged values -/
def mergedNorm (m : Meas α κ) : α :=
  MScalar.sqrt (MScalar.add (MScalar.ofInt ((m.2.1.length : Int) - ((maskSum (supOf m) + 1 : Nat) : Int))) (MScalar.ofInt 1))
/-- the measurement handed on -/
def reexpress (m : Meas α κ) : Meas α κ :=
  if maskSum (supOf m) = m.2.1.length then m
  else (QMat.diags (List.replicate (maskSum (supOf m)) (MScalar.ofInt 1) ++ [MScalar.div (MScalar.ofInt 1) (mergedNorm m)]),
        maskSelect m.2.1 (supOf m) ++ [MScalar.div (vsum (maskSelect m.2.1 (maskNot (supOf m)))) (mergedNorm m)],
        m.2.2.1, m.2.2.2)

theorem gen_compress_step (st : List (Attr × List Bool) × List (Meas α κ)) (m : Meas α κ) :
    compress_domain_body st m = (dictSet st.1 (colOf m) (supOf m), st.2 ++ [reexpress m]) := by
  unfold compress_domain_body
  have hsup : (List.map (fun v_ => MScalar.ge v_ (MScalar.mul (MScalar.ofInt ((3 : Nat) : Int)) m.2.2.1)) m.2.1)
      = supOf m := by simp [supOf]
  have hlen : (maskSelect m.2.1 (supOf m)).length = maskSum (supOf m) := length_maskSelect_map _ _
  simp only [dictGet_dictSet_self, hsup]
  by_cases h : maskSum (supOf m) = m.2.1.length
  · simp only [h, decide_true, if_true]
    simp [reexpress, h, colOf]
  · simp only [h, decide_false, Bool.false_eq_true, if_false, updLast_append, List.length_append,
      List.length_singleton, hlen, npOnes, List.replicate_succ']
    simp [reexpress, h, colOf, mergedNorm]

theorem foldl_compress (ms : List (Meas α κ)) (st : List (Attr × List Bool) × List (Meas α κ))
    (hnd : (ms.map colOf).Nodup) (hdis : ∀ m ∈ ms, colOf m ∉ dictKeys st.1) :
    ms.foldl compress_domain_body st
      = (st.1 ++ ms.map (fun m => (colOf m, supOf m)), st.2 ++ ms.map reexpress) := by
  induction ms generalizing st with
  | nil => simp
  | cons m ms ih =>
    simp only [List.map_cons, List.nodup_cons] at hnd
    have hk : colOf m ∉ dictKeys st.1 := hdis m (by simp)
    rw [List.foldl_cons, gen_compress_step, ih _ hnd.2]
    · simp [dictSet_not_mem _ _ _ hk]
    · intro m' hm'
      simp only [dictSet_not_mem _ _ _ hk, dictKeys_append, List.mem_append, not_or]
      refine ⟨hdis m' (by simp [hm']), ?_⟩
      simp only [dictKeys, List.map_cons, List.map_nil, List.mem_singleton]
      intro e
      exact hnd.1 (e ▸ List.mem_map_of_mem hm')

/-- the dict `supports` that `compress_domain` builds from one-way measurements about distinct attributes -/
def supportsOf (ms : List (Meas α κ)) : List (Attr × List Bool) := ms.map (fun m => (colOf m, supOf m))

/-- **(1)** `compress_domain`, for every list of noisy one-way answers about distinct attributes: the data handed on is
`transform_data` under the supports `y >= 3*sigma`; `supports` marks exactly the kept values; each measurement is handed
on unchanged when everything is supported and otherwise re-expressed as the kept answers followed by the sum of the
merged ones divided by `sqrt(#merged)` (weights `1,…,1, 1/sqrt(#merged)`); its length is the new size of the attribute,
which is `#supported`, or `#supported + 1` when something is merged; the undo function is `reverse_data` under the same
supports -/
theorem gen_compress_domain_spec (choice : Nat → List Nat → Nat → List Nat) (rng : Nat) (data : DS)
    (ms : List (Meas α κ)) (hnd : (ms.map colOf).Nodup) :
    (compress_domain choice rng data ms).1 = transform_data data (supportsOf ms) ∧
    (compress_domain choice rng data ms).2.1 = ms.map reexpress ∧
    (compress_domain choice rng data ms).2.2 = (fun d => reverse_data choice rng d (supportsOf ms)) ∧
    (∀ m ∈ ms, dictGet (supportsOf ms) (colOf m) = supOf m ∧
      (∀ i : Nat, (supOf m)[i]? = some true ↔ ∃ v, m.2.1[i]? = some v ∧ MScalar.ge v (MScalar.mul (MScalar.ofInt 3) m.2.2.1) = true) ∧
      (reexpress m).2.1.length = newSize (supOf m) ∧
      (newSize (supOf m) = if maskSum (supOf m) < m.2.1.length then maskSum (supOf m) + 1 else maskSum (supOf m)) ∧
      (reexpress m).2.2 = m.2.2) := by
  have hf := foldl_compress ms ([], []) hnd (by simp [dictKeys])
  simp only [List.nil_append] at hf
  refine ⟨by unfold compress_domain; simp only [hf]; rfl, by unfold compress_domain; simp only [hf],
    by unfold compress_domain; simp only [hf]; rfl, ?_⟩
  intro m hm
  have hsl : (supOf m).length = m.2.1.length := by simp [supOf]
  refine ⟨?_, ?_, ?_, ?_, ?_⟩
  · simp [dictGet, supportsOf, dictFind_map_pair ms colOf supOf hnd m hm]
  · intro i
    simp only [supOf, List.getElem?_map]
    cases h : m.2.1[i]? <;> simp
  · have hlen : (maskSelect m.2.1 (supOf m)).length = maskSum (supOf m) := length_maskSelect_map _ _
    have := maskSum_le (supOf m)
    unfold reexpress newSize
    by_cases h : maskSum (supOf m) = m.2.1.length
    · simp [h, hsl]
    · have : maskSum (supOf m) < (supOf m).length := by omega
      simp [h, this, hlen]
  · simp [newSize, hsl]
  · unfold reexpress; split <;> rfl


/-! ## `MST(...)`: the compressed data, `supports` and `undo_compress_fn` threaded through -/

/-- **end to end** — whatever `measure`, `select`, the estimation and `synthetic_data` do, as long as `measure`
answers the cliques it is given with vectors of the attribute's size and `synthetic_data` returns a table over the
domain the engine was built for, `MST` returns a table over the input's ORIGINAL domain -/
theorem gen_MST_original_domain (O : Oracles α κ ε μ) (choice : Nat → List Nat → Nat → List Nat)
    (hadm : Admissible choice) (rng : Nat) (data : DS) (eps delta : α)
    (hnd : (Dom.attrs data.domain).Nodup) (hlab : data.df.labels = Dom.attrs data.domain)
    (hmeas : ∀ cl s, (O.measure 1 data cl s).map (fun m => m.2.2.2) = cl ∧
      ∀ m ∈ O.measure 1 data cl s, ∀ p ∈ data.domain, colOf m = p.1 → m.2.1.length = p.2)
    (hsynth : ∀ n n' dom iters log, ∃ rows,
      (O.synthetic_data n (O.estimate n' (O.FactoredInference dom iters) log)).Over dom rows) :
    ∃ rows, (MST O choice rng data eps delta).Over data.domain rows := by
  unfold MST
  simp only []
  generalize hsig : MScalar.sqrt (MScalar.div (MScalar.ofInt ((3 : Nat) : Int))
    (MScalar.mul (MScalar.ofInt ((2 : Nat) : Int)) (O.cdp_rho eps delta))) = sigma
  generalize hlog : O.measure 1 data (List.map (fun col => [col]) (Dom.attrs data.domain)) sigma = log1
  obtain ⟨hm1, hm2⟩ := hmeas (List.map (fun col => [col]) (Dom.attrs data.domain)) sigma
  rw [hlog] at hm1 hm2
  have hcols : log1.map colOf = Dom.attrs data.domain := by
    have : log1.map colOf = (log1.map (fun m => m.2.2.2)).map (fun pr => pr.getD 0 "") := by
      simp [List.map_map, Function.comp_def, colOf]
    rw [this, hm1]
    simp [List.map_map, Function.comp_def]
  obtain ⟨c1, c2, c3, c4⟩ := gen_compress_domain_spec choice rng data log1 (by rw [hcols]; exact hnd)
  rw [c1, c2, c3]
  have hfit : SupportsFit data.domain (supportsOf log1) := by
    intro p hp
    have : p.1 ∈ log1.map colOf := by rw [hcols]; exact mem_attrs_of_mem hp
    obtain ⟨m, hm, hmp⟩ := List.mem_map.1 this
    rw [← hmp, (c4 m hm).1]
    simp only [supOf, List.length_map]
    exact hm2 m hm p hp hmp
  obtain ⟨t1, _, _⟩ := gen_transform_cols data (supportsOf log1) hnd hlab
  obtain ⟨rows, hrows⟩ := hsynth 5 4 (transform_data data (supportsOf log1)).domain 5000
    (log1.map reexpress ++ O.measure 3 (transform_data data (supportsOf log1))
      (O.select 2 (transform_data data (supportsOf log1))
        (MScalar.div (O.cdp_rho eps delta) (MScalar.ofInt 3)) (log1.map reexpress)) sigma)
  refine ⟨rows, gen_reverse_in_original_domain choice hadm rng data.domain _ _ rows hnd hfit ?_⟩
  rw [← t1]; exact hrows


/-- why (2) assumes the private records lie in the domain: a value outside it (here `2` for an attribute of size 2,
which `Dataset.datavector` still counts in the last bin) has no entry in `mapping` and becomes `NaN` -/
theorem witness_transform_out_of_domain :
    (transform_data { df := [("a", [some 2])], domain := [("a", 2)] } [("a", [true, true])]).df = [("a", [none])] := by
  decide

/-! ## edge cases, stated for the generated functions -/

/-- **(4a)** an attribute ALL of whose values are unsupported (everything merged): its compressed size is 1, every
private value is re-coded `0`, and — for every synthetic table and every admissible outcome — the attribute is still
a column of the returned data, with its original size, every synthetic record receiving one of the original values -/
theorem gen_edge_fully_merged (choice : Nat → List Nat → Nat → List Nat) (hadm : Admissible choice) (rng : Nat)
    (data synth : DS) (supports : List (Attr × List Bool)) (rows rows' : Nat)
    (hnd : (Dom.attrs data.domain).Nodup) (hfit : SupportsFit data.domain supports)
    (hD : data.Over data.domain rows) (hS : synth.Over (compressedDom data.domain supports) rows')
    (p : Attr × Nat) (hp : p ∈ data.domain) (hpos : 0 < p.2) (hnone : maskSum (dictGet supports p.1) = 0) :
    (p.1, 1) ∈ compressedDom data.domain supports ∧
    (∀ (i v : Nat), (data.df.get p.1)[i]? = some (some v) → ((transform_data data supports).df.get p.1)[i]? = some (some 0)) ∧
    p ∈ (reverse_data choice rng synth supports).domain ∧
    p.1 ∈ (reverse_data choice rng synth supports).df.labels ∧
    ((reverse_data choice rng synth supports).df.get p.1).length = rows' ∧
    ColIn p.2 ((reverse_data choice rng synth supports).df.get p.1) := by
  have hR := gen_reverse_in_original_domain choice hadm rng data.domain supports synth rows' hnd hfit hS
  obtain ⟨_, _, t3⟩ := gen_transform_cols data supports hnd hD.2.1
  refine ⟨?_, ?_, by rw [hR.1]; exact hp, by rw [hR.2.1]; exact mem_attrs_of_mem hp, (hR.2.2 p hp).1, (hR.2.2 p hp).2⟩
  · have := List.mem_map_of_mem (f := fun p : Attr × Nat => (p.1, newSize (dictGet supports p.1))) hp
    rw [newSize_fully_merged _ hnone (by rw [hfit p hp]; exact hpos)] at this
    exact this
  · intro i v hi
    obtain ⟨_, hin⟩ := hD.2.2 p hp
    obtain ⟨v', hv', hlt⟩ := hin _ (List.mem_of_getElem? hi)
    cases hv'
    rw [t3 p.1 (mem_attrs_of_mem hp), transformCol_get _ _ i v hi (by rw [hfit p hp]; exact hlt),
      code_fully_merged _ hnone]

/-- **(4b)** an attribute EVERY value of which is supported: no extra bucket (the compressed size is the original size),
and both `transform_data` and `reverse_data` leave its values as they are -/
theorem gen_edge_all_supported (choice : Nat → List Nat → Nat → List Nat) (rng : Nat)
    (data synth : DS) (supports : List (Attr × List Bool)) (rows rows' : Nat)
    (hnd : (Dom.attrs data.domain).Nodup) (hfit : SupportsFit data.domain supports)
    (hD : data.Over data.domain rows) (hS : synth.Over (compressedDom data.domain supports) rows')
    (p : Attr × Nat) (hp : p ∈ data.domain) (hall : maskSum (dictGet supports p.1) = (dictGet supports p.1).length) :
    p ∈ compressedDom data.domain supports ∧
    (∀ (i v : Nat), (data.df.get p.1)[i]? = some (some v) → ((transform_data data supports).df.get p.1)[i]? = some (some v)) ∧
    (∀ (i v : Nat), (synth.df.get p.1)[i]? = some (some v) →
      ((reverse_data choice rng synth supports).df.get p.1)[i]? = some (some v)) := by
  obtain ⟨_, _, t3⟩ := gen_transform_cols data supports hnd hD.2.1
  have hat : Dom.attrs synth.domain = Dom.attrs data.domain := by rw [hS.1, attrs_compressedDom]
  obtain ⟨_, _, r3⟩ := gen_reverse_cols choice rng synth supports (by rw [hat]; exact hnd) (by rw [hS.2.1, hS.1])
  have hq := List.mem_map_of_mem (f := fun p : Attr × Nat => (p.1, newSize (dictGet supports p.1))) hp
  have hsz : newSize (dictGet supports p.1) = p.2 := by rw [newSize_all_supported _ hall, hfit p hp]
  refine ⟨?_, ?_, ?_⟩
  · rw [hsz] at hq; exact hq
  · intro i v hi
    obtain ⟨_, hin⟩ := hD.2.2 p hp
    obtain ⟨v', hv', hlt⟩ := hin _ (List.mem_of_getElem? hi)
    cases hv'
    have hlt' : v < (dictGet supports p.1).length := by rw [hfit p hp]; exact hlt
    rw [t3 p.1 (mem_attrs_of_mem hp), transformCol_get _ _ i v hi hlt', code_all_supported _ hall v hlt']
  · intro i v hi
    obtain ⟨_, hin⟩ := hS.2.2 _ hq
    obtain ⟨v', hv', hlt⟩ := hin _ (List.mem_of_getElem? hi)
    cases hv'
    have hlt' : v < (dictGet supports p.1).length := by rw [newSize_all_supported _ hall] at hlt; exact hlt
    obtain ⟨n, hn⟩ := r3 p.1 (by rw [hat]; exact mem_attrs_of_mem hp)
    obtain ⟨w, hw, hr, _, _⟩ := reverseCol_supported choice n (dictGet supports p.1) _ i v hi (by rw [hall]; exact hlt')
    rw [npWhere_all_supported _ hall v hlt'] at hw
    cases hw
    rw [hn]; exact hr

/-- **(4c)** an attribute of original size 1 keeps size 1 whether or not its single value is supported, and the value
`0` comes back as `0` -/
theorem gen_edge_size_one (choice : Nat → List Nat → Nat → List Nat) (hadm : Admissible choice) (rng : Nat)
    (orig : Dom) (synth : DS) (supports : List (Attr × List Bool)) (rows : Nat)
    (hnd : (Dom.attrs orig).Nodup) (hfit : SupportsFit orig supports)
    (hS : synth.Over (compressedDom orig supports) rows) (a : Attr) (hp : (a, 1) ∈ orig) :
    (a, 1) ∈ compressedDom orig supports ∧
    ∀ c ∈ (reverse_data choice rng synth supports).df.get a, c = some 0 := by
  have hlen : (dictGet supports a).length = 1 := hfit (a, 1) hp
  have hsz : newSize (dictGet supports a) = 1 := by
    match h : dictGet supports a, hlen with
    | [b], _ => exact newSize_size_one b
  refine ⟨?_, ?_⟩
  · have hq := List.mem_map_of_mem (f := fun p : Attr × Nat => (p.1, newSize (dictGet supports p.1))) hp
    simp only [hsz] at hq; exact hq
  · intro c hc
    have hR := gen_reverse_in_original_domain choice hadm rng orig supports synth rows hnd hfit hS
    obtain ⟨v, rfl, hv⟩ := (hR.2.2 (a, 1) hp).2 c hc
    congr 1; omega

/-- **(4d)** a zero-size support (an attribute of size 0, empty answer vector) stays at size 0 -/
theorem gen_edge_size_zero (orig : Dom) (supports : List (Attr × List Bool)) (hfit : SupportsFit orig supports)
    (a : Attr) (hp : (a, 0) ∈ orig) : (a, 0) ∈ compressedDom orig supports := by
  have hlen : (dictGet supports a).length = 0 := hfit (a, 0) hp
  have h0 : dictGet supports a = [] := List.eq_nil_of_length_eq_zero hlen
  have hq := List.mem_map_of_mem (f := fun p : Attr × Nat => (p.1, newSize (dictGet supports p.1))) hp
  simp only [h0, newSize_size_zero] at hq
  exact hq


/-! ## a concrete instance (non-vacuity of the hypotheses; the values agree with a run of the Python on the same input,
`np.random.choice(a, k)` forced to `[a[j % len(a)] for j in range(k)]`) -/
namespace Ex

instance : MScalar Int where
  ofInt := id
  add := (· + ·)
  sub := (· - ·)
  mul := (· * ·)
  div := (· / ·)
  sqrt := fun x => (Nat.sqrt x.toNat : Nat)
  ge := fun a b => decide (a ≥ b)
  gt := fun a b => decide (a > b)
  le := fun a b => decide (a ≤ b)
  lt := fun a b => decide (a < b)
instance : QMat Int (List Int) where
  diags := id

def choice : Nat → List Nat → Nat → List Nat := fun _ a k => (List.range k).map (fun j => a.getD (j % a.length) 0)

theorem choice_admissible : Admissible choice := by
  intro n a k ha
  refine ⟨by simp [choice], ?_⟩
  intro v hv
  simp only [choice, List.mem_map, List.mem_range] at hv
  obtain ⟨j, _, rfl⟩ := hv
  have hpos : 0 < a.length := List.length_pos_iff.2 ha
  have hlt : j % a.length < a.length := Nat.mod_lt _ hpos
  simp [List.getD_eq_getElem?_getD, List.getElem?_eq_getElem hlt]

def dom : Dom := [("a", 4), ("b", 3), ("c", 2), ("d", 1)]
def data : DS := { df := [("a", [some 0, some 1, some 2, some 3, some 2]), ("b", [some 0, some 1, some 2, some 0, some 1]),
                          ("c", [some 0, some 1, some 0, some 1, some 1]), ("d", [some 0, some 0, some 0, some 0, some 0])],
                   domain := dom }
/-- noisy one-way answers with `sigma = 1`: `a` keeps values 0 and 2, `b` nothing, `c` everything, `d` (size 1) nothing -/
def ms : List (Meas Int (List Int)) :=
  [([], [5, 1, 7, 2], 1, ["a"]), ([], [0, 1, 2], 1, ["b"]), ([], [9, 9], 1, ["c"]), ([], [1], 1, ["d"])]
def synth : DS := { df := [("a", [some 2, some 0, some 1, some 2]), ("b", [some 0, some 0, some 0, some 0]),
                           ("c", [some 1, some 0, some 1, some 0]), ("d", [some 0, some 0, some 0, some 0])],
                    domain := [("a", 3), ("b", 1), ("c", 2), ("d", 1)] }

example : supportsOf ms = [("a", [true, false, true, false]), ("b", [false, false, false]), ("c", [true, true]), ("d", [false])] := by
  decide
example : ((compress_domain choice 0 data ms).1.domain, (compress_domain choice 0 data ms).1.df)
    = ([("a", 3), ("b", 1), ("c", 2), ("d", 1)],
       [("a", [some 0, some 2, some 1, some 2, some 1]), ("b", [some 0, some 0, some 0, some 0, some 0]),
        ("c", [some 0, some 1, some 0, some 1, some 1]), ("d", [some 0, some 0, some 0, some 0, some 0])]) := by
  decide
example : (compress_domain choice 0 data ms).2.1.map (fun m => m.2.1.length) = [3, 1, 2, 1] := by decide
example : (((compress_domain choice 0 data ms).2.2 synth).domain, ((compress_domain choice 0 data ms).2.2 synth).df)
    = (dom,
       [("a", [some 1, some 0, some 2, some 3]), ("b", [some 0, some 1, some 2, some 0]),
        ("c", [some 1, some 0, some 1, some 0]), ("d", [some 0, some 0, some 0, some 0])]) := by
  decide

theorem colIn_of_all (n : Nat) (s : List Cell) (h : s.all (fun c => c.any (fun v => decide (v < n))) = true) : ColIn n s := by
  intro c hc
  have := List.all_eq_true.1 h c hc
  cases c with
  | none => simp at this
  | some v => exact ⟨v, rfl, by simpa using this⟩

theorem ms_cols : (ms.map colOf).Nodup := by decide
theorem dom_nodup : (Dom.attrs dom).Nodup := by decide
theorem fit : SupportsFit dom (supportsOf ms) := by
  intro p hp
  simp only [dom, List.mem_cons, List.not_mem_nil, or_false] at hp
  rcases hp with rfl | rfl | rfl | rfl <;> decide
theorem data_over : data.Over data.domain 5 := by
  refine ⟨rfl, by decide, ?_⟩
  intro p hp
  simp only [data, dom, List.mem_cons, List.not_mem_nil, or_false] at hp
  rcases hp with rfl | rfl | rfl | rfl <;> exact ⟨by decide, colIn_of_all _ _ (by decide)⟩
theorem synth_over : synth.Over (compressedDom dom (supportsOf ms)) 4 := by
  refine ⟨by decide, by decide, ?_⟩
  intro p hp
  have hp' : p ∈ [("a", 3), ("b", 1), ("c", 2), ("d", 1)] := by
    have : compressedDom dom (supportsOf ms) = [("a", 3), ("b", 1), ("c", 2), ("d", 1)] := by decide
    rw [this] at hp; exact hp
  simp only [List.mem_cons, List.not_mem_nil, or_false] at hp'
  rcases hp' with rfl | rfl | rfl | rfl <;> exact ⟨by decide, colIn_of_all _ _ (by decide)⟩

/-- the hypotheses of (1), (2), (3) and of the edge cases (4a: `b`, 4b: `c`, 4c: `d`) hold together on this instance -/
example : (reverse_data choice 0 synth (supportsOf ms)).Over dom 4 :=
  gen_reverse_in_original_domain choice choice_admissible 0 dom (supportsOf ms) synth 4 dom_nodup fit synth_over
example : (transform_data data (supportsOf ms)).Over (compressedDom dom (supportsOf ms)) 5 :=
  gen_transform_in_compressed_domain data (supportsOf ms) 5 dom_nodup fit data_over
example : maskSum (dictGet (supportsOf ms) "b") = 0 ∧ maskSum (dictGet (supportsOf ms) "c") = (dictGet (supportsOf ms) "c").length := by
  decide

/-- oracles satisfying the hypotheses of `gen_MST_original_domain`: all-zero answers of the right sizes, an empty
synthetic table over the engine's domain -/
def O : Oracles Int (List Int) (Dom × Nat) Dom where
  cdp_rho := fun e _ => e
  measure := fun _ d cl _ => cl.map (fun pr => ([], List.replicate (d.domain.cfg (pr.getD 0 "")) 0, 1, pr))
  select := fun _ _ _ _ => []
  FactoredInference := fun d k => (d, k)
  estimate := fun _ e _ => e.1
  synthetic_data := fun _ d => { df := d.map (fun p => (p.1, [])), domain := d }

example : ∃ rows, (MST O choice 0 data 1 1).Over data.domain rows := by
  refine gen_MST_original_domain O choice choice_admissible 0 data 1 1 dom_nodup (by decide) ?_ ?_
  · intro cl s
    refine ⟨by simp [O, List.map_map, Function.comp_def], ?_⟩
    intro m hm p hp hc
    simp only [O, List.mem_map] at hm
    obtain ⟨pr, _, rfl⟩ := hm
    simp only [colOf] at hc
    simp only [List.length_replicate, hc]
    simp only [data, dom, List.mem_cons, List.not_mem_nil, or_false] at hp
    rcases hp with rfl | rfl | rfl | rfl <;> decide
  · intro n n' d iters log
    refine ⟨0, rfl, by simp [O, Frame.labels, Dom.attrs, List.map_map, Function.comp_def], ?_⟩
    intro p hp
    have : Frame.get (List.map (fun p : Attr × Nat => (p.1, ([] : List Cell))) d) p.1 = [] := by
      simp only [Frame.get, dictGet]
      cases h : dictFind (List.map (fun p : Attr × Nat => (p.1, ([] : List Cell))) d) p.1 with
      | none => rfl
      | some l =>
        have : ∀ (d : Dom) l, dictFind (List.map (fun p : Attr × Nat => (p.1, ([] : List Cell))) d) p.1 = some l → l = [] := by
          intro d
          induction d with
          | nil => intro l h; simp [dictFind] at h
          | cons q d ih =>
            intro l h
            by_cases hq : q.1 = p.1
            · simp [dictFind, hq] at h; exact h
            · simp only [List.map_cons, dictFind, hq, if_false] at h; exact ih l h
        simp [this d l h]
    simp only [O]
    rw [this]
    exact ⟨rfl, by intro c hc; simp at hc⟩

end Ex

end PGM.C06D
