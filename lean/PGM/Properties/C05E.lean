import PGM.Properties.C05
import PGM.Properties.C05B
import PGM.Properties.C05S
import PGM.Proofs.LedgerE
/-!
# C05 — end to end: every event charged by its ACTUAL change, total ≤ the budget

`C05.lean` shows that the amounts the mechanisms BOOK sum to the budget; `C05S.lean` / `C05B.lean` bound the ACTUAL
change of every selection / Adaptive-Grid release.  This file composes them.  For two neighbouring datasets (lists of
records; a marginal is the vector of cell counts) and one fixed sequence of random outcomes (noise values enter only
through the models `xest` handed to later steps, draws through an oracle), every release is charged by the actual L2 / L1
distance of the released statistic on the two datasets, every selection by the actual `max_i |log p_i − log p'_i|` of the
two probability vectors the generated selection site computes; the sum is at most `rho` (resp. `epsilon`).

The scales / epsilons are the regenerated slices (`Generated/SlicesR.lean`), the probability vectors those of the
regenerated selection sites (`Generated/SelectG.lean`).
-/
set_option linter.unusedSimpArgs false
set_option linter.unusedVariables false
set_option linter.unnecessarySeqFocus false
set_option linter.unreachableTactic false
set_option linter.unusedTactic false
namespace PGM.C05E
open PGM.Gen.R PGM.Ledger PGM.C05 PGM.C05S PGM.SelectG PGM.SelGen PGM.LedgerE PGM.AdaGridSens

/-! ## 1. events and the charging rule -/

inductive Dist | gauss | laplace

/-- what a mechanism does with the private data: a noisy release (noise distribution, scale handed to the sampler, actual
change `Δ` of the released statistic between the two datasets: L2 for Gaussian, L1 for Laplace noise) or a private
selection (actual change `e` of the log-probabilities) -/
inductive Event
  | release (d : Dist) (scale Δ : ℝ)
  | select (e : ℝ)

/-- the zCDP charge: Gaussian `Δ²/(2σ²)`, selection `e²/8`, (pure `Δ₁/b`-DP) Laplace `(Δ₁/b)²/2`.

**A non-positive scale is outside every ledger theorem's hypotheses.**  Real division by zero is 0, so
`cost (.release .gauss 0 Δ) = 0` (`cost_zero_scale`): an un-noised release would be "free".  The number is a privacy charge
only when the scale is positive (`PosScale`); each of the four end-to-end theorems therefore comes with a statement that every
release event it sums has a positive scale, derived from the theorem's own hypotheses:
* MST — `mst_events_scale_pos` (scale `σ/w`: from `0 < rho` and the hypotheses `hp1`, `hp2 : 0 < w` of `mst_total_cost_le_rho`);
* MWEM — `mwem_events_scale_pos` (Gaussian and Laplace: from `0 < budget`, `0 < rounds`, `0 < alpha`);
* AIM — `aim_events_scale_pos` (from the STRICT `0.9·#oneway < rounds`; at equality the last-round re-calibration divides by
  the remaining budget 0 — the real code raises ZeroDivisionError — which is why `aim_total_cost_le_rho` asks the strict form);
* Adaptive Grid — `ada_events_scale_pos` (from `0 < rho1`, `0 < rho3`, `#step1 ≤ n1`; an event exists only if its list is
  non-empty, so the counts under the square roots are positive). -/
noncomputable def cost : Event → ℝ
  | .release .gauss σ Δ => gaussCost Δ σ
  | .release .laplace b Δ => (Δ / b) ^ 2 / 2
  | .select e => selectCost e

/-- the pure-DP charge: Laplace `Δ₁/b`, selection `e`; a Gaussian release has no finite pure charge (`IsPure`) -/
noncomputable def costPure : Event → ℝ
  | .release _ b Δ => Δ / b
  | .select e => e

def IsPure : Event → Prop
  | .release .gauss _ _ => False
  | _ => True

/-- a release at a positive scale (selections carry no scale) -/
def PosScale : Event → Prop
  | .release _ s _ => 0 < s
  | .select _ => True

/-- what excluding non-positive scales excludes: an un-noised release is charged 0 (division by zero), whatever `Δ` -/
theorem cost_zero_scale (Δ : ℝ) : cost (.release .gauss 0 Δ) = 0 ∧ cost (.release .laplace 0 Δ) = 0 := by
  constructor <;> simp [cost, gaussCost]

noncomputable def total (evs : List Event) : ℝ := (evs.map cost).sum
noncomputable def totalPure (evs : List Event) : ℝ := (evs.map costPure).sum

theorem total_append (a b : List Event) : total (a ++ b) = total a + total b := by
  simp [total]

theorem totalPure_append (a b : List Event) : totalPure (a ++ b) = totalPure a + totalPure b := by
  simp [totalPure]

/-- actual L2 change -/
noncomputable def l2 (x y : List ℝ) : ℝ := Real.sqrt (sqDist x y)

theorem gaussCost_l2 (x y : List ℝ) (s : ℝ) : gaussCost (l2 x y) s = sqDist x y / (2 * s ^ 2) := by
  unfold gaussCost l2
  rw [Real.sq_sqrt (sqDist_nonneg x y)]

/-- a Gaussian release whose statistic moves by at most `B` in squared L2 -/
theorem gaussCost_l2_le (x y : List ℝ) (s B : ℝ) (h : sqDist x y ≤ B) : gaussCost (l2 x y) s ≤ B / (2 * s ^ 2) := by
  rw [gaussCost_l2]
  exact div_le_div_of_nonneg_right h (by positivity)

theorem selectCost_logDist_le {e : ℝ} (he : 0 ≤ e) {p p' : List ℝ} (h : LogClose e p p') :
    selectCost (logDist p p') ≤ e ^ 2 / 8 := by
  unfold selectCost
  exact div_le_div_of_nonneg_right (sq_logDist_le he h) (by norm_num)

/-! ## 2. datasets, marginals, neighbours -/

section data
variable {R C : Type}

/-- the marginal of the dataset `D` (a list of records) over `c`: `cell c r` is the cell of record `r`, `size c` the
number of cells; the data vector counts the records per cell (unit weights) -/
def marg (cell : C → R → ℕ) (size : C → ℕ) (D : List R) (c : C) : List ℝ := countVec (size c) (D.map (cell c))

theorem marg_length (cell : C → R → ℕ) (size : C → ℕ) (D : List R) (c : C) : (marg cell size D c).length = size c :=
  countVec_length _ _

/-- unbounded adjacency: one record added or removed (anywhere in the list) -/
def AddRemove (D D' : List R) : Prop := ∃ r, D'.Perm (r :: D) ∨ D.Perm (r :: D')

/-- bounded adjacency: one record replaced -/
def ReplaceOne (D D' : List R) : Prop := ∃ r r' E, D.Perm (r :: E) ∧ D'.Perm (r' :: E)

theorem marg_cons (cell : C → R → ℕ) (size : C → ℕ) (D D' : List R) (r : R) (h : D'.Perm (r :: D)) (c : C) :
    marg cell size D' c = countVec (size c) (cell c r :: D.map (cell c)) := by
  unfold marg
  rw [countVec_perm _ (h.map (cell c)), List.map_cons]

/-- **a marginal of two datasets differing by one added / removed record moves by at most 1 in L1 and in L2** -/
theorem marginal_release_delta (cell : C → R → ℕ) (size : C → ℕ) (D D' : List R) (h : AddRemove D D') (c : C) :
    l1 (marg cell size D c) (marg cell size D' c) ≤ 1 ∧ sqDist (marg cell size D c) (marg cell size D' c) ≤ 1 ∧
      l2 (marg cell size D c) (marg cell size D' c) ≤ 1 := by
  have key : l1 (marg cell size D c) (marg cell size D' c) ≤ 1 ∧ sqDist (marg cell size D c) (marg cell size D' c) ≤ 1 := by
    obtain ⟨r, h | h⟩ := h
    · rw [marg_cons cell size D D' r h c, l1_comm, sqDist_comm]
      unfold marg
      rw [countVec_cons_l1, countVec_cons_sqDist]
      constructor <;> split <;> norm_num
    · rw [marg_cons cell size D' D r h c]
      unfold marg
      rw [countVec_cons_l1, countVec_cons_sqDist]
      constructor <;> split <;> norm_num
  refine ⟨key.1, key.2, ?_⟩
  unfold l2
  rw [← Real.sqrt_one]
  exact Real.sqrt_le_sqrt key.2

/-- … and by at most 2 in L1, `√2` in L2 when one record is replaced -/
theorem marginal_release_delta_replace (cell : C → R → ℕ) (size : C → ℕ) (D D' : List R) (h : ReplaceOne D D') (c : C) :
    l1 (marg cell size D c) (marg cell size D' c) ≤ 2 ∧ sqDist (marg cell size D c) (marg cell size D' c) ≤ 2 ∧
      l2 (marg cell size D c) (marg cell size D' c) ≤ Real.sqrt 2 := by
  obtain ⟨r, r', E, hD, hD'⟩ := h
  have key : l1 (marg cell size D c) (marg cell size D' c) ≤ 2 ∧ sqDist (marg cell size D c) (marg cell size D' c) ≤ 2 := by
    rw [marg_cons cell size E D r hD c, marg_cons cell size E D' r' hD' c]
    exact ⟨countVec_replace_l1 _ _ _ _, countVec_replace_sqDist _ _ _ _⟩
  exact ⟨key.1, key.2, Real.sqrt_le_sqrt key.2⟩

/-- the adjacency notion a mechanism with a `bounded` flag is run under -/
def Nbr (bounded : Bool) (D D' : List R) : Prop := if bounded = true then ReplaceOne D D' else AddRemove D D'

theorem marginal_release_delta_nbr (bounded : Bool) (cell : C → R → ℕ) (size : C → ℕ) (D D' : List R)
    (h : Nbr bounded D D') (c : C) :
    l1 (marg cell size D c) (marg cell size D' c) ≤ (if bounded = true then 2 else 1) ∧
      sqDist (marg cell size D c) (marg cell size D' c) ≤ (if bounded = true then 2 else 1) := by
  cases bounded
  · have := marginal_release_delta cell size D D' (by simpa [Nbr] using h) c
    simpa using ⟨this.1, this.2.1⟩
  · have := marginal_release_delta_replace cell size D D' (by simpa [Nbr] using h) c
    simpa using ⟨this.1, this.2.1⟩

/-- the bounds are attained: a record added to a 2-cell marginal; a record moved from cell 1 to cell 0 -/
example : AddRemove ([] : List ℕ) [0] ∧ l1 (marg (fun _ : Unit => id) (fun _ => 2) [] ()) (marg (fun _ : Unit => id) (fun _ => 2) [0] ()) = 1 := by
  refine ⟨⟨0, Or.inl (List.Perm.refl _)⟩, ?_⟩
  rw [l1_comm]
  simp only [marg, List.map_cons, List.map_nil, id, countVec_cons_l1]
  norm_num

example : ReplaceOne [0] [1] ∧ sqDist (marg (fun _ : Unit => id) (fun _ => 2) [0] ()) (marg (fun _ : Unit => id) (fun _ => 2) [1] ()) = 2 :=
  ⟨⟨0, 1, [], List.Perm.refl _, List.Perm.refl _⟩, countVec_replace_sqDist_attained.1⟩
end data

variable (inf fmax : ℝ)
local notation "npR" => realOps inf fmax

/-! ## 3. MST -/

section mst
variable {A DS R C1 : Type} [DecidableEq A] [Inhabited A]

theorem mst_loop3_length (g : GraphOps A DS ℝ) (x : List A → List ℝ) (attrs : List A) (rho : ℝ) (cliques : List (A × A))
    (xest : List A → List ℝ) (size : List A → ℝ) (mcl : List (List A)) (draws : ℕ → ℕ)
    (weights : List ((A × A) × ℝ)) (epsilon : ℝ) (l : List ℕ)
    (st : List (A × A) × (List A × List (A × A)) × DS × List (Draw ℝ)) :
    (l.foldl (mst_select_loop3 npR g x attrs rho cliques xest size mcl draws weights epsilon) st).2.2.2.length
      = st.2.2.2.length + l.length := by
  induction l generalizing st with
  | nil => simp
  | cons i l ih =>
    rw [List.foldl_cons, ih, gen_mst_loop3]
    simp only [List.length_append, List.length_cons, List.length_nil]
    omega

/-- the number of connected components `r` of the forest of pre-selected edges, as `select` computes it -/
noncomputable def mstComponents (g : GraphOps A DS ℝ) (x : List A → List ℝ) (attrs : List A) (rho : ℝ) (cliques : List (A × A))
    (xest : List A → List ℝ) (size : List A → ℝ) (mcl : List (List A)) (draws : ℕ → ℕ) : ℕ :=
  g.ncomp (List.foldl (mst_select_loop2 npR g x attrs rho cliques xest size mcl draws) (([] ++ attrs, []), g.ds_empty) cliques).1

/-- `select` makes exactly `r − 1` draws -/
theorem mst_select_transcript_length (g : GraphOps A DS ℝ) (x : List A → List ℝ) (attrs : List A) (rho : ℝ) (cliques : List (A × A))
    (xest : List A → List ℝ) (size : List A → ℝ) (mcl : List (List A)) (draws : ℕ → ℕ) :
    (mst_select npR g x attrs rho cliques xest size mcl draws).2.length
      = (((mstComponents inf fmax g x attrs rho cliques xest size mcl draws : ℕ) : ℤ) - 1).toNat := by
  have h := mst_loop3_length inf fmax g x attrs rho cliques xest size mcl draws
    (mst_select_weights npR g x attrs rho cliques xest size mcl draws)
    (mst_select_epsilon npR g x attrs rho cliques xest size mcl draws)
    (List.range (((mstComponents inf fmax g x attrs rho cliques xest size mcl draws : ℕ) : ℤ) - 1).toNat)
    (comb2 attrs, (List.foldl (mst_select_loop2 npR g x attrs rho cliques xest size mcl draws) (([] ++ attrs, []), g.ds_empty) cliques).1,
      (List.foldl (mst_select_loop2 npR g x attrs rho cliques xest size mcl draws) (([] ++ attrs, []), g.ds_empty) cliques).2, [])
  simp only [List.length_nil, List.length_range, Nat.zero_add] at h
  exact h

/-- the one-way / pair releases of `measure`: scale `σ/w`, actual change of the marginal -/
noncomputable def measureEvents {C : Type} (scale : ℝ → ℝ) (x x' : C → List ℝ) (cliques : List C) (ws : List ℝ) : List Event :=
  (List.zip cliques ws).map (fun p => Event.release .gauss (scale p.2) (l2 (x p.1) (x' p.1)))

theorem measureEvents_total_le {C : Type} (scale : ℝ → ℝ) (sigma : ℝ) (x x' : C → List ℝ) (cliques : List C) (ws : List ℝ)
    (hscale : ∀ w ∈ ws, gaussCost 1 (scale w) = w ^ 2 / (2 * sigma ^ 2))
    (hnb : ∀ c, sqDist (x c) (x' c) ≤ 1) :
    total (measureEvents scale x x' cliques ws) ≤ (ws.map (· ^ 2)).sum / (2 * sigma ^ 2) := by
  unfold total measureEvents
  rw [List.map_map, ← sum_map_div_const ws (· ^ 2) (2 * sigma ^ 2)]
  apply sum_zip_le cliques ws _ (fun w => w ^ 2 / (2 * sigma ^ 2))
  · intro w _; positivity
  · intro c w hw
    simp only [Function.comp, cost]
    rw [← hscale w hw]
    have := gaussCost_l2_le (x c) (x' c) (scale w) 1 (hnb c)
    simpa [gaussCost] using this

/-- the events of one run of `MST` on `D`, replayed on `D'` with the same random outcomes:
* `log1`: the one-way marginals `cols1` (view `cell1`) at `mst_measure_scale (mst_measure1_sigma (mst_sigma rho)) w`;
* `select` on the (compressed, view `cell2`) data: the transcripts of the two runs of the generated `mst_select_call`;
* `log2`: the marginals over the selected edges at `mst_measure_scale (mst_measure2_sigma (mst_sigma rho)) w`. -/
noncomputable def mstEvents (rho : ℝ) (g : GraphOps A DS ℝ) (cols1 : List C1) (ws1 ws2 : List ℝ)
    (cell1 : C1 → R → ℕ) (size1 : C1 → ℕ) (cell2 : List A → R → ℕ) (size2 : List A → ℕ) (attrs : List A)
    (xest : List A → List ℝ) (msize : List A → ℝ) (mcl : List (List A)) (draws : ℕ → ℕ) (D D' : List R) : List Event :=
  measureEvents (mst_measure_scale (mst_measure1_sigma (mst_sigma rho))) (marg cell1 size1 D) (marg cell1 size1 D') cols1 ws1
  ++ List.zipWith (fun d d' => Event.select (logDist d.p d'.p))
      (mst_select_call npR g (marg cell2 size2 D) attrs rho xest msize mcl draws).2
      (mst_select_call npR g (marg cell2 size2 D') attrs rho xest msize mcl draws).2
  ++ measureEvents (mst_measure_scale (mst_measure2_sigma (mst_sigma rho))) (marg cell2 size2 D) (marg cell2 size2 D')
      ((mst_select_call npR g (marg cell2 size2 D) attrs rho xest msize mcl draws).1.map (fun e => [e.1, e.2])) ws2

/-- the selection phase alone: at most `rho/3` -/
theorem mst_select_phase_le (rho : ℝ) (g : GraphOps A DS ℝ) (x x' : List A → List ℝ) (attrs : List A)
    (xest : List A → List ℝ) (msize : List A → ℝ) (mcl : List (List A)) (draws : ℕ → ℕ) (hrho : 0 < rho)
    (hlen : ∀ c, (x c).length = (xest c).length ∧ (x' c).length = (xest c).length)
    (hnb : ∀ c, l1 (x c) (x' c) ≤ 1) :
    total (List.zipWith (fun d d' => Event.select (logDist d.p d'.p))
      (mst_select_call npR g x attrs rho xest msize mcl draws).2
      (mst_select_call npR g x' attrs rho xest msize mcl draws).2) ≤ rho / 3 := by
  rw [gen_mst_select_call, gen_mst_select_call]
  have hc := (mst_select_cost inf fmax g x x' attrs (mst_select_rho rho) [] xest msize mcl draws hlen hnb).2
  have hε := mst_select_epsilon_nonneg inf fmax g x attrs (mst_select_rho rho) [] xest msize mcl draws
  unfold total
  rw [List.map_zipWith]
  have hsum := sum_zipWith_le_of_forall₂ (DrawClose (mst_select_epsilon npR g x attrs (mst_select_rho rho) [] xest msize mcl draws))
    (fun d d' => cost (Event.select (logDist d.p d'.p)))
    ((mst_select_epsilon npR g x attrs (mst_select_rho rho) [] xest msize mcl draws) ^ 2 / 8) _ _ hc
    (fun d d' hdd => selectCost_logDist_le hε hdd.2)
  refine le_trans hsum ?_
  rw [mst_select_transcript_length, gen_mst_epsilon]
  change (((((mstComponents inf fmax g x attrs (mst_select_rho rho) [] xest msize mcl draws : ℕ) : ℤ) - 1).toNat : ℕ) : ℝ)
    * (mst_select_eps (mst_select_rho rho) ((mstComponents inf fmax g x attrs (mst_select_rho rho) [] xest msize mcl draws : ℕ) : ℝ) ^ 2 / 8) ≤ rho / 3
  generalize mstComponents inf fmax g x attrs (mst_select_rho rho) [] xest msize mcl draws = r
  by_cases hr : 2 ≤ r
  · have hr1 := natCast_sub_one_pos r hr
    have hk : ((((r : ℤ) - 1).toNat : ℕ) : ℝ) = (r : ℝ) - 1 := by
      have : (((r : ℤ) - 1).toNat : ℤ) = (r : ℤ) - 1 := Int.toNat_of_nonneg (by omega)
      have h2 : ((((r : ℤ) - 1).toNat : ℕ) : ℝ) = (((((r : ℤ) - 1).toNat : ℕ) : ℤ) : ℝ) := by push_cast; rfl
      rw [h2, this]; push_cast; ring
    rw [hk, mst_select_eps_sq rho r hrho hr1]
    apply le_of_eq
    field_simp
  · have hk : ((r : ℤ) - 1).toNat = 0 := by omega
    rw [hk]
    simp only [Nat.cast_zero, zero_mul]
    positivity

/-- **MST, end to end**: on neighbouring datasets and the same random outcomes, the actual changes of the `d` one-way
releases, of every draw of `select`, and of the releases over the selected edges cost at most `rho` in total.
`ws1`, `ws2`: the per-marginal weights after `measure` has normalised them to unit L2 norm. -/
theorem mst_total_cost_le_rho (rho : ℝ) (g : GraphOps A DS ℝ) (cols1 : List C1) (ws1 ws2 : List ℝ)
    (cell1 : C1 → R → ℕ) (size1 : C1 → ℕ) (cell2 : List A → R → ℕ) (size2 : List A → ℕ) (attrs : List A)
    (xest : List A → List ℝ) (msize : List A → ℝ) (mcl : List (List A)) (draws : ℕ → ℕ) (D D' : List R)
    (hrho : 0 < rho) (hnb : AddRemove D D')
    (h1 : (ws1.map (· ^ 2)).sum = 1) (h2 : (ws2.map (· ^ 2)).sum = 1)
    (hp1 : ∀ w ∈ ws1, 0 < w) (hp2 : ∀ w ∈ ws2, 0 < w)
    (hsz : ∀ c, (xest c).length = size2 c) :
    total (mstEvents inf fmax rho g cols1 ws1 ws2 cell1 size1 cell2 size2 attrs xest msize mcl draws D D') ≤ rho := by
  have hσ2 := mst_sigma_sq rho hrho
  have hg1 : ∀ w ∈ ws1, gaussCost 1 (mst_measure_scale (mst_measure1_sigma (mst_sigma rho)) w)
      = w ^ 2 / (2 * mst_sigma rho ^ 2) := by
    intro w hw
    have := (hp1 w hw).ne'
    simp only [gaussCost, mst_measure_scale, mst_measure1_sigma] <;> pgm_arith
  have hg2 : ∀ w ∈ ws2, gaussCost 1 (mst_measure_scale (mst_measure2_sigma (mst_sigma rho)) w)
      = w ^ 2 / (2 * mst_sigma rho ^ 2) := by
    intro w hw
    have := (hp2 w hw).ne'
    simp only [gaussCost, mst_measure_scale, mst_measure2_sigma] <;> pgm_arith
  have hthird : (1 : ℝ) / (2 * mst_sigma rho ^ 2) = rho / 3 := by
    rw [hσ2]; field_simp
  have e1 := measureEvents_total_le (mst_measure_scale (mst_measure1_sigma (mst_sigma rho))) (mst_sigma rho)
    (marg cell1 size1 D) (marg cell1 size1 D') cols1 ws1 hg1 (fun c => (marginal_release_delta cell1 size1 D D' hnb c).2.1)
  have e3 := measureEvents_total_le (mst_measure_scale (mst_measure2_sigma (mst_sigma rho))) (mst_sigma rho)
    (marg cell2 size2 D) (marg cell2 size2 D')
    ((mst_select_call npR g (marg cell2 size2 D) attrs rho xest msize mcl draws).1.map (fun e => [e.1, e.2])) ws2 hg2
    (fun c => (marginal_release_delta cell2 size2 D D' hnb c).2.1)
  have e2 := mst_select_phase_le inf fmax rho g (marg cell2 size2 D) (marg cell2 size2 D') attrs xest msize mcl draws hrho
    (fun c => ⟨by rw [marg_length, hsz], by rw [marg_length, hsz]⟩)
    (fun c => (marginal_release_delta cell2 size2 D D' hnb c).1)
  rw [h1, hthird] at e1
  rw [h2, hthird] at e3
  unfold mstEvents
  rw [total_append, total_append]
  linarith
theorem measureEvents_scale_pos {C : Type} (scale : ℝ → ℝ) (x x' : C → List ℝ) (cliques : List C) (ws : List ℝ)
    (h : ∀ w ∈ ws, 0 < scale w) : ∀ ev ∈ measureEvents scale x x' cliques ws, PosScale ev := by
  intro ev hev
  obtain ⟨p, hp, rfl⟩ := List.mem_map.1 hev
  exact h p.2 (List.of_mem_zip hp).2

/-- **every release of MST is at a positive scale** `σ/w`, from the hypotheses of `mst_total_cost_le_rho` -/
theorem mst_events_scale_pos (rho : ℝ) (g : GraphOps A DS ℝ) (cols1 : List C1) (ws1 ws2 : List ℝ)
    (cell1 : C1 → R → ℕ) (size1 : C1 → ℕ) (cell2 : List A → R → ℕ) (size2 : List A → ℕ) (attrs : List A)
    (xest : List A → List ℝ) (msize : List A → ℝ) (mcl : List (List A)) (draws : ℕ → ℕ) (D D' : List R)
    (hrho : 0 < rho) (hp1 : ∀ w ∈ ws1, 0 < w) (hp2 : ∀ w ∈ ws2, 0 < w) :
    ∀ ev ∈ mstEvents inf fmax rho g cols1 ws1 ws2 cell1 size1 cell2 size2 attrs xest msize mcl draws D D', PosScale ev := by
  have hσ : 0 < mst_sigma rho := by unfold mst_sigma; positivity
  intro ev hev
  unfold mstEvents at hev
  rcases List.mem_append.1 hev with hev | hev
  · rcases List.mem_append.1 hev with hev | hev
    · refine measureEvents_scale_pos _ _ _ _ _ (fun w hw => ?_) ev hev
      have := hp1 w hw
      simp only [mst_measure_scale, mst_measure1_sigma]; positivity
    · obtain ⟨i, hi, rfl⟩ := List.getElem_of_mem hev
      simp only [List.getElem_zipWith]; trivial
  · refine measureEvents_scale_pos _ _ _ _ _ (fun w hw => ?_) ev hev
    have := hp2 w hw
    simp only [mst_measure_scale, mst_measure2_sigma]; positivity
end mst

/-! ## 4. MWEM+PGM -/

theorem total_flatMap_le {α : Type} (l : List α) (f : α → List Event) (B : ℝ) (h : ∀ a ∈ l, total (f a) ≤ B) :
    total (l.flatMap f) ≤ (l.length : ℝ) * B := by
  induction l with
  | nil => simp [total]
  | cons a l ih =>
    rw [List.flatMap_cons, total_append]
    simp only [List.length_cons, Nat.cast_add, Nat.cast_one]
    have h1 := h a (List.mem_cons_self ..)
    have h2 := ih (fun b hb => h b (List.mem_cons_of_mem _ hb))
    linarith

theorem totalPure_flatMap_le {α : Type} (l : List α) (f : α → List Event) (B : ℝ) (h : ∀ a ∈ l, totalPure (f a) ≤ B) :
    totalPure (l.flatMap f) ≤ (l.length : ℝ) * B := by
  induction l with
  | nil => simp [totalPure]
  | cons a l ih =>
    rw [List.flatMap_cons, totalPure_append]
    simp only [List.length_cons, Nat.cast_add, Nat.cast_one]
    have h1 := h a (List.mem_cons_self ..)
    have h2 := ih (fun b hb => h b (List.mem_cons_of_mem _ hb))
    linarith

section mwem
variable {C R : Type} [DecidableEq C]

/-- what a round of `mwem_pgm` sees besides the private data: the current model (its answer vectors, cell counts and
cliques — a function of the earlier noisy outputs), the size-filtered candidates, and the outcome `ax` of the draw -/
structure MwemRound (C : Type) where
  xest : C → List ℝ
  msize : C → ℝ
  cliques : List C
  candidates : List C
  ax : C

/-- one round, Gaussian noise: the generated selection call with `exp_eps`, then the release of the selected marginal at
`marginal_sensitivity * sigma` -/
noncomputable def mwemGaussRound (rho alpha rounds : ℝ) (bounded : Bool) (cell : C → R → ℕ) (size : C → ℕ) (D D' : List R)
    (rd : MwemRound C) : List Event :=
  [Event.select (logDist
      (mwem_pgm_select npR (marg cell size D) rd.xest rd.msize rd.cliques rd.candidates
        (mwem_select_eps (mwem_gau_exp_eps alpha (mwem_rho_per_round rho rounds))) (mwem_select_bounded bounded)).2.p
      (mwem_pgm_select npR (marg cell size D') rd.xest rd.msize rd.cliques rd.candidates
        (mwem_select_eps (mwem_gau_exp_eps alpha (mwem_rho_per_round rho rounds))) (mwem_select_bounded bounded)).2.p),
   Event.release .gauss (mwem_gau_scale (mwem_gau_msens bounded) (mwem_gau_sigma alpha (mwem_rho_per_round rho rounds)))
      (l2 (marg cell size D rd.ax) (marg cell size D' rd.ax))]

/-- one round, Laplace noise -/
noncomputable def mwemLaplaceRound (epsilon alpha rounds : ℝ) (bounded : Bool) (cell : C → R → ℕ) (size : C → ℕ) (D D' : List R)
    (rd : MwemRound C) : List Event :=
  [Event.select (logDist
      (mwem_pgm_select npR (marg cell size D) rd.xest rd.msize rd.cliques rd.candidates
        (mwem_select_eps (mwem_lap_exp_eps alpha (mwem_lap_eps_per_round epsilon rounds))) (mwem_select_bounded bounded)).2.p
      (mwem_pgm_select npR (marg cell size D') rd.xest rd.msize rd.cliques rd.candidates
        (mwem_select_eps (mwem_lap_exp_eps alpha (mwem_lap_eps_per_round epsilon rounds))) (mwem_select_bounded bounded)).2.p),
   Event.release .laplace (mwem_lap_scale (mwem_lap_msens bounded) (mwem_lap_sigma alpha (mwem_lap_eps_per_round epsilon rounds)))
      (l1 (marg cell size D rd.ax) (marg cell size D' rd.ax))]

theorem mwem_select_close (cell : C → R → ℕ) (size : C → ℕ) (D D' : List R) (bounded : Bool) (rd : MwemRound C) (e : ℝ)
    (he : 0 ≤ e) (hnb : Nbr bounded D D') (hsz : ∀ cl, (rd.xest cl).length = size cl) :
    LogClose e
      (mwem_pgm_select npR (marg cell size D) rd.xest rd.msize rd.cliques rd.candidates (mwem_select_eps e) (mwem_select_bounded bounded)).2.p
      (mwem_pgm_select npR (marg cell size D') rd.xest rd.msize rd.cliques rd.candidates (mwem_select_eps e) (mwem_select_bounded bounded)).2.p := by
  have e1 : mwem_select_eps e = e := by simp only [mwem_select_eps]
  have e2 : mwem_select_bounded bounded = bounded := by simp only [mwem_select_bounded]
  rw [e1, e2]
  exact mwem_pgm_selection_cost inf fmax (marg cell size D) (marg cell size D') rd.xest rd.msize rd.cliques rd.candidates e bounded he
    (fun cl _ => ⟨by rw [marg_length, hsz], by rw [marg_length, hsz]⟩)
    (fun cl _ => (marginal_release_delta_nbr bounded cell size D D' hnb cl).1)

/-- a Gaussian round costs at most `rho / rounds` -/
theorem mwem_gauss_round_le (rho alpha : ℝ) (rounds : ℕ) (bounded : Bool) (cell : C → R → ℕ) (size : C → ℕ) (D D' : List R)
    (rd : MwemRound C) (hrho : 0 < rho) (hr : 0 < rounds) (ha0 : 0 < alpha) (ha1 : alpha ≤ 1)
    (hnb : Nbr bounded D D') (hsz : ∀ cl, (rd.xest cl).length = size cl) :
    total (mwemGaussRound inf fmax rho alpha rounds bounded cell size D D' rd) ≤ rho / rounds := by
  have hR : (0 : ℝ) < rounds := by exact_mod_cast hr
  have hrpr_eq : mwem_rho_per_round rho rounds = rho / rounds := by
    simp only [mwem_rho_per_round] <;> pgm_arith
  have hrpr : 0 < mwem_rho_per_round rho rounds := by rw [hrpr_eq]; positivity
  have h1a : 0 ≤ 1 - alpha := by linarith
  have hσ2 := mwem_gau_sigma_sq alpha _ ha0 hrpr
  have heps : mwem_gau_exp_eps alpha (mwem_rho_per_round rho rounds) ^ 2 = 8 * (1 - alpha) * mwem_rho_per_round rho rounds := by
    unfold mwem_gau_exp_eps
    exact Real.sq_sqrt (mul_nonneg (mul_nonneg (by norm_num) h1a) hrpr.le)
  have hm2 := mwem_gau_msens_sq bounded
  have hepos : 0 ≤ mwem_gau_exp_eps alpha (mwem_rho_per_round rho rounds) := by
    unfold mwem_gau_exp_eps; positivity
  have hsel := selectCost_logDist_le hepos
    (mwem_select_close inf fmax cell size D D' bounded rd _ hepos hnb hsz)
  have hrel := gaussCost_l2_le (marg cell size D rd.ax) (marg cell size D' rd.ax)
    (mwem_gau_scale (mwem_gau_msens bounded) (mwem_gau_sigma alpha (mwem_rho_per_round rho rounds))) _
    (marginal_release_delta_nbr bounded cell size D D' hnb rd.ax).2
  have hscale : (mwem_gau_scale (mwem_gau_msens bounded) (mwem_gau_sigma alpha (mwem_rho_per_round rho rounds))) ^ 2
      = mwem_gau_msens bounded ^ 2 * mwem_gau_sigma alpha (mwem_rho_per_round rho rounds) ^ 2 := by
    simp only [mwem_gau_scale] <;> pgm_arith
  rw [hscale, hm2, hσ2] at hrel
  rw [heps] at hsel
  have hB : (if bounded = true then (2 : ℝ) else 1) / (2 * ((if bounded = true then (2 : ℝ) else 1) * (1 / (2 * alpha * mwem_rho_per_round rho rounds))))
      = alpha * mwem_rho_per_round rho rounds := by
    have := hrpr.ne'
    cases bounded <;> simp only [Bool.false_eq_true, reduceIte] <;> field_simp
  rw [hB] at hrel
  simp only [mwemGaussRound, total, List.map_cons, List.map_nil, List.sum_cons, List.sum_nil, cost]
  rw [← hrpr_eq]
  linarith

/-- **MWEM+PGM (Gaussian), end to end**: over all rounds, for both adjacency notions — the actual changes cost at most `rho`.
`0 < alpha ≤ 1` is what the source asserts (`assert 0 < alpha <= 1`); at `alpha = 1` the selection epsilon is 0 (uniform draw,
charge 0) and the release takes the whole round budget -/
theorem mwem_total_cost_le_budget_gauss (rho alpha : ℝ) (rounds : ℕ) (bounded : Bool) (cell : C → R → ℕ) (size : C → ℕ)
    (D D' : List R) (rds : List (MwemRound C)) (hrho : 0 < rho) (hr : 0 < rounds) (ha0 : 0 < alpha) (ha1 : alpha ≤ 1)
    (hlen : rds.length = rounds) (hnb : Nbr bounded D D') (hsz : ∀ rd ∈ rds, ∀ cl, (rd.xest cl).length = size cl) :
    total (rds.flatMap (mwemGaussRound inf fmax rho alpha rounds bounded cell size D D')) ≤ rho := by
  have hR : (0 : ℝ) < rounds := by exact_mod_cast hr
  have h := total_flatMap_le rds (mwemGaussRound inf fmax rho alpha rounds bounded cell size D D') (rho / rounds)
    (fun rd hrd => mwem_gauss_round_le inf fmax rho alpha rounds bounded cell size D D' rd hrho hr ha0 ha1 hnb (hsz rd hrd))
  rw [hlen] at h
  have e : (rounds : ℝ) * (rho / rounds) = rho := by field_simp
  linarith

/-- a Laplace round costs at most `epsilon / rounds` (pure DP) -/
theorem mwem_laplace_round_le (epsilon alpha : ℝ) (rounds : ℕ) (bounded : Bool) (cell : C → R → ℕ) (size : C → ℕ) (D D' : List R)
    (rd : MwemRound C) (heps : 0 < epsilon) (hr : 0 < rounds) (ha0 : 0 < alpha) (ha1 : alpha ≤ 1)
    (hnb : Nbr bounded D D') (hsz : ∀ cl, (rd.xest cl).length = size cl) :
    totalPure (mwemLaplaceRound inf fmax epsilon alpha rounds bounded cell size D D' rd) ≤ epsilon / rounds := by
  have hR : (0 : ℝ) < rounds := by exact_mod_cast hr
  have hepr_eq : mwem_lap_eps_per_round epsilon rounds = epsilon / rounds := by
    simp only [mwem_lap_eps_per_round] <;> pgm_arith
  have hepr : 0 < mwem_lap_eps_per_round epsilon rounds := by rw [hepr_eq]; positivity
  have hE : mwem_lap_exp_eps alpha (mwem_lap_eps_per_round epsilon rounds) = (1 - alpha) * mwem_lap_eps_per_round epsilon rounds := by
    simp only [mwem_lap_exp_eps] <;> pgm_arith
  have hepos : 0 ≤ mwem_lap_exp_eps alpha (mwem_lap_eps_per_round epsilon rounds) := by
    rw [hE]; exact mul_nonneg (by linarith) hepr.le
  have hsel := logDist_le hepos (mwem_select_close inf fmax cell size D D' bounded rd _ hepos hnb hsz)
  have hb : mwem_lap_scale (mwem_lap_msens bounded) (mwem_lap_sigma alpha (mwem_lap_eps_per_round epsilon rounds))
      = (if bounded = true then (2 : ℝ) else 1) / (alpha * mwem_lap_eps_per_round epsilon rounds) := by
    cases bounded <;>
    simp only [mwem_lap_scale, mwem_lap_msens, mwem_lap_sigma, Bool.false_eq_true, reduceIte] <;> pgm_arith
  have hbpos : 0 < mwem_lap_scale (mwem_lap_msens bounded) (mwem_lap_sigma alpha (mwem_lap_eps_per_round epsilon rounds)) := by
    rw [hb]; cases bounded <;> simp only [Bool.false_eq_true, reduceIte] <;> positivity
  have hrel : l1 (marg cell size D rd.ax) (marg cell size D' rd.ax)
        / mwem_lap_scale (mwem_lap_msens bounded) (mwem_lap_sigma alpha (mwem_lap_eps_per_round epsilon rounds))
      ≤ alpha * mwem_lap_eps_per_round epsilon rounds := by
    rw [div_le_iff₀ hbpos, hb]
    have h1 := (marginal_release_delta_nbr bounded cell size D D' hnb rd.ax).1
    have e : alpha * mwem_lap_eps_per_round epsilon rounds * ((if bounded = true then (2 : ℝ) else 1) / (alpha * mwem_lap_eps_per_round epsilon rounds))
        = (if bounded = true then (2 : ℝ) else 1) := by
      have := ha0.ne'; have := hepr.ne'
      field_simp
    rw [e]; exact h1
  simp only [mwemLaplaceRound, totalPure, List.map_cons, List.map_nil, List.sum_cons, List.sum_nil, costPure]
  rw [← hepr_eq]
  have hsel' := hsel.trans hE.le
  linarith

/-- **MWEM+PGM (Laplace), end to end**: pure DP, total at most `epsilon`, and no event without a finite pure charge -/
theorem mwem_total_cost_le_budget_laplace (epsilon alpha : ℝ) (rounds : ℕ) (bounded : Bool) (cell : C → R → ℕ) (size : C → ℕ)
    (D D' : List R) (rds : List (MwemRound C)) (heps : 0 < epsilon) (hr : 0 < rounds) (ha0 : 0 < alpha) (ha1 : alpha ≤ 1)
    (hlen : rds.length = rounds) (hnb : Nbr bounded D D') (hsz : ∀ rd ∈ rds, ∀ cl, (rd.xest cl).length = size cl) :
    totalPure (rds.flatMap (mwemLaplaceRound inf fmax epsilon alpha rounds bounded cell size D D')) ≤ epsilon ∧
    ∀ ev ∈ rds.flatMap (mwemLaplaceRound inf fmax epsilon alpha rounds bounded cell size D D'), IsPure ev := by
  have hR : (0 : ℝ) < rounds := by exact_mod_cast hr
  have h := totalPure_flatMap_le rds (mwemLaplaceRound inf fmax epsilon alpha rounds bounded cell size D D') (epsilon / rounds)
    (fun rd hrd => mwem_laplace_round_le inf fmax epsilon alpha rounds bounded cell size D D' rd heps hr ha0 ha1 hnb (hsz rd hrd))
  rw [hlen] at h
  have e : (rounds : ℝ) * (epsilon / rounds) = epsilon := by field_simp
  refine ⟨by linarith, ?_⟩
  intro ev hev
  obtain ⟨rd, _, hev⟩ := List.mem_flatMap.1 hev
  simp only [mwemLaplaceRound, List.mem_cons, List.not_mem_nil, or_false] at hev
  rcases hev with rfl | rfl <;> trivial

/-- both variants in one statement -/
theorem mwem_total_cost_le_budget (budget alpha : ℝ) (rounds : ℕ) (laplace bounded : Bool) (cell : C → R → ℕ) (size : C → ℕ)
    (D D' : List R) (rds : List (MwemRound C)) (hb : 0 < budget) (hr : 0 < rounds) (ha0 : 0 < alpha) (ha1 : alpha ≤ 1)
    (hlen : rds.length = rounds) (hnb : Nbr bounded D D') (hsz : ∀ rd ∈ rds, ∀ cl, (rd.xest cl).length = size cl) :
    if laplace = true then totalPure (rds.flatMap (mwemLaplaceRound inf fmax budget alpha rounds bounded cell size D D')) ≤ budget
    else total (rds.flatMap (mwemGaussRound inf fmax budget alpha rounds bounded cell size D D')) ≤ budget := by
  cases laplace
  · simpa using mwem_total_cost_le_budget_gauss inf fmax budget alpha rounds bounded cell size D D' rds hb hr ha0 ha1 hlen hnb hsz
  · simpa using (mwem_total_cost_le_budget_laplace inf fmax budget alpha rounds bounded cell size D D' rds hb hr ha0 ha1 hlen hnb hsz).1

/-- **outside `0 < alpha ≤ 1` the Laplace variant overspends**: the releases alone, on a record that changes the selected
marginal by the full `trueL1`, cost `alpha · epsilon` — more than `epsilon` for `alpha > 1` (`alpha` is an undocumented
keyword argument of `mwem_pgm`; nothing in the source restricts it) -/
theorem mwem_laplace_alpha_gt_one_overspends (epsilon alpha : ℝ) (rounds : ℕ) (bounded : Bool) (heps : 0 < epsilon)
    (hr : 0 < rounds) (ha1 : 1 < alpha) :
    epsilon < (rounds : ℝ) * costPure (Event.release .laplace
      (mwem_lap_scale (mwem_lap_msens bounded) (mwem_lap_sigma alpha (mwem_lap_eps_per_round epsilon rounds))) (trueL1 bounded)) := by
  have hR : (0 : ℝ) < rounds := by exact_mod_cast hr
  have ha0 : 0 < alpha := by linarith
  have hepr_eq : mwem_lap_eps_per_round epsilon rounds = epsilon / rounds := by
    simp only [mwem_lap_eps_per_round] <;> pgm_arith
  have hepr : 0 < mwem_lap_eps_per_round epsilon rounds := by rw [hepr_eq]; positivity
  have hL : trueL1 bounded / mwem_lap_scale (mwem_lap_msens bounded) (mwem_lap_sigma alpha (mwem_lap_eps_per_round epsilon rounds))
      = alpha * mwem_lap_eps_per_round epsilon rounds := by
    have := ha0.ne'; have := hepr.ne'
    cases bounded <;>
    simp only [trueL1, mwem_lap_scale, mwem_lap_msens, mwem_lap_sigma, Bool.false_eq_true, reduceIte] <;> pgm_arith
  simp only [costPure]
  rw [hL, hepr_eq]
  have e : (rounds : ℝ) * (alpha * (epsilon / rounds)) = alpha * epsilon := by field_simp
  rw [e]
  nlinarith
/-- **every release of MWEM+PGM is at a positive scale** (both noise types), from `0 < budget`, `0 < rounds`, `0 < alpha` -/
theorem mwem_events_scale_pos (budget alpha : ℝ) (rounds : ℕ) (bounded : Bool) (cell : C → R → ℕ) (size : C → ℕ)
    (D D' : List R) (rds : List (MwemRound C)) (hb : 0 < budget) (hr : 0 < rounds) (ha0 : 0 < alpha) :
    (∀ ev ∈ rds.flatMap (mwemGaussRound inf fmax budget alpha rounds bounded cell size D D'), PosScale ev) ∧
    (∀ ev ∈ rds.flatMap (mwemLaplaceRound inf fmax budget alpha rounds bounded cell size D D'), PosScale ev) := by
  have hR : (0 : ℝ) < rounds := by exact_mod_cast hr
  have hms : 0 < mwem_gau_msens bounded := mwem_gau_msens_pos bounded
  have hml : 0 < mwem_lap_msens bounded := by
    cases bounded <;> simp only [mwem_lap_msens, Bool.false_eq_true, reduceIte] <;> norm_num
  constructor
  · intro ev hev
    obtain ⟨rd, _, hev⟩ := List.mem_flatMap.1 hev
    simp only [mwemGaussRound, List.mem_cons, List.not_mem_nil, or_false] at hev
    rcases hev with rfl | rfl
    · trivial
    · show 0 < mwem_gau_scale _ _
      simp only [mwem_gau_scale, mwem_gau_sigma, mwem_rho_per_round]; positivity
  · intro ev hev
    obtain ⟨rd, _, hev⟩ := List.mem_flatMap.1 hev
    simp only [mwemLaplaceRound, List.mem_cons, List.not_mem_nil, or_false] at hev
    rcases hev with rfl | rfl
    · trivial
    · show 0 < mwem_lap_scale _ _
      simp only [mwem_lap_scale, mwem_lap_sigma, mwem_lap_eps_per_round]; positivity
end mwem

/-! ## 5. AIM -/

section aim
variable {C DS R : Type} [DecidableEq C]

/-- what a round of `AIM.run` sees besides the private data and the ledger state: the outcome of the annealing test, the
current model (answer vectors, cell counts, cliques — functions of the earlier noisy outputs), the size limit of the
round, and the outcome `sel` of the draw -/
structure AimRound (C : Type) where
  anneal : Bool
  xest : C → List ℝ
  msize : C → ℝ
  cliques : List C
  size_limit : ℝ
  sel : C

open Classical in
/-- noise scale and selection epsilon of a round that starts in the ledger state `s` (`aim.py:88-95`: re-calibrated to the
remaining budget when the guard fires) — the same expressions `C05.aimStep` books -/
noncomputable def aimRoundParams (rho : ℝ) (s : AimState) : ℝ × ℝ :=
  let last := decide (aim_last_round_guard rho s.rho_used s.sigma s.epsilon)
  let rem := aim_remaining rho s.rho_used
  (if last then aim_sigma_last rem else s.sigma, if last then aim_eps_last rem else s.epsilon)

theorem aimStep_rho_used (rho : ℝ) (s : AimState) (b : Bool) (ht : s.terminated = false) :
    (aimStep rho s b).rho_used = aim_rho_used_step s.rho_used (aimRoundParams rho s).2 (aimRoundParams rho s).1 := by
  simp [aimStep, aimRoundParams, ht]

theorem aimStep_epsilon (rho : ℝ) (s : AimState) (b : Bool) (ht : s.terminated = false) :
    (aimStep rho s b).epsilon = if b then aim_eps_anneal (aimRoundParams rho s).2 else (aimRoundParams rho s).2 := by
  simp [aimStep, aimRoundParams, ht]

theorem aimRoundParams_eps_nonneg (rho : ℝ) (s : AimState) (he : 0 ≤ s.epsilon) : 0 ≤ (aimRoundParams rho s).2 := by
  simp only [aimRoundParams]
  split
  · unfold aim_eps_last; positivity
  · exact he

theorem aimStep_eps_nonneg (rho : ℝ) (s : AimState) (b : Bool) (he : 0 ≤ s.epsilon) : 0 ≤ (aimStep rho s b).epsilon := by
  by_cases ht : s.terminated = true
  · have : aimStep rho s b = s := by simp [aimStep, ht]
    rw [this]; exact he
  · have ht' : s.terminated = false := by simpa using ht
    rw [aimStep_epsilon rho s b ht']
    have h := aimRoundParams_eps_nonneg rho s he
    cases b
    · simpa using h
    · simp only [if_true]
      have e : aim_eps_anneal (aimRoundParams rho s).2 = (aimRoundParams rho s).2 * 2 := by
        simp only [aim_eps_anneal] <;> pgm_arith
      rw [e]; positivity

/-- the events of one round: the generated selection statements of `AIM.run` at the round's epsilon, then the release of
the selected marginal at the round's sigma -/
noncomputable def aimRoundEvents (rho : ℝ) (g : GraphOps C DS ℝ) (cands : List (C × ℝ)) (cell : C → R → ℕ) (size : C → ℕ)
    (D D' : List R) (s : AimState) (rd : AimRound C) : List Event :=
  if s.terminated = true then [] else
  [Event.select (logDist
      (AIM_run_select npR g cands (marg cell size D) rd.xest rd.msize rd.cliques rd.size_limit
        (aim_select_eps (aimRoundParams rho s).2) (aim_select_sigma (aimRoundParams rho s).1)).2.p
      (AIM_run_select npR g cands (marg cell size D') rd.xest rd.msize rd.cliques rd.size_limit
        (aim_select_eps (aimRoundParams rho s).2) (aim_select_sigma (aimRoundParams rho s).1)).2.p),
   Event.release .gauss (aim_noise_scale_round (aimRoundParams rho s).1)
      (l2 (marg cell size D rd.sel) (marg cell size D' rd.sel))]

/-- the `while not terminate` loop: the ledger state evolves by `C05.aimStep` -/
noncomputable def aimLoopEvents (rho : ℝ) (g : GraphOps C DS ℝ) (cands : List (C × ℝ)) (cell : C → R → ℕ) (size : C → ℕ)
    (D D' : List R) : List (AimRound C) → AimState → List Event
  | [], _ => []
  | rd :: rest, s => aimRoundEvents inf fmax rho g cands cell size D D' s rd
      ++ aimLoopEvents rho g cands cell size D D' rest (aimStep rho s rd.anneal)

/-- all events of `AIM.run`: the one-way marginals at the initial sigma, then the loop -/
noncomputable def aimEvents (rho rounds : ℝ) (g : GraphOps C DS ℝ) (cands : List (C × ℝ)) (oneway : List C)
    (cell : C → R → ℕ) (size : C → ℕ) (D D' : List R) (rds : List (AimRound C)) : List Event :=
  oneway.map (fun cl => Event.release .gauss (aim_noise_scale_init (aim_sigma0 rounds rho))
      (l2 (marg cell size D cl) (marg cell size D' cl)))
  ++ aimLoopEvents inf fmax rho g cands cell size D D' rds (aimInit rho rounds (oneway.length : ℕ))

/-- the round produces output: some candidate that passes the size filter has a non-zero weight (otherwise `max` of an
empty sequence raises, resp. the probabilities are NaN), and the model's answer vectors have the marginals' sizes -/
def AimRoundOK (g : GraphOps C DS ℝ) (cands : List (C × ℝ)) (size : C → ℕ) (rd : AimRound C) : Prop :=
  (∃ cl ∈ dictKeys (aim_filter_candidates npR g cands rd.xest rd.msize rd.cliques rd.size_limit),
      dictGet (aim_filter_candidates npR g cands rd.xest rd.msize rd.cliques rd.size_limit) cl ≠ 0) ∧
  ∀ cl, (rd.xest cl).length = size cl

/-- **a round's actual cost is at most what the ledger variable `rho_used` is incremented by** -/
theorem aim_round_le (rho : ℝ) (g : GraphOps C DS ℝ) (cands : List (C × ℝ)) (cell : C → R → ℕ) (size : C → ℕ)
    (D D' : List R) (s : AimState) (rd : AimRound C) (he : 0 ≤ s.epsilon) (hnb : AddRemove D D')
    (hok : AimRoundOK inf fmax g cands size rd) :
    total (aimRoundEvents inf fmax rho g cands cell size D D' s rd) ≤ (aimStep rho s rd.anneal).rho_used - s.rho_used := by
  by_cases ht : s.terminated = true
  · have : aimStep rho s rd.anneal = s := by simp [aimStep, ht]
    rw [this]
    simp [aimRoundEvents, ht, total]
  · have ht' : s.terminated = false := by simpa using ht
    rw [aimStep_rho_used rho s rd.anneal ht', aim_ledger_matches]
    have hε := aimRoundParams_eps_nonneg rho s he
    simp only [aimRoundEvents, ht', Bool.false_eq_true, if_false, total, List.map_cons, List.map_nil, List.sum_cons, List.sum_nil, cost]
    generalize (aimRoundParams rho s).2 = eps at hε ⊢
    generalize (aimRoundParams rho s).1 = sigma
    have e1 : aim_select_eps eps = eps := by simp only [aim_select_eps]
    have hclose := aim_run_selection_cost inf fmax g cands (marg cell size D) (marg cell size D') rd.xest rd.msize rd.cliques
      rd.size_limit (aim_select_eps eps) (aim_select_sigma sigma) (by rw [e1]; exact hε) hok.1
      (fun cl => ⟨by rw [marg_length, hok.2], by rw [marg_length, hok.2]⟩)
      (fun cl => (marginal_release_delta cell size D D' hnb cl).1)
    have hsel := selectCost_logDist_le (by rw [e1]; exact hε) hclose
    have hrel := gaussCost_l2_le (marg cell size D rd.sel) (marg cell size D' rd.sel) (aim_noise_scale_round sigma) 1
      (marginal_release_delta cell size D D' hnb rd.sel).2.1
    have hcost : aimRoundCost sigma eps = 1 / (2 * aim_noise_scale_round sigma ^ 2) + aim_select_eps eps ^ 2 / 8 := by
      simp only [aimRoundCost, gaussCost, selectCost, realisedEps] <;> pgm_arith
    rw [hcost]
    linarith

/-- the loop, for every sequence of rounds: actual cost at most the increase of `rho_used` -/
theorem aim_loop_le (rho : ℝ) (g : GraphOps C DS ℝ) (cands : List (C × ℝ)) (cell : C → R → ℕ) (size : C → ℕ)
    (D D' : List R) (rds : List (AimRound C)) (s : AimState) (he : 0 ≤ s.epsilon) (hnb : AddRemove D D')
    (hok : ∀ rd ∈ rds, AimRoundOK inf fmax g cands size rd) :
    total (aimLoopEvents inf fmax rho g cands cell size D D' rds s)
      ≤ ((rds.map AimRound.anneal).foldl (aimStep rho) s).rho_used - s.rho_used := by
  induction rds generalizing s with
  | nil => simp [aimLoopEvents, total]
  | cons rd rest ih =>
    simp only [aimLoopEvents, List.map_cons, List.foldl_cons]
    rw [total_append]
    have h1 := aim_round_le inf fmax rho g cands cell size D D' s rd he hnb (hok rd (List.mem_cons_self ..))
    have h2 := ih (aimStep rho s rd.anneal) (aimStep_eps_nonneg rho s rd.anneal he)
      (fun r hr => hok r (List.mem_cons_of_mem _ hr))
    linarith

/-- **AIM, end to end**: for every sequence of rounds (annealing outcomes, models, size limits, draws), on neighbouring
datasets, the actual changes of the one-way releases, of every selection and of every round's release cost at most `rho`
— under the STRICT `0.9·#oneway < rounds`.  (`C05.aim_budget` needs only `≤`; but at equality `rho_used = rho` after the
one-way releases, the first round re-calibrates to `sigma = sqrt(1/(2·0.9·0))` — the real code raises ZeroDivisionError — and
the ledger would charge that release `cost (.release .gauss 0 Δ) = 0`, `cost_zero_scale`.  Under the strict form every event
summed here has a positive scale: `aim_events_scale_pos`.) -/
theorem aim_total_cost_le_rho (rho rounds : ℝ) (g : GraphOps C DS ℝ) (cands : List (C × ℝ)) (oneway : List C)
    (cell : C → R → ℕ) (size : C → ℕ) (D D' : List R) (rds : List (AimRound C))
    (hrho : 0 < rho) (hrounds : 0 < rounds) (hfit : 0.9 * ((oneway.length : ℕ) : ℝ) < rounds) (hnb : AddRemove D D')
    (hok : ∀ rd ∈ rds, AimRoundOK inf fmax g cands size rd) :
    total (aimEvents inf fmax rho rounds g cands oneway cell size D D' rds) ≤ rho := by
  unfold aimEvents
  rw [total_append]
  have hinit : total (oneway.map (fun cl => Event.release .gauss (aim_noise_scale_init (aim_sigma0 rounds rho))
      (l2 (marg cell size D cl) (marg cell size D' cl)))) ≤ (aimInit rho rounds (oneway.length : ℕ)).rho_used := by
    rw [aim_init_matches]
    unfold total
    rw [List.map_map]
    refine le_trans (sum_le_length_mul oneway _ (gaussCost 1 (aim_noise_scale_init (aim_sigma0 rounds rho))) ?_) le_rfl
    intro cl _
    simp only [Function.comp, cost]
    have := gaussCost_l2_le (marg cell size D cl) (marg cell size D' cl) (aim_noise_scale_init (aim_sigma0 rounds rho)) 1
      (marginal_release_delta cell size D D' hnb cl).2.1
    simpa [gaussCost] using this
  have he0 : 0 ≤ (aimInit rho rounds (oneway.length : ℕ)).epsilon := by
    simp only [aimInit]; unfold aim_eps0; positivity
  have hloop := aim_loop_le inf fmax rho g cands cell size D D' rds (aimInit rho rounds (oneway.length : ℕ)) he0 hnb hok
  have hbud := aim_budget rho rounds oneway.length (rds.map AimRound.anneal) hrho hrounds hfit.le
  linarith
end aim

/-- **`0.9·#oneway ≤ rounds` is necessary**: with more one-way marginals the initial releases alone, on a record that
moves every one-way marginal by 1, cost more than `rho` (the real code then computes a negative remaining budget, a NaN
scale, and raises before producing output — executed by the check) -/
theorem aim_oneway_exceeds (rho rounds : ℝ) (n : ℕ) (hrho : 0 < rho) (hrounds : 0 < rounds) (hfit : rounds < 0.9 * (n : ℝ)) :
    rho < (n : ℝ) * cost (Event.release .gauss (aim_noise_scale_init (aim_sigma0 rounds rho)) 1) := by
  have hG : ∀ σ, gaussCost 1 (aim_noise_scale_init σ) = 1 / (2 * σ ^ 2) := by
    intro σ
    simp only [gaussCost, aim_noise_scale_init] <;> pgm_arith
  simp only [cost]
  rw [hG, aim_sigma0_sq rounds rho hrho hrounds]
  have e : (n : ℝ) * (1 / (2 * (rounds / (1.8 * rho)))) = 0.9 * n * rho / rounds := by
    pgm_arith
  rw [e, lt_div_iff₀ hrounds]
  nlinarith [mul_lt_mul_of_pos_right hfit hrho]

/-- the noise scale is positive and, while the loop runs, budget is left -/
def AimPos (rho : ℝ) (s : AimState) : Prop := 0 < s.sigma ∧ (s.terminated = false → s.rho_used < rho)

theorem aimRoundParams_sigma_pos (rho : ℝ) (s : AimState) (h : AimPos rho s) (ht : s.terminated = false) :
    0 < (aimRoundParams rho s).1 := by
  simp only [aimRoundParams]
  split
  · have hrem : aim_remaining rho s.rho_used = rho - s.rho_used := by simp only [aim_remaining] <;> pgm_arith
    have hpos : 0 < rho - s.rho_used := by have := h.2 ht; linarith
    rw [hrem]
    generalize rho - s.rho_used = r at hpos
    unfold aim_sigma_last; positivity
  · exact h.1

theorem aimPos_step (rho : ℝ) (s : AimState) (b : Bool) (h : AimPos rho s) : AimPos rho (aimStep rho s b) := by
  by_cases ht : s.terminated = true
  · have : aimStep rho s b = s := by simp [aimStep, ht]
    rw [this]; exact h
  · have ht' : s.terminated = false := by simpa using ht
    have hσ := aimRoundParams_sigma_pos rho s h ht'
    have hsig : (aimStep rho s b).sigma = if b then aim_sigma_anneal (aimRoundParams rho s).1 else (aimRoundParams rho s).1 := by
      simp [aimStep, aimRoundParams, ht']
    refine ⟨?_, ?_⟩
    · rw [hsig]
      cases b
      · simpa using hσ
      · simp only [if_true]
        have e : aim_sigma_anneal (aimRoundParams rho s).1 = (aimRoundParams rho s).1 / 2 := by
          simp only [aim_sigma_anneal] <;> pgm_arith
        rw [e]; positivity
    · intro hT
      have hg : ¬ aim_last_round_guard rho s.rho_used s.sigma s.epsilon := by
        intro hg
        simp [aimStep, ht', hg] at hT
      have hp : aimRoundParams rho s = (s.sigma, s.epsilon) := by simp [aimRoundParams, hg]
      rw [aimStep_rho_used rho s b ht', aim_ledger_matches, hp]
      have hg' := (not_congr (aim_guard_iff rho s.rho_used s.sigma s.epsilon)).mp hg
      rw [not_lt] at hg'
      have hc : 0 < aimRoundCost s.sigma s.epsilon := by
        rw [aimRoundCost_eq]; have := h.1; positivity
      simp only
      linarith

theorem aimPos_init (rho rounds : ℝ) (n : ℕ) (hrho : 0 < rho) (hrounds : 0 < rounds) (hfit : 0.9 * (n : ℝ) < rounds) :
    AimPos rho (aimInit rho rounds n) := by
  refine ⟨by simp only [aimInit]; unfold aim_sigma0; positivity, fun _ => ?_⟩
  rw [aim_init_matches]
  have hG : ∀ σ, gaussCost 1 (aim_noise_scale_init σ) = 1 / (2 * σ ^ 2) := by
    intro σ
    simp only [gaussCost, aim_noise_scale_init] <;> pgm_arith
  rw [hG, aim_sigma0_sq rounds rho hrho hrounds]
  have e : (n : ℝ) * (1 / (2 * (rounds / (1.8 * rho)))) = 0.9 * n * rho / rounds := by
    pgm_arith
  rw [e, div_lt_iff₀ hrounds]
  nlinarith [mul_lt_mul_of_pos_right hfit hrho]

/-- **every round AIM executes samples at a positive scale** (so the charge `Δ²/(2σ²)` is a genuine finite charge), for
every annealing history, under the strict `0.9·#oneway < rounds`; at equality the first round's remaining budget is 0 and
the real code divides by zero -/
theorem aim_round_sigma_pos (rho rounds : ℝ) (n : ℕ) (outcomes : List Bool) (hrho : 0 < rho) (hrounds : 0 < rounds)
    (hfit : 0.9 * (n : ℝ) < rounds)
    (ht : (outcomes.foldl (aimStep rho) (aimInit rho rounds n)).terminated = false) :
    0 < (aimRoundParams rho (outcomes.foldl (aimStep rho) (aimInit rho rounds n))).1 :=
  aimRoundParams_sigma_pos rho _
    (foldl_inv (AimPos rho) (aimStep rho) outcomes _ (aimPos_init rho rounds n hrho hrounds hfit) (fun s b h => aimPos_step rho s b h)) ht

section aimpos
variable {C DS R : Type} [DecidableEq C]

theorem aimLoopEvents_scale_pos (rho : ℝ) (g : GraphOps C DS ℝ) (cands : List (C × ℝ)) (cell : C → R → ℕ) (size : C → ℕ)
    (D D' : List R) (rds : List (AimRound C)) (s : AimState) (h : AimPos rho s) :
    ∀ ev ∈ aimLoopEvents inf fmax rho g cands cell size D D' rds s, PosScale ev := by
  induction rds generalizing s with
  | nil => intro ev hev; simp [aimLoopEvents] at hev
  | cons rd rest ih =>
    intro ev hev
    simp only [aimLoopEvents, List.mem_append] at hev
    rcases hev with hev | hev
    · unfold aimRoundEvents at hev
      by_cases ht : s.terminated = true
      · simp [ht] at hev
      · have ht' : s.terminated = false := by simpa using ht
        rw [if_neg ht] at hev
        simp only [List.mem_cons, List.not_mem_nil, or_false] at hev
        rcases hev with rfl | rfl
        · trivial
        · show 0 < aim_noise_scale_round _
          simp only [aim_noise_scale_round]
          exact aimRoundParams_sigma_pos rho s h ht'
    · exact ih _ (aimPos_step rho s rd.anneal h) ev hev

/-- **every release event of `AIM.run` that `aim_total_cost_le_rho` sums is at a positive scale**, under the same strict
`0.9·#oneway < rounds` (for every sequence of rounds) — so no charge in that sum is a division by zero -/
theorem aim_events_scale_pos (rho rounds : ℝ) (g : GraphOps C DS ℝ) (cands : List (C × ℝ)) (oneway : List C)
    (cell : C → R → ℕ) (size : C → ℕ) (D D' : List R) (rds : List (AimRound C))
    (hrho : 0 < rho) (hrounds : 0 < rounds) (hfit : 0.9 * ((oneway.length : ℕ) : ℝ) < rounds) :
    ∀ ev ∈ aimEvents inf fmax rho rounds g cands oneway cell size D D' rds, PosScale ev := by
  intro ev hev
  unfold aimEvents at hev
  rcases List.mem_append.1 hev with hev | hev
  · obtain ⟨cl, _, rfl⟩ := List.mem_map.1 hev
    show 0 < aim_noise_scale_init _
    simp only [aim_noise_scale_init]; unfold aim_sigma0; positivity
  · exact aimLoopEvents_scale_pos inf fmax rho g cands cell size D D' rds _
      (aimPos_init rho rounds oneway.length hrho hrounds hfit) ev hev

/-- the boundary excluded by the strict hypothesis: with `rho_used = rho` the re-calibrated scale is 0 and the charge is 0 -/
theorem aim_boundary_scale_zero (rho Δ : ℝ) :
    aim_noise_scale_round (aim_sigma_last (aim_remaining rho rho)) = 0 ∧
    cost (.release .gauss (aim_noise_scale_round (aim_sigma_last (aim_remaining rho rho))) Δ) = 0 := by
  constructor <;> simp [cost, gaussCost, aim_noise_scale_round, aim_sigma_last, aim_remaining]
end aimpos

/-! ## 6. Adaptive Grid -/

section ada
variable {A DS R : Type} [DecidableEq A] [Inhabited A]

/-- one record more in cell `j` moves `Q @ mu` by at most 1 in L2 when `Q` has column norms ≤ 1 (any `j`) -/
theorem sqDist_apply_unit_le (Q : AdaGrid.Mat ℝ) (hQ : ∀ j, AdaGrid.colSq Q j ≤ 1) (mu : List ℝ) (j : ℕ) :
    sqDist (AdaGrid.apply Q (mu.set j (mu.getD j 0 + 1))) (AdaGrid.apply Q mu) ≤ 1 := by
  by_cases hj : j < mu.length
  · rw [AdaGridSens.sqDist_apply_add_unit Q mu j hj]; exact hQ j
  · rw [List.set_eq_of_length_le (by omega), sqDist_self]; norm_num

/-- **the released statistic `Q @ mu` of a matrix with column norms ≤ 1 moves by at most 1 in L2** between datasets
differing by one added / removed record -/
theorem ada_release_delta {C : Type} (Q : AdaGrid.Mat ℝ) (hQ : ∀ j, AdaGrid.colSq Q j ≤ 1) (cell : C → R → ℕ) (size : C → ℕ)
    (D D' : List R) (h : AddRemove D D') (c : C) :
    sqDist (AdaGrid.apply Q (marg cell size D c)) (AdaGrid.apply Q (marg cell size D' c)) ≤ 1 := by
  obtain ⟨r, h | h⟩ := h
  · rw [marg_cons cell size D D' r h c, sqDist_comm, countVec_cons_set]
    exact sqDist_apply_unit_le Q hQ _ _
  · rw [marg_cons cell size D' D r h c, countVec_cons_set]
    exact sqDist_apply_unit_le Q hQ _ _

theorem ada_loop2_length (g : GraphOps A DS ℝ) (x : List A → List ℝ) (attrs : List A)
    (xest : List A → List ℝ) (size : List A → ℝ) (mcl : List (List A)) (rho : ℝ) (targets : List A) (draws : ℕ → ℕ)
    (weights : List ((A × A) × ℝ)) (epsilon : ℝ) (l : List ℕ)
    (st : List (A × A) × (List A × List (A × A)) × DS × List (Draw ℝ)) :
    (l.foldl (ada_select_loop2 npR g x attrs xest size mcl rho targets draws weights epsilon) st).2.2.2.length
        = st.2.2.2.length + l.length ∧
    (l.foldl (ada_select_loop2 npR g x attrs xest size mcl rho targets draws weights epsilon) st).2.1.2.length
        = st.2.1.2.length + l.length := by
  induction l generalizing st with
  | nil => simp
  | cons i l ih =>
    rw [List.foldl_cons]
    obtain ⟨h1, h2⟩ := ih (ada_select_loop2 npR g x attrs xest size mcl rho targets draws weights epsilon st i)
    rw [h1, h2, gen_ada_loop2]
    simp only [List.length_append, List.length_cons, List.length_nil]
    omega

/-- `select` makes exactly `r − 1` draws and returns `r − 1` cliques, `r = #attributes − #targets` -/
theorem ada_select_lengths (g : GraphOps A DS ℝ) (x : List A → List ℝ) (attrs : List A)
    (xest : List A → List ℝ) (size : List A → ℝ) (mcl : List (List A)) (rho : ℝ) (targets : List A) (draws : ℕ → ℕ) :
    (ada_select npR g x attrs xest size mcl rho targets draws).2.length
        = (((attrs.length : ℕ) : ℤ) - ((targets.length : ℕ) : ℤ) - 1).toNat ∧
    (ada_select npR g x attrs xest size mcl rho targets draws).1.length
        = (((attrs.length : ℕ) : ℤ) - ((targets.length : ℕ) : ℤ) - 1).toNat := by
  have h := ada_loop2_length inf fmax g x attrs xest size mcl rho targets draws
    (ada_select_weights npR g x attrs xest size mcl rho targets draws)
    (ada_select_epsilon npR g x attrs xest size mcl rho targets draws)
    (List.range ((((attrs.length : ℕ) : ℤ) - ((targets.length : ℕ) : ℤ) - 1).toNat))
    (comb2 (attrs.filter (fun a => !(decide (a ∈ targets)))), ([] ++ attrs, []), g.ds_empty, [])
  simp only [List.length_nil, List.length_range, Nat.zero_add] at h
  refine ⟨h.1, ?_⟩
  have h2 := h.2
  show (List.map _ _).length = _
  rw [List.length_map]
  exact h2

/-- the events of one run of `adagrid` on `D`, replayed on `D'` with the same random outcomes:
* step 1: the cliques `step1` at `ada_step1_scale (ada_step1_sigma rho1 n1)`, statistic `matrices[cl] @ mu`;
* step 2: the transcripts of the generated `ada_select_call`;
* step 3: the cliques `select` returned, at `ada_step3_scale (ada_step3_sigma (number of those cliques) rho3)`. -/
noncomputable def adaEvents (rho1 rho2 rho3 : ℝ) (g : GraphOps A DS ℝ) (n1 : ℕ) (step1 : List (List A))
    (matrices : List A → AdaGrid.Mat ℝ) (cell : List A → R → ℕ) (size : List A → ℕ) (attrs targets : List A)
    (xest : List A → List ℝ) (msize : List A → ℝ) (mcl : List (List A)) (draws : ℕ → ℕ) (D D' : List R) : List Event :=
  step1.map (fun cl => Event.release .gauss (ada_step1_scale (ada_step1_sigma rho1 n1))
      (l2 (AdaGrid.apply (matrices cl) (marg cell size D cl)) (AdaGrid.apply (matrices cl) (marg cell size D' cl))))
  ++ List.zipWith (fun d d' => Event.select (logDist d.p d'.p))
      (ada_select_call npR g (marg cell size D) attrs xest msize mcl rho2 targets draws).2
      (ada_select_call npR g (marg cell size D') attrs xest msize mcl rho2 targets draws).2
  ++ (ada_select_call npR g (marg cell size D) attrs xest msize mcl rho2 targets draws).1.map (fun cl =>
      Event.release .gauss (ada_step3_scale (ada_step3_sigma
          (((ada_select_call npR g (marg cell size D) attrs xest msize mcl rho2 targets draws).1.length : ℕ) : ℝ) rho3))
        (l2 (AdaGrid.apply (matrices cl) (marg cell size D cl)) (AdaGrid.apply (matrices cl) (marg cell size D' cl))))

/-- `k` releases of statistics moving by at most 1, at a scale with `σ² = n/(2ρ)`, `k ≤ n`: at most `ρ` -/
theorem ada_release_phase_le {C : Type} (cls : List C) (scale rho : ℝ) (n : ℕ) (x x' : C → List ℝ) (hrho : 0 < rho)
    (hk : cls.length ≤ n) (hscale : 0 < n → scale ^ 2 = (n : ℝ) / (2 * rho)) (hnb : ∀ c, sqDist (x c) (x' c) ≤ 1) :
    total (cls.map (fun cl => Event.release .gauss scale (l2 (x cl) (x' cl)))) ≤ rho := by
  unfold total
  rw [List.map_map]
  by_cases h0 : cls.length = 0
  · rw [List.length_eq_zero_iff.1 h0]; simp; exact hrho.le
  · have hn : 0 < n := by omega
    have hN : (0 : ℝ) < n := by exact_mod_cast hn
    refine le_trans (sum_le_length_mul cls _ (1 / (2 * scale ^ 2)) ?_) ?_
    · intro cl _
      simp only [Function.comp, cost]
      exact gaussCost_l2_le (x cl) (x' cl) scale 1 (hnb cl)
    · rw [hscale hn]
      have hkR : (cls.length : ℝ) ≤ n := by exact_mod_cast hk
      have e : (1 : ℝ) / (2 * ((n : ℝ) / (2 * rho))) = rho / n := by field_simp
      rw [e]
      calc (cls.length : ℝ) * (rho / n) ≤ (n : ℝ) * (rho / n) := mul_le_mul_of_nonneg_right hkR (by positivity)
        _ = rho := by field_simp

/-- the selection phase alone: at most `rho2` -/
theorem ada_select_phase_le (rho2 : ℝ) (g : GraphOps A DS ℝ) (x x' : List A → List ℝ) (attrs targets : List A)
    (xest : List A → List ℝ) (msize : List A → ℝ) (mcl : List (List A)) (draws : ℕ → ℕ) (hrho : 0 < rho2)
    (hinf : ada_select_eps (ada_select_rho rho2) ((attrs.length : ℝ) - (targets.length : ℝ)) ≠ inf)
    (hlen : ∀ c, (x c).length = (xest c).length ∧ (x' c).length = (xest c).length)
    (hnb : ∀ c, l1 (x c) (x' c) ≤ 1) :
    total (List.zipWith (fun d d' => Event.select (logDist d.p d'.p))
      (ada_select_call npR g x attrs xest msize mcl rho2 targets draws).2
      (ada_select_call npR g x' attrs xest msize mcl rho2 targets draws).2) ≤ rho2 := by
  rw [gen_ada_select_call, gen_ada_select_call]
  have er : ada_select_rho rho2 = rho2 := by simp only [ada_select_rho]
  have hinf' : ada_select_epsilon npR g x attrs xest msize mcl rho2 targets draws ≠ inf := by
    rw [gen_ada_epsilon, ← er]; exact hinf
  have hc := (ada_select_cost inf fmax g x x' attrs xest msize mcl rho2 targets draws hinf' hlen hnb).2
  have hε := ada_select_epsilon_nonneg inf fmax g x attrs xest msize mcl rho2 targets draws
  unfold total
  rw [List.map_zipWith]
  have hsum := sum_zipWith_le_of_forall₂ (DrawClose (ada_select_epsilon npR g x attrs xest msize mcl rho2 targets draws))
    (fun d d' => cost (Event.select (logDist d.p d'.p)))
    ((ada_select_epsilon npR g x attrs xest msize mcl rho2 targets draws) ^ 2 / 8) _ _ hc
    (fun d d' hdd => selectCost_logDist_le hε hdd.2)
  refine le_trans hsum ?_
  rw [(ada_select_lengths inf fmax g x attrs xest msize mcl rho2 targets draws).1, gen_ada_epsilon, ← er]
  generalize attrs.length = n
  generalize targets.length = t
  by_cases hr : (2 : ℤ) ≤ (n : ℤ) - (t : ℤ)
  · have hr1 : (0 : ℝ) < ((n : ℝ) - (t : ℝ)) - 1 := by
      have : ((2 : ℤ) : ℝ) ≤ (((n : ℤ) - (t : ℤ) : ℤ) : ℝ) := by exact_mod_cast hr
      push_cast at this; linarith
    have hk : (((((n : ℤ) - (t : ℤ) - 1).toNat : ℕ)) : ℝ) = (n : ℝ) - (t : ℝ) - 1 := by
      have h1 : ((((n : ℤ) - (t : ℤ) - 1).toNat : ℕ) : ℤ) = (n : ℤ) - (t : ℤ) - 1 := Int.toNat_of_nonneg (by omega)
      have h2 : (((((n : ℤ) - (t : ℤ) - 1).toNat : ℕ)) : ℝ) = ((((((n : ℤ) - (t : ℤ) - 1).toNat : ℕ)) : ℤ) : ℝ) := by push_cast; rfl
      rw [h2, h1]; push_cast; ring
    rw [hk, ada_select_eps_sq rho2 _ hrho hr1, er]
    apply le_of_eq
    field_simp
  · have hk : ((n : ℤ) - (t : ℤ) - 1).toNat = 0 := by omega
    rw [hk]
    simp only [Nat.cast_zero, zero_mul]
    exact hrho.le

/-- **Adaptive Grid, end to end, for given step budgets**: `History hist` — the dictionary `matrices` was filled as the
mechanism does (`C05B`), whatever the data-dependent selections of cells were -/
theorem ada_total_cost_le_steps (rho1 rho2 rho3 : ℝ) (g : GraphOps A DS ℝ) (n1 : ℕ) (step1 : List (List A))
    (matrices : List A → AdaGrid.Mat ℝ) (hist : List (AdaGrid.Mat ℝ)) (cell : List A → R → ℕ) (size : List A → ℕ)
    (attrs targets : List A) (xest : List A → List ℝ) (msize : List A → ℝ) (mcl : List (List A)) (draws : ℕ → ℕ)
    (D D' : List R) (h1 : 0 < rho1) (h2 : 0 < rho2) (h3 : 0 < rho3) (hnb : AddRemove D D')
    (hn1 : step1.length ≤ n1) (hhist : History hist) (hmat : ∀ cl, matrices cl ∈ hist)
    (hinf : ada_select_eps (ada_select_rho rho2) ((attrs.length : ℝ) - (targets.length : ℝ)) ≠ inf)
    (hsz : ∀ c, (xest c).length = size c) :
    total (adaEvents inf fmax rho1 rho2 rho3 g n1 step1 matrices cell size attrs targets xest msize mcl draws D D')
      ≤ rho1 + rho2 + rho3 := by
  have hQ : ∀ cl, sqDist (AdaGrid.apply (matrices cl) (marg cell size D cl)) (AdaGrid.apply (matrices cl) (marg cell size D' cl)) ≤ 1 :=
    fun cl => ada_release_delta (matrices cl) (adagrid_history_sensitivity hhist _ (hmat cl)) cell size D D' hnb cl
  have e1 := ada_release_phase_le step1 (ada_step1_scale (ada_step1_sigma rho1 n1)) rho1 n1
    (fun cl => AdaGrid.apply (matrices cl) (marg cell size D cl)) (fun cl => AdaGrid.apply (matrices cl) (marg cell size D' cl))
    h1 hn1 (fun hn => by
      have hN : (0 : ℝ) < n1 := by exact_mod_cast hn
      have : ada_step1_scale (ada_step1_sigma rho1 n1) = ada_step1_sigma rho1 n1 := by simp only [ada_step1_scale]
      rw [this, ada_step1_sigma_sq rho1 n1 h1 hN]) hQ
  have e3 := ada_release_phase_le (ada_select_call npR g (marg cell size D) attrs xest msize mcl rho2 targets draws).1
    (ada_step3_scale (ada_step3_sigma
      (((ada_select_call npR g (marg cell size D) attrs xest msize mcl rho2 targets draws).1.length : ℕ) : ℝ) rho3)) rho3
    (ada_select_call npR g (marg cell size D) attrs xest msize mcl rho2 targets draws).1.length
    (fun cl => AdaGrid.apply (matrices cl) (marg cell size D cl)) (fun cl => AdaGrid.apply (matrices cl) (marg cell size D' cl))
    h3 le_rfl (fun hn => by
      have hN : (0 : ℝ) < ((ada_select_call npR g (marg cell size D) attrs xest msize mcl rho2 targets draws).1.length : ℕ) := by
        exact_mod_cast hn
      have : ∀ s, ada_step3_scale s = s := by intro s; simp only [ada_step3_scale]
      rw [this, ada_step3_sigma_sq _ rho3 h3 hN]) hQ
  have e2 := ada_select_phase_le inf fmax rho2 g (marg cell size D) (marg cell size D') attrs targets xest msize mcl draws h2 hinf
    (fun c => ⟨by rw [marg_length, hsz], by rw [marg_length, hsz]⟩)
    (fun c => (marginal_release_delta cell size D D' hnb c).1)
  unfold adaEvents
  rw [total_append, total_append]
  linarith

/-- **Adaptive Grid, end to end, default split** (`rho/3` each) -/
theorem ada_total_cost_le_rho (rho : ℝ) (g : GraphOps A DS ℝ) (n1 : ℕ) (step1 : List (List A))
    (matrices : List A → AdaGrid.Mat ℝ) (hist : List (AdaGrid.Mat ℝ)) (cell : List A → R → ℕ) (size : List A → ℕ)
    (attrs targets : List A) (xest : List A → List ℝ) (msize : List A → ℝ) (mcl : List (List A)) (draws : ℕ → ℕ)
    (D D' : List R) (hrho : 0 < rho) (hnb : AddRemove D D')
    (hn1 : step1.length ≤ n1) (hhist : History hist) (hmat : ∀ cl, matrices cl ∈ hist)
    (hinf : ada_select_eps (ada_select_rho (ada_rho_step2_default rho)) ((attrs.length : ℝ) - (targets.length : ℝ)) ≠ inf)
    (hsz : ∀ c, (xest c).length = size c) :
    total (adaEvents inf fmax (ada_rho_step_default rho) (ada_rho_step2_default rho) (ada_rho_step3_default rho) g n1 step1
      matrices cell size attrs targets xest msize mcl draws D D') ≤ rho := by
  have e1 : ada_rho_step_default rho = rho / 3 := by simp only [ada_rho_step_default] <;> pgm_arith
  have e2 : ada_rho_step2_default rho = rho / 3 := by simp only [ada_rho_step2_default] <;> pgm_arith
  have e3 : ada_rho_step3_default rho = rho / 3 := by simp only [ada_rho_step3_default] <;> pgm_arith
  have hpos : 0 < rho / 3 := by positivity
  have h := ada_total_cost_le_steps inf fmax (ada_rho_step_default rho) (ada_rho_step2_default rho) (ada_rho_step3_default rho)
    g n1 step1 matrices hist cell size attrs targets xest msize mcl draws D D' (by rw [e1]; exact hpos) (by rw [e2]; exact hpos)
    (by rw [e3]; exact hpos) hnb hn1 hhist hmat hinf hsz
  rw [e1, e2, e3] at h ⊢
  linarith

/-- … and with a split strategy (fractions normalised to sum 1 by the code) -/
theorem ada_total_cost_le_rho_split (rho f1 f2 f3 : ℝ) (g : GraphOps A DS ℝ) (n1 : ℕ) (step1 : List (List A))
    (matrices : List A → AdaGrid.Mat ℝ) (hist : List (AdaGrid.Mat ℝ)) (cell : List A → R → ℕ) (size : List A → ℕ)
    (attrs targets : List A) (xest : List A → List ℝ) (msize : List A → ℝ) (mcl : List (List A)) (draws : ℕ → ℕ)
    (D D' : List R) (hrho : 0 < rho) (hf1 : 0 < f1) (hf2 : 0 < f2) (hf3 : 0 < f3) (hsum : f1 + f2 + f3 = 1)
    (hnb : AddRemove D D') (hn1 : step1.length ≤ n1) (hhist : History hist) (hmat : ∀ cl, matrices cl ∈ hist)
    (hinf : ada_select_eps (ada_select_rho (ada_rho_step2_split rho f2)) ((attrs.length : ℝ) - (targets.length : ℝ)) ≠ inf)
    (hsz : ∀ c, (xest c).length = size c) :
    total (adaEvents inf fmax (ada_rho_step1_split rho f1) (ada_rho_step2_split rho f2) (ada_rho_step3_split rho f3) g n1 step1
      matrices cell size attrs targets xest msize mcl draws D D') ≤ rho := by
  have e1 : ada_rho_step1_split rho f1 = rho * f1 := by simp only [ada_rho_step1_split] <;> pgm_arith
  have e2 : ada_rho_step2_split rho f2 = rho * f2 := by simp only [ada_rho_step2_split] <;> pgm_arith
  have e3 : ada_rho_step3_split rho f3 = rho * f3 := by simp only [ada_rho_step3_split] <;> pgm_arith
  have h := ada_total_cost_le_steps inf fmax (ada_rho_step1_split rho f1) (ada_rho_step2_split rho f2) (ada_rho_step3_split rho f3)
    g n1 step1 matrices hist cell size attrs targets xest msize mcl draws D D' (by rw [e1]; positivity) (by rw [e2]; positivity)
    (by rw [e3]; positivity) hnb hn1 hhist hmat hinf hsz
  have : rho * f1 + rho * f2 + rho * f3 = rho := by rw [← mul_add, ← mul_add, hsum, mul_one]
  rw [e1, e2, e3] at h ⊢
  linarith
/-- **every release of Adaptive Grid is at a positive scale**, from `0 < rho1`, `0 < rho3`, `#step1 ≤ n1` (hypotheses of
`ada_total_cost_le_steps`): a step-1 / step-3 event exists only if its list is non-empty -/
theorem ada_events_scale_pos (rho1 rho2 rho3 : ℝ) (g : GraphOps A DS ℝ) (n1 : ℕ) (step1 : List (List A))
    (matrices : List A → AdaGrid.Mat ℝ) (cell : List A → R → ℕ) (size : List A → ℕ)
    (attrs targets : List A) (xest : List A → List ℝ) (msize : List A → ℝ) (mcl : List (List A)) (draws : ℕ → ℕ)
    (D D' : List R) (h1 : 0 < rho1) (h3 : 0 < rho3) (hn1 : step1.length ≤ n1) :
    ∀ ev ∈ adaEvents inf fmax rho1 rho2 rho3 g n1 step1 matrices cell size attrs targets xest msize mcl draws D D',
      PosScale ev := by
  intro ev hev
  unfold adaEvents at hev
  rcases List.mem_append.1 hev with hev | hev
  · rcases List.mem_append.1 hev with hev | hev
    · obtain ⟨cl, hcl, rfl⟩ := List.mem_map.1 hev
      have hpos : (0 : ℝ) < n1 := by
        have : 0 < step1.length := List.length_pos_of_mem hcl
        exact_mod_cast lt_of_lt_of_le this hn1
      show 0 < ada_step1_scale _
      simp only [ada_step1_scale, ada_step1_sigma]; positivity
    · obtain ⟨i, hi, rfl⟩ := List.getElem_of_mem hev
      simp only [List.getElem_zipWith]; trivial
  · obtain ⟨cl, hcl, rfl⟩ := List.mem_map.1 hev
    have hpos : (0 : ℝ) < ((ada_select_call npR g (marg cell size D) attrs xest msize mcl rho2 targets draws).1.length : ℕ) := by
      exact_mod_cast List.length_pos_of_mem hcl
    show 0 < ada_step3_scale _
    simp only [ada_step3_scale, ada_step3_sigma]; positivity
end ada

/-! ## 7. the hypotheses are satisfiable (each end-to-end theorem applied to a concrete run) -/

section examples

/-- library stub: union-find that never connects, `r = #attributes`, models of size 0, `downward_closure = id` -/
noncomputable def exG : GraphOps ℕ Unit ℝ := ⟨(), fun _ _ _ => (), fun _ _ _ => false, fun T => T.1.length, fun _ => 0, id⟩

/-- records are lists of attribute values (binary attributes); the cell of a record in the marginal over `c` -/
def exCell (c : List ℕ) (r : List ℕ) : ℕ := (c.map (fun a => r.getD a 0)).foldl (fun acc v => 2 * acc + v) 0
def exSize (c : List ℕ) : ℕ := 2 ^ c.length
def exXest (c : List ℕ) : List ℝ := List.replicate (2 ^ c.length) 1

/-- MST on two binary attributes: `D = [(0,1)]`, `D' = D + (1,1)`, weights `(3/5, 4/5)` -/
example : total (mstEvents 0 0 1 exG [[0], [1]] [3/5, 4/5] [3/5, 4/5] exCell exSize exCell exSize [0, 1] exXest (fun _ => 4) []
    (fun _ => 0) [[0, 1]] [[1, 1], [0, 1]]) ≤ 1 :=
  mst_total_cost_le_rho 0 0 1 exG [[0], [1]] [3/5, 4/5] [3/5, 4/5] exCell exSize exCell exSize [0, 1] exXest (fun _ => 4) []
    (fun _ => 0) [[0, 1]] [[1, 1], [0, 1]] (by norm_num) ⟨[1, 1], Or.inl (List.Perm.refl _)⟩ (by norm_num) (by norm_num)
    (by intro w hw; simp at hw; rcases hw with rfl | rfl <;> norm_num)
    (by intro w hw; simp at hw; rcases hw with rfl | rfl <;> norm_num)
    (by intro c; simp [exXest, exSize])

/-- MWEM+PGM, one round, bounded adjacency: the record `(0,1)` replaced by `(1,1)` -/
example : total ([(⟨exXest, fun _ => 4, [], [[0, 1]], [0, 1]⟩ : MwemRound (List ℕ))].flatMap
    (mwemGaussRound 0 0 1 (1/2) ((1 : ℕ) : ℝ) true exCell exSize [[0, 1]] [[1, 1]])) ≤ 1 :=
  mwem_total_cost_le_budget_gauss 0 0 1 (1/2) 1 true exCell exSize [[0, 1]] [[1, 1]] _ (by norm_num) (by norm_num) (by norm_num)
    (by norm_num) rfl (by unfold Nbr; rw [if_pos rfl]; exact ⟨[0, 1], [1, 1], [], List.Perm.refl _, List.Perm.refl _⟩)
    (by intro rd hrd cl; simp at hrd; subst hrd; simp [exXest, exSize])

example : totalPure ([(⟨exXest, fun _ => 4, [], [[0, 1]], [0, 1]⟩ : MwemRound (List ℕ))].flatMap
    (mwemLaplaceRound 0 0 1 (1/2) ((1 : ℕ) : ℝ) false exCell exSize [[0, 1]] [[1, 1], [0, 1]])) ≤ 1 :=
  (mwem_total_cost_le_budget_laplace 0 0 1 (1/2) 1 false exCell exSize [[0, 1]] [[1, 1], [0, 1]] _ (by norm_num) (by norm_num)
    (by norm_num) (by norm_num) rfl (by unfold Nbr; rw [if_neg (by simp)]; exact ⟨[1, 1], Or.inl (List.Perm.refl _)⟩)
    (by intro rd hrd cl; simp at hrd; subst hrd; simp [exXest, exSize])).1

/-- AIM (cliques named by numbers; binary marginals): two one-way marginals, `rounds = 2`, one round on the candidate `0` of
weight 1 (free: inside the downward closure of the model's cliques) with the annealing test firing -/
example : total (aimEvents 0 0 1 2 exG [(0, 1)] [0, 1] (fun (c : ℕ) (r : List ℕ) => r.getD c 0) (fun _ => 2) [[0, 1]] [[1, 1], [0, 1]]
    [⟨true, fun _ => [1, 1], fun _ => 2, [0], 1, 0⟩]) ≤ 1 :=
  aim_total_cost_le_rho 0 0 1 2 exG [(0, 1)] [0, 1] (fun (c : ℕ) (r : List ℕ) => r.getD c 0) (fun _ => 2) [[0, 1]] [[1, 1], [0, 1]]
    [⟨true, fun _ => [1, 1], fun _ => 2, [0], 1, 0⟩]
    (by norm_num) (by norm_num) (by norm_num) ⟨[1, 1], Or.inl (List.Perm.refl _)⟩
    (by
      intro rd hrd
      simp at hrd; subst hrd
      refine ⟨⟨0, ?_, ?_⟩, fun cl => by simp⟩
      · rw [gen_aim_filter_candidates, dictKeys_writeAll_nil, mem_keyOrder]
        simp [dictKeys, exG]
      · rw [gen_aim_filter_candidates]
        simp [dictKeys, exG, writeAll, dictSet, dictGet])

/-- Adaptive Grid: the 2-level history of `C05B` (`exA`, `exB`, `exAB`), two attributes, no targets, default split;
`np.inf` is represented by `-1`, which no square root equals -/
example : total (adaEvents (-1) 0 (ada_rho_step_default 1) (ada_rho_step2_default 1) (ada_rho_step3_default 1) exG 2 [[0], [1]]
    (fun cl => if cl = [0] then exA else if cl = [1] then exB else exAB) exCell exSize [0, 1] [] exXest (fun _ => 4) []
    (fun _ => 0) [[0, 1]] [[1, 1], [0, 1]]) ≤ 1 :=
  ada_total_cost_le_rho (-1) 0 1 exG 2 [[0], [1]] _ [exA, exB, exAB] exCell exSize [0, 1] [] exXest (fun _ => 4) []
    (fun _ => 0) [[0, 1]] [[1, 1], [0, 1]] (by norm_num) ⟨[1, 1], Or.inl (List.Perm.refl _)⟩ (by simp) ex_history
    (by intro cl; split_ifs <;> simp)
    (by unfold ada_select_eps; exact ne_of_gt (lt_of_lt_of_le (by norm_num) (Real.sqrt_nonneg _)))
    (by intro c; simp [exXest, exSize])
end examples

end PGM.C05E
