import PGM.Properties.C05
import PGM.Properties.C05B
import PGM.Properties.C05S
import PGM.Proofs.LedgerE
/-!
# C05 — end to end: every event charged by its ACTUAL change, total ≤ the budget

`C05.lean` shows that the amounts the mechanisms BOOK sum to the budget; `C05S.lean` / `C05B.lean` bound the ACTUAL
change of every selection / Adaptive-Grid release.  This file composes them.  For two neighbouring datasets (lists of
records; a marginal is the vector of cell counts) and one fixed sequence of random outcomes (noise values enter only
through the models `xest` handed to later steps, draws through an oracle), every release is charged by the actual L2 / L1
distance of the released statistic on the two datasets, every selection by the actual `max_i |log p_i − log p'_i|` of the
two probability vectors the generated selection site computes; the sum is at most `rho` (resp. `epsilon`).

The scales / epsilons are the regenerated slices (`Generated/SlicesR.lean`), the probability vectors those of the
regenerated selection sites (`Generated/SelectG.lean`).
-/
set_option linter.unusedSimpArgs false
set_option linter.unusedVariables false
set_option linter.unnecessarySeqFocus false
set_option linter.unreachableTactic false
set_option linter.unusedTactic false
namespace PGM.C05E
open PGM.Gen.R PGM.Ledger PGM.C05 PGM.C05S PGM.SelectG PGM.SelGen PGM.LedgerE PGM.AdaGridSens

/-! ## 1. events and the charging rule -/

inductive Dist | gauss | laplace

/-- what a mechanism does with the private data: a noisy release (noise distribution, scale handed to the sampler, actual
change `Δ` of the released statistic between the two datasets: L2 for Gaussian, L1 for Laplace noise) or a private
selection (actual change `e` of the log-probabilities) -/
inductive Event
  | release (d : Dist) (scale Δ : ℝ)
  | select (e : ℝ)

/-- the zCDP charge: Gaussian `Δ²/(2σ²)`, selection `e²/8`, (pure `Δ₁/b`-DP) Laplace `(Δ₁/b)²/2` -/
noncomputable def cost : Event → ℝ
  | .release .gauss σ Δ => gaussCost Δ σ
  | .release .laplace b Δ => (Δ / b) ^ 2 / 2
  | .select e => selectCost e

/-- the pure-DP charge: Laplace `Δ₁/b`, selection `e`; a Gaussian release has no finite pure charge (`IsPure`) -/
noncomputable def costPure : Event → ℝ
  | .release _ b Δ => Δ / b
  | .select e => e

def IsPure : Event → Prop
  | .release .gauss _ _ => False
  | _ => True

noncomputable def total (evs : List Event) : ℝ := (evs.map cost).sum
noncomputable def totalPure (evs : List Event) : ℝ := (evs.map costPure).sum

theorem total_append (a b : List Event) : total (a ++ b) = total a + total b := by
  simp [total]

theorem totalPure_append (a b : List Event) : totalPure (a ++ b) = totalPure a + totalPure b := by
  simp [totalPure]

/-- actual L2 change -/
noncomputable def l2 (x y : List ℝ) : ℝ := Real.sqrt (sqDist x y)

theorem gaussCost_l2 (x y : List ℝ) (s : ℝ) : gaussCost (l2 x y) s = sqDist x y / (2 * s ^ 2) := by
  unfold gaussCost l2
  rw [Real.sq_sqrt (sqDist_nonneg x y)]

/-- a Gaussian release whose statistic moves by at most `B` in squared L2 -/
theorem gaussCost_l2_le (x y : List ℝ) (s B : ℝ) (h : sqDist x y ≤ B) : gaussCost (l2 x y) s ≤ B / (2 * s ^ 2) := by
  rw [gaussCost_l2]
  exact div_le_div_of_nonneg_right h (by positivity)

theorem selectCost_logDist_le {e : ℝ} (he : 0 ≤ e) {p p' : List ℝ} (h : LogClose e p p') :
    selectCost (logDist p p') ≤ e ^ 2 / 8 := by
  unfold selectCost
  exact div_le_div_of_nonneg_right (sq_logDist_le he h) (by norm_num)

/-! ## 2. datasets, marginals, neighbours -/

section data
variable {R C : Type}

/-- the marginal of the dataset `D` (a list of records) over `c`: `cell c r` is the cell of record `r`, `size c` the
number of cells; the data vector counts the records per cell (unit weights) -/
def marg (cell : C → R → ℕ) (size : C → ℕ) (D : List R) (c : C) : List ℝ := countVec (size c) (D.map (cell c))

theorem marg_length (cell : C → R → ℕ) (size : C → ℕ) (D : List R) (c : C) : (marg cell size D c).length = size c :=
  countVec_length _ _

/-- unbounded adjacency: one record added or removed (anywhere in the list) -/
def AddRemove (D D' : List R) : Prop := ∃ r, D'.Perm (r :: D) ∨ D.Perm (r :: D')

/-- bounded adjacency: one record replaced -/
def ReplaceOne (D D' : List R) : Prop := ∃ r r' E, D.Perm (r :: E) ∧ D'.Perm (r' :: E)

theorem marg_cons (cell : C → R → ℕ) (size : C → ℕ) (D D' : List R) (r : R) (h : D'.Perm (r :: D)) (c : C) :
    marg cell size D' c = countVec (size c) (cell c r :: D.map (cell c)) := by
  unfold marg
  rw [countVec_perm _ (h.map (cell c)), List.map_cons]

/-- **a marginal of two datasets differing by one added / removed record moves by at most 1 in L1 and in L2** -/
theorem marginal_release_delta (cell : C → R → ℕ) (size : C → ℕ) (D D' : List R) (h : AddRemove D D') (c : C) :
    l1 (marg cell size D c) (marg cell size D' c) ≤ 1 ∧ sqDist (marg cell size D c) (marg cell size D' c) ≤ 1 ∧
      l2 (marg cell size D c) (marg cell size D' c) ≤ 1 := by
  have key : l1 (marg cell size D c) (marg cell size D' c) ≤ 1 ∧ sqDist (marg cell size D c) (marg cell size D' c) ≤ 1 := by
    obtain ⟨r, h | h⟩ := h
    · rw [marg_cons cell size D D' r h c, l1_comm, sqDist_comm]
      unfold marg
      rw [countVec_cons_l1, countVec_cons_sqDist]
      constructor <;> split <;> norm_num
    · rw [marg_cons cell size D' D r h c]
      unfold marg
      rw [countVec_cons_l1, countVec_cons_sqDist]
      constructor <;> split <;> norm_num
  refine ⟨key.1, key.2, ?_⟩
  unfold l2
  rw [← Real.sqrt_one]
  exact Real.sqrt_le_sqrt key.2

/-- … and by at most 2 in L1, `√2` in L2 when one record is replaced -/
theorem marginal_release_delta_replace (cell : C → R → ℕ) (size : C → ℕ) (D D' : List R) (h : ReplaceOne D D') (c : C) :
    l1 (marg cell size D c) (marg cell size D' c) ≤ 2 ∧ sqDist (marg cell size D c) (marg cell size D' c) ≤ 2 ∧
      l2 (marg cell size D c) (marg cell size D' c) ≤ Real.sqrt 2 := by
  obtain ⟨r, r', E, hD, hD'⟩ := h
  have key : l1 (marg cell size D c) (marg cell size D' c) ≤ 2 ∧ sqDist (marg cell size D c) (marg cell size D' c) ≤ 2 := by
    rw [marg_cons cell size E D r hD c, marg_cons cell size E D' r' hD' c]
    exact ⟨countVec_replace_l1 _ _ _ _, countVec_replace_sqDist _ _ _ _⟩
  exact ⟨key.1, key.2, Real.sqrt_le_sqrt key.2⟩

/-- the adjacency notion a mechanism with a `bounded` flag is run under -/
def Nbr (bounded : Bool) (D D' : List R) : Prop := if bounded = true then ReplaceOne D D' else AddRemove D D'

theorem marginal_release_delta_nbr (bounded : Bool) (cell : C → R → ℕ) (size : C → ℕ) (D D' : List R)
    (h : Nbr bounded D D') (c : C) :
    l1 (marg cell size D c) (marg cell size D' c) ≤ (if bounded = true then 2 else 1) ∧
      sqDist (marg cell size D c) (marg cell size D' c) ≤ (if bounded = true then 2 else 1) := by
  cases bounded
  · have := marginal_release_delta cell size D D' (by simpa [Nbr] using h) c
    simpa using ⟨this.1, this.2.1⟩
  · have := marginal_release_delta_replace cell size D D' (by simpa [Nbr] using h) c
    simpa using ⟨this.1, this.2.1⟩

/-- the bounds are attained: a record added to a 2-cell marginal; a record moved from cell 1 to cell 0 -/
example : AddRemove ([] : List ℕ) [0] ∧ l1 (marg (fun _ : Unit => id) (fun _ => 2) [] ()) (marg (fun _ : Unit => id) (fun _ => 2) [0] ()) = 1 := by
  refine ⟨⟨0, Or.inl (List.Perm.refl _)⟩, ?_⟩
  rw [l1_comm]
  simp only [marg, List.map_cons, List.map_nil, id, countVec_cons_l1]
  norm_num

example : ReplaceOne [0] [1] ∧ sqDist (marg (fun _ : Unit => id) (fun _ => 2) [0] ()) (marg (fun _ : Unit => id) (fun _ => 2) [1] ()) = 2 :=
  ⟨⟨0, 1, [], List.Perm.refl _, List.Perm.refl _⟩, countVec_replace_sqDist_attained.1⟩
end data

variable (inf fmax : ℝ)
local notation "npR" => realOps inf fmax

/-! ## 3. MST -/

section mst
variable {A DS R C1 : Type} [DecidableEq A] [Inhabited A]

theorem mst_loop3_length (g : GraphOps A DS ℝ) (x : List A → List ℝ) (attrs : List A) (rho : ℝ) (cliques : List (A × A))
    (xest : List A → List ℝ) (size : List A → ℝ) (mcl : List (List A)) (draws : ℕ → ℕ)
    (weights : List ((A × A) × ℝ)) (epsilon : ℝ) (l : List ℕ)
    (st : List (A × A) × (List A × List (A × A)) × DS × List (Draw ℝ)) :
    (l.foldl (mst_select_loop3 npR g x attrs rho cliques xest size mcl draws weights epsilon) st).2.2.2.length
      = st.2.2.2.length + l.length := by
  induction l generalizing st with
  | nil => simp
  | cons i l ih =>
    rw [List.foldl_cons, ih, gen_mst_loop3]
    simp only [List.length_append, List.length_cons, List.length_nil]
    omega

/-- the number of connected components `r` of the forest of pre-selected edges, as `select` computes it -/
noncomputable def mstComponents (g : GraphOps A DS ℝ) (x : List A → List ℝ) (attrs : List A) (rho : ℝ) (cliques : List (A × A))
    (xest : List A → List ℝ) (size : List A → ℝ) (mcl : List (List A)) (draws : ℕ → ℕ) : ℕ :=
  g.ncomp (List.foldl (mst_select_loop2 npR g x attrs rho cliques xest size mcl draws) (([] ++ attrs, []), g.ds_empty) cliques).1

/-- `select` makes exactly `r − 1` draws -/
theorem mst_select_transcript_length (g : GraphOps A DS ℝ) (x : List A → List ℝ) (attrs : List A) (rho : ℝ) (cliques : List (A × A))
    (xest : List A → List ℝ) (size : List A → ℝ) (mcl : List (List A)) (draws : ℕ → ℕ) :
    (mst_select npR g x attrs rho cliques xest size mcl draws).2.length
      = (((mstComponents inf fmax g x attrs rho cliques xest size mcl draws : ℕ) : ℤ) - 1).toNat := by
  have h := mst_loop3_length inf fmax g x attrs rho cliques xest size mcl draws
    (mst_select_weights npR g x attrs rho cliques xest size mcl draws)
    (mst_select_epsilon npR g x attrs rho cliques xest size mcl draws)
    (List.range (((mstComponents inf fmax g x attrs rho cliques xest size mcl draws : ℕ) : ℤ) - 1).toNat)
    (comb2 attrs, (List.foldl (mst_select_loop2 npR g x attrs rho cliques xest size mcl draws) (([] ++ attrs, []), g.ds_empty) cliques).1,
      (List.foldl (mst_select_loop2 npR g x attrs rho cliques xest size mcl draws) (([] ++ attrs, []), g.ds_empty) cliques).2, [])
  simp only [List.length_nil, List.length_range, Nat.zero_add] at h
  exact h

/-- the one-way / pair releases of `measure`: scale `σ/w`, actual change of the marginal -/
noncomputable def measureEvents {C : Type} (scale : ℝ → ℝ) (x x' : C → List ℝ) (cliques : List C) (ws : List ℝ) : List Event :=
  (List.zip cliques ws).map (fun p => Event.release .gauss (scale p.2) (l2 (x p.1) (x' p.1)))

theorem measureEvents_total_le {C : Type} (scale : ℝ → ℝ) (sigma : ℝ) (x x' : C → List ℝ) (cliques : List C) (ws : List ℝ)
    (hscale : ∀ w ∈ ws, gaussCost 1 (scale w) = w ^ 2 / (2 * sigma ^ 2))
    (hnb : ∀ c, sqDist (x c) (x' c) ≤ 1) :
    total (measureEvents scale x x' cliques ws) ≤ (ws.map (· ^ 2)).sum / (2 * sigma ^ 2) := by
  unfold total measureEvents
  rw [List.map_map, ← sum_map_div_const ws (· ^ 2) (2 * sigma ^ 2)]
  apply sum_zip_le cliques ws _ (fun w => w ^ 2 / (2 * sigma ^ 2))
  · intro w _; positivity
  · intro c w hw
    simp only [Function.comp, cost]
    rw [← hscale w hw]
    have := gaussCost_l2_le (x c) (x' c) (scale w) 1 (hnb c)
    simpa [gaussCost] using this

/-- the events of one run of `MST` on `D`, replayed on `D'` with the same random outcomes:
* `log1`: the one-way marginals `cols1` (view `cell1`) at `mst_measure_scale (mst_measure1_sigma (mst_sigma rho)) w`;
* `select` on the (compressed, view `cell2`) data: the transcripts of the two runs of the generated `mst_select_call`;
* `log2`: the marginals over the selected edges at `mst_measure_scale (mst_measure2_sigma (mst_sigma rho)) w`. -/
noncomputable def mstEvents (rho : ℝ) (g : GraphOps A DS ℝ) (cols1 : List C1) (ws1 ws2 : List ℝ)
    (cell1 : C1 → R → ℕ) (size1 : C1 → ℕ) (cell2 : List A → R → ℕ) (size2 : List A → ℕ) (attrs : List A)
    (xest : List A → List ℝ) (msize : List A → ℝ) (mcl : List (List A)) (draws : ℕ → ℕ) (D D' : List R) : List Event :=
  measureEvents (mst_measure_scale (mst_measure1_sigma (mst_sigma rho))) (marg cell1 size1 D) (marg cell1 size1 D') cols1 ws1
  ++ List.zipWith (fun d d' => Event.select (logDist d.p d'.p))
      (mst_select_call npR g (marg cell2 size2 D) attrs rho xest msize mcl draws).2
      (mst_select_call npR g (marg cell2 size2 D') attrs rho xest msize mcl draws).2
  ++ measureEvents (mst_measure_scale (mst_measure2_sigma (mst_sigma rho))) (marg cell2 size2 D) (marg cell2 size2 D')
      ((mst_select_call npR g (marg cell2 size2 D) attrs rho xest msize mcl draws).1.map (fun e => [e.1, e.2])) ws2

/-- the selection phase alone: at most `rho/3` -/
theorem mst_select_phase_le (rho : ℝ) (g : GraphOps A DS ℝ) (x x' : List A → List ℝ) (attrs : List A)
    (xest : List A → List ℝ) (msize : List A → ℝ) (mcl : List (List A)) (draws : ℕ → ℕ) (hrho : 0 < rho)
    (hlen : ∀ c, (x c).length = (xest c).length ∧ (x' c).length = (xest c).length)
    (hnb : ∀ c, l1 (x c) (x' c) ≤ 1) :
    total (List.zipWith (fun d d' => Event.select (logDist d.p d'.p))
      (mst_select_call npR g x attrs rho xest msize mcl draws).2
      (mst_select_call npR g x' attrs rho xest msize mcl draws).2) ≤ rho / 3 := by
  rw [gen_mst_select_call, gen_mst_select_call]
  have hc := (mst_select_cost inf fmax g x x' attrs (mst_select_rho rho) [] xest msize mcl draws hlen hnb).2
  have hε := mst_select_epsilon_nonneg inf fmax g x attrs (mst_select_rho rho) [] xest msize mcl draws
  unfold total
  rw [List.map_zipWith]
  have hsum := sum_zipWith_le_of_forall₂ (DrawClose (mst_select_epsilon npR g x attrs (mst_select_rho rho) [] xest msize mcl draws))
    (fun d d' => cost (Event.select (logDist d.p d'.p)))
    ((mst_select_epsilon npR g x attrs (mst_select_rho rho) [] xest msize mcl draws) ^ 2 / 8) _ _ hc
    (fun d d' hdd => selectCost_logDist_le hε hdd.2)
  refine le_trans hsum ?_
  rw [mst_select_transcript_length, gen_mst_epsilon]
  change (((((mstComponents inf fmax g x attrs (mst_select_rho rho) [] xest msize mcl draws : ℕ) : ℤ) - 1).toNat : ℕ) : ℝ)
    * (mst_select_eps (mst_select_rho rho) ((mstComponents inf fmax g x attrs (mst_select_rho rho) [] xest msize mcl draws : ℕ) : ℝ) ^ 2 / 8) ≤ rho / 3
  generalize mstComponents inf fmax g x attrs (mst_select_rho rho) [] xest msize mcl draws = r
  by_cases hr : 2 ≤ r
  · have hr1 := natCast_sub_one_pos r hr
    have hk : ((((r : ℤ) - 1).toNat : ℕ) : ℝ) = (r : ℝ) - 1 := by
      have : (((r : ℤ) - 1).toNat : ℤ) = (r : ℤ) - 1 := Int.toNat_of_nonneg (by omega)
      have h2 : ((((r : ℤ) - 1).toNat : ℕ) : ℝ) = (((((r : ℤ) - 1).toNat : ℕ) : ℤ) : ℝ) := by push_cast; rfl
      rw [h2, this]; push_cast; ring
    rw [hk, mst_select_eps_sq rho r hrho hr1]
    apply le_of_eq
    field_simp
  · have hk : ((r : ℤ) - 1).toNat = 0 := by omega
    rw [hk]
    simp only [Nat.cast_zero, zero_mul]
    positivity

/-- **MST, end to end**: on neighbouring datasets and the same random outcomes, the actual changes of the `d` one-way
releases, of every draw of `select`, and of the releases over the selected edges cost at most `rho` in total.
`ws1`, `ws2`: the per-marginal weights after `measure` has normalised them to unit L2 norm. -/
theorem mst_total_cost_le_rho (rho : ℝ) (g : GraphOps A DS ℝ) (cols1 : List C1) (ws1 ws2 : List ℝ)
    (cell1 : C1 → R → ℕ) (size1 : C1 → ℕ) (cell2 : List A → R → ℕ) (size2 : List A → ℕ) (attrs : List A)
    (xest : List A → List ℝ) (msize : List A → ℝ) (mcl : List (List A)) (draws : ℕ → ℕ) (D D' : List R)
    (hrho : 0 < rho) (hnb : AddRemove D D')
    (h1 : (ws1.map (· ^ 2)).sum = 1) (h2 : (ws2.map (· ^ 2)).sum = 1)
    (hp1 : ∀ w ∈ ws1, 0 < w) (hp2 : ∀ w ∈ ws2, 0 < w)
    (hsz : ∀ c, (xest c).length = size2 c) :
    total (mstEvents inf fmax rho g cols1 ws1 ws2 cell1 size1 cell2 size2 attrs xest msize mcl draws D D') ≤ rho := by
  have hσ2 := mst_sigma_sq rho hrho
  have hg1 : ∀ w ∈ ws1, gaussCost 1 (mst_measure_scale (mst_measure1_sigma (mst_sigma rho)) w)
      = w ^ 2 / (2 * mst_sigma rho ^ 2) := by
    intro w hw
    have := (hp1 w hw).ne'
    simp only [gaussCost, mst_measure_scale, mst_measure1_sigma] <;> pgm_arith
  have hg2 : ∀ w ∈ ws2, gaussCost 1 (mst_measure_scale (mst_measure2_sigma (mst_sigma rho)) w)
      = w ^ 2 / (2 * mst_sigma rho ^ 2) := by
    intro w hw
    have := (hp2 w hw).ne'
    simp only [gaussCost, mst_measure_scale, mst_measure2_sigma] <;> pgm_arith
  have hthird : (1 : ℝ) / (2 * mst_sigma rho ^ 2) = rho / 3 := by
    rw [hσ2]; field_simp
  have e1 := measureEvents_total_le (mst_measure_scale (mst_measure1_sigma (mst_sigma rho))) (mst_sigma rho)
    (marg cell1 size1 D) (marg cell1 size1 D') cols1 ws1 hg1 (fun c => (marginal_release_delta cell1 size1 D D' hnb c).2.1)
  have e3 := measureEvents_total_le (mst_measure_scale (mst_measure2_sigma (mst_sigma rho))) (mst_sigma rho)
    (marg cell2 size2 D) (marg cell2 size2 D')
    ((mst_select_call npR g (marg cell2 size2 D) attrs rho xest msize mcl draws).1.map (fun e => [e.1, e.2])) ws2 hg2
    (fun c => (marginal_release_delta cell2 size2 D D' hnb c).2.1)
  have e2 := mst_select_phase_le inf fmax rho g (marg cell2 size2 D) (marg cell2 size2 D') attrs xest msize mcl draws hrho
    (fun c => ⟨by rw [marg_length, hsz], by rw [marg_length, hsz]⟩)
    (fun c => (marginal_release_delta cell2 size2 D D' hnb c).1)
  rw [h1, hthird] at e1
  rw [h2, hthird] at e3
  unfold mstEvents
  rw [total_append, total_append]
  linarith
end mst

/-! ## 4. MWEM+PGM -/

theorem total_flatMap_le {α : Type} (l : List α) (f : α → List Event) (B : ℝ) (h : ∀ a ∈ l, total (f a) ≤ B) :
    total (l.flatMap f) ≤ (l.length : ℝ) * B := by
  induction l with
  | nil => simp [total]
  | cons a l ih =>
    rw [List.flatMap_cons, total_append]
    simp only [List.length_cons, Nat.cast_add, Nat.cast_one]
    have h1 := h a (List.mem_cons_self ..)
    have h2 := ih (fun b hb => h b (List.mem_cons_of_mem _ hb))
    linarith

theorem totalPure_flatMap_le {α : Type} (l : List α) (f : α → List Event) (B : ℝ) (h : ∀ a ∈ l, totalPure (f a) ≤ B) :
    totalPure (l.flatMap f) ≤ (l.length : ℝ) * B := by
  induction l with
  | nil => simp [totalPure]
  | cons a l ih =>
    rw [List.flatMap_cons, totalPure_append]
    simp only [List.length_cons, Nat.cast_add, Nat.cast_one]
    have h1 := h a (List.mem_cons_self ..)
    have h2 := ih (fun b hb => h b (List.mem_cons_of_mem _ hb))
    linarith

section mwem
variable {C R : Type} [DecidableEq C]

/-- what a round of `mwem_pgm` sees besides the private data: the current model (its answer vectors, cell counts and
cliques — a function of the earlier noisy outputs), the size-filtered candidates, and the outcome `ax` of the draw -/
structure MwemRound (C : Type) where
  xest : C → List ℝ
  msize : C → ℝ
  cliques : List C
  candidates : List C
  ax : C

/-- one round, Gaussian noise: the generated selection call with `exp_eps`, then the release of the selected marginal at
`marginal_sensitivity * sigma` -/
noncomputable def mwemGaussRound (rho alpha rounds : ℝ) (bounded : Bool) (cell : C → R → ℕ) (size : C → ℕ) (D D' : List R)
    (rd : MwemRound C) : List Event :=
  [Event.select (logDist
      (mwem_pgm_select npR (marg cell size D) rd.xest rd.msize rd.cliques rd.candidates
        (mwem_select_eps (mwem_gau_exp_eps alpha (mwem_rho_per_round rho rounds))) (mwem_select_bounded bounded)).2.p
      (mwem_pgm_select npR (marg cell size D') rd.xest rd.msize rd.cliques rd.candidates
        (mwem_select_eps (mwem_gau_exp_eps alpha (mwem_rho_per_round rho rounds))) (mwem_select_bounded bounded)).2.p),
   Event.release .gauss (mwem_gau_scale (mwem_gau_msens bounded) (mwem_gau_sigma alpha (mwem_rho_per_round rho rounds)))
      (l2 (marg cell size D rd.ax) (marg cell size D' rd.ax))]

/-- one round, Laplace noise -/
noncomputable def mwemLaplaceRound (epsilon alpha rounds : ℝ) (bounded : Bool) (cell : C → R → ℕ) (size : C → ℕ) (D D' : List R)
    (rd : MwemRound C) : List Event :=
  [Event.select (logDist
      (mwem_pgm_select npR (marg cell size D) rd.xest rd.msize rd.cliques rd.candidates
        (mwem_select_eps (mwem_lap_exp_eps alpha (mwem_lap_eps_per_round epsilon rounds))) (mwem_select_bounded bounded)).2.p
      (mwem_pgm_select npR (marg cell size D') rd.xest rd.msize rd.cliques rd.candidates
        (mwem_select_eps (mwem_lap_exp_eps alpha (mwem_lap_eps_per_round epsilon rounds))) (mwem_select_bounded bounded)).2.p),
   Event.release .laplace (mwem_lap_scale (mwem_lap_msens bounded) (mwem_lap_sigma alpha (mwem_lap_eps_per_round epsilon rounds)))
      (l1 (marg cell size D rd.ax) (marg cell size D' rd.ax))]

theorem mwem_select_close (cell : C → R → ℕ) (size : C → ℕ) (D D' : List R) (bounded : Bool) (rd : MwemRound C) (e : ℝ)
    (he : 0 ≤ e) (hnb : Nbr bounded D D') (hsz : ∀ cl, (rd.xest cl).length = size cl) :
    LogClose e
      (mwem_pgm_select npR (marg cell size D) rd.xest rd.msize rd.cliques rd.candidates (mwem_select_eps e) (mwem_select_bounded bounded)).2.p
      (mwem_pgm_select npR (marg cell size D') rd.xest rd.msize rd.cliques rd.candidates (mwem_select_eps e) (mwem_select_bounded bounded)).2.p := by
  have e1 : mwem_select_eps e = e := by simp only [mwem_select_eps]
  have e2 : mwem_select_bounded bounded = bounded := by simp only [mwem_select_bounded]
  rw [e1, e2]
  exact mwem_pgm_selection_cost inf fmax (marg cell size D) (marg cell size D') rd.xest rd.msize rd.cliques rd.candidates e bounded he
    (fun cl _ => ⟨by rw [marg_length, hsz], by rw [marg_length, hsz]⟩)
    (fun cl _ => (marginal_release_delta_nbr bounded cell size D D' hnb cl).1)

/-- a Gaussian round costs at most `rho / rounds` -/
theorem mwem_gauss_round_le (rho alpha : ℝ) (rounds : ℕ) (bounded : Bool) (cell : C → R → ℕ) (size : C → ℕ) (D D' : List R)
    (rd : MwemRound C) (hrho : 0 < rho) (hr : 0 < rounds) (ha0 : 0 < alpha) (ha1 : alpha < 1)
    (hnb : Nbr bounded D D') (hsz : ∀ cl, (rd.xest cl).length = size cl) :
    total (mwemGaussRound inf fmax rho alpha rounds bounded cell size D D' rd) ≤ rho / rounds := by
  have hR : (0 : ℝ) < rounds := by exact_mod_cast hr
  have hrpr_eq : mwem_rho_per_round rho rounds = rho / rounds := by
    simp only [mwem_rho_per_round] <;> pgm_arith
  have hrpr : 0 < mwem_rho_per_round rho rounds := by rw [hrpr_eq]; positivity
  have h1a : 0 < 1 - alpha := by linarith
  have hσ2 := mwem_gau_sigma_sq alpha _ ha0 hrpr
  have heps := mwem_gau_exp_eps_sq alpha _ h1a hrpr
  have hm2 := mwem_gau_msens_sq bounded
  have hepos : 0 ≤ mwem_gau_exp_eps alpha (mwem_rho_per_round rho rounds) := by
    unfold mwem_gau_exp_eps; positivity
  have hsel := selectCost_logDist_le hepos
    (mwem_select_close inf fmax cell size D D' bounded rd _ hepos hnb hsz)
  have hrel := gaussCost_l2_le (marg cell size D rd.ax) (marg cell size D' rd.ax)
    (mwem_gau_scale (mwem_gau_msens bounded) (mwem_gau_sigma alpha (mwem_rho_per_round rho rounds))) _
    (marginal_release_delta_nbr bounded cell size D D' hnb rd.ax).2
  have hscale : (mwem_gau_scale (mwem_gau_msens bounded) (mwem_gau_sigma alpha (mwem_rho_per_round rho rounds))) ^ 2
      = mwem_gau_msens bounded ^ 2 * mwem_gau_sigma alpha (mwem_rho_per_round rho rounds) ^ 2 := by
    simp only [mwem_gau_scale] <;> pgm_arith
  rw [hscale, hm2, hσ2] at hrel
  rw [heps] at hsel
  have hB : (if bounded = true then (2 : ℝ) else 1) / (2 * ((if bounded = true then (2 : ℝ) else 1) * (1 / (2 * alpha * mwem_rho_per_round rho rounds))))
      = alpha * mwem_rho_per_round rho rounds := by
    have := hrpr.ne'
    cases bounded <;> simp only [Bool.false_eq_true, reduceIte] <;> field_simp
  rw [hB] at hrel
  simp only [mwemGaussRound, total, List.map_cons, List.map_nil, List.sum_cons, List.sum_nil, cost]
  rw [← hrpr_eq]
  linarith

/-- **MWEM+PGM (Gaussian), end to end**: over all rounds, for both adjacency notions — the actual changes cost at most `rho` -/
theorem mwem_total_cost_le_budget_gauss (rho alpha : ℝ) (rounds : ℕ) (bounded : Bool) (cell : C → R → ℕ) (size : C → ℕ)
    (D D' : List R) (rds : List (MwemRound C)) (hrho : 0 < rho) (hr : 0 < rounds) (ha0 : 0 < alpha) (ha1 : alpha < 1)
    (hlen : rds.length = rounds) (hnb : Nbr bounded D D') (hsz : ∀ rd ∈ rds, ∀ cl, (rd.xest cl).length = size cl) :
    total (rds.flatMap (mwemGaussRound inf fmax rho alpha rounds bounded cell size D D')) ≤ rho := by
  have hR : (0 : ℝ) < rounds := by exact_mod_cast hr
  have h := total_flatMap_le rds (mwemGaussRound inf fmax rho alpha rounds bounded cell size D D') (rho / rounds)
    (fun rd hrd => mwem_gauss_round_le inf fmax rho alpha rounds bounded cell size D D' rd hrho hr ha0 ha1 hnb (hsz rd hrd))
  rw [hlen] at h
  have e : (rounds : ℝ) * (rho / rounds) = rho := by field_simp
  linarith

/-- a Laplace round costs at most `epsilon / rounds` (pure DP) -/
theorem mwem_laplace_round_le (epsilon alpha : ℝ) (rounds : ℕ) (bounded : Bool) (cell : C → R → ℕ) (size : C → ℕ) (D D' : List R)
    (rd : MwemRound C) (heps : 0 < epsilon) (hr : 0 < rounds) (ha0 : 0 < alpha) (ha1 : alpha ≤ 1)
    (hnb : Nbr bounded D D') (hsz : ∀ cl, (rd.xest cl).length = size cl) :
    totalPure (mwemLaplaceRound inf fmax epsilon alpha rounds bounded cell size D D' rd) ≤ epsilon / rounds := by
  have hR : (0 : ℝ) < rounds := by exact_mod_cast hr
  have hepr_eq : mwem_lap_eps_per_round epsilon rounds = epsilon / rounds := by
    simp only [mwem_lap_eps_per_round] <;> pgm_arith
  have hepr : 0 < mwem_lap_eps_per_round epsilon rounds := by rw [hepr_eq]; positivity
  have hE : mwem_lap_exp_eps alpha (mwem_lap_eps_per_round epsilon rounds) = (1 - alpha) * mwem_lap_eps_per_round epsilon rounds := by
    simp only [mwem_lap_exp_eps] <;> pgm_arith
  have hepos : 0 ≤ mwem_lap_exp_eps alpha (mwem_lap_eps_per_round epsilon rounds) := by
    rw [hE]; exact mul_nonneg (by linarith) hepr.le
  have hsel := logDist_le hepos (mwem_select_close inf fmax cell size D D' bounded rd _ hepos hnb hsz)
  have hb : mwem_lap_scale (mwem_lap_msens bounded) (mwem_lap_sigma alpha (mwem_lap_eps_per_round epsilon rounds))
      = (if bounded = true then (2 : ℝ) else 1) / (alpha * mwem_lap_eps_per_round epsilon rounds) := by
    cases bounded <;>
    simp only [mwem_lap_scale, mwem_lap_msens, mwem_lap_sigma, Bool.false_eq_true, reduceIte] <;> pgm_arith
  have hbpos : 0 < mwem_lap_scale (mwem_lap_msens bounded) (mwem_lap_sigma alpha (mwem_lap_eps_per_round epsilon rounds)) := by
    rw [hb]; cases bounded <;> simp only [Bool.false_eq_true, reduceIte] <;> positivity
  have hrel : l1 (marg cell size D rd.ax) (marg cell size D' rd.ax)
        / mwem_lap_scale (mwem_lap_msens bounded) (mwem_lap_sigma alpha (mwem_lap_eps_per_round epsilon rounds))
      ≤ alpha * mwem_lap_eps_per_round epsilon rounds := by
    rw [div_le_iff₀ hbpos, hb]
    have h1 := (marginal_release_delta_nbr bounded cell size D D' hnb rd.ax).1
    have e : alpha * mwem_lap_eps_per_round epsilon rounds * ((if bounded = true then (2 : ℝ) else 1) / (alpha * mwem_lap_eps_per_round epsilon rounds))
        = (if bounded = true then (2 : ℝ) else 1) := by
      have := ha0.ne'; have := hepr.ne'
      field_simp
    rw [e]; exact h1
  simp only [mwemLaplaceRound, totalPure, List.map_cons, List.map_nil, List.sum_cons, List.sum_nil, costPure]
  rw [← hepr_eq]
  have hsel' := hsel.trans hE.le
  linarith

/-- **MWEM+PGM (Laplace), end to end**: pure DP, total at most `epsilon`, and no event without a finite pure charge -/
theorem mwem_total_cost_le_budget_laplace (epsilon alpha : ℝ) (rounds : ℕ) (bounded : Bool) (cell : C → R → ℕ) (size : C → ℕ)
    (D D' : List R) (rds : List (MwemRound C)) (heps : 0 < epsilon) (hr : 0 < rounds) (ha0 : 0 < alpha) (ha1 : alpha ≤ 1)
    (hlen : rds.length = rounds) (hnb : Nbr bounded D D') (hsz : ∀ rd ∈ rds, ∀ cl, (rd.xest cl).length = size cl) :
    totalPure (rds.flatMap (mwemLaplaceRound inf fmax epsilon alpha rounds bounded cell size D D')) ≤ epsilon ∧
    ∀ ev ∈ rds.flatMap (mwemLaplaceRound inf fmax epsilon alpha rounds bounded cell size D D'), IsPure ev := by
  have hR : (0 : ℝ) < rounds := by exact_mod_cast hr
  have h := totalPure_flatMap_le rds (mwemLaplaceRound inf fmax epsilon alpha rounds bounded cell size D D') (epsilon / rounds)
    (fun rd hrd => mwem_laplace_round_le inf fmax epsilon alpha rounds bounded cell size D D' rd heps hr ha0 ha1 hnb (hsz rd hrd))
  rw [hlen] at h
  have e : (rounds : ℝ) * (epsilon / rounds) = epsilon := by field_simp
  refine ⟨by linarith, ?_⟩
  intro ev hev
  obtain ⟨rd, _, hev⟩ := List.mem_flatMap.1 hev
  simp only [mwemLaplaceRound, List.mem_cons, List.not_mem_nil, or_false] at hev
  rcases hev with rfl | rfl <;> trivial

/-- both variants in one statement -/
theorem mwem_total_cost_le_budget (budget alpha : ℝ) (rounds : ℕ) (laplace bounded : Bool) (cell : C → R → ℕ) (size : C → ℕ)
    (D D' : List R) (rds : List (MwemRound C)) (hb : 0 < budget) (hr : 0 < rounds) (ha0 : 0 < alpha) (ha1 : alpha < 1)
    (hlen : rds.length = rounds) (hnb : Nbr bounded D D') (hsz : ∀ rd ∈ rds, ∀ cl, (rd.xest cl).length = size cl) :
    if laplace = true then totalPure (rds.flatMap (mwemLaplaceRound inf fmax budget alpha rounds bounded cell size D D')) ≤ budget
    else total (rds.flatMap (mwemGaussRound inf fmax budget alpha rounds bounded cell size D D')) ≤ budget := by
  cases laplace
  · simpa using mwem_total_cost_le_budget_gauss inf fmax budget alpha rounds bounded cell size D D' rds hb hr ha0 ha1 hlen hnb hsz
  · simpa using (mwem_total_cost_le_budget_laplace inf fmax budget alpha rounds bounded cell size D D' rds hb hr ha0 ha1.le hlen hnb hsz).1

/-- **outside `0 < alpha ≤ 1` the Laplace variant overspends**: the releases alone, on a record that changes the selected
marginal by the full `trueL1`, cost `alpha · epsilon` — more than `epsilon` for `alpha > 1` (`alpha` is an undocumented
keyword argument of `mwem_pgm`; nothing in the source restricts it) -/
theorem mwem_laplace_alpha_gt_one_overspends (epsilon alpha : ℝ) (rounds : ℕ) (bounded : Bool) (heps : 0 < epsilon)
    (hr : 0 < rounds) (ha1 : 1 < alpha) :
    epsilon < (rounds : ℝ) * costPure (Event.release .laplace
      (mwem_lap_scale (mwem_lap_msens bounded) (mwem_lap_sigma alpha (mwem_lap_eps_per_round epsilon rounds))) (trueL1 bounded)) := by
  have hR : (0 : ℝ) < rounds := by exact_mod_cast hr
  have ha0 : 0 < alpha := by linarith
  have hepr_eq : mwem_lap_eps_per_round epsilon rounds = epsilon / rounds := by
    simp only [mwem_lap_eps_per_round] <;> pgm_arith
  have hepr : 0 < mwem_lap_eps_per_round epsilon rounds := by rw [hepr_eq]; positivity
  have hL : trueL1 bounded / mwem_lap_scale (mwem_lap_msens bounded) (mwem_lap_sigma alpha (mwem_lap_eps_per_round epsilon rounds))
      = alpha * mwem_lap_eps_per_round epsilon rounds := by
    have := ha0.ne'; have := hepr.ne'
    cases bounded <;>
    simp only [trueL1, mwem_lap_scale, mwem_lap_msens, mwem_lap_sigma, Bool.false_eq_true, reduceIte] <;> pgm_arith
  simp only [costPure]
  rw [hL, hepr_eq]
  have e : (rounds : ℝ) * (alpha * (epsilon / rounds)) = alpha * epsilon := by field_simp
  rw [e]
  nlinarith
end mwem

end PGM.C05E
