import PGM.Generated.GraphicalModelQG
import PGM.Proofs.GMQSynth
import PGM.Proofs.GMQSynthTable
import PGM.Proofs.GMQRng
import PGM.Proofs.GMQSynthRound
import PGM.Properties.C11B
import PGM.Properties.C11
/-!
# C11 (translator tie) — the regenerated reading of `synthetic_data` / `synthetic_col` against `Model/Synth*.lean`

`PGM/Generated/GraphicalModelQG.lean` is produced on every run by `tools/py2gmq.py` from the current source of
`GraphicalModel.synthetic_data`, statement by statement: `syntheticCol` (the inner function: the sampling branch, the scaling
`counts *= total / counts.sum()`, `np.modf`, `astype(int)`, `extra = total - integ.sum()`, the draw of the extras and
`integ[idx] += 1`, `np.repeat(np.arange(n), integ)`, the shuffle), `syntheticFrame` (row count, reversed elimination order, the column
loop with `relevant`, the group-by and the three stores) and `syntheticData`.  The draws `np.random.choice` / `np.random.shuffle` are
contract parameters threading the generator state `g`; `GMQGen.RngOK` states what numpy guarantees about them.

Column level (this file): the generated rounding branch returns the shuffle of the model's `Synth.column counts total pick` for the
`pick` that was drawn, which is an admissible outcome (`pickOK`) — so the `synthetic_col` theorems of `Properties/C11.lean` hold for
the GENERATED code (`gen_col_length`, `gen_col_in_domain`, `gen_col_round`, `gen_col_colOK`).
Table level: `gen_syntheticFrame` (any mode, under `hlen`), `gen_syntheticFrame_sample`, and for the rounding mode — without any
per-slice hypothesis — `gen_synth_round`, `gen_synth_in_domain`, `gen_synth_support`, `gen_synth_clique_error(_marginal)`.
-/
namespace PGM.C11.GMQ
open PGM PGM.Synth PGM.GMQGen
set_option linter.unusedVariables false

section column
variable {G : Type} (cr cnr : G → Nat → Nat → List Rat → List Nat × G) (sh : G → List Nat → List Nat × G)

/-- **`synthetic_col`, rounding mode** (`method != 'sample'`): the value returned is the shuffle of the model's column
`np.repeat(np.arange(n), integ)` for the drawn extras; the generator state is threaded through the two draws in program order -/
theorem gen_syntheticCol_round (method : String) (hm : method ≠ "sample") (counts : List Rat) (total : Nat) (g : G)
    (h : CountsOK counts) :
    GMQ.syntheticCol cr cnr sh method counts total g
      = sh (stateAfterPick cnr counts total g) (column counts total (pickOf cnr counts total g)) :=
  syntheticCol_round_eq cr cnr sh method hm counts total g h

/-- … and the drawn extras are an admissible outcome of the model (`extra` distinct indices with positive fractional part) -/
theorem gen_pickOK (hr : RngOK cr cnr sh) (counts : List Rat) (total : Nat) (g : G) (h : CountsOK counts) :
    pickOK counts total (pickOf cnr counts total g) = true :=
  pickOf_ok cr cnr sh hr counts total g h

/-- **`synthetic_col`, sampling mode**: one draw with replacement from `counts / counts.sum()` -/
theorem gen_syntheticCol_sample (counts : List Rat) (total : Nat) (g : G) :
    GMQ.syntheticCol cr cnr sh "sample" counts total g = cr g counts.length total (counts.map (fun v => v / sumQ counts)) :=
  syntheticCol_sample cr cnr sh counts total g

/-- why `CountsOK` (nonnegative counts) is needed: `np.modf` truncates toward zero, the model takes `⌊·⌋` -/
example : GMQ.NpQ.trunc (-3/2) = -1 ∧ ((-3/2 : Rat).floor) = -2 := by decide +kernel

/-! ### the C11 column theorems for the generated code -/

/-- C11 `column_length` for the GENERATED `synthetic_col`: **exactly `total` values** -/
theorem gen_col_length (hr : RngOK cr cnr sh) (method : String) (hm : method ≠ "sample") (counts : List Rat) (total : Nat) (g : G)
    (h : CountsOK counts) : (GMQ.syntheticCol cr cnr sh method counts total g).1.length = total := by
  obtain ⟨pick, hp, hperm⟩ := syntheticCol_round cr cnr sh hr method hm counts total g h
  rw [hperm.length_eq]
  exact C11.column_length counts total pick h hp

/-- C11 `column_in_domain`: every value is an index of the attribute's domain -/
theorem gen_col_in_domain (hr : RngOK cr cnr sh) (method : String) (hm : method ≠ "sample") (counts : List Rat) (total : Nat) (g : G)
    (h : CountsOK counts) (v : Nat) (hv : v ∈ (GMQ.syntheticCol cr cnr sh method counts total g).1) : v < counts.length := by
  obtain ⟨pick, hp, hperm⟩ := syntheticCol_round cr cnr sh hr method hm counts total g h
  exact C11.column_in_domain counts total pick v (hperm.mem_iff.mp hv)

/-- C11 `colCounts_round`: value `i` is emitted `⌊xᵢ⌋` or `⌊xᵢ⌋ + 1` times — **rounding error below one, and nothing in a cell of
probability zero** -/
theorem gen_col_round (hr : RngOK cr cnr sh) (method : String) (hm : method ≠ "sample") (counts : List Rat) (total : Nat) (g : G)
    (h : CountsOK counts) (i : Nat) (hi : i < counts.length) :
    let x := (scaled counts total).getD i 0
    let o := (GMQ.syntheticCol cr cnr sh method counts total g).1.count i
    |(o : Rat) - x| < 1 ∧ (x = 0 → o = 0) ∧ (counts.getD i 0 = 0 → o = 0) := by
  obtain ⟨pick, hp, hperm⟩ := syntheticCol_round cr cnr sh hr method hm counts total g h
  simp only
  rw [hperm.count_eq, C11.column_count counts total pick i hi]
  exact C11.colCounts_round counts total pick h hp i hi

/-- C11 `colOK_of_pick`: the histogram of the generated column passes the verified checker `colOK` (the one the correspondence
run applies to every (column, group) of real tables, and `outsOK` of the table-level theorems asks for) -/
theorem gen_col_colOK (hr : RngOK cr cnr sh) (method : String) (hm : method ≠ "sample") (counts : List Rat) (total : Nat) (g : G)
    (h : CountsOK counts) :
    colOK counts total (hist counts.length (GMQ.syntheticCol cr cnr sh method counts total g).1) = true := by
  obtain ⟨pick, hp, hperm⟩ := syntheticCol_round cr cnr sh hr method hm counts total g h
  rw [hist_of_perm counts total pick _ hperm]
  exact C11.colOK_of_pick counts total pick h hp

/-- sampling mode: `total` values, each in the domain and of positive probability (no record in a zero cell) -/
theorem gen_col_sample (hr : RngOK cr cnr sh) (counts : List Rat) (total : Nat) (g : G) (h : CountsOK counts) :
    (GMQ.syntheticCol cr cnr sh "sample" counts total g).1.length = total ∧
    ∀ v ∈ (GMQ.syntheticCol cr cnr sh "sample" counts total g).1, v < counts.length ∧ 0 < counts.getD v 0 := by
  rw [gen_syntheticCol_sample]
  obtain ⟨h1, h2⟩ := hr.replace g counts.length total (counts.map (fun v => v / sumQ counts))
  refine ⟨h1, fun v hv => ?_⟩
  obtain ⟨hlt, hpos⟩ := h2 (posCount_probas h) v hv
  refine ⟨hlt, ?_⟩
  rw [List.getD_eq_getElem?_getD, List.getElem?_map, List.getElem?_eq_getElem hlt] at hpos
  simp only [Option.map_some, Option.getD_some] at hpos
  rw [List.getD_eq_getElem?_getD, List.getElem?_eq_getElem hlt, Option.getD_some]
  exact (div_pos_iff_of_pos_right h.pos).mp hpos

end column

/-! ## table level: the generated column loop IS the model's `synthTable`

`GMQGen.genSpecs project set_order domain cliques elimination_order` (`Proofs/GMQSynthTable.lean`) lists the steps the generated loop
performs — first `order[0]` unconditionally, then every later column of the REVERSED elimination order conditioned on
`proj = tuple(used ∩ ⋃{cl : col ∈ cl})` — as the model's `ColSpec`s: column position, conditioning positions, size, and the slice
`marg[key]` of `self.project(proj + (col,)).datavector(flatten=False)`.  `GroupbyOK` is the group-by contract (sorted distinct keys,
ascending row labels).  The hypothesis `hlen` (every call of `synthetic_col` returns as many values as asked for — pandas raises otherwise) holds in sampling
mode by `RngOK` (`gen_syntheticFrame_sample`); in rounding mode it holds for slices of positive mass only (`gen_col_length`), and the
section "ROUNDING mode" below removes it by the support induction (`gen_synth_round`). -/
section table
variable {G : Type}

/-- **the column loop of the generated `synthetic_data`** is `Synth.synthTable` for the steps `genSpecs` and some outcome lists, every
one of which is a value returned by the generated `synthetic_col` on the step's conditional slice and the size of its group; the
steps are well formed (`specsWF`) and the frame keeps the domain's columns -/
theorem gen_syntheticFrame (project : List Attr → Factor Rat) (set_order : List Attr → List Attr)
    (groupby : GMQ.DF → List Attr → List (List Nat × List Nat))
    (cr cnr : G → Nat → Nat → List Rat → List Nat × G) (sh : G → List Nat → List Nat × G)
    (domain : Dom) (cliques : List JT.Clique) (elimination_order : List Attr) (total : Rat)
    (rows : Option Nat) (method : String) (g : G)
    (hgb : GroupbyOK groupby)
    (hd : domain.attrs.Nodup) (hnd : elimination_order.Nodup) (hne : elimination_order ≠ [])
    (hsub : ∀ a ∈ elimination_order, a ∈ domain.attrs)
    (hso : ∀ s, (set_order s).Perm s)
    (hlen : ∀ counts n g, (GMQ.syntheticCol cr cnr sh method counts n g).1.length = n) :
    let N := match rows with | none => (Rat.floor total).toNat | some r => r
    let F := (GMQ.syntheticFrame project set_order groupby cr cnr sh domain cliques elimination_order total rows method g).1
    F.cols = domain.attrs ∧
    ∃ outs : List (List (List Nat)),
      F.rows = synthTable domain.attrs.length N (genSpecs project set_order domain cliques elimination_order) outs ∧
      outs.length = (genSpecs project set_order domain cliques elimination_order).length ∧
      specsWF domain.attrs.length [] (genSpecs project set_order domain cliques elimination_order) = true ∧
      (∀ sp o, (sp, o) ∈ List.zip (genSpecs project set_order domain cliques elimination_order) outs →
        ∀ og ∈ o, ∃ key g', og = (GMQ.syntheticCol cr cnr sh method (sp.cond key) og.length g').1) :=
  syntheticFrame_eq_synthTable project set_order groupby cr cnr sh domain cliques elimination_order total rows method g
    hgb hd hnd hne hsub hso hlen

/-- C11B `synthTable_length` for the GENERATED `synthetic_data`: **exactly the requested number of rows — by default the integer
part of the total** -/
theorem gen_synth_length (project : List Attr → Factor Rat) (set_order : List Attr → List Attr)
    (groupby : GMQ.DF → List Attr → List (List Nat × List Nat))
    (cr cnr : G → Nat → Nat → List Rat → List Nat × G) (sh : G → List Nat → List Nat × G)
    (domain : Dom) (cliques : List JT.Clique) (elimination_order : List Attr) (total : Rat)
    (rows : Option Nat) (method : String) (g : G)
    (hgb : GroupbyOK groupby)
    (hd : domain.attrs.Nodup) (hnd : elimination_order.Nodup) (hne : elimination_order ≠ [])
    (hsub : ∀ a ∈ elimination_order, a ∈ domain.attrs)
    (hso : ∀ s, (set_order s).Perm s)
    (hlen : ∀ counts n g, (GMQ.syntheticCol cr cnr sh method counts n g).1.length = n) :
    (GMQ.syntheticFrame project set_order groupby cr cnr sh domain cliques elimination_order total rows method g).1.rows.length
      = (match rows with | none => (Rat.floor total).toNat | some r => r) := by
  obtain ⟨_, outs, h, _⟩ := gen_syntheticFrame project set_order groupby cr cnr sh domain cliques elimination_order total rows
    method g hgb hd hnd hne hsub hso hlen
  rw [h]
  exact C11.synthTable_length _ _ _ _

/-- **sampling mode**: the table tie without any hypothesis on `synthetic_col` beyond the numpy contracts -/
theorem gen_syntheticFrame_sample (project : List Attr → Factor Rat) (set_order : List Attr → List Attr)
    (groupby : GMQ.DF → List Attr → List (List Nat × List Nat))
    (cr cnr : G → Nat → Nat → List Rat → List Nat × G) (sh : G → List Nat → List Nat × G) (hr : RngOK cr cnr sh)
    (domain : Dom) (cliques : List JT.Clique) (elimination_order : List Attr) (total : Rat)
    (rows : Option Nat) (g : G)
    (hgb : GroupbyOK groupby)
    (hd : domain.attrs.Nodup) (hnd : elimination_order.Nodup) (hne : elimination_order ≠ [])
    (hsub : ∀ a ∈ elimination_order, a ∈ domain.attrs)
    (hso : ∀ s, (set_order s).Perm s) :
    let N := match rows with | none => (Rat.floor total).toNat | some r => r
    let F := (GMQ.syntheticFrame project set_order groupby cr cnr sh domain cliques elimination_order total rows "sample" g).1
    F.cols = domain.attrs ∧ F.rows.length = N ∧
    ∃ outs : List (List (List Nat)),
      F.rows = synthTable domain.attrs.length N (genSpecs project set_order domain cliques elimination_order) outs := by
  have hlen : ∀ counts n g, (GMQ.syntheticCol cr cnr sh "sample" counts n g).1.length = n := by
    intro counts n g
    rw [gen_syntheticCol_sample]
    exact (hr.replace g counts.length n _).1
  obtain ⟨h1, outs, h2, _⟩ := gen_syntheticFrame project set_order groupby cr cnr sh domain cliques elimination_order total rows
    "sample" g hgb hd hnd hne hsub hso hlen
  exact ⟨h1, gen_synth_length project set_order groupby cr cnr sh domain cliques elimination_order total rows "sample" g
    hgb hd hnd hne hsub hso hlen, outs, h2⟩

/-- the group-by contract is satisfiable (by its own specification), and so is the set-order contract -/
example : GroupbyOK groupbySpec := groupbyOK_spec
example : ∀ s : List Attr, ((fun (s : List Attr) => s.reverse) s).Perm s := fun s => List.reverse_perm s

end table

/-! ## table level, ROUNDING mode: no per-slice hypothesis

`Proofs/GMQSynthRound.lean` + `Proofs/GMQSupport.lean` (the support induction: a group key occurs only if its conditional slice has
positive mass) discharge `hlen`.  What remains are hypotheses about the CHAIN of projected tables: `chainWF` (every conditional step
has an earlier step whose clique contains its conditioning attributes — what the junction tree gives; evaluated on every replay by
the C11 check), `margConsistent` (the tables `self.project` returns are marginals of one table of mass `S > 0` — C02
`gen_project_correct`), and nonnegative entries. -/
section round
variable {G : Type}

/-- **the generated `synthetic_data`, rounding mode**: the frame is `Synth.synthTable` on `genSpecs` for ADMISSIBLE outcome lists
(`outsOK`: every group's histogram passes the verified `colOK`), under the numpy contracts -/
theorem gen_synth_round (project : List Attr → Factor Rat) (set_order : List Attr → List Attr)
    (groupby : GMQ.DF → List Attr → List (List Nat × List Nat))
    (cr cnr : G → Nat → Nat → List Rat → List Nat × G) (sh : G → List Nat → List Nat × G) (hr : RngOK cr cnr sh)
    (domain : Dom) (cliques : List JT.Clique) (elimination_order : List Attr) (total : Rat)
    (rows : Option Nat) (method : String) (hm : method ≠ "sample") (g : G)
    (hgb : GroupbyOK groupby) (hnd : elimination_order.Nodup) (hne : elimination_order ≠ [])
    (hsub : ∀ a ∈ elimination_order, a ∈ domain.attrs) (hso : ∀ s, (set_order s).Perm s)
    (parent : Nat → Nat) (S : Rat) (hS : 0 < S)
    (hch : chainWF (genSpecs project set_order domain cliques elimination_order) parent = true)
    (hcons : margConsistent (genSpecs project set_order domain cliques elimination_order) parent S = true)
    (hnn : ∀ sp ∈ genSpecs project set_order domain cliques elimination_order, ∀ k, ∀ c ∈ sp.cond k, (0 : Rat) ≤ c) :
    let N := match rows with | none => (Rat.floor total).toNat | some r => r
    let F := (GMQ.syntheticFrame project set_order groupby cr cnr sh domain cliques elimination_order total rows method g).1
    F.cols = domain.attrs ∧
    ∃ outs : List (List (List Nat)),
      F.rows = synthTable domain.attrs.length N (genSpecs project set_order domain cliques elimination_order) outs ∧
      specsWF domain.attrs.length [] (genSpecs project set_order domain cliques elimination_order) = true ∧
      outsOK domain.attrs.length N (genSpecs project set_order domain cliques elimination_order) outs
        (List.replicate N (List.replicate domain.attrs.length 0)) = true :=
  syntheticFrame_round project set_order groupby cr cnr sh hr domain cliques elimination_order total rows method hm g
    hgb hnd hne hsub hso parent S hS hch hcons hnn

/-- C11B `synthTable_length`: exactly the requested number of rows, by default the integer part of the total -/
theorem gen_synth_length_round (project : List Attr → Factor Rat) (set_order : List Attr → List Attr)
    (groupby : GMQ.DF → List Attr → List (List Nat × List Nat))
    (cr cnr : G → Nat → Nat → List Rat → List Nat × G) (sh : G → List Nat → List Nat × G) (hr : RngOK cr cnr sh)
    (domain : Dom) (cliques : List JT.Clique) (elimination_order : List Attr) (total : Rat)
    (rows : Option Nat) (method : String) (hm : method ≠ "sample") (g : G)
    (hgb : GroupbyOK groupby) (hnd : elimination_order.Nodup) (hne : elimination_order ≠ [])
    (hsub : ∀ a ∈ elimination_order, a ∈ domain.attrs) (hso : ∀ s, (set_order s).Perm s)
    (parent : Nat → Nat) (S : Rat) (hS : 0 < S)
    (hch : chainWF (genSpecs project set_order domain cliques elimination_order) parent = true)
    (hcons : margConsistent (genSpecs project set_order domain cliques elimination_order) parent S = true)
    (hnn : ∀ sp ∈ genSpecs project set_order domain cliques elimination_order, ∀ k, ∀ c ∈ sp.cond k, (0 : Rat) ≤ c) :
    (GMQ.syntheticFrame project set_order groupby cr cnr sh domain cliques elimination_order total rows method g).1.rows.length
      = (match rows with | none => (Rat.floor total).toNat | some r => r) := by
  obtain ⟨_, outs, h, _⟩ := gen_synth_round project set_order groupby cr cnr sh hr domain cliques elimination_order total rows
    method hm g hgb hnd hne hsub hso parent S hS hch hcons hnn
  rw [h]
  exact C11.synthTable_length _ _ _ _

/-- C11B `synthTable_in_domain` for the GENERATED code: **every value inside its attribute's domain** (the size of the axis of the
projected table) -/
theorem gen_synth_in_domain (project : List Attr → Factor Rat) (set_order : List Attr → List Attr)
    (groupby : GMQ.DF → List Attr → List (List Nat × List Nat))
    (cr cnr : G → Nat → Nat → List Rat → List Nat × G) (sh : G → List Nat → List Nat × G) (hr : RngOK cr cnr sh)
    (domain : Dom) (cliques : List JT.Clique) (elimination_order : List Attr) (total : Rat)
    (rows : Option Nat) (method : String) (hm : method ≠ "sample") (g : G)
    (hgb : GroupbyOK groupby) (hnd : elimination_order.Nodup) (hne : elimination_order ≠ [])
    (hsub : ∀ a ∈ elimination_order, a ∈ domain.attrs) (hso : ∀ s, (set_order s).Perm s)
    (parent : Nat → Nat) (S : Rat) (hS : 0 < S)
    (hch : chainWF (genSpecs project set_order domain cliques elimination_order) parent = true)
    (hcons : margConsistent (genSpecs project set_order domain cliques elimination_order) parent S = true)
    (hnn : ∀ sp ∈ genSpecs project set_order domain cliques elimination_order, ∀ k, ∀ c ∈ sp.cond k, (0 : Rat) ≤ c) :
    ∀ r ∈ (GMQ.syntheticFrame project set_order groupby cr cnr sh domain cliques elimination_order total rows method g).1.rows,
      ∀ sp ∈ genSpecs project set_order domain cliques elimination_order, r.getD sp.col 0 < sp.size := by
  obtain ⟨_, outs, h, hwf, hok⟩ := gen_synth_round project set_order groupby cr cnr sh hr domain cliques elimination_order total rows
    method hm g hgb hnd hne hsub hso parent S hS hch hcons hnn
  rw [h]
  exact C11.synthTable_in_domain _ _ _ outs hwf hok

/-- C11B `synthTable_support` for the GENERATED code: **no record in a cell to which the model gives zero probability** -/
theorem gen_synth_support (project : List Attr → Factor Rat) (set_order : List Attr → List Attr)
    (groupby : GMQ.DF → List Attr → List (List Nat × List Nat))
    (cr cnr : G → Nat → Nat → List Rat → List Nat × G) (sh : G → List Nat → List Nat × G) (hr : RngOK cr cnr sh)
    (domain : Dom) (cliques : List JT.Clique) (elimination_order : List Attr) (total : Rat)
    (rows : Option Nat) (method : String) (hm : method ≠ "sample") (g : G)
    (hgb : GroupbyOK groupby) (hnd : elimination_order.Nodup) (hne : elimination_order ≠ [])
    (hsub : ∀ a ∈ elimination_order, a ∈ domain.attrs) (hso : ∀ s, (set_order s).Perm s)
    (parent : Nat → Nat) (S : Rat) (hS : 0 < S)
    (hch : chainWF (genSpecs project set_order domain cliques elimination_order) parent = true)
    (hcons : margConsistent (genSpecs project set_order domain cliques elimination_order) parent S = true)
    (hnn : ∀ sp ∈ genSpecs project set_order domain cliques elimination_order, ∀ k, ∀ c ∈ sp.cond k, (0 : Rat) ≤ c)
    (sp : ColSpec) (hsp : sp ∈ genSpecs project set_order domain cliques elimination_order) (key : List Nat) (v : Nat)
    (hz : (sp.cond key).getD v 0 = 0) :
    cellCount (sp.proj ++ [sp.col]) (key ++ [v])
      (GMQ.syntheticFrame project set_order groupby cr cnr sh domain cliques elimination_order total rows method g).1.rows = 0 := by
  obtain ⟨_, outs, h, hwf, hok⟩ := gen_synth_round project set_order groupby cr cnr sh hr domain cliques elimination_order total rows
    method hm g hgb hnd hne hsub hso parent S hS hch hcons hnn
  rw [h]
  exact C11.synthTable_support _ _ _ outs hwf hok sp hsp key v hz

/-- C11B `synthTable_clique_error` for the GENERATED code: **the count of every cell of every model clique visited by the loop differs
from the chain-rule target by at most `errBound`, which does not mention the number of rows** -/
theorem gen_synth_clique_error (project : List Attr → Factor Rat) (set_order : List Attr → List Attr)
    (groupby : GMQ.DF → List Attr → List (List Nat × List Nat))
    (cr cnr : G → Nat → Nat → List Rat → List Nat × G) (sh : G → List Nat → List Nat × G) (hr : RngOK cr cnr sh)
    (domain : Dom) (cliques : List JT.Clique) (elimination_order : List Attr) (total : Rat)
    (rows : Option Nat) (method : String) (hm : method ≠ "sample") (g : G)
    (hgb : GroupbyOK groupby) (hnd : elimination_order.Nodup) (hne : elimination_order ≠ [])
    (hsub : ∀ a ∈ elimination_order, a ∈ domain.attrs) (hso : ∀ s, (set_order s).Perm s)
    (parent : Nat → Nat) (S : Rat) (hS : 0 < S)
    (hch : chainWF (genSpecs project set_order domain cliques elimination_order) parent = true)
    (hcons : margConsistent (genSpecs project set_order domain cliques elimination_order) parent S = true)
    (hnn : ∀ sp ∈ genSpecs project set_order domain cliques elimination_order, ∀ k, ∀ c ∈ sp.cond k, (0 : Rat) ≤ c)
    (k : Nat) (hk : k < (genSpecs project set_order domain cliques elimination_order).length) (key : List Nat) (v : Nat)
    (hg : key.length = (specAt (genSpecs project set_order domain cliques elimination_order) k).proj.length) :
    let specs := genSpecs project set_order domain cliques elimination_order
    let N := match rows with | none => (Rat.floor total).toNat | some r => r
    |((cellCount ((specAt specs k).proj ++ [(specAt specs k).col]) (key ++ [v])
          (GMQ.syntheticFrame project set_order groupby cr cnr sh domain cliques elimination_order total rows method g).1.rows
          : Nat) : Rat) - target specs parent N k key v| ≤ (errBound specs parent k : Rat) := by
  intro specs N
  obtain ⟨_, outs, h, hwf, hok⟩ := gen_synth_round project set_order groupby cr cnr sh hr domain cliques elimination_order total rows
    method hm g hgb hnd hne hsub hso parent S hS hch hcons hnn
  rw [h]
  exact C11.synthTable_clique_error _ _ _ outs parent hwf hok hch hnn k hk key v hg

/-- … and the targets are the model's expected counts `N · μ / S` (C11B `synthTable_clique_error_marginal`) -/
theorem gen_synth_clique_error_marginal (project : List Attr → Factor Rat) (set_order : List Attr → List Attr)
    (groupby : GMQ.DF → List Attr → List (List Nat × List Nat))
    (cr cnr : G → Nat → Nat → List Rat → List Nat × G) (sh : G → List Nat → List Nat × G) (hr : RngOK cr cnr sh)
    (domain : Dom) (cliques : List JT.Clique) (elimination_order : List Attr) (total : Rat)
    (rows : Option Nat) (method : String) (hm : method ≠ "sample") (g : G)
    (hgb : GroupbyOK groupby) (hnd : elimination_order.Nodup) (hne : elimination_order ≠ [])
    (hsub : ∀ a ∈ elimination_order, a ∈ domain.attrs) (hso : ∀ s, (set_order s).Perm s)
    (parent : Nat → Nat) (S : Rat) (hS : 0 < S)
    (hch : chainWF (genSpecs project set_order domain cliques elimination_order) parent = true)
    (hcons : margConsistent (genSpecs project set_order domain cliques elimination_order) parent S = true)
    (hnn : ∀ sp ∈ genSpecs project set_order domain cliques elimination_order, ∀ k, ∀ c ∈ sp.cond k, (0 : Rat) ≤ c)
    (k : Nat) (hk : k < (genSpecs project set_order domain cliques elimination_order).length) (key : List Nat)
    (hg : key ∈ tuplesOver (attrSize (genSpecs project set_order domain cliques elimination_order))
      (specAt (genSpecs project set_order domain cliques elimination_order) k).proj) (v : Nat) :
    let specs := genSpecs project set_order domain cliques elimination_order
    let N := match rows with | none => (Rat.floor total).toNat | some r => r
    |((cellCount ((specAt specs k).proj ++ [(specAt specs k).col]) (key ++ [v])
          (GMQ.syntheticFrame project set_order groupby cr cnr sh domain cliques elimination_order total rows method g).1.rows
          : Nat) : Rat) - ((N : Nat) : Rat) / S * mu specs k key v| ≤ (errBound specs parent k : Rat) := by
  intro specs N
  obtain ⟨_, outs, h, hwf, hok⟩ := gen_synth_round project set_order groupby cr cnr sh hr domain cliques elimination_order total rows
    method hm g hgb hnd hne hsub hso parent S hS hch hcons hnn
  rw [h]
  exact C11.synthTable_clique_error_marginal _ _ _ outs parent S hwf hok hch hcons hnn k hk key hg v

end round

/-! ## the contracts are satisfiable: a deterministic generator, and the generated code computes -/
section examples

/-- `RngOK` is satisfiable: the generator without state of `Proofs/GMQRng.lean` (the extras go to the FIRST `k` indices of positive
probability, sampling repeats the first index of positive probability, the shuffle is the identity) -/
example : RngOK detR detNR detSh := detRngOK

/-- `CountsOK` is satisfiable -/
theorem exCountsOK : CountsOK [1, 1, 2] := ⟨by decide, by decide +kernel⟩

/-- … so the hypotheses of `gen_pickOK`, `gen_col_length`, `gen_col_in_domain`, `gen_col_round`, `gen_col_colOK`, `gen_col_sample` are -/
example := gen_pickOK detR detNR detSh detRngOK [1, 1, 2] 5 () exCountsOK
example := gen_col_length detR detNR detSh detRngOK "round" (by decide) [1, 1, 2] 5 () exCountsOK
example := gen_col_in_domain detR detNR detSh detRngOK "round" (by decide) [1, 1, 2] 5 () exCountsOK
example := gen_col_round detR detNR detSh detRngOK "round" (by decide) [1, 1, 2] 5 () exCountsOK 2 (by decide)
example := gen_col_colOK detR detNR detSh detRngOK "round" (by decide) [1, 1, 2] 5 () exCountsOK
example := gen_col_sample detR detNR detSh detRngOK [1, 1, 2] 5 () exCountsOK

/-- … and of `gen_syntheticFrame_sample`: a two-attribute domain, elimination order (b, a), the group-by specification, any `project` -/
example (project : List Attr → Factor Rat) :=
  gen_syntheticFrame_sample project (fun s => s) groupbySpec detR detNR detSh detRngOK [("a", 2), ("b", 3)] [["a", "b"]] ["b", "a"] 7
    none () groupbyOK_spec (by decide) (by decide) (by decide) (by decide) (fun s => List.Perm.refl s)

/-! ### the rounding-mode table theorems are not vacuous: a two-attribute model, five records -/

/-- `self.project` of a model over (a, b) with mass 4: `μ_a = [2, 2]`, `μ_ab = [[1, 1], [0, 2]]` (the cell a = 1, b = 0 is empty) -/
def exProject (as : List Attr) : Factor Rat :=
  if as = ["a"] then ⟨[("a", 2)], ⟨[2], #[2, 2]⟩⟩ else ⟨[("a", 2), ("b", 2)], ⟨[2, 2], #[1, 1, 0, 2]⟩⟩

def exDomain : Dom := [("a", 2), ("b", 2)]

theorem exChain : chainWF (genSpecs exProject (fun s => s) exDomain [["a", "b"]] ["b", "a"]) (fun k => k - 1) = true := by
  decide +kernel

theorem exCons : margConsistent (genSpecs exProject (fun s => s) exDomain [["a", "b"]] ["b", "a"]) (fun k => k - 1) 4 = true := by
  decide +kernel

theorem exEntries : ∀ as, ∀ x ∈ (exProject as).vals.data.toList, (0 : Rat) ≤ x := by
  intro as x hx
  unfold exProject at hx
  split at hx <;> simp at hx <;> rcases hx with rfl | rfl | rfl | rfl <;> norm_num

/-- all hypotheses of `gen_synth_round` / `gen_synth_in_domain` / `gen_synth_support` / `gen_synth_clique_error` hold here -/
example := gen_synth_round exProject (fun s => s) groupbySpec detR detNR detSh detRngOK exDomain [["a", "b"]] ["b", "a"] 5 none "round"
  (by decide) () groupbyOK_spec (by decide) (by decide) (by decide) (fun s => List.Perm.refl s) (fun k => k - 1) 4 (by norm_num)
  exChain exCons (hnn_of_entries exProject _ exDomain _ _ exEntries)

/-- five records over `[1, 1, 2]`: targets `1.25, 1.25, 2.5`, floors `1, 1, 2`, one extra to the first positive fraction -/
example : (GMQ.syntheticCol detR detNR detSh "round" [1, 1, 2] 5 ()).1 = [0, 0, 1, 2, 2] := by decide +kernel

/-- a zero cell stays empty, an integral target is never rounded up: targets `2, 0, 2` -/
example : (GMQ.syntheticCol detR detNR detSh "round" [1, 0, 1] 4 ()).1 = [0, 0, 2, 2] := by decide +kernel

example : (GMQ.syntheticCol detR detNR detSh "sample" [0, 1, 1] 3 ()).1 = [1, 1, 1] := by decide +kernel

end examples

end PGM.C11.GMQ
