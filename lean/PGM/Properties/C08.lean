import PGM.Proofs.CoherentSem
/-!
# C08 — the returned model is one coherent, valid distribution

* the three solvers as state machines over an arbitrary marginal oracle and loss
  (`PGM/Model/Solvers.lean`): what they hand back at every exit;
* the maximum-likelihood refit `mle` reproduces the marginals it was fitted to (junction-tree
  factorisation, `tau = 0`), so for RDA / IG — which return averaged iterates `w` and `mle w` — the
  stored marginals equal the marginals implied by the stored parameters; for MD the pair is
  `(θ, bp θ)` by construction;
* every answer of one parameter vector is the marginal of one explicit joint (C01 / C02:
  `bp_marginals`, `project_correct`, `project_sums_to_total`, `marginal_consistent`), hence finite,
  nonnegative, summing to the total, and mutually consistent.
-/
namespace PGM.C08
open PGM PGM.JT PGM.GM PGM.Sem PGM.Solvers PGM.Coherent

section solvers
variable {α : Type} [Scalar α]

/-- **mirror descent hands back a matching pair**: at every exit — any iteration count (0 included),
accepted or forced (25th) step, or the early `loss == 0` return — either the marginals are left
unset, or they are exactly `bp` of the returned parameters; for every oracle `bp` and every loss -/
theorem md_exit_pair (bp : CliqueVec α → CliqueVec α) (lossgrad : CliqueVec α → α × CliqueVec α)
    (iters : Nat) (theta0 : CliqueVec α) (alpha0 : α) :
    let r := mirrorDescent bp lossgrad iters theta0 alpha0
    r.marginals = none ∨ r.marginals = some (bp r.potentials) := by
  apply Coherent.md_exit_pair

/-- dual averaging / interior gradient return the refit of the marginals they return (or leave the
marginals unset on the early return) -/
theorem rda_exit (bp : CliqueVec α → CliqueVec α) (grad mleF : CliqueVec α → CliqueVec α) (d : Dom)
    (cliques : List Clique) (zeros : CliqueVec α) (iters : Nat) (theta0 : CliqueVec α) (L total : α) :
    let r := dualAveraging bp grad mleF d cliques zeros iters theta0 L total
    r.marginals = none ∨ ∃ w, r.marginals = some w ∧ r.potentials = mleF w := by
  apply Coherent.rda_exit

/-- the hand model of interior gradient ALWAYS stores marginals and returns their refit.  This is the source's behaviour only for
`L ≠ 0`: `interior_gradient` returns early when `L == 0`, leaving `marginals` UNSET, and the hand model has no such test
(`C04.InfG.ig_zero_differs` is the witness of the difference).  The statement about the code — "`L == 0`: nothing written, or
`potentials = mle(marginals)`" — is the one for the GENERATED solver: C08E `gen_solver_exits_every_loss` / `gen_estimate_pair`. -/
theorem ig_exit (bp : CliqueVec α → CliqueVec α) (grad mleF : CliqueVec α → CliqueVec α)
    (iters : Nat) (theta0 : CliqueVec α) (L total : α) :
    let r := interiorGradient bp grad mleF iters theta0 L total
    ∃ w, r.marginals = some w ∧ r.potentials = mleF w := by
  apply Coherent.ig_exit

end solvers

variable {K : Type} [Field K] [LinearOrder K] [IsStrictOrderedRing K]

/-- what `belief_propagation` returns is realisable (by `total · joint / Z`) -/
theorem bp_realisable (d : Dom) (cliques : List Clique) (t : Tree) (order : List (Clique × Clique))
    (pots : CliqueVec (LogOf K)) (hok : ModelOK d cliques t order pots) (total : LogOf K)
    (hcanon : ∀ p ∈ pots, p.2.dom = d.project p.1) (htot : 0 ≤ total.v) (hZ : partition d pots ≠ 0) :
    Realisable d cliques ((beliefPropagation cliques order pots total).map (fun p => (p.1, toPlain p.2))) := by
  apply Coherent.bp_realisable <;> assumption

/-- nonnegative combinations of realisable vectors are realisable (the averaged iterates of RDA/IG) -/
theorem realisable_combination (d : Dom) (cliques : List Clique) (x y : CliqueVec (PlainOf K)) (a b : K)
    (hd : d.WF) (hcl : ∀ c ∈ cliques, c.Nodup ∧ ∀ a ∈ c, a ∈ d.attrs) (hcn : cliques.Nodup)
    (ha : 0 ≤ a) (hb : 0 ≤ b) (hx : Realisable d cliques x) (hy : Realisable d cliques y) :
    Realisable d cliques (CliqueVec.addV (CliqueVec.smul ⟨a⟩ x) (CliqueVec.smul ⟨b⟩ y)) := by
  apply Coherent.realisable_combination <;> assumption

/-- **refit round trip**: for a junction tree whose cliques are listed in a running-intersection
order and any realisable marginal vector `w` of positive total mass `T`, the parameters `mle w`
(`tau = 0`, `0/0 = 0`) define a *normalised* distribution (`Z = 1`) whose clique marginals are
`w / T`; hence `belief_propagation(mle w)` with the model total `T` returns exactly `w` again: the
stored marginals equal the marginals implied by the stored parameters -/
theorem mle_roundtrip (d : Dom) (cliques : List Clique) (w : CliqueVec (PlainOf K))
    (hd : d.WF) (hcl : ∀ c ∈ cliques, c.Nodup ∧ ∀ a ∈ c, a ∈ d.attrs) (hcn : cliques.Nodup)
    (hcover : ∀ a ∈ d.attrs, ∃ c ∈ cliques, a ∈ c) (hsizes : ∀ p ∈ d, 0 < p.2)
    (hrip : RIPOrder cliques) (hw : Realisable d cliques w) (hT : 0 < mass d w (cliques.headD []))
    (c : Clique) (hc : c ∈ cliques) (σ : Attr → Nat) (hσ : d.Valid σ) :
    partition d (mle toLog cliques w) = 1 ∧
    marginal d (mle toLog cliques w) c σ = ((w.get c).sem σ).v / mass d w (cliques.headD []) := by
  apply Coherent.mle_roundtrip <;> assumption

end PGM.C08
