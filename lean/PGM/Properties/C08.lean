import PGM.Model.Solvers
namespace PGM.C08
end PGM.C08
