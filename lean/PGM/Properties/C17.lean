import PGM.Proofs.ConvexSem
import PGM.Proofs.ConvexCheck
import PGM.Proofs.OracleSem
/-!
# C17 — the convex region-graph oracle solves its variational problem

Model: `hazan_peng_shashua` with persisted messages (`RG.hpsSweep`, `RG.hpsLoop`, `RG.hps`) and the
objects of its derivation (`RG.thetaTilde`, `RG.lagrangianBeliefs`, `RG.dualValue`, `RG.primalValue`,
`RG.entropy`) in `PGM/Model/RegionGraph.lean`; real-number instance.

`F(q) = Σ_r ⟨θ_r, q_r⟩ + Σ_r H(q_r)` is the potential-weighted mass plus the sum of region entropies;
`D(λ) = T·Σ_r logsumexp(θ̃_r(λ))` its Lagrangian dual; `b_r(λ) = T·softmax(θ̃_r(λ))`.

* `belief_lagrangian_form` — what every sweep returns *is* `b(λ)` for the messages it leaves behind;
* `weak_duality` — `F(q) ≤ D(λ)` for every message vector and every locally consistent `q`
  (multiplier terms telescope along the edges; each region term is Gibbs' inequality);
* `strong_at_consistency` — if `b(λ)` agrees on every shared sub-region it attains `D(λ)`, hence
  **maximises `F` over all locally consistent pseudo-marginals**; `unique_at_zero_gap` — and it is the
  **unique** maximiser (strict Gibbs);
* `gap_bound` — for a feasible `b`, the optimum exceeds `F(b)` by at most `D(λ) − F(b)`: the
  a-posteriori certificate each run evaluates;
* `build_shape`, `shape_preserved`, `hps_certificate` — the hypotheses (`Shape`) hold for every graph
  produced by `RG.build` from duplicate-free cliques over the domain, are preserved by every sweep,
  and therefore the certificate holds for the messages and beliefs `RG.hps` actually returns;
* `hps_tables_normalised`, `hps_tables_valid_pos`, `hps_keys`, `hps_disjoint` — one valid table per region.

`partial`: that the sweeps *converge* (reach consistency) is not proved — it is the convergence theory
of norm-product BP — and is decided per input: sweeps are escalated until the edge disagreement is
≤ 1e-6·T, then the proved certificate decides optimality.  The statements that were false as first
written are kept as counterexample theorems (`weak_duality_needs_parents_nodup`,
`belief_lagrangian_form_needs_nodup`, `shape_not_preserved_without_down`).
-/
namespace PGM.C17
open PGM PGM.JT PGM.RG PGM.Convex PGM.Oracle

/-- the returned beliefs depend on the messages only through the upward messages and are
`total · softmax(θ̃_r)`: the model's last step of every sweep *is* `lagrangianBeliefs` (unit counting
numbers).  CORRECTED: needs `g.regions.Nodup` (`belief_lagrangian_form_needs_nodup`); no other
hypothesis on the graph, the potentials or the messages. -/
theorem belief_lagrangian_form (g : RG.Graph) (pot : Region → Factor ℝ) (T rho : ℝ) (msgs : Msgs ℝ)
    (hnd : g.regions.Nodup) :
    (hpsSweep g pot (fun _ => 1) T rho msgs).2.map (fun p => (p.1, p.2.datavector))
      = (lagrangianBeliefs g pot T (hpsSweep g pot (fun _ => 1) T rho msgs).1).map (fun p => (p.1, p.2.datavector)) :=
  PGM.Convex.belief_lagrangian_form g pot T rho msgs hnd

/-- **weak duality**: for every message vector and every locally consistent family `q`,
`F(q) ≤ D(λ)` — the multiplier terms telescope on consistent `q`, each region term is Gibbs'
inequality -/
theorem weak_duality (dom : Dom) (g : RG.Graph) (pot : Region → Factor ℝ) (T : ℝ) (msgs : Msgs ℝ)
    (q : CliqueVec ℝ) (hT : 0 < T) (hs : Shape dom g pot msgs) (hq : LocallyConsistent dom g T q) :
    primalValue g pot T q ≤ dualValue g pot T msgs :=
  PGM.Convex.weak_duality dom g pot T msgs q hT hs hq

/-- **gap certificate**: for any feasible family `b̃`, the optimum of the variational problem
exceeds `F(b̃)` by at most `D(λ) − F(b̃)` -/
theorem gap_bound (dom : Dom) (g : RG.Graph) (pot : Region → Factor ℝ) (T : ℝ) (msgs : Msgs ℝ)
    (b q : CliqueVec ℝ) (hT : 0 < T) (hs : Shape dom g pot msgs)
    (hb : LocallyConsistent dom g T b) (hq : LocallyConsistent dom g T q) :
    primalValue g pot T q - primalValue g pot T b ≤ dualValue g pot T msgs - primalValue g pot T b :=
  PGM.Convex.gap_bound dom g pot T msgs b q hT hs hb hq

/-- **strong duality at consistency**: if the beliefs `b(λ)` are themselves consistent along the
edges, they attain the dual value, hence maximise `F` over all locally consistent families -/
theorem strong_at_consistency (dom : Dom) (g : RG.Graph) (pot : Region → Factor ℝ) (T : ℝ) (msgs : Msgs ℝ)
    (hT : 0 < T) (hs : Shape dom g pot msgs)
    (hb : LocallyConsistent dom g T (lagrangianBeliefs g pot T msgs)) :
    primalValue g pot T (lagrangianBeliefs g pot T msgs) = dualValue g pot T msgs ∧
    ∀ q, LocallyConsistent dom g T q → primalValue g pot T q ≤ primalValue g pot T (lagrangianBeliefs g pot T msgs) :=
  PGM.Convex.strong_at_consistency dom g pot T msgs hT hs hb

/-- **uniqueness** (strict Gibbs): a locally consistent family that attains the dual value is the
Lagrangian belief family, table by table -/
theorem unique_at_zero_gap (dom : Dom) (g : RG.Graph) (pot : Region → Factor ℝ) (T : ℝ) (msgs : Msgs ℝ)
    (q : CliqueVec ℝ) (hT : 0 < T) (hs : Shape dom g pot msgs) (hq : LocallyConsistent dom g T q)
    (heq : primalValue g pot T q = dualValue g pot T msgs) :
    ∀ r ∈ g.regions, (q.get r).datavector = ((lagrangianBeliefs g pot T msgs).get r).datavector :=
  PGM.Convex.unique_at_zero_gap dom g pot T msgs q hT hs hq heq

/-- **`Shape` (and `MsgsDown`) hold for every `RG.build` graph with the initial messages**: the only
assumptions are on the inputs — a well-formed domain with positive sizes, cliques that are
duplicate-free lists of attributes of the domain, and potentials laid out on the regions -/
theorem build_shape (dom : Dom) (cliques : List Region) (convex minimal : Bool) (pot : Region → Factor ℝ)
    (hd : dom.WF) (hsz : ∀ p ∈ dom, 0 < p.2) (hcl : ∀ c ∈ cliques, c.Nodup ∧ ∀ a ∈ c, a ∈ dom.attrs)
    (hpot : ∀ r ∈ (RG.build cliques convex minimal).regions, (pot r).WF ∧ (pot r).dom = dom.project r) :
    Shape dom (RG.build cliques convex minimal) pot
        (initMessages dom (RG.build cliques convex minimal).messageOrder) ∧
      MsgsDown dom (RG.build cliques convex minimal)
        (initMessages dom (RG.build cliques convex minimal).messageOrder) :=
  PGM.Convex.build_shape dom cliques convex minimal pot hd hsz hcl hpot

/-- **the certificate for the convex oracle as run**: for `g = RG.build cliques true minimal`, the
messages `λ` and beliefs `b` returned by `hazan_peng_shashua` started from the initial messages
satisfy (1) `b = b(λ)` table by table, (2) `F(q) ≤ D(λ)` for every locally consistent `q`, hence
(3) if `b` is locally consistent it is optimal with zero gap -/
theorem hps_certificate (dom : Dom) (cliques : List Region) (minimal : Bool) (potentials : CliqueVec ℝ)
    (T rho conv : ℝ) (iters : Nat) (hT : 0 < T) (hit : 0 < iters)
    (hd : dom.WF) (hsz : ∀ p ∈ dom, 0 < p.2) (hcl : ∀ c ∈ cliques, c.Nodup ∧ ∀ a ∈ c, a ∈ dom.attrs)
    (hp : ∀ r ∈ (RG.build cliques true minimal).regions,
      (potentials.get r).WF ∧ (potentials.get r).dom = dom.project r) :
    let g := RG.build cliques true minimal
    let pot := potOf dom g potentials
    let out := RG.hps dom g (fun _ => 1) potentials T iters rho conv (initMessages dom g.messageOrder)
    out.1.map (fun p => (p.1, p.2.datavector))
        = (lagrangianBeliefs g pot T out.2.1).map (fun p => (p.1, p.2.datavector)) ∧
    Shape dom g pot out.2.1 ∧
    (∀ q, LocallyConsistent dom g T q → primalValue g pot T q ≤ dualValue g pot T out.2.1) ∧
    (LocallyConsistent dom g T (lagrangianBeliefs g pot T out.2.1) →
      primalValue g pot T (lagrangianBeliefs g pot T out.2.1) = dualValue g pot T out.2.1) :=
  PGM.Convex.hps_certificate dom cliques minimal potentials T rho conv iters hT hit hd hsz hcl hp

/-- **weak duality is false under the original hypotheses** (`Shape₀`, i.e. without
`parents_nodup`): a parent listed twice is subtracted twice -/
theorem weak_duality_needs_parents_nodup :
    ¬ ∀ (dom : Dom) (g : RG.Graph) (pot : Region → Factor ℝ) (T : ℝ) (msgs : Msgs ℝ) (q : CliqueVec ℝ),
      0 < T → Shape₀ dom g pot msgs → LocallyConsistent dom g T q →
      primalValue g pot T q ≤ dualValue g pot T msgs :=
  PGM.Convex.weak_duality_needs_parents_nodup 

/-- the statement as first written (no hypothesis on `g`) is false: on a region list with a
repeated region the belief *dictionary* has one entry per key, `lagrangianBeliefs` has one per
list element -/
theorem belief_lagrangian_form_needs_nodup :
    ¬ ∀ (g : RG.Graph) (pot : Region → Factor ℝ) (T rho : ℝ) (msgs : Msgs ℝ),
      (hpsSweep g pot (fun _ => 1) T rho msgs).2.map (fun p => (p.1, p.2.datavector))
        = (lagrangianBeliefs g pot T (hpsSweep g pot (fun _ => 1) T rho msgs).1).map
            (fun p => (p.1, p.2.datavector)) :=
  PGM.Convex.belief_lagrangian_form_needs_nodup 

/-- **`Shape` alone is not an invariant of the sweep** (the statement
`Shape dom g pot msgs → Shape dom g pot (hpsSweep …).1` is false): the upward update subtracts the
downward message `messages[p, r]`, whose layout `Shape` does not constrain -/
theorem shape_not_preserved_without_down :
    ¬ ∀ (dom : Dom) (g : RG.Graph) (pot : Region → Factor ℝ) (msgs : Msgs ℝ) (T rho : ℝ),
      Shape dom g pot msgs → Shape dom g pot (hpsSweep g pot (fun _ => 1) T rho msgs).1 :=
  PGM.Convex.shape_not_preserved_without_down 

theorem hps_tables_normalised (dom : Dom) (g : RG.Graph) (counting : RG.Region → ℝ) (pots : CliqueVec ℝ)
    (T : ℝ) (iters : Nat) (rho conv : ℝ) (msgs : RG.Msgs ℝ) (p : Clique × Factor ℝ)
    (hp : p ∈ (RG.hps dom g counting pots T iters rho conv msgs).1) :
    ∃ b : Factor ℝ, p.2 = RG.normalise T b :=
  PGM.Oracle.hps_tables_normalised dom g counting pots T iters rho conv msgs p hp

theorem hps_keys (dom : Dom) (g : RG.Graph) (counting : RG.Region → ℝ) (pots : CliqueVec ℝ)
    (T : ℝ) (iters : Nat) (rho conv : ℝ) (msgs : RG.Msgs ℝ) (hi : 0 < iters) (hnd : g.regions.Nodup) :
    (RG.hps dom g counting pots T iters rho conv msgs).1.map Prod.fst = g.regions :=
  PGM.Oracle.hps_keys dom g counting pots T iters rho conv msgs hi hnd

/-- **the convex oracle returns valid tables** under the same kind of hypotheses -/
theorem hps_tables_valid_pos (dom : Dom) (g : RG.Graph) (counting : RG.Region → ℝ) (pots : CliqueVec ℝ)
    (T : ℝ) (iters : Nat) (rho conv : ℝ) (msgs : RG.Msgs ℝ) (hT : 0 < T)
    (hpot : ∀ r ∈ g.regions, PosDom (RG.potOf dom g pots r).dom ∧
      ∀ p ∈ RG.look g.parents r, PosDom (RG.potOf dom g pots p).dom)
    (hsz : ∀ r ∈ g.regions, (RG.potOf dom g pots r).vals.data.size ≠ 0)
    (hm : PosMsgs msgs)
    (p : Clique × Factor ℝ) (hp : p ∈ (RG.hps dom g counting pots T iters rho conv msgs).1) :
    ValidTable T p.2 :=
  PGM.Oracle.hps_tables_valid_pos dom g counting pots T iters rho conv msgs hT hpot hsz hm p hp

theorem hps_disjoint (dom : Dom) (cliques : List Clique) (pots : CliqueVec ℝ) (T : ℝ) (iters : Nat)
    (rho conv : ℝ) (hi : 0 < iters) (hd : Disjoint cliques) (hnd : cliques.Nodup) (hne : ∀ c ∈ cliques, c ≠ [])
    (c : Clique) (hc : c ∈ cliques) :
    let g := RG.build cliques true true
    ((RG.hps dom g (fun _ => 1) pots T iters rho conv (RG.initMessages dom g.messageOrder)).1.get c).datavector
      = (RG.normalise T (pots.get c)).datavector :=
  PGM.Oracle.hps_disjoint dom cliques pots T iters rho conv hi hd hnd hne c hc

/-! ## the certificate for any graph that passes the executable check `RG.graphCheck`

The implementation iterates a Python `set` of regions, so its graph is the model's `buildOn` for *its own* region
order; each run exports that graph and evaluates `RG.graphCheck` on it (driver field `graph_check`). -/

/-- **soundness of the run-time check** -/
theorem graphCheck_sound {dom : Dom} {g : RG.Graph} (h : graphCheck dom g = true) :
    dom.WF ∧ (∀ p ∈ dom, 0 < p.2) ∧ g.regions.Nodup ∧ (∀ r ∈ g.regions, RegOK dom r) ∧ BuiltOK g :=
  PGM.Convex.graphCheck_sound h

/-- **the certificate for any exported graph that passes the run-time check**, cold start
(`initMessages`): the statement of `hps_certificate` with `graphCheck dom g = true` in place of
`g = RG.build …`; the potentials need to be laid out only on the regions that are model cliques -/
theorem hps_certificate_checked (dom : Dom) (g : RG.Graph) (potentials : CliqueVec ℝ)
    (T rho conv : ℝ) (iters : Nat) (hT : 0 < T) (hit : 0 < iters)
    (hchk : graphCheck dom g = true)
    (hp : ∀ r ∈ g.regions, g.cliques.contains r = true →
      (potentials.get r).WF ∧ (potentials.get r).dom = dom.project r) :
    let pot := potOf dom g potentials
    let out := RG.hps dom g (fun _ => 1) potentials T iters rho conv (initMessages dom g.messageOrder)
    out.1.map (fun p => (p.1, p.2.datavector))
        = (lagrangianBeliefs g pot T out.2.1).map (fun p => (p.1, p.2.datavector)) ∧
    Shape dom g pot out.2.1 ∧
    MsgsDown dom g out.2.1 ∧
    (∀ q, LocallyConsistent dom g T q → primalValue g pot T q ≤ dualValue g pot T out.2.1) ∧
    (LocallyConsistent dom g T (lagrangianBeliefs g pot T out.2.1) →
      primalValue g pot T (lagrangianBeliefs g pot T out.2.1) = dualValue g pot T out.2.1 ∧
      ∀ q, LocallyConsistent dom g T q →
        primalValue g pot T q ≤ primalValue g pot T (lagrangianBeliefs g pot T out.2.1)) :=
  PGM.Convex.hps_certificate_checked dom g potentials T rho conv iters hT hit hchk hp

/-- **warm start**: for any graph, any potentials and any persisted messages satisfying
`Shape ∧ MsgsDown`, the output of `hazan_peng_shashua` (any `iters > 0`) satisfies
(1) beliefs `= b(λ_out)` table by table, (2) `Shape` and (3) `MsgsDown` for `λ_out` (so the theorem
chains over successive calls), (4) `F(q) ≤ D(λ_out)` for every locally consistent `q`,
(5) zero gap if `b(λ_out)` is locally consistent -/
theorem hps_certificate_warm (dom : Dom) (g : RG.Graph) (potentials : CliqueVec ℝ)
    (T rho conv : ℝ) (iters : Nat) (msgs : Msgs ℝ) (hT : 0 < T) (hit : 0 < iters)
    (hs : Shape dom g (potOf dom g potentials) msgs) (hd : MsgsDown dom g msgs) :
    let pot := potOf dom g potentials
    let out := RG.hps dom g (fun _ => 1) potentials T iters rho conv msgs
    out.1.map (fun p => (p.1, p.2.datavector))
        = (lagrangianBeliefs g pot T out.2.1).map (fun p => (p.1, p.2.datavector)) ∧
    Shape dom g pot out.2.1 ∧
    MsgsDown dom g out.2.1 ∧
    (∀ q, LocallyConsistent dom g T q → primalValue g pot T q ≤ dualValue g pot T out.2.1) ∧
    (LocallyConsistent dom g T (lagrangianBeliefs g pot T out.2.1) →
      primalValue g pot T (lagrangianBeliefs g pot T out.2.1) = dualValue g pot T out.2.1 ∧
      ∀ q, LocallyConsistent dom g T q →
        primalValue g pot T q ≤ primalValue g pot T (lagrangianBeliefs g pot T out.2.1)) :=
  PGM.Convex.hps_certificate_warm dom g potentials T rho conv iters msgs hT hit hs hd

/-- the same for `RG.buildOn` on any duplicate-free list of well-formed regions (the
implementation's own iteration order) -/
theorem buildOn_passes_check (dom : Dom) (regions : List Region) (convex minimal : Bool)
    (hd : dom.WF) (hsz : ∀ p ∈ dom, 0 < p.2) (hnd : regions.Nodup) (hreg : ∀ r ∈ regions, RegOK dom r) :
    graphCheck dom (RG.buildOn regions convex minimal) = true :=
  PGM.Convex.buildOn_passes_check dom regions convex minimal hd hsz hnd hreg

end PGM.C17
