import PGM.Model.RegionGraph
import PGM.Model.FactorGraph
/-! C17 — The convex region-graph oracle solves its variational problem.
Statements and proofs to be added; the executable model is `PGM.RG` / `PGM.FG`. -/
namespace PGM.C17
end PGM.C17
