import PGM.Proofs.LocalSem
import PGM.Proofs.ExactDisjoint
/-!
# C18 — approximate (local) estimation is valid, and exact when nothing is relaxed

`LocalInference.mirror_descent_auto` is modelled in `PGM/Model/Local.lean` over an **abstract** marginal
oracle (`Ops`), so every theorem below holds for every oracle (`convex`, `approx`, `pairwise`, or a
user-supplied object), every loss and every loss trajectory.  The model's control decisions are
compared with the implementation's on every run (`mda_trace` / `mda_attempt`).

What is proved, clause by clause of the property:

* *completes without error* — the only failure outcomes of the model are `unbound` (`iters = 0`) and
  `recursion` (more restarts than fit on the interpreter's stack): `ok_or_named_failure`; a
  restart happens only on a loss increase at an iteration `t ≤ 50`, and each one halves the step size
  and starts again from the saved potentials and oracle state (`mda_ok`, third clause);
* *a table summing to the total for every clique* — the returned marginals are literally the output of
  an oracle call on the returned potentials (`mda_ok`, fourth clause); with the oracle theorems of C16
  (every oracle output is `normalise total (belief)`) that is a valid table;
* *a fit no worse than the uniform start* — **partial**: `early_losses_le_start` shows that every loss
  the loop records at `t ≤ 50` is at most the loss of the starting iterate, in particular the returned
  loss value for `iters ≤ 51`; the returned *tables* are one oracle call further on and their loss is
  never examined (known finding `local:worse-than-uniform:single-step`);
* *overlapping tables agree up to the feasibility tolerance the estimator enforces* — `mda_ok`,
  fifth clause: unless all 1000 extra oracle calls were used, the oracle's own feasibility test
  (`primal_feasibility(mu) < 1`) holds for the returned tables;
* *exact for disjoint cliques* — see the oracle-level theorems below (the approximate oracles coincide
  with `normalise total θ_c`, the exact marginal oracle of a product model); convergence of the descent
  itself is tested per input, not proved.
-/
namespace PGM.C18
open PGM PGM.Local
variable {α Θ M G σ : Type}

/-- **the anatomy of a successful call**, for every oracle, loss and step-size arithmetic -/
theorem mda_ok (O : Ops α Θ M G σ) (theta0 : Θ) (st0 : σ) (iters fuel k : Nat) (alpha : α)
    (r : Result α Θ M σ) (h : mda O theta0 st0 iters fuel k alpha = .ok r) :
    0 < iters ∧
    (∃ j, j < fuel ∧ r.alpha = iter O.half j alpha ∧ r.restarts = k + j ∧
      (∀ i < j, ∃ t, (attempt O theta0 st0 (iter O.half i alpha) iters).1 = .restart t) ∧
      ∃ s, attempt O theta0 st0 r.alpha iters = (.finished s, r.log) ∧ s.l = some r.l ∧ r.theta = s.theta) ∧
    (∃ st, r.mu = (O.bp st r.theta).1) ∧
    (r.post ≤ 1000 ∧ (r.post < 1000 → O.feasible r.mu = true)) ∧
    (r.log.length = iters ∧ ∀ e ∈ r.log, e.t ≤ 50 → e.worse = false) :=
  mda_ok_spec O theta0 st0 iters fuel k alpha r h

/-- a restart is only ever caused by a loss increase at an iteration `t ≤ 50` -/
theorem restart_only_on_early_increase (O : Ops α Θ M G σ) (theta0 : Θ) (st0 : σ) (alpha : α) (iters t : Nat)
    (h : (attempt O theta0 st0 alpha iters).1 = .restart t) :
    t ≤ 50 ∧ ∃ e, (attempt O theta0 st0 alpha iters).2.getLast? = some e ∧ e.t = t ∧ e.worse = true := by
  obtain ⟨new, h1, -, -, -, -, h6⟩ := loop_spec O iters 0
    { theta := theta0, mu := (O.bp st0 theta0).1, st := (O.bp st0 theta0).2, alpha := alpha, prev := none, l := none } []
  obtain ⟨a, e, b, c, d⟩ := h6 t h
  refine ⟨a, e, ?_, c, d⟩
  have : (attempt O theta0 st0 alpha iters).2 = new := by
    have h1' : (loop O iters 0 { theta := theta0, mu := (O.bp st0 theta0).1, st := (O.bp st0 theta0).2, alpha := alpha, prev := none, l := none } []).2 = new := by
      simpa using h1
    exact h1'
  rw [this]; exact b

/-- the call fails only for `iters = 0` or by exhausting the stack with restarts -/
theorem ok_or_named_failure (O : Ops α Θ M G σ) (theta0 : Θ) (st0 : σ) (iters fuel k : Nat) (alpha : α) :
    (∃ r, mda O theta0 st0 iters fuel k alpha = .ok r) ∨
    (mda O theta0 st0 iters fuel k alpha = .unbound ∧ iters = 0) ∨
    (mda O theta0 st0 iters fuel k alpha = .recursion ∧
      ∀ i < fuel, ∃ t, (attempt O theta0 st0 (iter O.half i alpha) iters).1 = .restart t) := by
  induction fuel generalizing k alpha with
  | zero => exact Or.inr (Or.inr ⟨rfl, by intro i hi; omega⟩)
  | succ fuel ih =>
    unfold mda
    generalize ha : attempt O theta0 st0 alpha iters = a
    obtain ⟨out, log⟩ := a
    cases out with
    | restart t =>
      simp only
      rcases ih (k + 1) (O.half alpha) with h | h | ⟨h1, h2⟩
      · exact Or.inl h
      · exact Or.inr (Or.inl h)
      · refine Or.inr (Or.inr ⟨h1, ?_⟩)
        intro i hi
        cases i with
        | zero => exact ⟨t, by simp [iter, ha]⟩
        | succ i => simpa [iter] using h2 i (by omega)
    | finished s =>
      simp only
      cases hl : s.l with
      | some l => exact Or.inl ⟨_, rfl⟩
      | none =>
        refine Or.inr (Or.inl ⟨rfl, ?_⟩)
        -- the loop ran to the end without recording a loss: it did not run at all
        obtain ⟨new, h1, -, -, -, h5, -⟩ := loop_spec O iters 0
          { theta := theta0, mu := (O.bp st0 theta0).1, st := (O.bp st0 theta0).2, alpha := alpha, prev := none, l := none } []
        have hatt : attempt O theta0 st0 alpha iters = loop O iters 0
          { theta := theta0, mu := (O.bp st0 theta0).1, st := (O.bp st0 theta0).2, alpha := alpha, prev := none, l := none } [] := rfl
        rw [hatt] at ha
        obtain ⟨hlen, -, hlast, -⟩ := h5 s (by rw [ha])
        rw [hl] at hlast
        cases hnew : new.getLast? with
        | none =>
          have : new = [] := by simpa using hnew
          subst this; simpa using hlen.symm
        | some e => simp [hnew] at hlast

/-- **"no worse than the start", as far as the loop enforces it** (`partial`: the returned tables are
one oracle call beyond the last loss that was looked at) -/
theorem early_losses_le_start [LinearOrder α] (O : Ops α Θ M G σ) (hgt : ∀ l p, O.gt l p = true ↔ p < l)
    (theta0 : Θ) (st0 : σ) (iters fuel k : Nat) (alpha : α) (r : Result α Θ M σ)
    (h : mda O theta0 st0 iters fuel k alpha = .ok r) :
    (∀ e ∈ r.log, e.t ≤ 50 → e.l ≤ (O.loss (O.bp st0 theta0).1).1) ∧
    (iters ≤ 51 → r.l ≤ (O.loss (O.bp st0 theta0).1).1) :=
  mda_early_losses_le_start O hgt theta0 st0 iters fuel k alpha r h

/-- the feasibility phase makes at most `n` oracle calls, all with the final potentials, and stops as
soon as the oracle's feasibility test holds -/
theorem post_phase (O : Ops α Θ M G σ) (theta : Θ) (n : Nat) (mu : M) (st : σ) (k : Nat) :
    k ≤ (post O theta n mu st k).2.2 ∧ (post O theta n mu st k).2.2 ≤ k + n ∧
    ((post O theta n mu st k).2.2 < k + n → O.feasible (post O theta n mu st k).1 = true) ∧
    (((post O theta n mu st k).2.2 = k ∧ (post O theta n mu st k).1 = mu ∧ (post O theta n mu st k).2.1 = st) ∨
      ∃ st', (post O theta n mu st k).1 = (O.bp st' theta).1 ∧ (post O theta n mu st k).2.1 = (O.bp st' theta).2) :=
  post_spec O theta n mu st k

/-- an oracle without a damping attribute (`FactorGraph`) is left exactly as its own calls left it:
the late step-halving branch only touches the step size -/
theorem no_damping_no_bump (O : Ops α Θ M G σ) (h : O.bump = none) (st : σ) : applyBump O st = st := by
  simp [applyBump, h]

/-! ## when nothing is relaxed the oracles coincide with exact inference -/
section exact
open PGM.JT PGM.GM PGM.Sem PGM.ExactDisjoint

/-! **disjoint measured cliques: local and global consistency coincide.**  On every valid junction tree for the
family, exact inference (`GM.beliefPropagation`, C01) and each of the three approximate oracles return the same
table for every clique, for every sweep count and message state: approximate and exact estimation run their
descent over the same marginal map (that both then reach the optimum is the tested convergence clause) -/
/-- **the exact oracle and the approximate oracles coincide on a disjoint family**: exact
junction-tree belief propagation (C01) on *any* junction tree and schedule accepted by the checker
for the family, run on the exp-space image of the potentials with total `T`, returns on every
clique a table over that clique's attributes whose cells are those returned by generalised belief
propagation, by the convex oracle and by loopy belief propagation -/
theorem exact_eq_approx_disjoint (d : Dom) (cliques : List Clique) (t : Tree)
    (order : List (Clique × Clique)) (pots : CliqueVec ℝ)
    (hok : ModelOK d cliques t order (expPots pots))
    (hdis : Oracle.Disjoint cliques) (hne : ∀ c ∈ cliques, c ≠ [])
    (hpot : ∀ p ∈ pots, p.2.WF ∧ p.2.dom = d.project p.1)
    (T : ℝ) (hT : 0 < T) (i₁ i₂ i₃ : Nat) (rho conv : ℝ) (hi : 0 < i₂) (m₁ m₂ : RG.Msgs ℝ)
    (c : Clique) (hc : c ∈ cliques) (σ : Attr → Nat) (hσ : d.Valid σ) :
    ((GM.beliefPropagation cliques order (expPots pots) ⟨T⟩).get c).dom.attrs = c ∧
    (((GM.beliefPropagation cliques order (expPots pots) ⟨T⟩).get c).sem σ).v
      = ((RG.gbp d (RG.build cliques false true) pots T i₁ m₁).1.get c).sem σ ∧
    (((GM.beliefPropagation cliques order (expPots pots) ⟨T⟩).get c).sem σ).v
      = ((RG.hps d (RG.build cliques true true) (fun _ => 1) pots T i₂ rho conv m₂).1.get c).sem σ ∧
    (((GM.beliefPropagation cliques order (expPots pots) ⟨T⟩).get c).sem σ).v
      = ((FG.lbp d cliques pots T i₃ (FG.initMessages d cliques)).1.get c).sem σ :=
  PGM.ExactDisjoint.exact_eq_approx_disjoint d cliques t order pots hok hdis hne hpot T hT i₁ i₂ i₃ rho conv hi m₁ m₂ c hc σ hσ

end exact

/-- two oracles that agree as functions drive `mirror_descent_auto` identically -/
theorem mda_congr_oracle (O O' : Ops α Θ M G σ) (hbp : O.bp = O'.bp) (hl : O.loss = O'.loss) (hu : O.upd = O'.upd)
    (hf : O.feasible = O'.feasible) (hb : O.bump = O'.bump) (hg : O.gt = O'.gt) (hh : O.half = O'.half)
    (theta0 : Θ) (st0 : σ) (iters fuel k : Nat) (alpha : α) :
    mda O theta0 st0 iters fuel k alpha = mda O' theta0 st0 iters fuel k alpha := by
  have : O = O' := by
    cases O; cases O'; simp_all
  rw [this]

end PGM.C18
