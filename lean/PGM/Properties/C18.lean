import PGM.Model.RegionGraph
import PGM.Model.FactorGraph
/-! C18 — Approximate estimation is valid, and exact when nothing is relaxed.
Statements and proofs to be added; the executable model is `PGM.RG` / `PGM.FG`. -/
namespace PGM.C18
end PGM.C18
