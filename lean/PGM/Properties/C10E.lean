import PGM.Proofs.E2EZeros
import PGM.Properties.C08E
import PGM.Properties.C10G
import PGM.Properties.C02E
import PGM.Proofs.CellsPos
/-!
# C10 (end to end) — declared zero cells through the GENERATED `_setup`, solver updates, `belief_propagation` and `project`

Composition of the ties of `src/mbi/inference.py` (py2est: `__init__` zero loop, `_setup`, `estimate`, solver heads; py2inf:
solver bodies), of `graphical_model.py` (py2gm, py2gminit, py2gmq: `belief_propagation` / `project` on the generated `__init__`)
with the C10 theorems, at the exp-space reading `LogOf K` of the parameters (`-np.inf` is exp-space `0`), as in C10G.

What is proved (each statement is about ARBITRARY potentials / gradients / loss functions — none runs the generated
`_marginal_loss` at `LogOf K`, see the audit finding below):

* `gen_setup_zerosIn` — generated `__init__` zero loop + generated `_setup`, cold call or first call: the stored parameters
  are laid out on the model's cliques and their joint vanishes on every assignment extending a declared cell
  (warm start with a previous model: C10G `gen_warm_keeps_combine` — the zeros are `combine`d in first; that the further
  `combine(previous.potentials)` keeps them needs the previous parameters to be tables over their own cliques inside the
  same domain, and a `combine` lemma for arbitrary such tables, which is NOT proved here);
* **`gen_md_keeps_zeros_bp`** (headline; `gen_md_keeps_zeros` with the stronger `hgrad`) — the generated `mirror_descent` body, EVERY
  marginal oracle, EVERY loss/gradient function whose gradient is laid out on the model's cliques at the oracle's answers, every step
  size `α`, every iteration count, every exit: the returned parameters still have the `−∞` cells (`θ − α·dL`);
  `gen_rda_rebuild_has_zeros` — the parameters RDA rebuilds, `combine(c·gbar, structural_zeros)`, have them whatever
  `gbar`; `gen_ig_update_keeps_zeros` — IG's `θ − (a/c/total)·g` keeps them;
* **`gen_zero_in_all_answers_of_pots`** (independent of the solver run) — for the model built by the generated `__init__` and ANY
  potentials with `ZerosIn`: the marginal onto any tuple containing a zero clique vanishes on the declared cells (C10
  `zero_in_all_answers`), hence (C01E / C02E; nonnegative cells, `Z ≠ 0`) every table of the generated `belief_propagation` and every
  answer of the generated `project` (cached or not) is `0` there;
* `gen_md_from_setup_zeros_every_loss` — the three composed: `_setup`, then the generated `mirror_descent` with the generated oracle and
  an ARBITRARY loss function with laid-out gradient: zeros and sign of the returned parameters, stored tables `0` on declared cells;
  `gen_hgrad` — the layout hypothesis holds for the generated `_marginal_loss` (both metrics);
  `gen_setup_potentials_sign`, `gen_md_keeps_sign` — exp-space sign of the parameters (`≥ 0`; `> 0` without declared zeros).

**Audit finding** (independent audit, `audit/scratch/c10_vacuous.lean`, `c10_sat.lean`; machine-checked as
`C08E.md_run_degenerate_at_LogOf`, restated for this file as `md_zeros_run_degenerate_at_LogOf`).  Earlier versions stated
`gen_estimate_zeros_end_to_end{,_bp,_closed,_L2,_L1}`, `gen_estimate_potentials_sign`, `gen_estimate_answers_valid_closed` / `_nozeros`
about the object the generated `estimate(engine='MD')` returns AT THE SCALAR TYPE `LogOf K`.  There `mul x _ := x` / `div x _ := x`
make the generated `_marginal_loss` constantly `⟨1⟩ = 0`, so the generated MD always takes the `ans[0] == 0` early return:
`marginals` unset, potentials those of `_setup`.  Clause 3 (stored tables) and the `answers_valid` theorems were VACUOUS; clauses 1–2
and the sign theorem only restated `_setup`.  All of them are DELETED.  `…_L1` with engine MD also contradicted the source:
`mirror_descent` asserts a smooth loss (`metric='L1'` with MD raises `AssertionError` unless a step size is given).
The bridge from these exp-space statements to a log-space (`Float`) run is the scalar homomorphism `exp`; it is exercised by the
C08 / C10 correspondence runs, not proved (see the header of C08E).

RDA / IG: the per-step facts are here (`gen_rda_rebuild_has_zeros`, `gen_ig_update_keeps_zeros`); the end-to-end statement
for their returned pair `(mle w, w)` needs the two-sorted run described in C08E and is open.
-/
namespace PGM.C10E
open PGM PGM.JT PGM.Sem PGM.Zeros PGM.EstG PGM.EstGen PGM.C01E PGM.C13G PGM.C08E PGM.C10G PGM.E2EZeros
set_option linter.unusedSectionVars false
set_option linter.unusedVariables false

variable {K : Type} [Field K] [LinearOrder K] [IsStrictOrderedRing K] {V Cb : Type}

/-! ## `_setup` -/

/-- **zeros installed by the generated `_setup`** (cold call, or first call of any estimator), as a fact about the whole
stored vector: laid out on `model.cliques`, joint `0` wherever a declared cell is hit -/
theorem gen_setup_zerosIn (gmc : Dom → List Clique → Option (List Attr) → List Clique) (s : Est (LogOf K))
    (zs : List ZeroSpec) (hzs : s.cfg.structural_zeros = zeroVec s.cfg.domain zs)
    (hfresh : s.cfg.warm_start = false ∨ s.model = none) (ms : List (Loss.Meas (LogOf K))) (hd : s.cfg.domain.WF)
    (hsizes : ∀ p ∈ s.cfg.domain, 0 < p.2)
    (hcl : ∀ q ∈ modelCliques gmc s.cfg ms, q.Nodup ∧ ∀ a ∈ q, a ∈ s.cfg.domain.attrs)
    (hcn : (modelCliques gmc s.cfg ms).Nodup)
    (hz : ∀ z ∈ zs, z.zc.Nodup ∧ (∀ a ∈ z.zc, a ∈ s.cfg.domain.attrs) ∧
      ∃ q ∈ modelCliques gmc s.cfg ms, JT.subset z.zc q = true) :
    ZerosIn s.cfg.domain (modelCliques gmc s.cfg ms) zs (theta0 gmc s ms) := by
  have hθ : theta0 gmc s ms
      = CliqueVec.combine (CliqueVec.zerosV s.cfg.domain (modelCliques gmc s.cfg ms)) (zeroVec s.cfg.domain zs) := by
    unfold theta0
    rw [← hzs]
    rcases hfresh with h | h
    · simp [Engine.initialTheta, cfgOf, h]
    · obtain ⟨c, m, g⟩ := s
      simp only at h
      subst h
      exact C13.first_call_initial (cfgOf c) _
  rw [hθ]
  exact zerosIn_combine _ _ zs hd hcl hcn hz hsizes _ (vecOK_zerosV _ _ hcl)

/-! ## the solver bodies -/

/-- **the generated `mirror_descent` keeps the zeros**: every marginal oracle, every loss/gradient function whose gradient
is laid out on the model's cliques, every iteration count (0 included), accepted and exhausted line searches, early return -/
theorem gen_md_keeps_zeros (d : Dom) (cliques : List Clique) (zs : List ZeroSpec) (hd : d.WF)
    (hcl : ∀ c ∈ cliques, c.Nodup ∧ ∀ a ∈ c, a ∈ d.attrs) (hcn : cliques.Nodup)
    (bp : CliqueVec (LogOf K) → CliqueVec (LogOf K)) (lossgrad : CliqueVec (LogOf K) → LogOf K × CliqueVec (LogOf K))
    (hgrad : ∀ m, VecOK d cliques (lossgrad m).2) (iters : Nat) (theta0 : CliqueVec (LogOf K)) (total : LogOf K)
    (h0 : ZerosIn d cliques zs theta0) :
    ZerosIn d cliques zs (InfG.mirrorDescent bp lossgrad iters theta0 total).potentials :=
  (E2EGen.md_inv (ZerosIn d cliques zs) bp lossgrad iters theta0 total h0
    (fun omega al m hω => zerosIn_update d cliques zs hd hcl hcn omega _ al hω (hgrad m))).1

/-- the same with the layout of the gradient asked only where the loop evaluates it: at the oracle's answer on parameters
laid out on the model's cliques (`E2EGen.md_inv_bp`) -/
theorem gen_md_keeps_zeros_bp (d : Dom) (cliques : List Clique) (zs : List ZeroSpec) (hd : d.WF)
    (hcl : ∀ c ∈ cliques, c.Nodup ∧ ∀ a ∈ c, a ∈ d.attrs) (hcn : cliques.Nodup)
    (bp : CliqueVec (LogOf K) → CliqueVec (LogOf K)) (lossgrad : CliqueVec (LogOf K) → LogOf K × CliqueVec (LogOf K))
    (hgrad : ∀ θ, VecOK d cliques θ → VecOK d cliques (lossgrad (bp θ)).2) (iters : Nat) (theta0 : CliqueVec (LogOf K))
    (total : LogOf K) (h0 : ZerosIn d cliques zs theta0) :
    ZerosIn d cliques zs (InfG.mirrorDescent bp lossgrad iters theta0 total).potentials :=
  (E2EGen.md_inv_bp (ZerosIn d cliques zs) bp lossgrad iters theta0 total h0
    (fun omega al hω => zerosIn_update d cliques zs hd hcl hcn omega _ al hω (hgrad omega hω.1))).1

/-- **dual averaging's rebuilt parameters have the zeros**: `theta = c * gbar; theta.combine(self.structural_zeros)` — for
every averaged gradient `gbar` laid out on the model's cliques and every scalar `c` -/
theorem gen_rda_rebuild_has_zeros (d : Dom) (cliques : List Clique) (zs : List ZeroSpec) (hd : d.WF)
    (hcl : ∀ c ∈ cliques, c.Nodup ∧ ∀ a ∈ c, a ∈ d.attrs) (hcn : cliques.Nodup)
    (hz : ∀ z ∈ zs, z.zc.Nodup ∧ (∀ a ∈ z.zc, a ∈ d.attrs) ∧ ∃ c ∈ cliques, JT.subset z.zc c = true)
    (hsizes : ∀ p ∈ d, 0 < p.2) (c : LogOf K) (gbar : CliqueVec (LogOf K)) (hg : VecOK d cliques gbar) :
    ZerosIn d cliques zs (CliqueVec.combine (CliqueVec.smul c gbar) (zeroVec d zs)) :=
  zerosIn_combine d cliques zs hd hcl hcn hz hsizes _ (smul_vecOK d cliques c gbar hg)

/-- **interior gradient's update keeps the zeros**: `theta = theta - a/c/total * g` -/
theorem gen_ig_update_keeps_zeros (d : Dom) (cliques : List Clique) (zs : List ZeroSpec) (hd : d.WF)
    (hcl : ∀ c ∈ cliques, c.Nodup ∧ ∀ a ∈ c, a ∈ d.attrs) (hcn : cliques.Nodup) (theta g : CliqueVec (LogOf K))
    (k : LogOf K) (hθ : ZerosIn d cliques zs theta) (hg : VecOK d cliques g) :
    ZerosIn d cliques zs (CliqueVec.subV theta (CliqueVec.smul k g)) :=
  zerosIn_update d cliques zs hd hcl hcn theta g k hθ hg

/-! ## the answers computed from ANY potentials that carry the zeros (no solver run) -/

/-- what `ZerosIn` gives the C01E theorems: a potential vector over the generated model's cliques -/
theorem potsOK_of_vecOK (d : Dom) (cliques : List Clique) (hcl : ∀ c ∈ cliques, c.Nodup ∧ ∀ a ∈ c, a ∈ d.attrs)
    (θ : CliqueVec (LogOf K)) (hθ : VecOK d cliques θ) (hnn : ∀ p ∈ θ, ∀ x ∈ p.2.vals.data.toList, 0 ≤ x.v) :
    PotsOK d cliques θ where
  keys := hθ.1
  pot_ok := fun p hp => by
    have hp1 : p.1 ∈ cliques := by rw [← hθ.1]; exact List.mem_map_of_mem hp
    obtain ⟨h1, h2⟩ := hθ.2 p hp
    obtain ⟨ok, hattrs⟩ := Coherent.factorOK_of_dom d p.2 p.1 h1 h2 (hcl p.1 hp1).2
    exact ⟨h1, hattrs ▸ List.Perm.refl _, ok.2.1⟩
  nonneg := hnn

/-- **STRUCTURAL ZEROS IN EVERY ANSWER, FROM THE POTENTIALS ALONE (generated `__init__`, `belief_propagation`, `project`; exp-space
reading; independent of the solver run).**  Let `g` be any model record (only the constructor arguments `domain`, `inCliques`, `elim`,
`total` are read; `gmOf nx g` is what the generated `__init__` builds, under any admissible behaviour of the library contracts), and
let `p` be ANY potential vector with `ZerosIn` on the cliques of the generated model — laid out on them, exp-space product `0` at every
assignment extending a declared cell (`-inf` potential).  Then

1. (C10 `zero_in_all_answers`) the marginal of the product of `p` onto ANY attribute tuple containing a zero clique vanishes at every
   assignment extending a declared cell of it;

and if moreover the cells of `p` are nonnegative, `Z ≠ 0` and `total > 0`:

2. (C01E) every table the GENERATED `belief_propagation` computes from `p` is `0` at the declared cells of every zero clique it contains;
3. (C02E) every answer of the GENERATED `project` — on an object without `marginals` (variable elimination on `p`) and on an object
   whose `marginals` is the generated store for `p` (cache hit or miss), for every admissible `greedy_order` — is `0` there.

`gen_md_keeps_zeros_bp` supplies `ZerosIn` for the potentials the generated `mirror_descent` returns (every loss, every step size). -/
theorem gen_zero_in_all_answers_of_pots (nx : Nx) (g : GM (LogOf K)) (hd : g.domain.WF) (hne : g.domain.attrs ≠ [])
    (hin : ∀ c ∈ g.inCliques, c.Nodup ∧ ∀ x ∈ c, x ∈ g.domain.attrs)
    (hadm : Admissible nx g.domain g.inCliques (modeOf g.elim))
    (zs : List ZeroSpec) (p : CliqueVec (LogOf K)) (hZI : ZerosIn g.domain (gmOf nx g).cliques zs p) :
    (∀ z ∈ zs, ∀ (as : List Attr) (σ : Attr → Nat), (∀ x ∈ z.zc, x ∈ as) → Hits z σ → g.domain.Valid σ →
      marginal g.domain p as σ = 0) ∧
    ((∀ q ∈ p, ∀ x ∈ q.2.vals.data.toList, 0 ≤ x.v) → partition g.domain p ≠ 0 → 0 < g.total.v →
      (∀ z ∈ zs, ∀ c ∈ (gmOf nx g).cliques, (∀ x ∈ z.zc, x ∈ c) → ∀ σ, g.domain.Valid σ → Hits z σ →
        (((bpO nx g p).get c).sem σ).v = 0) ∧
      (∀ z ∈ zs, ∀ (greedy : Dom → List Clique → List Attr → List Attr) (b : Bool) (attrs : List Attr),
        attrs.Nodup → (∀ x ∈ attrs, x ∈ g.domain.attrs) → (∀ x ∈ z.zc, x ∈ attrs) →
        GMQGen.ElimOK g.domain attrs (greedy g.domain ((gmOf nx g).cliques ++ [attrs]) (g.domain.invert attrs)) →
        ∀ σ, g.domain.Valid σ → Hits z σ →
        ((C02E.genProjectU nx g.domain g.inCliques (modeOf g.elim) g.total p greedy b attrs).sem σ).v = 0 ∧
        ((C02E.genProjectC nx g.domain g.inCliques (modeOf g.elim) g.total p greedy b attrs).sem σ).v = 0)) := by
  have hmz : ∀ z ∈ zs, ∀ (as : List Attr) (σ : Attr → Nat), (∀ x ∈ z.zc, x ∈ as) → Hits z σ → g.domain.Valid σ →
      marginal g.domain p as σ = 0 := fun z hzm as σ hzc hit hσ =>
    C10.zero_in_all_answers g.domain p z as σ hd hzc (fun τ hτ h => hZI.2 τ hτ ⟨z, hzm, h⟩) hσ hit
  refine ⟨hmz, fun hnn hZ htot => ?_⟩
  have hcl := (gen_init_cliques_ok nx g.domain g.inCliques g.total (modeOf g.elim) hd hne hin hadm).2.2
  have hpots : PotsOK g.domain (gmOf nx g).cliques p := potsOK_of_vecOK _ _ hcl p hZI.1 hnn
  have hcall : C02E.CallOK nx g.domain g.inCliques (modeOf g.elim) g.total p := ⟨hd, hne, hin, hadm, hpots, htot, hZ⟩
  refine ⟨fun z hzm c hc hzc σ hσ hit => ?_, fun z hzm greedy b attrs hnd hsub hzc hg σ hσ hit => ⟨?_, ?_⟩⟩
  · have key := (gen_exact_inference_end_to_end nx g.domain g.inCliques (modeOf g.elim) g.total hd hne hin hadm p hpots hZ htot c hc
      σ hσ).2
    exact key.trans (by rw [hmz z hzm c σ hzc hit hσ, mul_zero, zero_div])
  · rw [(C02E.gen_project_uncached_end_to_end hcall greedy b attrs hnd hsub hg σ hσ).2, hmz z hzm attrs σ hzc hit hσ, mul_zero,
      zero_div]
  · rw [(C02E.gen_project_cached_end_to_end hcall greedy b attrs hnd hsub hg σ hσ).2, hmz z hzm attrs σ hzc hit hσ, mul_zero,
      zero_div]

/-! ## sign of the parameters (exp-space reading) -/

/-- the parameters `_setup` stores on a cold call / the first call: `CliqueVector.zeros(domain, cliques)` combined with the
structural zeros -/
theorem gen_theta0_eq (gmc : Dom → List Clique → Option (List Attr) → List Clique) (s : Est (LogOf K))
    (zs : List ZeroSpec) (hzs : s.cfg.structural_zeros = zeroVec s.cfg.domain zs)
    (hfresh : s.cfg.warm_start = false ∨ s.model = none) (ms : List (Loss.Meas (LogOf K))) :
    theta0 gmc s ms
      = CliqueVec.combine (CliqueVec.zerosV s.cfg.domain (modelCliques gmc s.cfg ms)) (zeroVec s.cfg.domain zs) := by
  unfold theta0
  rw [← hzs]
  rcases hfresh with h | h
  · simp [Engine.initialTheta, cfgOf, h]
  · obtain ⟨c, m, g⟩ := s
    simp only at h
    subst h
    exact C13.first_call_initial (cfgOf c) _

/-- **sign of the parameters `_setup` stores** (cold or first call): every cell is `≥ 0` in exp-space (`exp` of a log-potential;
`-inf ↦ 0`), and `> 0` when no structural zero is declared -/
theorem gen_setup_potentials_sign (gmc : Dom → List Clique → Option (List Attr) → List Clique) (s : Est (LogOf K))
    (zs : List ZeroSpec) (hzs : s.cfg.structural_zeros = zeroVec s.cfg.domain zs)
    (hfresh : s.cfg.warm_start = false ∨ s.model = none) (ms : List (Loss.Meas (LogOf K))) :
    (∀ p ∈ theta0 gmc s ms, ∀ x ∈ p.2.vals.data.toList, 0 ≤ x.v) ∧
    (zs = [] → ∀ p ∈ theta0 gmc s ms, ∀ x ∈ p.2.vals.data.toList, 0 < x.v) := by
  have hθ := gen_theta0_eq gmc s zs hzs hfresh ms
  refine ⟨?_, fun h0 => ?_⟩
  · show CellsPos.VecP (fun x : K => 0 ≤ x) (theta0 gmc s ms)
    rw [hθ]; exact CellsPos.theta0_nonneg _ _ zs
  · subst h0
    show CellsPos.VecP (fun x : K => 0 < x) (theta0 gmc s ms)
    rw [hθ]; exact CellsPos.theta0_pos _ _

/-- **the generated `mirror_descent` keeps the sign** (`CellsPos.md_P`): every oracle, EVERY loss/gradient function, every
iteration count, every exit — the update `theta - alpha*dL` is a cellwise product of exp-space values, for every `alpha`, `dL` -/
theorem gen_md_keeps_sign (bp : CliqueVec (LogOf K) → CliqueVec (LogOf K))
    (lossgrad : CliqueVec (LogOf K) → LogOf K × CliqueVec (LogOf K)) (iters : Nat) (theta0 : CliqueVec (LogOf K))
    (total : LogOf K) :
    ((∀ p ∈ theta0, ∀ x ∈ p.2.vals.data.toList, 0 ≤ x.v) →
      ∀ p ∈ (InfG.mirrorDescent bp lossgrad iters theta0 total).potentials, ∀ x ∈ p.2.vals.data.toList, 0 ≤ x.v) ∧
    ((∀ p ∈ theta0, ∀ x ∈ p.2.vals.data.toList, 0 < x.v) →
      ∀ p ∈ (InfG.mirrorDescent bp lossgrad iters theta0 total).potentials, ∀ x ∈ p.2.vals.data.toList, 0 < x.v) :=
  ⟨fun h => CellsPos.md_P (fun x : K => 0 ≤ x) zero_le_one (fun _ _ => mul_nonneg) bp lossgrad iters theta0 total h,
   fun h => CellsPos.md_P (fun x : K => 0 < x) zero_lt_one (fun _ _ => mul_pos) bp lossgrad iters theta0 total h⟩

/-! ## `_setup` + the generated `mirror_descent` with the generated oracle, EVERY loss (not the degenerate `LogOf` loss) -/

/-- **STRUCTURAL ZEROS THROUGH `_setup` AND THE GENERATED `mirror_descent`, FOR EVERY LOSS/GRADIENT FUNCTION.**  The model `g0` the
generated `_setup` stores (cold call or first call; `structural_zeros` those the generated `__init__` builds from `zs`); the generated
`mirror_descent` body started from `g0.potentials` with the generated `belief_propagation` on the generated `__init__` as oracle and
an ARBITRARY function `lossgrad` in place of `_marginal_loss` (so the statement is not subject to `md_run_degenerate_at_LogOf`: the
loop runs whenever `lossgrad` is not `0` at the first answer), whose gradient is laid out on the model's cliques at the oracle's
answers (`hgrad`; `gen_hgrad` proves it for the generated `_marginal_loss`).  Every iteration count, every exit:

1. the returned parameters have the zeros (`ZerosIn`) and nonnegative cells;
2. if `marginals` was stored it is the generated `belief_propagation` of the returned parameters, and (when `Z ≠ 0`, `total > 0`)
   every stored table is `0` at the declared cells of every zero clique it contains. -/
theorem gen_md_from_setup_zeros_every_loss (nx : Nx) (estT : List (Loss.Meas (LogOf K)) → LogOf K)
    (s : Est (LogOf K)) (a : Args (LogOf K) V Cb)
    (zs : List ZeroSpec) (hzs : s.cfg.structural_zeros = zeroVec s.cfg.domain zs)
    (hfresh : s.cfg.warm_start = false ∨ s.model = none)
    (hd : s.cfg.domain.WF) (hne : s.cfg.domain.attrs ≠ []) (hsizes : ∀ p ∈ s.cfg.domain, 0 < p.2)
    (hin : ∀ c ∈ inCliques s.cfg (measOf s a), c.Nodup ∧ ∀ x ∈ c, x ∈ s.cfg.domain.attrs)
    (hadm : Admissible nx s.cfg.domain (inCliques s.cfg (measOf s a)) (modeOf s.cfg.elim_order))
    (hz : ∀ z ∈ zs, z.zc.Nodup ∧ (∀ x ∈ z.zc, x ∈ s.cfg.domain.attrs) ∧
      ∃ q ∈ modelCliques (gmC nx) s.cfg (measOf s a), JT.subset z.zc q = true)
    (lossgrad : CliqueVec (LogOf K) → LogOf K × CliqueVec (LogOf K))
    (hgrad : ∀ θ, VecOK s.cfg.domain (modelCliques (gmC nx) s.cfg (measOf s a)) θ →
      VecOK s.cfg.domain (modelCliques (gmC nx) s.cfg (measOf s a)) (lossgrad (bpO nx (freshGM (gmC nx) estT s a) θ)).2)
    (iters : Nat) :
    ZerosIn s.cfg.domain (modelCliques (gmC nx) s.cfg (measOf s a)) zs
      (InfG.mirrorDescent (bpO nx (freshGM (gmC nx) estT s a)) lossgrad iters (freshGM (gmC nx) estT s a).potentials
        (freshGM (gmC nx) estT s a).total).potentials ∧
    (∀ p ∈ (InfG.mirrorDescent (bpO nx (freshGM (gmC nx) estT s a)) lossgrad iters (freshGM (gmC nx) estT s a).potentials
        (freshGM (gmC nx) estT s a).total).potentials, ∀ x ∈ p.2.vals.data.toList, 0 ≤ x.v) ∧
    (∀ m, (InfG.mirrorDescent (bpO nx (freshGM (gmC nx) estT s a)) lossgrad iters (freshGM (gmC nx) estT s a).potentials
        (freshGM (gmC nx) estT s a).total).marginals = some m →
      m = bpO nx (freshGM (gmC nx) estT s a)
        (InfG.mirrorDescent (bpO nx (freshGM (gmC nx) estT s a)) lossgrad iters (freshGM (gmC nx) estT s a).potentials
          (freshGM (gmC nx) estT s a).total).potentials ∧
      (partition s.cfg.domain (InfG.mirrorDescent (bpO nx (freshGM (gmC nx) estT s a)) lossgrad iters
          (freshGM (gmC nx) estT s a).potentials (freshGM (gmC nx) estT s a).total).potentials ≠ 0 →
        0 < (freshGM (gmC nx) estT s a).total.v →
        ∀ z ∈ zs, ∀ c ∈ modelCliques (gmC nx) s.cfg (measOf s a), (∀ x ∈ z.zc, x ∈ c) → ∀ σ, s.cfg.domain.Valid σ →
          Hits z σ → ((m.get c).sem σ).v = 0)) := by
  have hcq := gen_init_cliques_ok nx s.cfg.domain (inCliques s.cfg (measOf s a)) () (modeOf s.cfg.elim_order) hd hne hin hadm
  have hcn : (modelCliques (gmC nx) s.cfg (measOf s a)).Nodup := hcq.1
  have hcl : ∀ q ∈ modelCliques (gmC nx) s.cfg (measOf s a), q.Nodup ∧ ∀ x ∈ q, x ∈ s.cfg.domain.attrs := hcq.2.2
  have h0 := gen_setup_zerosIn (gmC nx) s zs hzs hfresh (measOf s a) hd hsizes hcl hcn hz
  have hZ := gen_md_keeps_zeros_bp s.cfg.domain _ zs hd hcl hcn (bpO nx (freshGM (gmC nx) estT s a)) lossgrad hgrad iters _
    (freshGM (gmC nx) estT s a).total h0
  have hnn := (gen_md_keeps_sign (bpO nx (freshGM (gmC nx) estT s a)) lossgrad iters (theta0 (gmC nx) s (measOf s a))
    (freshGM (gmC nx) estT s a).total).1 (gen_setup_potentials_sign (gmC nx) s zs hzs hfresh (measOf s a)).1
  refine ⟨hZ, hnn, fun m hm => ?_⟩
  have e := (E2EGen.md_inv (fun _ => True) (bpO nx (freshGM (gmC nx) estT s a)) lossgrad iters
    (freshGM (gmC nx) estT s a).potentials (freshGM (gmC nx) estT s a).total trivial (fun _ _ _ _ => trivial)).2
  have hbp : m = bpO nx (freshGM (gmC nx) estT s a)
      (InfG.mirrorDescent (bpO nx (freshGM (gmC nx) estT s a)) lossgrad iters (freshGM (gmC nx) estT s a).potentials
        (freshGM (gmC nx) estT s a).total).potentials := by
    cases hc : InfG.eq0 (lossgrad (bpO nx (freshGM (gmC nx) estT s a) (freshGM (gmC nx) estT s a).potentials)).1
    · have := e.2 hc
      rw [hm] at this
      exact Option.some.inj this
    · rw [(e.1 hc).2] at hm; cases hm
  refine ⟨hbp, fun hpart htot z hzm c hc hzc σ hσ hit => ?_⟩
  have hcs : (gmOf nx (freshGM (gmC nx) estT s a)).cliques = modelCliques (gmC nx) s.cfg (measOf s a) := by
    rw [gmOf_cliques]; rfl
  have hall := (gen_zero_in_all_answers_of_pots nx (freshGM (gmC nx) estT s a) hd hne hin hadm zs _ (hcs ▸ hZ)).2 hnn hpart htot
  rw [hbp]
  exact hall.1 z hzm c (hcs ▸ hc) hzc σ hσ hit

/-- **`hgrad` holds for the generated `_marginal_loss`, both metrics**: at the answer of the generated
`belief_propagation` (on the generated `__init__`) to parameters laid out on the model's cliques, the gradient is laid out
on them — the `LogOf K` instance of the generic-scalar facts `C08E.gen_bp_laid` (the oracle keeps the layout) and
`C08E.gen_lossOf_laid` (the gradient has the layout of the marginals; the measurements are arbitrary).  (A statement about LAYOUT
only: the VALUE of the loss at `LogOf K` is degenerate, `C08E.md_run_degenerate_at_LogOf`.) -/
theorem gen_hgrad (nx : Nx) (estT : List (Loss.Meas (LogOf K)) → LogOf K) (s : Est (LogOf K)) (a : Args (LogOf K) V Cb)
    (hd : s.cfg.domain.WF) (hne : s.cfg.domain.attrs ≠ [])
    (hin : ∀ c ∈ inCliques s.cfg (measOf s a), c.Nodup ∧ ∀ x ∈ c, x ∈ s.cfg.domain.attrs)
    (hadm : Admissible nx s.cfg.domain (inCliques s.cfg (measOf s a)) (modeOf s.cfg.elim_order))
    (θ : CliqueVec (LogOf K)) (hθ : VecOK s.cfg.domain (modelCliques (gmC nx) s.cfg (measOf s a)) θ) :
    VecOK s.cfg.domain (modelCliques (gmC nx) s.cfg (measOf s a))
      (lossOf s.cfg (freshGM (gmC nx) estT s a) (measOf s a) (bpO nx (freshGM (gmC nx) estT s a) θ)).2 := by
  have hcq := gen_init_cliques_ok nx s.cfg.domain (inCliques s.cfg (measOf s a)) (freshGM (gmC nx) estT s a).total
    (modeOf s.cfg.elim_order) hd hne hin hadm
  have hcs : (genInit nx s.cfg.domain (inCliques s.cfg (measOf s a)) (freshGM (gmC nx) estT s a).total
      (modeOf s.cfg.elim_order)).cliques = modelCliques (gmC nx) s.cfg (measOf s a) := by
    simp only [modelCliques, gmC, gen_init_cliques]
  have hbp : LocalE2E.Laid s.cfg.domain (modelCliques (gmC nx) s.cfg (measOf s a)) (bpO nx (freshGM (gmC nx) estT s a) θ) := by
    rw [← hcs]
    exact gen_bp_laid nx s.cfg.domain (inCliques s.cfg (measOf s a)) (freshGM (gmC nx) estT s a).total
      (modeOf s.cfg.elim_order) hd hne hin hadm θ (hcs ▸ hθ)
  rw [hcs] at hcq
  exact gen_lossOf_laid s.cfg (freshGM (gmC nx) estT s a) (measOf s a) _ hcq.1 _ hbp

/-! ## audit: at `LogOf K` the generated MD run never leaves `_setup` -/

/-- **AUDIT WITNESS, for the zeros statements**: at the carrier `LogOf K` the object the generated `estimate(engine='MD')` returns
has `marginals` UNSET and exactly the parameters of `_setup` (`C08E.md_run_degenerate_at_LogOf`) — so "the returned parameters have
the zeros" is, at this carrier, `gen_setup_zerosIn` and nothing more.  This is why the former `gen_estimate_zeros_end_to_end*`
(clauses 1–2 a restatement of `_setup`, clause 3 vacuous) were removed and the headline is `gen_md_keeps_zeros_bp` +
`gen_zero_in_all_answers_of_pots`, which quantify over every loss function resp. every potential vector. -/
theorem md_zeros_run_degenerate_at_LogOf (nx : Nx) (estT : List (Loss.Meas (LogOf K)) → LogOf K)
    (logf : Factor (LogOf K) → Factor (LogOf K)) (topEigs : List (Loss.Meas (LogOf K)) → List (LogOf K))
    (logger : V) (cbVal : Option Cb → V) (s : Est (LogOf K)) (a : Args (LogOf K) V Cb) (hMD : a.engine = "MD") :
    ∃ g, (estimateG (gmC nx) estT (bpO nx) (mleO logf nx) topEigs logger cbVal s a).2.2 = some g ∧
      g.marginals = none ∧ g.potentials = theta0 (gmC nx) s (measOf s a) :=
  md_run_degenerate_at_LogOf nx estT logf topEigs logger cbVal s a hMD

/-! ## non-vacuity -/
section Example
open PGM.C01 (exD exCl)

/-- one declared zero: the cell `b = 0` -/
def exZs : List ZeroSpec := [⟨["b"], [[0]]⟩]

theorem ex_cliques : (gmOf exNx exGM).cliques = [["a", "b"], ["b", "c"]] := by decide +kernel

/-- the parameters `_setup` would store for `exZs`: zeros over the two cliques combined with the structural zeros -/
def exZP : CliqueVec (LogOf ℚ) := CliqueVec.combine (CliqueVec.zerosV exD [["a", "b"], ["b", "c"]]) (zeroVec exD exZs)

theorem ex_zerosIn : ZerosIn exD (gmOf exNx exGM).cliques exZs exZP := by
  rw [ex_cliques]
  exact zerosIn_combine exD _ exZs (by decide) (by decide) (by decide)
    (by intro z hz; simp only [exZs, List.mem_singleton] at hz; subst hz; exact ⟨by decide, by decide, ["a", "b"], by decide, by decide⟩)
    (by decide) _ (vecOK_zerosV _ _ (by decide))

/-- `gen_zero_in_all_answers_of_pots` is NOT vacuous: its hypotheses hold for the example model and potentials `exZP` carrying the
declared zero `b = 0` (nonnegative cells, `Z ≠ 0`, `total = 100 > 0`) -/
example := (gen_zero_in_all_answers_of_pots exNx exGM (by decide) (by decide) (by decide) ex_admissible exZs exZP ex_zerosIn).2
  (CellsPos.theta0_nonneg _ _ exZs) (by decide +kernel : partition exD exZP ≠ 0) (by decide +kernel : (0 : ℚ) < exGM.total.v)

/-- the hypotheses of `gen_md_from_setup_zeros_every_loss` on the estimator hold on the example estimator of C08E (no declared zero) -/
example : exEst.cfg.structural_zeros = zeroVec exEst.cfg.domain [] ∧
    (exEst.cfg.warm_start = false ∨ exEst.model = none) ∧ (∀ p ∈ exEst.cfg.domain, 0 < p.2) := by
  refine ⟨rfl, Or.inl rfl, by decide⟩

theorem ex_modelCliques_ok : ∀ q ∈ modelCliques (gmC exNx) exEst.cfg (measOf exEst exArgs),
    q.Nodup ∧ ∀ x ∈ q, x ∈ exEst.cfg.domain.attrs :=
  (gen_init_cliques_ok exNx exEst.cfg.domain (inCliques exEst.cfg (measOf exEst exArgs)) () (modeOf exEst.cfg.elim_order)
    (by decide) (by decide) (by rw [ex_inCliques]; decide) (by rw [ex_inCliques]; exact ex_admissible)).2.2

/-- `gen_md_from_setup_zeros_every_loss` is NOT vacuous and NOT degenerate: on the example estimator all its hypotheses hold for the
loss function with constant value `⟨2⟩` (not `0`: `eq0 ⟨2⟩ = false`, so the generated loop RUNS its 3 iterations and stores
`marginals`) and a constant gradient laid out on the model's cliques -/
example : InfG.eq0 (⟨2⟩ : LogOf ℚ) = false := by decide +kernel
example := gen_md_from_setup_zeros_every_loss (Cb := Nat) exNx (fun _ => (⟨1⟩ : LogOf ℚ)) exEst exArgs [] rfl (Or.inl rfl)
  (by decide) (by decide) (by decide) (by rw [ex_inCliques]; decide) (by rw [ex_inCliques]; exact ex_admissible)
  (fun z hz => by cases hz)
  (fun _ => (⟨2⟩, CliqueVec.zerosV exD (modelCliques (gmC exNx) exEst.cfg (measOf exEst exArgs))))
  (fun _ _ => vecOK_zerosV _ _ ex_modelCliques_ok) 3

end Example

end PGM.C10E
