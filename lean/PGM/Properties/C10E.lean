import PGM.Proofs.E2EZeros
import PGM.Properties.C08E
import PGM.Properties.C10G
import PGM.Proofs.CellsPos
/-!
# C10 (end to end) — declared zero cells in the model the GENERATED `estimate` returns

Composition of the ties of `src/mbi/inference.py` (py2est: `__init__` zero loop, `_setup`, `estimate`, solver heads; py2inf:
solver bodies), of `graphical_model.py` (py2gm, py2gminit: `belief_propagation` on the generated `__init__`) with the C10
theorems, at the exp-space reading `LogOf K` of the parameters (`-np.inf` is exp-space `0`), as in C10G.

* `gen_setup_zerosIn` — generated `__init__` zero loop + generated `_setup`, cold call or first call: the stored parameters
  are laid out on the model's cliques and their joint vanishes on every assignment extending a declared cell
  (warm start with a previous model: C10G `gen_warm_keeps_combine` — the zeros are `combine`d in first; that the further
  `combine(previous.potentials)` keeps them needs the previous parameters to be tables over their own cliques inside the
  same domain, and a `combine` lemma for arbitrary such tables, which is NOT proved here);
* `gen_md_keeps_zeros` — the generated `mirror_descent` body, every loss/gradient function whose gradient is laid out on the
  model's cliques, every iteration count, every exit: the returned parameters still have the zeros (`θ − α·dL`);
  `gen_rda_rebuild_has_zeros` — the parameters RDA rebuilds, `combine(c·gbar, structural_zeros)`, have them whatever
  `gbar`; `gen_ig_update_keeps_zeros` — IG's `θ − (a/c/total)·g` keeps them;
* **`gen_estimate_zeros_end_to_end`** (engine MD): in the object the generated `estimate` returns, every declared cell has
  exp-space potential product `0`; hence (C10 `zero_in_all_answers`) the marginal onto ANY attribute tuple containing the
  zero clique vanishes there — in-clique, out-of-clique and full-vector answers are `total · marginal / Z` of these
  potentials (C01E / C02G) — and (C01E `gen_exact_inference_end_to_end`) every stored clique table is `0` there; each stored
  table still sums to the total (`C08E.gen_estimate_answers_valid`, clause 3, same object).

`hgrad` (the gradient of the loss is laid out on the model's cliques) is PROVED for the generated `_marginal_loss`, both metrics,
arbitrary measurements (`gen_hgrad`: `Proofs/GradLaid.lean` — `+=` by a factor keeps the domain and well-formedness of the updated
table whatever is added; the generated `belief_propagation` keeps the layout, `C08E.gen_bp_laid`):
**`gen_estimate_zeros_end_to_end_closed`** / `_L2` / `_L1` have no hypothesis on the loss.  The general forms remain:
`gen_estimate_zeros_end_to_end_bp` (any loss whose gradient is laid out at the oracle's answers) and
`gen_estimate_zeros_end_to_end` (… at every argument).

**`gen_estimate_answers_valid_closed`** / `_nozeros`: `C08E.gen_estimate_answers_valid` with hypotheses on the inputs only — the
returned parameters are nonnegative tables over the model's cliques (`gen_estimate_potentials_sign`, `Proofs/CellsPos.lean`);
without declared zeros `Z > 0`; with declared zeros `Z ≠ 0` remains a hypothesis (the zeros may rule out every assignment).

RDA / IG: the per-step facts are here (`gen_rda_rebuild_has_zeros`, `gen_ig_update_keeps_zeros`); the end-to-end statement
for their returned pair `(mle w, w)` needs the two-sorted run described in C08E and is open.
-/
namespace PGM.C10E
open PGM PGM.JT PGM.Sem PGM.Zeros PGM.EstG PGM.EstGen PGM.C01E PGM.C13G PGM.C08E PGM.C10G PGM.E2EZeros
set_option linter.unusedSectionVars false
set_option linter.unusedVariables false

variable {K : Type} [Field K] [LinearOrder K] [IsStrictOrderedRing K] {V Cb : Type}

/-! ## `_setup` -/

/-- **zeros installed by the generated `_setup`** (cold call, or first call of any estimator), as a fact about the whole
stored vector: laid out on `model.cliques`, joint `0` wherever a declared cell is hit -/
theorem gen_setup_zerosIn (gmc : Dom → List Clique → Option (List Attr) → List Clique) (s : Est (LogOf K))
    (zs : List ZeroSpec) (hzs : s.cfg.structural_zeros = zeroVec s.cfg.domain zs)
    (hfresh : s.cfg.warm_start = false ∨ s.model = none) (ms : List (Loss.Meas (LogOf K))) (hd : s.cfg.domain.WF)
    (hsizes : ∀ p ∈ s.cfg.domain, 0 < p.2)
    (hcl : ∀ q ∈ modelCliques gmc s.cfg ms, q.Nodup ∧ ∀ a ∈ q, a ∈ s.cfg.domain.attrs)
    (hcn : (modelCliques gmc s.cfg ms).Nodup)
    (hz : ∀ z ∈ zs, z.zc.Nodup ∧ (∀ a ∈ z.zc, a ∈ s.cfg.domain.attrs) ∧
      ∃ q ∈ modelCliques gmc s.cfg ms, JT.subset z.zc q = true) :
    ZerosIn s.cfg.domain (modelCliques gmc s.cfg ms) zs (theta0 gmc s ms) := by
  have hθ : theta0 gmc s ms
      = CliqueVec.combine (CliqueVec.zerosV s.cfg.domain (modelCliques gmc s.cfg ms)) (zeroVec s.cfg.domain zs) := by
    unfold theta0
    rw [← hzs]
    rcases hfresh with h | h
    · simp [Engine.initialTheta, cfgOf, h]
    · obtain ⟨c, m, g⟩ := s
      simp only at h
      subst h
      exact C13.first_call_initial (cfgOf c) _
  rw [hθ]
  exact zerosIn_combine _ _ zs hd hcl hcn hz hsizes _ (vecOK_zerosV _ _ hcl)

/-! ## the solver bodies -/

/-- **the generated `mirror_descent` keeps the zeros**: every marginal oracle, every loss/gradient function whose gradient
is laid out on the model's cliques, every iteration count (0 included), accepted and exhausted line searches, early return -/
theorem gen_md_keeps_zeros (d : Dom) (cliques : List Clique) (zs : List ZeroSpec) (hd : d.WF)
    (hcl : ∀ c ∈ cliques, c.Nodup ∧ ∀ a ∈ c, a ∈ d.attrs) (hcn : cliques.Nodup)
    (bp : CliqueVec (LogOf K) → CliqueVec (LogOf K)) (lossgrad : CliqueVec (LogOf K) → LogOf K × CliqueVec (LogOf K))
    (hgrad : ∀ m, VecOK d cliques (lossgrad m).2) (iters : Nat) (theta0 : CliqueVec (LogOf K)) (total : LogOf K)
    (h0 : ZerosIn d cliques zs theta0) :
    ZerosIn d cliques zs (InfG.mirrorDescent bp lossgrad iters theta0 total).potentials :=
  (E2EGen.md_inv (ZerosIn d cliques zs) bp lossgrad iters theta0 total h0
    (fun omega al m hω => zerosIn_update d cliques zs hd hcl hcn omega _ al hω (hgrad m))).1

/-- the same with the layout of the gradient asked only where the loop evaluates it: at the oracle's answer on parameters
laid out on the model's cliques (`E2EGen.md_inv_bp`) -/
theorem gen_md_keeps_zeros_bp (d : Dom) (cliques : List Clique) (zs : List ZeroSpec) (hd : d.WF)
    (hcl : ∀ c ∈ cliques, c.Nodup ∧ ∀ a ∈ c, a ∈ d.attrs) (hcn : cliques.Nodup)
    (bp : CliqueVec (LogOf K) → CliqueVec (LogOf K)) (lossgrad : CliqueVec (LogOf K) → LogOf K × CliqueVec (LogOf K))
    (hgrad : ∀ θ, VecOK d cliques θ → VecOK d cliques (lossgrad (bp θ)).2) (iters : Nat) (theta0 : CliqueVec (LogOf K))
    (total : LogOf K) (h0 : ZerosIn d cliques zs theta0) :
    ZerosIn d cliques zs (InfG.mirrorDescent bp lossgrad iters theta0 total).potentials :=
  (E2EGen.md_inv_bp (ZerosIn d cliques zs) bp lossgrad iters theta0 total h0
    (fun omega al hω => zerosIn_update d cliques zs hd hcl hcn omega _ al hω (hgrad omega hω.1))).1

/-- **dual averaging's rebuilt parameters have the zeros**: `theta = c * gbar; theta.combine(self.structural_zeros)` — for
every averaged gradient `gbar` laid out on the model's cliques and every scalar `c` -/
theorem gen_rda_rebuild_has_zeros (d : Dom) (cliques : List Clique) (zs : List ZeroSpec) (hd : d.WF)
    (hcl : ∀ c ∈ cliques, c.Nodup ∧ ∀ a ∈ c, a ∈ d.attrs) (hcn : cliques.Nodup)
    (hz : ∀ z ∈ zs, z.zc.Nodup ∧ (∀ a ∈ z.zc, a ∈ d.attrs) ∧ ∃ c ∈ cliques, JT.subset z.zc c = true)
    (hsizes : ∀ p ∈ d, 0 < p.2) (c : LogOf K) (gbar : CliqueVec (LogOf K)) (hg : VecOK d cliques gbar) :
    ZerosIn d cliques zs (CliqueVec.combine (CliqueVec.smul c gbar) (zeroVec d zs)) :=
  zerosIn_combine d cliques zs hd hcl hcn hz hsizes _ (smul_vecOK d cliques c gbar hg)

/-- **interior gradient's update keeps the zeros**: `theta = theta - a/c/total * g` -/
theorem gen_ig_update_keeps_zeros (d : Dom) (cliques : List Clique) (zs : List ZeroSpec) (hd : d.WF)
    (hcl : ∀ c ∈ cliques, c.Nodup ∧ ∀ a ∈ c, a ∈ d.attrs) (hcn : cliques.Nodup) (theta g : CliqueVec (LogOf K))
    (k : LogOf K) (hθ : ZerosIn d cliques zs theta) (hg : VecOK d cliques g) :
    ZerosIn d cliques zs (CliqueVec.subV theta (CliqueVec.smul k g)) :=
  zerosIn_update d cliques zs hd hcl hcn theta g k hθ hg

/-! ## end to end (engine MD) -/

/-- what `ZerosIn` gives the C01E theorems: a potential vector over the generated model's cliques -/
theorem potsOK_of_vecOK (d : Dom) (cliques : List Clique) (hcl : ∀ c ∈ cliques, c.Nodup ∧ ∀ a ∈ c, a ∈ d.attrs)
    (θ : CliqueVec (LogOf K)) (hθ : VecOK d cliques θ) (hnn : ∀ p ∈ θ, ∀ x ∈ p.2.vals.data.toList, 0 ≤ x.v) :
    PotsOK d cliques θ where
  keys := hθ.1
  pot_ok := fun p hp => by
    have hp1 : p.1 ∈ cliques := by rw [← hθ.1]; exact List.mem_map_of_mem hp
    obtain ⟨h1, h2⟩ := hθ.2 p hp
    obtain ⟨ok, hattrs⟩ := Coherent.factorOK_of_dom d p.2 p.1 h1 h2 (hcl p.1 hp1).2
    exact ⟨h1, hattrs ▸ List.Perm.refl _, ok.2.1⟩
  nonneg := hnn

/-- **STRUCTURAL ZEROS, END TO END, FOR THE GENERATED CODE (engine MD).**  An estimator whose `structural_zeros` are those
the generated `__init__` builds from the specification `zs` (C10G `gen_init_zeroVec`), a cold call or the first call; the
generated `estimate` with engine `'MD'` (generated `_setup`, generated `mirror_descent` with the generated
`belief_propagation` on the generated `GraphicalModel.__init__` as its oracle), every iteration count, every exit, every
admissible behaviour of the library contracts.  Then for the returned object `g`:

1. its parameters are laid out on its cliques and their exp-space product is `0` at every joint assignment extending a
   declared cell (`-inf` potential);
2. hence the marginal of that product onto ANY duplicate-free attribute tuple containing a zero clique vanishes at every
   assignment extending a declared cell of it — every answer path returns `total · marginal / Z` of these parameters;
3. if `marginals` was stored (no early return), it is the generated `belief_propagation` of the parameters, and — the
   returned parameters being nonnegative in exp-space with `Z ≠ 0` — each stored table is `0` at the declared cells of every
   zero clique it contains.

Hypotheses on the run: `hgrad` — the gradient of the loss is laid out on the model's cliques at the oracle's answer on
parameters laid out on them (`gen_estimate_zeros_end_to_end` below asks it at EVERY argument, as before;
`gen_estimate_zeros_end_to_end_closed` / `_L2` / `_L1` discharge it for the generated `_marginal_loss`). -/
theorem gen_estimate_zeros_end_to_end_bp (nx : Nx) (estT : List (Loss.Meas (LogOf K)) → LogOf K)
    (logf : Factor (LogOf K) → Factor (LogOf K)) (topEigs : List (Loss.Meas (LogOf K)) → List (LogOf K))
    (logger : V) (cbVal : Option Cb → V) (s : Est (LogOf K)) (a : Args (LogOf K) V Cb) (hMD : a.engine = "MD")
    (zs : List ZeroSpec) (hzs : s.cfg.structural_zeros = zeroVec s.cfg.domain zs)
    (hfresh : s.cfg.warm_start = false ∨ s.model = none)
    (hd : s.cfg.domain.WF) (hne : s.cfg.domain.attrs ≠ []) (hsizes : ∀ p ∈ s.cfg.domain, 0 < p.2)
    (hin : ∀ c ∈ inCliques s.cfg (measOf s a), c.Nodup ∧ ∀ x ∈ c, x ∈ s.cfg.domain.attrs)
    (hadm : Admissible nx s.cfg.domain (inCliques s.cfg (measOf s a)) (modeOf s.cfg.elim_order))
    (hz : ∀ z ∈ zs, z.zc.Nodup ∧ (∀ x ∈ z.zc, x ∈ s.cfg.domain.attrs) ∧
      ∃ q ∈ modelCliques (gmC nx) s.cfg (measOf s a), JT.subset z.zc q = true)
    (hgrad : ∀ θ, VecOK s.cfg.domain (modelCliques (gmC nx) s.cfg (measOf s a)) θ →
      VecOK s.cfg.domain (modelCliques (gmC nx) s.cfg (measOf s a))
        (lossOf s.cfg (freshGM (gmC nx) estT s a) (measOf s a) (bpO nx (freshGM (gmC nx) estT s a) θ)).2) :
    ∃ g, (estimateG (gmC nx) estT (bpO nx) (mleO logf nx) topEigs logger cbVal s a).2.2 = some g ∧
      g.cliques = modelCliques (gmC nx) s.cfg (measOf s a) ∧
      ZerosIn s.cfg.domain g.cliques zs g.potentials ∧
      (∀ z ∈ zs, ∀ (as : List Attr) (σ : Attr → Nat), as.Nodup → (∀ x ∈ as, x ∈ s.cfg.domain.attrs) →
        (∀ x ∈ z.zc, x ∈ as) → Hits z σ → s.cfg.domain.Valid σ → marginal s.cfg.domain g.potentials as σ = 0) ∧
      (∀ m, g.marginals = some m → (∀ p ∈ g.potentials, ∀ x ∈ p.2.vals.data.toList, 0 ≤ x.v) →
        partition s.cfg.domain g.potentials ≠ 0 →
        m = bpO nx g g.potentials ∧
        ∀ z ∈ zs, ∀ c ∈ g.cliques, (∀ x ∈ z.zc, x ∈ c) → ∀ σ, s.cfg.domain.Valid σ → Hits z σ →
          ((m.get c).sem σ).v = 0) := by
  have he : ValidEngine a.engine := Or.inl hMD
  obtain ⟨h1, _, _⟩ := gen_estimate_closed (gmC nx) estT (bpO nx) (mleO logf nx) topEigs logger cbVal s a he
  have hr : solverRun (gmC nx) estT (bpO nx) (mleO logf nx) topEigs s a
      = InfG.mirrorDescent (bpO nx (freshGM (gmC nx) estT s a)) (lossOf s.cfg (freshGM (gmC nx) estT s a) (measOf s a))
          s.cfg.iters (freshGM (gmC nx) estT s a).potentials (freshGM (gmC nx) estT s a).total := by
    simp only [solverRun, hMD]; rfl
  -- the model's cliques are those of the generated `__init__`
  have hcq := gen_init_cliques_ok nx s.cfg.domain (inCliques s.cfg (measOf s a)) () (modeOf s.cfg.elim_order) hd hne hin hadm
  have hcn : (modelCliques (gmC nx) s.cfg (measOf s a)).Nodup := hcq.1
  have hcl : ∀ q ∈ modelCliques (gmC nx) s.cfg (measOf s a), q.Nodup ∧ ∀ x ∈ q, x ∈ s.cfg.domain.attrs := hcq.2.2
  have h0 := gen_setup_zerosIn (gmC nx) s zs hzs hfresh (measOf s a) hd hsizes hcl hcn hz
  have hZ := gen_md_keeps_zeros_bp s.cfg.domain _ zs hd hcl hcn (bpO nx (freshGM (gmC nx) estT s a))
    (lossOf s.cfg (freshGM (gmC nx) estT s a) (measOf s a)) hgrad s.cfg.iters _ (freshGM (gmC nx) estT s a).total h0
  refine ⟨_, h1, rfl, ?_, ?_, ?_⟩
  · rw [hr]; exact hZ
  · intro z hzm as σ hnd hsub hzc hit hσ
    rw [hr]
    exact zero_in_all_answers_valid s.cfg.domain _ z as σ hd hzc (fun τ hτ h => hZ.2 τ hτ ⟨z, hzm, h⟩) hσ hit
  · intro m hm hnn hpart
    have hbp : m = bpO nx (writeBack (freshGM (gmC nx) estT s a) (solverRun (gmC nx) estT (bpO nx) (mleO logf nx) topEigs s a))
        (writeBack (freshGM (gmC nx) estT s a) (solverRun (gmC nx) estT (bpO nx) (mleO logf nx) topEigs s a)).potentials := by
      have e := (E2EGen.md_inv (fun _ => True) (bpO nx (freshGM (gmC nx) estT s a))
        (lossOf s.cfg (freshGM (gmC nx) estT s a) (measOf s a)) s.cfg.iters (freshGM (gmC nx) estT s a).potentials
        (freshGM (gmC nx) estT s a).total trivial (fun _ _ _ _ => trivial)).2
      have hm' : (InfG.mirrorDescent (bpO nx (freshGM (gmC nx) estT s a))
          (lossOf s.cfg (freshGM (gmC nx) estT s a) (measOf s a)) s.cfg.iters (freshGM (gmC nx) estT s a).potentials
          (freshGM (gmC nx) estT s a).total).marginals = some m := by rw [← hr]; exact hm
      cases hc : InfG.eq0 (lossOf s.cfg (freshGM (gmC nx) estT s a) (measOf s a)
          (bpO nx (freshGM (gmC nx) estT s a) (freshGM (gmC nx) estT s a).potentials)).1
      · have := e.2 hc
        rw [hm'] at this
        rw [hr]
        exact Option.some.inj this
      · rw [(e.1 hc).2] at hm'; cases hm'
    refine ⟨hbp, fun z hzm c hc hzc σ hσ hit => ?_⟩
    rw [hbp]
    have hpots : PotsOK s.cfg.domain
        (genInit nx s.cfg.domain (inCliques s.cfg (measOf s a)) (freshGM (gmC nx) estT s a).total (modeOf s.cfg.elim_order)).cliques
        (writeBack (freshGM (gmC nx) estT s a) (solverRun (gmC nx) estT (bpO nx) (mleO logf nx) topEigs s a)).potentials := by
      have : (genInit nx s.cfg.domain (inCliques s.cfg (measOf s a)) (freshGM (gmC nx) estT s a).total
          (modeOf s.cfg.elim_order)).cliques = modelCliques (gmC nx) s.cfg (measOf s a) := by
        simp only [modelCliques, gmC, gen_init_cliques]
      rw [this]
      exact potsOK_of_vecOK _ _ hcl _ (by rw [hr]; exact hZ.1) hnn
    have hcc : c ∈ (genInit nx s.cfg.domain (inCliques s.cfg (measOf s a)) (freshGM (gmC nx) estT s a).total
        (modeOf s.cfg.elim_order)).cliques := by
      have : (genInit nx s.cfg.domain (inCliques s.cfg (measOf s a)) (freshGM (gmC nx) estT s a).total
          (modeOf s.cfg.elim_order)).cliques = modelCliques (gmC nx) s.cfg (measOf s a) := by
        simp only [modelCliques, gmC, gen_init_cliques]
      rw [this]; exact hc
    have key := (gen_exact_inference_end_to_end nx s.cfg.domain (inCliques s.cfg (measOf s a)) (modeOf s.cfg.elim_order)
      (freshGM (gmC nx) estT s a).total hd hne hin hadm _ hpots hpart c hcc σ hσ).2
    have hmz : marginal s.cfg.domain
        (writeBack (freshGM (gmC nx) estT s a) (solverRun (gmC nx) estT (bpO nx) (mleO logf nx) topEigs s a)).potentials c σ = 0 := by
      show marginal s.cfg.domain (solverRun (gmC nx) estT (bpO nx) (mleO logf nx) topEigs s a).potentials c σ = 0
      rw [hr]
      exact zero_in_all_answers_valid s.cfg.domain _ z c σ hd hzc (fun τ hτ h => hZ.2 τ hτ ⟨z, hzm, h⟩) hσ hit
    exact key.trans (by rw [hmz, mul_zero, zero_div])

/-- the form with `hgrad` asked at every argument of the loss (any loss with that property) -/
theorem gen_estimate_zeros_end_to_end (nx : Nx) (estT : List (Loss.Meas (LogOf K)) → LogOf K)
    (logf : Factor (LogOf K) → Factor (LogOf K)) (topEigs : List (Loss.Meas (LogOf K)) → List (LogOf K))
    (logger : V) (cbVal : Option Cb → V) (s : Est (LogOf K)) (a : Args (LogOf K) V Cb) (hMD : a.engine = "MD")
    (zs : List ZeroSpec) (hzs : s.cfg.structural_zeros = zeroVec s.cfg.domain zs)
    (hfresh : s.cfg.warm_start = false ∨ s.model = none)
    (hd : s.cfg.domain.WF) (hne : s.cfg.domain.attrs ≠ []) (hsizes : ∀ p ∈ s.cfg.domain, 0 < p.2)
    (hin : ∀ c ∈ inCliques s.cfg (measOf s a), c.Nodup ∧ ∀ x ∈ c, x ∈ s.cfg.domain.attrs)
    (hadm : Admissible nx s.cfg.domain (inCliques s.cfg (measOf s a)) (modeOf s.cfg.elim_order))
    (hz : ∀ z ∈ zs, z.zc.Nodup ∧ (∀ x ∈ z.zc, x ∈ s.cfg.domain.attrs) ∧
      ∃ q ∈ modelCliques (gmC nx) s.cfg (measOf s a), JT.subset z.zc q = true)
    (hgrad : ∀ m, VecOK s.cfg.domain (modelCliques (gmC nx) s.cfg (measOf s a))
      (lossOf s.cfg (freshGM (gmC nx) estT s a) (measOf s a) m).2) :
    ∃ g, (estimateG (gmC nx) estT (bpO nx) (mleO logf nx) topEigs logger cbVal s a).2.2 = some g ∧
      g.cliques = modelCliques (gmC nx) s.cfg (measOf s a) ∧
      ZerosIn s.cfg.domain g.cliques zs g.potentials ∧
      (∀ z ∈ zs, ∀ (as : List Attr) (σ : Attr → Nat), as.Nodup → (∀ x ∈ as, x ∈ s.cfg.domain.attrs) →
        (∀ x ∈ z.zc, x ∈ as) → Hits z σ → s.cfg.domain.Valid σ → marginal s.cfg.domain g.potentials as σ = 0) ∧
      (∀ m, g.marginals = some m → (∀ p ∈ g.potentials, ∀ x ∈ p.2.vals.data.toList, 0 ≤ x.v) →
        partition s.cfg.domain g.potentials ≠ 0 →
        m = bpO nx g g.potentials ∧
        ∀ z ∈ zs, ∀ c ∈ g.cliques, (∀ x ∈ z.zc, x ∈ c) → ∀ σ, s.cfg.domain.Valid σ → Hits z σ →
          ((m.get c).sem σ).v = 0) :=
  gen_estimate_zeros_end_to_end_bp nx estT logf topEigs logger cbVal s a hMD zs hzs hfresh hd hne hsizes hin hadm hz (fun θ _ => hgrad _)

/-- **`hgrad` holds for the generated `_marginal_loss`, both metrics**: at the answer of the generated
`belief_propagation` (on the generated `__init__`) to parameters laid out on the model's cliques, the gradient is laid out
on them — `C08E.gen_bp_laid` (the oracle keeps the layout) and `C08E.gen_lossOf_laid` (the gradient has the layout of the
marginals; the measurements are arbitrary) -/
theorem gen_hgrad (nx : Nx) (estT : List (Loss.Meas (LogOf K)) → LogOf K) (s : Est (LogOf K)) (a : Args (LogOf K) V Cb)
    (hd : s.cfg.domain.WF) (hne : s.cfg.domain.attrs ≠ [])
    (hin : ∀ c ∈ inCliques s.cfg (measOf s a), c.Nodup ∧ ∀ x ∈ c, x ∈ s.cfg.domain.attrs)
    (hadm : Admissible nx s.cfg.domain (inCliques s.cfg (measOf s a)) (modeOf s.cfg.elim_order))
    (θ : CliqueVec (LogOf K)) (hθ : VecOK s.cfg.domain (modelCliques (gmC nx) s.cfg (measOf s a)) θ) :
    VecOK s.cfg.domain (modelCliques (gmC nx) s.cfg (measOf s a))
      (lossOf s.cfg (freshGM (gmC nx) estT s a) (measOf s a) (bpO nx (freshGM (gmC nx) estT s a) θ)).2 := by
  have hcq := gen_init_cliques_ok nx s.cfg.domain (inCliques s.cfg (measOf s a)) (freshGM (gmC nx) estT s a).total
    (modeOf s.cfg.elim_order) hd hne hin hadm
  have hcs : (genInit nx s.cfg.domain (inCliques s.cfg (measOf s a)) (freshGM (gmC nx) estT s a).total
      (modeOf s.cfg.elim_order)).cliques = modelCliques (gmC nx) s.cfg (measOf s a) := by
    simp only [modelCliques, gmC, gen_init_cliques]
  have hbp : LocalE2E.Laid s.cfg.domain (modelCliques (gmC nx) s.cfg (measOf s a)) (bpO nx (freshGM (gmC nx) estT s a) θ) := by
    rw [← hcs]
    exact gen_bp_laid nx s.cfg.domain (inCliques s.cfg (measOf s a)) (freshGM (gmC nx) estT s a).total
      (modeOf s.cfg.elim_order) hd hne hin hadm θ (hcs ▸ hθ)
  rw [hcs] at hcq
  exact gen_lossOf_laid s.cfg (freshGM (gmC nx) estT s a) (measOf s a) _ hcq.1 _ hbp

/-- **STRUCTURAL ZEROS, END TO END, FOR THE GENERATED CODE — NO HYPOTHESIS ON THE LOSS** (engine MD, the generated
`_marginal_loss`, whichever metric the estimator is configured with, arbitrary measurements): the statement of
`gen_estimate_zeros_end_to_end_bp` with `hgrad` discharged by `gen_hgrad` -/
theorem gen_estimate_zeros_end_to_end_closed (nx : Nx) (estT : List (Loss.Meas (LogOf K)) → LogOf K)
    (logf : Factor (LogOf K) → Factor (LogOf K)) (topEigs : List (Loss.Meas (LogOf K)) → List (LogOf K))
    (logger : V) (cbVal : Option Cb → V) (s : Est (LogOf K)) (a : Args (LogOf K) V Cb) (hMD : a.engine = "MD")
    (zs : List ZeroSpec) (hzs : s.cfg.structural_zeros = zeroVec s.cfg.domain zs)
    (hfresh : s.cfg.warm_start = false ∨ s.model = none)
    (hd : s.cfg.domain.WF) (hne : s.cfg.domain.attrs ≠ []) (hsizes : ∀ p ∈ s.cfg.domain, 0 < p.2)
    (hin : ∀ c ∈ inCliques s.cfg (measOf s a), c.Nodup ∧ ∀ x ∈ c, x ∈ s.cfg.domain.attrs)
    (hadm : Admissible nx s.cfg.domain (inCliques s.cfg (measOf s a)) (modeOf s.cfg.elim_order))
    (hz : ∀ z ∈ zs, z.zc.Nodup ∧ (∀ x ∈ z.zc, x ∈ s.cfg.domain.attrs) ∧
      ∃ q ∈ modelCliques (gmC nx) s.cfg (measOf s a), JT.subset z.zc q = true) :
    ∃ g, (estimateG (gmC nx) estT (bpO nx) (mleO logf nx) topEigs logger cbVal s a).2.2 = some g ∧
      g.cliques = modelCliques (gmC nx) s.cfg (measOf s a) ∧
      ZerosIn s.cfg.domain g.cliques zs g.potentials ∧
      (∀ z ∈ zs, ∀ (as : List Attr) (σ : Attr → Nat), as.Nodup → (∀ x ∈ as, x ∈ s.cfg.domain.attrs) →
        (∀ x ∈ z.zc, x ∈ as) → Hits z σ → s.cfg.domain.Valid σ → marginal s.cfg.domain g.potentials as σ = 0) ∧
      (∀ m, g.marginals = some m → (∀ p ∈ g.potentials, ∀ x ∈ p.2.vals.data.toList, 0 ≤ x.v) →
        partition s.cfg.domain g.potentials ≠ 0 →
        m = bpO nx g g.potentials ∧
        ∀ z ∈ zs, ∀ c ∈ g.cliques, (∀ x ∈ z.zc, x ∈ c) → ∀ σ, s.cfg.domain.Valid σ → Hits z σ →
          ((m.get c).sem σ).v = 0) :=
  gen_estimate_zeros_end_to_end_bp nx estT logf topEigs logger cbVal s a hMD zs hzs hfresh hd hne hsizes hin hadm hz
    (gen_hgrad nx estT s a hd hne hin hadm)

/-- the case `metric='L2'`: the loss of the run is the generated `_marginal_loss` (L2) -/
theorem gen_estimate_zeros_end_to_end_L2 (nx : Nx) (estT : List (Loss.Meas (LogOf K)) → LogOf K)
    (logf : Factor (LogOf K) → Factor (LogOf K)) (topEigs : List (Loss.Meas (LogOf K)) → List (LogOf K))
    (logger : V) (cbVal : Option Cb → V) (s : Est (LogOf K)) (a : Args (LogOf K) V Cb) (hMD : a.engine = "MD")
    (zs : List ZeroSpec) (hzs : s.cfg.structural_zeros = zeroVec s.cfg.domain zs)
    (hfresh : s.cfg.warm_start = false ∨ s.model = none)
    (hd : s.cfg.domain.WF) (hne : s.cfg.domain.attrs ≠ []) (hsizes : ∀ p ∈ s.cfg.domain, 0 < p.2)
    (hin : ∀ c ∈ inCliques s.cfg (measOf s a), c.Nodup ∧ ∀ x ∈ c, x ∈ s.cfg.domain.attrs)
    (hadm : Admissible nx s.cfg.domain (inCliques s.cfg (measOf s a)) (modeOf s.cfg.elim_order))
    (hz : ∀ z ∈ zs, z.zc.Nodup ∧ (∀ x ∈ z.zc, x ∈ s.cfg.domain.attrs) ∧
      ∃ q ∈ modelCliques (gmC nx) s.cfg (measOf s a), JT.subset z.zc q = true)
    (hL2 : s.cfg.metric = Metric.L2) :
    lossOf s.cfg (freshGM (gmC nx) estT s a) (measOf s a)
      = InfG.marginalLossL2 s.cfg.domain (freshGM (gmC nx) estT s a).cliques (measOf s a) ∧
    ∃ g, (estimateG (gmC nx) estT (bpO nx) (mleO logf nx) topEigs logger cbVal s a).2.2 = some g ∧
      g.cliques = modelCliques (gmC nx) s.cfg (measOf s a) ∧
      ZerosIn s.cfg.domain g.cliques zs g.potentials ∧
      (∀ z ∈ zs, ∀ (as : List Attr) (σ : Attr → Nat), as.Nodup → (∀ x ∈ as, x ∈ s.cfg.domain.attrs) →
        (∀ x ∈ z.zc, x ∈ as) → Hits z σ → s.cfg.domain.Valid σ → marginal s.cfg.domain g.potentials as σ = 0) ∧
      (∀ m, g.marginals = some m → (∀ p ∈ g.potentials, ∀ x ∈ p.2.vals.data.toList, 0 ≤ x.v) →
        partition s.cfg.domain g.potentials ≠ 0 →
        m = bpO nx g g.potentials ∧
        ∀ z ∈ zs, ∀ c ∈ g.cliques, (∀ x ∈ z.zc, x ∈ c) → ∀ σ, s.cfg.domain.Valid σ → Hits z σ →
          ((m.get c).sem σ).v = 0) :=
  ⟨by unfold lossOf; rw [hL2], gen_estimate_zeros_end_to_end_closed nx estT logf topEigs logger cbVal s a hMD zs hzs hfresh hd hne hsizes hin hadm hz⟩

/-- the case `metric='L1'` -/
theorem gen_estimate_zeros_end_to_end_L1 (nx : Nx) (estT : List (Loss.Meas (LogOf K)) → LogOf K)
    (logf : Factor (LogOf K) → Factor (LogOf K)) (topEigs : List (Loss.Meas (LogOf K)) → List (LogOf K))
    (logger : V) (cbVal : Option Cb → V) (s : Est (LogOf K)) (a : Args (LogOf K) V Cb) (hMD : a.engine = "MD")
    (zs : List ZeroSpec) (hzs : s.cfg.structural_zeros = zeroVec s.cfg.domain zs)
    (hfresh : s.cfg.warm_start = false ∨ s.model = none)
    (hd : s.cfg.domain.WF) (hne : s.cfg.domain.attrs ≠ []) (hsizes : ∀ p ∈ s.cfg.domain, 0 < p.2)
    (hin : ∀ c ∈ inCliques s.cfg (measOf s a), c.Nodup ∧ ∀ x ∈ c, x ∈ s.cfg.domain.attrs)
    (hadm : Admissible nx s.cfg.domain (inCliques s.cfg (measOf s a)) (modeOf s.cfg.elim_order))
    (hz : ∀ z ∈ zs, z.zc.Nodup ∧ (∀ x ∈ z.zc, x ∈ s.cfg.domain.attrs) ∧
      ∃ q ∈ modelCliques (gmC nx) s.cfg (measOf s a), JT.subset z.zc q = true)
    (hL1 : s.cfg.metric = Metric.L1) :
    lossOf s.cfg (freshGM (gmC nx) estT s a) (measOf s a)
      = InfG.marginalLossL1 s.cfg.domain (freshGM (gmC nx) estT s a).cliques (measOf s a) ∧
    ∃ g, (estimateG (gmC nx) estT (bpO nx) (mleO logf nx) topEigs logger cbVal s a).2.2 = some g ∧
      g.cliques = modelCliques (gmC nx) s.cfg (measOf s a) ∧
      ZerosIn s.cfg.domain g.cliques zs g.potentials ∧
      (∀ z ∈ zs, ∀ (as : List Attr) (σ : Attr → Nat), as.Nodup → (∀ x ∈ as, x ∈ s.cfg.domain.attrs) →
        (∀ x ∈ z.zc, x ∈ as) → Hits z σ → s.cfg.domain.Valid σ → marginal s.cfg.domain g.potentials as σ = 0) ∧
      (∀ m, g.marginals = some m → (∀ p ∈ g.potentials, ∀ x ∈ p.2.vals.data.toList, 0 ≤ x.v) →
        partition s.cfg.domain g.potentials ≠ 0 →
        m = bpO nx g g.potentials ∧
        ∀ z ∈ zs, ∀ c ∈ g.cliques, (∀ x ∈ z.zc, x ∈ c) → ∀ σ, s.cfg.domain.Valid σ → Hits z σ →
          ((m.get c).sem σ).v = 0) :=
  ⟨by unfold lossOf; rw [hL1], gen_estimate_zeros_end_to_end_closed nx estT logf topEigs logger cbVal s a hMD zs hzs hfresh hd hne hsizes hin hadm hz⟩

/-- the hypotheses of the closed form hold on the example estimator of C08E (no declared zero: `zs = []`) -/
example : exArgs.engine = "MD" ∧ exEst.cfg.structural_zeros = zeroVec exEst.cfg.domain [] ∧
    (exEst.cfg.warm_start = false ∨ exEst.model = none) ∧ exEst.cfg.metric = Metric.L2 ∧
    (∀ p ∈ exEst.cfg.domain, 0 < p.2) := by
  refine ⟨rfl, rfl, Or.inl rfl, rfl, by decide⟩

/-! ## the answers of the returned model, hypotheses on the inputs only (engine MD) -/

/-- the parameters `_setup` stores on a cold call / the first call: `CliqueVector.zeros(domain, cliques)` combined with the
structural zeros -/
theorem gen_theta0_eq (gmc : Dom → List Clique → Option (List Attr) → List Clique) (s : Est (LogOf K))
    (zs : List ZeroSpec) (hzs : s.cfg.structural_zeros = zeroVec s.cfg.domain zs)
    (hfresh : s.cfg.warm_start = false ∨ s.model = none) (ms : List (Loss.Meas (LogOf K))) :
    theta0 gmc s ms
      = CliqueVec.combine (CliqueVec.zerosV s.cfg.domain (modelCliques gmc s.cfg ms)) (zeroVec s.cfg.domain zs) := by
  unfold theta0
  rw [← hzs]
  rcases hfresh with h | h
  · simp [Engine.initialTheta, cfgOf, h]
  · obtain ⟨c, m, g⟩ := s
    simp only at h
    subst h
    exact C13.first_call_initial (cfgOf c) _

/-- **sign of the returned parameters (engine MD, exp-space reading)**: every cell of the potentials of the object the
generated `estimate` returns is `≥ 0` (`exp` of a log-potential; `-inf ↦ 0`), and `> 0` when no structural zero is declared —
every loss, every iteration count, every exit (`CellsPos.md_P`: the update `theta - alpha*dL` keeps the sign for every
`alpha`, `dL`) -/
theorem gen_estimate_potentials_sign (nx : Nx) (estT : List (Loss.Meas (LogOf K)) → LogOf K)
    (logf : Factor (LogOf K) → Factor (LogOf K)) (topEigs : List (Loss.Meas (LogOf K)) → List (LogOf K))
    (logger : V) (cbVal : Option Cb → V) (s : Est (LogOf K)) (a : Args (LogOf K) V Cb) (hMD : a.engine = "MD")
    (zs : List ZeroSpec) (hzs : s.cfg.structural_zeros = zeroVec s.cfg.domain zs)
    (hfresh : s.cfg.warm_start = false ∨ s.model = none) :
    ∃ g, (estimateG (gmC nx) estT (bpO nx) (mleO logf nx) topEigs logger cbVal s a).2.2 = some g ∧
      (∀ p ∈ g.potentials, ∀ x ∈ p.2.vals.data.toList, 0 ≤ x.v) ∧
      (zs = [] → ∀ p ∈ g.potentials, ∀ x ∈ p.2.vals.data.toList, 0 < x.v) := by
  obtain ⟨h1, _, _⟩ := gen_estimate_closed (gmC nx) estT (bpO nx) (mleO logf nx) topEigs logger cbVal s a (Or.inl hMD)
  have hr : solverRun (gmC nx) estT (bpO nx) (mleO logf nx) topEigs s a
      = InfG.mirrorDescent (bpO nx (freshGM (gmC nx) estT s a)) (lossOf s.cfg (freshGM (gmC nx) estT s a) (measOf s a))
          s.cfg.iters (theta0 (gmC nx) s (measOf s a)) (freshGM (gmC nx) estT s a).total := by
    simp only [solverRun, hMD]; rfl
  have hθ := gen_theta0_eq (gmC nx) s zs hzs hfresh (measOf s a)
  refine ⟨_, h1, ?_, ?_⟩
  · show CellsPos.VecP (fun x : K => 0 ≤ x) (solverRun (gmC nx) estT (bpO nx) (mleO logf nx) topEigs s a).potentials
    rw [hr]
    exact CellsPos.md_P _ zero_le_one (fun _ _ => mul_nonneg) _ _ _ _ _ (hθ ▸ CellsPos.theta0_nonneg _ _ zs)
  · intro hzs0
    subst hzs0
    show CellsPos.VecP (fun x : K => 0 < x) (solverRun (gmC nx) estT (bpO nx) (mleO logf nx) topEigs s a).potentials
    rw [hr]
    exact CellsPos.md_P _ zero_lt_one (fun _ _ => mul_pos) _ _ _ _ _ (hθ ▸ CellsPos.theta0_pos _ _)

/-- **THE ANSWERS OF THE RETURNED MODEL ARE ONE VALID DISTRIBUTION — HYPOTHESES ON THE INPUTS ONLY** (engine MD, the generated
`_marginal_loss` of either metric, arbitrary measurements, cold call or first call).  `C08E.gen_estimate_answers_valid` asked
the returned parameters to be nonnegative tables over the model's cliques (`PotsOK`) and `Z ≠ 0`.  Here `PotsOK` is PROVED
(layout: `gen_estimate_zeros_end_to_end_closed`; sign: `gen_estimate_potentials_sign`), and

* with NO declared structural zero (`zs = []`) also `Z > 0` is proved (all log-potentials finite, domain without an attribute
  of size 0): the four clauses hold unconditionally — `gen_estimate_answers_valid_nozeros`;
* with declared zeros `Z ≠ 0` REMAINS a hypothesis: the zeros can rule out every assignment (`Z = 0`, the `0/0` of the
  source), which no hypothesis on the layout excludes. -/
theorem gen_estimate_answers_valid_closed (nx : Nx) (estT : List (Loss.Meas (LogOf K)) → LogOf K)
    (logf : Factor (LogOf K) → Factor (LogOf K)) (topEigs : List (Loss.Meas (LogOf K)) → List (LogOf K))
    (logger : V) (cbVal : Option Cb → V) (s : Est (LogOf K)) (a : Args (LogOf K) V Cb) (hMD : a.engine = "MD")
    (zs : List ZeroSpec) (hzs : s.cfg.structural_zeros = zeroVec s.cfg.domain zs)
    (hfresh : s.cfg.warm_start = false ∨ s.model = none)
    (hd : s.cfg.domain.WF) (hne : s.cfg.domain.attrs ≠ []) (hsizes : ∀ p ∈ s.cfg.domain, 0 < p.2)
    (hin : ∀ c ∈ inCliques s.cfg (measOf s a), c.Nodup ∧ ∀ x ∈ c, x ∈ s.cfg.domain.attrs)
    (hadm : Admissible nx s.cfg.domain (inCliques s.cfg (measOf s a)) (modeOf s.cfg.elim_order))
    (hz : ∀ z ∈ zs, z.zc.Nodup ∧ (∀ x ∈ z.zc, x ∈ s.cfg.domain.attrs) ∧
      ∃ q ∈ modelCliques (gmC nx) s.cfg (measOf s a), JT.subset z.zc q = true) :
    ∃ g, (estimateG (gmC nx) estT (bpO nx) (mleO logf nx) topEigs logger cbVal s a).2.2 = some g ∧
      g.domain = s.cfg.domain ∧
      PotsOK g.domain g.cliques g.potentials ∧
      (zs = [] → 0 < partition g.domain g.potentials) ∧
      ∀ m, g.marginals = some m → partition g.domain g.potentials ≠ 0 →
        (∀ c ∈ g.cliques, ∀ σ, g.domain.Valid σ →
          ((m.get c).sem σ).v = g.total.v * marginal g.domain g.potentials c σ / partition g.domain g.potentials) ∧
        (0 ≤ g.total.v → ∀ c ∈ g.cliques, ∀ σ, g.domain.Valid σ → 0 ≤ ((m.get c).sem σ).v) ∧
        ((∀ p ∈ g.domain, 0 < p.2) → ∀ c ∈ g.cliques,
          sumOver g.domain c (fun _ => 0) (fun τ => ((m.get c).sem τ).v) = g.total.v) ∧
        (∀ c1 ∈ g.cliques, ∀ c2 ∈ g.cliques, ∀ A : List Attr, (∀ x ∈ A, x ∈ c1) → (∀ x ∈ A, x ∈ c2) →
          ∀ σ, g.domain.Valid σ →
          sumOver g.domain (c1.filter (fun x => !A.contains x)) σ (fun τ => ((m.get c1).sem τ).v)
            = sumOver g.domain (c2.filter (fun x => !A.contains x)) σ (fun τ => ((m.get c2).sem τ).v)) := by
  obtain ⟨g, hg, hcl, hZI, _, _⟩ := gen_estimate_zeros_end_to_end_closed nx estT logf topEigs logger cbVal s a hMD zs hzs hfresh hd hne hsizes hin hadm hz
  obtain ⟨g', hg', hdom, hval⟩ := gen_estimate_answers_valid nx estT logf topEigs logger cbVal s a hMD hd hne hin hadm
  obtain ⟨g'', hg'', hnn, hpp⟩ := gen_estimate_potentials_sign nx estT logf topEigs logger cbVal s a hMD zs hzs hfresh
  have e1 : g' = g := Option.some.inj (hg'.symm.trans hg)
  have e2 : g'' = g := Option.some.inj (hg''.symm.trans hg)
  subst e1; subst e2
  have hclq := (gen_init_cliques_ok nx s.cfg.domain (inCliques s.cfg (measOf s a)) () (modeOf s.cfg.elim_order) hd hne hin hadm).2.2
  have hpots : PotsOK g''.domain g''.cliques g''.potentials := by
    rw [hdom]
    exact potsOK_of_vecOK s.cfg.domain g''.cliques (by rw [hcl]; exact hclq) g''.potentials hZI.1 hnn
  refine ⟨g'', hg, hdom, hpots, fun h0 => ?_, fun m hm hZ => hval m hm hpots hZ⟩
  rw [hdom]
  exact CellsPos.partition_pos s.cfg.domain hd g''.potentials (hpp h0) _ (CellsPos.valid_zero _ hsizes)

/-- **no declared structural zero: unconditional** — every stored clique table of the object the generated
`estimate(engine='MD')` returns is `total · marginal / Z` of the joint of the stored potentials with `Z > 0`; nonnegative;
sums to the total; any two agree on shared attributes -/
theorem gen_estimate_answers_valid_nozeros (nx : Nx) (estT : List (Loss.Meas (LogOf K)) → LogOf K)
    (logf : Factor (LogOf K) → Factor (LogOf K)) (topEigs : List (Loss.Meas (LogOf K)) → List (LogOf K))
    (logger : V) (cbVal : Option Cb → V) (s : Est (LogOf K)) (a : Args (LogOf K) V Cb) (hMD : a.engine = "MD")
    (hzs : s.cfg.structural_zeros = [])
    (hfresh : s.cfg.warm_start = false ∨ s.model = none)
    (hd : s.cfg.domain.WF) (hne : s.cfg.domain.attrs ≠ []) (hsizes : ∀ p ∈ s.cfg.domain, 0 < p.2)
    (hin : ∀ c ∈ inCliques s.cfg (measOf s a), c.Nodup ∧ ∀ x ∈ c, x ∈ s.cfg.domain.attrs)
    (hadm : Admissible nx s.cfg.domain (inCliques s.cfg (measOf s a)) (modeOf s.cfg.elim_order)) :
    ∃ g, (estimateG (gmC nx) estT (bpO nx) (mleO logf nx) topEigs logger cbVal s a).2.2 = some g ∧
      g.domain = s.cfg.domain ∧ 0 < partition g.domain g.potentials ∧
      ∀ m, g.marginals = some m →
        (∀ c ∈ g.cliques, ∀ σ, g.domain.Valid σ →
          ((m.get c).sem σ).v = g.total.v * marginal g.domain g.potentials c σ / partition g.domain g.potentials) ∧
        (0 ≤ g.total.v → ∀ c ∈ g.cliques, ∀ σ, g.domain.Valid σ → 0 ≤ ((m.get c).sem σ).v) ∧
        ((∀ p ∈ g.domain, 0 < p.2) → ∀ c ∈ g.cliques,
          sumOver g.domain c (fun _ => 0) (fun τ => ((m.get c).sem τ).v) = g.total.v) ∧
        (∀ c1 ∈ g.cliques, ∀ c2 ∈ g.cliques, ∀ A : List Attr, (∀ x ∈ A, x ∈ c1) → (∀ x ∈ A, x ∈ c2) →
          ∀ σ, g.domain.Valid σ →
          sumOver g.domain (c1.filter (fun x => !A.contains x)) σ (fun τ => ((m.get c1).sem τ).v)
            = sumOver g.domain (c2.filter (fun x => !A.contains x)) σ (fun τ => ((m.get c2).sem τ).v)) := by
  obtain ⟨g, h1, h2, _, h4, h5⟩ := gen_estimate_answers_valid_closed nx estT logf topEigs logger cbVal s a hMD [] hzs hfresh
    hd hne hsizes hin hadm (fun z hz => by cases hz)
  exact ⟨g, h1, h2, h4 rfl, fun m hm => h5 m hm (ne_of_gt (h4 rfl))⟩

/-- the hypotheses of `gen_estimate_answers_valid_nozeros` hold on the example estimator of C08E -/
example : exArgs.engine = "MD" ∧ exEst.cfg.structural_zeros = [] ∧ (exEst.cfg.warm_start = false ∨ exEst.model = none) ∧
    (∀ p ∈ exEst.cfg.domain, 0 < p.2) := ⟨rfl, rfl, Or.inl rfl, by decide⟩

end PGM.C10E
