import PGM.Generated.FactorG
import PGM.Proofs.FactorGen
/-!
# C14 (translator tie) — the regenerated reading of `src/mbi/factor.py` is the hand-written model

`PGM/Generated/FactorG.lean` is produced on every run by `tools/py2factor.py` from the current source of
`class Factor`, over the numpy contracts of `PGM/Model/NdArr.lean`.  Each generated definition is proved equal
to the definition of `PGM/Model/Factor.lean` that the C14 theorems are about, so the factor algebra is
re-checked against what the source says now: a semantic change of `factor.py` breaks the translation or one
of these equalities.

The theorems live in `PGM.C14.FactorG` (C14G already owns `PGM.C14.gen_add`, `gen_mul`, `gen_sub`, `gen_zeros`
for `clique_vector.py`).

One genuine difference is recorded instead of hidden: Python's constructor has TWO assertions, the model's
`Factor.preMk` only the first (`gen_preMkG`, `preMk_weaker`).
-/
namespace PGM.C14.FactorG
open PGM PGM.FactorGen
variable {α : Type} [Scalar α]

/-! ## constructor -/

omit [Scalar α] in
/-- `Factor(domain, values)` -/
theorem gen_mkG (d : Dom) (v : NdArr α) : FG.mkG d v = Factor.mk' d v := rfl

omit [Scalar α] in
/-- the constructor's assertions: the source has the size check of `Factor.preMk` AND
`values.ndim == 1 or values.shape == domain.shape`, which the hand model does not state -/
theorem gen_preMkG (d : Dom) (v : NdArr α) :
    FG.preMkG d v = (Factor.preMk d v && (v.ndim == 1 || v.shape == d.shape)) := rfl

omit [Scalar α] in
/-- what is true in one direction: the source's precondition implies the model's -/
theorem gen_preMkG_imp (d : Dom) (v : NdArr α) (h : FG.preMkG d v = true) : Factor.preMk d v = true := by
  rw [gen_preMkG, Bool.and_eq_true] at h; exact h.1

/-- … and not conversely: a 3×2 array for the domain a:2, b:3 passes `Factor.preMk`, Python raises
`AssertionError: invalid shape for values array` -/
theorem preMk_weaker :
    let d : Dom := [("a", 2), ("b", 3)]
    let v : NdArr ExtQ := NdArr.const [3, 2] (ExtQ.fin 0)
    Factor.preMk d v = true ∧ FG.preMkG d v = false := by decide

example : FG.preMkG [("a", 2), ("b", 3)] (NdArr.const [6] (ExtQ.fin 0)) = true := by decide
example : FG.preMkG [("a", 2), ("b", 3)] (NdArr.const [2, 3] (ExtQ.fin 0)) = true := by decide

theorem gen_zeros (d : Dom) : (FG.zeros d : Factor α) = Factor.zeros d := rfl
theorem gen_ones (d : Dom) : (FG.ones d : Factor α) = Factor.ones d := rfl

/-! ## expand / transpose -/

omit [Scalar α] in
theorem gen_preExpandG (f : Factor α) (d : Dom) : FG.preExpandG f d = Factor.preExpand f d := rfl

/-- `Factor.expand`; the source's `len(domain)` is `len(domain.attrs)`, the model's `d.length` -/
theorem gen_expand (f : Factor α) (d : Dom) : FG.expand f d = Factor.expand f d := by
  simp only [FG.expand, Factor.expand, attrs_length, gen_mkG]

omit [Scalar α] in
theorem gen_preTransposeG (f : Factor α) (as : List Attr) : FG.preTransposeG f as = Factor.preTranspose f as := rfl

theorem gen_transpose (f : Factor α) (as : List Attr) : FG.transpose f as = Factor.transpose f as := rfl

/-! ## reductions -/

theorem gen_sumAll (f : Factor α) : FG.sumAll f = Factor.sumAll f := rfl
theorem gen_logsumexpAll (f : Factor α) : FG.logsumexpAll f = Factor.logsumexpAll f := rfl
theorem gen_maxAll (f : Factor α) : FG.maxAll f = Factor.maxAll f := rfl
theorem gen_sum (f : Factor α) (as : List Attr) : FG.sum f as = Factor.sum f as := rfl
theorem gen_logsumexp (f : Factor α) (as : List Attr) : FG.logsumexp f as = Factor.logsumexp f as := rfl
theorem gen_max (f : Factor α) (as : List Attr) : FG.max f as = Factor.max f as := rfl

/-- `project(attrs)` (agg = 'sum') -/
theorem gen_projectSum (f : Factor α) (as : List Attr) : FG.projectSum f as = Factor.projectSum f as := rfl
/-- `project(attrs, 'logsumexp')` -/
theorem gen_projectLse (f : Factor α) (as : List Attr) : FG.projectLse f as = Factor.projectLse f as := rfl

/-! ## conditioning, copy -/

theorem gen_condition (f : Factor α) (ev : List (Attr × Nat)) : FG.condition f ev = Factor.condition f ev := by
  simp only [FG.condition, Factor.condition, Dom.attrs, slices_eq, gen_mkG]

omit [Scalar α] in
theorem gen_copy (f : Factor α) : FG.copy f = Factor.copy f := rfl

/-! ## binary operations on two factors -/

theorem gen_mul (f g : Factor α) : FG.mul f g = Factor.mul f g := by
  simp only [FG.mul, Factor.mul, Factor.binop, gen_expand, gen_mkG]

theorem gen_add (f g : Factor α) : FG.add f g = Factor.add f g := by
  simp only [FG.add, Factor.add, Factor.binop, gen_expand, gen_mkG]

theorem gen_logaddexp (f g : Factor α) : FG.logaddexp f g = Factor.logaddexpF f g := by
  simp only [FG.logaddexp, Factor.logaddexpF, Factor.binop, gen_expand, gen_mkG]

/-- `f - g = f + Factor(g.domain, where(g == -inf, 0, -g))` -/
theorem gen_sub (f g : Factor α) : FG.sub f g = Factor.sub f g := by
  simp only [FG.sub, Factor.sub, gen_add, gen_mkG]; rfl

/-- `f / g`: `g` expanded onto `f`'s domain, `np.divide(where = · > 0)`, then 0 where `· <= 0` -/
theorem gen_truediv (f g : Factor α) : FG.truediv f g = Factor.divF f g := by
  simp only [FG.truediv, Factor.divF, gen_expand, gen_mkG]; rfl

/-- the masked store comes AFTER the division; reading it in program order (store wins) gives the same cell rule
whenever the two masks `t > 0`, `t <= 0` are disjoint — which the translator checks syntactically -/
theorem safeDiv_program_order (x t : α) (h : ¬ (Scalar.gt0 t = true ∧ Scalar.le0 t = true)) :
    (if Scalar.le0 t then Scalar.zero else if Scalar.gt0 t then Scalar.div x t else default) = Factor.safeDiv x t := by
  unfold Factor.safeDiv
  by_cases h1 : Scalar.gt0 t = true <;> by_cases h2 : Scalar.le0 t = true <;> simp_all

example : ∀ t : ExtQ, ¬ (Scalar.gt0 t = true ∧ Scalar.le0 t = true) := by
  intro t; cases t <;> simp [Scalar.gt0, Scalar.le0, ExtQ.gt0, ExtQ.le0]
  rename_i q; intro h; exact Rat.not_le.mpr h

/-- in-place `f += g`, `f *= g`: a new value with the same domain -/
theorem gen_iadd (f g : Factor α) : FG.iadd f g = Factor.iadd f g := by
  simp only [FG.iadd, Factor.iadd, Factor.iop, gen_expand]

theorem gen_imul (f g : Factor α) : FG.imul f g = Factor.imul f g := by
  simp only [FG.imul, Factor.imul, Factor.iop, gen_expand]

/-- `__radd__` / `__rmul__` delegate to `__add__` / `__mul__` -/
theorem gen_radd (f g : Factor α) : FG.radd f g = Factor.add f g := gen_add f g
theorem gen_rmul (f g : Factor α) : FG.rmul f g = Factor.mul f g := gen_mul f g

/-! ## scalar forms -/

/-- `c * f`: `np.nan_to_num(c * values)` — two passes in the source, one in the model -/
theorem gen_mulScalar (c : α) (f : Factor α) : FG.mulScalar c f = Factor.mulScalar c f := by
  simp only [FG.mulScalar, Factor.mulScalar, map_map, gen_mkG]

theorem gen_addScalar (c : α) (f : Factor α) : FG.addScalar c f = Factor.addScalar c f := rfl
theorem gen_subScalar (f : Factor α) (c : α) : FG.subScalar f c = Factor.subScalar f c := rfl

theorem gen_truedivScalar (f : Factor α) (c : α) : FG.truedivScalar f c = Factor.divScalar f c := by
  simp only [FG.truedivScalar, Factor.divScalar, map_map, gen_mkG]

theorem gen_iaddScalar (f : Factor α) (c : α) : FG.iaddScalar f c = Factor.iaddScalar f c := rfl
theorem gen_imulScalar (f : Factor α) (c : α) : FG.imulScalar f c = Factor.imulScalar f c := rfl
theorem gen_raddScalar (c : α) (f : Factor α) : FG.raddScalar c f = Factor.addScalar c f := rfl
theorem gen_rmulScalar (c : α) (f : Factor α) : FG.rmulScalar c f = Factor.mulScalar c f := gen_mulScalar c f

/-! ## exp / log / datavector -/

theorem gen_exp (f : Factor α) : FG.exp f = Factor.exp f := rfl

/-- `np.log(values + 1e-100)` -/
theorem gen_log (f : Factor α) : FG.log f = Factor.log f := by
  simp only [FG.log, Factor.log, map_map, gen_mkG]

omit [Scalar α] in
theorem gen_datavector (f : Factor α) : FG.datavector f = Factor.datavector f := rfl

/-! ## the generated definitions compute (non-trivial instances over exact rationals) -/

private def f0 : Factor ExtQ := ⟨[("a", 2)], ⟨[2], #[ExtQ.fin 1, ExtQ.fin 2]⟩⟩
private def g0 : Factor ExtQ := ⟨[("b", 3)], ⟨[3], #[ExtQ.fin 10, ExtQ.ninf, ExtQ.fin 0]⟩⟩

example : (FG.expand f0 [("b", 3), ("a", 2)]).vals.data
    = #[.fin 1, .fin 2, .fin 1, .fin 2, .fin 1, .fin 2] := by decide
example : (FG.sub f0 g0).vals.data = #[.fin (-9), .fin 1, .fin 1, .fin (-8), .fin 2, .fin 2] := by decide +kernel
example : (FG.truediv (FG.add f0 g0) g0).vals.data
    = #[.fin (11/10), .fin 0, .fin 0, .fin (12/10), .fin 0, .fin 0] := by decide +kernel
example : (FG.condition (FG.mul f0 g0) [("b", 0)]).vals.data = #[.fin 10, .fin 20] := by decide +kernel
example : FG.sumAll (FG.projectSum (FG.mul f0 g0) ["b"]) = .ninf := by decide +kernel

end PGM.C14.FactorG
