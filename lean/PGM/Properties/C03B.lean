import PGM.Proofs.MDDescent
import PGM.Proofs.MDDescentSolver
import PGM.Proofs.MDDescentLift
import PGM.Proofs.MDDescentOracle
/-!
# C03 (b) — mirror descent with the Armijo line search never accepts a step that increases the loss

`inference.py:192-245`.  In each iteration, from parameters `omega` with marginals `nu = bp(omega)`
and `(curr_loss, dL)`, the trial point is `theta = omega − alpha·dL`, `mu = bp(theta)`, accepted when
`curr_loss − new_loss ≥ 0.5·alpha·dL.dot(nu − mu)`; `alpha` is halved otherwise and the 25th trial
is taken regardless ("forced").

Marginals are the gradient of the convex log-partition function, so `dL·(nu − mu) ≥ 0` for
`alpha ≥ 0` (`expfam_mean_monotone`, lifted to clique vectors in `md_accepted_step_descends`), hence
an accepted step has `new_loss ≤ curr_loss` (`armijo_accept_no_increase`) and a run in which no line
search was forced returns a loss `≤` the initial loss, for **any** loss function
(`md_no_forced_descent`, `md_no_forced_descent_exact`).

Vocabulary (definitions in `PGM/Proofs/MDDescent*.lean`, namespace `PGM.MD`):
* `expfamMean l h θ i = h i · exp (θ i) / Σ_{j ∈ l} h j · exp (θ j)`;
* `Layout d cliques` — well-formed domain, positive sizes, duplicate-free cliques of domain attributes;
  `VecOn d cliques v` — a clique vector keyed by `cliques`, each table on `d.project c`;
* `weight cliques h θ x = h x · exp (Σ_c θ_c(x_c))`, `partitionFn` its sum over the joint domain;
  `ExactOracle d cliques h T bp` — on every `VecOn` vector `θ`, `bp θ` is `VecOn` and
  `(bp θ)_c(x_c) = T · Σ_{x ∖ c} weight θ x / partitionFn θ`;
* `MonotoneOracle bp` — `∀ ω g α, 0 ≤ α → 0 ≤ dotV g (subV (bp ω) (bp (subV ω (smul α g))))`;
* `mdState`, `mdGhost`, `mdForced` — the model's outer fold re-read as named pieces
  (`MD.mirrorDescent_eq`), the ghost run carrying the flag "some line search ran out of its 25
  trials", and that flag; `forcedAt bp lossgrad st` — the line search started at `st` rejected all
  25 trials.
-/
namespace PGM.C03
open PGM PGM.JT PGM.Solvers PGM.CliqueVec PGM.MD PGM.Convex

/-- **(1) monotonicity of the exponential-family mean map**: base weights `h ≥ 0` (structural
zeros: `h i = 0`) with `Σ h exp θ > 0`, any direction `g`, step `α ≥ 0`:
`0 ≤ Σ_i g i · (p θ i − p (θ − α g) i)`. -/
theorem expfam_mean_monotone {ι : Type} (l : List ι) (h θ g : ι → ℝ) (α : ℝ)
    (hh : ∀ i ∈ l, 0 ≤ h i) (hZ : 0 < (l.map (fun i => h i * Real.exp (θ i))).sum) (hα : 0 ≤ α) :
    0 ≤ (l.map (fun i => g i *
        (expfamMean l h θ i - expfamMean l h (fun j => θ j - α * g j) i))).sum :=
  MD.expfam_mean_monotone l h θ g α hh hZ hα

/-- the same for every real `α` in signed form, `⟨θ' − θ, p θ' − p θ⟩ ≥ 0` with `θ' = θ − α g` -/
theorem expfam_mean_monotone_signed {ι : Type} (l : List ι) (h θ g : ι → ℝ) (α : ℝ)
    (hh : ∀ i ∈ l, 0 ≤ h i) (hZ : 0 < (l.map (fun i => h i * Real.exp (θ i))).sum) :
    0 ≤ α * (l.map (fun i => g i *
        (expfamMean l h θ i - expfamMean l h (fun j => θ j - α * g j) i))).sum :=
  MD.expfam_mean_monotone_signed l h θ g α hh hZ

/-- the same over a finite index type, written out with `Finset` sums -/
theorem expfam_mean_monotone_fintype {κ : Type} [Fintype κ] (h θ g : κ → ℝ) (α : ℝ)
    (hh : ∀ i, 0 ≤ h i) (hZ : 0 < ∑ i, h i * Real.exp (θ i)) (hα : 0 ≤ α) :
    0 ≤ ∑ i, g i * (h i * Real.exp (θ i) / ∑ j, h j * Real.exp (θ j)
        - h i * Real.exp (θ i - α * g i) / ∑ j, h j * Real.exp (θ j - α * g j)) :=
  MD.expfam_mean_monotone_fintype h θ g α hh hZ hα

/-- non-vacuity of (1): three cells, the middle one a structural zero -/
example : (∀ i ∈ [0, 1, 2], 0 ≤ (if i = 1 then (0:ℝ) else 1)) ∧
    0 < ([0, 1, 2].map (fun i : Nat => (if i = 1 then (0:ℝ) else 1) * Real.exp ((i : ℝ)))).sum := by
  constructor
  · intro i _; split <;> norm_num
  · simp
    positivity

/-- **(2) an accepted Armijo step does not increase the loss** -/
theorem armijo_accept_no_increase (curr new α d : ℝ) (hα : 0 ≤ α) (hd : 0 ≤ d)
    (hacc : curr - new ≥ 0.5 * α * d) : new ≤ curr :=
  MD.armijo_accept_no_increase curr new α d hα hd hacc

/-- non-vacuity of (2) -/
example : (0:ℝ) ≤ 1 ∧ (0:ℝ) ≤ 2 ∧ (3:ℝ) - 2 ≥ 0.5 * 1 * 2 := by norm_num

/-- the model's acceptance test over `ℝ` is the inequality of (2) -/
theorem accept_test_iff (currLoss new al d : ℝ) :
    Solvers.ge (Scalar.sub currLoss new)
        (Scalar.mul (Scalar.mul (Scalar.div Scalar.one (Scalar.add Scalar.one Scalar.one)) al) d) = true
      ↔ currLoss - new ≥ 0.5 * al * d :=
  MD.accept_iff currLoss new al d

/-- **(3) the line-search direction term is nonnegative for an exact oracle**: with `bp` any oracle
returning `T ·` the clique marginals of `p_θ(x) ∝ h(x) · exp(Σ_c θ_c(x_c))` (`T > 0`, `h ≥ 0` not
identically zero on the domain), parameters `omega` and a gradient `dL` laid out on the cliques and
`alpha ≥ 0`:  `0 ≤ dL · (bp omega − bp (omega − alpha·dL))`. -/
theorem md_accepted_step_descends {d : Dom} {cliques : List Clique} (L : Layout d cliques)
    (h : (Attr → Nat) → ℝ) (hh : ∀ σ, 0 ≤ h σ) (hpos : 0 < S d d.attrs h) (T : ℝ) (hT : 0 < T)
    (bp : CliqueVec ℝ → CliqueVec ℝ) (hbp : ExactOracle d cliques h T bp)
    (omega dL : CliqueVec ℝ) (hω : VecOn d cliques omega) (hg : VecOn d cliques dL)
    (alpha : ℝ) (hα : 0 ≤ alpha) :
    0 ≤ dotV dL (subV (bp omega) (bp (subV omega (smul alpha dL)))) :=
  MD.exact_step_monotone L h hh hpos T hT bp hbp omega dL hω hg alpha hα

/-- (3) for every real step, in signed form: `0 ≤ alpha · dL · (bp omega − bp (omega − alpha·dL))` -/
theorem md_accepted_step_descends_signed {d : Dom} {cliques : List Clique} (L : Layout d cliques)
    (h : (Attr → Nat) → ℝ) (hh : ∀ σ, 0 ≤ h σ) (hpos : 0 < S d d.attrs h) (T : ℝ) (hT : 0 < T)
    (bp : CliqueVec ℝ → CliqueVec ℝ) (hbp : ExactOracle d cliques h T bp)
    (omega dL : CliqueVec ℝ) (hω : VecOn d cliques omega) (hg : VecOn d cliques dL) (alpha : ℝ) :
    0 ≤ alpha * dotV dL (subV (bp omega) (bp (subV omega (smul alpha dL)))) :=
  MD.exact_step_monotone_signed L h hh hpos T hT bp hbp omega dL hω hg alpha

/-- the two readings used by (3): `⟨g, μ⟩ = T · Σ_x G(x) · W(x) / Z` when `μ` is `T ·` the clique
marginals of `W / Z` (clique-to-joint lifting), and `ω − α g` has energy `E_ω − α G` -/
theorem dotV_exact_marginals {d : Dom} {cliques : List Clique} (L : Layout d cliques)
    {g mu : CliqueVec ℝ} (hg : VecOn d cliques g) (hmu : VecOn d cliques mu)
    (W : (Attr → Nat) → ℝ) (T Z : ℝ)
    (hex : ∀ c ∈ cliques, ∀ σ, d.Valid σ →
      (mu.get c).sem σ = T * Sem.sumOver d (d.invert c) σ W / Z) :
    dotV g mu = T * S d d.attrs (fun τ => energy cliques g τ * W τ) / Z :=
  MD.dotV_exact L hg hmu W T Z hex

theorem energy_of_step {d : Dom} {cliques : List Clique} (L : Layout d cliques)
    {ω g : CliqueVec ℝ} (hω : VecOn d cliques ω) (hg : VecOn d cliques g) (α : ℝ)
    {σ : Attr → Nat} (hσ : d.Valid σ) :
    energy cliques (subV ω (smul α g)) σ = energy cliques ω σ - α * energy cliques g σ :=
  MD.energy_step L hω hg α hσ

/-- `ExactOracle` is satisfiable on every layout (brute-force oracle), so (3) is not vacuous -/
theorem exact_oracle_exists {d : Dom} {cliques : List Clique} (L : Layout d cliques)
    (h : (Attr → Nat) → ℝ) (hh : Sem.DependsOn h d.attrs) (T : ℝ) :
    ExactOracle d cliques h T (exactBp d cliques h T) :=
  MD.exactBp_exact L h hh T

/-- non-vacuity of (3) and (4-exact): two binary attributes, overlapping cliques `{a,b}`, `{b}`, the
cell `a = b = 1` a structural zero, `T = 10`, the uniform start -/
example : Layout domEx cliquesEx ∧ (∀ σ, 0 ≤ hEx σ) ∧ 0 < S domEx domEx.attrs hEx ∧ (0:ℝ) < 10 ∧
    ExactOracle domEx cliquesEx hEx 10 (exactBp domEx cliquesEx hEx 10) ∧
    VecOn domEx cliquesEx (zerosV domEx cliquesEx) :=
  ⟨layoutEx, hEx_nonneg, hEx_mass, by norm_num, exactBp_exact layoutEx hEx hEx_dependsOn 10,
    zerosV_on layoutEx⟩

/-- the ghost flag means exactly: the line search of some iteration `k < iters`, started from the
model's state after `k` iterations, rejected all its 25 trials -/
theorem md_forced_iff {α : Type} [Scalar α] (bp : CliqueVec α → CliqueVec α)
    (lossgrad : CliqueVec α → α × CliqueVec α) (iters : Nat) (theta0 : CliqueVec α) (alpha0 : α) :
    mdForced bp lossgrad iters theta0 alpha0 = true ↔
      ∃ k < iters, forcedAt bp lossgrad (mdState bp lossgrad k theta0 alpha0) = true :=
  MD.mdForced_iff bp lossgrad iters theta0 alpha0

/-- the ghost run projects onto the model's run, and the model returns that run's last state -/
theorem md_ghost_is_model {α : Type} [Scalar α] (bp : CliqueVec α → CliqueVec α)
    (lossgrad : CliqueVec α → α × CliqueVec α) (iters : Nat) (theta0 : CliqueVec α) (alpha0 : α) :
    (mdGhost bp lossgrad iters theta0 alpha0).1 = mdState bp lossgrad iters theta0 alpha0 ∧
    mirrorDescent bp lossgrad iters theta0 alpha0
      = if isZero (lossgrad (bp theta0)).1 then ⟨theta0, none, some (lossgrad (bp theta0)).1⟩
        else ⟨(mdState bp lossgrad iters theta0 alpha0).1,
              some (mdState bp lossgrad iters theta0 alpha0).2.1,
              some (mdState bp lossgrad iters theta0 alpha0).2.2.1.1⟩ :=
  ⟨MD.mdGhost_fst bp lossgrad iters theta0 alpha0, MD.mirrorDescent_eq bp lossgrad iters theta0 alpha0⟩

/-- **(4) no forced trial ⇒ descent**, for any loss and any oracle that is monotone along every
step: the returned loss is at most the initial loss, or some line search was forced -/
theorem md_no_forced_descent (bp : CliqueVec ℝ → CliqueVec ℝ)
    (lossgrad : CliqueVec ℝ → ℝ × CliqueVec ℝ) (hm : MonotoneOracle bp) (iters : Nat)
    (theta0 : CliqueVec ℝ) (alpha0 : ℝ) (hα : 0 ≤ alpha0) :
    ∃ Lv, (mirrorDescent bp lossgrad iters theta0 alpha0).loss = some Lv ∧
      (Lv ≤ (lossgrad (bp theta0)).1 ∨ mdForced bp lossgrad iters theta0 alpha0 = true) :=
  MD.md_no_forced_descent_aux bp lossgrad hm iters theta0 alpha0 hα

/-- (4), iteration by iteration: an iteration whose line search was not forced does not increase
the loss -/
theorem md_step_descends (bp : CliqueVec ℝ → CliqueVec ℝ)
    (lossgrad : CliqueVec ℝ → ℝ × CliqueVec ℝ) (hm : MonotoneOracle bp) (k : Nat)
    (theta0 : CliqueVec ℝ) (alpha0 : ℝ) (hα : 0 ≤ alpha0) :
    (mdState bp lossgrad (k + 1) theta0 alpha0).2.2.1.1 ≤ (mdState bp lossgrad k theta0 alpha0).2.2.1.1
      ∨ forcedAt bp lossgrad (mdState bp lossgrad k theta0 alpha0) = true :=
  MD.mdState_step_descends (fun _ => True) (fun α => 0 ≤ α) bp lossgrad hm.on.step stepClosed_nonneg
    (closedUnder_true bp lossgrad) k theta0 trivial alpha0 hα

/-- **(4) with (3) discharged**: for an exact oracle, any loss whose gradient is laid out on the
cliques, a start laid out on the cliques and any initial step (no sign condition is needed: the
test only uses `alpha · dL·(nu − mu)`, which is nonnegative for every real `alpha`).

CONDITIONAL on `hbp : ExactOracle d cliques h T bp`, an oracle `CliqueVec ℝ → CliqueVec ℝ` that is exact OVER ℝ (log-space
parameters in, `T · Σ weight / partitionFn` out, with a real `exp`).  No theorem here instantiates `bp` with the code's oracle:
`GM.beliefPropagation` is proved exact (C01 `bp_marginals`) at the exp-space reading `LogOf K`, where `exp`/`log` are `id`;
the join "the `ℝ`-instance of `beliefPropagation` (with `Real.exp` / `Real.log`) satisfies `ExactOracle`" is NOT proved.  So
`md_*_exact` say: IF mirror descent is run with an oracle exact over ℝ THEN …; that the shipped oracle is one is supported by C01
(at `LogOf K`) and by the `armijo_audit` runs, not by a Lean theorem. -/
theorem md_no_forced_descent_exact {d : Dom} {cliques : List Clique} (L : Layout d cliques)
    (h : (Attr → Nat) → ℝ) (hh : ∀ σ, 0 ≤ h σ) (hpos : 0 < S d d.attrs h) (T : ℝ) (hT : 0 < T)
    (bp : CliqueVec ℝ → CliqueVec ℝ) (hbp : ExactOracle d cliques h T bp)
    (lossgrad : CliqueVec ℝ → ℝ × CliqueVec ℝ)
    (hgrad : ∀ μ, VecOn d cliques μ → VecOn d cliques (lossgrad μ).2)
    (iters : Nat) (theta0 : CliqueVec ℝ) (h0 : VecOn d cliques theta0) (alpha0 : ℝ) :
    ∃ Lv, (mirrorDescent bp lossgrad iters theta0 alpha0).loss = some Lv ∧
      (Lv ≤ (lossgrad (bp theta0)).1 ∨ mdForced bp lossgrad iters theta0 alpha0 = true) :=
  MD.md_no_forced_descent_exact_aux L h hh hpos T hT bp hbp lossgrad hgrad iters theta0 h0 alpha0

/-- iteration by iteration, for an exact oracle (same condition: `hbp` is a hypothesis about an oracle exact over ℝ, see
`md_no_forced_descent_exact`) -/
theorem md_step_descends_exact {d : Dom} {cliques : List Clique} (L : Layout d cliques)
    (h : (Attr → Nat) → ℝ) (hh : ∀ σ, 0 ≤ h σ) (hpos : 0 < S d d.attrs h) (T : ℝ) (hT : 0 < T)
    (bp : CliqueVec ℝ → CliqueVec ℝ) (hbp : ExactOracle d cliques h T bp)
    (lossgrad : CliqueVec ℝ → ℝ × CliqueVec ℝ)
    (hgrad : ∀ μ, VecOn d cliques μ → VecOn d cliques (lossgrad μ).2)
    (k : Nat) (theta0 : CliqueVec ℝ) (h0 : VecOn d cliques theta0) (alpha0 : ℝ) :
    (mdState bp lossgrad (k + 1) theta0 alpha0).2.2.1.1 ≤ (mdState bp lossgrad k theta0 alpha0).2.2.1.1
      ∨ forcedAt bp lossgrad (mdState bp lossgrad k theta0 alpha0) = true :=
  MD.md_step_descends_exact_aux L h hh hpos T hT bp hbp lossgrad hgrad k theta0 h0 alpha0

/-- non-vacuity of (4): `MonotoneOracle` (which quantifies over all vectors, malformed ones
included) holds for the constant oracle; the non-trivial instance is the exact oracle of
`md_no_forced_descent_exact` -/
example : MonotoneOracle (fun _ => ([] : CliqueVec ℝ)) := MD.monotoneOracle_const

/-- with `iters = 0` the returned loss is the initial one -/
theorem md_zero_iters {α : Type} [Scalar α] (bp : CliqueVec α → CliqueVec α)
    (lossgrad : CliqueVec α → α × CliqueVec α) (theta0 : CliqueVec α) (alpha0 : α) :
    (mirrorDescent bp lossgrad 0 theta0 alpha0).loss = some (lossgrad (bp theta0)).1 :=
  MD.md_zero_iters_aux bp lossgrad theta0 alpha0

end PGM.C03
