import PGM.Model.Engine
/-!
# C13 — estimation is history-free; returned models are immutable snapshots

State-machine level: which fields `estimate` reads and writes (`PGM/Model/Engine.lean`).  In this
functional model returned models are values, so "a handed-back model never changes" and "caller
arrays are unmodified" are true by construction and say nothing about Python aliasing — those two
clauses are decided by the runtime audit of the check (bit-for-bit re-queries, `np.shares_memory`,
byte hashes), not by these theorems.
-/
namespace PGM.C13
open PGM PGM.Engine
variable {α : Type} [Scalar α] {Args : Type}

/-- a cold estimator ignores its stored state: one call -/
theorem cold_call_history_free (cfg : Config α) (cliquesOf : Args → List JT.Clique)
    (build : Config α → Args → CliqueVec α → Model α) (hcold : cfg.warmStart = false)
    (s s' : State α) (args : Args) :
    (estimate cfg cliquesOf build s args).2 = (estimate cfg cliquesOf build s' args).2 := by
  simp [estimate, initialTheta, hcold]

/-- **history-freeness**: without warm start the model returned by the k-th call equals what a
fresh estimator returns for the same arguments, whatever calls came before -/
theorem cold_history_free (cfg : Config α) (cliquesOf : Args → List JT.Clique)
    (build : Config α → Args → CliqueVec α → Model α) (hcold : cfg.warmStart = false)
    (s : State α) (hist : List Args) :
    runHistory cfg cliquesOf build s hist
      = hist.map (fun a => (estimate cfg cliquesOf build ⟨none⟩ a).2) := by
  induction hist generalizing s with
  | nil => rfl
  | cons a as ih =>
    simp only [runHistory, List.map_cons]
    rw [ih, cold_call_history_free cfg cliquesOf build hcold s ⟨none⟩ a]

/-- with warm start the only thing carried over is the previous model's parameter vector -/
theorem warm_reads_only_potentials (cfg : Config α) (cliquesOf : Args → List JT.Clique)
    (build : Config α → Args → CliqueVec α → Model α) (m m' : Model α) (args : Args)
    (hp : m.potentials = m'.potentials) :
    (estimate cfg cliquesOf build ⟨some m⟩ args).2 = (estimate cfg cliquesOf build ⟨some m'⟩ args).2 := by
  cases hw : cfg.warmStart <;> simp [estimate, initialTheta, hw, hp]

/-- the first call of any estimator starts from the structural zeros alone -/
theorem first_call_initial (cfg : Config α) (cliques : List JT.Clique) :
    initialTheta cfg cliques ⟨none⟩ = CliqueVec.combine (CliqueVec.zerosV cfg.dom cliques) cfg.zeros := by
  cases hw : cfg.warmStart <;> simp [initialTheta, hw]

end PGM.C13
