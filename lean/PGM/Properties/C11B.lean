import PGM.Proofs.SynthTableMarg
import Mathlib.Tactic.NormNum.Basic
import Mathlib.Tactic.NormNum.GCD
/-!
# C11 (table level) — synthetic records faithfully realise the model: the whole table

Theorems about `PGM/Model/SynthTable.lean`, the model of the column loop of `synthetic_data`
(`graphical_model.py:203-249`, rounding mode).  The random outcomes `outs` (for every step, for every
group, the values handed to the group's rows) are universally quantified, constrained only by
`outsOK` (every group's histogram passes the verified column checker `colOK`).
-/
namespace PGM.C11
open PGM PGM.Synth

/-! ## a concrete run: three attributes, chain a–b–c, five records

The conditional tables are slices of one consistent family of clique marginals of mass `S = 4`:
`μ_a = [2, 2]`, `μ_ab = [[1, 1], [0, 2]]`, `μ_bc = [[1, 0, 0], [1, 1, 1]]`.  With five records every
step really rounds (`2.5 → 3, 2`; `1.5 → 2, 1`), the keys of step c appear in the order `[1], [0]`
and are really sorted, and the cell `a = 1, b = 0` of mass zero stays empty.
The tables after each step are `exT1`, `exT2`, `exT3`. -/

def exA : ColSpec := ⟨0, [], 2, fun _ => [2, 2]⟩
def exB : ColSpec := ⟨1, [0], 2, fun g => if g = [0] then [1, 1] else [0, 2]⟩
def exC : ColSpec := ⟨2, [1], 3, fun g => if g = [0] then [1, 0, 0] else [1, 1, 1]⟩
def exSpecs : List ColSpec := [exA, exB, exC]
def exOuts : List (List (List Nat)) := [[[0, 1, 1, 0, 0]], [[1, 0, 0], [1, 1]], [[0, 0], [2, 0, 1]]]

def exT0 : List Row := [[0, 0, 0], [0, 0, 0], [0, 0, 0], [0, 0, 0], [0, 0, 0]]
def exT1 : List Row := [[0, 0, 0], [1, 0, 0], [1, 0, 0], [0, 0, 0], [0, 0, 0]]
def exT2 : List Row := [[0, 1, 0], [1, 1, 0], [1, 1, 0], [0, 0, 0], [0, 0, 0]]
def exT3 : List Row := [[0, 1, 2], [1, 1, 0], [1, 1, 1], [0, 0, 0], [0, 0, 0]]

theorem exT0_eq : List.replicate 5 (List.replicate 3 0) = exT0 := by decide

theorem exStepA : genCol exA exT0 [[0, 1, 1, 0, 0]] = exT1 := by
  simp [exA, exT0, exT1, genCol, groupKeys, key, List.eraseDups_cons, assignGroup]

theorem exStepB : genCol exB exT1 [[1, 0, 0], [1, 1]] = exT2 := by
  simp [exB, exT1, exT2, genCol, groupKeys, key, List.eraseDups_cons, assignGroup,
    List.mergeSort, List.MergeSort.Internal.splitInTwo, lexLe]

theorem exStepC : genCol exC exT2 [[0, 0], [2, 0, 1]] = exT3 := by
  simp [exC, exT2, exT3, genCol, groupKeys, key, List.eraseDups_cons, assignGroup,
    List.mergeSort, List.MergeSort.Internal.splitInTwo, lexLe]

theorem exOKA : colOutsOK exA exT0 [[0, 1, 1, 0, 0]] = true := by
  simp [exA, exT0, colOutsOK, groupKeys, key, List.eraseDups_cons, groupSize, colOK, scaled, sumQ,
    sumN, hist, List.range, List.range.loop]
  norm_num [Rat.floor]
  decide

theorem exOKB : colOutsOK exB exT1 [[1, 0, 0], [1, 1]] = true := by
  simp [exB, exT1, colOutsOK, groupKeys, key, List.eraseDups_cons, groupSize, colOK, scaled, sumQ,
    sumN, hist, List.range, List.range.loop, List.mergeSort, List.MergeSort.Internal.splitInTwo, lexLe]
  norm_num [Rat.floor]
  decide

theorem exOKC : colOutsOK exC exT2 [[0, 0], [2, 0, 1]] = true := by
  simp [exC, exT2, colOutsOK, groupKeys, key, List.eraseDups_cons, groupSize, colOK, scaled, sumQ,
    sumN, hist, List.range, List.range.loop, List.mergeSort, List.MergeSort.Internal.splitInTwo, lexLe]
  norm_num [Rat.floor]
  decide

theorem exSpecsWF : specsWF 3 [] exSpecs = true := by decide

theorem exOutsOK : outsOK 3 5 exSpecs exOuts (List.replicate 5 (List.replicate 3 0)) = true := by
  rw [exT0_eq]
  simp only [exSpecs, exOuts, outsOK, exStepA, exStepB, exOKA, exOKB, exOKC, Bool.and_self]

theorem exTable : synthTable 3 5 exSpecs exOuts = exT3 := by
  unfold synthTable
  rw [exT0_eq]
  simp only [exSpecs, exOuts, List.zip_cons_cons, List.zip_nil_right, List.foldl_cons, List.foldl_nil,
    exStepA, exStepB, exStepC]

/-! ## Part 1: structure -/

/-- **exact row count**, for all specs and outcomes (no hypothesis) -/
theorem synthTable_length (ncols total : Nat) (specs : List ColSpec) (outs : List (List (List Nat))) :
    (synthTable ncols total specs outs).length = total := by
  apply Table.synthTable_length

/-- every row keeps the width `ncols` (no hypothesis) -/
theorem synthTable_row_width (ncols total : Nat) (specs : List ColSpec) (outs : List (List (List Nat))) :
    ∀ r ∈ synthTable ncols total specs outs, r.length = ncols := by
  apply Table.synthTable_row_width

/-- every generated value lies in its attribute's domain -/
theorem synthTable_in_domain (ncols total : Nat) (specs : List ColSpec) (outs : List (List (List Nat)))
    (hwf : specsWF ncols [] specs = true)
    (hok : outsOK ncols total specs outs (List.replicate total (List.replicate ncols 0)) = true) :
    ∀ r ∈ synthTable ncols total specs outs, ∀ sp ∈ specs, r.getD sp.col 0 < sp.size := by
  apply Table.synthTable_in_domain <;> assumption

example : ∀ r ∈ synthTable 3 5 exSpecs exOuts, ∀ sp ∈ exSpecs, r.getD sp.col 0 < sp.size :=
  synthTable_in_domain 3 5 exSpecs exOuts exSpecsWF exOutsOK

/-- the group keys the `k`-th step saw (on the table of the first `k` steps) are the group keys of
the final table: later steps never write a conditioning column -/
theorem synthTable_groupKeys_stable (ncols total : Nat) (specs : List ColSpec)
    (outs : List (List (List Nat))) (hwf : specsWF ncols [] specs = true) (k : Nat) (sp : ColSpec)
    (hk : specs[k]? = some sp) :
    groupKeys sp.proj (synthTable ncols total (specs.take k) (outs.take k))
      = groupKeys sp.proj (synthTable ncols total specs outs) := by
  apply Table.synthTable_groupKeys_stable <;> assumption

/-- **group histograms**: for the step `sp` with outcome list `o`, the `i`-th outcome `og` went to
the `i`-th group key `g` (of the final table, equivalently — `synthTable_groupKeys_stable` — of the
table the step saw); there is one outcome per group; the group has `og.length` rows in the final
table, `og` passed the column checker, and the number of final rows in the cell `(g, v)` of
`proj ++ [col]` is the number of `v`s in `og`. -/
theorem synthTable_group_hist (ncols total : Nat) (specs : List ColSpec) (outs : List (List (List Nat)))
    (hwf : specsWF ncols [] specs = true)
    (hok : outsOK ncols total specs outs (List.replicate total (List.replicate ncols 0)) = true)
    (sp : ColSpec) (o : List (List Nat)) (hso : (sp, o) ∈ List.zip specs outs) :
    o.length = (groupKeys sp.proj (synthTable ncols total specs outs)).length ∧
    ∀ g og, (g, og) ∈ List.zip (groupKeys sp.proj (synthTable ncols total specs outs)) o →
      og.length = cellCount sp.proj g (synthTable ncols total specs outs) ∧
      colOK (sp.cond g) og.length (hist sp.size og) = true ∧
      ∀ v, cellCount (sp.proj ++ [sp.col]) (g ++ [v]) (synthTable ncols total specs outs) = og.count v := by
  apply Table.synthTable_group_hist <;> assumption

/-- every key occurring among the final rows is one of the groups of `synthTable_group_hist` -/
theorem synthTable_group_covered (ncols total : Nat) (specs : List ColSpec) (outs : List (List (List Nat)))
    (hwf : specsWF ncols [] specs = true)
    (hok : outsOK ncols total specs outs (List.replicate total (List.replicate ncols 0)) = true)
    (sp : ColSpec) (o : List (List Nat)) (hso : (sp, o) ∈ List.zip specs outs) (g : List Nat)
    (hg : g ∈ (synthTable ncols total specs outs).map (key sp.proj)) :
    ∃ og, (g, og) ∈ List.zip (groupKeys sp.proj (synthTable ncols total specs outs)) o := by
  apply Table.synthTable_group_covered <;> assumption

/-- **rounding error below one in every cell of every model clique**, relative to the number `n_g`
of final rows in the conditioning cell: `|N(g, v) − n_g · cond(g)[v] / Σ cond(g)| < 1`, for every
key `g` (occurring or not) and every value `v` (in the domain or not).  The conditional slice must
be nonnegative (positive mass follows from acceptance by `colOK`). -/
theorem synthTable_cell_error (ncols total : Nat) (specs : List ColSpec) (outs : List (List (List Nat)))
    (hwf : specsWF ncols [] specs = true)
    (hok : outsOK ncols total specs outs (List.replicate total (List.replicate ncols 0)) = true)
    (sp : ColSpec) (hsp : sp ∈ specs) (g : List Nat) (hnn : ∀ c ∈ sp.cond g, 0 ≤ c) (v : Nat) :
    |((cellCount (sp.proj ++ [sp.col]) (g ++ [v]) (synthTable ncols total specs outs) : Nat) : Rat)
      - (scaled (sp.cond g) (cellCount sp.proj g (synthTable ncols total specs outs))).getD v 0| < 1 := by
  apply Table.synthTable_cell_error <;> assumption

/-- why `synthTable_cell_error` needs the sign hypothesis: `outsOK` (through `colOK`) does not check
it, and `colOK` accepts this histogram of one record although cell 0 is off by `3/2` -/
example : colOK [-3/2, 1/2, 1/2, 1/2, 1/2, 1/2] 1 [0, 0, 0, 0, 0, 1] = true := by
  simp [colOK, scaled, sumQ, sumN]
  norm_num [Rat.floor]
  decide

/-- **no record in a cell to which the conditional gives zero** (no sign hypothesis needed) -/
theorem synthTable_support (ncols total : Nat) (specs : List ColSpec) (outs : List (List (List Nat)))
    (hwf : specsWF ncols [] specs = true)
    (hok : outsOK ncols total specs outs (List.replicate total (List.replicate ncols 0)) = true)
    (sp : ColSpec) (hsp : sp ∈ specs) (g : List Nat) (v : Nat) (hz : (sp.cond g).getD v 0 = 0) :
    cellCount (sp.proj ++ [sp.col]) (g ++ [v]) (synthTable ncols total specs outs) = 0 := by
  apply Table.synthTable_support <;> assumption

example : (exB, [[1, 0, 0], [1, 1]]) ∈ List.zip exSpecs exOuts := by simp [exSpecs, exOuts]
theorem exNonneg : ∀ sp ∈ exSpecs, ∀ g, ∀ c ∈ sp.cond g, (0 : Rat) ≤ c := by
  intro sp hsp g c hc
  simp only [exSpecs, List.mem_cons, List.not_mem_nil, or_false] at hsp
  rcases hsp with rfl | rfl | rfl
  · simp [exA] at hc; rcases hc with rfl; norm_num
  · simp only [exB] at hc; split at hc <;> simp at hc <;> rcases hc with rfl | rfl <;> norm_num
  · simp only [exC] at hc; split at hc <;> simp at hc
    · rcases hc with rfl | rfl <;> norm_num
    · rcases hc with rfl; norm_num
/-- two records in the cell `a = 0, b = 0` (the scaled conditional is 1.5), none in `a = 1, b = 0` -/
example : cellCount (exB.proj ++ [exB.col]) ([0] ++ [0]) (synthTable 3 5 exSpecs exOuts) = 2 := by
  rw [exTable]; decide
example : cellCount (exB.proj ++ [exB.col]) ([1] ++ [0]) (synthTable 3 5 exSpecs exOuts) = 0 := by
  rw [exTable]; decide

/-! ## Part 2: the rounding error on model cliques does not grow with the number of rows

Definitions (in `PGM/Proofs/SynthTableChain.lean`, all executable): `specAt specs k` the `k`-th step;
`sp.pos = sp.proj ++ [sp.col]`; `attrSize specs a` the size declared by the step generating position
`a`; `tuplesOver size pos` all value tuples over `pos`; `fiber specs sj sp g` the cells of the parent
step `sj` that project onto the key `g` of `sp`; `condProb sp g v = cond(g)[v] / Σ cond(g)`;

* `target specs parent total k g v = targetProj · condProb (specAt specs k) g v` with
  `targetProj = total` if `proj_k = []`, else `Σ_{c ∈ fiber (parent k) k g} target (parent k) c`;
* `errBound specs parent k = 1` if `proj_k = []`, else `1 + fiberBound · errBound (parent k)` with
  `fiberBound = ∏ attrSize (pos_{parent k} \ proj_k)` (an upper bound — `fiber_count` — on the number
  of cells of the parent that project onto one key);
* `chainWF specs parent`: every conditional step `k` has `parent k < k` and
  `proj_k ⊆ proj_{parent k} ++ [col_{parent k}]`. -/

/-- chain a–b–c: the parent of a step is the previous step -/
def exParent (k : Nat) : Nat := k - 1

theorem exChainWF : chainWF exSpecs exParent = true := by decide

/-- the number of cells of the parent step that project onto one key of the child is at most the
product of the sizes of the parent's positions the child does not condition on -/
theorem fiber_count (ncols : Nat) (specs : List ColSpec) (hwf : specsWF ncols [] specs = true)
    (sj : ColSpec) (hsj : sj ∈ specs) (sp : ColSpec) (g : List Nat) :
    (fiber specs sj sp g).length ≤ fiberBound specs sj sp := by
  exact Table.fiber_length_le (attrSize specs) _ _ g (Table.pos_nodup ncols specs hwf sj hsj)

/-- **the clique error bound**: the number of final records in the cell `(g, v)` of the `k`-th
step's clique differs from the chain-rule target by at most `errBound specs parent k`, which depends
on the attribute sizes and the chain only — not on `total`. -/
theorem synthTable_clique_error (ncols total : Nat) (specs : List ColSpec) (outs : List (List (List Nat)))
    (parent : Nat → Nat) (hwf : specsWF ncols [] specs = true)
    (hok : outsOK ncols total specs outs (List.replicate total (List.replicate ncols 0)) = true)
    (hch : chainWF specs parent = true) (hnn : ∀ sp ∈ specs, ∀ g, ∀ c ∈ sp.cond g, (0 : Rat) ≤ c)
    (k : Nat) (hk : k < specs.length) (g : List Nat) (v : Nat)
    (hg : g.length = (specAt specs k).proj.length) :
    |((cellCount ((specAt specs k).proj ++ [(specAt specs k).col]) (g ++ [v])
          (synthTable ncols total specs outs) : Nat) : Rat)
      - target specs parent total k g v| ≤ (errBound specs parent k : Rat) := by
  apply Table.clique_error <;> assumption

/-- the bound of the last step of the example chain: `1 + 2·(1 + 1·1)` -/
example : errBound exSpecs exParent 2 = 5 := by
  rw [Table.errBound_step _ _ 2 (by decide) (by decide),
    Table.errBound_step _ _ (exParent 2) (by decide) (by decide),
    Table.errBound_root _ _ _ (by decide)]
  decide

example : |((cellCount ((specAt exSpecs 2).proj ++ [(specAt exSpecs 2).col]) ([1] ++ [2])
      (synthTable 3 5 exSpecs exOuts) : Nat) : Rat) - target exSpecs exParent 5 2 [1] 2|
    ≤ (errBound exSpecs exParent 2 : Rat) :=
  synthTable_clique_error 3 5 exSpecs exOuts exParent exSpecsWF exOutsOK exChainWF exNonneg 2
    (by decide) [1] 2 (by decide)

/-- **the targets are the model marginals**: if the conditional tables are slices of one consistent
family of clique marginals of mass `S` (`margConsistent`), the chain-rule target of every cell of
the domain is `total / S · μ_k(g, v)`. -/
theorem targets_eq_marginals (total : Nat) (specs : List ColSpec) (parent : Nat → Nat) (S : Rat)
    (hch : chainWF specs parent = true) (hcons : margConsistent specs parent S = true)
    (hnn : ∀ sp ∈ specs, ∀ g, ∀ c ∈ sp.cond g, (0 : Rat) ≤ c)
    (k : Nat) (hk : k < specs.length) (g : List Nat)
    (hg : g ∈ tuplesOver (attrSize specs) (specAt specs k).proj) (v : Nat) :
    target specs parent total k g v = (total : Rat) / S * mu specs k g v := by
  apply Table.targets_eq_marginals <;> assumption

theorem exMargConsistent : margConsistent exSpecs exParent 4 = true := by
  simp [margConsistent, exSpecs, exParent, specAt, exA, exB, exC, List.range, List.range.loop, sumQ,
    tuplesOver, attrSize, fiber, restrict, ColSpec.pos, mu, List.idxOf, List.findIdx, List.findIdx.go]
  norm_num

/-- the target of the cell `b = 1, c = 2` with five records: `5/4 · μ_bc(1, 2) = 5/4` (the table
holds one such record) -/
example : target exSpecs exParent 5 2 [1] 2 = 5 / 4 := by
  rw [targets_eq_marginals 5 exSpecs exParent 4 exChainWF exMargConsistent exNonneg 2 (by decide) [1]
    (by decide) 2]
  simp [mu, specAt, exSpecs, exC]

/-- hence: every cell of every model clique holds the model's expected count `total · μ / S`, up to
`errBound` records -/
theorem synthTable_clique_error_marginal (ncols total : Nat) (specs : List ColSpec)
    (outs : List (List (List Nat))) (parent : Nat → Nat) (S : Rat)
    (hwf : specsWF ncols [] specs = true)
    (hok : outsOK ncols total specs outs (List.replicate total (List.replicate ncols 0)) = true)
    (hch : chainWF specs parent = true) (hcons : margConsistent specs parent S = true)
    (hnn : ∀ sp ∈ specs, ∀ g, ∀ c ∈ sp.cond g, (0 : Rat) ≤ c)
    (k : Nat) (hk : k < specs.length) (g : List Nat)
    (hg : g ∈ tuplesOver (attrSize specs) (specAt specs k).proj) (v : Nat) :
    |((cellCount ((specAt specs k).proj ++ [(specAt specs k).col]) (g ++ [v])
          (synthTable ncols total specs outs) : Nat) : Rat)
      - (total : Rat) / S * mu specs k g v| ≤ (errBound specs parent k : Rat) := by
  apply Table.clique_error_marginal <;> assumption

example : |((cellCount ((specAt exSpecs 2).proj ++ [(specAt exSpecs 2).col]) ([1] ++ [2])
      (synthTable 3 5 exSpecs exOuts) : Nat) : Rat) - (5 : Nat) / 4 * mu exSpecs 2 [1] 2|
    ≤ (errBound exSpecs exParent 2 : Rat) :=
  synthTable_clique_error_marginal 3 5 exSpecs exOuts exParent 4 exSpecsWF exOutsOK exChainWF
    exMargConsistent exNonneg 2 (by decide) [1] (by decide) 2

end PGM.C11
