import PGM.Generated.SlicesR
import PGM.Proofs.Fold
import PGM.Proofs.Ledger
/-!
# C05 — mechanisms never spend more privacy than the (ε, δ) budget

The budget / calibration expressions below (`mst_sigma`, `aim_rho_used_step`, `mwem_gau_scale`, …)
are regenerated from `mechanisms/*.py` by `tools/py2lean.py` on every run (`PGM/Generated/SlicesR`);
the ledgers compose them exactly as the mechanisms' control flow does.  Charging rule (the
property's): a Gaussian release with true L2 change `Δ` and scale `σ` costs `Δ²/(2σ²)` zCDP; an
exponential-mechanism selection whose log-probabilities move by at most `ε'` costs `ε'²/8` zCDP (or
`ε'` pure DP); Laplace with true L1 change `Δ₁` and scale `b` costs `Δ₁/b` pure DP; costs add.
A selection run with score coefficient `c` per unit of quality on qualities of true sensitivity `Δ`
moves log-probabilities by at most `2cΔ` (`PGM/Properties/C20.lean: em_logratio_le`).
-/
/- the proofs below are written to survive regeneration of `SlicesR` (`simp only [defs] <;> pgm_arith`),
so some simp arguments / `<;>` / closing tactics are redundant for the current shape of the definitions -/
set_option linter.unusedSimpArgs false
set_option linter.unnecessarySeqFocus false
set_option linter.unreachableTactic false
set_option linter.unusedTactic false
namespace PGM.C05
open PGM.Gen.R PGM.Ledger

noncomputable def gaussCost (Δ σ : ℝ) : ℝ := Δ ^ 2 / (2 * σ ^ 2)
noncomputable def selectCost (ε' : ℝ) : ℝ := ε' ^ 2 / 8
/-- realised ε' of a selection with score coefficient `c` on qualities of true sensitivity `Δ` -/
noncomputable def realisedEps (c Δ : ℝ) : ℝ := 2 * c * Δ

/-! ### MST -/

/-- zCDP spent by MST: `ws1`, `ws2` are the per-marginal weights of the two `measure` calls (each
normalised by `measure` to unit L2 norm), `r` the number of connected components before selection -/
noncomputable def mstSpent (rho : ℝ) (ws1 ws2 : List ℝ) (r : ℕ) : ℝ :=
  (ws1.map (fun w => gaussCost 1 (mst_measure_scale (mst_measure1_sigma (mst_sigma rho)) w))).sum
  + ((r : ℝ) - 1) * selectCost (realisedEps (mst_em_scores (mst_em_coef false)
        (mst_select_eps (mst_select_rho rho) r) mst_select_sensitivity 1 0) 1)
  + (ws2.map (fun w => gaussCost 1 (mst_measure_scale (mst_measure2_sigma (mst_sigma rho)) w))).sum

/-- **MST spends exactly ρ** (three thirds) for every number of attributes and every forest of
pre-selected edges leaving `r ≥ 2` components; with `r = 1` nothing is selected and it spends `2ρ/3` -/
theorem mst_budget (rho : ℝ) (ws1 ws2 : List ℝ) (r : ℕ) (hrho : 0 < rho)
    (h1 : (ws1.map (· ^ 2)).sum = 1) (h2 : (ws2.map (· ^ 2)).sum = 1)
    (hp1 : ∀ w ∈ ws1, 0 < w) (hp2 : ∀ w ∈ ws2, 0 < w) (hr : 2 ≤ r) :
    mstSpent rho ws1 ws2 r = rho := by
  have hσ := mst_sigma_pos rho hrho
  have hσ2 := mst_sigma_sq rho hrho
  have hg1 : ∀ w ∈ ws1, gaussCost 1 (mst_measure_scale (mst_measure1_sigma (mst_sigma rho)) w)
      = w ^ 2 / (2 * mst_sigma rho ^ 2) := by
    intro w hw
    have := (hp1 w hw).ne'
    simp only [gaussCost, mst_measure_scale, mst_measure1_sigma] <;> pgm_arith
  have hg2 : ∀ w ∈ ws2, gaussCost 1 (mst_measure_scale (mst_measure2_sigma (mst_sigma rho)) w)
      = w ^ 2 / (2 * mst_sigma rho ^ 2) := by
    intro w hw
    have := (hp2 w hw).ne'
    simp only [gaussCost, mst_measure_scale, mst_measure2_sigma] <;> pgm_arith
  have hr1 := natCast_sub_one_pos r hr
  have heps := mst_select_eps_sq rho r hrho hr1
  have hsel : ∀ e, selectCost (realisedEps (mst_em_scores (mst_em_coef false) e mst_select_sensitivity 1 0) 1)
      = e ^ 2 / 8 := by
    intro e
    simp only [selectCost, realisedEps, mst_em_scores, mst_em_coef, mst_select_sensitivity,
      Bool.false_eq_true, reduceIte] <;> pgm_arith
  unfold mstSpent
  rw [sum_map_eq_sq_div ws1 _ _ hg1, sum_map_eq_sq_div ws2 _ _ hg2, hsel, heps, hσ2, h1, h2]
  pgm_arith

theorem mst_budget_no_selection (rho : ℝ) (ws1 ws2 : List ℝ) (hrho : 0 < rho)
    (h1 : (ws1.map (· ^ 2)).sum = 1) (h2 : (ws2.map (· ^ 2)).sum = 1)
    (hp1 : ∀ w ∈ ws1, 0 < w) (hp2 : ∀ w ∈ ws2, 0 < w) :
    mstSpent rho ws1 ws2 1 ≤ rho := by
  have hσ := mst_sigma_pos rho hrho
  have hσ2 := mst_sigma_sq rho hrho
  have hg1 : ∀ w ∈ ws1, gaussCost 1 (mst_measure_scale (mst_measure1_sigma (mst_sigma rho)) w)
      = w ^ 2 / (2 * mst_sigma rho ^ 2) := by
    intro w hw
    have := (hp1 w hw).ne'
    simp only [gaussCost, mst_measure_scale, mst_measure1_sigma] <;> pgm_arith
  have hg2 : ∀ w ∈ ws2, gaussCost 1 (mst_measure_scale (mst_measure2_sigma (mst_sigma rho)) w)
      = w ^ 2 / (2 * mst_sigma rho ^ 2) := by
    intro w hw
    have := (hp2 w hw).ne'
    simp only [gaussCost, mst_measure_scale, mst_measure2_sigma] <;> pgm_arith
  have e : (1 : ℝ) / (2 * (3 / (2 * rho))) = rho / 3 := by pgm_arith
  unfold mstSpent
  rw [sum_map_eq_sq_div ws1 _ _ hg1, sum_map_eq_sq_div ws2 _ _ hg2, hσ2, h1, h2, e]
  simp only [Nat.cast_one, sub_self, zero_mul, add_zero]
  linarith

/-- the noise scale reported to the estimator is the scale actually used -/
theorem mst_reported_scale (sigma wgt : ℝ) :
    mst_measure_reported_noise sigma wgt = mst_measure_scale sigma wgt := by
  simp only [mst_measure_reported_noise, mst_measure_scale] <;> pgm_arith

/-! ### AIM -/

structure AimState where
  rho_used : ℝ
  sigma : ℝ
  epsilon : ℝ
  terminated : Bool

/-- state after the one-way marginals (aim.py:72-77) -/
noncomputable def aimInit (rho rounds nOneway : ℝ) : AimState :=
  ⟨aim_rho_used0 nOneway (aim_sigma0 rounds rho), aim_sigma0 rounds rho, aim_eps0 rho rounds, false⟩

open Classical in
/-- one round of the `while not terminate` loop (aim.py:88-118); `anneal` is the outcome of the
data-dependent test `‖w−z‖₁ ≤ σ√(2/π)·n` -/
noncomputable def aimStep (rho : ℝ) (s : AimState) (anneal : Bool) : AimState :=
  if s.terminated then s else
  let last := decide (aim_last_round_guard rho s.rho_used s.sigma s.epsilon)
  let rem := aim_remaining rho s.rho_used
  let sigma := if last then aim_sigma_last rem else s.sigma
  let eps := if last then aim_eps_last rem else s.epsilon
  let used := aim_rho_used_step s.rho_used eps sigma
  ⟨used, if anneal then aim_sigma_anneal sigma else sigma, if anneal then aim_eps_anneal eps else eps, last⟩

/-- what a round really costs under the charging rule: a Gaussian release at the scale passed to
the sampler plus a selection whose coefficient is `0.5·ε/Δ` on scores of true sensitivity `Δ` -/
noncomputable def aimRoundCost (sigma eps : ℝ) : ℝ :=
  gaussCost 1 (aim_noise_scale_round sigma) + selectCost (realisedEps ((0.5 : ℝ) * aim_select_eps eps / 1) 1)

/-- the ledger variable `rho_used` is incremented by exactly the realised cost of the round -/
theorem aim_ledger_matches (u eps sigma : ℝ) :
    aim_rho_used_step u eps sigma = u + aimRoundCost sigma eps := by
  simp only [aim_rho_used_step, aimRoundCost, gaussCost, selectCost, realisedEps,
    aim_noise_scale_round, aim_select_eps] <;> pgm_arith

/-- the initial charge is the realised cost of the one-way releases -/
theorem aim_init_matches (rho rounds : ℝ) (n : ℕ) :
    (aimInit rho rounds n).rho_used = (n : ℝ) * gaussCost 1 (aim_noise_scale_init (aim_sigma0 rounds rho)) := by
  simp only [aimInit, aim_rho_used0, gaussCost, aim_noise_scale_init] <;> pgm_arith

/-- the round cost in canonical form -/
theorem aimRoundCost_eq (sigma eps : ℝ) : aimRoundCost sigma eps = 1 / (2 * sigma ^ 2) + eps ^ 2 / 8 := by
  simp only [aimRoundCost, gaussCost, selectCost, realisedEps, aim_noise_scale_round, aim_select_eps] <;>
    pgm_arith

theorem aimRoundCost_nonneg (sigma eps : ℝ) : 0 ≤ aimRoundCost sigma eps := by
  rw [aimRoundCost_eq]; positivity

/-- the branch condition of `aim.py` is "remaining budget < twice the realised cost of a round" -/
theorem aim_guard_iff (rho u sigma eps : ℝ) :
    aim_last_round_guard rho u sigma eps ↔ rho - u < 2 * aimRoundCost sigma eps := by
  have e : aimRoundCost sigma eps = aim_rho_used_step u eps sigma - u := by
    rw [aim_ledger_matches]; ring
  rw [e]
  unfold aim_last_round_guard aim_rho_used_step
  constructor <;> intro h <;> norm_num1 at h ⊢ <;> linarith

/-- the last round (re-calibrated to the remaining budget `rem ≥ 0`) costs exactly `rem` -/
theorem aim_last_round_cost (rem : ℝ) (hrem : 0 ≤ rem) :
    aimRoundCost (aim_sigma_last rem) (aim_eps_last rem) = rem := by
  rw [aimRoundCost_eq, aim_sigma_last_sq rem hrem, aim_eps_last_sq rem hrem]
  by_cases h0 : rem = 0
  · subst h0; norm_num
  · pgm_arith

/-- ledger invariant of the AIM loop -/
def AimInv (rho : ℝ) (s : AimState) : Prop :=
  s.rho_used ≤ rho ∧ (s.terminated = true → s.rho_used = rho)

theorem aimInv_init (rho rounds : ℝ) (n : ℕ) (hrho : 0 < rho) (hrounds : 0 < rounds)
    (hfit : 0.9 * (n : ℝ) ≤ rounds) : AimInv rho (aimInit rho rounds n) := by
  refine ⟨?_, fun h => by simp [aimInit] at h⟩
  rw [aim_init_matches]
  have hG : ∀ σ, gaussCost 1 (aim_noise_scale_init σ) = 1 / (2 * σ ^ 2) := by
    intro σ
    simp only [gaussCost, aim_noise_scale_init] <;> pgm_arith
  rw [hG, aim_sigma0_sq rounds rho hrho hrounds]
  have e : (n : ℝ) * (1 / (2 * (rounds / (1.8 * rho)))) = 0.9 * n * rho / rounds := by
    pgm_arith
  rw [e, div_le_iff₀ hrounds]
  nlinarith [mul_le_mul_of_nonneg_right hfit hrho.le]

theorem aimInv_step (rho : ℝ) (s : AimState) (anneal : Bool) (h : AimInv rho s) :
    AimInv rho (aimStep rho s anneal) := by
  obtain ⟨hle, hterm⟩ := h
  by_cases ht : s.terminated = true
  · have : aimStep rho s anneal = s := by simp [aimStep, ht]
    rw [this]; exact ⟨hle, hterm⟩
  · by_cases hg : aim_last_round_guard rho s.rho_used s.sigma s.epsilon
    · have hu : (aimStep rho s anneal).rho_used = aim_rho_used_step s.rho_used
          (aim_eps_last (aim_remaining rho s.rho_used)) (aim_sigma_last (aim_remaining rho s.rho_used)) := by
        simp [aimStep, ht, hg]
      have hrem : aim_remaining rho s.rho_used = rho - s.rho_used := by
        simp only [aim_remaining] <;> pgm_arith
      have hrem0 : 0 ≤ aim_remaining rho s.rho_used := by rw [hrem]; linarith
      have : (aimStep rho s anneal).rho_used = rho := by
        rw [hu, aim_ledger_matches, aim_last_round_cost _ hrem0, hrem]; ring
      exact ⟨this.le, fun _ => this⟩
    · have hu : (aimStep rho s anneal).rho_used = aim_rho_used_step s.rho_used s.epsilon s.sigma := by
        simp [aimStep, ht, hg]
      have hT : (aimStep rho s anneal).terminated = false := by
        simp [aimStep, ht, hg]
      have hc := aimRoundCost_nonneg s.sigma s.epsilon
      have hg' := (not_congr (aim_guard_iff rho s.rho_used s.sigma s.epsilon)).mp hg
      rw [not_lt] at hg'
      refine ⟨?_, fun h => by rw [hT] at h; exact absurd h (by simp)⟩
      rw [hu, aim_ledger_matches]
      linarith

theorem aimInv_fold (rho rounds : ℝ) (n : ℕ) (outcomes : List Bool) (hrho : 0 < rho) (hrounds : 0 < rounds)
    (hfit : 0.9 * (n : ℝ) ≤ rounds) :
    AimInv rho (outcomes.foldl (aimStep rho) (aimInit rho rounds n)) :=
  foldl_inv (AimInv rho) (aimStep rho) outcomes _ (aimInv_init rho rounds n hrho hrounds hfit)
    (fun s b h => aimInv_step rho s b h)

/-- **AIM never overspends**, for every number of rounds actually executed and every annealing
history, provided the one-way marginals fit (`0.9·#oneway ≤ rounds` — the hypothesis the proof
forces; the excluded region is executed on the real code by the check).

Equality case `0.9·#oneway = rounds` (audit 2, `C_c07_c05`): the statement is true there only through the field convention
`1/0 = 0`.  At equality the one-way releases already spend all of `ρ`; the next round re-calibrates to the remaining budget `0`,
`aim_sigma_last 0 = sqrt(1/(2·0.9·0)) = 0` in ℝ, and the ledger books cost `0` for that release — whereas the real code raises
`ZeroDivisionError`.  So `≤` is the hypothesis of the LEDGER inequality; as a statement about runs that release something it is
meaningful under the STRICT `0.9·#oneway < rounds` only, which is what C05E (`aim_total_cost_le_rho`, `aim_events_scale_pos`)
now requires. -/
theorem aim_budget (rho rounds : ℝ) (n : ℕ) (outcomes : List Bool) (hrho : 0 < rho) (hrounds : 0 < rounds)
    (hfit : 0.9 * (n : ℝ) ≤ rounds) :
    (outcomes.foldl (aimStep rho) (aimInit rho rounds n)).rho_used ≤ rho := by
  exact (aimInv_fold rho rounds n outcomes hrho hrounds hfit).1

/-- … and once the last round has run, exactly ρ has been spent -/
theorem aim_budget_exact_at_termination (rho rounds : ℝ) (n : ℕ) (outcomes : List Bool) (hrho : 0 < rho)
    (hrounds : 0 < rounds) (hfit : 0.9 * (n : ℝ) ≤ rounds)
    (hterm : (outcomes.foldl (aimStep rho) (aimInit rho rounds n)).terminated = true) :
    (outcomes.foldl (aimStep rho) (aimInit rho rounds n)).rho_used = rho := by
  exact (aimInv_fold rho rounds n outcomes hrho hrounds hfit).2 hterm

/-! ### MWEM+PGM -/

/-- true sensitivities under the mechanism's adjacency: replace-one (`bounded`) changes a marginal
by `e_x − e_x'` (L1 2, L2 √2) and the L1-error score by at most 2; add/remove by 1 everywhere -/
noncomputable def trueL1 (bounded : Bool) : ℝ := if bounded then 2 else 1
noncomputable def trueL2 (bounded : Bool) : ℝ := if bounded then Real.sqrt 2 else 1

/-- zCDP per round, Gaussian noise -/
noncomputable def mwemRoundGauss (rho rounds alpha : ℝ) (bounded : Bool) : ℝ :=
  let rpr := mwem_rho_per_round rho rounds
  gaussCost (trueL2 bounded) (mwem_gau_scale (mwem_gau_msens bounded) (mwem_gau_sigma alpha rpr))
  + selectCost (realisedEps (mwem_sel_score (mwem_select_eps (mwem_gau_exp_eps alpha rpr))
      (mwem_sel_sensitivity (mwem_select_bounded bounded)) 1 0) (trueL1 bounded))

/-- **MWEM+PGM (Gaussian) spends exactly ρ over its rounds**, both adjacency notions -/
theorem mwem_budget_gauss (rho alpha : ℝ) (rounds : ℕ) (bounded : Bool) (hrho : 0 < rho)
    (hr : 0 < rounds) (ha0 : 0 < alpha) (ha1 : alpha < 1) :
    (rounds : ℝ) * mwemRoundGauss rho rounds alpha bounded = rho := by
  have hR : (0 : ℝ) < rounds := by exact_mod_cast hr
  have hrpr_eq : mwem_rho_per_round rho rounds = rho / rounds := by
    simp only [mwem_rho_per_round] <;> pgm_arith
  have hrpr : 0 < mwem_rho_per_round rho rounds := by rw [hrpr_eq]; positivity
  have h1a : 0 < 1 - alpha := by linarith
  have hσ2 := mwem_gau_sigma_sq alpha _ ha0 hrpr
  have heps := mwem_gau_exp_eps_sq alpha _ h1a hrpr
  have hm2 := mwem_gau_msens_sq bounded
  have hG : ∀ m σ, gaussCost (trueL2 bounded) (mwem_gau_scale m σ)
      = trueL2 bounded ^ 2 / (2 * (m ^ 2 * σ ^ 2)) := by
    intro m σ
    simp only [gaussCost, mwem_gau_scale] <;> pgm_arith
  have hL2 : trueL2 bounded ^ 2 = if bounded then 2 else 1 := by
    cases bounded <;> simp [trueL2]
  have hS : ∀ e, selectCost (realisedEps (mwem_sel_score (mwem_select_eps e)
      (mwem_sel_sensitivity (mwem_select_bounded bounded)) 1 0) (trueL1 bounded)) = e ^ 2 / 8 := by
    intro e
    cases bounded <;>
    simp only [selectCost, realisedEps, mwem_sel_score, mwem_select_eps, mwem_sel_sensitivity,
      mwem_select_bounded, trueL1, Bool.false_eq_true, reduceIte] <;> pgm_arith
  simp only [mwemRoundGauss]
  rw [hG, hS, hL2, hm2, hσ2, heps, hrpr_eq]
  cases bounded <;> simp only [Bool.false_eq_true, reduceIte] <;> pgm_arith

/-- pure-DP cost per round, Laplace noise -/
noncomputable def mwemRoundLaplace (epsilon rounds alpha : ℝ) (bounded : Bool) : ℝ :=
  let epr := mwem_lap_eps_per_round epsilon rounds
  trueL1 bounded / mwem_lap_scale (mwem_lap_msens bounded) (mwem_lap_sigma alpha epr)
  + realisedEps (mwem_sel_score (mwem_select_eps (mwem_lap_exp_eps alpha epr))
      (mwem_sel_sensitivity (mwem_select_bounded bounded)) 1 0) (trueL1 bounded)

/-- **MWEM+PGM (Laplace) spends exactly ε** -/
theorem mwem_budget_laplace (epsilon alpha : ℝ) (rounds : ℕ) (bounded : Bool) (heps : 0 < epsilon)
    (hr : 0 < rounds) (ha0 : 0 < alpha) (ha1 : alpha < 1) :
    (rounds : ℝ) * mwemRoundLaplace epsilon rounds alpha bounded = epsilon := by
  have hR : (0 : ℝ) < rounds := by exact_mod_cast hr
  have _ := ha1
  have hepr_eq : mwem_lap_eps_per_round epsilon rounds = epsilon / rounds := by
    simp only [mwem_lap_eps_per_round] <;> pgm_arith
  have hL : ∀ epr, trueL1 bounded / mwem_lap_scale (mwem_lap_msens bounded) (mwem_lap_sigma alpha epr)
      = alpha * epr := by
    intro epr
    by_cases he : epr = 0
    · subst he
      cases bounded <;>
      simp [trueL1, mwem_lap_scale, mwem_lap_msens, mwem_lap_sigma]
    · have := ha0.ne'
      cases bounded <;>
      simp only [trueL1, mwem_lap_scale, mwem_lap_msens, mwem_lap_sigma, Bool.false_eq_true, reduceIte] <;>
      pgm_arith
  have hS : ∀ e, realisedEps (mwem_sel_score (mwem_select_eps e)
      (mwem_sel_sensitivity (mwem_select_bounded bounded)) 1 0) (trueL1 bounded) = e := by
    intro e
    cases bounded <;>
    simp only [realisedEps, mwem_sel_score, mwem_select_eps, mwem_sel_sensitivity,
      mwem_select_bounded, trueL1, Bool.false_eq_true, reduceIte] <;> pgm_arith
  have hE : ∀ epr, mwem_lap_exp_eps alpha epr = (1 - alpha) * epr := by
    intro epr
    simp only [mwem_lap_exp_eps] <;> pgm_arith
  simp only [mwemRoundLaplace]
  rw [hL, hS, hE, hepr_eq]
  pgm_arith

/-! ### Adaptive grid -/

/-- zCDP spent by `adagrid` given the three step budgets: `n1` step-1 releases, `r−1` selections,
`n3` step-3 releases; every query matrix has column norm ≤ 1 (checked on the real matrices per run) -/
noncomputable def adaSpent (rho1 rho2 rho3 : ℝ) (n1 n3 r : ℕ) : ℝ :=
  (n1 : ℝ) * gaussCost 1 (ada_step1_scale (ada_step1_sigma rho1 n1))
  + ((r : ℝ) - 1) * selectCost (realisedEps (ada_em_scores (ada_em_coef false)
        (ada_select_eps (ada_select_rho rho2) r) ada_select_sensitivity 1 0) 1)
  + (n3 : ℝ) * gaussCost 1 (ada_step3_scale (ada_step3_sigma n3 rho3))

theorem ada_steps (rho1 rho2 rho3 : ℝ) (n1 n3 r : ℕ) (h1 : 0 < rho1) (h2 : 0 < rho2) (h3 : 0 < rho3)
    (hn1 : 0 < n1) (hn3 : 0 < n3) (hr : 2 ≤ r) :
    adaSpent rho1 rho2 rho3 n1 n3 r = rho1 + rho2 + rho3 := by
  have hN1 : (0 : ℝ) < n1 := by exact_mod_cast hn1
  have hN3 : (0 : ℝ) < n3 := by exact_mod_cast hn3
  have hr1 := natCast_sub_one_pos r hr
  have hs1 := ada_step1_sigma_sq rho1 n1 h1 hN1
  have hs3 := ada_step3_sigma_sq n3 rho3 h3 hN3
  have heps := ada_select_eps_sq rho2 r h2 hr1
  have hG1 : ∀ σ, gaussCost 1 (ada_step1_scale σ) = 1 / (2 * σ ^ 2) := by
    intro σ
    simp only [gaussCost, ada_step1_scale] <;> pgm_arith
  have hG3 : ∀ σ, gaussCost 1 (ada_step3_scale σ) = 1 / (2 * σ ^ 2) := by
    intro σ
    simp only [gaussCost, ada_step3_scale] <;> pgm_arith
  have hsel : ∀ e, selectCost (realisedEps (ada_em_scores (ada_em_coef false) e ada_select_sensitivity 1 0) 1)
      = e ^ 2 / 8 := by
    intro e
    simp only [selectCost, realisedEps, ada_em_scores, ada_em_coef, ada_select_sensitivity,
      Bool.false_eq_true, reduceIte] <;> pgm_arith
  unfold adaSpent
  rw [hG1, hG3, hsel, heps, hs1, hs3]
  pgm_arith

/-- **Adaptive grid spends exactly ρ** with the default split … -/
theorem ada_budget_default (rho : ℝ) (n1 n3 r : ℕ) (hrho : 0 < rho) (hn1 : 0 < n1) (hn3 : 0 < n3) (hr : 2 ≤ r) :
    adaSpent (ada_rho_step_default rho) (ada_rho_step2_default rho) (ada_rho_step3_default rho) n1 n3 r = rho := by
  have e1 : ada_rho_step_default rho = rho / 3 := by simp only [ada_rho_step_default] <;> pgm_arith
  have e2 : ada_rho_step2_default rho = rho / 3 := by simp only [ada_rho_step2_default] <;> pgm_arith
  have e3 : ada_rho_step3_default rho = rho / 3 := by simp only [ada_rho_step3_default] <;> pgm_arith
  have hpos : 0 < rho / 3 := by positivity
  rw [e1, e2, e3, ada_steps _ _ _ n1 n3 r hpos hpos hpos hn1 hn3 hr]
  ring

/-- … and with any split strategy (fractions normalised to sum 1 by the code) -/
theorem ada_budget_split (rho f1 f2 f3 : ℝ) (n1 n3 r : ℕ) (hrho : 0 < rho) (hf1 : 0 < f1) (hf2 : 0 < f2)
    (hf3 : 0 < f3) (hsum : f1 + f2 + f3 = 1) (hn1 : 0 < n1) (hn3 : 0 < n3) (hr : 2 ≤ r) :
    adaSpent (ada_rho_step1_split rho f1) (ada_rho_step2_split rho f2) (ada_rho_step3_split rho f3) n1 n3 r = rho := by
  have e1 : ada_rho_step1_split rho f1 = rho * f1 := by simp only [ada_rho_step1_split] <;> pgm_arith
  have e2 : ada_rho_step2_split rho f2 = rho * f2 := by simp only [ada_rho_step2_split] <;> pgm_arith
  have e3 : ada_rho_step3_split rho f3 = rho * f3 := by simp only [ada_rho_step3_split] <;> pgm_arith
  rw [e1, e2, e3, ada_steps _ _ _ n1 n3 r (by positivity) (by positivity) (by positivity) hn1 hn3 hr]
  rw [← mul_add, ← mul_add, hsum, mul_one]

end PGM.C05
