import PGM.Generated.SlicesR
import PGM.Proofs.Fold
/-!
# C05 — mechanisms never spend more privacy than the (ε, δ) budget

The budget / calibration expressions below (`mst_sigma`, `aim_rho_used_step`, `mwem_gau_scale`, …)
are regenerated from `mechanisms/*.py` by `tools/py2lean.py` on every run (`PGM/Generated/SlicesR`);
the ledgers compose them exactly as the mechanisms' control flow does.  Charging rule (the
property's): a Gaussian release with true L2 change `Δ` and scale `σ` costs `Δ²/(2σ²)` zCDP; an
exponential-mechanism selection whose log-probabilities move by at most `ε'` costs `ε'²/8` zCDP (or
`ε'` pure DP); Laplace with true L1 change `Δ₁` and scale `b` costs `Δ₁/b` pure DP; costs add.
A selection run with score coefficient `c` per unit of quality on qualities of true sensitivity `Δ`
moves log-probabilities by at most `2cΔ` (`PGM/Properties/C20.lean: em_logratio_le`).
-/
namespace PGM.C05
open PGM.Gen.R

noncomputable def gaussCost (Δ σ : ℝ) : ℝ := Δ ^ 2 / (2 * σ ^ 2)
noncomputable def selectCost (ε' : ℝ) : ℝ := ε' ^ 2 / 8
/-- realised ε' of a selection with score coefficient `c` on qualities of true sensitivity `Δ` -/
noncomputable def realisedEps (c Δ : ℝ) : ℝ := 2 * c * Δ

/-! ### MST -/

/-- zCDP spent by MST: `ws1`, `ws2` are the per-marginal weights of the two `measure` calls (each
normalised by `measure` to unit L2 norm), `r` the number of connected components before selection -/
noncomputable def mstSpent (rho : ℝ) (ws1 ws2 : List ℝ) (r : ℕ) : ℝ :=
  (ws1.map (fun w => gaussCost 1 (mst_measure_scale (mst_measure1_sigma (mst_sigma rho)) w))).sum
  + ((r : ℝ) - 1) * selectCost (realisedEps (mst_em_scores (mst_em_coef false)
        (mst_select_eps (mst_select_rho rho) r) mst_select_sensitivity 1) 1)
  + (ws2.map (fun w => gaussCost 1 (mst_measure_scale (mst_measure2_sigma (mst_sigma rho)) w))).sum

/-- **MST spends exactly ρ** (three thirds) for every number of attributes and every forest of
pre-selected edges leaving `r ≥ 2` components; with `r = 1` nothing is selected and it spends `2ρ/3` -/
theorem mst_budget (rho : ℝ) (ws1 ws2 : List ℝ) (r : ℕ) (hrho : 0 < rho)
    (h1 : (ws1.map (· ^ 2)).sum = 1) (h2 : (ws2.map (· ^ 2)).sum = 1)
    (hp1 : ∀ w ∈ ws1, 0 < w) (hp2 : ∀ w ∈ ws2, 0 < w) (hr : 2 ≤ r) :
    mstSpent rho ws1 ws2 r = rho := by
  sorry

theorem mst_budget_no_selection (rho : ℝ) (ws1 ws2 : List ℝ) (hrho : 0 < rho)
    (h1 : (ws1.map (· ^ 2)).sum = 1) (h2 : (ws2.map (· ^ 2)).sum = 1)
    (hp1 : ∀ w ∈ ws1, 0 < w) (hp2 : ∀ w ∈ ws2, 0 < w) :
    mstSpent rho ws1 ws2 1 ≤ rho := by
  sorry

/-- the noise scale reported to the estimator is the scale actually used -/
theorem mst_reported_scale (sigma wgt : ℝ) :
    mst_measure_reported_noise sigma wgt = mst_measure_scale sigma wgt := by
  sorry

/-! ### AIM -/

structure AimState where
  rho_used : ℝ
  sigma : ℝ
  epsilon : ℝ
  terminated : Bool

/-- state after the one-way marginals (aim.py:72-77) -/
noncomputable def aimInit (rho rounds nOneway : ℝ) : AimState :=
  ⟨aim_rho_used0 nOneway (aim_sigma0 rounds rho), aim_sigma0 rounds rho, aim_eps0 rho rounds, false⟩

open Classical in
/-- one round of the `while not terminate` loop (aim.py:88-118); `anneal` is the outcome of the
data-dependent test `‖w−z‖₁ ≤ σ√(2/π)·n` -/
noncomputable def aimStep (rho : ℝ) (s : AimState) (anneal : Bool) : AimState :=
  if s.terminated then s else
  let last := decide (aim_last_round_guard rho s.rho_used s.sigma s.epsilon)
  let rem := aim_remaining rho s.rho_used
  let sigma := if last then aim_sigma_last rem else s.sigma
  let eps := if last then aim_eps_last rem else s.epsilon
  let used := aim_rho_used_step s.rho_used eps sigma
  ⟨used, if anneal then aim_sigma_anneal sigma else sigma, if anneal then aim_eps_anneal eps else eps, last⟩

/-- what a round really costs under the charging rule: a Gaussian release at the scale passed to
the sampler plus a selection whose coefficient is `0.5·ε/Δ` on scores of true sensitivity `Δ` -/
noncomputable def aimRoundCost (sigma eps : ℝ) : ℝ :=
  gaussCost 1 (aim_noise_scale_round sigma) + selectCost (realisedEps ((0.5 : ℝ) * aim_select_eps eps / 1) 1)

/-- the ledger variable `rho_used` is incremented by exactly the realised cost of the round -/
theorem aim_ledger_matches (u eps sigma : ℝ) :
    aim_rho_used_step u eps sigma = u + aimRoundCost sigma eps := by
  sorry

/-- the initial charge is the realised cost of the one-way releases -/
theorem aim_init_matches (rho rounds : ℝ) (n : ℕ) :
    (aimInit rho rounds n).rho_used = (n : ℝ) * gaussCost 1 (aim_noise_scale_init (aim_sigma0 rounds rho)) := by
  sorry

/-- **AIM never overspends**, for every number of rounds actually executed and every annealing
history, provided the one-way marginals fit (`0.9·#oneway ≤ rounds` — the hypothesis the proof
forces; the excluded region is executed on the real code by the check) -/
theorem aim_budget (rho rounds : ℝ) (n : ℕ) (outcomes : List Bool) (hrho : 0 < rho) (hrounds : 0 < rounds)
    (hfit : 0.9 * (n : ℝ) ≤ rounds) :
    (outcomes.foldl (aimStep rho) (aimInit rho rounds n)).rho_used ≤ rho := by
  sorry

/-- … and once the last round has run, exactly ρ has been spent -/
theorem aim_budget_exact_at_termination (rho rounds : ℝ) (n : ℕ) (outcomes : List Bool) (hrho : 0 < rho)
    (hrounds : 0 < rounds) (hfit : 0.9 * (n : ℝ) ≤ rounds)
    (hterm : (outcomes.foldl (aimStep rho) (aimInit rho rounds n)).terminated = true) :
    (outcomes.foldl (aimStep rho) (aimInit rho rounds n)).rho_used = rho := by
  sorry

/-! ### MWEM+PGM -/

/-- true sensitivities under the mechanism's adjacency: replace-one (`bounded`) changes a marginal
by `e_x − e_x'` (L1 2, L2 √2) and the L1-error score by at most 2; add/remove by 1 everywhere -/
noncomputable def trueL1 (bounded : Bool) : ℝ := if bounded then 2 else 1
noncomputable def trueL2 (bounded : Bool) : ℝ := if bounded then Real.sqrt 2 else 1

/-- zCDP per round, Gaussian noise -/
noncomputable def mwemRoundGauss (rho rounds alpha : ℝ) (bounded : Bool) : ℝ :=
  let rpr := mwem_rho_per_round rho rounds
  gaussCost (trueL2 bounded) (mwem_gau_scale (mwem_gau_msens bounded) (mwem_gau_sigma alpha rpr))
  + selectCost (realisedEps (mwem_sel_score (mwem_select_eps (mwem_gau_exp_eps alpha rpr))
      (mwem_sel_sensitivity (mwem_select_bounded bounded)) 1 0) (trueL1 bounded))

/-- **MWEM+PGM (Gaussian) spends exactly ρ over its rounds**, both adjacency notions -/
theorem mwem_budget_gauss (rho alpha : ℝ) (rounds : ℕ) (bounded : Bool) (hrho : 0 < rho)
    (hr : 0 < rounds) (ha0 : 0 < alpha) (ha1 : alpha < 1) :
    (rounds : ℝ) * mwemRoundGauss rho rounds alpha bounded = rho := by
  sorry

/-- pure-DP cost per round, Laplace noise -/
noncomputable def mwemRoundLaplace (epsilon rounds alpha : ℝ) (bounded : Bool) : ℝ :=
  let epr := mwem_lap_eps_per_round epsilon rounds
  trueL1 bounded / mwem_lap_scale (mwem_lap_msens bounded) (mwem_lap_sigma alpha epr)
  + realisedEps (mwem_sel_score (mwem_select_eps (mwem_lap_exp_eps alpha epr))
      (mwem_sel_sensitivity (mwem_select_bounded bounded)) 1 0) (trueL1 bounded)

/-- **MWEM+PGM (Laplace) spends exactly ε** -/
theorem mwem_budget_laplace (epsilon alpha : ℝ) (rounds : ℕ) (bounded : Bool) (heps : 0 < epsilon)
    (hr : 0 < rounds) (ha0 : 0 < alpha) (ha1 : alpha < 1) :
    (rounds : ℝ) * mwemRoundLaplace epsilon rounds alpha bounded = epsilon := by
  sorry

/-! ### Adaptive grid -/

/-- zCDP spent by `adagrid` given the three step budgets: `n1` step-1 releases, `r−1` selections,
`n3` step-3 releases; every query matrix has column norm ≤ 1 (checked on the real matrices per run) -/
noncomputable def adaSpent (rho1 rho2 rho3 : ℝ) (n1 n3 r : ℕ) : ℝ :=
  (n1 : ℝ) * gaussCost 1 (ada_step1_scale (ada_step1_sigma rho1 n1))
  + ((r : ℝ) - 1) * selectCost (realisedEps (ada_em_scores (ada_em_coef false)
        (ada_select_eps (ada_select_rho rho2) r) ada_select_sensitivity 1 0) 1)
  + (n3 : ℝ) * gaussCost 1 (ada_step3_scale (ada_step3_sigma n3 rho3))

theorem ada_steps (rho1 rho2 rho3 : ℝ) (n1 n3 r : ℕ) (h1 : 0 < rho1) (h2 : 0 < rho2) (h3 : 0 < rho3)
    (hn1 : 0 < n1) (hn3 : 0 < n3) (hr : 2 ≤ r) :
    adaSpent rho1 rho2 rho3 n1 n3 r = rho1 + rho2 + rho3 := by
  sorry

/-- **Adaptive grid spends exactly ρ** with the default split … -/
theorem ada_budget_default (rho : ℝ) (n1 n3 r : ℕ) (hrho : 0 < rho) (hn1 : 0 < n1) (hn3 : 0 < n3) (hr : 2 ≤ r) :
    adaSpent (ada_rho_step_default rho) (ada_rho_step2_default rho) (ada_rho_step3_default rho) n1 n3 r = rho := by
  sorry

/-- … and with any split strategy (fractions normalised to sum 1 by the code) -/
theorem ada_budget_split (rho f1 f2 f3 : ℝ) (n1 n3 r : ℕ) (hrho : 0 < rho) (hf1 : 0 < f1) (hf2 : 0 < f2)
    (hf3 : 0 < f3) (hsum : f1 + f2 + f3 = 1) (hn1 : 0 < n1) (hn3 : 0 < n3) (hr : 2 ≤ r) :
    adaSpent (ada_rho_step1_split rho f1) (ada_rho_step2_split rho f2) (ada_rho_step3_split rho f3) n1 n3 r = rho := by
  sorry

end PGM.C05
