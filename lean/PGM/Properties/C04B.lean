import PGM.Proofs.LossL1Sem
import Mathlib.Algebra.Order.Field.Rat
import Mathlib.Tactic.NormNum
/-!
# C04 (part B) — the L1 objective: every measurement counted exactly once, and the gradient it
returns is a subgradient (the derivative wherever no residual vanishes)

Theorems about `marginalLossL1` of `PGM/Model/Loss.lean` (transcription of `_marginal_loss` with
`metric == 'L1'`: `loss += abs(diff).sum()`, `grad = c * Q.T @ sign(diff)`, `diff = c (Q x − y)`),
over any linearly ordered field.  Same conventions as `C04.lean`: `VecOK`, `MeasOK`, `cvAdd`, `cvDot`,
`xOf`, `qx`; new here (`PGM/Proofs/LossL1Sem.lean`):

* `residV m f = c (Q x_m − y)` with `x_m` the marginal of the clique table `f` on `m.proj`,
* `lossM1 m f = Σ_rows |residV m f|`,
* `stepV m h = c Q h_m`, the change of the residual along a direction `h`.

Proofs live in `PGM/Proofs/LossL1{Alg,Fold,Main,Sem}.lean`; the fold of `_marginal_loss` is proved
once for an arbitrary per-measurement loss term and gradient factor (`LossAux.foldG_eq`) and the L2
and L1 objectives are both instances of it by `rfl`.
-/
namespace PGM.C04
open PGM PGM.JT PGM.Loss
variable {K : Type} [Field K] [LinearOrder K] [IsStrictOrderedRing K]

/-! ### a concrete instance used by the `example`s: two measurements with overlapping projections -/
namespace ExL1
/-- three binary attributes -/
def d : Dom := [("a", 2), ("b", 2), ("c", 2)]
/-- two overlapping cliques -/
def cliques : List Clique := [["a", "b"], ["b", "c"]]
def tab (c : Clique) (xs : List ℚ) : Factor (PlainOf ℚ) :=
  Factor.mk' (d.project c) ⟨(d.project c).shape, (xs.map (fun x => (⟨x⟩ : PlainOf ℚ))).toArray⟩
def vec (x y : List ℚ) : CliqueVec (PlainOf ℚ) :=
  [(["a", "b"], tab ["a", "b"] x), (["b", "c"], tab ["b", "c"] y)]
def mu : CliqueVec (PlainOf ℚ) := vec [1, 2, 3, 4] [1, 0, 2, 2]
def mu' : CliqueVec (PlainOf ℚ) := vec [0, 5, 1, 1] [3, 1, 0, 2]
/-- a small direction -/
def h : CliqueVec (PlainOf ℚ) := vec [1/10, 0, 0, -1/10] [1/10, 1/10, 0, -1/10]
/-- `m1` on `["b"]` fits inside BOTH cliques (it is charged to `["a","b"]` only); `m2` on `["b","c"]`
overlaps it in `"b"`; noise 1 and 2 -/
def m1 : Meas (PlainOf ℚ) := ⟨[[⟨1⟩, ⟨0⟩], [⟨0⟩, ⟨1⟩]], [⟨3⟩, ⟨1⟩], ⟨1⟩, ["b"]⟩
def m2 : Meas (PlainOf ℚ) :=
  ⟨[[⟨1⟩, ⟨1⟩, ⟨0⟩, ⟨0⟩], [⟨0⟩, ⟨0⟩, ⟨1⟩, ⟨1⟩], [⟨1⟩, ⟨0⟩, ⟨0⟩, ⟨1⟩]], [⟨2⟩, ⟨2⟩, ⟨0⟩], ⟨2⟩, ["b", "c"]⟩
def meas : List (Meas (PlainOf ℚ)) := [m1, m2]

theorem vecOK_mk (v : CliqueVec (PlainOf ℚ)) (hk : v.map Prod.fst = cliques)
    (ht : ∀ p ∈ v, p.2.WF ∧ p.2.dom = d.project p.1) : VecOK d cliques v :=
  ⟨by decide, by decide, by decide, hk, ht⟩
theorem mu_ok : VecOK d cliques mu := vecOK_mk mu (by decide) (by decide)
theorem mu'_ok : VecOK d cliques mu' := vecOK_mk mu' (by decide) (by decide)
theorem h_ok : VecOK d cliques h := vecOK_mk h (by decide) (by decide)

theorem meas_ok : ∀ m ∈ meas, MeasOK d m := by
  intro m hm
  simp only [meas, List.mem_cons, List.not_mem_nil, or_false] at hm
  rcases hm with rfl | rfl
  · exact ⟨by decide, by decide, by decide, by decide, by norm_num [m1]⟩
  · exact ⟨by decide, by decide, by decide, by decide, by norm_num [m2]⟩

theorem cov : ∀ m ∈ meas, ∃ c ∈ cliques, JT.subset m.proj c = true := by decide

/-- the residuals at `mu` (none is zero) and the steps along `h` (each smaller than its residual) -/
theorem resid_vals :
    residV m1 (mu.get ["a", "b"]) = [1, 5] ∧ stepV m1 (h.get ["a", "b"]) = [1/10, -1/10] ∧
    residV m2 (mu.get ["b", "c"]) = [-1/2, 1, 3/2] ∧ stepV m2 (h.get ["b", "c"]) = [1/10, -1/20, 0] := by
  decide +kernel

theorem small : ∀ m ∈ meas, List.Forall₂ (fun t r => |t| < |r|)
    (stepV m (h.get ((groupOf d cliques m.proj).getD [])))
    (residV m (mu.get ((groupOf d cliques m.proj).getD []))) := by
  obtain ⟨r1, s1, r2, s2⟩ := resid_vals
  intro m hm
  simp only [meas, List.mem_cons, List.not_mem_nil, or_false] at hm
  rcases hm with rfl | rfl
  · have hg : groupOf d cliques m1.proj = some ["a", "b"] := by decide
    rw [hg, Option.getD_some, r1, s1]
    refine .cons ?_ (.cons ?_ .nil) <;> norm_num [abs_lt]
  · have hg : groupOf d cliques m2.proj = some ["b", "c"] := by decide
    rw [hg, Option.getD_some, r2, s2]
    refine .cons ?_ (.cons ?_ (.cons ?_ .nil)) <;> norm_num [abs_lt]
end ExL1

/-! ### 1. each measurement once -/

/-- `residV` is the value of the model's `residual` (the `diff` of the Python) -/
theorem residual_eq (m : Meas (PlainOf K)) (f : Factor (PlainOf K)) :
    (residual m f).map (·.v) = residV m f :=
  Loss.residual_eq m f

/-- **each measurement is counted exactly once** by the L1 objective, however the cliques overlap or
repeat and whatever the order: the loss is the sum over ALL supplied measurements of
`Σ_rows |c (Q x_m − y)|` with `x_m` the marginal, on the measurement's projection, of the clique
table the measurement is grouped to -/
theorem lossL1_each_once (d : Dom) (cliques : List Clique) (meas : List (Meas (PlainOf K)))
    (mu : CliqueVec (PlainOf K)) (hmu : VecOK d cliques mu) (hm : ∀ m ∈ meas, MeasOK d m)
    (hcov : ∀ m ∈ meas, ∃ c ∈ cliques, JT.subset m.proj c = true) :
    (marginalLossL1 d cliques meas mu).1.v
      = (meas.map (fun m => lossM1 m (mu.get ((groupOf d cliques m.proj).getD [])))).sum :=
  Loss.lossL1_each_once d cliques meas mu hmu hm hcov

/-- the hypotheses hold on `ExL1`; `m1` fits both cliques, is charged to the first only, and the loss
is `|1| + |5| + |-1/2| + |1| + |3/2| = 9` -/
example : VecOK ExL1.d ExL1.cliques ExL1.mu ∧ (∀ m ∈ ExL1.meas, MeasOK ExL1.d m) ∧
    (∀ m ∈ ExL1.meas, ∃ c ∈ ExL1.cliques, JT.subset m.proj c = true) ∧
    (∀ c ∈ ExL1.cliques, JT.subset ExL1.m1.proj c = true) ∧
    groupOf ExL1.d ExL1.cliques ExL1.m1.proj = some ["a", "b"] ∧
    groupOf ExL1.d ExL1.cliques ExL1.m2.proj = some ["b", "c"] ∧
    (marginalLossL1 ExL1.d ExL1.cliques ExL1.meas ExL1.mu).1.v = 9 :=
  ⟨ExL1.mu_ok, ExL1.meas_ok, ExL1.cov, by decide, by decide, by decide, by decide +kernel⟩

/-! ### 2. `absS`, `signS`, nonnegativity -/

/-- the model's `absS` at `PlainOf K` is the absolute value -/
theorem absS_eq_abs (x : PlainOf K) : (absS x).v = |x.v| :=
  Loss.absS_eq_abs x

/-- the model's `signS` at `PlainOf K` is the sign function: `1`, `-1` or `0` according to the sign;
`sign x · x = |x|`; `|sign x| ≤ 1` -/
theorem signS_eq_sign (x : PlainOf K) :
    (signS x).v = ((SignType.sign x.v : SignType) : K) ∧
    (signS x).v * x.v = |x.v| ∧ |(signS x).v| ≤ 1 :=
  Loss.signS_eq_sign x

example : (signS (⟨-3⟩ : PlainOf ℚ)).v = -1 ∧ (signS (⟨0⟩ : PlainOf ℚ)).v = 0 ∧
    (signS (⟨5/2⟩ : PlainOf ℚ)).v = 1 ∧ (absS (⟨-3⟩ : PlainOf ℚ)).v = 3 := by decide +kernel

/-- the L1 loss is nonnegative, for any input whatsoever -/
theorem lossL1_nonneg (d : Dom) (cliques : List Clique) (meas : List (Meas (PlainOf K)))
    (mu : CliqueVec (PlainOf K)) : 0 ≤ (marginalLossL1 d cliques meas mu).1.v :=
  Loss.lossL1_nonneg d cliques meas mu

/-! ### 3. the returned gradient is a subgradient -/

/-- **subgradient inequality**: for any two marginal vectors `mu`, `mu'` over the model cliques,
`L1(mu') ≥ L1(mu) + ⟨g(mu), mu' − mu⟩` with `g(mu)` the gradient `marginalLossL1` returns at `mu`
and `⟨g, mu' − mu⟩ = ⟨g, mu'⟩ − ⟨g, mu⟩` the cell-wise inner product `cvDot` of `loss_expansion`.
(The covering hypothesis of `loss_expansion` is not needed: an uncovered measurement is in no
group and contributes to neither side.) -/
theorem lossL1_subgradient (d : Dom) (cliques : List Clique) (meas : List (Meas (PlainOf K)))
    (mu mu' : CliqueVec (PlainOf K)) (hmu : VecOK d cliques mu) (hmu' : VecOK d cliques mu')
    (hm : ∀ m ∈ meas, MeasOK d m) :
    (marginalLossL1 d cliques meas mu).1.v
        + (cvDot (marginalLossL1 d cliques meas mu).2 mu' - cvDot (marginalLossL1 d cliques meas mu).2 mu)
      ≤ (marginalLossL1 d cliques meas mu').1.v :=
  Loss.lossL1_subgradient d cliques meas mu mu' hmu hmu' hm

/-- on `ExL1`: `9 + (17/2 − 13) ≤ 21/2`; at `mu'` one residual is zero and one has changed sign, so
the inequality is strict -/
example : VecOK ExL1.d ExL1.cliques ExL1.mu ∧ VecOK ExL1.d ExL1.cliques ExL1.mu' ∧
    (∀ m ∈ ExL1.meas, MeasOK ExL1.d m) ∧
    (marginalLossL1 ExL1.d ExL1.cliques ExL1.meas ExL1.mu).1.v = 9 ∧
    cvDot (marginalLossL1 ExL1.d ExL1.cliques ExL1.meas ExL1.mu).2 ExL1.mu' = 17/2 ∧
    cvDot (marginalLossL1 ExL1.d ExL1.cliques ExL1.meas ExL1.mu).2 ExL1.mu = 13 ∧
    (marginalLossL1 ExL1.d ExL1.cliques ExL1.meas ExL1.mu').1.v = 21/2 ∧
    residV ExL1.m2 (ExL1.mu'.get ["b", "c"]) = [1, 0, 5/2] :=
  ⟨ExL1.mu_ok, ExL1.mu'_ok, ExL1.meas_ok, by decide +kernel, by decide +kernel, by decide +kernel,
    by decide +kernel, by decide +kernel⟩

/-- the same inequality in the form of `loss_expansion`: `L1(mu + h) ≥ L1(mu) + ⟨g(mu), h⟩` -/
theorem lossL1_subgradient_add (d : Dom) (cliques : List Clique) (meas : List (Meas (PlainOf K)))
    (mu h : CliqueVec (PlainOf K)) (hmu : VecOK d cliques mu) (hh : VecOK d cliques h)
    (hm : ∀ m ∈ meas, MeasOK d m) :
    (marginalLossL1 d cliques meas mu).1.v + cvDot (marginalLossL1 d cliques meas mu).2 h
      ≤ (marginalLossL1 d cliques meas (cvAdd mu h)).1.v :=
  Loss.lossL1_subgradient_add d cliques meas mu h hmu hh hm

/-- on `ExL1` with `h := mu'` (a large step): `9 + 17/2 ≤ 41/2` -/
example : VecOK ExL1.d ExL1.cliques ExL1.mu ∧ VecOK ExL1.d ExL1.cliques ExL1.mu' ∧
    (∀ m ∈ ExL1.meas, MeasOK ExL1.d m) ∧
    (marginalLossL1 ExL1.d ExL1.cliques ExL1.meas (cvAdd ExL1.mu ExL1.mu')).1.v = 41/2 :=
  ⟨ExL1.mu_ok, ExL1.mu'_ok, ExL1.meas_ok, by decide +kernel⟩

/-! ### 4. … and the derivative wherever no residual vanishes -/

/-- **differentiable case**: if every entry of the step `c Q h_m` is smaller in absolute value than
the corresponding residual entry `c (Q x_m − y)` at `mu` (so no residual is zero at `mu` and none
changes sign along `h`), the first-order expansion is exact: `L1(mu + h) = L1(mu) + ⟨g(mu), h⟩` -/
theorem lossL1_differentiable_case (d : Dom) (cliques : List Clique) (meas : List (Meas (PlainOf K)))
    (mu h : CliqueVec (PlainOf K)) (hmu : VecOK d cliques mu) (hh : VecOK d cliques h)
    (hm : ∀ m ∈ meas, MeasOK d m)
    (hsmall : ∀ m ∈ meas, List.Forall₂ (fun t r => |t| < |r|)
      (stepV m (h.get ((groupOf d cliques m.proj).getD [])))
      (residV m (mu.get ((groupOf d cliques m.proj).getD [])))) :
    (marginalLossL1 d cliques meas (cvAdd mu h)).1.v
      = (marginalLossL1 d cliques meas mu).1.v + cvDot (marginalLossL1 d cliques meas mu).2 h :=
  Loss.lossL1_differentiable_case d cliques meas mu h hmu hh hm hsmall

/-- on `ExL1`: the steps `[1/10, -1/10]`, `[1/10, -1/20, 0]` against the residuals `[1, 5]`,
`[-1/2, 1, 3/2]`; `177/20 = 9 + (-3/20)` -/
example : VecOK ExL1.d ExL1.cliques ExL1.mu ∧ VecOK ExL1.d ExL1.cliques ExL1.h ∧
    (∀ m ∈ ExL1.meas, MeasOK ExL1.d m) ∧
    (∀ m ∈ ExL1.meas, List.Forall₂ (fun t r => |t| < |r|)
      (stepV m (ExL1.h.get ((groupOf ExL1.d ExL1.cliques m.proj).getD [])))
      (residV m (ExL1.mu.get ((groupOf ExL1.d ExL1.cliques m.proj).getD [])))) ∧
    (marginalLossL1 ExL1.d ExL1.cliques ExL1.meas (cvAdd ExL1.mu ExL1.h)).1.v = 177/20 ∧
    cvDot (marginalLossL1 ExL1.d ExL1.cliques ExL1.meas ExL1.mu).2 ExL1.h = -3/20 :=
  ⟨ExL1.mu_ok, ExL1.h_ok, ExL1.meas_ok, ExL1.small, by decide +kernel, by decide +kernel⟩

end PGM.C04
