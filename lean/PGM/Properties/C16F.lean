import PGM.Proofs.GbpFixedFlat
import PGM.Proofs.GbpFixedShape
import PGM.Proofs.GbpFixedChain
import PGM.Properties.C17G
/-!
# C16F — generalised (region-graph) propagation at a fixed point

Model: `RG.gbpSweep` / `RG.gbp` of `PGM/Model/RegionGraph.lean` (parent-to-child messages with the `N`/`D` sets,
numerator from the old messages, denominator from the dictionary `new` being written, damping 1/2, persisted
messages), over ℝ.  C16 proves normalisation for every graph and exactness where nothing is shared; exactness on
junction-tree clique sets is a *limit* statement for the damped iteration and is tested per input.  This file proves
its **fixed-point form**.

Hypotheses.  `GbpFixed.Hyp dom g pot m` = the graph and the potentials are laid out on `dom` (`Convex.GraphOK`: what
`buildOn` produces, `hyp_buildOn`), all attribute sizes are positive, every message of the message order is a
well-formed table inside its child region (an invariant of the sweeps, `hyp_sweep`; true of the empty state and of
`initMessages`), and the **decidable** combinatorial condition `GbpFixed.Shape g` on the `N`, `D`, `B` sets and the
message order: `N[p,r] ⊆ B[p]`, `D[p,r] ⊆ B[r]`, messages of `B[r]` live inside `r`, `D[p,r]` precedes `(p,r)` in
the message order (so the Gauss–Seidel denominator reads written keys), and the balance
`B[p] + D[p,r] + {(p,r)} = B[r] + N[p,r]` — "N and D are exactly the message sets of numerator and denominator".
`Shape (buildOn regions false true)` is **proved for every duplicate-free list of duplicate-free regions**
(`shape_buildOn`; in particular for what `RG.closure` produces), so on the graphs of `build_graph` (non-convex,
minimal) the theorems need no decidable hypothesis (`*_buildOn` forms); `decide` confirms it on the graphs below.
A fixed point is taken cell-wise (`SemFixed`: the sweep reproduces every message at every valid assignment);
`gbpSweep g pot m = m` implies it (`*_of_eq` forms).

Proved.
1. `gbp_fixed_point_consistent` — at a fixed point, for every edge parent→child whose child carries the zero
   potential, the tables returned from that message state are locally consistent: summing the parent's table down to
   the child's attributes gives the child's table (cell-wise, and in the `projectSum`/`datavector` form that
   `primal_feasibility` measures).  With a non-zero potential on the child this fails in general: the update uses
   `pot[ru]` only — the known finding `gbp:subregion-potential`.
3. `gbp_stationary` / `gbp_stationary_exact_two_cliques` — if the state reached after `n0` sweeps is reproduced by a
   sweep, `RG.gbp … iters` returns the same tables and messages for every `iters ≥ n0`; with item 2 they are exact.
   **This is a WARM-START statement**: on a flat graph the damped sweep halves the distance to the fixed point and never
   reaches it, so `hstat` holds only when the start state `m0` already has the fixed-point values
   (`stationary_forces_start`, independent audit); from a cold start it is false for every `n0`.
4. Section 4: every theorem above re-stated for the GENERATED `RGG.generalizedBeliefPropagation` (`gen_gbp_*`, one rewrite
   with `C17G.gen_gbp`), so C16F speaks about the regenerated source, not only about the model `RG.gbp`.
2. `gbp_fixed_point_exact_two_cliques` — junction tree with **two maximal cliques** `c1, c2` and separator
   `s = c1 ∩ c2` (edge `c2 → s` with empty `N`, `D`; `B[c1] = {(c2,s)}`): the table of `c1` is, at every cell,
   `T · Σ_{x∖c1} exp(θ_c1 + θ_c2) / Z` of the product model (`LbpTree.marginalR` / `partitionR`, the brute-force
   semantics used by `lbp_exact_on_forest`); by symmetry the same for `c2`; `…_separator` for `s`.
   (No hypothesis on the potential of `s` is needed for `c1`, `c2`: it is ignored — the known finding again.)

**Open statement** `gbp_fixed_point_exact_on_junction_tree` (not proved, not assumed anywhere): *for maximal cliques
`C₁ … Cₙ` in a running-intersection order (`∀ i>1 ∃ j<i, Cᵢ ∩ (C₁ ∪ … ∪ C_{i−1}) ⊆ Cⱼ` — `JT.rip`-style), potentials
on the maximal cliques only, `g = buildOn (closure cliques) false true`, `Hyp`, `SemFixed`: every returned table is
`T·marginalR/partitionR`.*  Route and what is missing: (a) `B[r] = {(u,d) edge : d ⊆ r, u ⊄ r}` and the count
`#{i : Cᵢ ⊇ α} − #{i ≥ 2 : Sᵢ ⊇ α} = 1` for every non-empty region `α` (`Sᵢ = Cᵢ ∩ Cⱼ₍ᵢ₎`; short from RIP) give
`Σᵢ belief(Cᵢ) − Σ_{i≥2} belief(Sᵢ) = Σₖ θₖ` (the Kikuchi identity; equivalently the Möbius numbers of `moebius_rec`
are `1` on cliques and `−multiplicity` on separators); (b) consistency along *edges* (item 1) must be extended to every
pair clique ⊇ separator — in the pruned (`minimal`) graph this needs the common-ancestor classes of `minEdges`
(`DS.find` = connected components), which is not available; (c) a leaf-peeling induction over the RIP order with
`sumOver` over unions of attribute lists (the two-clique proof is its base step).
**Chains** `C₁ – … – Cₙ` with pairwise disjoint separators (two-level region graph) are **proved**, for any length
(section 2'): there `D` is empty but `N` is not — `N[Cᵢ,Sᵢ] = {(Cᵢ₋₁,Sᵢ₋₁)}` (`exChain2_N`) — so a fixed point is the
junction-tree (Shafer–Shenoy) recursion `m[Cᵢ→Sᵢ] = log Σ_{Cᵢ∖Sᵢ} exp(θᵢ + m[Cᵢ₋₁→Sᵢ₋₁]) − c`; the invariant
`Σ_{U∖S} exp(Θ) = K·exp(m[C→S])` (`behind_of_fwd`) is carried along derivations `Fwd` from both ends and
`gbp_fixed_point_exact_chain_end` / `_mid` give the exact marginals of end and interior cliques (hypotheses: the `N`, `D`,
`B` sets of the cliques involved, `decide`d on `AB – BC – CD`, where an explicit fixed point `exM4` is built by the
recursion).  Not packaged: a single statement quantified over a list `C₁ … Cₙ` (the derivations are supplied per clique),
and the separator tables of a chain (they follow from item 1 as in `…_two_cliques_separator`).  Also open: the saturated branch
(`minimal = false`), whose `N`/`D`/`B` sets are defined differently (`msgSetsSat`).
-/
namespace PGM.C16F
open PGM PGM.JT PGM.RG PGM.Convex PGM.Sem PGM.GbpFixed

/-! ## the hypotheses are those of `buildOn`, and are kept by the sweeps -/

/-- on the graph `buildOn regions false minimal` the layout part of `Hyp` follows from hypotheses on the inputs -/
theorem hyp_buildOn (dom : Dom) (regions : List Region) (minimal : Bool) (pot : Region → Factor ℝ) (m : Msgs ℝ)
    (hd : dom.WF) (hpos : ∀ p ∈ dom, 0 < p.2) (hnd : regions.Nodup) (hreg : ∀ r ∈ regions, RegOK dom r)
    (hpot : ∀ r ∈ regions, On dom r (pot r))
    (hs : Shape (buildOn regions false minimal))
    (hm : ∀ e ∈ (buildOn regions false minimal).messageOrder, Convex.Sub dom e.2 (m.get e)) :
    Hyp dom (buildOn regions false minimal) pot m := by
  have hb := buildOn_ok regions false minimal hnd
  exact ⟨⟨hd, hreg, hpot, hb.children_sub, hb.parents_dual⟩, hpos, hs, hm⟩

/-- **`Shape` holds on every minimal non-convex region graph**: any duplicate-free list of duplicate-free regions
(closedness under intersection is not needed) -/
theorem shape_buildOn (regions : List Region) (hnd : regions.Nodup) (hreg : ∀ r ∈ regions, r.Nodup) :
    Shape (buildOn regions false true) :=
  GbpFixed.shape_buildOn regions hnd hreg

/-- hence `Hyp` on `buildOn regions false true` from hypotheses on the inputs only -/
theorem hyp_buildOn_min (dom : Dom) (regions : List Region) (pots : CliqueVec ℝ) (m : Msgs ℝ)
    (hd : dom.WF) (hpos : ∀ p ∈ dom, 0 < p.2) (hnd : regions.Nodup) (hreg : ∀ r ∈ regions, RegOK dom r)
    (hpot : ∀ r ∈ regions, On dom r (pots.get r))
    (hm : ∀ e ∈ (buildOn regions false true).messageOrder, Convex.Sub dom e.2 (m.get e)) :
    Hyp dom (buildOn regions false true) (potOf dom (buildOn regions false true) pots) m := by
  apply hyp_buildOn dom regions true _ m hd hpos hnd hreg ?_ (shape_buildOn regions hnd (fun r hr => (hreg r hr).1)) hm
  intro r hr
  unfold potOf
  rw [if_pos (List.contains_iff_mem.mpr (by
    rw [Oracle.buildOn_cliques]; exact (Oracle.mem_sortByLen regions r).mpr hr))]
  exact hpot r hr

theorem hyp_sweep {dom : Dom} {g : RG.Graph} {pot : Region → Factor ℝ} {m : Msgs ℝ} (h : Hyp dom g pot m)
    (n : Nat) : Hyp dom g pot (iterate (gbpSweep g pot) n m) := h.iterate n

/-- the cold start satisfies the message hypothesis: an absent key reads as the scalar table `zeros []` -/
theorem hyp_cold {dom : Dom} {g : RG.Graph} {pot : Region → Factor ℝ} (hg : GraphOK dom g pot)
    (hpos : ∀ p ∈ dom, 0 < p.2) (hs : Shape g) : Hyp dom g pot [] := hyp_nil hg hpos hs

/-! ## 1. local consistency at a fixed point -/

/-- **fixed points of generalised propagation are locally consistent.**  `mu` = the tables `RG.gbp` returns from
the message state `m` (no further sweep).  For every edge `e = (p, r)` of the region graph whose child has the zero
potential: both tables are well-formed tables on their regions, and `mu[r](σ) = Σ_{x_{p∖r}} mu[p]`. -/
theorem gbp_fixed_point_consistent (dom : Dom) (g : RG.Graph) (pots : CliqueVec ℝ) (T : ℝ) (m : Msgs ℝ)
    (h : Hyp dom g (potOf dom g pots) m) (hfix : SemFixed dom g (potOf dom g pots) m) (hT : 0 < T)
    (hcl : ∀ r ∈ g.regions, r ∈ g.cliques)
    (e : Edge) (he : e ∈ g.messageOrder) (hzero : ∀ σ, dom.Valid σ → (pots.get e.2).sem σ = 0) :
    let mu := (RG.gbp dom g pots T 0 m).1
    On dom e.1 (mu.get e.1) ∧ On dom e.2 (mu.get e.2) ∧
    (∀ σ, dom.Valid σ →
      (mu.get e.2).sem σ = sumOver dom (e.1.filter (fun a => !e.2.contains a)) σ (mu.get e.1).sem) ∧
    ((mu.get e.1).projectSum e.2).datavector = (mu.get e.2).datavector := by
  intro mu
  have hp := (h.order_sound e he).1
  obtain ⟨hr, hsub⟩ := h.child_mem he
  have e1 : mu.get e.1 = tableOf g (potOf dom g pots) T m e.1 := gbp_table dom g pots T 0 m e.1 (hcl _ hp)
  have e2 : mu.get e.2 = tableOf g (potOf dom g pots) T m e.2 := gbp_table dom g pots T 0 m e.2 (hcl _ hr)
  have hz : ∀ σ, dom.Valid σ → (potOf dom g pots e.2).sem σ = 0 := by
    intro σ hσ
    unfold potOf
    rw [if_pos (List.contains_iff_mem.mpr (hcl _ hr))]
    exact hzero σ hσ
  have hon1 := (table_ok h hT hp).1
  have hon2 := (table_ok h hT hr).1
  have hcons : ∀ σ, dom.Valid σ →
      (mu.get e.2).sem σ = sumOver dom (e.1.filter (fun a => !e.2.contains a)) σ (mu.get e.1).sem := by
    intro σ hσ
    rw [e1, e2]
    exact tables_consistent h hfix hT he hz hσ
  refine ⟨e1 ▸ hon1, e2 ▸ hon2, hcons, ?_⟩
  have hrp := h.gok.region_ok e.1 hp
  have hrc := h.gok.region_ok e.2 hr
  apply datavector_ext h.gok.dom_wf h.pos hrc (projectSum_on hrp hrc hsub (e1 ▸ hon1)) (e2 ▸ hon2)
  intro σ hσ
  rw [projectSum_sem h.gok.dom_wf hrp hrc hsub (e1 ▸ hon1) hσ, hcons σ hσ]

/-- the same for a fixed point in the literal sense `gbpSweep g pot m = m` -/
theorem gbp_fixed_point_consistent_of_eq (dom : Dom) (g : RG.Graph) (pots : CliqueVec ℝ) (T : ℝ) (m : Msgs ℝ)
    (h : Hyp dom g (potOf dom g pots) m) (hfix : gbpSweep g (potOf dom g pots) m = m) (hT : 0 < T)
    (hcl : ∀ r ∈ g.regions, r ∈ g.cliques)
    (e : Edge) (he : e ∈ g.messageOrder) (hzero : ∀ σ, dom.Valid σ → (pots.get e.2).sem σ = 0) :
    let mu := (RG.gbp dom g pots T 0 m).1
    (∀ σ, dom.Valid σ →
      (mu.get e.2).sem σ = sumOver dom (e.1.filter (fun a => !e.2.contains a)) σ (mu.get e.1).sem) ∧
    ((mu.get e.1).projectSum e.2).datavector = (mu.get e.2).datavector :=
  (gbp_fixed_point_consistent dom g pots T m h (semFixed_of_eq dom g _ m hfix) hT hcl e he hzero).2.2

/-- **item 1 on the graphs of `build_graph`** (non-convex, minimal), hypotheses on the inputs only: duplicate-free
regions over `dom`, potentials laid out on their regions, a message state of tables inside the child regions that a
sweep reproduces cell-wise -/
theorem gbp_fixed_point_consistent_buildOn (dom : Dom) (regions : List Region) (pots : CliqueVec ℝ) (T : ℝ)
    (m : Msgs ℝ) (hd : dom.WF) (hpos : ∀ p ∈ dom, 0 < p.2) (hnd : regions.Nodup)
    (hreg : ∀ r ∈ regions, RegOK dom r) (hpot : ∀ r ∈ regions, On dom r (pots.get r))
    (hm : ∀ e ∈ (buildOn regions false true).messageOrder, Convex.Sub dom e.2 (m.get e))
    (hfix : SemFixed dom (buildOn regions false true) (potOf dom (buildOn regions false true) pots) m)
    (hT : 0 < T) (e : Edge) (he : e ∈ (buildOn regions false true).messageOrder)
    (hzero : ∀ σ, dom.Valid σ → (pots.get e.2).sem σ = 0) :
    let mu := (RG.gbp dom (buildOn regions false true) pots T 0 m).1
    (∀ σ, dom.Valid σ →
      (mu.get e.2).sem σ = sumOver dom (e.1.filter (fun a => !e.2.contains a)) σ (mu.get e.1).sem) ∧
    ((mu.get e.1).projectSum e.2).datavector = (mu.get e.2).datavector :=
  (gbp_fixed_point_consistent dom _ pots T m (hyp_buildOn_min dom regions pots m hd hpos hnd hreg hpot hm) hfix hT
    (fun r hr => by rw [Oracle.buildOn_cliques]; exact (Oracle.mem_sortByLen regions r).mpr hr) e he hzero).2.2

/-- the fixed-point equation behind it: `m[p,r] = log Σ_{x_{p∖r}} exp(θ_p + Σ_{N[p,r]} m) − Σ_{D[p,r]} m − c` -/
theorem gbp_fixed_point_equation (dom : Dom) (g : RG.Graph) (pot : Region → Factor ℝ) (m : Msgs ℝ)
    (h : Hyp dom g pot m) (hfix : SemFixed dom g pot m) (e : Edge) (he : e ∈ g.messageOrder) :
    ∃ c : ℝ, ∀ σ, dom.Valid σ → (m.get e).sem σ
      = Real.log (sumOver dom (e.1.filter (fun a => !e.2.contains a)) σ (fun τ => Real.exp (numVal g pot m e τ)))
        - sumMsgs m (look g.D e) σ - c :=
  edge_equation h hfix he

/-! ## 3. stationary sweeps -/

/-- **if the sweeps become stationary after `n0` sweeps, `RG.gbp` returns the same answer for every `iters ≥ n0`**
(tables and persisted messages).

WARM-START statement: `hstat` (literal equality of message states) holds only when the start state `m0` ALREADY is the fixed
point — on a flat graph (`N = D = ∅`) each damped sweep replaces a message by the mean of itself and the fixed value, so a
state reached after `n0` sweeps is fixed iff `m0` had the fixed-point values at every cell (`stationary_forces_start`, below).
From the empty / initial messages `hstat` is false for every `n0`; what the theorem covers is a call that starts from the
persisted messages of an earlier, converged call (`self.messages`). -/
theorem gbp_stationary (dom : Dom) (g : RG.Graph) (pots : CliqueVec ℝ) (T : ℝ) (m0 : Msgs ℝ) (n0 iters : Nat)
    (hstat : gbpSweep g (potOf dom g pots) (iterate (gbpSweep g (potOf dom g pots)) n0 m0)
      = iterate (gbpSweep g (potOf dom g pots)) n0 m0)
    (hn : n0 ≤ iters) : RG.gbp dom g pots T iters m0 = RG.gbp dom g pots T n0 m0 := by
  unfold RG.gbp
  simp only
  rw [iterate_stationary _ n0 iters m0 hstat hn]

/-- equivalently: stationary from `n0` on in the sense `∀ n ≥ n0, sweepⁿ m0 = sweep^{n0} m0` -/
theorem gbp_stationary' (dom : Dom) (g : RG.Graph) (pots : CliqueVec ℝ) (T : ℝ) (m0 : Msgs ℝ) (n0 iters : Nat)
    (hstat : ∀ n, n0 ≤ n → iterate (gbpSweep g (potOf dom g pots)) n m0
      = iterate (gbpSweep g (potOf dom g pots)) n0 m0)
    (hn : n0 ≤ iters) : RG.gbp dom g pots T iters m0 = RG.gbp dom g pots T n0 m0 := by
  unfold RG.gbp
  simp only
  rw [hstat iters hn]

/-! ## 2. exactness on a junction tree with two maximal cliques -/

theorem lbpGraphOK_two {dom : Dom} {g : RG.Graph} {pots : CliqueVec ℝ} {m : Msgs ℝ}
    (h : Hyp dom g (potOf dom g pots) m) {c1 c2 : Region} (hne : c1 ≠ c2)
    (hc1 : c1 ∈ g.regions) (hc2 : c2 ∈ g.regions) (hc1' : c1 ∈ g.cliques) (hc2' : c2 ∈ g.cliques) :
    LbpTree.GraphOK dom [c1, c2] pots := by
  have hp : ∀ c ∈ g.regions, c ∈ g.cliques → (pots.get c).WF ∧ (pots.get c).dom = dom.project c := by
    intro c hc hc'
    have := h.gok.pot_ok c hc
    unfold potOf at this
    rw [if_pos (List.contains_iff_mem.mpr hc')] at this
    exact this
  refine ⟨h.gok.dom_wf, by simp [hne], ?_, ?_, ?_⟩
  · intro cl hcl
    simp only [List.mem_cons, List.mem_nil_iff, or_false] at hcl
    rcases hcl with rfl | rfl
    · exact (h.gok.region_ok _ hc1).1
    · exact (h.gok.region_ok _ hc2).1
  · intro cl hcl
    simp only [List.mem_cons, List.mem_nil_iff, or_false] at hcl
    rcases hcl with rfl | rfl
    · exact (h.gok.region_ok _ hc1).2
    · exact (h.gok.region_ok _ hc2).2
  · intro cl hcl
    simp only [List.mem_cons, List.mem_nil_iff, or_false] at hcl
    rcases hcl with rfl | rfl
    · exact hp _ hc1 hc1'
    · exact hp _ hc2 hc2'

/-- **on a junction tree with two maximal cliques a fixed point gives the exact marginals.**  `c2 → s` is an edge of
the region graph with empty `N`/`D` sets, `B[c1] = {(c2,s)}`, `s = c1 ∩ c2`.  The table returned for `c1` is
`T · Σ_{x∖c1} exp(θ_c1 + θ_c2) / Σ_x exp(θ_c1 + θ_c2)` at every cell.  (Exchange `c1`, `c2` for the other clique.) -/
theorem gbp_fixed_point_exact_two_cliques (dom : Dom) (g : RG.Graph) (pots : CliqueVec ℝ) (T : ℝ) (m : Msgs ℝ)
    (h : Hyp dom g (potOf dom g pots) m) (hfix : SemFixed dom g (potOf dom g pots) m) (hT : 0 < T)
    (c1 c2 s : Region) (hne : c1 ≠ c2) (hc1 : c1 ∈ g.regions) (hc1' : c1 ∈ g.cliques) (hc2' : c2 ∈ g.cliques)
    (he2 : (c2, s) ∈ g.messageOrder)
    (hN : look g.N (c2, s) = []) (hD : look g.D (c2, s) = []) (hB1 : look g.B c1 = [(c2, s)])
    (hsep : ∀ a, a ∈ s ↔ (a ∈ c1 ∧ a ∈ c2)) (σ : Attr → Nat) (hσ : dom.Valid σ) :
    ((RG.gbp dom g pots T 0 m).1.get c1).sem σ
      = T * LbpTree.marginalR dom [c1, c2] pots c1 σ / LbpTree.partitionR dom [c1, c2] pots := by
  have hc2 : c2 ∈ g.regions := (h.order_sound _ he2).1
  have hG := lbpGraphOK_two h hne hc1 hc2 hc1' hc2'
  have hpos : Oracle.PosDom dom := fun p hp => (h.pos p hp).ne'
  obtain ⟨K, hK⟩ := two_clique_claim h hfix hc1 he2 hN hD hB1 hsep
  obtain ⟨b1, b2⟩ := beliefOf_ok h hc1
  rw [gbp_table dom g pots T 0 m c1 hc1']
  show (normalise T (beliefOf g (potOf dom g pots) m c1)).sem σ = _
  apply LbpTree.exact_of_claim dom [c1, c2] pots hG hpos T hT c1 (by simp) _ b1.1 b1.2 ⟨K, ?_⟩ σ hσ
  intro τ hτ
  rw [b2 τ hτ, ← hK τ hτ]
  unfold LbpTree.marginalR LbpTree.logJoint
  have e1 : potOf dom g pots c1 = pots.get c1 := by
    unfold potOf; rw [if_pos (List.contains_iff_mem.mpr hc1')]
  have e2 : potOf dom g pots c2 = pots.get c2 := by
    unfold potOf; rw [if_pos (List.contains_iff_mem.mpr hc2')]
  rw [e1, e2]
  simp

/-- the separator: its table is the exact marginal too (consistency along `c1 → s` + exactness on `c1`); here the
separator must carry the zero potential -/
theorem gbp_fixed_point_exact_two_cliques_separator (dom : Dom) (g : RG.Graph) (pots : CliqueVec ℝ) (T : ℝ)
    (m : Msgs ℝ)
    (h : Hyp dom g (potOf dom g pots) m) (hfix : SemFixed dom g (potOf dom g pots) m) (hT : 0 < T)
    (hcl : ∀ r ∈ g.regions, r ∈ g.cliques)
    (c1 c2 s : Region) (hne : c1 ≠ c2) (he1 : (c1, s) ∈ g.messageOrder) (he2 : (c2, s) ∈ g.messageOrder)
    (hN : look g.N (c2, s) = []) (hD : look g.D (c2, s) = []) (hB1 : look g.B c1 = [(c2, s)])
    (hsep : ∀ a, a ∈ s ↔ (a ∈ c1 ∧ a ∈ c2)) (hzero : ∀ σ, dom.Valid σ → (pots.get s).sem σ = 0)
    (σ : Attr → Nat) (hσ : dom.Valid σ) :
    ((RG.gbp dom g pots T 0 m).1.get s).sem σ
      = T * LbpTree.marginalR dom [c1, c2] pots s σ / LbpTree.partitionR dom [c1, c2] pots := by
  have hd := h.gok.dom_wf
  have hc1 : c1 ∈ g.regions := (h.order_sound _ he1).1
  have hc2 : c2 ∈ g.regions := (h.order_sound _ he2).1
  have hr1 := h.gok.region_ok c1 hc1
  have hcons := (gbp_fixed_point_consistent dom g pots T m h hfix hT hcl (c1, s) he1 hzero).2.2.1 σ hσ
  simp only at hcons
  rw [hcons, sumOver_congr_valid dom hd _ σ _
    (fun τ => T * LbpTree.marginalR dom [c1, c2] pots c1 τ / LbpTree.partitionR dom [c1, c2] pots) hσ
    (fun τ hτ => gbp_fixed_point_exact_two_cliques dom g pots T m h hfix hT c1 c2 s hne hc1 (hcl _ hc1)
      (hcl _ hc2) he2 hN hD hB1 hsep τ hτ),
    sumOver_div, sumOver_mul_left]
  congr 2
  unfold LbpTree.marginalR
  have hnd1 : (c1.filter (fun a => !s.contains a)).Nodup := hr1.1.sublist List.filter_sublist
  have hdis : ∀ a ∈ c1.filter (fun a => !s.contains a), a ∉ dom.invert c1 := by
    intro a ha hmem
    have h1 := (List.mem_filter.mp ha).1
    have h2 := (List.mem_filter.mp hmem).2
    simp [h1] at h2
  rw [← sumOver_append dom _ _ σ _ hnd1 hdis]
  have hndapp : (c1.filter (fun a => !s.contains a) ++ dom.invert c1).Nodup := by
    rw [List.nodup_append]
    exact ⟨hnd1, hd.sublist List.filter_sublist, fun a ha b hb hab => hdis a ha (hab ▸ hb)⟩
  have hnd2 : (dom.invert s).Nodup := hd.sublist List.filter_sublist
  apply sumOver_perm dom _ _ σ _ ?_ hndapp
  rw [List.perm_ext_iff_of_nodup hndapp hnd2]
  intro a
  simp only [List.mem_append, List.mem_filter, Dom.invert, Bool.not_eq_eq_eq_not, Bool.not_true]
  constructor
  · rintro (⟨h1, h2⟩ | ⟨h1, h2⟩)
    · exact ⟨hr1.2 a h1, by simpa using h2⟩
    · refine ⟨h1, ?_⟩
      have h3 : a ∉ c1 := by simpa using h2
      have h4 : a ∉ s := fun hs => h3 ((hsep a).mp hs).1
      simpa using h4
  · rintro ⟨h1, h2⟩
    by_cases hac : a ∈ c1
    · exact Or.inl ⟨hac, h2⟩
    · exact Or.inr ⟨h1, by simpa using hac⟩

/-- 3 + 2: stationary after `n0` sweeps ⇒ exact for every `iters ≥ n0` (two maximal cliques).  (Stationarity is
meant literally here; a literal non-trivial stationary state is not exhibited in this file — see the last example.) -/
theorem gbp_stationary_exact_two_cliques (dom : Dom) (g : RG.Graph) (pots : CliqueVec ℝ) (T : ℝ) (m0 : Msgs ℝ)
    (n0 iters : Nat) (h : Hyp dom g (potOf dom g pots) m0)
    (hstat : gbpSweep g (potOf dom g pots) (iterate (gbpSweep g (potOf dom g pots)) n0 m0)
      = iterate (gbpSweep g (potOf dom g pots)) n0 m0)
    (hn : n0 ≤ iters) (hT : 0 < T)
    (c1 c2 s : Region) (hne : c1 ≠ c2) (hc1 : c1 ∈ g.regions) (hc1' : c1 ∈ g.cliques) (hc2' : c2 ∈ g.cliques)
    (he2 : (c2, s) ∈ g.messageOrder)
    (hN : look g.N (c2, s) = []) (hD : look g.D (c2, s) = []) (hB1 : look g.B c1 = [(c2, s)])
    (hsep : ∀ a, a ∈ s ↔ (a ∈ c1 ∧ a ∈ c2)) (σ : Attr → Nat) (hσ : dom.Valid σ) :
    ((RG.gbp dom g pots T iters m0).1.get c1).sem σ
      = T * LbpTree.marginalR dom [c1, c2] pots c1 σ / LbpTree.partitionR dom [c1, c2] pots := by
  rw [gbp_stationary dom g pots T m0 n0 iters hstat hn]
  have hH := h.iterate n0
  have := gbp_fixed_point_exact_two_cliques dom g pots T _ hH (semFixed_of_eq dom g _ _ hstat) hT
    c1 c2 s hne hc1 hc1' hc2' he2 hN hD hB1 hsep σ hσ
  rw [gbp_table dom g pots T 0 _ c1 hc1'] at this
  rw [gbp_table dom g pots T n0 m0 c1 hc1']
  exact this

/-! ## 2'. exactness on chains (two-level region graphs, any length)

A chain is described by derivations `GbpFixed.Fwd g pot e q Θ` — "the message of edge `e = (C, S)` is fed by a path of
cliques": `base` for an end clique (`N[e] = D[e] = ∅`), `step` for `N[e] = {e'}`, `D[e] = ∅` with the previous separator
inside `C` and the running-intersection condition; `q` marks the attributes of the cliques behind `e`, `Θ` is the sum
of their potentials.  For `C₁ – … – Cₙ` the forward derivations are `base (C₁,S₁)`, `step (C₂,S₂)`, … and the backward
ones `base (Cₙ,Sₙ₋₁)`, `step (Cₙ₋₁,Sₙ₋₂)`, …; an end clique has one incoming message, an interior clique two. -/

theorem potOf_eq (dom : Dom) (g : RG.Graph) (pots : CliqueVec ℝ) (r : Region) (hr : r ∈ g.cliques) :
    potOf dom g pots r = pots.get r := by
  unfold potOf; rw [if_pos (List.contains_iff_mem.mpr hr)]

/-- **an end clique of a chain**: `B[c0] = {e1}`, the other cliques are behind `e1` -/
theorem gbp_fixed_point_exact_chain_end (dom : Dom) (g : RG.Graph) (pots : CliqueVec ℝ) (T : ℝ) (m : Msgs ℝ)
    (h : Hyp dom g (potOf dom g pots) m) (hfix : SemFixed dom g (potOf dom g pots) m) (hT : 0 < T)
    (cliques : List Region) (hG : LbpTree.GraphOK dom cliques pots)
    (c0 : Region) (hc : c0 ∈ cliques) (hc0 : c0 ∈ g.regions) (hc0' : c0 ∈ g.cliques)
    (e1 : Edge) (q1 : Attr → Bool) (Θ1 : (Attr → Nat) → ℝ) (hf : Fwd g (potOf dom g pots) e1 q1 Θ1)
    (hB : look g.B c0 = [e1]) (hs1 : ∀ a ∈ e1.2, a ∈ c0) (hrip : ∀ a, q1 a = true → a ∈ c0 → a ∈ e1.2)
    (hjoint : ∀ τ, LbpTree.logJoint cliques pots τ = (potOf dom g pots c0).sem τ + Θ1 τ)
    (σ : Attr → Nat) (hσ : dom.Valid σ) :
    ((RG.gbp dom g pots T 0 m).1.get c0).sem σ
      = T * LbpTree.marginalR dom cliques pots c0 σ / LbpTree.partitionR dom cliques pots := by
  have hpos : Oracle.PosDom dom := fun p hp => (h.pos p hp).ne'
  obtain ⟨K, hK⟩ := chain_end_claim h hfix hc0 hf hB hs1 hrip
  obtain ⟨b1, b2⟩ := beliefOf_ok h hc0
  rw [gbp_table dom g pots T 0 m c0 hc0']
  show (normalise T (beliefOf g (potOf dom g pots) m c0)).sem σ = _
  apply LbpTree.exact_of_claim dom cliques pots hG hpos T hT c0 hc _ b1.1 b1.2 ⟨K, ?_⟩ σ hσ
  intro τ hτ
  rw [b2 τ hτ, ← hK τ hτ]
  unfold LbpTree.marginalR
  simp only [hjoint]

/-- **an interior clique of a chain**: `B[c0] = {e1, e2}`; the cliques behind `e1` and those behind `e2` only share
attributes of `c0` -/
theorem gbp_fixed_point_exact_chain_mid (dom : Dom) (g : RG.Graph) (pots : CliqueVec ℝ) (T : ℝ) (m : Msgs ℝ)
    (h : Hyp dom g (potOf dom g pots) m) (hfix : SemFixed dom g (potOf dom g pots) m) (hT : 0 < T)
    (cliques : List Region) (hG : LbpTree.GraphOK dom cliques pots)
    (c0 : Region) (hc : c0 ∈ cliques) (hc0 : c0 ∈ g.regions) (hc0' : c0 ∈ g.cliques)
    (e1 e2 : Edge) (q1 q2 : Attr → Bool) (Θ1 Θ2 : (Attr → Nat) → ℝ)
    (hf1 : Fwd g (potOf dom g pots) e1 q1 Θ1) (hf2 : Fwd g (potOf dom g pots) e2 q2 Θ2)
    (hB : (look g.B c0).Perm [e1, e2])
    (hs1 : ∀ a ∈ e1.2, a ∈ c0) (hrip1 : ∀ a, q1 a = true → a ∈ c0 → a ∈ e1.2)
    (hs2 : ∀ a ∈ e2.2, a ∈ c0) (hrip2 : ∀ a, q2 a = true → a ∈ c0 → a ∈ e2.2)
    (hdisj : ∀ a, q1 a = true → q2 a = true → a ∈ c0)
    (hjoint : ∀ τ, LbpTree.logJoint cliques pots τ = (potOf dom g pots c0).sem τ + Θ1 τ + Θ2 τ)
    (σ : Attr → Nat) (hσ : dom.Valid σ) :
    ((RG.gbp dom g pots T 0 m).1.get c0).sem σ
      = T * LbpTree.marginalR dom cliques pots c0 σ / LbpTree.partitionR dom cliques pots := by
  have hpos : Oracle.PosDom dom := fun p hp => (h.pos p hp).ne'
  obtain ⟨K, hK⟩ := chain_mid_claim h hfix hc0 hf1 hf2 hB hs1 hrip1 hs2 hrip2 hdisj
  obtain ⟨b1, b2⟩ := beliefOf_ok h hc0
  rw [gbp_table dom g pots T 0 m c0 hc0']
  show (normalise T (beliefOf g (potOf dom g pots) m c0)).sem σ = _
  apply LbpTree.exact_of_claim dom cliques pots hG hpos T hT c0 hc _ b1.1 b1.2 ⟨K, ?_⟩ σ hσ
  intro τ hτ
  rw [b2 τ hτ, ← hK τ hτ]
  unfold LbpTree.marginalR
  simp only [hjoint]

/-! ## satisfiability: the graph `A-B / B-C / B`, and a chain with nested separators -/

def exDom : Dom := [("A", 2), ("B", 3), ("C", 2)]
def exG : RG.Graph := RG.buildOn [["A", "B"], ["B", "C"], ["B"]] false true

theorem exG_shape : Shape exG := by decide
theorem exG_flat : ∀ e ∈ exG.messageOrder, look exG.N e = [] ∧ look exG.D e = [] := by decide
theorem exDom_wf : exDom.WF := by decide
theorem exDom_pos : ∀ p ∈ exDom, 0 < p.2 := by decide
theorem exG_regs : ∀ r ∈ exG.regions, RegOK exDom r := by
  have h : ∀ r ∈ exG.regions, r.Nodup ∧ ∀ a ∈ r, a ∈ exDom.attrs := by decide
  exact h

/-- the three-clique chain `ABC – BCD – CDE` (regions `BC`, `CD`, `C`): `N` and `D` are not empty, `Shape` holds -/
def exChain : RG.Graph :=
  RG.buildOn [["A", "B", "C"], ["B", "C", "D"], ["C", "D", "E"], ["B", "C"], ["C", "D"], ["C"]] false true
theorem exChain_shape : Shape exChain := by decide
theorem exChain_nonflat : ∃ e ∈ exChain.messageOrder, look exChain.N e ≠ [] ∧ look exChain.D e ≠ [] := by decide

/-- the chain `AB – BC – CD` with disjoint separators `B`, `C` (two levels): `D` is empty, `N` is not -/
def exChain2 : RG.Graph := RG.buildOn [["A", "B"], ["B", "C"], ["C", "D"], ["B"], ["C"]] false true
theorem exChain2_N : look exChain2.N (["B", "C"], ["C"]) = [(["A", "B"], ["B"])] ∧
    ∀ e ∈ exChain2.messageOrder, look exChain2.D e = [] := by decide

/-- for **every** family of potentials laid out on the regions of `A-B / B-C / B` there is a message state
satisfying all hypotheses of the theorems above (`Hyp` and `SemFixed`) -/
theorem ex_fixed (pot : Region → Factor ℝ) (hpot : ∀ r ∈ exG.regions, On exDom r (pot r)) :
    Hyp exDom exG pot (flatMsgs exG pot) ∧ SemFixed exDom exG pot (flatMsgs exG pot) := by
  have hb := buildOn_ok [["A", "B"], ["B", "C"], ["B"]] false true (by decide)
  exact flat_fixed ⟨exDom_wf, exG_regs, hpot, hb.children_sub, hb.parents_dual⟩ exDom_pos exG_shape exG_flat

/-- zero potentials (stored in the clique vector) are such a family -/
noncomputable def exPots : CliqueVec ℝ := exG.regions.map (fun r => (r, Factor.zeros (exDom.project r)))

theorem exPots_get (r : Region) (hr : r ∈ exG.regions) : exPots.get r = Factor.zeros (exDom.project r) :=
  cv_get_map_key exG.regions _ r hr

theorem ex_sep : ∀ a : Attr, a ∈ ["B"] ↔ (a ∈ ["A", "B"] ∧ a ∈ ["B", "C"]) := by
  intro a
  simp only [List.mem_cons, List.mem_nil_iff, or_false]
  constructor
  · rintro rfl; exact ⟨Or.inr rfl, Or.inl rfl⟩
  · rintro ⟨h1 | h1, h2⟩
    · subst h1; rcases h2 with h2 | h2 <;> exact absurd h2 (by decide)
    · exact h1

theorem exG_cliques : ∀ r ∈ exG.regions, r ∈ exG.cliques := by decide

theorem exPots_on : ∀ r ∈ exG.regions, On exDom r (potOf exDom exG exPots r) := by
  intro r hr
  unfold potOf
  rw [if_pos (List.contains_iff_mem.mpr (exG_cliques r hr)), exPots_get r hr]
  exact zeros_on (exG_regs r hr)

/-- `gbp_fixed_point_consistent`, `gbp_fixed_point_equation`: all hypotheses hold on `A-B / B-C / B` -/
example : ∃ m : Msgs ℝ, Hyp exDom exG (potOf exDom exG exPots) m ∧ SemFixed exDom exG (potOf exDom exG exPots) m ∧
    (["A", "B"], ["B"]) ∈ exG.messageOrder ∧ (∀ σ, exDom.Valid σ → (exPots.get ["B"]).sem σ = 0) :=
  ⟨_, (ex_fixed _ exPots_on).1, (ex_fixed _ exPots_on).2, by decide, fun σ _ => by
    rw [exPots_get ["B"] (by decide)]; exact zeros_sem_real _ σ⟩

/-- … and the conclusion there: the `B` table is the `A`-marginal of the `A-B` table -/
example (T : ℝ) (hT : 0 < T) : ∃ m : Msgs ℝ,
    (((RG.gbp exDom exG exPots T 0 m).1.get ["A", "B"]).projectSum ["B"]).datavector
      = ((RG.gbp exDom exG exPots T 0 m).1.get ["B"]).datavector :=
  ⟨_, (gbp_fixed_point_consistent exDom exG exPots T _ (ex_fixed _ exPots_on).1 (ex_fixed _ exPots_on).2 hT
    exG_cliques (["A", "B"], ["B"]) (by decide) (fun σ _ => by
      rw [exPots_get ["B"] (by decide)]; exact zeros_sem_real _ σ)).2.2.2⟩

/-- `gbp_fixed_point_consistent_buildOn` (no decidable hypothesis) on `A-B / B-C / B` -/
example (T : ℝ) (hT : 0 < T) : ∃ m : Msgs ℝ,
    (((RG.gbp exDom exG exPots T 0 m).1.get ["B", "C"]).projectSum ["B"]).datavector
      = ((RG.gbp exDom exG exPots T 0 m).1.get ["B"]).datavector :=
  ⟨_, (gbp_fixed_point_consistent_buildOn exDom [["A", "B"], ["B", "C"], ["B"]] exPots T _ exDom_wf exDom_pos
    (by decide) exG_regs (fun r hr => by rw [exPots_get r hr]; exact zeros_on (exG_regs r hr))
    (ex_fixed _ exPots_on).1.msgs_sub (ex_fixed _ exPots_on).2 hT (["B", "C"], ["B"]) (by decide) (fun σ _ => by
      rw [exPots_get ["B"] (by decide)]; exact zeros_sem_real _ σ)).2⟩

/-- `gbp_fixed_point_exact_two_cliques`: all hypotheses hold on `A-B / B-C / B` (`c1 = AB`, `c2 = BC`, `s = B`) -/
example (T : ℝ) (hT : 0 < T) (σ : Attr → Nat) (hσ : exDom.Valid σ) : ∃ m : Msgs ℝ,
    ((RG.gbp exDom exG exPots T 0 m).1.get ["A", "B"]).sem σ
      = T * LbpTree.marginalR exDom [["A", "B"], ["B", "C"]] exPots ["A", "B"] σ
          / LbpTree.partitionR exDom [["A", "B"], ["B", "C"]] exPots :=
  ⟨_, gbp_fixed_point_exact_two_cliques exDom exG exPots T _ (ex_fixed _ exPots_on).1 (ex_fixed _ exPots_on).2 hT
    ["A", "B"] ["B", "C"] ["B"] (by decide) (by decide) (by decide) (by decide) (by decide) (by decide) (by decide)
    (by decide) ex_sep σ hσ⟩

/-- `gbp_fixed_point_exact_two_cliques_separator` on `A-B / B-C / B` -/
example (T : ℝ) (hT : 0 < T) (σ : Attr → Nat) (hσ : exDom.Valid σ) : ∃ m : Msgs ℝ,
    ((RG.gbp exDom exG exPots T 0 m).1.get ["B"]).sem σ
      = T * LbpTree.marginalR exDom [["A", "B"], ["B", "C"]] exPots ["B"] σ
          / LbpTree.partitionR exDom [["A", "B"], ["B", "C"]] exPots :=
  ⟨_, gbp_fixed_point_exact_two_cliques_separator exDom exG exPots T _ (ex_fixed _ exPots_on).1
    (ex_fixed _ exPots_on).2 hT exG_cliques ["A", "B"] ["B", "C"] ["B"] (by decide) (by decide) (by decide)
    (by decide) (by decide) (by decide) ex_sep (fun σ _ => by
      rw [exPots_get ["B"] (by decide)]; exact zeros_sem_real _ σ) σ hσ⟩

/-- `hyp_buildOn` / `hyp_cold`: the cold start on `A-B / B-C / B` -/
example (pot : Region → Factor ℝ) (hpot : ∀ r ∈ [["A", "B"], ["B", "C"], ["B"]], On exDom r (pot r)) :
    Hyp exDom exG pot [] :=
  hyp_buildOn exDom _ true pot [] exDom_wf exDom_pos (by decide) exG_regs hpot exG_shape
    (fun e _ => zeros_nil_sub exDom e.2)

/-- `gbp_stationary`: with no edges every state is stationary (`n0 = 0`); a non-trivial stationary state in the
literal sense needs `0.5·x + 0.5·x = x` on tables, which holds cell-wise (`SemFixed`, above) -/
example (dom : Dom) (pots : CliqueVec ℝ) (T : ℝ) (m0 : Msgs ℝ) (iters : Nat) :
    RG.gbp dom (RG.buildOn [["A"], ["B"]] false true) pots T iters m0
      = RG.gbp dom (RG.buildOn [["A"], ["B"]] false true) pots T 0 m0 :=
  gbp_stationary dom _ pots T m0 0 iters (by
    show gbpSweep _ _ m0 = m0
    rfl) (Nat.zero_le _)

/-! ### the chain `AB – BC – CD`: an explicit fixed point by the junction-tree recursion, exact tables -/

def exDom4 : Dom := [("A", 2), ("B", 3), ("C", 2), ("D", 2)]
theorem exDom4_wf : exDom4.WF := by decide
theorem exDom4_pos : ∀ p ∈ exDom4, 0 < p.2 := by decide
theorem exChain2_regs : ∀ r ∈ exChain2.regions, RegOK exDom4 r := by
  have h : ∀ r ∈ exChain2.regions, r.Nodup ∧ ∀ a ∈ r, a ∈ exDom4.attrs := by decide
  exact h
theorem exChain2_cliques : ∀ r ∈ exChain2.regions, r ∈ exChain2.cliques := by decide
theorem exChain2_depth : ∀ e ∈ exChain2.messageOrder, ∀ k ∈ look exChain2.N e,
    k ∈ exChain2.messageOrder ∧ look exChain2.N k = [] ∧ look exChain2.D k = [] := by decide

noncomputable def exPots4 : CliqueVec ℝ := exChain2.regions.map (fun r => (r, Factor.zeros (exDom4.project r)))
theorem exPots4_get (r : Region) (hr : r ∈ exChain2.regions) : exPots4.get r = Factor.zeros (exDom4.project r) :=
  cv_get_map_key exChain2.regions _ r hr
theorem exPots4_on : ∀ r ∈ exChain2.regions, On exDom4 r (potOf exDom4 exChain2 exPots4 r) := by
  intro r hr
  rw [potOf_eq _ _ _ r (exChain2_cliques r hr), exPots4_get r hr]
  exact zeros_on (exChain2_regs r hr)

/-- the state after two un-damped updates from the empty state -/
noncomputable def exM4 : Msgs ℝ :=
  newDict exChain2 (potOf exDom4 exChain2 exPots4) (newDict exChain2 (potOf exDom4 exChain2 exPots4) [])

/-- it satisfies the hypotheses of all theorems: layout and (cell-wise) fixed point -/
theorem exM4_fixed : Hyp exDom4 exChain2 (potOf exDom4 exChain2 exPots4) exM4 ∧
    SemFixed exDom4 exChain2 (potOf exDom4 exChain2 exPots4) exM4 := by
  have hb := buildOn_ok [["A", "B"], ["B", "C"], ["C", "D"], ["B"], ["C"]] false true (by decide)
  exact depth2_fixed ⟨exDom4_wf, exChain2_regs, exPots4_on, hb.children_sub, hb.parents_dual⟩ exDom4_pos
    (shape_buildOn _ (by decide) (by decide)) exChain2_depth

theorem exG4 : LbpTree.GraphOK exDom4 [["A", "B"], ["B", "C"], ["C", "D"]] exPots4 := by
  refine ⟨exDom4_wf, by decide, ?_, ?_, ?_⟩
  · intro cl hcl; exact (exChain2_regs cl (by revert cl; decide)).1
  · intro cl hcl; exact (exChain2_regs cl (by revert cl; decide)).2
  · intro cl hcl
    have hr : cl ∈ exChain2.regions := by revert cl; decide
    rw [exPots4_get cl hr]
    exact zeros_on (exChain2_regs cl hr)

theorem rip_of_bounded {q : Attr → Bool} {c0 s : Region} (h : ∀ a ∈ c0, q a = true → a ∈ s) :
    ∀ a, q a = true → a ∈ c0 → a ∈ s := fun a hq hc => h a hc hq

/-- `gbp_fixed_point_exact_chain_mid`: the interior clique `BC` (incoming `AB → B` and `CD → C`, both `base`) -/
example (T : ℝ) (hT : 0 < T) (σ : Attr → Nat) (hσ : exDom4.Valid σ) :
    ((RG.gbp exDom4 exChain2 exPots4 T 0 exM4).1.get ["B", "C"]).sem σ
      = T * LbpTree.marginalR exDom4 [["A", "B"], ["B", "C"], ["C", "D"]] exPots4 ["B", "C"] σ
          / LbpTree.partitionR exDom4 [["A", "B"], ["B", "C"], ["C", "D"]] exPots4 :=
  gbp_fixed_point_exact_chain_mid exDom4 exChain2 exPots4 T exM4 exM4_fixed.1 exM4_fixed.2 hT _ exG4
    ["B", "C"] (by decide) (by decide) (by decide) (["A", "B"], ["B"]) (["C", "D"], ["C"]) _ _ _ _
    (Fwd.base _ (by decide) (by decide) (by decide)) (Fwd.base _ (by decide) (by decide) (by decide))
    (by decide) (by decide) (rip_of_bounded (by decide)) (by decide) (rip_of_bounded (by decide))
    (fun a h1 h2 => (by decide : ∀ a ∈ ["A", "B"], (["C", "D"].contains a) = true → a ∈ ["B", "C"]) a
      (List.contains_iff_mem.mp h1) h2)
    (fun τ => by
      rw [potOf_eq _ _ _ _ (by decide : ["B", "C"] ∈ exChain2.cliques)]
      show LbpTree.logJoint _ _ τ = _ + (potOf exDom4 exChain2 exPots4 ["A", "B"]).sem τ
        + (potOf exDom4 exChain2 exPots4 ["C", "D"]).sem τ
      rw [potOf_eq _ _ _ _ (by decide : ["A", "B"] ∈ exChain2.cliques),
        potOf_eq _ _ _ _ (by decide : ["C", "D"] ∈ exChain2.cliques)]
      unfold LbpTree.logJoint
      simp only [List.map_cons, List.map_nil, List.sum_cons, List.sum_nil]
      ring) σ hσ

/-- `gbp_fixed_point_exact_chain_end`: the end clique `AB` (incoming `BC → B`, a `step` after `CD → C`) -/
example (T : ℝ) (hT : 0 < T) (σ : Attr → Nat) (hσ : exDom4.Valid σ) :
    ((RG.gbp exDom4 exChain2 exPots4 T 0 exM4).1.get ["A", "B"]).sem σ
      = T * LbpTree.marginalR exDom4 [["A", "B"], ["B", "C"], ["C", "D"]] exPots4 ["A", "B"] σ
          / LbpTree.partitionR exDom4 [["A", "B"], ["B", "C"], ["C", "D"]] exPots4 :=
  gbp_fixed_point_exact_chain_end exDom4 exChain2 exPots4 T exM4 exM4_fixed.1 exM4_fixed.2 hT _ exG4
    ["A", "B"] (by decide) (by decide) (by decide) (["B", "C"], ["B"]) _ _
    (Fwd.step (["B", "C"], ["B"]) (["C", "D"], ["C"]) _ _ (Fwd.base _ (by decide) (by decide) (by decide))
      (by decide) (by decide) (by decide) (by decide) (rip_of_bounded (by decide)))
    (by decide) (by decide) (rip_of_bounded (by decide))
    (fun τ => by
      rw [potOf_eq _ _ _ _ (by decide : ["A", "B"] ∈ exChain2.cliques)]
      show LbpTree.logJoint _ _ τ = _ + ((potOf exDom4 exChain2 exPots4 ["C", "D"]).sem τ
        + (potOf exDom4 exChain2 exPots4 ["B", "C"]).sem τ)
      rw [potOf_eq _ _ _ _ (by decide : ["B", "C"] ∈ exChain2.cliques),
        potOf_eq _ _ _ _ (by decide : ["C", "D"] ∈ exChain2.cliques)]
      unfold LbpTree.logJoint
      simp only [List.map_cons, List.map_nil, List.sum_cons, List.sum_nil]
      ring) σ hσ

/-! ## 3'. `hstat` of `gbp_stationary` forces the start state (independent audit, `audit/scratch/c16_stat.lean`) -/

/-- On a flat graph (`N = D = ∅`, e.g. every two-clique junction tree), if the state reached after `n` sweeps from `m` is a
(cell-wise) fixed point, then `m` ITSELF already had the fixed-point values: the damped iteration never reaches a fixed point
it did not start at.  So `gbp_stationary` / `gbp_stationary_exact_two_cliques` are warm-start statements. -/
theorem stationary_forces_start {dom : Dom} {g : RG.Graph} {pot : Region → Factor ℝ}
    (hND : ∀ e ∈ g.messageOrder, look g.N e = [] ∧ look g.D e = []) :
    ∀ (n : Nat) (m : Msgs ℝ), Hyp dom g pot m → SemFixed dom g pot (iterate (gbpSweep g pot) n m) →
      ∀ e ∈ g.messageOrder, ∀ σ, dom.Valid σ → (m.get e).sem σ = (newMsg g pot [] [] e).sem σ := by
  have hindep : ∀ e ∈ g.messageOrder, ∀ msgs new : Msgs ℝ, newMsg g pot msgs new e = newMsg g pot [] [] e := by
    intro e he msgs new
    unfold newMsg
    rw [(hND e he).1, (hND e he).2]
    rfl
  have step : ∀ (m : Msgs ℝ), Hyp dom g pot m → ∀ e ∈ g.messageOrder, ∀ σ, dom.Valid σ →
      ((gbpSweep g pot m).get e).sem σ = ((m.get e).sem σ + (newMsg g pot [] [] e).sem σ) / 2 := by
    intro m h e he σ hσ
    have hs := newDict_sub h e he
    rw [gbpSweep_get g pot m h.order_nodup e, if_pos he,
      damp2_sem h.gok.dom_wf (h.msg_sub he) hs hσ,
      newDict_get g pot m h.order_nodup h.D_before e he, hindep e he]
  intro n
  induction n with
  | zero =>
    intro m h hfix e he σ hσ
    have h1 := hfix e he σ hσ
    show (m.get e).sem σ = _
    have h2 := step m h e he σ hσ
    simp only [iterate] at h1
    linarith
  | succ n ih =>
    intro m h hfix e he σ hσ
    have h1 := ih (gbpSweep g pot m) h.sweep hfix e he σ hσ
    have h2 := step m h e he σ hσ
    linarith

/-- cold start on `A-B / B-C / B`: if `gbp_stationary`'s hypothesis held for some `n0`, every fixed-point message would be the
zero function — impossible for normalised messages on a region with ≥ 2 cells -/
example (pot : Region → Factor ℝ) (hpot : ∀ r ∈ exG.regions, On exDom r (pot r)) (n0 : Nat)
    (hstat : gbpSweep exG pot (iterate (gbpSweep exG pot) n0 []) = iterate (gbpSweep exG pot) n0 []) :
    ∀ e ∈ exG.messageOrder, ∀ σ, exDom.Valid σ → (newMsg exG pot [] [] e).sem σ = 0 := by
  have hb := buildOn_ok [["A", "B"], ["B", "C"], ["B"]] false true (by decide)
  have h0 : Hyp exDom exG pot [] :=
    hyp_nil ⟨exDom_wf, exG_regs, hpot, hb.children_sub, hb.parents_dual⟩ exDom_pos exG_shape
  intro e he σ hσ
  have := stationary_forces_start exG_flat n0 [] h0 (semFixed_of_eq _ _ _ _ hstat) e he σ hσ
  rw [← this]
  exact zeros_sem_real [] σ

/-! ## satisfiability with ARBITRARY potentials on `AB – BC – CD` (independent audit, `audit/scratch/c16_generic.lean`): the
examples above instantiate zero potentials only -/

section generic
variable (pots : CliqueVec ℝ) (hp : ∀ r ∈ exChain2.regions, On exDom4 r (pots.get r))
include hp

theorem gen_on : ∀ r ∈ exChain2.regions, On exDom4 r (potOf exDom4 exChain2 pots r) := by
  intro r hr
  rw [potOf_eq _ _ _ r (exChain2_cliques r hr)]
  exact hp r hr

/-- two rounds of the recursion from the empty state: an explicit fixed point for any potentials -/
noncomputable def gM (pots : CliqueVec ℝ) : Msgs ℝ :=
  newDict exChain2 (potOf exDom4 exChain2 pots) (newDict exChain2 (potOf exDom4 exChain2 pots) [])

theorem gM_fixed : Hyp exDom4 exChain2 (potOf exDom4 exChain2 pots) (gM pots) ∧
    SemFixed exDom4 exChain2 (potOf exDom4 exChain2 pots) (gM pots) := by
  have hb := buildOn_ok [["A", "B"], ["B", "C"], ["C", "D"], ["B"], ["C"]] false true (by decide)
  exact depth2_fixed ⟨exDom4_wf, exChain2_regs, gen_on pots hp, hb.children_sub, hb.parents_dual⟩ exDom4_pos
    (shape_buildOn _ (by decide) (by decide)) exChain2_depth

theorem gG4 : LbpTree.GraphOK exDom4 [["A", "B"], ["B", "C"], ["C", "D"]] pots := by
  refine ⟨exDom4_wf, by decide, ?_, ?_, ?_⟩
  · intro cl hcl; exact (exChain2_regs cl (by revert cl; decide)).1
  · intro cl hcl; exact (exChain2_regs cl (by revert cl; decide)).2
  · intro cl hcl
    exact hp cl (by revert cl; decide)

/-- `gbp_fixed_point_exact_chain_mid` on the interior clique `BC`, for ANY potentials laid out on the regions -/
theorem ex_chain_mid_generic (T : ℝ) (hT : 0 < T) (σ : Attr → Nat) (hσ : exDom4.Valid σ) :
    ((RG.gbp exDom4 exChain2 pots T 0 (gM pots)).1.get ["B", "C"]).sem σ
      = T * LbpTree.marginalR exDom4 [["A", "B"], ["B", "C"], ["C", "D"]] pots ["B", "C"] σ
          / LbpTree.partitionR exDom4 [["A", "B"], ["B", "C"], ["C", "D"]] pots :=
  gbp_fixed_point_exact_chain_mid exDom4 exChain2 pots T (gM pots) (gM_fixed pots hp).1 (gM_fixed pots hp).2 hT _ (gG4 pots hp)
    ["B", "C"] (by decide) (by decide) (by decide) (["A", "B"], ["B"]) (["C", "D"], ["C"]) _ _ _ _
    (Fwd.base _ (by decide) (by decide) (by decide)) (Fwd.base _ (by decide) (by decide) (by decide))
    (by decide) (by decide) (rip_of_bounded (by decide)) (by decide) (rip_of_bounded (by decide))
    (fun a h1 h2 => (by decide : ∀ a ∈ ["A", "B"], (["C", "D"].contains a) = true → a ∈ ["B", "C"]) a
      (List.contains_iff_mem.mp h1) h2)
    (fun τ => by
      rw [potOf_eq _ _ _ _ (by decide : ["B", "C"] ∈ exChain2.cliques)]
      show LbpTree.logJoint _ _ τ = _ + (potOf exDom4 exChain2 pots ["A", "B"]).sem τ
        + (potOf exDom4 exChain2 pots ["C", "D"]).sem τ
      rw [potOf_eq _ _ _ _ (by decide : ["A", "B"] ∈ exChain2.cliques),
        potOf_eq _ _ _ _ (by decide : ["C", "D"] ∈ exChain2.cliques)]
      unfold LbpTree.logJoint
      simp only [List.map_cons, List.map_nil, List.sum_cons, List.sum_nil]
      ring) σ hσ
end generic

/-! ## 4. the GENERATED code: the theorems above for `RGG.generalizedBeliefPropagation` (`tools/py2rg.py`)

`C17G.gen_gbp`: on every graph whose message order starts at regions (part of `Hyp`: `order_sound`), the regenerated
`generalized_belief_propagation` IS `RG.gbp` (returned CliqueVector and final `self.messages`).  One rewrite each. -/

/-- the regenerated oracle is the model's, under `Hyp` -/
theorem gen_gbp_eq (dom : Dom) (g : RG.Graph) (pots : CliqueVec ℝ) (T : ℝ) (iters : Nat) (m : Msgs ℝ)
    (h : Hyp dom g (potOf dom g pots) m) :
    RGG.generalizedBeliefPropagation dom g.regions g.cliques g.N g.D g.B g.messageOrder T iters pots m
      = RG.gbp dom g pots T iters m :=
  PGM.C17G.gen_gbp dom g pots T iters m (fun e he => (h.order_sound e he).1)

/-- `gbp_fixed_point_exact_two_cliques` for the GENERATED oracle -/
theorem gen_gbp_fixed_point_exact_two_cliques (dom : Dom) (g : RG.Graph) (pots : CliqueVec ℝ) (T : ℝ) (m : Msgs ℝ)
    (h : Hyp dom g (potOf dom g pots) m) (hfix : SemFixed dom g (potOf dom g pots) m) (hT : 0 < T)
    (c1 c2 s : Region) (hne : c1 ≠ c2) (hc1 : c1 ∈ g.regions) (hc1' : c1 ∈ g.cliques) (hc2' : c2 ∈ g.cliques)
    (he2 : (c2, s) ∈ g.messageOrder)
    (hN : look g.N (c2, s) = []) (hD : look g.D (c2, s) = []) (hB1 : look g.B c1 = [(c2, s)])
    (hsep : ∀ a, a ∈ s ↔ (a ∈ c1 ∧ a ∈ c2)) (σ : Attr → Nat) (hσ : dom.Valid σ) :
    ((RGG.generalizedBeliefPropagation dom g.regions g.cliques g.N g.D g.B g.messageOrder T 0 pots m).1.get c1).sem σ
      = T * LbpTree.marginalR dom [c1, c2] pots c1 σ / LbpTree.partitionR dom [c1, c2] pots := by
  rw [gen_gbp_eq dom g pots T 0 m h]
  exact gbp_fixed_point_exact_two_cliques dom g pots T m h hfix hT c1 c2 s hne hc1 hc1' hc2' he2 hN hD hB1 hsep σ hσ

/-- `gbp_fixed_point_exact_chain_end` for the GENERATED oracle -/
theorem gen_gbp_fixed_point_exact_chain_end (dom : Dom) (g : RG.Graph) (pots : CliqueVec ℝ) (T : ℝ) (m : Msgs ℝ)
    (h : Hyp dom g (potOf dom g pots) m) (hfix : SemFixed dom g (potOf dom g pots) m) (hT : 0 < T)
    (cliques : List Region) (hG : LbpTree.GraphOK dom cliques pots)
    (c0 : Region) (hc : c0 ∈ cliques) (hc0 : c0 ∈ g.regions) (hc0' : c0 ∈ g.cliques)
    (e1 : Edge) (q1 : Attr → Bool) (Θ1 : (Attr → Nat) → ℝ) (hf : Fwd g (potOf dom g pots) e1 q1 Θ1)
    (hB : look g.B c0 = [e1]) (hs1 : ∀ a ∈ e1.2, a ∈ c0) (hrip : ∀ a, q1 a = true → a ∈ c0 → a ∈ e1.2)
    (hjoint : ∀ τ, LbpTree.logJoint cliques pots τ = (potOf dom g pots c0).sem τ + Θ1 τ)
    (σ : Attr → Nat) (hσ : dom.Valid σ) :
    ((RGG.generalizedBeliefPropagation dom g.regions g.cliques g.N g.D g.B g.messageOrder T 0 pots m).1.get c0).sem σ
      = T * LbpTree.marginalR dom cliques pots c0 σ / LbpTree.partitionR dom cliques pots := by
  rw [gen_gbp_eq dom g pots T 0 m h]
  exact gbp_fixed_point_exact_chain_end dom g pots T m h hfix hT cliques hG c0 hc hc0 hc0' e1 q1 Θ1 hf hB hs1 hrip hjoint σ hσ

/-- `gbp_fixed_point_exact_chain_mid` for the GENERATED oracle -/
theorem gen_gbp_fixed_point_exact_chain_mid (dom : Dom) (g : RG.Graph) (pots : CliqueVec ℝ) (T : ℝ) (m : Msgs ℝ)
    (h : Hyp dom g (potOf dom g pots) m) (hfix : SemFixed dom g (potOf dom g pots) m) (hT : 0 < T)
    (cliques : List Region) (hG : LbpTree.GraphOK dom cliques pots)
    (c0 : Region) (hc : c0 ∈ cliques) (hc0 : c0 ∈ g.regions) (hc0' : c0 ∈ g.cliques)
    (e1 e2 : Edge) (q1 q2 : Attr → Bool) (Θ1 Θ2 : (Attr → Nat) → ℝ)
    (hf1 : Fwd g (potOf dom g pots) e1 q1 Θ1) (hf2 : Fwd g (potOf dom g pots) e2 q2 Θ2)
    (hB : (look g.B c0).Perm [e1, e2])
    (hs1 : ∀ a ∈ e1.2, a ∈ c0) (hrip1 : ∀ a, q1 a = true → a ∈ c0 → a ∈ e1.2)
    (hs2 : ∀ a ∈ e2.2, a ∈ c0) (hrip2 : ∀ a, q2 a = true → a ∈ c0 → a ∈ e2.2)
    (hdisj : ∀ a, q1 a = true → q2 a = true → a ∈ c0)
    (hjoint : ∀ τ, LbpTree.logJoint cliques pots τ = (potOf dom g pots c0).sem τ + Θ1 τ + Θ2 τ)
    (σ : Attr → Nat) (hσ : dom.Valid σ) :
    ((RGG.generalizedBeliefPropagation dom g.regions g.cliques g.N g.D g.B g.messageOrder T 0 pots m).1.get c0).sem σ
      = T * LbpTree.marginalR dom cliques pots c0 σ / LbpTree.partitionR dom cliques pots := by
  rw [gen_gbp_eq dom g pots T 0 m h]
  exact gbp_fixed_point_exact_chain_mid dom g pots T m h hfix hT cliques hG c0 hc hc0 hc0' e1 e2 q1 q2 Θ1 Θ2 hf1 hf2 hB
    hs1 hrip1 hs2 hrip2 hdisj hjoint σ hσ

/-- `gbp_stationary` for the GENERATED oracle (a warm-start statement, see `stationary_forces_start`) -/
theorem gen_gbp_stationary (dom : Dom) (g : RG.Graph) (pots : CliqueVec ℝ) (T : ℝ) (m0 : Msgs ℝ) (n0 iters : Nat)
    (h : Hyp dom g (potOf dom g pots) m0)
    (hstat : gbpSweep g (potOf dom g pots) (iterate (gbpSweep g (potOf dom g pots)) n0 m0)
      = iterate (gbpSweep g (potOf dom g pots)) n0 m0)
    (hn : n0 ≤ iters) :
    RGG.generalizedBeliefPropagation dom g.regions g.cliques g.N g.D g.B g.messageOrder T iters pots m0
      = RGG.generalizedBeliefPropagation dom g.regions g.cliques g.N g.D g.B g.messageOrder T n0 pots m0 := by
  rw [gen_gbp_eq dom g pots T iters m0 h, gen_gbp_eq dom g pots T n0 m0 h]
  exact gbp_stationary dom g pots T m0 n0 iters hstat hn

/-- `gbp_stationary_exact_two_cliques` for the GENERATED oracle -/
theorem gen_gbp_stationary_exact_two_cliques (dom : Dom) (g : RG.Graph) (pots : CliqueVec ℝ) (T : ℝ) (m0 : Msgs ℝ)
    (n0 iters : Nat) (h : Hyp dom g (potOf dom g pots) m0)
    (hstat : gbpSweep g (potOf dom g pots) (iterate (gbpSweep g (potOf dom g pots)) n0 m0)
      = iterate (gbpSweep g (potOf dom g pots)) n0 m0)
    (hn : n0 ≤ iters) (hT : 0 < T)
    (c1 c2 s : Region) (hne : c1 ≠ c2) (hc1 : c1 ∈ g.regions) (hc1' : c1 ∈ g.cliques) (hc2' : c2 ∈ g.cliques)
    (he2 : (c2, s) ∈ g.messageOrder)
    (hN : look g.N (c2, s) = []) (hD : look g.D (c2, s) = []) (hB1 : look g.B c1 = [(c2, s)])
    (hsep : ∀ a, a ∈ s ↔ (a ∈ c1 ∧ a ∈ c2)) (σ : Attr → Nat) (hσ : dom.Valid σ) :
    ((RGG.generalizedBeliefPropagation dom g.regions g.cliques g.N g.D g.B g.messageOrder T iters pots m0).1.get c1).sem σ
      = T * LbpTree.marginalR dom [c1, c2] pots c1 σ / LbpTree.partitionR dom [c1, c2] pots := by
  rw [gen_gbp_eq dom g pots T iters m0 h]
  exact gbp_stationary_exact_two_cliques dom g pots T m0 n0 iters h hstat hn hT c1 c2 s hne hc1 hc1' hc2' he2 hN hD hB1 hsep σ hσ

/-- the generic-potential chain example, for the GENERATED oracle -/
example (pots : CliqueVec ℝ) (hp : ∀ r ∈ exChain2.regions, On exDom4 r (pots.get r))
    (T : ℝ) (hT : 0 < T) (σ : Attr → Nat) (hσ : exDom4.Valid σ) :
    ((RGG.generalizedBeliefPropagation exDom4 exChain2.regions exChain2.cliques exChain2.N exChain2.D exChain2.B
        exChain2.messageOrder T 0 pots (gM pots)).1.get ["B", "C"]).sem σ
      = T * LbpTree.marginalR exDom4 [["A", "B"], ["B", "C"], ["C", "D"]] pots ["B", "C"] σ
          / LbpTree.partitionR exDom4 [["A", "B"], ["B", "C"], ["C", "D"]] pots := by
  rw [gen_gbp_eq exDom4 exChain2 pots T 0 (gM pots) (gM_fixed pots hp).1]
  exact ex_chain_mid_generic pots hp T hT σ hσ

end PGM.C16F
