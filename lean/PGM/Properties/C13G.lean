import PGM.Generated.EstimateG
import PGM.Proofs.EstGen
import PGM.Properties.C13
/-!
# C13 (translator tie) — the regenerated stateful shell of `FactoredInference` is the state machine `Model/Engine.lean`

`PGM/Generated/EstimateG.lean` is produced on every run by `tools/py2est.py` from the current source of
`class FactoredInference` (`__init__`, `fix_measurements`, `estimate`, `_setup`, and the head of the three solver methods).
The estimator object is the record `EstG.Est` (configuration + the two attributes `_setup` assigns); every method is a
function on it, so WHICH attributes a call reads is what the source says, not what the model assumes:

* `gen_setup` — `_setup` leaves the configuration alone, stores a NEW model object whose parameters are
  `Engine.initialTheta` (zeros, `combine`d with the structural zeros, `combine`d with the previous `model.potentials` iff
  `warm_start` and a previous model exists) and rebuilds `groups` from this call's measurements;
* `gen_mirrorDescentShell`, `gen_dualAveragingShell`, `gen_interiorGradientShell` — each solver method is `_setup` followed
  by a run (py2inf's `InfG.*`) on the fresh model;
* `gen_estimate` — one `estimate` call is one step `Engine.estimate` of the state machine (`cliquesOf`, `build` read off the
  generated code), for the engine names 'MD' / 'RDA' / 'IG';
* `gen_cold_call_history_free`, `gen_warm_reads_only_potentials`, `gen_first_call_initial` — the C13 theorems, re-stated
  for the GENERATED step function by rewriting with `gen_estimate`; `gen_cold_call_history_free'`,
  `gen_warm_reads_only_potentials'` are the same for the whole returned object (not only its `toModel` image), and
  `gen_cold_history_free` is history-freeness along any call history, INCLUDING the function's mutable default
  `options={}` (which `estimate` writes into on every call: `gen_default_dict`).

Difference between source and model, excluded by the hypothesis `ValidEngine`: with an engine name other than the three,
`estimate` runs no solver and returns whatever `self.model` was — the previous call's model, or AttributeError on a fresh
estimator (`invalid_engine_returns_stale_model`); the state machine always builds a new model.
-/
namespace PGM.C13G
open PGM PGM.EstG PGM.EstGen
variable {α : Type} [Scalar α] {V Cb : Type}

/-! ### `__init__` -/

/-- `__init__` stores its arguments; `model` and `groups` do not exist on a new estimator -/
theorem gen_init (negInf : α) (d : Dom) (zs : List (JT.Clique × List (List Nat))) (m : Metric) (lg : Bool) (it : Nat)
    (w : Bool) (eo : Option (List Attr)) :
    (init negInf d zs m lg it w eo).model = none ∧ (init negInf d zs m lg it w eo).groups = none ∧
    (init negInf d zs m lg it w eo).cfg.domain = d ∧ (init negInf d zs m lg it w eo).cfg.metric = m ∧
    (init negInf d zs m lg it w eo).cfg.log = lg ∧ (init negInf d zs m lg it w eo).cfg.iters = it ∧
    (init negInf d zs m lg it w eo).cfg.warm_start = w ∧ (init negInf d zs m lg it w eo).cfg.elim_order = eo :=
  ⟨rfl, rfl, rfl, rfl, rfl, rfl, rfl, rfl⟩

/-- the defaults of the constructor: cold, 1000 iterations, L2, no log, no zeros, greedy elimination order -/
theorem gen_initDefault (negInf : α) (d : Dom) :
    initDefault negInf d = ⟨⟨d, Metric.L2, false, 1000, false, none, []⟩, none, none⟩ := rfl

/-! ### `fix_measurements` -/

/-- the attribute tuple a caller's `proj` stands for: a list or tuple as it is, a single name as a 1-tuple -/
def norm : RawProj → List Attr
  | .list l => l | .tuple l => l | .atom a => [a] | .nested => []

/-- what `fix_measurements` returns: `proj` as a tuple of names, `Q = None` replaced by the identity -/
def fixSpec (d : Dom) (raws : List (RawMeas α)) : List (Loss.Meas α) :=
  raws.map (fun r => ⟨match r.Q with | some Q => Q | none => eye (d.sizeOf (norm r.proj)), r.y, r.noise, norm r.proj⟩)

theorem foldl_append_map {β γ : Type} (f : β → γ) (l : List β) (init : List γ) :
    l.foldl (fun acc x => acc ++ [f x]) init = init ++ l.map f := by
  induction l generalizing init with
  | nil => simp
  | cons x xs ih => simp [ih]

theorem gen_fixMeasurements (d : Dom) (raws : List (RawMeas α)) : fixMeasurements d raws = fixSpec d raws := by
  simp only [fixMeasurements, fixSpec]
  rw [foldl_append_map, List.nil_append]
  apply List.map_congr_left
  intro r _
  obtain ⟨Q, y, n, p⟩ := r
  cases p <;> cases Q <;> simp [RawProj.isList, RawProj.isTuple, RawProj.toTuple, RawProj.single, RawProj.attrs, matOf, norm]

/-- the assertions of `fix_measurements` -/
def fixOkSpec (d : Dom) (raws : List (RawMeas α)) : Bool :=
  raws.all (fun r =>
    (match r.Q with | none => true | some Q => Q.length == r.y.length) &&
    ((norm r.proj).all (fun a => d.attrs.contains a) && r.proj.flat) &&
    (match r.Q with | some Q => Q | none => eye (d.sizeOf (norm r.proj))).all (fun row => row.length == d.sizeOf (norm r.proj)))

theorem gen_fixMeasurementsOk (d : Dom) (raws : List (RawMeas α)) : fixMeasurementsOk d raws = fixOkSpec d raws := by
  simp only [fixMeasurementsOk, fixOkSpec]
  congr 1
  funext r
  obtain ⟨Q, y, n, p⟩ := r
  cases p <;> cases Q <;>
    simp [RawProj.isList, RawProj.isTuple, RawProj.toTuple, RawProj.single, RawProj.attrs, RawProj.flat, matOf, norm]

/-! ### `_setup` -/

/-- **`_setup`**: configuration untouched; a new model object with parameters `Engine.initialTheta`; `groups` rebuilt -/
theorem gen_setup (gmC : Dom → List JT.Clique → Option (List Attr) → List JT.Clique)
    (estT : List (Loss.Meas α) → α) (s : Est α) (ms : List (Loss.Meas α)) (t : Option α) :
    setup gmC estT s ms t =
      ⟨s.cfg, some (newGM gmC s.cfg ms (totalOf estT ms t)
          (Engine.initialTheta (cfgOf s.cfg) (modelCliques gmC s.cfg ms) (toState s))),
        some (InfG.setupGroups s.cfg.domain (modelCliques gmC s.cfg ms) ms)⟩ :=
  setup_eq gmC estT s ms t

/-- a given total is used as it is; otherwise the estimate (C09) -/
theorem gen_setup_total (gmC : Dom → List JT.Clique → Option (List Attr) → List JT.Clique)
    (estT : List (Loss.Meas α) → α) (s : Est α) (ms : List (Loss.Meas α)) :
    (∀ t, ((setup gmC estT s ms (some t)).model.map (·.total)) = some t) ∧
    ((setup gmC estT s ms none).model.map (·.total)) = some (estT ms) := by
  constructor
  · intro t; rw [gen_setup]; rfl
  · rw [gen_setup]; rfl

/-- the clique list handed to `GraphicalModel`: measured projections, then the zero keys -/
theorem gen_setup_cliques (gmC : Dom → List JT.Clique → Option (List Attr) → List JT.Clique)
    (estT : List (Loss.Meas α) → α) (s : Est α) (ms : List (Loss.Meas α)) (t : Option α) :
    (setup gmC estT s ms t).model.map (·.inCliques) = some (ms.map (·.proj) ++ s.cfg.structural_zeros.map Prod.fst) := by
  rw [gen_setup]; rfl

/-! ### the solver methods -/

/-- `self._marginal_loss` of the post-`_setup` object -/
def lossOf (c : Cfg α) (g : GM α) (ms : List (Loss.Meas α)) : CliqueVec α → α × CliqueVec α :=
  match c.metric with
  | Metric.L2 => InfG.marginalLossL2 c.domain g.cliques ms
  | Metric.L1 => InfG.marginalLossL1 c.domain g.cliques ms

def writeBack (g : GM α) (r : Solvers.Result α) : GM α := { g with potentials := r.potentials, marginals := r.marginals }

def runMD (bp : GM α → CliqueVec α → CliqueVec α) : Cfg α → GM α → List (Loss.Meas α) → Opts V → GM α :=
  fun c g ms _ => writeBack g (InfG.mirrorDescent (bp g) (lossOf c g ms) c.iters g.potentials g.total)

def runRDA (bp mle : GM α → CliqueVec α → CliqueVec α) (topEigs : List (Loss.Meas α) → List α) :
    Cfg α → GM α → List (Loss.Meas α) → Opts V → GM α :=
  fun c g ms _ => writeBack g (InfG.dualAveraging (bp g) (lossOf c g ms) (mle g) c.domain g.cliques c.structural_zeros c.iters
    g.potentials (InfG.lipschitz c.domain g.cliques ms (topEigs ms)) g.total)

def runIG (bp mle : GM α → CliqueVec α → CliqueVec α) (topEigs : List (Loss.Meas α) → List α) :
    Cfg α → GM α → List (Loss.Meas α) → Opts V → GM α :=
  fun c g ms _ => writeBack g (InfG.interiorGradient (bp g) (lossOf c g ms) (mle g) c.iters
    g.potentials (InfG.lipschitz c.domain g.cliques ms (topEigs ms)) g.total)

section shells
variable (gmC : Dom → List JT.Clique → Option (List Attr) → List JT.Clique) (estT : List (Loss.Meas α) → α)
  (bp mle : GM α → CliqueVec α → CliqueVec α) (topEigs : List (Loss.Meas α) → List α)

/-- `mirror_descent` = `_setup`, then py2inf's `mirrorDescent` on the fresh model -/
theorem gen_mirrorDescentShell :
    FactorsThrough (V := V) gmC estT (fun s ms t _ => mirrorDescentShell gmC estT bp s ms t) (runMD bp) := by
  intro s ms t o
  obtain ⟨⟨d, metric, lg, it, w, eo, z⟩, m, g⟩ := s
  simp only [mirrorDescentShell, setup_eq]
  cases metric <;> rfl

/-- `dual_averaging` = `_setup`, then py2inf's `dualAveraging` on the fresh model -/
theorem gen_dualAveragingShell :
    FactorsThrough (V := V) gmC estT (fun s ms t _ => dualAveragingShell gmC estT bp mle topEigs s ms t)
      (runRDA bp mle topEigs) := by
  intro s ms t o
  obtain ⟨⟨d, metric, lg, it, w, eo, z⟩, m, g⟩ := s
  simp only [dualAveragingShell, setup_eq]
  cases metric <;> rfl

/-- `interior_gradient` = `_setup`, then py2inf's `interiorGradient` on the fresh model -/
theorem gen_interiorGradientShell :
    FactorsThrough (V := V) gmC estT (fun s ms t _ => interiorGradientShell gmC estT bp mle topEigs s ms t)
      (runIG bp mle topEigs) := by
  intro s ms t o
  obtain ⟨⟨d, metric, lg, it, w, eo, z⟩, m, g⟩ := s
  simp only [interiorGradientShell, setup_eq]
  cases metric <;> rfl

end shells

/-! ### `estimate` is one step of the state machine -/

section est
variable (gmC : Dom → List JT.Clique → Option (List Attr) → List JT.Clique) (estT : List (Loss.Meas α) → α)
  (logger : V) (cbVal : Option Cb → V)
  (md rda ig : Est α → List (Loss.Meas α) → Option α → Opts V → Est α)
  (rMD rRDA rIG : Cfg α → GM α → List (Loss.Meas α) → Opts V → GM α)

/-- **`estimate` = `Engine.estimate`**: returned model, stored model, configuration, options dict -/
theorem gen_estimate (hmd : FactorsThrough gmC estT md rMD) (hrda : FactorsThrough gmC estT rda rRDA)
    (hig : FactorsThrough gmC estT ig rIG) (s : Est α) (a : Args α V Cb) (he : ValidEngine a.engine) :
    ((estimate logger cbVal md rda ig s a.measurements a.total a.engine a.callback a.options).2.2).map toModel
      = some (Engine.estimate (cfgOf s.cfg) (cliquesOfG gmC s.cfg) (buildG gmC estT logger cbVal rMD rRDA rIG s.cfg)
          (toState s) a).2 ∧
    toState (estimate logger cbVal md rda ig s a.measurements a.total a.engine a.callback a.options).1
      = (Engine.estimate (cfgOf s.cfg) (cliquesOfG gmC s.cfg) (buildG gmC estT logger cbVal rMD rRDA rIG s.cfg)
          (toState s) a).1 ∧
    (estimate logger cbVal md rda ig s a.measurements a.total a.engine a.callback a.options).1.cfg = s.cfg ∧
    (estimate logger cbVal md rda ig s a.measurements a.total a.engine a.callback a.options).2.1
      = optionsOf logger cbVal s.cfg.log a.callback a.options := by
  rw [estimate_eq gmC estT logger cbVal md rda ig rMD rRDA rIG hmd hrda hig s a he]
  exact ⟨rfl, rfl, rfl, rfl⟩

/-- C13 `cold_call_history_free`, for the generated step function -/
theorem gen_cold_call_history_free (hmd : FactorsThrough gmC estT md rMD) (hrda : FactorsThrough gmC estT rda rRDA)
    (hig : FactorsThrough gmC estT ig rIG) (s s' : Est α) (hc : s.cfg = s'.cfg) (hcold : s.cfg.warm_start = false)
    (a : Args α V Cb) (he : ValidEngine a.engine) :
    ((estimate logger cbVal md rda ig s a.measurements a.total a.engine a.callback a.options).2.2).map toModel
      = ((estimate logger cbVal md rda ig s' a.measurements a.total a.engine a.callback a.options).2.2).map toModel := by
  rw [(gen_estimate gmC estT logger cbVal md rda ig rMD rRDA rIG hmd hrda hig s a he).1,
    (gen_estimate gmC estT logger cbVal md rda ig rMD rRDA rIG hmd hrda hig s' a he).1, ← hc,
    C13.cold_call_history_free (cfgOf s.cfg) _ _ hcold (toState s) (toState s') a]

/-- C13 `warm_reads_only_potentials`, for the generated step function: of the stored state, a call reads only the
parameter vector of the stored model (and that only under warm start) -/
theorem gen_warm_reads_only_potentials (hmd : FactorsThrough gmC estT md rMD) (hrda : FactorsThrough gmC estT rda rRDA)
    (hig : FactorsThrough gmC estT ig rIG) (c : Cfg α) (m m' : GM α)
    (gr gr' : Option (List (JT.Clique × List (Loss.Meas α)))) (hp : m.potentials = m'.potentials)
    (a : Args α V Cb) (he : ValidEngine a.engine) :
    ((estimate logger cbVal md rda ig ⟨c, some m, gr⟩ a.measurements a.total a.engine a.callback a.options).2.2).map toModel
      = ((estimate logger cbVal md rda ig ⟨c, some m', gr'⟩ a.measurements a.total a.engine a.callback a.options).2.2).map
          toModel := by
  rw [(gen_estimate gmC estT logger cbVal md rda ig rMD rRDA rIG hmd hrda hig ⟨c, some m, gr⟩ a he).1,
    (gen_estimate gmC estT logger cbVal md rda ig rMD rRDA rIG hmd hrda hig ⟨c, some m', gr'⟩ a he).1]
  exact congrArg some (C13.warm_reads_only_potentials (cfgOf c) _ _ (toModel m) (toModel m') a hp)

/-- C13 `first_call_initial`, for the generated `_setup`: on a new estimator the parameters start from the structural
zeros alone, warm start or not -/
theorem gen_first_call_initial (c : Cfg α) (ms : List (Loss.Meas α)) (t : Option α) :
    (setup gmC estT ⟨c, none, none⟩ ms t).model.map (·.potentials)
      = some (CliqueVec.combine (CliqueVec.zerosV c.domain (modelCliques gmC c ms)) c.structural_zeros) := by
  rw [gen_setup]
  exact congrArg some (C13.first_call_initial (cfgOf c) (modelCliques gmC c ms))

/-- `cold_call_history_free` for the whole returned object and the whole new state -/
theorem gen_cold_call_history_free' (hmd : FactorsThrough gmC estT md rMD) (hrda : FactorsThrough gmC estT rda rRDA)
    (hig : FactorsThrough gmC estT ig rIG) (s s' : Est α) (hc : s.cfg = s'.cfg) (hcold : s.cfg.warm_start = false)
    (a : Args α V Cb) (he : ValidEngine a.engine) :
    estimate logger cbVal md rda ig s a.measurements a.total a.engine a.callback a.options
      = estimate logger cbVal md rda ig s' a.measurements a.total a.engine a.callback a.options := by
  rw [estimate_eq gmC estT logger cbVal md rda ig rMD rRDA rIG hmd hrda hig s a he,
    estimate_eq gmC estT logger cbVal md rda ig rMD rRDA rIG hmd hrda hig s' a he]
  have hθ : ∀ ms, theta0 gmC s ms = theta0 gmC s' ms := fun ms => by
    unfold theta0; rw [← hc]; exact initialTheta_cold _ _ _ _ hcold
  simp only [hθ, hc]

/-- `warm_reads_only_potentials` for the whole returned object and the whole new state -/
theorem gen_warm_reads_only_potentials' (hmd : FactorsThrough gmC estT md rMD) (hrda : FactorsThrough gmC estT rda rRDA)
    (hig : FactorsThrough gmC estT ig rIG) (c : Cfg α) (m m' : GM α)
    (gr gr' : Option (List (JT.Clique × List (Loss.Meas α)))) (hp : m.potentials = m'.potentials)
    (a : Args α V Cb) (he : ValidEngine a.engine) :
    estimate logger cbVal md rda ig ⟨c, some m, gr⟩ a.measurements a.total a.engine a.callback a.options
      = estimate logger cbVal md rda ig ⟨c, some m', gr'⟩ a.measurements a.total a.engine a.callback a.options := by
  rw [estimate_eq gmC estT logger cbVal md rda ig rMD rRDA rIG hmd hrda hig _ a he,
    estimate_eq gmC estT logger cbVal md rda ig rMD rRDA rIG hmd hrda hig _ a he]
  have hθ : ∀ ms, theta0 gmC (⟨c, some m, gr⟩ : Est α) ms = theta0 gmC ⟨c, some m', gr'⟩ ms := fun ms => by
    unfold theta0
    cases hw : c.warm_start <;> simp [Engine.initialTheta, cfgOf, toState, toModel, hw, hp]
  simp only [hθ]

/-! ### call histories, with the function's mutable default `options={}` -/

/-- one call as the caller writes it: `options` may be omitted -/
structure CallArgs (α V Cb : Type) where
  measurements : List (RawMeas α)
  total : Option α
  engine : String
  callback : Option Cb
  options : Option (Opts V)

/-- the arguments `estimate` sees when the default dict currently holds `d` -/
def CallArgs.toArgs (a : CallArgs α V Cb) (d : Opts V) : Args α V Cb :=
  ⟨a.measurements, a.total, a.engine, a.callback, a.options.getD d⟩

/-- the models returned along a history of calls on ONE estimator object, threading the estimator and the default dict -/
def runHistoryG : Opts V → Est α → List (CallArgs α V Cb) → List (Option (GM α))
  | _, _, [] => []
  | d, s, a :: as =>
    let r := estimateCall logger cbVal md rda ig d s a.measurements a.total a.engine a.callback a.options
    r.2.2 :: runHistoryG r.2.1 r.1 as

/-- what the default dict can hold: nothing (never used) or the single key `estimate` writes on every call -/
def DfltOK (d : Opts V) : Prop := d = [] ∨ ∃ v, d = [("callback", v)]

/-- **the mutable default is harmless**: whatever earlier calls left in the default dict, the options handed to the
solver are those of a pristine `{}`, because `estimate` overwrites the only key it ever writes -/
theorem gen_default_dict (lg : Bool) (cb : Option Cb) (d : Opts V) (hd : DfltOK d) :
    optionsOf logger cbVal lg cb d = optionsOf logger cbVal lg cb [] ∧ DfltOK (optionsOf logger cbVal lg cb d) := by
  rcases hd with rfl | ⟨v, rfl⟩ <;> cases cb <;> cases lg <;> simp [optionsOf, optSet, DfltOK]

theorem estimateCall_eq (d : Opts V) (s : Est α) (a : CallArgs α V Cb) :
    estimateCall logger cbVal md rda ig d s a.measurements a.total a.engine a.callback a.options =
      (let r := estimate logger cbVal md rda ig s (a.toArgs d).measurements (a.toArgs d).total (a.toArgs d).engine
          (a.toArgs d).callback (a.toArgs d).options
       (r.1, if a.options.isSome then d else r.2.1, r.2.2)) := by
  obtain ⟨ms, t, e, cb, o⟩ := a
  cases o <;> rfl

/-- **history-freeness of the generated code** (C13 `cold_history_free`): on an estimator configured without warm start,
the model returned by the k-th call is what a NEW estimator with the same configuration — and a pristine default dict —
returns for the same arguments, whatever calls came before -/
theorem gen_cold_history_free (hmd : FactorsThrough gmC estT md rMD) (hrda : FactorsThrough gmC estT rda rRDA)
    (hig : FactorsThrough gmC estT ig rIG) (s : Est α) (hcold : s.cfg.warm_start = false) (d : Opts V) (hd : DfltOK d)
    (hist : List (CallArgs α V Cb)) (hv : ∀ a ∈ hist, ValidEngine a.engine) :
    runHistoryG logger cbVal md rda ig d s hist
      = hist.map (fun a => (estimateCall logger cbVal md rda ig [] ⟨s.cfg, none, none⟩ a.measurements a.total a.engine
          a.callback a.options).2.2) := by
  induction hist generalizing s d with
  | nil => rfl
  | cons a as ih =>
    have hva : ValidEngine a.engine := hv a (List.mem_cons_self ..)
    have key : ∀ (d : Opts V) (s : Est α), estimateCall logger cbVal md rda ig d s a.measurements a.total a.engine
        a.callback a.options = (let ms := fixMeasurements s.cfg.domain a.measurements
          let g := resultGM gmC estT logger cbVal rMD rRDA rIG s.cfg (a.toArgs d) (theta0 gmC s ms)
          (⟨s.cfg, some g, some (InfG.setupGroups s.cfg.domain (modelCliques gmC s.cfg ms) ms)⟩,
            if a.options.isSome then d else optionsOf logger cbVal s.cfg.log a.callback (a.options.getD d), some g)) := by
      intro d s
      rw [estimateCall_eq, estimate_eq gmC estT logger cbVal md rda ig rMD rRDA rIG hmd hrda hig s (a.toArgs d) hva]
      rfl
    have hres : ∀ θ, resultGM gmC estT logger cbVal rMD rRDA rIG s.cfg (a.toArgs d) θ
        = resultGM gmC estT logger cbVal rMD rRDA rIG s.cfg (a.toArgs []) θ := by
      intro θ
      obtain ⟨ms, t, e, cb, o⟩ := a
      cases o with
      | some o => rfl
      | none =>
        simp only [resultGM, CallArgs.toArgs, Option.getD_none]
        rw [(gen_default_dict logger cbVal s.cfg.log cb d hd).1]
    simp only [runHistoryG, List.map_cons, key]
    congr 1
    · have hθ : ∀ ms, theta0 gmC s ms = theta0 gmC ⟨s.cfg, none, none⟩ ms := fun ms =>
        initialTheta_cold _ _ _ _ hcold
      simp only [hres, hθ]
    · have hd' : DfltOK (if a.options.isSome = true then d
          else optionsOf logger cbVal s.cfg.log a.callback (a.options.getD d)) := by
        cases ho : a.options with
        | some o => simpa using hd
        | none => simpa using (gen_default_dict logger cbVal s.cfg.log a.callback d hd).2
      apply ih
      · exact hcold
      · exact hd'
      · exact fun b hb => hv b (List.mem_cons_of_mem _ hb)

end est

/-! ### where source and state machine differ: an engine name that is none of the three -/

/-- with an unknown engine name `estimate` runs nothing and hands back the stored model of the previous call (on a new
estimator: `none`, i.e. AttributeError) — this input is outside `ValidEngine` -/
theorem invalid_engine_returns_stale_model (logger : V) (cbVal : Option Cb → V)
    (md rda ig : Est α → List (Loss.Meas α) → Option α → Opts V → Est α) (s : Est α) (ms : List (RawMeas α))
    (t : Option α) (cb : Option Cb) (o : Opts V) :
    (estimate logger cbVal md rda ig s ms t "XX" cb o).2.2 = s.model ∧
    (estimate logger cbVal md rda ig s ms t "XX" cb o).1 = s := by
  constructor <;> rfl

/-! ### the hypotheses are satisfiable: the generated solver shells, a two-call history -/

example : ValidEngine "RDA" := Or.inr (Or.inl rfl)
example : DfltOK ([] : Opts Nat) := Or.inl rfl
example : DfltOK (optionsOf (V := Nat) (Cb := Nat) 7 (fun _ => 0) true none []) :=
  (gen_default_dict 7 (fun _ => 0) true none [] (Or.inl rfl)).2

/-- the whole chain for the generated shells: a cold estimator, any history of MD / RDA / IG calls -/
theorem gen_cold_history_free_shells (gmC : Dom → List JT.Clique → Option (List Attr) → List JT.Clique)
    (estT : List (Loss.Meas α) → α) (bp mle : GM α → CliqueVec α → CliqueVec α)
    (topEigs : List (Loss.Meas α) → List α) (logger : V) (cbVal : Option Cb → V)
    (s : Est α) (hcold : s.cfg.warm_start = false) (hist : List (CallArgs α V Cb))
    (hv : ∀ a ∈ hist, ValidEngine a.engine) :
    runHistoryG logger cbVal (fun s ms t _ => mirrorDescentShell gmC estT bp s ms t)
        (fun s ms t _ => dualAveragingShell gmC estT bp mle topEigs s ms t)
        (fun s ms t _ => interiorGradientShell gmC estT bp mle topEigs s ms t) [] s hist
      = hist.map (fun a => (estimateCall logger cbVal (fun s ms t _ => mirrorDescentShell gmC estT bp s ms t)
        (fun s ms t _ => dualAveragingShell gmC estT bp mle topEigs s ms t)
        (fun s ms t _ => interiorGradientShell gmC estT bp mle topEigs s ms t) [] ⟨s.cfg, none, none⟩
        a.measurements a.total a.engine a.callback a.options).2.2) :=
  gen_cold_history_free gmC estT logger cbVal _ _ _ _ _ _ (gen_mirrorDescentShell gmC estT bp)
    (gen_dualAveragingShell gmC estT bp mle topEigs) (gen_interiorGradientShell gmC estT bp mle topEigs)
    s hcold [] (Or.inl rfl) hist hv

end PGM.C13G
