import PGM.Proofs.PublicSem
import PGM.Proofs.PublicLyap
/-!
# C19 — public-data reweighting yields valid weights and never a worse fit

Theorems about `PGM/Model/Public.lean` (entropic mirror descent of `public_inference.py`, transcribed
as written — the gradient is centred at the top of the loop body, and the acceptance test uses the
*stale* starting point `P₀`), at the real-number instance.  The squared-error objective as a function
of the record weights is the quadratic `Cert.loss` with `A = (1/σ)·Q·Inc`; `Cert.fw_gap_bound`'s
first-order convexity (C03) pins `dweights` as its gradient.  Nothing below assumes anything about
the objective beyond "one gradient entry per weight" (`GradLen`).

* `emd_weights_valid`, `emd_zero_iters` — the output is a positive weight vector of the right mass.
* `center_dot_invariant`, `center_step_invariant`, `center_idem` — the centring `dL − mean(dL)`
  changes neither the proposed point nor the acceptance test.
* `emd_step_loss_consistent`, `emd_step_alpha_pos` — loop invariants: stored loss = objective at the
  stored point, stored gradient = gradient there up to centring, step size positive.
* `emd_step_descent` — per-step descent, CONDITIONAL on a nonnegative threshold; and
  `emd_step_may_increase` — an actual run in which an accepted step increases the loss.
* **`emd_lyapunov_step`** — `loss + ½·KL(P₀ ‖ P)` never increases in an iteration (any `α`, any
  objective): the stale `P₀` in the test is exactly what makes this a Lyapunov function.
* **`emd_never_worse_than_start`** — PROVED, unconditional: for every objective, positive start,
  total and iteration count the returned weights fit at least as well as the starting point
  `P₀ = x0·total/Σx0`.  (Formerly only checked per run.)
-/
namespace PGM.C19
open PGM PGM.Public

/-- **valid weights**: for every objective, every positive starting weights, every total > 0 and
every iteration count (0 included), the output has one weight per record, each strictly positive,
and they sum to the total (`eps0 = 0`: the `nextafter(0,1)` guard only matters for zero weights) -/
theorem emd_weights_valid (lossgrad : List ℝ → ℝ × List ℝ) (x0 : List ℝ) (total : ℝ) (iters : Nat)
    (hg : GradLen lossgrad) (hx : ∀ x ∈ x0, 0 < x) (hne : x0 ≠ []) (ht : 0 < total) :
    (emd lossgrad x0 total 0 iters).length = x0.length ∧
    (∀ w ∈ emd lossgrad x0 total 0 iters, 0 < w) ∧
    (emd lossgrad x0 total 0 iters).sum = total := by
  apply Public.emd_weights_valid <;> assumption

/-- with zero iterations the weights are the rescaled starting weights -/
theorem emd_zero_iters (lossgrad : List ℝ → ℝ × List ℝ) (x0 : List ℝ) (total : ℝ)
    (hx : ∀ x ∈ x0, 0 < x) (hne : x0 ≠ []) (ht : 0 < total) :
    emd lossgrad x0 total 0 0 = x0.map (fun x => x * total / x0.sum) := by
  apply Public.emd_zero_iters <;> assumption

/-- hypotheses of `emd_weights_valid` / `emd_never_worse_than_start` are satisfiable -/
example : GradLen exLG ∧ (∀ x ∈ ([1, 1] : List ℝ), 0 < x) ∧ ([1, 1] : List ℝ) ≠ [] ∧ (0 : ℝ) < 2 :=
  ⟨exLG_gradlen, by simp, by simp, by norm_num⟩

/-- **centring does not change the test**: for `d, x, y` of equal length with `Σx = Σy`,
`⟨center d, x − y⟩ = ⟨d, x − y⟩` -/
theorem center_dot_invariant (d x y : List ℝ) (h1 : d.length = x.length) (h2 : x.length = y.length)
    (hs : x.sum = y.sum) :
    dotv (center d) (List.zipWith (· - ·) x y) = dotv d (List.zipWith (· - ·) x y) := by
  apply Public.center_dot_invariant <;> assumption

example : ([1, 2, 6] : List ℝ).length = ([1, 2, 3] : List ℝ).length ∧
    ([1, 2, 3] : List ℝ).length = ([3, 2, 1] : List ℝ).length ∧
    ([1, 2, 3] : List ℝ).sum = ([3, 2, 1] : List ℝ).sum := by
  refine ⟨rfl, rfl, ?_⟩; norm_num

/-- **centring does not change the step**: the proposed `logQ` of `emdStep` (computed from
`center s.dL`) equals the normalised tilt computed from `s.dL` itself -/
theorem center_step_invariant (total : ℝ) (s : EmdState ℝ) :
    let logQ0c := List.zipWith (fun lp d => lp - s.alpha * d) s.logP (center s.dL)
    let logQ0 := List.zipWith (fun lp d => lp - s.alpha * d) s.logP s.dL
    logQ0c.map (fun v => v + (Real.log total - Real.log ((logQ0c.map Real.exp).sum)))
      = logQ0.map (fun v => v + (Real.log total - Real.log ((logQ0.map Real.exp).sum))) :=
  Public.center_step_invariant total s

/-- `center` is idempotent -/
theorem center_idem (d : List ℝ) : center (center d) = center d := Public.center_idem d

/-- **conditional descent (as written)**: one iteration never increases the stored loss when the
acceptance threshold `½·α·⟨dL, P₀ − Q⟩` (centred gradient, *stale* `P₀`) is nonnegative; when it is
negative an increase can be accepted — see `emd_step_may_increase` -/
theorem emd_step_descent (lossgrad : List ℝ → ℝ × List ℝ) (total : ℝ) (P0 : List ℝ) (s : EmdState ℝ) :
    let dL := center s.dL
    let logQ0 := List.zipWith (fun lp d => lp - s.alpha * d) s.logP dL
    let shift := Real.log total - Real.log ((logQ0.map Real.exp).sum)
    let Q := (logQ0.map (fun v => v + shift)).map Real.exp
    0 ≤ (1 / 2 : ℝ) * s.alpha * dotv dL (List.zipWith (· - ·) P0 Q) →
    (emdStep lossgrad total P0 s).loss ≤ s.loss :=
  Public.emd_step_descent lossgrad total P0 s

/-- the threshold hypothesis of `emd_step_descent` holds e.g. at the first step of the example run
(`thr = (15/17)·log 4 ≥ 0`) -/
example : 0 ≤ thr 2 [1, 1] exS0 := by
  rw [exThr1]
  have := Real.log_nonneg (show (1 : ℝ) ≤ 4 by norm_num)
  positivity

/-- the stored loss is always the objective at the stored point, and the stored gradient is the
gradient there up to centring (a rejected step stores the centred gradient) -/
theorem emd_step_loss_consistent (lossgrad : List ℝ → ℝ × List ℝ) (total : ℝ) (P0 : List ℝ) (s : EmdState ℝ)
    (h : s.loss = (lossgrad (s.logP.map Real.exp)).1 ∧
      center s.dL = center (lossgrad (s.logP.map Real.exp)).2) :
    (emdStep lossgrad total P0 s).loss = (lossgrad ((emdStep lossgrad total P0 s).logP.map Real.exp)).1 ∧
    center (emdStep lossgrad total P0 s).dL
      = center (lossgrad ((emdStep lossgrad total P0 s).logP.map Real.exp)).2 :=
  Public.emd_step_loss_consistent lossgrad total P0 s h

example : exS1.loss = (exLG (exS1.logP.map Real.exp)).1 ∧
    center exS1.dL = center (exLG (exS1.logP.map Real.exp)).2 := by
  rw [exS1_exp, exLG_b]; exact ⟨rfl, rfl⟩

/-- the step size stays positive (it starts at 1 and is only doubled or halved) — not needed by the
Lyapunov step, which holds for every `α` -/
theorem emd_step_alpha_pos (lossgrad : List ℝ → ℝ × List ℝ) (total : ℝ) (P0 : List ℝ) (s : EmdState ℝ)
    (h : 0 < s.alpha) : 0 < (emdStep lossgrad total P0 s).alpha :=
  Public.emd_step_alpha_pos lossgrad total P0 s h

/-- **Gibbs**: `KL(P₀ ‖ exp logP) = Σ P₀ᵢ (log P₀ᵢ − logPᵢ) ≥ 0` for nonnegative `P₀` of the same
mass (`klDiv p q = Σ pᵢ (log pᵢ − log qᵢ)`) -/
theorem klDiv_nonneg (P0 lp : List ℝ) (hl : P0.length = lp.length) (hp : ∀ x ∈ P0, 0 ≤ x)
    (hm : P0.sum = (lp.map Real.exp).sum) : 0 ≤ klDiv P0 (lp.map Real.exp) :=
  Public.klDiv_nonneg P0 lp hl hp hm

/-- **Lyapunov step**: with `Φ(s) = s.loss + ½·KL(P₀ ‖ exp s.logP)`, one iteration never increases
`Φ` — for every objective, every step size `α` (no sign condition), every state whose stored point
`exp s.logP` has the mass `total` of `P₀` (shapes matching; no positivity of `P₀` is needed here) -/
theorem emd_lyapunov_step (lossgrad : List ℝ → ℝ × List ℝ) (total : ℝ) (P0 : List ℝ) (s : EmdState ℝ)
    (hl1 : P0.length = s.logP.length) (hl2 : s.dL.length = s.logP.length)
    (hm : (s.logP.map Real.exp).sum = total) (hp0 : P0.sum = total) :
    (emdStep lossgrad total P0 s).loss
        + (1 / 2 : ℝ) * klDiv P0 ((emdStep lossgrad total P0 s).logP.map Real.exp)
      ≤ s.loss + (1 / 2 : ℝ) * klDiv P0 (s.logP.map Real.exp) :=
  Public.emd_lyapunov_step lossgrad total P0 s hl1 hl2 hm hp0

/-- the hypotheses hold at the state of the example run from which the loss goes UP (0 → 1/4) while
`Φ` goes down -/
example : ([1, 1] : List ℝ).length = exS1.logP.length ∧ exS1.dL.length = exS1.logP.length ∧
    (exS1.logP.map Real.exp).sum = 2 ∧ ([1, 1] : List ℝ).sum = 2 := by
  refine ⟨(logQ_length 2 exS0 2 rfl rfl).symm, (logQ_length 2 exS0 2 rfl rfl).symm, ?_, ?_⟩
  · rw [exS1_exp]; norm_num
  · norm_num

/-- **never worse than the start** (unconditional): for every objective, every positive starting
weights, every total > 0 and EVERY iteration count, the objective at the returned weights is at most
the objective at the starting point `P₀ = x0·total/Σx0` — although single accepted steps may
increase it (`emd_step_may_increase`) -/
theorem emd_never_worse_than_start (lossgrad : List ℝ → ℝ × List ℝ) (x0 : List ℝ) (total : ℝ)
    (iters : Nat) (hg : GradLen lossgrad) (hx : ∀ x ∈ x0, 0 < x) (hne : x0 ≠ []) (ht : 0 < total) :
    (lossgrad (emd lossgrad x0 total 0 iters)).1
      ≤ (lossgrad (x0.map (fun x => x * total / x0.sum))).1 := by
  apply Public.emd_never_worse_than_start <;> assumption

/-- the example run, explicitly: weights after 0, 1, 2 iterations (losses 3, 0, 1/4) -/
theorem emd_example_run :
    emd exLG [1, 1] 2 0 0 = [1, 1] ∧ emd exLG [1, 1] 2 0 1 = [2 / 17, 32 / 17] ∧
    emd exLG [1, 1] 2 0 2 = [2 / 5, 8 / 5] ∧
    (exLG [1, 1]).1 = 3 ∧ (exLG [2 / 17, 32 / 17]).1 = 0 ∧ (exLG [2 / 5, 8 / 5]).1 = 1 / 4 :=
  ⟨Public.emd_example_run.1, Public.emd_example_run.2.1, Public.emd_example_run.2.2,
    by rw [exLG_a], by rw [exLG_b], by rw [exLG_c]⟩

/-- **an accepted step can increase the loss**: there is an objective (one gradient entry per
weight), positive starting weights and a total for which the objective after two iterations is
strictly larger than after one — so `emd_never_worse_than_start` is not a consequence of per-step
descent -/
theorem emd_step_may_increase :
    ∃ (lossgrad : List ℝ → ℝ × List ℝ) (x0 : List ℝ) (total : ℝ),
      GradLen lossgrad ∧ (∀ x ∈ x0, 0 < x) ∧ x0 ≠ [] ∧ 0 < total ∧
      (lossgrad (emd lossgrad x0 total 0 1)).1 < (lossgrad (emd lossgrad x0 total 0 2)).1 :=
  Public.emd_step_may_increase

/-- the same at the level of one step: a state satisfying every loop invariant (shape, mass, stored
loss and gradient consistent, positive step size) from which `emdStep` accepts (the point moves) and
the stored loss strictly increases -/
theorem emd_step_may_increase_state :
    ∃ (lossgrad : List ℝ → ℝ × List ℝ) (total : ℝ) (P0 : List ℝ) (s : EmdState ℝ),
      GradLen lossgrad ∧
      (s.logP.length = P0.length ∧ s.dL.length = P0.length ∧ (s.logP.map Real.exp).sum = total) ∧
      P0.sum = total ∧ (∀ x ∈ P0, 0 < x) ∧
      (s.loss = (lossgrad (s.logP.map Real.exp)).1 ∧
        center s.dL = center (lossgrad (s.logP.map Real.exp)).2) ∧
      0 < s.alpha ∧
      (emdStep lossgrad total P0 s).logP.map Real.exp ≠ s.logP.map Real.exp ∧
      s.loss < (emdStep lossgrad total P0 s).loss :=
  Public.emd_step_may_increase_state

end PGM.C19
