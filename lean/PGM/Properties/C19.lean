import PGM.Proofs.PublicSem
/-!
# C19 — public-data reweighting yields valid weights and never a worse fit

Theorems about `PGM/Model/Public.lean` (entropic mirror descent of `public_inference.py`, transcribed
as written — the acceptance test uses the *stale* starting point `P₀`), at the real-number instance.
The squared-error objective as a function of the record weights is the quadratic `Cert.loss` with
`A = (1/σ)·Q·Inc`; `Cert.fw_gap_bound`'s first-order convexity (C03) pins `dweights` as its gradient.
-/
namespace PGM.C19
open PGM PGM.Public

/-- **valid weights**: for every objective, every positive starting weights, every total > 0 and
every iteration count (0 included), the output has one weight per record, each strictly positive,
and they sum to the total (`eps0 = 0`: the `nextafter(0,1)` guard only matters for zero weights) -/
theorem emd_weights_valid (lossgrad : List ℝ → ℝ × List ℝ) (x0 : List ℝ) (total : ℝ) (iters : Nat)
    (hg : GradLen lossgrad) (hx : ∀ x ∈ x0, 0 < x) (hne : x0 ≠ []) (ht : 0 < total) :
    (emd lossgrad x0 total 0 iters).length = x0.length ∧
    (∀ w ∈ emd lossgrad x0 total 0 iters, 0 < w) ∧
    (emd lossgrad x0 total 0 iters).sum = total := by
  apply Public.emd_weights_valid <;> assumption

/-- with zero iterations the weights are the rescaled starting weights -/
theorem emd_zero_iters (lossgrad : List ℝ → ℝ × List ℝ) (x0 : List ℝ) (total : ℝ)
    (hx : ∀ x ∈ x0, 0 < x) (hne : x0 ≠ []) (ht : 0 < total) :
    emd lossgrad x0 total 0 0 = x0.map (fun x => x * total / x0.sum) := by
  apply Public.emd_zero_iters <;> assumption

/-- **conditional descent (as written)**: one iteration never increases the stored loss when the
acceptance threshold `½·α·⟨dL, P₀ − Q⟩` (computed with the *stale* `P₀`) is nonnegative; when it is
negative an increase can be accepted — the unconditional "never worse than uniform" is therefore
not derivable from the acceptance rule and is checked per run -/
theorem emd_step_descent (lossgrad : List ℝ → ℝ × List ℝ) (total : ℝ) (P0 : List ℝ) (s : EmdState ℝ) :
    let logQ0 := List.zipWith (fun lp d => lp - s.alpha * d) s.logP s.dL
    let shift := Real.log total - Real.log ((logQ0.map Real.exp).sum)
    let Q := (logQ0.map (fun v => v + shift)).map Real.exp
    0 ≤ (1 / 2 : ℝ) * s.alpha * dotv s.dL (List.zipWith (· - ·) P0 Q) →
    (emdStep lossgrad total P0 s).loss ≤ s.loss := by
  apply Public.emd_step_descent <;> assumption

/-- the stored loss is always the objective at the stored point -/
theorem emd_step_loss_consistent (lossgrad : List ℝ → ℝ × List ℝ) (total : ℝ) (P0 : List ℝ) (s : EmdState ℝ)
    (h : s.loss = (lossgrad (s.logP.map Real.exp)).1 ∧ s.dL = (lossgrad (s.logP.map Real.exp)).2) :
    (emdStep lossgrad total P0 s).loss = (lossgrad ((emdStep lossgrad total P0 s).logP.map Real.exp)).1 ∧
    (emdStep lossgrad total P0 s).dL = (lossgrad ((emdStep lossgrad total P0 s).logP.map Real.exp)).2 := by
  apply Public.emd_step_loss_consistent <;> assumption

end PGM.C19
