import PGM.Model.Public
namespace PGM.C19
end PGM.C19
