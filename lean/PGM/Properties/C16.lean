import PGM.Model.RegionGraph
import PGM.Model.FactorGraph
/-! C16 — Approximate marginal oracles are normalised, and exact on acyclic structures.
Statements and proofs to be added; the executable model is `PGM.RG` / `PGM.FG`. -/
namespace PGM.C16
end PGM.C16
