import PGM.Proofs.OracleSem
import PGM.Proofs.ExactDisjoint
import PGM.Proofs.LbpTree
/-!
# C16 — approximate marginal oracles are normalised, and exact on acyclic structures

Models: `PGM/Model/RegionGraph.lean` (`build_graph`, `generalized_belief_propagation`) and
`PGM/Model/FactorGraph.lean` (`loopy_belief_propagation`), generic over the scalar; the theorems
are for the real-number instance (exact arithmetic: no overflow, `log`/`exp` are `Real.log`/`Real.exp`).

* **normalisation** — for *every* region graph / clique list, potential vector, total `T > 0`, sweep
  count and persisted message state, every returned table is `normalise T (belief)`
  (`*_tables_normalised`), and `normalise T b` has strictly positive entries `T·softmax(b)` summing to `T`
  (`normalise_valid`, `normalise_entry`); with hypotheses on the *inputs* only (no attribute of size 0, clique
  potentials non-empty) every returned table is such a valid table (`*_tables_valid_init`, `*_tables_valid_pos`
  for warm messages).  In floating point the messages of `generalized_belief_propagation` can diverge
  (overflow to `inf`/`nan`): that is outside the real-number model and recorded as known findings.
* **exactness** — proved for the acyclic structures in which nothing is shared (pairwise disjoint cliques,
  a forest of isolated nodes): the region graph has no edges and both oracles return `normalise T θ_c`,
  the marginal of the product model, for every sweep count including 0 (`gbp_disjoint`, `lbp_disjoint`,
  `oracles_agree_disjoint`, `disjoint_oracle_exact`), and for **loopy propagation on every tree-structured
  factor graph** once the sweep count exceeds the height of the forest (`lbp_exact_on_forest`,
  `lbp_exact_of_elim`: `2·#cliques` sweeps always suffice; chains and stars need 1 or 2).  For generalised
  propagation on junction-tree-structured clique sets exactness is **tested per input** against brute-force
  marginals (`partial`; see DESIGN.md#c16): with damping 1/2 the GBP messages approach their fixed point
  geometrically, so "exact after enough sweeps" is a limit statement there.
-/
namespace PGM.C16
open PGM PGM.JT PGM.Oracle PGM.Sem PGM.ExactDisjoint PGM.LbpTree

/-- **the common last step** `belief += log(total) − logsumexp(belief); exp` produces a valid table
for every finite belief table and every total > 0 -/
theorem normalise_valid (T : ℝ) (b : Factor ℝ) (hT : 0 < T) (hne : b.vals.data.size ≠ 0) :
    ValidTable T (RG.normalise T b) ∧ (RG.normalise T b).dom = b.dom ∧
    (RG.normalise T b).vals.data.size = b.vals.data.size :=
  PGM.Oracle.normalise_valid T b hT hne

/-- each entry is `T · softmax(b)` -/
theorem normalise_entry (T : ℝ) (b : Factor ℝ) (hT : 0 < T) (i : Nat) (hi : i < b.vals.data.size) :
    (RG.normalise T b).vals.data[i]? =
      some (T * Real.exp (b.vals.data[i]'hi) / ((b.vals.data.toList.map Real.exp).sum)) :=
  PGM.Oracle.normalise_entry T b hT i hi

/-- **region-graph propagation returns normalised tables**: for every region graph (whatever its
structure), every potential vector, every total, every sweep count and every state of the
persisted messages, each returned table is `normalise total (some belief)` -/
theorem gbp_tables_normalised (dom : Dom) (g : RG.Graph) (pots : CliqueVec ℝ) (T : ℝ) (iters : Nat)
    (msgs : RG.Msgs ℝ) (p : Clique × Factor ℝ) (hp : p ∈ (RG.gbp dom g pots T iters msgs).1) :
    ∃ b : Factor ℝ, p.2 = RG.normalise T b :=
  PGM.Oracle.gbp_tables_normalised dom g pots T iters msgs p hp

theorem gbp_keys (dom : Dom) (g : RG.Graph) (pots : CliqueVec ℝ) (T : ℝ) (iters : Nat) (msgs : RG.Msgs ℝ)
    (hnd : g.cliques.Nodup) :
    (RG.gbp dom g pots T iters msgs).1.map Prod.fst = g.cliques :=
  PGM.Oracle.gbp_keys dom g pots T iters msgs hnd

/-- the table of a clique of the graph is the normalised belief of that clique -/
theorem gbp_get (dom : Dom) (g : RG.Graph) (pots : CliqueVec ℝ) (T : ℝ) (iters : Nat) (msgs : RG.Msgs ℝ)
    (c : Clique) (hc : c ∈ g.cliques) :
    (RG.gbp dom g pots T iters msgs).1.get c = RG.normalise T (gbpBelief dom g pots iters msgs c) :=
  PGM.Oracle.gbp_get dom g pots T iters msgs c hc

/-- **generalised propagation returns valid tables**: if no domain involved has an attribute of
extent 0 and the potentials of the model cliques are non-empty, every returned table has strictly
positive entries summing to `T` -/
theorem gbp_tables_valid_pos (dom : Dom) (g : RG.Graph) (pots : CliqueVec ℝ) (T : ℝ) (iters : Nat)
    (msgs : RG.Msgs ℝ) (hT : 0 < T)
    (hpot : ∀ e ∈ g.messageOrder, PosDom (RG.potOf dom g pots e.1).dom)
    (hcl : ∀ r ∈ g.cliques, PosDom (pots.get r).dom ∧ (pots.get r).vals.data.size ≠ 0)
    (hm : PosMsgs msgs)
    (p : Clique × Factor ℝ) (hp : p ∈ (RG.gbp dom g pots T iters msgs).1) : ValidTable T p.2 :=
  PGM.Oracle.gbp_tables_valid_pos dom g pots T iters msgs hT hpot hcl hm p hp

/-- the same from the initial messages, with hypotheses on the inputs only: every size in `dom` is
non-zero, the regions on the message schedule use attributes of `dom`, the clique potentials are
non-empty tables over domains without extent 0 -/
theorem gbp_tables_valid_init (dom : Dom) (g : RG.Graph) (pots : CliqueVec ℝ) (T : ℝ) (iters : Nat)
    (hT : 0 < T) (hdom : PosDom dom)
    (hord : ∀ e ∈ g.messageOrder, (∀ a ∈ e.1, a ∈ dom.attrs) ∧ (∀ a ∈ e.2, a ∈ dom.attrs))
    (hcl : ∀ r ∈ g.cliques, PosDom (pots.get r).dom ∧ (pots.get r).vals.data.size ≠ 0)
    (p : Clique × Factor ℝ)
    (hp : p ∈ (RG.gbp dom g pots T iters (RG.initMessages dom g.messageOrder)).1) : ValidTable T p.2 :=
  PGM.Oracle.gbp_tables_valid_init dom g pots T iters hT hdom hord hcl p hp

theorem lbp_tables_normalised (dom : Dom) (cliques : List Clique) (pots : CliqueVec ℝ) (T : ℝ)
    (iters : Nat) (s : FG.State ℝ) (p : Clique × Factor ℝ) (hp : p ∈ (FG.lbp dom cliques pots T iters s).1) :
    ∃ b : Factor ℝ, p.2 = RG.normalise T b :=
  PGM.Oracle.lbp_tables_normalised dom cliques pots T iters s p hp

theorem lbp_keys (dom : Dom) (cliques : List Clique) (pots : CliqueVec ℝ) (T : ℝ) (iters : Nat)
    (s : FG.State ℝ) (hnd : cliques.Nodup) :
    (FG.lbp dom cliques pots T iters s).1.map Prod.fst = cliques :=
  PGM.Oracle.lbp_keys dom cliques pots T iters s hnd

/-- **loopy propagation returns valid tables** -/
theorem lbp_tables_valid_pos (dom : Dom) (cliques : List Clique) (pots : CliqueVec ℝ) (T : ℝ)
    (iters : Nat) (s : FG.State ℝ) (hT : 0 < T)
    (hcl : ∀ cl ∈ cliques, PosDom (pots.get cl).dom ∧ (pots.get cl).vals.data.size ≠ 0)
    (hs : PosState s)
    (p : Clique × Factor ℝ) (hp : p ∈ (FG.lbp dom cliques pots T iters s).1) : ValidTable T p.2 :=
  PGM.Oracle.lbp_tables_valid_pos dom cliques pots T iters s hT hcl hs p hp

theorem lbp_tables_valid_init (dom : Dom) (cliques : List Clique) (pots : CliqueVec ℝ) (T : ℝ)
    (iters : Nat) (hT : 0 < T) (hdom : PosDom dom)
    (hsub : ∀ cl ∈ cliques, ∀ v ∈ cl, v ∈ dom.attrs)
    (hcl : ∀ cl ∈ cliques, PosDom (pots.get cl).dom ∧ (pots.get cl).vals.data.size ≠ 0)
    (p : Clique × Factor ℝ)
    (hp : p ∈ (FG.lbp dom cliques pots T iters (FG.initMessages dom cliques)).1) : ValidTable T p.2 :=
  PGM.Oracle.lbp_tables_valid_init dom cliques pots T iters hT hdom hsub hcl p hp

theorem gbp_disjoint (dom : Dom) (cliques : List Clique) (pots : CliqueVec ℝ) (T : ℝ) (iters : Nat)
    (hd : Disjoint cliques) (hnd : cliques.Nodup) (hne : ∀ c ∈ cliques, c ≠ [])
    (c : Clique) (hc : c ∈ cliques) :
    let g := RG.build cliques false true
    ((RG.gbp dom g pots T iters (RG.initMessages dom g.messageOrder)).1.get c).datavector
      = (RG.normalise T (pots.get c)).datavector :=
  PGM.Oracle.gbp_disjoint dom cliques pots T iters hd hnd hne c hc

/-- **when nothing is relaxed the oracles coincide**: for pairwise disjoint cliques the region graph
has no edges, and generalised propagation returns `normalise total (potential)` on every clique,
for every sweep count and message state -/
theorem gbp_disjoint_msgs (dom : Dom) (cliques : List Clique) (pots : CliqueVec ℝ) (T : ℝ) (iters : Nat)
    (msgs : RG.Msgs ℝ)
    (hd : Disjoint cliques) (hnd : cliques.Nodup) (hne : ∀ c ∈ cliques, c ≠ [])
    (c : Clique) (hc : c ∈ cliques) :
    ((RG.gbp dom (RG.build cliques false true) pots T iters msgs).1.get c).datavector
      = (RG.normalise T (pots.get c)).datavector :=
  PGM.Oracle.gbp_disjoint_msgs dom cliques pots T iters msgs hd hnd hne c hc

theorem lbp_disjoint (dom : Dom) (cliques : List Clique) (pots : CliqueVec ℝ) (T : ℝ) (iters : Nat)
    (hd : Disjoint cliques) (hnd : cliques.Nodup) (htup : ∀ cl ∈ cliques, cl.Nodup)
    (hpot : ∀ cl ∈ cliques, (pots.get cl).WF ∧ (pots.get cl).dom = dom.project cl)
    (c : Clique) (hc : c ∈ cliques) :
    ((FG.lbp dom cliques pots T iters (FG.initMessages dom cliques)).1.get c).datavector
      = (RG.normalise T (pots.get c)).datavector :=
  PGM.Oracle.lbp_disjoint dom cliques pots T iters hd hnd htup hpot c hc

/-- all three oracles agree on a disjoint family -/
theorem oracles_agree_disjoint (dom : Dom) (cliques : List Clique) (pots : CliqueVec ℝ) (T : ℝ)
    (i1 i2 i3 : Nat) (rho conv : ℝ) (hi : 0 < i2)
    (hd : Disjoint cliques) (hnd : cliques.Nodup) (hne : ∀ c ∈ cliques, c ≠ [])
    (htup : ∀ cl ∈ cliques, cl.Nodup)
    (hpot : ∀ cl ∈ cliques, (pots.get cl).WF ∧ (pots.get cl).dom = dom.project cl)
    (c : Clique) (hc : c ∈ cliques) :
    let g1 := RG.build cliques false true
    let g2 := RG.build cliques true true
    ((RG.gbp dom g1 pots T i1 (RG.initMessages dom g1.messageOrder)).1.get c).datavector =
      ((RG.hps dom g2 (fun _ => 1) pots T i2 rho conv (RG.initMessages dom g2.messageOrder)).1.get c).datavector ∧
    ((RG.gbp dom g1 pots T i1 (RG.initMessages dom g1.messageOrder)).1.get c).datavector =
      ((FG.lbp dom cliques pots T i3 (FG.initMessages dom cliques)).1.get c).datavector :=
  PGM.Oracle.oracles_agree_disjoint dom cliques pots T i1 i2 i3 rho conv hi hd hnd hne htup hpot c hc

/-- without the hypothesis on the potentials `lbp_disjoint` fails: an absent potential is the scalar
table `zeros []`, and the belief `zeros [] + (message over [a])` has 2 cells instead of 1 -/
theorem lbp_disjoint_needs_pots :
    ¬ (∀ (dom : Dom) (cliques : List Clique) (pots : CliqueVec ℝ) (T : ℝ) (iters : Nat),
        Disjoint cliques → cliques.Nodup → (∀ cl ∈ cliques, cl.Nodup) → ∀ c ∈ cliques,
        ((FG.lbp dom cliques pots T iters (FG.initMessages dom cliques)).1.get c).datavector
          = (RG.normalise T (pots.get c)).datavector) :=
  PGM.Oracle.lbp_disjoint_needs_pots 

/-! **exactness on disjoint families, semantically**: every cell of every table returned by GBP (any sweep count, any warm
messages), HPS and LBP is `T · marginal / Z` of the product model `∏_c exp θ_c` (the brute-force semantics of C01) -/
/-- **on a disjoint family nothing is relaxed**: generalised belief propagation (any number of
sweeps, any message state), the convex Hazan–Peng–Shashua oracle (any positive number of sweeps,
any damping / tolerance / message state) and loopy belief propagation (any number of sweeps) each
return, on every clique `c` and at every valid assignment `σ`, exactly
`T · marginal(σ) / Z` of the product model `∏_c exp θ_c` -/
theorem disjoint_oracle_exact (d : Dom) (cliques : List Clique) (pots : CliqueVec ℝ)
    (h : OracleOK d cliques pots) (T : ℝ) (hT : 0 < T)
    (i₁ i₂ i₃ : Nat) (rho conv : ℝ) (hi : 0 < i₂) (m₁ m₂ : RG.Msgs ℝ)
    (c : Clique) (hc : c ∈ cliques) (σ : Attr → Nat) (hσ : d.Valid σ) :
    ((RG.gbp d (RG.build cliques false true) pots T i₁ m₁).1.get c).sem σ
      = T * marginal d (expPots pots) c σ / partition d (expPots pots) ∧
    ((RG.hps d (RG.build cliques true true) (fun _ => 1) pots T i₂ rho conv m₂).1.get c).sem σ
      = T * marginal d (expPots pots) c σ / partition d (expPots pots) ∧
    ((FG.lbp d cliques pots T i₃ (FG.initMessages d cliques)).1.get c).sem σ
      = T * marginal d (expPots pots) c σ / partition d (expPots pots) :=
  PGM.ExactDisjoint.disjoint_oracle_exact d cliques pots h T hT i₁ i₂ i₃ rho conv hi m₁ m₂ c hc σ hσ

/-! ## loopy propagation is exact on tree-structured factor graphs

`Forest cliques h`: a rank `h` on the directed edges clique → attribute such that every message that enters the
computation of `cl → v` has smaller rank — exactly acyclicity of the bipartite attribute/clique graph
(`forest_of_elim`: every leaf-elimination order yields one, with ranks below `2·#cliques`).  After `iters > h`
sweeps from the initial messages every clique table is `T · Σ_{x∖c} exp(Σ_k θ_k) / Z`. -/

/-- **Loopy belief propagation is exact on forests.**  For every clique `c` the returned table is a
well-formed table over `dom.project c` whose entry at every cell is
`T · Σ_{x outside c} exp(Σ_k θ_k) / Σ_x exp(Σ_k θ_k)`. -/
theorem lbp_exact_on_forest (dom : Dom) (cliques : List Clique) (pots : CliqueVec ℝ) (T : ℝ) (iters : Nat)
    (h : Clique → Attr → Nat)
    (hG : GraphOK dom cliques pots) (hpos : PosDom dom) (hF : Forest cliques h)
    (hiters : ∀ cl ∈ cliques, ∀ v ∈ cl, Shared cliques cl v → h cl v < iters)
    (hT : 0 < T) (c : Clique) (hc : c ∈ cliques) :
    let table := (FG.lbp dom cliques pots T iters (FG.initMessages dom cliques)).1.get c
    table.WF ∧ table.dom = dom.project c ∧
    ∀ σ, dom.Valid σ → table.sem σ = T * marginalR dom cliques pots c σ / partitionR dom cliques pots :=
  PGM.LbpTree.lbp_exact_on_forest dom cliques pots T iters h hG hpos hF hiters hT c hc

theorem forest_of_elim (cliques : List Clique) (hnd : cliques.Nodup) (hel : ElimOrder cliques) :
    ∃ h : Clique → Attr → Nat, Forest cliques h ∧ ∀ cl ∈ cliques, ∀ v, h cl v < 2 * cliques.length :=
  PGM.LbpTree.forest_of_elim cliques hnd hel

/-- **exactness from an elimination order**, with `2·#cliques` sweeps -/
theorem lbp_exact_of_elim (dom : Dom) (cliques : List Clique) (pots : CliqueVec ℝ) (T : ℝ) (iters : Nat)
    (hG : GraphOK dom cliques pots) (hpos : PosDom dom) (hel : ElimOrder cliques)
    (hiters : 2 * cliques.length ≤ iters) (hT : 0 < T) (c : Clique) (hc : c ∈ cliques) :
    let table := (FG.lbp dom cliques pots T iters (FG.initMessages dom cliques)).1.get c
    table.WF ∧ table.dom = dom.project c ∧
    ∀ σ, dom.Valid σ → table.sem σ = T * marginalR dom cliques pots c σ / partitionR dom cliques pots :=
  PGM.LbpTree.lbp_exact_of_elim dom cliques pots T iters hG hpos hel hiters hT c hc

/-- **star around an attribute** (in particular the chain of two cliques sharing exactly `v`): any two
distinct cliques have at most the attribute `v` in common.  One sweep suffices. -/
theorem lbp_exact_attr_star (dom : Dom) (cliques : List Clique) (pots : CliqueVec ℝ) (T : ℝ) (iters : Nat)
    (v : Attr) (hG : GraphOK dom cliques pots) (hpos : PosDom dom)
    (hstar : ∀ cl ∈ cliques, ∀ g ∈ cliques, g ≠ cl → ∀ u, u ∈ cl → u ∈ g → u = v)
    (hiters : 1 ≤ iters) (hT : 0 < T) (c : Clique) (hc : c ∈ cliques) :
    let table := (FG.lbp dom cliques pots T iters (FG.initMessages dom cliques)).1.get c
    table.WF ∧ table.dom = dom.project c ∧
    ∀ σ, dom.Valid σ → table.sem σ = T * marginalR dom cliques pots c σ / partitionR dom cliques pots :=
  PGM.LbpTree.lbp_exact_attr_star dom cliques pots T iters v hG hpos hstar hiters hT c hc

/-- **the two-clique chain**: `[c1, c2]` share exactly the attribute `v`.  One sweep suffices (the
variable-to-factor messages of a sweep are computed from the factor-to-variable messages of the same
sweep); with `iters = 0` the tables are the normalised potentials, which is wrong in general. -/
theorem lbp_exact_two_chain (dom : Dom) (c1 c2 : Clique) (pots : CliqueVec ℝ) (T : ℝ) (iters : Nat)
    (v : Attr) (hG : GraphOK dom [c1, c2] pots) (hpos : PosDom dom)
    (hshare : ∀ u, u ∈ c1 → u ∈ c2 → u = v)
    (hiters : 1 ≤ iters) (hT : 0 < T) (c : Clique) (hc : c ∈ [c1, c2]) :
    let table := (FG.lbp dom [c1, c2] pots T iters (FG.initMessages dom [c1, c2])).1.get c
    table.WF ∧ table.dom = dom.project c ∧
    ∀ σ, dom.Valid σ → table.sem σ = T * marginalR dom [c1, c2] pots c σ / partitionR dom [c1, c2] pots :=
  PGM.LbpTree.lbp_exact_two_chain dom c1 c2 pots T iters v hG hpos hshare hiters hT c hc

/-- **star around a clique**: every clique other than the centre `c0` meets `c0` in at most one
attribute, and two such cliques only meet inside `c0`.  Two sweeps suffice. -/
theorem lbp_exact_clique_star (dom : Dom) (cliques : List Clique) (pots : CliqueVec ℝ) (T : ℝ) (iters : Nat)
    (c0 : Clique) (hG : GraphOK dom cliques pots) (hpos : PosDom dom)
    (hpend : ∀ p ∈ cliques, p ≠ c0 → ∀ u w, u ∈ p → u ∈ c0 → w ∈ p → w ∈ c0 → u = w)
    (hpair : ∀ p ∈ cliques, p ≠ c0 → ∀ q ∈ cliques, q ≠ c0 → q ≠ p → ∀ u, u ∈ p → u ∈ q → u ∈ c0)
    (hiters : 2 ≤ iters) (hT : 0 < T) (c : Clique) (hc : c ∈ cliques) :
    let table := (FG.lbp dom cliques pots T iters (FG.initMessages dom cliques)).1.get c
    table.WF ∧ table.dom = dom.project c ∧
    ∀ σ, dom.Valid σ → table.sem σ = T * marginalR dom cliques pots c σ / partitionR dom cliques pots :=
  PGM.LbpTree.lbp_exact_clique_star dom cliques pots T iters c0 hG hpos hpend hpair hiters hT c hc

end PGM.C16
