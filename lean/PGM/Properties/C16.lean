import PGM.Proofs.OracleSem
import PGM.Proofs.ExactDisjoint
/-!
# C16 — approximate marginal oracles are normalised, and exact on acyclic structures

Models: `PGM/Model/RegionGraph.lean` (`build_graph`, `generalized_belief_propagation`) and
`PGM/Model/FactorGraph.lean` (`loopy_belief_propagation`), generic over the scalar; the theorems
are for the real-number instance (exact arithmetic: no overflow, `log`/`exp` are `Real.log`/`Real.exp`).

* **normalisation** — for *every* region graph / clique list, potential vector, total `T > 0`, sweep
  count and persisted message state, every returned table is `normalise T (belief)`
  (`*_tables_normalised`), and `normalise T b` has strictly positive entries `T·softmax(b)` summing to `T`
  (`normalise_valid`, `normalise_entry`); with hypotheses on the *inputs* only (no attribute of size 0, clique
  potentials non-empty) every returned table is such a valid table (`*_tables_valid_init`, `*_tables_valid_pos`
  for warm messages).  In floating point the messages of `generalized_belief_propagation` can diverge
  (overflow to `inf`/`nan`): that is outside the real-number model and recorded as known findings.
* **exactness** — proved for the acyclic structures in which nothing is shared (pairwise disjoint cliques,
  a forest of isolated nodes): the region graph has no edges and both oracles return `normalise T θ_c`,
  the marginal of the product model, for every sweep count including 0 (`gbp_disjoint`, `lbp_disjoint`,
  `oracles_agree_disjoint`).  For general junction-tree-structured clique sets / tree factor graphs
  exactness is **tested per input** against brute-force marginals (`partial`; see DESIGN.md#c16): with
  damping 1/2 the GBP messages approach their fixed point geometrically, so "exact after enough sweeps"
  is a limit statement there.
-/
namespace PGM.C16
open PGM PGM.JT PGM.Oracle PGM.Sem PGM.ExactDisjoint

/-- **the common last step** `belief += log(total) − logsumexp(belief); exp` produces a valid table
for every finite belief table and every total > 0 -/
theorem normalise_valid (T : ℝ) (b : Factor ℝ) (hT : 0 < T) (hne : b.vals.data.size ≠ 0) :
    ValidTable T (RG.normalise T b) ∧ (RG.normalise T b).dom = b.dom ∧
    (RG.normalise T b).vals.data.size = b.vals.data.size :=
  PGM.Oracle.normalise_valid T b hT hne

/-- each entry is `T · softmax(b)` -/
theorem normalise_entry (T : ℝ) (b : Factor ℝ) (hT : 0 < T) (i : Nat) (hi : i < b.vals.data.size) :
    (RG.normalise T b).vals.data[i]? =
      some (T * Real.exp (b.vals.data[i]'hi) / ((b.vals.data.toList.map Real.exp).sum)) :=
  PGM.Oracle.normalise_entry T b hT i hi

/-- **region-graph propagation returns normalised tables**: for every region graph (whatever its
structure), every potential vector, every total, every sweep count and every state of the
persisted messages, each returned table is `normalise total (some belief)` -/
theorem gbp_tables_normalised (dom : Dom) (g : RG.Graph) (pots : CliqueVec ℝ) (T : ℝ) (iters : Nat)
    (msgs : RG.Msgs ℝ) (p : Clique × Factor ℝ) (hp : p ∈ (RG.gbp dom g pots T iters msgs).1) :
    ∃ b : Factor ℝ, p.2 = RG.normalise T b :=
  PGM.Oracle.gbp_tables_normalised dom g pots T iters msgs p hp

theorem gbp_keys (dom : Dom) (g : RG.Graph) (pots : CliqueVec ℝ) (T : ℝ) (iters : Nat) (msgs : RG.Msgs ℝ)
    (hnd : g.cliques.Nodup) :
    (RG.gbp dom g pots T iters msgs).1.map Prod.fst = g.cliques :=
  PGM.Oracle.gbp_keys dom g pots T iters msgs hnd

/-- the table of a clique of the graph is the normalised belief of that clique -/
theorem gbp_get (dom : Dom) (g : RG.Graph) (pots : CliqueVec ℝ) (T : ℝ) (iters : Nat) (msgs : RG.Msgs ℝ)
    (c : Clique) (hc : c ∈ g.cliques) :
    (RG.gbp dom g pots T iters msgs).1.get c = RG.normalise T (gbpBelief dom g pots iters msgs c) :=
  PGM.Oracle.gbp_get dom g pots T iters msgs c hc

/-- **generalised propagation returns valid tables**: if no domain involved has an attribute of
extent 0 and the potentials of the model cliques are non-empty, every returned table has strictly
positive entries summing to `T` -/
theorem gbp_tables_valid_pos (dom : Dom) (g : RG.Graph) (pots : CliqueVec ℝ) (T : ℝ) (iters : Nat)
    (msgs : RG.Msgs ℝ) (hT : 0 < T)
    (hpot : ∀ e ∈ g.messageOrder, PosDom (RG.potOf dom g pots e.1).dom)
    (hcl : ∀ r ∈ g.cliques, PosDom (pots.get r).dom ∧ (pots.get r).vals.data.size ≠ 0)
    (hm : PosMsgs msgs)
    (p : Clique × Factor ℝ) (hp : p ∈ (RG.gbp dom g pots T iters msgs).1) : ValidTable T p.2 :=
  PGM.Oracle.gbp_tables_valid_pos dom g pots T iters msgs hT hpot hcl hm p hp

/-- the same from the initial messages, with hypotheses on the inputs only: every size in `dom` is
non-zero, the regions on the message schedule use attributes of `dom`, the clique potentials are
non-empty tables over domains without extent 0 -/
theorem gbp_tables_valid_init (dom : Dom) (g : RG.Graph) (pots : CliqueVec ℝ) (T : ℝ) (iters : Nat)
    (hT : 0 < T) (hdom : PosDom dom)
    (hord : ∀ e ∈ g.messageOrder, (∀ a ∈ e.1, a ∈ dom.attrs) ∧ (∀ a ∈ e.2, a ∈ dom.attrs))
    (hcl : ∀ r ∈ g.cliques, PosDom (pots.get r).dom ∧ (pots.get r).vals.data.size ≠ 0)
    (p : Clique × Factor ℝ)
    (hp : p ∈ (RG.gbp dom g pots T iters (RG.initMessages dom g.messageOrder)).1) : ValidTable T p.2 :=
  PGM.Oracle.gbp_tables_valid_init dom g pots T iters hT hdom hord hcl p hp

theorem lbp_tables_normalised (dom : Dom) (cliques : List Clique) (pots : CliqueVec ℝ) (T : ℝ)
    (iters : Nat) (s : FG.State ℝ) (p : Clique × Factor ℝ) (hp : p ∈ (FG.lbp dom cliques pots T iters s).1) :
    ∃ b : Factor ℝ, p.2 = RG.normalise T b :=
  PGM.Oracle.lbp_tables_normalised dom cliques pots T iters s p hp

theorem lbp_keys (dom : Dom) (cliques : List Clique) (pots : CliqueVec ℝ) (T : ℝ) (iters : Nat)
    (s : FG.State ℝ) (hnd : cliques.Nodup) :
    (FG.lbp dom cliques pots T iters s).1.map Prod.fst = cliques :=
  PGM.Oracle.lbp_keys dom cliques pots T iters s hnd

/-- **loopy propagation returns valid tables** -/
theorem lbp_tables_valid_pos (dom : Dom) (cliques : List Clique) (pots : CliqueVec ℝ) (T : ℝ)
    (iters : Nat) (s : FG.State ℝ) (hT : 0 < T)
    (hcl : ∀ cl ∈ cliques, PosDom (pots.get cl).dom ∧ (pots.get cl).vals.data.size ≠ 0)
    (hs : PosState s)
    (p : Clique × Factor ℝ) (hp : p ∈ (FG.lbp dom cliques pots T iters s).1) : ValidTable T p.2 :=
  PGM.Oracle.lbp_tables_valid_pos dom cliques pots T iters s hT hcl hs p hp

theorem lbp_tables_valid_init (dom : Dom) (cliques : List Clique) (pots : CliqueVec ℝ) (T : ℝ)
    (iters : Nat) (hT : 0 < T) (hdom : PosDom dom)
    (hsub : ∀ cl ∈ cliques, ∀ v ∈ cl, v ∈ dom.attrs)
    (hcl : ∀ cl ∈ cliques, PosDom (pots.get cl).dom ∧ (pots.get cl).vals.data.size ≠ 0)
    (p : Clique × Factor ℝ)
    (hp : p ∈ (FG.lbp dom cliques pots T iters (FG.initMessages dom cliques)).1) : ValidTable T p.2 :=
  PGM.Oracle.lbp_tables_valid_init dom cliques pots T iters hT hdom hsub hcl p hp

theorem gbp_disjoint (dom : Dom) (cliques : List Clique) (pots : CliqueVec ℝ) (T : ℝ) (iters : Nat)
    (hd : Disjoint cliques) (hnd : cliques.Nodup) (hne : ∀ c ∈ cliques, c ≠ [])
    (c : Clique) (hc : c ∈ cliques) :
    let g := RG.build cliques false true
    ((RG.gbp dom g pots T iters (RG.initMessages dom g.messageOrder)).1.get c).datavector
      = (RG.normalise T (pots.get c)).datavector :=
  PGM.Oracle.gbp_disjoint dom cliques pots T iters hd hnd hne c hc

/-- **when nothing is relaxed the oracles coincide**: for pairwise disjoint cliques the region graph
has no edges, and generalised propagation returns `normalise total (potential)` on every clique,
for every sweep count and message state -/
theorem gbp_disjoint_msgs (dom : Dom) (cliques : List Clique) (pots : CliqueVec ℝ) (T : ℝ) (iters : Nat)
    (msgs : RG.Msgs ℝ)
    (hd : Disjoint cliques) (hnd : cliques.Nodup) (hne : ∀ c ∈ cliques, c ≠ [])
    (c : Clique) (hc : c ∈ cliques) :
    ((RG.gbp dom (RG.build cliques false true) pots T iters msgs).1.get c).datavector
      = (RG.normalise T (pots.get c)).datavector :=
  PGM.Oracle.gbp_disjoint_msgs dom cliques pots T iters msgs hd hnd hne c hc

theorem lbp_disjoint (dom : Dom) (cliques : List Clique) (pots : CliqueVec ℝ) (T : ℝ) (iters : Nat)
    (hd : Disjoint cliques) (hnd : cliques.Nodup) (htup : ∀ cl ∈ cliques, cl.Nodup)
    (hpot : ∀ cl ∈ cliques, (pots.get cl).WF ∧ (pots.get cl).dom = dom.project cl)
    (c : Clique) (hc : c ∈ cliques) :
    ((FG.lbp dom cliques pots T iters (FG.initMessages dom cliques)).1.get c).datavector
      = (RG.normalise T (pots.get c)).datavector :=
  PGM.Oracle.lbp_disjoint dom cliques pots T iters hd hnd htup hpot c hc

/-- all three oracles agree on a disjoint family -/
theorem oracles_agree_disjoint (dom : Dom) (cliques : List Clique) (pots : CliqueVec ℝ) (T : ℝ)
    (i1 i2 i3 : Nat) (rho conv : ℝ) (hi : 0 < i2)
    (hd : Disjoint cliques) (hnd : cliques.Nodup) (hne : ∀ c ∈ cliques, c ≠ [])
    (htup : ∀ cl ∈ cliques, cl.Nodup)
    (hpot : ∀ cl ∈ cliques, (pots.get cl).WF ∧ (pots.get cl).dom = dom.project cl)
    (c : Clique) (hc : c ∈ cliques) :
    let g1 := RG.build cliques false true
    let g2 := RG.build cliques true true
    ((RG.gbp dom g1 pots T i1 (RG.initMessages dom g1.messageOrder)).1.get c).datavector =
      ((RG.hps dom g2 (fun _ => 1) pots T i2 rho conv (RG.initMessages dom g2.messageOrder)).1.get c).datavector ∧
    ((RG.gbp dom g1 pots T i1 (RG.initMessages dom g1.messageOrder)).1.get c).datavector =
      ((FG.lbp dom cliques pots T i3 (FG.initMessages dom cliques)).1.get c).datavector :=
  PGM.Oracle.oracles_agree_disjoint dom cliques pots T i1 i2 i3 rho conv hi hd hnd hne htup hpot c hc

/-- without the hypothesis on the potentials `lbp_disjoint` fails: an absent potential is the scalar
table `zeros []`, and the belief `zeros [] + (message over [a])` has 2 cells instead of 1 -/
theorem lbp_disjoint_needs_pots :
    ¬ (∀ (dom : Dom) (cliques : List Clique) (pots : CliqueVec ℝ) (T : ℝ) (iters : Nat),
        Disjoint cliques → cliques.Nodup → (∀ cl ∈ cliques, cl.Nodup) → ∀ c ∈ cliques,
        ((FG.lbp dom cliques pots T iters (FG.initMessages dom cliques)).1.get c).datavector
          = (RG.normalise T (pots.get c)).datavector) :=
  PGM.Oracle.lbp_disjoint_needs_pots 

/-! **exactness on disjoint families, semantically**: every cell of every table returned by GBP (any sweep count, any warm
messages), HPS and LBP is `T · marginal / Z` of the product model `∏_c exp θ_c` (the brute-force semantics of C01) -/
/-- **on a disjoint family nothing is relaxed**: generalised belief propagation (any number of
sweeps, any message state), the convex Hazan–Peng–Shashua oracle (any positive number of sweeps,
any damping / tolerance / message state) and loopy belief propagation (any number of sweeps) each
return, on every clique `c` and at every valid assignment `σ`, exactly
`T · marginal(σ) / Z` of the product model `∏_c exp θ_c` -/
theorem disjoint_oracle_exact (d : Dom) (cliques : List Clique) (pots : CliqueVec ℝ)
    (h : OracleOK d cliques pots) (T : ℝ) (hT : 0 < T)
    (i₁ i₂ i₃ : Nat) (rho conv : ℝ) (hi : 0 < i₂) (m₁ m₂ : RG.Msgs ℝ)
    (c : Clique) (hc : c ∈ cliques) (σ : Attr → Nat) (hσ : d.Valid σ) :
    ((RG.gbp d (RG.build cliques false true) pots T i₁ m₁).1.get c).sem σ
      = T * marginal d (expPots pots) c σ / partition d (expPots pots) ∧
    ((RG.hps d (RG.build cliques true true) (fun _ => 1) pots T i₂ rho conv m₂).1.get c).sem σ
      = T * marginal d (expPots pots) c σ / partition d (expPots pots) ∧
    ((FG.lbp d cliques pots T i₃ (FG.initMessages d cliques)).1.get c).sem σ
      = T * marginal d (expPots pots) c σ / partition d (expPots pots) :=
  PGM.ExactDisjoint.disjoint_oracle_exact d cliques pots h T hT i₁ i₂ i₃ rho conv hi m₁ m₂ c hc σ hσ

end PGM.C16
