import PGM.Properties.C11E
import PGM.Properties.C02E
import PGM.Proofs.GMQJointGen
/-!
# C11 (end to end, continued) — the support of the JOINT, the cached `project`, the default number of rows

`Properties/C11E.lean` proves the C11 statements for the GENERATED `synthetic_data` on the generated junction tree and the generated
UNCACHED `project`, with "no record in a cell of probability zero" stated per clique marginal.  This file closes three restrictions:

1. `gen_synthetic_data_joint_support` (`_none`, `_int` for the other forms of `elimination_order`): every returned record `x` — a FULL
   assignment of the attributes — has positive probability `joint(x) / Z` under the ONE joint of the model (`Proofs/Semantics.lean`:
   `joint(x) = Π_c ψ_c(x_c)`); equivalently the count of every cell of the full table with `joint = 0` is `0`.  Route: the run leaves
   every visited clique marginal positive at the record (`RunSupportOK`, which is where the chain rule over the reversed elimination
   order — `chainWF_genSpecs`, `margConsistent_genSpecs` — is used); a positive clique marginal at `x_C` makes every potential inside
   `C` positive at `x` (`GMQJoint.pot_pos_of_marginal_ne_zero`); every model clique is a visited clique (`clique_is_step`).  The one
   hypothesis beyond C11E's: every potential lies inside a clique of the model (`hcov`; what `CliqueVector` over `self.cliques`
   holds — without it the statement is false: `joint_support_needs_cover`).
2. `gen_synthetic_data_end_to_end_cached`: the same statements (row count, domain, clique support, clique error bound, joint support),
   for every form of `elimination_order`, when `self.marginals` is the store of the GENERATED `belief_propagation` and the column loop
   therefore goes through the CACHED branch of the generated `project` (C02E `genProjectC`; `gen_project_cached_end_to_end`).  The
   column loop is handled once for an arbitrary `self.project` that answers `total · marginal / Z` (`ProjOK`, `coreP_round`,
   `coreP_sample`).
3. `gen_synth_rows_default`: `rows=None` gives `⌊total⌋` records (none when `0 < total < 1`), an explicit `rows=0` gives none — the
   generated expression is `int(self.total) if rows is None else rows`, not `rows or int(self.total)`.
-/
namespace PGM.C11.F
open PGM PGM.JT PGM.GM PGM.Sem PGM.Synth PGM.GMQGen PGM.GMGen PGM.C01.GMG PGM.C02.GMQ PGM.C12G PGM.C11.E PGM.GMQJoint
set_option linter.unusedVariables false
set_option linter.unusedSectionVars false

/-! ## 1. the support of the joint -/

/-- every record of the frame has positive probability under the joint of the model; the count of every cell of the FULL table to
which the joint gives probability zero is zero -/
def JointSupportOK (d : Dom) (pots : CliqueVec (LogOf ℚ)) (F : GMQ.DF) : Prop :=
  (∀ r ∈ F.rows, 0 < joint pots (rowAssign d.attrs r) / partition d pots) ∧
  (∀ x : Attr → Nat, joint pots x = 0 → cellCount (posOf d.attrs d.attrs) (d.attrs.map x) F.rows = 0)

theorem stepAttrs_sub_elim (set_order : List Attr → List Attr) (hso : ∀ s, (set_order s).Perm s) (mc : List Clique) (d : Dom)
    (elim : List Attr) (hnd : elim.Nodup) (hsub : ∀ a ∈ elim, a ∈ d.attrs) (k : Nat) (hk : k < elim.length) :
    ∀ a ∈ stepAttrs set_order mc elim k, a ∈ elim := by
  intro a ha
  unfold stepAttrs at ha
  rcases List.mem_append.1 ha with h | h
  · exact List.mem_reverse.1 (List.mem_of_mem_take (stepProj_sub set_order hso mc _ k a h))
  · rw [List.mem_singleton] at h
    rw [h]
    exact (stepA_ok set_order hso mc d elim hnd hsub k hk).2.2

/-- **from the support of the visited clique marginals to the support of the joint** -/
theorem jointSupportOK_of_run (d : Dom) (pots : CliqueVec (LogOf ℚ)) (hd : d.WF)
    (hnn : ∀ p ∈ pots, ∀ x ∈ p.2.vals.data.toList, 0 ≤ x.v) (hZ : partition d pots ≠ 0)
    (hpd : ∀ p ∈ pots, ∀ a ∈ p.2.dom.attrs, a ∈ d.attrs)
    (set_order : List Attr → List Attr) (hso : ∀ s, (set_order s).Perm s) (mc : List Clique) (elim : List Attr)
    (hnd : elim.Nodup) (hsub : ∀ a ∈ elim, a ∈ d.attrs)
    (hcov : ∀ p ∈ pots, ∃ k, k < elim.length ∧ ∀ a ∈ p.2.dom.attrs, a ∈ stepAttrs set_order mc elim k)
    (N : Nat) (F : GMQ.DF) (h : RunSupportOK d pots set_order mc elim N F) : JointSupportOK d pots F := by
  obtain ⟨_, _, hdom, hsupp⟩ := h
  have hpos : ∀ r ∈ F.rows, 0 < joint pots (rowAssign d.attrs r) := by
    intro r hr
    refine joint_pos_of_covered d pots hnn d.attrs F.rows (fun p hp => ?_) r hr
    obtain ⟨k, hk, hpk⟩ := hcov p hp
    exact ⟨stepAttrs set_order mc elim k, hpk,
      fun r' hr' a ha => hdom r' hr' a (stepAttrs_sub_elim set_order hso mc d elim hnd hsub k hk a ha), hsupp k hk⟩
  have hZpos : 0 < partition d pots := lt_of_le_of_ne (Bd.partition_nonneg d pots hnn) (Ne.symm hZ)
  exact ⟨fun r hr => div_pos (hpos r hr) hZpos, fun x hx => cellCount_zero_of_joint_zero pots d.attrs F.rows hpd hpos x hx⟩

/-- the potentials of a `PotsOK` model only read attributes of the domain -/
theorem potsOK_sub {d : Dom} {pots : CliqueVec (LogOf ℚ)} {total : LogOf ℚ} (hp : PotsOK d pots total) :
    ∀ p ∈ pots, ∀ a ∈ p.2.dom.attrs, a ∈ d.attrs :=
  fun p hp' => (hp.factors p.2 (List.mem_map_of_mem hp')).2.2

/-- every potential inside a model clique ⇒ every potential inside a visited clique (`clique_is_step`) -/
theorem cover_steps (set_order : List Attr → List Attr) (hso : ∀ s, (set_order s).Perm s) (mc : List Clique) (elim : List Attr)
    (g0 : Graph) (hpeo : IsPEO g0 elim) (hm : MaxCliquesOf g0 mc) (pots : CliqueVec (LogOf ℚ))
    (hcov : ∀ p ∈ pots, ∃ cl ∈ mc, ∀ a ∈ p.2.dom.attrs, a ∈ cl) :
    ∀ p ∈ pots, ∃ k, k < elim.length ∧ ∀ a ∈ p.2.dom.attrs, a ∈ stepAttrs set_order mc elim k := by
  intro p hp
  obtain ⟨cl, hcl, hpc⟩ := hcov p hp
  obtain ⟨k, hk, hiff⟩ := clique_is_step set_order hso mc elim g0 hpeo hm cl hcl
  exact ⟨k, hk, fun a ha => (hiff a).1 (hpc a ha)⟩

section joint
variable {G : Type}

/-- **core**: any model whose cliques / elimination order satisfy what the junction-tree construction guarantees, potentials inside
the model's cliques — both modes -/
theorem gen_synthetic_data_core_joint (greedy : Dom → List Clique → List Attr → List Attr) (d : Dom) (mc : List Clique)
    (elim : List Attr) (pots : CliqueVec (LogOf ℚ)) (total : LogOf ℚ) (g0 : Graph)
    (hpeo : IsPEO g0 elim) (hmax : MaxCliquesOf g0 mc) (hne : elim ≠ []) (hsub : ∀ a ∈ elim, a ∈ d.attrs)
    (hp : PotsOK d pots total) (hcov : ∀ p ∈ pots, ∃ cl ∈ mc, ∀ a ∈ p.2.dom.attrs, a ∈ cl)
    (hgr : GreedyOK greedy d mc)
    (set_order : List Attr → List Attr) (hso : ∀ s, (set_order s).Perm s)
    (groupby : GMQ.DF → List Attr → List (List Nat × List Nat)) (hgb : GroupbyOK groupby)
    (cr cnr : G → Nat → Nat → List Rat → List Nat × G) (sh : G → List Nat → List Nat × G) (hr : RngOK cr cnr sh)
    (rows : Option Nat) (method : String) (g : G) :
    JointSupportOK d pots
      (GMQ.syntheticFrame (genProject greedy d mc pots total) set_order groupby cr cnr sh d mc elim total.v rows method g).1 := by
  have hrun : RunSupportOK d pots set_order mc elim (rowCount total.v rows)
      (GMQ.syntheticFrame (genProject greedy d mc pots total) set_order groupby cr cnr sh d mc elim total.v rows method g).1 := by
    by_cases hm : method = "sample"
    · subst hm
      exact gen_synthetic_data_core_sample greedy d mc elim pots total g0 hpeo hmax.toCliquesOf hne hsub hp hgr set_order hso groupby
        hgb cr cnr sh hr rows g
    · exact (gen_synthetic_data_core greedy d mc elim pots total g0 hpeo hmax.toCliquesOf hne hsub hp hgr set_order hso groupby hgb
        cr cnr sh hr rows method hm g).1
  exact jointSupportOK_of_run d pots hp.wf hp.nonneg hp.Z (potsOK_sub hp) set_order hso mc elim hpeo.1 hsub
    (cover_steps set_order hso mc elim g0 hpeo hmax pots hcov) _ _ hrun

/-- **1. no record outside the support of the JOINT** (`elimination_order` given; rounding and sampling mode): under the hypotheses of
`gen_synthetic_data_end_to_end` / `_sample`, with every potential inside a clique of the generated model, every record `x` the
GENERATED `synthetic_data` returns has `joint(x) / Z > 0`, and every cell of the full table with `joint = 0` has count `0` -/
theorem gen_synthetic_data_joint_support (fc : Graph → List Clique) (mst : WGraph → Tree) (dfs : Tree → List Clique) (d : Dom)
    (cliques0 : List Clique) (order : List Attr) (hne : d.attrs ≠ []) (hperm : order.Perm d.attrs)
    (hnx : NxContracts fc mst d cliques0 order)
    (hdfs : ∀ c, c ∈ dfs (JTG.init_given fc mst d cliques0 order).1 ↔ c ∈ (JTG.init_given fc mst d cliques0 order).1.nodes)
    (greedy : Dom → List Clique → List Attr → List Attr) (pots : CliqueVec (LogOf ℚ)) (total : LogOf ℚ)
    (hp : PotsOK d pots total)
    (hcov : ∀ p ∈ pots, ∃ cl ∈ JTG.maximal_cliques dfs (JTG.init_given fc mst d cliques0 order).1, ∀ a ∈ p.2.dom.attrs, a ∈ cl)
    (hgr : GreedyOK greedy d (JTG.maximal_cliques dfs (JTG.init_given fc mst d cliques0 order).1))
    (set_order : List Attr → List Attr) (hso : ∀ s, (set_order s).Perm s)
    (groupby : GMQ.DF → List Attr → List (List Nat × List Nat)) (hgb : GroupbyOK groupby)
    (cr cnr : G → Nat → Nat → List Rat → List Nat × G) (sh : G → List Nat → List Nat × G) (hr : RngOK cr cnr sh)
    (rows : Option Nat) (method : String) (g : G) :
    let mc := JTG.maximal_cliques dfs (JTG.init_given fc mst d cliques0 order).1
    let elim := (JTG.init_given fc mst d cliques0 order).2
    JointSupportOK d pots
      (GMQ.syntheticFrame (genProject greedy d mc pots total) set_order groupby cr cnr sh d mc elim total.v rows method g).1 := by
  intro mc elim
  obtain ⟨hpeo, hmax, hne', hsub, _⟩ := gen_jt_model fc mst dfs d cliques0 order hp.wf hne hperm hnx hdfs
  exact gen_synthetic_data_core_joint greedy d mc elim pots total _ hpeo hmax hne' hsub hp hcov hgr set_order hso groupby hgb
    cr cnr sh hr rows method g

/-- … default elimination order (`elimination_order=None`) -/
theorem gen_synthetic_data_joint_support_none (tos : List Attr → List Attr) (htos : TosOK tos)
    (fc : Graph → List Clique) (mst : WGraph → Tree) (dfs : Tree → List Clique) (d : Dom)
    (cliques0 : List Clique) (hne : d.attrs ≠ []) (hcl0 : ∀ c ∈ cliques0, c.Nodup)
    (hnx : ∀ order : List Attr, order.Perm d.attrs → NxContracts fc mst d cliques0 order)
    (hdfs : ∀ c, c ∈ dfs (JTG.init_none tos fc mst d cliques0).1 ↔ c ∈ (JTG.init_none tos fc mst d cliques0).1.nodes)
    (greedy : Dom → List Clique → List Attr → List Attr) (pots : CliqueVec (LogOf ℚ)) (total : LogOf ℚ)
    (hp : PotsOK d pots total)
    (hcov : ∀ p ∈ pots, ∃ cl ∈ JTG.maximal_cliques dfs (JTG.init_none tos fc mst d cliques0).1, ∀ a ∈ p.2.dom.attrs, a ∈ cl)
    (hgr : GreedyOK greedy d (JTG.maximal_cliques dfs (JTG.init_none tos fc mst d cliques0).1))
    (set_order : List Attr → List Attr) (hso : ∀ s, (set_order s).Perm s)
    (groupby : GMQ.DF → List Attr → List (List Nat × List Nat)) (hgb : GroupbyOK groupby)
    (cr cnr : G → Nat → Nat → List Rat → List Nat × G) (sh : G → List Nat → List Nat × G) (hr : RngOK cr cnr sh)
    (rows : Option Nat) (method : String) (g : G) :
    let mc := JTG.maximal_cliques dfs (JTG.init_none tos fc mst d cliques0).1
    let elim := (JTG.init_none tos fc mst d cliques0).2
    JointSupportOK d pots
      (GMQ.syntheticFrame (genProject greedy d mc pots total) set_order groupby cr cnr sh d mc elim total.v rows method g).1 := by
  have e : JTG.init_none tos fc mst d cliques0 = JTG.init_given fc mst d cliques0 (JTG.greedy_order_det tos d cliques0).1 := by
    rw [gen_init_none, gen_make_tree_none, ← gen_init_given]
  have hperm : (JTG.greedy_order_det tos d cliques0).1.Perm d.attrs := by
    rw [gen_greedy_order_det tos htos d cliques0 hp.wf hcl0]
    exact C12.greedyOrder_perm d cliques0 d.attrs hp.wf
  rw [e] at hdfs hgr hcov ⊢
  exact gen_synthetic_data_joint_support fc mst dfs d cliques0 _ hne hperm (hnx _ hperm) hdfs greedy pots total hp hcov hgr
    set_order hso groupby hgb cr cnr sh hr rows method g

/-- … `elimination_order=n` (randomised search) -/
theorem gen_synthetic_data_joint_support_int (tos : List Attr → List Attr) (htos : TosOK tos)
    (fc : Graph → List Clique) (mst : WGraph → Tree) (dfs : Tree → List Clique) (choice : Nat → List Rat → Nat → Nat)
    (hch : ChoiceContract choice) (d : Dom) (cliques0 : List Clique) (draws : List (List Nat))
    (hne : d.attrs ≠ []) (hcl0 : ∀ c ∈ cliques0, c.Nodup)
    (hdraws : ∀ picks ∈ draws, picks.length = d.attrs.length ∧ picksInRange d.attrs.length picks = true)
    (hnx : ∀ order : List Attr, order.Perm d.attrs → NxContracts fc mst d cliques0 order)
    (hdfs : ∀ c, c ∈ dfs (JTG.init_int tos fc mst choice d cliques0 draws.length draws).1
      ↔ c ∈ (JTG.init_int tos fc mst choice d cliques0 draws.length draws).1.nodes)
    (greedy : Dom → List Clique → List Attr → List Attr) (pots : CliqueVec (LogOf ℚ)) (total : LogOf ℚ)
    (hp : PotsOK d pots total)
    (hcov : ∀ p ∈ pots, ∃ cl ∈ JTG.maximal_cliques dfs (JTG.init_int tos fc mst choice d cliques0 draws.length draws).1,
      ∀ a ∈ p.2.dom.attrs, a ∈ cl)
    (hgr : GreedyOK greedy d (JTG.maximal_cliques dfs (JTG.init_int tos fc mst choice d cliques0 draws.length draws).1))
    (set_order : List Attr → List Attr) (hso : ∀ s, (set_order s).Perm s)
    (groupby : GMQ.DF → List Attr → List (List Nat × List Nat)) (hgb : GroupbyOK groupby)
    (cr cnr : G → Nat → Nat → List Rat → List Nat × G) (sh : G → List Nat → List Nat × G) (hr : RngOK cr cnr sh)
    (rows : Option Nat) (method : String) (g : G) :
    let mc := JTG.maximal_cliques dfs (JTG.init_int tos fc mst choice d cliques0 draws.length draws).1
    let elim := (JTG.init_int tos fc mst choice d cliques0 draws.length draws).2
    JointSupportOK d pots
      (GMQ.syntheticFrame (genProject greedy d mc pots total) set_order groupby cr cnr sh d mc elim total.v rows method g).1 := by
  have hsome := gen_int_mode_order tos htos choice hch d cliques0 draws hp.wf hcl0 hdraws
  obtain ⟨o, ho, hop⟩ := C12.int_mode_make_tree_perm d cliques0 d.attrs hp.wf draws hdraws
  rw [ho] at hsome
  have heq := Option.some.inj hsome
  have e : JTG.init_int tos fc mst choice d cliques0 draws.length draws = JTG.init_given fc mst d cliques0 o.1 := by
    rw [gen_init_int, gen_make_tree_int, ← gen_init_given, heq]
  rw [e] at hdfs hgr hcov ⊢
  exact gen_synthetic_data_joint_support fc mst dfs d cliques0 _ hne hop (hnx _ hop) hdfs greedy pots total hp hcov hgr
    set_order hso groupby hgb cr cnr sh hr rows method g

end joint

/-! ## 3. the number of rows: `total = int(self.total) if rows is None else rows` -/
section rowsDefault
variable {G : Type}

/-- `rows=None`: the integer part of the total -/
theorem rowCount_none (total : Rat) : rowCount total none = (Rat.floor total).toNat := rfl
/-- an explicit `rows` — `0` included — is taken as it is -/
theorem rowCount_some (total : Rat) (r : Nat) : rowCount total (some r) = r := rfl

/-- a total below one gives no record at all under `rows=None` -/
theorem rowCount_none_lt_one (total : Rat) (h : total < 1) : rowCount total none = 0 := by
  show (Rat.floor total).toNat = 0
  have h1 : Rat.floor total < 1 := by
    by_contra hge
    have h2 : (1 : ℤ) ≤ Rat.floor total := by omega
    have h3 : (1 : ℚ) ≤ total := by simpa using Rat.le_floor_iff.1 h2
    exact absurd h (not_lt.2 h3)
  omega

/-- `rows or int(self.total)` would be a different function: it gives `⌊total⌋` records for `rows=0` -/
theorem rowCount_zero_ne_default (total : Rat) (h : 1 ≤ total) : rowCount total (some 0) ≠ rowCount total none := by
  show (0 : Nat) ≠ (Rat.floor total).toNat
  have : (1 : ℤ) ≤ Rat.floor total := Rat.le_floor_iff.2 (by simpa using h)
  omega

/-- **3. the number of records, default and explicit zero** — for the GENERATED `synthetic_data` under the hypotheses of
`gen_synthetic_data_end_to_end` (either mode): `rows=None` gives exactly `⌊total⌋` records, so none at all when `0 < total < 1`
(the frame then has the domain's columns and no rows; `synthetic_col` is still called once, with `total = 0`, and returns `[]`); an
explicit `rows=0` gives no record whatever the total -/
theorem gen_synth_rows_default (fc : Graph → List Clique) (mst : WGraph → Tree) (dfs : Tree → List Clique) (d : Dom)
    (cliques0 : List Clique) (order : List Attr) (hne : d.attrs ≠ []) (hperm : order.Perm d.attrs)
    (hnx : NxContracts fc mst d cliques0 order)
    (hdfs : ∀ c, c ∈ dfs (JTG.init_given fc mst d cliques0 order).1 ↔ c ∈ (JTG.init_given fc mst d cliques0 order).1.nodes)
    (greedy : Dom → List Clique → List Attr → List Attr) (pots : CliqueVec (LogOf ℚ)) (total : LogOf ℚ)
    (hp : PotsOK d pots total)
    (hgr : GreedyOK greedy d (JTG.maximal_cliques dfs (JTG.init_given fc mst d cliques0 order).1))
    (set_order : List Attr → List Attr) (hso : ∀ s, (set_order s).Perm s)
    (groupby : GMQ.DF → List Attr → List (List Nat × List Nat)) (hgb : GroupbyOK groupby)
    (cr cnr : G → Nat → Nat → List Rat → List Nat × G) (sh : G → List Nat → List Nat × G) (hr : RngOK cr cnr sh)
    (method : String) (g : G) :
    let mc := JTG.maximal_cliques dfs (JTG.init_given fc mst d cliques0 order).1
    let elim := (JTG.init_given fc mst d cliques0 order).2
    let F := fun rows => (GMQ.syntheticFrame (genProject greedy d mc pots total) set_order groupby cr cnr sh d mc elim total.v rows
      method g).1
    (F none).rows.length = (Rat.floor total.v).toNat ∧
    (total.v < 1 → (F none).cols = d.attrs ∧ (F none).rows = []) ∧
    ((F (some 0)).cols = d.attrs ∧ (F (some 0)).rows = []) ∧
    (∀ r, (F (some r)).rows.length = r) := by
  intro mc elim F
  have hrun : ∀ rows, RunSupportOK d pots set_order mc elim (rowCount total.v rows) (F rows) := by
    intro rows
    by_cases hm : method = "sample"
    · subst hm
      exact gen_synthetic_data_end_to_end_sample fc mst dfs d cliques0 order hne hperm hnx hdfs greedy pots total hp hgr set_order
        hso groupby hgb cr cnr sh hr rows g
    · exact (gen_synthetic_data_end_to_end fc mst dfs d cliques0 order hne hperm hnx hdfs greedy pots total hp hgr set_order
        hso groupby hgb cr cnr sh hr rows method hm g).1
  refine ⟨(hrun none).2.1, fun hlt => ⟨(hrun none).1, ?_⟩, ⟨(hrun (some 0)).1, ?_⟩, fun r => (hrun (some r)).2.1⟩
  · have := (hrun none).2.1
    rw [rowCount_none_lt_one total.v hlt] at this
    exact List.eq_nil_of_length_eq_zero this
  · exact List.eq_nil_of_length_eq_zero (hrun (some 0)).2.1

end rowsDefault

/-! ## 2. the column loop for an arbitrary `self.project` answering `total · marginal / Z`; the cached `project` -/

/-- what the column loop needs of `self.project`: for every duplicate-free attribute list of the domain, the table
`total · marginal / Z` of the model's joint laid out in the requested order (C02), with nonnegative entries -/
structure ProjOK (d : Dom) (pots : CliqueVec (LogOf ℚ)) (total : LogOf ℚ) (project : List Attr → Factor Rat) : Prop where
  fam : ProjFamily d project (fun as σ => total.v * marginal d pots as σ / partition d pots) total.v
  nonneg : ∀ as, as.Nodup → (∀ a ∈ as, a ∈ d.attrs) → ∀ x ∈ (project as).vals.data.toList, (0 : Rat) ≤ x

/-- the uncached generated `project` of C11E is one -/
theorem projOK_uncached (greedy : Dom → List Clique → List Attr → List Attr) (d : Dom) (mc : List Clique)
    (pots : CliqueVec (LogOf ℚ)) (total : LogOf ℚ) (hp : PotsOK d pots total) (hgr : GreedyOK greedy d mc) :
    ProjOK d pots total (genProject greedy d mc pots total) :=
  ⟨projFamily_gen greedy d mc pots total hp hgr, genProject_nonneg greedy d mc pots total hp hgr⟩

/-- the bound of the rounding-mode theorem for an arbitrary `project`: a function of the model only -/
def cliqueBoundP (project : List Attr → Factor Rat) (d : Dom) (mc : List Clique) (set_order : List Attr → List Attr)
    (elim : List Attr) (k : Nat) : Nat :=
  errBound (genSpecs project set_order d mc elim) (chainParent set_order mc elim) k

section coreP
variable {G : Type}

/-- `C11E.Setup` for an arbitrary `project` -/
structure SetupP (project : List Attr → Factor Rat) (d : Dom) (mc : List Clique) (pots : CliqueVec (LogOf ℚ))
    (total : LogOf ℚ) (set_order : List Attr → List Attr) (elim : List Attr) : Prop where
  len : (genSpecs project set_order d mc elim).length = elim.length
  wf : specsWF d.attrs.length [] (genSpecs project set_order d mc elim) = true
  chain : chainWF (genSpecs project set_order d mc elim) (chainParent set_order mc elim) = true
  cons : margConsistent (genSpecs project set_order d mc elim) (chainParent set_order mc elim) total.v = true
  nonneg : ∀ sp ∈ genSpecs project set_order d mc elim, ∀ k, ∀ c ∈ sp.cond k, (0 : Rat) ≤ c
  size : ∀ sp ∈ genSpecs project set_order d mc elim, ∀ k, (sp.cond k).length = sp.size
  attr : ∀ a ∈ elim, ∃ sp ∈ genSpecs project set_order d mc elim, sp.col = d.attrs.idxOf a ∧ sp.size = d.cfg a
  cell : ∀ k, k < elim.length → ∀ c ∈ cells ((stepAttrs set_order mc elim k).map d.cfg),
      ∃ key v, c = key ++ [v] ∧
        key ∈ tuplesOver (attrSize (genSpecs project set_order d mc elim))
          (specAt (genSpecs project set_order d mc elim) k).proj ∧
        ((specAt (genSpecs project set_order d mc elim) k).cond key).getD v 0
          = total.v * marginal d pots (stepAttrs set_order mc elim k)
            (Dom.override (fun _ => 0) (stepAttrs set_order mc elim k) c) / partition d pots ∧
        (specAt (genSpecs project set_order d mc elim) k).proj ++ [(specAt (genSpecs project set_order d mc elim) k).col]
          = posOf d.attrs (stepAttrs set_order mc elim k)

theorem setupP_of (project : List Attr → Factor Rat) (d : Dom) (mc : List Clique)
    (elim : List Attr) (pots : CliqueVec (LogOf ℚ)) (total : LogOf ℚ) (g0 : Graph)
    (hpeo : IsPEO g0 elim) (hcl : CliquesOf g0 mc) (hne : elim ≠ []) (hsub : ∀ a ∈ elim, a ∈ d.attrs)
    (hd : d.WF) (hpos : ∀ p ∈ d, 0 < p.2) (hpr : ProjOK d pots total project)
    (set_order : List Attr → List Attr) (hso : ∀ s, (set_order s).Perm s) :
    SetupP project d mc pots total set_order elim := by
  have hnd : elim.Nodup := hpeo.1
  have hfam := hpr.fam
  set specs := genSpecs project set_order d mc elim with hspecs
  set parent := chainParent set_order mc elim with hparent
  have hlen : specs.length = elim.length := genSpecs_length project set_order d mc elim hne
  have hch : chainWF specs parent = true := chainWF_genSpecs project set_order hso d mc elim hne g0 hpeo hcl
  have hcons : margConsistent specs parent total.v = true :=
    margConsistent_genSpecs hfam hd hpos set_order hso mc elim hnd hne hsub parent hch
  have hspec : ∀ k, k < elim.length → specAt specs k
      = specOf project d.attrs (elim.reverse.getD k "") (stepProj set_order mc elim.reverse k) :=
    fun k hk => specAt_genSpecs project set_order d mc elim hnd k hk
  have hA : ∀ k, k < elim.length → (stepAttrs set_order mc elim k).Nodup ∧ ∀ a ∈ stepAttrs set_order mc elim k, a ∈ d.attrs :=
    fun k hk => ⟨(stepA_ok set_order hso mc d elim hnd hsub k hk).1, (stepA_ok set_order hso mc d elim hnd hsub k hk).2.1⟩
  refine ⟨hlen, ?_, hch, hcons, ?_, ?_, ?_, ?_⟩
  all_goals rw [show genSpecs project set_order d mc elim = specs from rfl]
  · exact specsWF_stepsOrd project set_order hso mc d.attrs elim.reverse (by simpa using hne) (List.nodup_reverse.2 hnd)
      (fun a ha => hsub a (List.mem_reverse.1 ha))
  · intro sp hsp k c hc
    obtain ⟨i, hilt, hie⟩ := List.getElem_of_mem hsp
    have hsi : sp = specAt specs i := by
      unfold specAt
      rw [List.getD_eq_getElem?_getD, List.getElem?_eq_getElem hilt, Option.getD_some, hie]
    rw [hsi, hspec i (by omega)] at hc
    exact row_nonneg _ (hpr.nonneg _ (hA i (by omega)).1 (hA i (by omega)).2) k c hc
  · intro sp hsp k
    obtain ⟨s, _, rfl⟩ := List.mem_map.1 hsp
    exact specOf_cond_length _ _ _ _ k
  · intro a ha
    have hao : a ∈ elim.reverse := List.mem_reverse.2 ha
    have hi : elim.reverse.idxOf a < elim.length := by
      have := List.idxOf_lt_length_iff.2 hao
      simpa using this
    have hoi : elim.reverse.getD (elim.reverse.idxOf a) "" = a := by
      have h2 : elim.reverse.idxOf a < elim.reverse.length := List.idxOf_lt_length_iff.2 hao
      rw [List.getD_eq_getElem?_getD, List.getElem?_eq_getElem h2, Option.getD_some]
      exact List.getElem_idxOf h2
    refine ⟨specAt specs (elim.reverse.idxOf a), Table.specAt_mem specs _ (by omega), ?_, ?_⟩
    · rw [hspec _ hi]
      show d.attrs.idxOf _ = _
      rw [hoi]
    · rw [hspec _ hi]
      show (project (stepAttrs set_order mc elim (elim.reverse.idxOf a))).vals.shape.getLastD 0 = _
      rw [hfam.shape _ (hA _ hi).1 (hA _ hi).2]
      simp only [stepAttrs, List.map_append, List.map_singleton, List.getLastD_concat]
      rw [hoi]
  · intro k hk c hc
    have hc0 := hc
    unfold stepAttrs at hc
    rw [List.map_append, List.map_singleton] at hc
    obtain ⟨key, v, rfl, hkey, hv⟩ := cells_snoc_split _ _ c hc
    refine ⟨key, v, rfl, ?_, ?_, ?_⟩
    · rw [hspec k hk]
      show key ∈ tuplesOver (attrSize specs) (posOf d.attrs (stepProj set_order mc elim.reverse k))
      rw [tuplesOver_posOf _ _ d _ (fun a ha => attrSize_genSpecs hfam hd set_order hso mc elim hnd hne hsub a
        (List.mem_reverse.1 (List.mem_of_mem_take (stepProj_sub set_order hso mc _ k a ha))))]
      exact hkey
    · rw [hspec k hk]
      show (GMQ.NpQ.row (project (stepAttrs set_order mc elim k)).vals key).getD v 0 = _
      have hshape : (project (stepAttrs set_order mc elim k)).vals.shape
          = (stepProj set_order mc elim.reverse k).map d.cfg ++ [d.cfg (elim.reverse.getD k "")] := by
        rw [hfam.shape _ (hA k hk).1 (hA k hk).2]; simp [stepAttrs]
      have h1 := row_getD_last _ _ _ hshape (key ++ [v]) hc
      simp only [List.dropLast_concat, List.getLastD_concat] at h1
      rw [h1, hfam.get_cell hd hpos _ (hA k hk).1 (hA k hk).2 _ hc0]
    · rw [hspec k hk]
      exact (posOf_snoc d.attrs _ _).symm

theorem runSupportOK_of_tableP {project : List Attr → Factor Rat} {d : Dom} {mc : List Clique}
    {pots : CliqueVec (LogOf ℚ)} {total : LogOf ℚ} {set_order : List Attr → List Attr} {elim : List Attr}
    (hs : SetupP project d mc pots total set_order elim) (N : Nat) (F : GMQ.DF)
    (h1 : F.cols = d.attrs) (h2 : F.rows.length = N)
    (h3 : ∀ r ∈ F.rows, ∀ sp ∈ genSpecs project set_order d mc elim, r.getD sp.col 0 < sp.size)
    (h4 : ∀ sp ∈ genSpecs project set_order d mc elim, ∀ key v, (sp.cond key).getD v 0 = 0 →
      cellCount (sp.proj ++ [sp.col]) (key ++ [v]) F.rows = 0) :
    RunSupportOK d pots set_order mc elim N F := by
  refine ⟨h1, h2, ?_, ?_⟩
  · intro r hr a ha
    obtain ⟨sp, hsp, hcol, hsize⟩ := hs.attr a ha
    have := h3 r hr sp hsp
    rwa [hcol, hsize] at this
  · intro k hk c hc hz
    obtain ⟨key, v, rfl, hkey, hval, hposeq⟩ := hs.cell k hk c hc
    have := h4 _ (Table.specAt_mem _ k (lt_of_lt_of_eq hk hs.len.symm)) key v (by rw [hval, hz]; simp)
    rwa [hposeq] at this

/-- **core, rounding mode, any `project` answering `total · marginal / Z`** -/
theorem coreP_round (project : List Attr → Factor Rat) (d : Dom) (mc : List Clique)
    (elim : List Attr) (pots : CliqueVec (LogOf ℚ)) (total : LogOf ℚ) (g0 : Graph)
    (hpeo : IsPEO g0 elim) (hcl : CliquesOf g0 mc) (hne : elim ≠ []) (hsub : ∀ a ∈ elim, a ∈ d.attrs)
    (hd : d.WF) (hpos : ∀ p ∈ d, 0 < p.2) (htot : 0 < total.v) (hpr : ProjOK d pots total project)
    (set_order : List Attr → List Attr) (hso : ∀ s, (set_order s).Perm s)
    (groupby : GMQ.DF → List Attr → List (List Nat × List Nat)) (hgb : GroupbyOK groupby)
    (cr cnr : G → Nat → Nat → List Rat → List Nat × G) (sh : G → List Nat → List Nat × G) (hr : RngOK cr cnr sh)
    (rows : Option Nat) (method : String) (hm : method ≠ "sample") (g : G) :
    RunOK d pots set_order mc elim (cliqueBoundP project d mc set_order elim) (rowCount total.v rows)
      (GMQ.syntheticFrame project set_order groupby cr cnr sh d mc elim total.v rows method g).1 := by
  have hnd : elim.Nodup := hpeo.1
  have hs := setupP_of project d mc elim pots total g0 hpeo hcl hne hsub hd hpos hpr set_order hso
  refine ⟨runSupportOK_of_tableP hs _ _ ?_ ?_ ?_ ?_, ?_⟩
  · exact (C11.GMQ.gen_synth_round _ set_order groupby cr cnr sh hr d mc elim total.v rows method hm g hgb hnd hne hsub hso
      _ total.v htot hs.chain hs.cons hs.nonneg).1
  · exact C11.GMQ.gen_synth_length_round _ set_order groupby cr cnr sh hr d mc elim total.v rows method hm g hgb hnd hne hsub
      hso _ total.v htot hs.chain hs.cons hs.nonneg
  · exact C11.GMQ.gen_synth_in_domain _ set_order groupby cr cnr sh hr d mc elim total.v rows method hm g hgb hnd hne hsub
      hso _ total.v htot hs.chain hs.cons hs.nonneg
  · intro sp hsp key v hz
    exact C11.GMQ.gen_synth_support _ set_order groupby cr cnr sh hr d mc elim total.v rows method hm g hgb hnd hne hsub
      hso _ total.v htot hs.chain hs.cons hs.nonneg sp hsp key v hz
  · intro k hk c hc
    obtain ⟨key, v, rfl, hkey, hval, hposeq⟩ := hs.cell k hk c hc
    have h := C11.GMQ.gen_synth_clique_error_marginal _ set_order groupby cr cnr sh hr d mc elim total.v rows method hm g hgb
      hnd hne hsub hso _ total.v htot hs.chain hs.cons hs.nonneg k (lt_of_lt_of_eq hk hs.len.symm) key hkey v
    dsimp only at h
    unfold mu at h
    rw [hposeq, hval] at h
    have hne0 : total.v ≠ 0 := ne_of_gt htot
    have e : ((rowCount total.v rows : Nat) : Rat) / total.v * (total.v * marginal d pots (stepAttrs set_order mc elim k)
          (Dom.override (fun _ => 0) (stepAttrs set_order mc elim k) (key ++ [v])) / partition d pots)
        = (rowCount total.v rows : Rat) * marginal d pots (stepAttrs set_order mc elim k)
          (Dom.override (fun _ => 0) (stepAttrs set_order mc elim k) (key ++ [v])) / partition d pots := by
      field_simp
    rw [← e]
    exact h

/-- **core, sampling mode, any `project` answering `total · marginal / Z`** -/
theorem coreP_sample (project : List Attr → Factor Rat) (d : Dom) (mc : List Clique)
    (elim : List Attr) (pots : CliqueVec (LogOf ℚ)) (total : LogOf ℚ) (g0 : Graph)
    (hpeo : IsPEO g0 elim) (hcl : CliquesOf g0 mc) (hne : elim ≠ []) (hsub : ∀ a ∈ elim, a ∈ d.attrs)
    (hd : d.WF) (hpos : ∀ p ∈ d, 0 < p.2) (htot : 0 < total.v) (hpr : ProjOK d pots total project)
    (set_order : List Attr → List Attr) (hso : ∀ s, (set_order s).Perm s)
    (groupby : GMQ.DF → List Attr → List (List Nat × List Nat)) (hgb : GroupbyOK groupby)
    (cr cnr : G → Nat → Nat → List Rat → List Nat × G) (sh : G → List Nat → List Nat × G) (hr : RngOK cr cnr sh)
    (rows : Option Nat) (g : G) :
    RunSupportOK d pots set_order mc elim (rowCount total.v rows)
      (GMQ.syntheticFrame project set_order groupby cr cnr sh d mc elim total.v rows "sample" g).1 := by
  have hnd : elim.Nodup := hpeo.1
  have hs := setupP_of project d mc elim pots total g0 hpeo hcl hne hsub hd hpos hpr set_order hso
  have hlen : ∀ counts n g, (GMQ.syntheticCol cr cnr sh "sample" counts n g).1.length = n := by
    intro counts n g
    rw [C11.GMQ.gen_syntheticCol_sample]
    exact (hr.replace g counts.length n _).1
  obtain ⟨hcols, outs, hrows, hfact⟩ := syntheticFrame_core project set_order groupby cr cnr sh d mc
    elim total.v rows "sample" g hgb hnd hne hsub hso hlen
  have hcond : OutsCondS (genSpecs project set_order d mc elim) outs
      (List.replicate (rowCount total.v rows) (List.replicate d.attrs.length 0)) := by
    refine outsCondS_of_outsFact _ _ outs _ ?_ hfact
    intro sp hsp k n g' hc
    obtain ⟨h1, h2⟩ := C11.GMQ.gen_col_sample cr cnr sh hr (sp.cond k) n g' hc
    refine ⟨h1, fun v hv => ?_⟩
    rw [← hs.size sp hsp k]
    exact h2 v hv
  have hok := outsS_of_outsCondS d.attrs.length (rowCount total.v rows) _ outs _ total.v htot hs.wf hs.chain hs.cons
    hs.nonneg hcond
  refine runSupportOK_of_tableP hs _ _ hcols ?_ ?_ ?_
  · rw [hrows]; exact C11.synthTable_length _ _ _ _
  · intro r hr' sp hsp
    rw [hrows] at hr'
    exact (synthTable_sample_pos _ _ _ outs hs.wf hok r hr' sp hsp).1
  · intro sp hsp key v hz
    rw [hrows]
    exact synthTable_sample_support _ _ _ outs hs.wf hok sp hsp key v hz

end coreP

/-! ### the cached `project` is such a `project` -/
section cached
variable {G : Type}

theorem plainQ_get (f : Factor (PlainOf ℚ)) (hf : f.WF) (idx : List Nat) (h : InRange f.vals.shape idx) :
    (plainQ f).vals.get idx = (f.vals.get idx).v :=
  NdArr.get_map (fun x : PlainOf ℚ => x.v) f.vals idx hf.2.2 h

/-- any family of plain tables answering `total · marginal / Z` over the requested attributes, read as exact rationals -/
theorem projOK_of_answers (d : Dom) (pots : CliqueVec (LogOf ℚ)) (total : LogOf ℚ) (hp : PotsOK d pots total)
    (P : List Attr → Factor (PlainOf ℚ))
    (h : ∀ as, as.Nodup → (∀ a ∈ as, a ∈ d.attrs) → FactorOK d (P as) ∧ (P as).dom.attrs = as ∧
      ∀ σ, d.Valid σ → ((P as).sem σ).v = total.v * marginal d pots as σ / partition d pots) :
    ProjOK d pots total (fun as => plainQ (P as)) := by
  refine ⟨⟨?_, ?_, ?_, ?_⟩, ?_⟩
  · intro as hnd hsub
    obtain ⟨hF, hattrs, _⟩ := h as hnd hsub
    show (P as).vals.shape = _
    rw [hF.1.2.1, Dom.shape_eq_map_cfg _ hF.1.1, hattrs]
    apply List.map_congr_left
    intro a ha
    exact ((Dom.agrees_iff _ d hF.1.1).mp hF.2.1 a (by rw [hattrs]; exact ha)).symm
  · intro as hnd hsub σ hσ
    obtain ⟨hF, hattrs, hsem⟩ := h as hnd hsub
    have hin : InRange (P as).vals.shape (as.map σ) := by
      have := Factor.inRange_of_valid _ hF.1.1 σ (hF.valid hp.wf hσ)
      rwa [hattrs, ← hF.1.2.1] at this
    show (plainQ (P as)).vals.get (as.map σ) = _
    rw [plainQ_get _ hF.1 _ hin]
    have := hsem σ hσ
    unfold Factor.sem at this
    rwa [hattrs] at this
  · intro as bs σ has hbs hsub hbsub hσ
    show sumOver d _ σ (fun τ => total.v * marginal d pots as τ / partition d pots) = _
    rw [sumOver_div, sumOver_mul_left, C02.marginal_consistent d pots as bs σ hp.wf has hbs hsub hbsub hσ]
  · intro a ha
    exact C02.project_sums_to_total d pots total [a] hp.wf (List.nodup_singleton a) (by simpa using ha) hp.Z
  · intro as hnd hsub x hx
    obtain ⟨hF, hattrs, hsem⟩ := h as hnd hsub
    have hpos := Bd.sizes_pos_of_partition_ne_zero d pots hp.wf hp.Z
    have hb := Bd.entries_of_sem (P as) hF.1 (fun y => (0 : ℚ) ≤ y.v) (fun idx hidx => by
      have hσ := Bd.valid_assign_sub d hp.wf hpos (P as).dom hF.1.1 hF.2.1 idx hidx
      show (0 : ℚ) ≤ ((P as).sem _).v
      rw [hsem _ hσ]
      exact (Bd.scaled_bounds _ _ _ (le_of_lt hp.total_pos) (Bd.marginal_nonneg d pots as _ hp.nonneg)
        (Bd.marginal_le_partition d pots as _ hp.wf (potsOK_sub hp) hp.nonneg hσ) hp.Z).1)
    have hx' : x ∈ (P as).vals.data.toList.map (fun y => y.v) := by
      simpa [plainQ, NdArr.map] using hx
    obtain ⟨y, hy, rfl⟩ := List.mem_map.1 hx'
    exact hb y hy

variable {nx : C01E.Nx} {d : Dom} {cliques : List Clique} {mode : C01E.ElimMode} {total : LogOf ℚ} {pots : CliqueVec (LogOf ℚ)}

/-- the call of C02E gives the tables hypothesis of C11E -/
theorem potsOK_of_callOK (h : C02E.CallOK nx d cliques mode total pots) : PotsOK d pots total :=
  ⟨h.dom_wf, GMQE2E.factorsOK h.modelOK, GMQE2E.pots_ne h.modelOK, GMQE2E.cover h.modelOK, h.pots_ok.nonneg, h.total_pos, h.Z_ne⟩

/-- every potential of the call lies inside (is over exactly) a clique of the generated model — `hcov` holds by construction -/
theorem cover_of_callOK (h : C02E.CallOK nx d cliques mode total pots) :
    ∀ p ∈ pots, ∃ cl ∈ (C01E.genInit nx d cliques total mode).cliques, ∀ a ∈ p.2.dom.attrs, a ∈ cl := by
  intro p hp
  refine ⟨p.1, ?_, fun a ha => (h.pots_ok.pot_ok p hp).2.1.mem_iff.1 ha⟩
  rw [← h.pots_ok.keys]
  exact List.mem_map_of_mem hp

/-- the cached branch of the generated `project` on the generated model with the generated BP store: a well-formed table over the
requested attributes answering `total · marginal / Z` (C02E `gen_project_cached_end_to_end`) -/
theorem cached_answers (h : C02E.CallOK nx d cliques mode total pots) (greedy : Dom → List Clique → List Attr → List Attr)
    (hgr : GreedyOK greedy d (C01E.genInit nx d cliques total mode).cliques)
    (as : List Attr) (hnd : as.Nodup) (hsub : ∀ a ∈ as, a ∈ d.attrs) :
    FactorOK d (C02E.genProjectC nx d cliques mode total pots greedy true as) ∧
    (C02E.genProjectC nx d cliques mode total pots greedy true as).dom.attrs = as ∧
    ∀ σ, d.Valid σ → ((C02E.genProjectC nx d cliques mode total pots greedy true as).sem σ).v
      = total.v * marginal d pots as σ / partition d pots := by
  have hE := fun σ hσ => C02E.gen_project_cached_end_to_end h greedy true as hnd hsub (hgr as hnd hsub) σ hσ
  refine ⟨?_, (hE _ h.valid0).1, fun σ hσ => (hE σ hσ).2⟩
  have hok := h.modelOK
  cases hf : (C01E.genInit nx d cliques total mode).cliques.find? (fun cl => JT.subset as cl) with
  | none =>
    unfold C02E.genProjectC
    rw [gen_project_miss toPlain greedy _ _ _ pots _ true as hf, C01E.gen_init_domain, C01E.gen_init_total]
    have hF := projectUncached_ok greedy d (C01E.genInit nx d cliques total mode).cliques pots total (potsOK_of_callOK h) true as
      hnd hsub (hgr as hnd hsub)
    exact ⟨toPlain_WF _ hF.1, hF.2.1, hF.2.2⟩
  | some c =>
    have hc : c ∈ (C01E.genInit nx d cliques total mode).cliques := List.mem_of_find?_eq_some hf
    have hs : JT.subset as c = true := List.find?_some (p := fun cl => JT.subset as cl) hf
    rw [C02E.gen_project_cached_hit greedy true as c hf]
    obtain ⟨h1, h2⟩ := marg_ok hok (GMQE2E.cache_keys hok _) (GMQE2E.cache_wf hok _ h.Z_ne) c hc
    exact FactorOK.project Scalar.sum as h1 hnd (fun a ha => (h2 a).2 ((JT.subset_iff as c).1 hs a ha))

/-- `self.project` of an object whose `marginals` is the generated BP store, as `synthetic_data` reads it -/
def genProjectCached (nx : C01E.Nx) (d : Dom) (cliques : List Clique) (mode : C01E.ElimMode) (total : LogOf ℚ)
    (pots : CliqueVec (LogOf ℚ)) (greedy : Dom → List Clique → List Attr → List Attr) : List Attr → Factor Rat :=
  fun as => plainQ (C02E.genProjectC nx d cliques mode total pots greedy true as)

theorem projOK_cached (h : C02E.CallOK nx d cliques mode total pots) (greedy : Dom → List Clique → List Attr → List Attr)
    (hgr : GreedyOK greedy d (C01E.genInit nx d cliques total mode).cliques) :
    ProjOK d pots total (genProjectCached nx d cliques mode total pots greedy) :=
  projOK_of_answers d pots total (potsOK_of_callOK h) _ (cached_answers h greedy hgr)

/-- what `synthetic_data` needs of the generated `__init__`, for every form of `elimination_order`: `self.cliques` are the maximal
cliques of a graph of which `self.elimination_order` is a perfect elimination order -/
theorem callOK_jt (h : C02E.CallOK nx d cliques mode total pots) :
    ∃ g0 : Graph, IsPEO g0 (C01E.genInit nx d cliques total mode).elimination_order ∧
      MaxCliquesOf g0 (C01E.genInit nx d cliques total mode).cliques ∧
      (C01E.genInit nx d cliques total mode).elimination_order ≠ [] ∧
      ∀ a ∈ (C01E.genInit nx d cliques total mode).elimination_order, a ∈ d.attrs := by
  obtain ⟨o, hop, ho2, heq⟩ := C01E.genTree_eq_given nx d cliques mode h.dom_wf h.cliques_ok h.adm.mode_ok h.adm.tos h.adm.choice
  have tf := C01E.treeFacts_of_admissible nx d cliques mode h.dom_wf h.dom_ne h.cliques_ok h.adm
  have hnx : NxContracts nx.find_cliques nx.minimum_spanning_tree d cliques o := ho2 ▸ h.adm.nx_tree
  have hperm := tf.cliques_perm
  rw [C01E.gen_init_cliques, C01E.gen_init_elimination_order]
  rw [heq] at hperm ⊢
  obtain ⟨hpeo, hmax, hne', hsub, _⟩ := gen_jt_model nx.find_cliques nx.minimum_spanning_tree nx.dfs_cliques d cliques o h.dom_wf
    h.dom_ne hop hnx (fun c => hperm.mem_iff)
  exact ⟨_, hpeo, hmax, hne', hsub⟩

/-- **2. end to end with CACHED marginals** — the model the GENERATED `__init__` builds (any form of `elimination_order`, any
admissible behaviour of the library contracts: C02E `CallOK`), `self.marginals` the store of the GENERATED `belief_propagation` on the
model's own potentials, so that the column loop of the GENERATED `synthetic_data` reads the CACHED branch of the generated `project`
(or, for an attribute set inside no clique, its variable-elimination fallback): exactly `rows` records (default `⌊total⌋`), every value
inside its attribute's domain, no record in a clique cell of model probability zero, in rounding mode every clique count within a
bound independent of `rows` of `rows · marginal / Z`; and every record has positive probability under the joint -/
theorem gen_synthetic_data_end_to_end_cached (h : C02E.CallOK nx d cliques mode total pots)
    (greedy : Dom → List Clique → List Attr → List Attr)
    (hgr : GreedyOK greedy d (C01E.genInit nx d cliques total mode).cliques)
    (set_order : List Attr → List Attr) (hso : ∀ s, (set_order s).Perm s)
    (groupby : GMQ.DF → List Attr → List (List Nat × List Nat)) (hgb : GroupbyOK groupby)
    (cr cnr : G → Nat → Nat → List Rat → List Nat × G) (sh : G → List Nat → List Nat × G) (hr : RngOK cr cnr sh)
    (rows : Option Nat) (method : String) (g : G) :
    let M := C01E.genInit nx d cliques total mode
    let project := genProjectCached nx d cliques mode total pots greedy
    let F := fun m => (GMQ.syntheticFrame project set_order groupby cr cnr sh M.domain M.cliques M.elimination_order M.total.v rows
      m g).1
    (method ≠ "sample" → RunOK d pots set_order M.cliques M.elimination_order
      (cliqueBoundP project d M.cliques set_order M.elimination_order) (rowCount total.v rows) (F method)) ∧
    RunSupportOK d pots set_order M.cliques M.elimination_order (rowCount total.v rows) (F "sample") ∧
    JointSupportOK d pots (F method) := by
  intro M project F
  obtain ⟨g0, hpeo, hmax, hne', hsub⟩ := callOK_jt h
  have hp := potsOK_of_callOK h
  have hpos := Bd.sizes_pos_of_partition_ne_zero d pots hp.wf hp.Z
  have hpr := projOK_cached h greedy hgr
  have hF : ∀ m, F m = (GMQ.syntheticFrame project set_order groupby cr cnr sh d M.cliques M.elimination_order total.v rows m g).1 := by
    intro m
    show (GMQ.syntheticFrame project set_order groupby cr cnr sh M.domain M.cliques M.elimination_order M.total.v rows m g).1 = _
    rw [C01E.gen_init_domain, C01E.gen_init_total]
  have hround : ∀ m, m ≠ "sample" → RunOK d pots set_order M.cliques M.elimination_order
      (cliqueBoundP project d M.cliques set_order M.elimination_order) (rowCount total.v rows) (F m) := by
    intro m hm
    rw [hF]
    exact coreP_round project d M.cliques M.elimination_order pots total g0 hpeo hmax.toCliquesOf hne' hsub hp.wf hpos hp.total_pos
      hpr set_order hso groupby hgb cr cnr sh hr rows m hm g
  have hsample : RunSupportOK d pots set_order M.cliques M.elimination_order (rowCount total.v rows) (F "sample") := by
    rw [hF]
    exact coreP_sample project d M.cliques M.elimination_order pots total g0 hpeo hmax.toCliquesOf hne' hsub hp.wf hpos hp.total_pos
      hpr set_order hso groupby hgb cr cnr sh hr rows g
  refine ⟨hround method, hsample, ?_⟩
  have hrun : RunSupportOK d pots set_order M.cliques M.elimination_order (rowCount total.v rows) (F method) := by
    by_cases hm : method = "sample"
    · rw [hm]; exact hsample
    · exact (hround method hm).1
  exact jointSupportOK_of_run d pots hp.wf hp.nonneg hp.Z (potsOK_sub hp) set_order hso M.cliques M.elimination_order hpeo.1 hsub
    (cover_steps set_order hso M.cliques M.elimination_order g0 hpeo hmax pots (cover_of_callOK h)) _ _ hrun

/-- the same call WITHOUT cached marginals (C02E `genProjectU`): C11E's statements and the joint support, for every form of
`elimination_order` at once — and the two frames are built from tables that agree cell by cell (C02E `gen_query_paths_one_joint` (c)) -/
theorem gen_synthetic_data_end_to_end_uncached (h : C02E.CallOK nx d cliques mode total pots)
    (greedy : Dom → List Clique → List Attr → List Attr)
    (hgr : GreedyOK greedy d (C01E.genInit nx d cliques total mode).cliques)
    (set_order : List Attr → List Attr) (hso : ∀ s, (set_order s).Perm s)
    (groupby : GMQ.DF → List Attr → List (List Nat × List Nat)) (hgb : GroupbyOK groupby)
    (cr cnr : G → Nat → Nat → List Rat → List Nat × G) (sh : G → List Nat → List Nat × G) (hr : RngOK cr cnr sh)
    (rows : Option Nat) (method : String) (g : G) :
    let M := C01E.genInit nx d cliques total mode
    let project := genProject greedy d M.cliques pots total
    let F := fun m => (GMQ.syntheticFrame project set_order groupby cr cnr sh M.domain M.cliques M.elimination_order M.total.v rows
      m g).1
    (method ≠ "sample" → RunOK d pots set_order M.cliques M.elimination_order
      (cliqueBound greedy d M.cliques pots total set_order M.elimination_order) (rowCount total.v rows) (F method)) ∧
    RunSupportOK d pots set_order M.cliques M.elimination_order (rowCount total.v rows) (F "sample") ∧
    JointSupportOK d pots (F method) := by
  intro M project F
  obtain ⟨g0, hpeo, hmax, hne', hsub⟩ := callOK_jt h
  have hp := potsOK_of_callOK h
  have hF : ∀ m, F m = (GMQ.syntheticFrame project set_order groupby cr cnr sh d M.cliques M.elimination_order total.v rows m g).1 := by
    intro m
    show (GMQ.syntheticFrame project set_order groupby cr cnr sh M.domain M.cliques M.elimination_order M.total.v rows m g).1 = _
    rw [C01E.gen_init_domain, C01E.gen_init_total]
  refine ⟨fun hm => ?_, ?_, ?_⟩
  · rw [hF]
    exact gen_synthetic_data_core greedy d M.cliques M.elimination_order pots total g0 hpeo hmax.toCliquesOf hne' hsub hp hgr
      set_order hso groupby hgb cr cnr sh hr rows method hm g
  · rw [hF]
    exact gen_synthetic_data_core_sample greedy d M.cliques M.elimination_order pots total g0 hpeo hmax.toCliquesOf hne' hsub hp hgr
      set_order hso groupby hgb cr cnr sh hr rows g
  · rw [hF]
    exact gen_synthetic_data_core_joint greedy d M.cliques M.elimination_order pots total g0 hpeo hmax hne' hsub hp
      (cover_of_callOK h) hgr set_order hso groupby hgb cr cnr sh hr rows method g

end cached

/-! ## the hypotheses are satisfiable: the chain `a — b — c` of C11E (`ψ_ab(1, 0) = 0`) -/
section examples

/-- every potential of the chain lies inside a clique of the model -/
theorem exCover : ∀ p ∈ exPots, ∃ cl ∈ exMc, ∀ a ∈ p.2.dom.attrs, a ∈ cl := by decide +kernel

/-- a full assignment to which the joint gives probability zero: `a = 1, b = 0, c = 0` -/
def exX : Attr → Nat := fun a => if a = "a" then 1 else 0

theorem exX_cell : exD.attrs.map exX = [1, 0, 0] := by decide
theorem exX_joint : joint exPots exX = 0 := by decide +kernel
/-- … while each of its two-way cells `(b, c) = (0, 0)` has positive clique marginal: only the JOINT statement excludes more than the
clique `(a, b)` does -/
theorem exX_bc : marginal exD exPots ["b", "c"] exX ≠ 0 := by decide +kernel

/-- **all hypotheses of `gen_synthetic_data_core_joint` hold on the chain** (deterministic generator, `rows = None`, `total = 7`):
every record has positive joint probability, and the cell `(1, 0, 0)` of the full table — joint probability zero — stays empty -/
example : cellCount (posOf exD.attrs exD.attrs) (exD.attrs.map exX)
    (GMQ.syntheticFrame (genProject (fun _ _ e => e) exD exMc exPots ⟨7⟩) (fun s => s) groupbySpec detR detNR detSh exD exMc exElim
      7 none "round" ()).1.rows = 0 :=
  (gen_synthetic_data_core_joint (fun _ _ e => e) exD exMc exElim exPots ⟨7⟩ exG exPEO exMaxCliquesOf (by decide) (by decide)
    exPotsOK exCover exGreedyOK (fun s => s) (fun s => List.Perm.refl s) groupbySpec groupbyOK_spec detR detNR detSh detRngOK none
    "round" ()).2 exX exX_joint

/-- … sampling mode, 12 records -/
example := (gen_synthetic_data_core_joint (fun _ _ e => e) exD exMc exElim exPots ⟨7⟩ exG exPEO exMaxCliquesOf (by decide) (by decide)
    exPotsOK exCover exGreedyOK (fun s => s) (fun s => List.Perm.refl s) groupbySpec groupbyOK_spec detR detNR detSh detRngOK (some 12)
    "sample" ()).1

/-- the end-to-end theorem for the generated construction: its remaining hypotheses are the networkx contracts of C12G (`NxContracts`,
assumed here as in C11E) and the listing contract of `dfs_preorder_nodes`; `hcov` is a hypothesis on the listing it returns -/
example (fc : Graph → List Clique) (mst : WGraph → Tree) (hnx : NxContracts fc mst exD exMc exElim)
    (hcov : ∀ p ∈ exPots, ∃ cl ∈ JTG.maximal_cliques (fun t => t.nodes) (JTG.init_given fc mst exD exMc exElim).1,
      ∀ a ∈ p.2.dom.attrs, a ∈ cl) :=
  (gen_synthetic_data_joint_support fc mst (fun t => t.nodes) exD exMc exElim (by decide) (by decide) hnx (fun _ => Iff.rfl)
    (fun _ _ e => e) exPots ⟨7⟩ exPotsOK hcov (fun attrs _ _ => elimOK_invert exD (by decide) attrs) (fun s => s)
    (fun s => List.Perm.refl s) groupbySpec groupbyOK_spec detR detNR detSh detRngOK (some 10) "round" ()).2 exX exX_joint

/-- **`hcov` cannot be dropped**: with a potential over `(a, c)` — inside no clique of the chain — a table can have everything C11E
proves of a run (`RunSupportOK`: columns, length, domain, no record in a visited-clique cell of marginal zero) and still contain a
record of joint probability zero -/
def exPotsAC : CliqueVec (LogOf ℚ) :=
  [(["a", "b"], ⟨[("a", 2), ("b", 2)], ⟨[2, 2], #[⟨1⟩, ⟨1⟩, ⟨1⟩, ⟨1⟩]⟩⟩),
   (["b", "c"], ⟨[("b", 2), ("c", 2)], ⟨[2, 2], #[⟨1⟩, ⟨1⟩, ⟨1⟩, ⟨1⟩]⟩⟩),
   (["a", "c"], ⟨[("a", 2), ("c", 2)], ⟨[2, 2], #[⟨0⟩, ⟨1⟩, ⟨1⟩, ⟨1⟩]⟩⟩)]

theorem joint_support_needs_cover :
    RunSupportOK exD exPotsAC (fun s => s) exMc exElim 1 ⟨exD.attrs, [[0, 0, 0]]⟩ ∧
    ¬ JointSupportOK exD exPotsAC ⟨exD.attrs, [[0, 0, 0]]⟩ := by
  refine ⟨⟨rfl, rfl, by decide, ?_⟩, fun h => ?_⟩
  · intro k hk c hc hz
    exfalso
    revert hz
    revert c
    have hk3 : k < 3 := hk
    rcases k with _ | _ | _ | k
    · decide +kernel
    · decide +kernel
    · decide +kernel
    · omega
  · have h1 := h.1 [0, 0, 0] (by simp)
    have e : joint exPotsAC (rowAssign exD.attrs [0, 0, 0]) = 0 := by decide +kernel
    rw [e, zero_div] at h1
    exact lt_irrefl _ h1

/-! ### the number of rows -/

example : rowCount (1 / 2) none = 0 := rowCount_none_lt_one _ (by norm_num)
example : rowCount (73 / 10) none = 7 := by decide +kernel
example : rowCount (73 / 10) (some 0) = 0 := rfl
example : rowCount (73 / 10) (some 0) ≠ rowCount (73 / 10) none := rowCount_zero_ne_default _ (by norm_num)

theorem exPotsOK_half : PotsOK exD exPots ⟨1 / 2⟩ :=
  ⟨exPotsOK.wf, exPotsOK.factors, exPotsOK.ne, exPotsOK.cover, exPotsOK.nonneg, by norm_num, exPotsOK.Z⟩

/-- `total = 1/2`, `rows = None`: the hypotheses of `gen_synth_rows_default` hold and the frame is empty -/
example (fc : Graph → List Clique) (mst : WGraph → Tree) (hnx : NxContracts fc mst exD exMc exElim) :=
  (gen_synth_rows_default fc mst (fun t => t.nodes) exD exMc exElim (by decide) (by decide) hnx (fun _ => Iff.rfl)
    (fun _ _ e => e) exPots ⟨1 / 2⟩ exPotsOK_half (fun attrs _ _ => elimOK_invert exD (by decide) attrs) (fun s => s)
    (fun s => List.Perm.refl s) groupbySpec groupbyOK_spec detR detNR detSh detRngOK "round" ()).2.1 (by norm_num)

/-! ### cached marginals: the call of C02E (`GraphicalModel(exD, [(a, b), (b, c)], 100, elimination_order = [a, c, b])`, potentials with
the structural zeros `ψ_ab(1, 0) = 0`, `ψ_bc(1, 1) = 0`, the store of the generated `belief_propagation`) -/

theorem exX_joint' : joint C01.exPots exX = 0 := by decide +kernel

example := gen_synthetic_data_end_to_end_cached C02E.ex_callOK (fun _ _ e => e)
  (fun attrs _ _ => elimOK_invert _ (by decide) attrs) (fun s => s) (fun s => List.Perm.refl s) groupbySpec groupbyOK_spec
  detR detNR detSh detRngOK (some 10) "round" ()

/-- the cell `(a, b, c) = (1, 0, 0)` stays empty with cached marginals too (None mode, the second call of C02E) -/
example := (gen_synthetic_data_end_to_end_cached C02E.ex_callOK' (fun _ _ e => e)
  (fun attrs _ _ => elimOK_invert _ (by decide) attrs) (fun s => s) (fun s => List.Perm.refl s) groupbySpec groupbyOK_spec
  detR detNR detSh detRngOK none "sample" ()).2.2.2 exX (by
    have : joint C01.exPots.reverse exX = joint C01.exPots exX := by
      unfold joint
      simp only [List.map_reverse, List.prod_reverse]
    rw [this]; exact exX_joint')

example := projOK_cached C02E.ex_callOK (fun _ _ e => e) (fun attrs _ _ => elimOK_invert _ (by decide) attrs)
example := callOK_jt C02E.ex_callOK

end examples

end PGM.C11.F
