import PGM.Generated.SlicesR
import PGM.Proofs.Softmax
import PGM.Proofs.ScalarTac
import Mathlib.Analysis.SpecialFunctions.Log.Basic
import Mathlib.Algebra.BigOperators.Group.Finset.Basic
/-!
# C20 — selection and noise primitives are exactly calibrated

The coefficient / scale expressions are regenerated from `mechanisms/*.py` on every run
(`PGM/Generated/SlicesR`).  `softmaxP s i = exp(sᵢ − log Σⱼ exp sⱼ)` is what `scipy.special.softmax`
and `exp(scores − logsumexp(scores))` compute.
-/
/- the proofs below are written to survive regeneration of `SlicesR` (`simp only [defs] <;> pgm_arith`),
so some simp arguments / `<;>` / closing tactics are redundant for the current shape of the definitions -/
set_option linter.unusedSimpArgs false
set_option linter.unnecessarySeqFocus false
set_option linter.unreachableTactic false
set_option linter.unusedTactic false
namespace PGM.C20
open PGM.Gen.R
open Finset

/-- probability vector produced from scores: `exp(s − logsumexp s)` -/
noncomputable def softmaxP {n : ℕ} (s : Fin n → ℝ) (i : Fin n) : ℝ :=
  Real.exp (s i - Real.log (∑ j, Real.exp (s j)))

/-- softmax is the normalised exponential -/
theorem softmaxP_eq {n : ℕ} (s : Fin n → ℝ) (i : Fin n) (hn : 0 < n) :
    softmaxP s i = Real.exp (s i) / ∑ j, Real.exp (s j) := by
  unfold softmaxP
  exact PGM.Softmax.exp_sub_log_sum s i hn

/-- **exponential-mechanism probability** (base class primitive, `mechanism.py`): with qualities
`q`, positive base measure `b` (entered as `log b`), `ε > 0`, sensitivity `Δ > 0`, candidate `i` is
drawn with probability `bᵢ·exp(ε qᵢ/(2Δ)) / Σⱼ bⱼ·exp(ε qⱼ/(2Δ))` — the shift by `max q` cancels.

Coverage (audit 2, `B_c20_base`): this is the DICT path of `Mechanism.exponential_mechanism` (`mechanism.py:65-71`), where the
source takes `np.log` of the base measure before adding it to the scores.  On the ARRAY path (`qualities` not a dict) the source
adds `base_measure` AS GIVEN, i.e. it is read as a LOG-measure there: the probability is `∝ exp(bᵢ)·exp(ε qᵢ/(2Δ))` (this theorem
with `b := exp ∘ b`).  The regenerated form of the array path is `C05S.gen_mech_em_array_base`; no shipped mechanism calls the
array path with a base measure.  `Mechanism.permute_and_flip` (and `generalized_exponential_mechanism`) are not translated and not
covered by any theorem. -/
theorem em_probability {n : ℕ} (q b : Fin n → ℝ) (qmax eps Δ : ℝ) (hn : 0 < n) (hb : ∀ i, 0 < b i)
    (hΔ : 0 < Δ) (i : Fin n) :
    softmaxP (fun j => mech_em_score_base eps Δ (mech_em_shift (q j) qmax) (Real.log (b j))) i
      = b i * Real.exp (eps * q i / (2 * Δ)) / ∑ j, b j * Real.exp (eps * q j / (2 * Δ)) := by
  have key : ∀ j, Real.exp (mech_em_score_base eps Δ (mech_em_shift (q j) qmax) (Real.log (b j)))
      = (b j * Real.exp (eps * q j / (2 * Δ))) * Real.exp (-(eps * qmax / (2 * Δ))) := by
    intro j
    have hs : mech_em_score_base eps Δ (mech_em_shift (q j) qmax) (Real.log (b j))
        = eps * q j / (2 * Δ) + -(eps * qmax / (2 * Δ)) + Real.log (b j) := by
      unfold mech_em_score_base mech_em_shift
      field_simp
      ring
    rw [hs, Real.exp_add, Real.exp_add, Real.exp_log (hb j)]
    ring
  rw [softmaxP_eq _ _ hn]
  simp only [key]
  exact PGM.Softmax.normalised_mul_cancel (fun j => b j * Real.exp (eps * q j / (2 * Δ))) _
    (Real.exp_pos _).ne' i

/-- without base measure -/
theorem em_probability_nobase {n : ℕ} (q : Fin n → ℝ) (qmax eps Δ : ℝ) (hn : 0 < n) (hΔ : 0 < Δ) (i : Fin n) :
    softmaxP (fun j => mech_em_score eps Δ (mech_em_shift (q j) qmax)) i
      = Real.exp (eps * q i / (2 * Δ)) / ∑ j, Real.exp (eps * q j / (2 * Δ)) := by
  have key : ∀ j, Real.exp (mech_em_score eps Δ (mech_em_shift (q j) qmax))
      = Real.exp (eps * q j / (2 * Δ)) * Real.exp (-(eps * qmax / (2 * Δ))) := by
    intro j
    have hs : mech_em_score eps Δ (mech_em_shift (q j) qmax)
        = eps * q j / (2 * Δ) + -(eps * qmax / (2 * Δ)) := by
      unfold mech_em_score mech_em_shift
      field_simp
      ring
    rw [hs, Real.exp_add]
  rw [softmaxP_eq _ _ hn]
  simp only [key]
  exact PGM.Softmax.normalised_mul_cancel (fun j => Real.exp (eps * q j / (2 * Δ))) _
    (Real.exp_pos _).ne' i

/-- shift invariance: adding a constant to every quality changes no probability -/
theorem em_shift_invariant {n : ℕ} (q : Fin n → ℝ) (qmax eps Δ c : ℝ) (hn : 0 < n) (i : Fin n) :
    softmaxP (fun j => mech_em_score eps Δ (mech_em_shift (q j + c) (qmax + c))) i
      = softmaxP (fun j => mech_em_score eps Δ (mech_em_shift (q j) qmax)) i := by
  have key : ∀ j, mech_em_shift (q j + c) (qmax + c) = mech_em_shift (q j) qmax := by
    intro j
    unfold mech_em_shift
    ring
  have _ := hn
  simp only [key]

/-- after the max-shift every exponent is ≤ 0: scores of any magnitude are safe to exponentiate -/
theorem em_exp_args_nonpos {n : ℕ} (q : Fin n → ℝ) (qmax eps Δ : ℝ) (heps : 0 ≤ eps) (hΔ : 0 < Δ)
    (hmax : ∀ j, q j ≤ qmax) (j : Fin n) :
    mech_em_score eps Δ (mech_em_shift (q j) qmax) ≤ 0 := by
  have hq : q j - qmax ≤ 0 := sub_nonpos.mpr (hmax j)
  have hs : mech_em_score eps Δ (mech_em_shift (q j) qmax) = (eps / (2 * Δ)) * (q j - qmax) := by
    unfold mech_em_score mech_em_shift
    field_simp
    ring
  rw [hs]
  exact mul_nonpos_of_nonneg_of_nonpos (div_nonneg heps (by positivity)) hq

/-- MST's and adaptive grid's own primitives: coefficient `ε/(2Δ)`, and `ε/Δ` only in the declared
monotonic variant -/
theorem mst_em_coefficient (eps Δ q qmax : ℝ) :
    mst_em_scores (mst_em_coef false) eps Δ q qmax = eps / (2 * Δ) * (q - qmax) ∧
    mst_em_scores (mst_em_coef true) eps Δ q qmax = eps / Δ * (q - qmax) := by
  constructor <;>
    simp only [mst_em_scores, mst_em_coef, Bool.false_eq_true, reduceIte] <;> pgm_arith

theorem ada_em_coefficient (eps Δ q qmax : ℝ) :
    ada_em_scores (ada_em_coef false) eps Δ q qmax = eps / (2 * Δ) * (q - qmax) ∧
    ada_em_scores (ada_em_coef true) eps Δ q qmax = eps / Δ * (q - qmax) := by
  constructor <;>
    simp only [ada_em_scores, ada_em_coef, Bool.false_eq_true, reduceIte] <;> pgm_arith

/-- MWEM's selection: coefficient `ε/(2Δ)` with `Δ = 2` under bounded adjacency, `1` otherwise -/
theorem mwem_sel_coefficient (eps e emax : ℝ) :
    mwem_sel_score eps (mwem_sel_sensitivity false) e emax = eps / 2 * (e - emax) ∧
    mwem_sel_score eps (mwem_sel_sensitivity true) e emax = eps / 4 * (e - emax) := by
  constructor <;>
    simp only [mwem_sel_score, mwem_sel_sensitivity, Bool.false_eq_true, reduceIte] <;> pgm_arith

/-- the generalised exponential mechanism hands its scores on with sensitivity 1 -/
theorem gem_sensitivity : mech_gem_sensitivity = 1 := by
  simp only [mech_gem_sensitivity] <;> pgm_arith

/-- **log-ratio bound**: if two score vectors differ by at most `B` in every coordinate, every
log-probability moves by at most `2B` — a selection with coefficient `c` on qualities of
sensitivity `Δ` is `2cΔ`-DP (used by the ledgers of C05 as `realisedEps`) -/
theorem em_logratio_le {n : ℕ} (s s' : Fin n → ℝ) (B : ℝ) (hn : 0 < n) (h : ∀ j, |s j - s' j| ≤ B) (i : Fin n) :
    |Real.log (softmaxP s i) - Real.log (softmaxP s' i)| ≤ 2 * B := by
  unfold softmaxP
  exact PGM.Softmax.abs_log_softmax_sub_le s s' B hn h i

/-- Laplace scale helper: `Δ/ε`, the sensitivity doubled under bounded adjacency -/
theorem laplace_scale (Δ eps : ℝ) :
    mech_laplace_scale false Δ eps = Δ / eps ∧ mech_laplace_scale true Δ eps = 2 * Δ / eps := by
  constructor <;>
    simp only [mech_laplace_scale, Bool.false_eq_true, reduceIte] <;> pgm_arith

/-- Gaussian scale helper: `(2 if bounded else 1)·Δ·σ_ana(ε,δ)` with `σ_ana` the analytic-Gaussian
calibration (a parameter: `autodp` is a third-party package) -/
theorem gaussian_scale (sigma_ana Δ eps delta : ℝ) :
    mech_gaussian_scale false sigma_ana Δ eps delta = Δ * sigma_ana ∧
    mech_gaussian_scale true sigma_ana Δ eps delta = 2 * Δ * sigma_ana := by
  constructor <;>
    simp only [mech_gaussian_scale, Bool.false_eq_true, reduceIte] <;> pgm_arith

/-- the samplers are called with exactly the scale they are given -/
theorem sampler_scale_passthrough (x : ℝ) :
    mech_gaussian_noise_scale_arg x = x ∧ mech_laplace_noise_scale_arg x = x := by
  constructor <;>
    simp only [mech_gaussian_noise_scale_arg, mech_laplace_noise_scale_arg, Bool.false_eq_true, reduceIte] <;> pgm_arith

end PGM.C20
