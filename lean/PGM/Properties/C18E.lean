import PGM.Properties.C18G
import PGM.Properties.C17G
import PGM.Properties.C16G
import PGM.Proofs.LocalE2E
import PGM.Proofs.LocalE2EShape
import PGM.Proofs.GradLaid
/-!
# C18 (end to end) — the generated `LocalInference` run on the generated oracles returns valid tables

`Properties/C18G.lean` ties `src/mbi/local_inference.py` to the hand model over an ABSTRACT oracle object `Local.Obj`;
`C16G` / `C17G` tie `factor_graph.py` / `region_graph.py` to the oracle models.  This file plugs the second into the first.

## 1. the oracle objects (`objGBP`, `objHPS`, `objLBP`)

The state `σ` of an object is what `LocalInference` reads or writes on it (`potentials`, `marginals`, `messages`, `damping`,
`total`); the graph structure (`regions`, `cliques`, `children`, `parents`, `N`, `D`, `B`, `message_order`, counting numbers,
`iters`, `convergence`) is fixed after `__init__` and is a parameter of the object, because `Obj.pf` — `primal_feasibility` — takes
no state.  `bp` is the GENERATED `generalized_belief_propagation` / `hazan_peng_shashua` / `loopy_belief_propagation`, `pf` the
generated `primal_feasibility`.  `Obj.Frame` and `Obj.PotLens` hold for all three (`objGBP_frame`, …) — for `FactorGraph` only
after dropping the two attributes `beliefs` and `marginals`, which `loopy_belief_propagation` also writes: on the full state
`Frame.restore_bp` is FALSE (`objLBPfull_not_frame`); the generated method does not read them (they are not among its
parameters), so the restricted object is a faithful projection (`objLBP_proj`), and what the source stores in `self.marginals`
is the value it returns (`lbp_stores_what_it_returns`).

## 2. the returned tables are valid (`gen_local_estimate_tables_valid_*`)

`LocalE2E.mda_inv` carries an invariant through `Local.mda`; with `gen_mda` (C18G) it applies to the generated
`mirror_descent_auto`.  Invariant: the potentials are laid out on the model's cliques (`Laid`), the persisted messages are
tables over domains without an extent 0 (`PosMsgs` / `PosState`) and `total` is unchanged.  Conclusion, for each string oracle as
the generated `setupModel` selects it, on every successful run of the generated `estimate`, from hypotheses on the inputs
(domain without extent 0, measured cliques duplicate-free tuples of attributes of the domain, `total > 0`, cold start, no
structural zeros) and one hypothesis on the loss function (`hgrad`: its gradient is laid out on the model's cliques whenever the
marginals are valid tables on them — the analogue of `hgrad` in C10E).

**CAVEAT (independent audit).  The three theorems of this section are CONDITIONAL on `hgrad`, and the real generated loss
`LocalG.marginalLossL2` / `L1` does NOT satisfy it**: for 'convex' the gradient is keyed like its argument (by `g.regions`) while
`hgrad` wants the key order of `g.cliques` (`C18H.hgrad_convex_false`, machine-checked on `exMeas`); for 'approx' / 'pairwise'
`TablesOn` admits tables with valid values and junk domains, on which the gradient is not laid out
(`audit/scratch/c18_more.lean`, `hgrad_approx_false`).  They remain true statements about losses that do satisfy `hgrad`
(e.g. a constant gradient), but THE THEOREMS TO CITE for `LocalInference` are
`C18H.gen_local_estimate_tables_valid_{pairwise,approx,convex}_{L2,L1}`, which have no hypothesis on the loss.  In addition the
conclusion `∃ mu st, …` of the 'pairwise' form below is derivable from `Laid dom cl m.potentials` alone (it does not identify
the `mu` of the run); the C18H form concludes about the `mu` the generated `mirror_descent_auto` run returned.  Conclusions:

* the stored `model.marginals` are the generated oracle's output on the stored `model.potentials`, in a reachable object state;
* their keys are the model's cliques and every table has strictly positive entries summing to `total`.

Structural zeros (`-inf` entries in the potentials): `Laid` and the message invariants are unaffected, but `ValidTable` becomes
"non-negative": `exp(-inf) = 0`, and a clique whose every cell is `-inf` gives `0/0`.  The real-number instance has no `-inf`;
that case is NOT covered here (it is tested, C10).

## 3. disjoint measured cliques: the oracle inside the loop is the exact oracle (`gen_local_disjoint_exact_form`)

On a pairwise disjoint family every call of the three generated oracles made during a run returns `normalise total θ_c` clique by
clique (for LBP: on potentials laid out on the cliques and from a message state satisfying the invariant `Oracle.Inv`, which
every call re-establishes), i.e. cell by cell `total · marginal / Z` of the product model — the exact oracle of C01
(`C16.disjoint_oracle_exact`, `C18.exact_eq_approx_disjoint`).  Convergence of the descent stays a per-input test.
-/
namespace PGM.C18E
open PGM PGM.JT PGM.Local PGM.LocalE2E PGM.Oracle PGM.C18.LocalG
open PGM.LocalGen (HalfLaw)
set_option linter.unusedSectionVars false
set_option linter.unusedVariables false

/-! ## 1. the objects -/

/-- what `LocalInference` reads / writes on a `RegionGraph` -/
structure RGState (α : Type) where
  potentials : CliqueVec α
  marginals : CliqueVec α
  messages : RGG.Msgs α
  damping : α
  total : α

/-- what `LocalInference` and later oracle calls read on a `FactorGraph` -/
structure FGState (α : Type) where
  potentials : CliqueVec α
  messages : FGG.MuN α × FGG.MuF α
  total : α

/-- every attribute `loopy_belief_propagation` writes -/
structure FGFull (α : Type) where
  potentials : CliqueVec α
  marginals : CliqueVec α
  beliefs : List (Attr × FGG.PyVal α)
  messages : FGG.MuN α × FGG.MuF α
  total : α

section objects
variable {α : Type} [Scalar α]

/-- `RegionGraph(…, convex=False)`: `belief_propagation = generalized_belief_propagation` -/
def objGBP (dom : Dom) (g : RG.Graph) (iters : Nat) : Obj α (RGG.Msgs α) (RGState α) where
  bp := fun s θ =>
    ((RGG.generalizedBeliefPropagation dom g.regions g.cliques g.N g.D g.B g.messageOrder s.total iters θ s.messages).1,
     { s with messages :=
        (RGG.generalizedBeliefPropagation dom g.regions g.cliques g.N g.D g.B g.messageOrder s.total iters θ s.messages).2 })
  pf := RGG.primalFeasibility g.cliques g.children
  getPot := fun s => s.potentials
  setPot := fun s p => { s with potentials := p }
  getMsg := fun s => s.messages
  setMsg := fun s m => { s with messages := m }
  hasDamping := fun _ => true
  getDamp := fun s => s.damping
  setDamp := fun s d => { s with damping := d }
  setMarg := fun s m => { s with marginals := m }
  setTotal := fun s t => { s with total := t }
  cliques := fun _ => g.cliques
  domain := fun _ => dom

/-- `RegionGraph(…, convex=True)`: `belief_propagation = hazan_peng_shashua`, which reads `self.damping` -/
def objHPS (dom : Dom) (g : RG.Graph) (c0 : RGG.Region → α) (conv : α) (iters : Nat) : Obj α (RGG.Msgs α) (RGState α) where
  bp := fun s θ =>
    ((RGG.hazanPengShashua dom g.regions g.cliques g.children g.parents c0 s.total s.damping conv iters θ s.messages).1,
     { s with messages :=
        (RGG.hazanPengShashua dom g.regions g.cliques g.children g.parents c0 s.total s.damping conv iters θ s.messages).2 })
  pf := RGG.primalFeasibility g.cliques g.children
  getPot := fun s => s.potentials
  setPot := fun s p => { s with potentials := p }
  getMsg := fun s => s.messages
  setMsg := fun s m => { s with messages := m }
  hasDamping := fun _ => true
  getDamp := fun s => s.damping
  setDamp := fun s d => { s with damping := d }
  setMarg := fun s m => { s with marginals := m }
  setTotal := fun s t => { s with total := t }
  cliques := fun _ => g.cliques
  domain := fun _ => dom

/-- `FactorGraph(…, convex=False)` with every attribute the call writes -/
def objLBPfull (dom : Dom) (cliques : List Clique) (iters : Nat) : Obj α (FGG.MuN α × FGG.MuF α) (FGFull α) where
  bp := fun s θ =>
    let out := FGG.loopyBeliefPropagation dom cliques s.total iters s.messages θ
    (out.1, { s with potentials := out.2.1, beliefs := out.2.2.1, messages := out.2.2.2.1, marginals := out.2.2.2.2 })
  pf := FGG.primalFeasibility
  getPot := fun s => s.potentials
  setPot := fun s p => { s with potentials := p }
  getMsg := fun s => s.messages
  setMsg := fun s m => { s with messages := m }
  hasDamping := fun _ => false
  getDamp := fun _ => Scalar.zero
  setDamp := fun s _ => s
  setMarg := fun s m => { s with marginals := m }
  setTotal := fun s t => { s with total := t }
  cliques := fun _ => cliques
  domain := fun _ => dom

/-- `FactorGraph(…, convex=False)` without `beliefs` / `marginals` (written by every call, read by none): `setMarg` is then
invisible; what `model.marginals` holds is stated in `lbp_stores_what_it_returns` and in the theorems of part 2 -/
def objLBP (dom : Dom) (cliques : List Clique) (iters : Nat) : Obj α (FGG.MuN α × FGG.MuF α) (FGState α) where
  bp := fun s θ =>
    ((FGG.loopyBeliefPropagation dom cliques s.total iters s.messages θ).1,
     { s with potentials := (FGG.loopyBeliefPropagation dom cliques s.total iters s.messages θ).2.1,
              messages := (FGG.loopyBeliefPropagation dom cliques s.total iters s.messages θ).2.2.2.1 })
  pf := FGG.primalFeasibility
  getPot := fun s => s.potentials
  setPot := fun s p => { s with potentials := p }
  getMsg := fun s => s.messages
  setMsg := fun s m => { s with messages := m }
  hasDamping := fun _ => false
  getDamp := fun _ => Scalar.zero
  setDamp := fun s _ => s
  setMarg := fun s _ => s
  setTotal := fun s t => { s with total := t }
  cliques := fun _ => cliques
  domain := fun _ => dom

/-! ### the interface laws of C18G -/

theorem objGBP_frame (dom : Dom) (g : RG.Graph) (iters : Nat) : (objGBP (α := α) dom g iters).Frame :=
  ⟨fun _ _ _ _ => rfl, fun s => by cases s; rfl⟩
theorem objGBP_potLens (dom : Dom) (g : RG.Graph) (iters : Nat) : (objGBP (α := α) dom g iters).PotLens :=
  ⟨fun _ _ => rfl, fun _ _ _ => rfl⟩

theorem objHPS_frame (dom : Dom) (g : RG.Graph) (c0 : RGG.Region → α) (conv : α) (iters : Nat) :
    (objHPS dom g c0 conv iters).Frame :=
  ⟨fun _ _ _ _ => rfl, fun s => by cases s; rfl⟩
theorem objHPS_potLens (dom : Dom) (g : RG.Graph) (c0 : RGG.Region → α) (conv : α) (iters : Nat) :
    (objHPS dom g c0 conv iters).PotLens :=
  ⟨fun _ _ => rfl, fun _ _ _ => rfl⟩

theorem objLBP_frame (dom : Dom) (cliques : List Clique) (iters : Nat) : (objLBP (α := α) dom cliques iters).Frame :=
  ⟨fun _ _ _ _ => rfl, fun s => by cases s; rfl⟩
theorem objLBP_potLens (dom : Dom) (cliques : List Clique) (iters : Nat) : (objLBP (α := α) dom cliques iters).PotLens :=
  ⟨fun _ _ => rfl, fun _ _ _ => rfl⟩

/-- the full `FactorGraph` state satisfies the lens laws … -/
theorem objLBPfull_potLens (dom : Dom) (cliques : List Clique) (iters : Nat) :
    (objLBPfull (α := α) dom cliques iters).PotLens :=
  ⟨fun _ _ => rfl, fun _ _ _ => rfl⟩

/-- … but NOT `Frame.restore_bp`: a call also overwrites `self.beliefs` (and `self.marginals`), which re-installing
`potentials` and `messages` does not undo.  Witness: one attribute, no clique, `beliefs = {}` before the call -/
theorem objLBPfull_not_frame :
    ¬ (objLBPfull (α := α) [("a", 2)] [] 0).Frame := by
  intro h
  have e := h.restore_bp ⟨[], [], [], ([], []), Scalar.one⟩ [] [] ([], [])
  have e2 := congrArg (fun s => s.beliefs.length) e
  revert e2
  show ¬ ((1 : Nat) = 0)
  decide

/-- the projection that forgets `beliefs` and `marginals` -/
def FGFull.proj (s : FGFull α) : FGState α := ⟨s.potentials, s.messages, s.total⟩

/-- **the restricted object is a faithful projection**: same returned tables, and the projections of the states agree, for
every call and every accessor `LocalInference` uses -/
theorem objLBP_proj (dom : Dom) (cliques : List Clique) (iters : Nat) (s : FGFull α) (θ p : CliqueVec α)
    (m : FGG.MuN α × FGG.MuF α) (t : α) :
    ((objLBPfull dom cliques iters).bp s θ).1 = ((objLBP dom cliques iters).bp s.proj θ).1 ∧
    ((objLBPfull dom cliques iters).bp s θ).2.proj = ((objLBP dom cliques iters).bp s.proj θ).2 ∧
    ((objLBPfull dom cliques iters).setPot s p).proj = (objLBP dom cliques iters).setPot s.proj p ∧
    ((objLBPfull dom cliques iters).setMsg s m).proj = (objLBP dom cliques iters).setMsg s.proj m ∧
    ((objLBPfull dom cliques iters).setMarg s p).proj = (objLBP dom cliques iters).setMarg s.proj p ∧
    ((objLBPfull dom cliques iters).setTotal s t).proj = (objLBP dom cliques iters).setTotal s.proj t ∧
    (objLBPfull dom cliques iters).getPot s = (objLBP dom cliques iters).getPot s.proj ∧
    (objLBPfull dom cliques iters).getMsg s = (objLBP dom cliques iters).getMsg s.proj :=
  ⟨rfl, rfl, rfl, rfl, rfl, rfl, rfl, rfl⟩

/-- what the generated `loopy_belief_propagation` stores in `self.marginals` is the value it returns, and `self.potentials` is
its argument: after `mu = model.belief_propagation(theta)` the assignments `model.potentials = theta; model.marginals = mu`
of `mirror_descent` change nothing on a `FactorGraph` -/
theorem lbp_stores_what_it_returns (dom : Dom) (cliques : List Clique) (iters : Nat) (s : FGFull α) (θ : CliqueVec α) :
    ((objLBPfull dom cliques iters).bp s θ).2.marginals = ((objLBPfull dom cliques iters).bp s θ).1 ∧
    ((objLBPfull dom cliques iters).bp s θ).2.potentials = θ :=
  ⟨rfl, rfl⟩

end objects

/-! ## 2. the returned tables are valid -/

section generic
variable {α : Type} [Scalar α] {Msg σ κ : Type}

/-- a successful generated `estimate` is a successful generated `mirror_descent_auto` (with the callback `estimate` hands on)
followed by `model.potentials = theta; model.marginals = mu` -/
theorem gen_estimate_ok_inv (obj : Obj α Msg σ) (loss : CliqueVec α → α × CliqueVec α) (fuel : Nat) (model : σ) (w : κ)
    (oia : Option α) (iters : Nat) (cb : Option (CliqueVec α → κ → κ)) (log : Bool) (logger : CliqueVec α → κ → κ)
    (m : σ) (w' : κ) (h : LocalG.estimate obj loss fuel model w oia iters cb log logger = .ok (m, w')) :
    ∃ l theta mu model', LocalG.mirrorDescentAuto obj loss (estimateCallback cb log logger) fuel model w
        (oia.getD defaultAlpha) iters = .ok (l, theta, mu, model', w') ∧
      m = obj.setMarg (obj.setPot model' theta) mu := by
  rw [gen_estimate_plumbing] at h
  unfold LocalG.mirrorDescent at h
  cases hm : LocalG.mirrorDescentAuto obj loss (estimateCallback cb log logger) fuel model w (oia.getD defaultAlpha) iters with
  | ok r =>
    rw [hm] at h
    obtain ⟨l, theta, mu, model', w''⟩ := r
    simp only [Py.ok.injEq, Prod.mk.injEq] at h
    exact ⟨l, theta, mu, model', by rw [h.2], h.1.symm⟩
  | unbound => rw [hm] at h; simp at h
  | recursion => rw [hm] at h; simp at h
  | attrError => rw [hm] at h; simp at h

/-- `LocalE2E.mda_inv` for the generated `mirror_descent_auto` -/
theorem gen_mda_inv (obj : Obj α Msg σ) (hF : obj.Frame) (hH : HalfLaw α) (loss : CliqueVec α → α × CliqueVec α)
    (P Q : CliqueVec α → Prop) (I : σ → Prop) (hk : Keeps (pyOps obj loss) P Q I)
    (cb : Option (CliqueVec α → κ → κ)) (fuel : Nat) (model : σ) (w : κ) (alpha : α) (iters : Nat)
    (l : α) (theta mu : CliqueVec α) (model' : σ) (w' : κ) (hP : P (obj.getPot model)) (hI : I model)
    (h : LocalG.mirrorDescentAuto obj loss cb fuel model w alpha iters = .ok (l, theta, mu, model', w')) :
    P theta ∧ I model' ∧ Q mu ∧ ∃ st, I st ∧ mu = (obj.bp st theta).1 := by
  obtain ⟨r, hm, -, rfl, rfl, rfl⟩ := gen_ok_inv obj hF hH loss cb fuel model w alpha iters l theta mu model' w' h
  exact mda_inv (pyOps obj loss) P Q I hk (obj.getPot model) model hP hI iters fuel 0 alpha r hm

/-- … and for the generated `estimate`: the returned model is `model'` with `potentials = theta`, `marginals = mu` -/
theorem gen_estimate_inv (obj : Obj α Msg σ) (hF : obj.Frame) (hH : HalfLaw α) (loss : CliqueVec α → α × CliqueVec α)
    (P Q : CliqueVec α → Prop) (I : σ → Prop) (hk : Keeps (pyOps obj loss) P Q I)
    (fuel : Nat) (model : σ) (w : κ) (oia : Option α) (iters : Nat) (cb : Option (CliqueVec α → κ → κ)) (log : Bool)
    (logger : CliqueVec α → κ → κ) (m : σ) (w' : κ) (hP : P (obj.getPot model)) (hI : I model)
    (h : LocalG.estimate obj loss fuel model w oia iters cb log logger = .ok (m, w')) :
    ∃ theta mu model', m = obj.setMarg (obj.setPot model' theta) mu ∧
      P theta ∧ I model' ∧ Q mu ∧ ∃ st, I st ∧ mu = (obj.bp st theta).1 := by
  obtain ⟨l, theta, mu, model', hm, rfl⟩ := gen_estimate_ok_inv obj loss fuel model w oia iters cb log logger m w' h
  exact ⟨theta, mu, model', rfl, gen_mda_inv obj hF hH loss P Q I hk _ fuel model w _ iters l theta mu model' w' hP hI hm⟩

end generic

/-- valid tables on the model's cliques: the keys are the cliques, every table has strictly positive entries summing to `T` -/
def TablesOn (T : ℝ) (cliques : List Clique) (mu : CliqueVec ℝ) : Prop :=
  mu.map Prod.fst = cliques ∧ ∀ p ∈ mu, ValidTable T p.2

/-- what the theorems need from the (fixed) region graph; all of it holds for the graph the generated `build_graph` builds
(`graphHyp_genN`, `graphHyp_genC`) -/
structure GraphHyp (dom : Dom) (g : RG.Graph) : Prop where
  reg_nodup : g.regions.Nodup
  cl_nodup : g.cliques.Nodup
  src : ∀ e ∈ g.messageOrder, e.1 ∈ g.regions
  par : ∀ r ∈ g.regions, ∀ p ∈ RG.look g.parents r, p ∈ g.regions
  /-- `self.cliques = sorted(self.regions, key=len)` -/
  reg_cl : ∀ r, r ∈ g.regions ↔ r ∈ g.cliques
  cl_ok : ∀ c ∈ g.cliques, PGM.Convex.RegOK dom c

/-- the state invariant of a `RegionGraph` during a run: persisted messages over domains without extent 0, `total` fixed -/
def RGInv (T : ℝ) (s : RGState ℝ) : Prop := PosMsgs s.messages ∧ s.total = T

theorem potOf_eq_get (dom : Dom) (g : RG.Graph) (θ : CliqueVec ℝ) (r : RG.Region) (hr : r ∈ g.cliques) :
    RG.potOf dom g θ r = θ.get r := by
  unfold RG.potOf
  rw [if_pos (List.contains_iff_mem.mpr hr)]

/-! ### generalised belief propagation (`marginal_oracle='approx'`) -/

/-- one generated `generalized_belief_propagation` call (no loss involved): valid tables out, state invariant kept -/
theorem gbp_call_inv (dom : Dom) (g : RG.Graph) (iters : Nat) (T : ℝ)
    (hT : 0 < T) (hdom : PosDom dom) (hg : GraphHyp dom g)
    (st : RGState ℝ) (θ : CliqueVec ℝ) (hI : RGInv T st) (hP : Laid dom g.cliques θ) :
    TablesOn T g.cliques ((objGBP dom g iters).bp st θ).1 ∧ RGInv T ((objGBP dom g iters).bp st θ).2 := by
  · obtain ⟨hm, ht⟩ := hI
    have hcl : ∀ r ∈ g.cliques, PosDom (θ.get r).dom ∧ (θ.get r).vals.data.size ≠ 0 :=
      fun r hr => hP.pos hdom (fun c hc => (hg.cl_ok c hc).2) r hr
    have hpot : ∀ e ∈ g.messageOrder, PosDom (RG.potOf dom g θ e.1).dom := by
      intro e he
      have hr := (hg.reg_cl e.1).mp (hg.src e he)
      rw [potOf_eq_get dom g θ e.1 hr]
      exact (hcl e.1 hr).1
    refine ⟨⟨?_, ?_⟩, ?_, ht⟩
    · show (C17G.genGbp dom g θ st.total iters st.messages).1.map Prod.fst = g.cliques
      exact C17G.gen_gbp_keys dom g θ st.total iters st.messages hg.src hg.cl_nodup
    · intro p hp
      rw [← ht]
      exact C17G.gen_gbp_tables_valid_pos dom g θ st.total iters st.messages (ht ▸ hT) hg.src hpot hcl hm p hp
    · show PosMsgs (C17G.genGbp dom g θ st.total iters st.messages).2
      unfold C17G.genGbp
      rw [C17G.gen_gbp dom g θ st.total iters st.messages hg.src, PGM.RGGen.gbp_eq_exit]
      exact iterate_inv PosMsgs _ (fun m hm' => gbpSweep_pos g _ m hpot hm') iters st.messages hm

theorem keeps_gbp (dom : Dom) (g : RG.Graph) (iters : Nat) (T : ℝ) (loss : CliqueVec ℝ → ℝ × CliqueVec ℝ)
    (hT : 0 < T) (hdom : PosDom dom) (hg : GraphHyp dom g)
    (hgrad : ∀ mu, TablesOn T g.cliques mu → Laid dom g.cliques (loss mu).2) :
    Keeps (pyOps (objGBP dom g iters) loss) (Laid dom g.cliques) (TablesOn T g.cliques) (RGInv T) := by
  refine ⟨?_, ?_, ?_⟩
  · intro st θ hI hP
    exact gbp_call_inv dom g iters T hT hdom hg st θ hI hP
  · intro θ a mu hP hQ
    exact laid_update dom g.cliques θ (loss mu).2 a hP (hgrad mu hQ)
  · intro st hI
    exact hI

/-- **'approx', on any graph satisfying `GraphHyp`**: what a successful generated `estimate` returns -/
theorem gen_estimate_gbp (dom : Dom) (g : RG.Graph) (inner : Nat) (T : ℝ) (loss : CliqueVec ℝ → ℝ × CliqueVec ℝ)
    {κ : Type} (hT : 0 < T) (hdom : PosDom dom) (hg : GraphHyp dom g)
    (hgrad : ∀ mu, TablesOn T g.cliques mu → Laid dom g.cliques (loss mu).2)
    (fuel : Nat) (model : RGState ℝ) (w : κ) (oia : Option ℝ) (iters : Nat) (cb : Option (CliqueVec ℝ → κ → κ)) (log : Bool)
    (logger : CliqueVec ℝ → κ → κ) (m : RGState ℝ) (w' : κ)
    (hP : Laid dom g.cliques model.potentials) (hI : RGInv T model)
    (h : LocalG.estimate (objGBP dom g inner) loss fuel model w oia iters cb log logger = .ok (m, w')) :
    Laid dom g.cliques m.potentials ∧ TablesOn T g.cliques m.marginals ∧ RGInv T m ∧
    ∃ st, RGInv T st ∧ m.marginals = (C17G.genGbp dom g m.potentials T inner st.messages).1 := by
  obtain ⟨theta, mu, model', rfl, h1, h2, h3, st, h4, h5⟩ :=
    gen_estimate_inv (objGBP dom g inner) (objGBP_frame dom g inner) halfLaw_real loss _ _ _
      (keeps_gbp dom g inner T loss hT hdom hg hgrad) fuel model w oia iters cb log logger m w' hP hI h
  refine ⟨h1, h3, h2, st, h4, ?_⟩
  rw [← h4.2]
  exact h5

/-! ### the graph and the initial messages the generated `build_graph` produces -/

/-- the region list of the generated `__init__` filter and intersection closure (with the model's bound on the passes) -/
def genRegions (cliques : List Clique) (convex : Bool) : List RG.Region :=
  RGG.closure (RGG.initCliques cliques convex) ((RG.dedup (RGG.initCliques cliques convex)).length + 1)

/-- depth bound of the memoised recursion of the counting numbers (`C17G.gen_counting`) -/
def fuelOf (regions : List RG.Region) : Nat := (regions.map List.length).sum + 1

/-- `RegionGraph(domain, cliques, total, convex=False)` (`minimal=True`): every field from generated code (`C17G.genGraphN'`) -/
noncomputable def genGraphApprox (dom : Dom) (cliques : List Clique) : RG.Graph :=
  C17G.genGraphN' dom (genRegions cliques false) true (fuelOf (genRegions cliques false))

/-- `self.messages` after the generated `build_graph`, non-convex -/
noncomputable def genMessagesN (dom : Dom) (cliques : List Clique) : RGG.Msgs ℝ :=
  (RGG.buildGraphNM (α := ℝ) dom (genRegions cliques false) (fuelOf (genRegions cliques false))).2.2.2.2.2.2.2.2.1

/-- `RegionGraph(domain, cliques, total, convex=True)` (`minimal=True`): the fields the convex oracle reads, from the generated
`buildGraphCM`; `N`, `D`, `B` are not built on this path -/
noncomputable def genGraphConvex (dom : Dom) (cliques : List Clique) : RG.Graph :=
  let regions := genRegions cliques true
  let b := C17G.genBuildC dom regions true
  { regions := regions, cliques := RGG.sortByLen regions, children := b.1, parents := b.2.1, descendants := b.2.2.1,
    ancestors := b.2.2.2.1, children0 := b.1, parents0 := b.2.1, counting := b.2.2.2.2.1, N := [], D := [], B := [],
    messageOrder := b.2.2.2.2.2.2 }

/-- `self.messages` after the generated `build_graph`, convex -/
noncomputable def genMessagesC (dom : Dom) (cliques : List Clique) : RGG.Msgs ℝ :=
  (C17G.genBuildC dom (genRegions cliques true) true).2.2.2.2.2.1

/-- the constructor `RegionGraph(domain, cliques, total, convex=·, iters=·)` as far as the state goes: `messages` from the
generated `build_graph`, `total` stored; `potentials`, `marginals`, `damping` (the last lines of `__init__`, not translated) are
whatever `rest` holds — `_setup` overwrites the first, `mirror_descent` the second, and no theorem below depends on the third.
`iters` is a parameter of the object.  `FactorGraph` is not a `RegionGraph`: `fac` is arbitrary -/
noncomputable def mkRG (rest : RGState ℝ) (fac : Dom → List Clique → ℝ → Bool → Nat → RGState ℝ) : Ctor ℝ (RGState ℝ) where
  region := fun d cl total convex _ =>
    { rest with messages := if convex then genMessagesC d cl else genMessagesN d cl, total := total }
  factor := fac

theorem genRegions_ok (dom : Dom) (cliques : List Clique) (convex : Bool) (hcl : ∀ c ∈ cliques, PGM.Convex.RegOK dom c) :
    PGM.Convex.RegsOK dom (genRegions cliques convex) := by
  unfold genRegions
  rw [C17G.gen_build_regions]
  exact PGM.Convex.closure_ok dom _ (fun c hc => hcl c (PGM.Convex.initCliques_sub cliques convex c hc))

theorem graphHyp_buildOn (dom : Dom) (regions : List RG.Region) (convex minimal : Bool) (h : PGM.Convex.RegsOK dom regions) :
    GraphHyp dom (RG.buildOn regions convex minimal) := by
  have hok := PGM.Convex.buildOn_ok regions convex minimal h.1
  refine ⟨?_, ?_, ?_, ?_, ?_, ?_⟩
  · rw [buildOn_regions]; exact h.1
  · rw [buildOn_cliques]; exact sortByLen_nodup _ h.1
  · intro e he; exact (hok.order_sound e he).1
  · intro r hr p hp; exact ((hok.parents_dual r hr p).mp hp).1
  · intro r; rw [buildOn_regions, buildOn_cliques]; exact (mem_sortByLen regions r).symm
  · intro c hc
    rw [buildOn_cliques] at hc
    exact h.2 c ((mem_sortByLen regions c).mp hc)

theorem graphHyp_congr (dom : Dom) (g g' : RG.Graph) (h1 : g'.regions = g.regions) (h2 : g'.cliques = g.cliques)
    (h3 : g'.messageOrder = g.messageOrder) (h4 : g'.parents = g.parents) (h : GraphHyp dom g) : GraphHyp dom g' := by
  obtain ⟨a, b, c, d, e, f⟩ := h
  refine ⟨?_, ?_, ?_, ?_, ?_, ?_⟩
  · rw [h1]; exact a
  · rw [h2]; exact b
  · rw [h1, h3]; exact c
  · rw [h1, h4]; exact d
  · rw [h1, h2]; exact e
  · rw [h2]; exact f

/-- the graph the generated non-convex `build_graph` builds satisfies `GraphHyp` -/
theorem graphHyp_genN (dom : Dom) (cliques : List Clique) (hcl : ∀ c ∈ cliques, PGM.Convex.RegOK dom c) :
    GraphHyp dom (genGraphApprox dom cliques) := by
  have hr := genRegions_ok dom cliques false hcl
  obtain ⟨f1, f2, -, f4, -, -, -, -, -, f10⟩ := C17G.genGraphN'_fields dom (genRegions cliques false) true
    (fuelOf (genRegions cliques false)) hr.1
  exact graphHyp_congr dom _ _ f1 f2 f10 f4 (graphHyp_buildOn dom _ false true hr)

/-- … and its `self.messages` are the zero messages of the model's message order: tables over domains without extent 0 -/
theorem genMessagesN_pos (dom : Dom) (cliques : List Clique) (hdom : PosDom dom)
    (hcl : ∀ c ∈ cliques, PGM.Convex.RegOK dom c) : PosMsgs (genMessagesN dom cliques) := by
  have hr := genRegions_ok dom cliques false hcl
  have hok := PGM.Convex.buildOn_ok (genRegions cliques false) false true hr.1
  obtain ⟨-, -, -, -, h5⟩ := C17G.gen_buildGraphNM_skeleton (α := ℝ) dom (genRegions cliques false)
    (fuelOf (genRegions cliques false)) hr.1
  unfold genMessagesN
  rw [h5, C17G.gen_initMessages_buildOn dom _ false true hr.1]
  apply initMessages_pos dom _ hdom
  intro e he a ha
  have hs := hok.order_sound e he
  have hc := hok.children_sub e.1 hs.1 e.2 hs.2
  rw [buildOn_regions] at hc
  exact (hr.2 e.2 hc.1).2 a ha

/-- **`marginal_oracle='approx'`, end to end.**  Inputs: a domain without an attribute of extent 0, measurements whose cliques are
duplicate-free tuples of attributes of the domain, no structural zeros, `total > 0`, cold start.  The generated `setupModel`
selects `RegionGraph(…, convex=False, iters=inner_iters)`; the generated `setupPotentials` installs zero potentials; on every
successful run of the generated `estimate` on the object whose `belief_propagation` / `primal_feasibility` are the generated
`generalized_belief_propagation` / `primal_feasibility` on the graph built by the generated `build_graph`:
the stored potentials are laid out on the model's cliques, the stored marginals have the model's cliques as keys and every table
has strictly positive entries summing to `total`, and they are the generated oracle's output on the stored potentials from
persisted messages `st.messages` satisfying the invariant.

CONDITIONAL on `hgrad`, which the generated `_marginal_loss` does NOT satisfy (`TablesOn` admits junk-domain tables; audit
`hgrad_approx_false`): cite `C18H.gen_local_estimate_tables_valid_approx_L2` / `_L1` (no hypothesis on the loss) instead -/
theorem gen_local_estimate_tables_valid_approx (dom : Dom) (meas : List (Loss.Meas ℝ)) (T : ℝ) (inner : Nat)
    (loss : CliqueVec ℝ → ℝ × CliqueVec ℝ) {κ : Type}
    (hT : 0 < T) (hdom : PosDom dom) (hmeas : ∀ m ∈ meas, PGM.Convex.RegOK dom m.proj)
    (hgrad : ∀ mu, TablesOn T (genGraphApprox dom (LocalG.setupCliques meas [])).cliques mu →
      Laid dom (genGraphApprox dom (LocalG.setupCliques meas [])).cliques (loss mu).2)
    (rest : RGState ℝ) (fac : Dom → List Clique → ℝ → Bool → Nat → RGState ℝ) (warm : Bool) (prev : Option (RGState ℝ))
    (hcold : (warm && prev.isSome) = false)
    (fuel : Nat) (w : κ) (oia : Option ℝ) (iters : Nat) (cb : Option (CliqueVec ℝ → κ → κ)) (log : Bool)
    (logger : CliqueVec ℝ → κ → κ) (m0 m1 m : RGState ℝ) (w' : κ)
    (h0 : LocalG.setupModel (mkRG rest fac) (objGBP dom (genGraphApprox dom (LocalG.setupCliques meas [])) inner) dom
      (.name "approx") (LocalG.setupCliques meas []) T inner = .ok m0)
    (h1 : LocalG.setupPotentials (objGBP dom (genGraphApprox dom (LocalG.setupCliques meas [])) inner) dom [] warm prev
      (.name "approx") m0 = .ok m1)
    (h : LocalG.estimate (objGBP dom (genGraphApprox dom (LocalG.setupCliques meas [])) inner) loss fuel m1 w oia iters cb log
      logger = .ok (m, w')) :
    let g := genGraphApprox dom (LocalG.setupCliques meas [])
    Laid dom g.cliques m.potentials ∧ TablesOn T g.cliques m.marginals ∧ m.total = T ∧
    ∃ st, RGInv T st ∧ m.marginals = (C17G.genGbp dom g m.potentials T inner st.messages).1 := by
  intro g
  have hcl : ∀ c ∈ LocalG.setupCliques meas ([] : CliqueVec ℝ), PGM.Convex.RegOK dom c := by
    intro c hc
    rw [gen_setupCliques] at hc
    simp only [Local.setupCliques, List.map_nil, List.append_nil, List.mem_map] at hc
    obtain ⟨mm, hmm, rfl⟩ := hc
    exact hmeas mm hmm
  have hg : GraphHyp dom g := graphHyp_genN dom _ hcl
  rw [gen_setupModel] at h0
  simp only [Local.setupModel, beq_self_eq_true, if_true, Py.ok.injEq] at h0
  rw [gen_setupPotentials _ (objGBP_potLens dom g inner)] at h1
  simp only [Py.ok.injEq] at h1
  have hm1 : m1 = { m0 with potentials := CliqueVec.zerosV dom g.cliques } := by
    rw [← h1]
    unfold Local.setupPotentials
    cases warm <;> cases prev <;> simp_all [PGM.CVSem.combine_nil] <;> rfl
  have hPm : Laid dom g.cliques m1.potentials := by
    rw [hm1]
    exact laid_zerosV dom g.cliques (fun c hc => (hg.cl_ok c hc).1)
  have hIm : RGInv T m1 := by
    rw [hm1, ← h0]
    exact ⟨genMessagesN_pos dom _ hdom hcl, rfl⟩
  obtain ⟨a, b, c, d⟩ := gen_estimate_gbp dom g inner T loss hT hdom hg hgrad fuel m1 w oia iters cb log logger m w' hPm hIm h
  exact ⟨a, b, c.2, d⟩

/-! ### loopy belief propagation (`marginal_oracle='pairwise'`) -/

/-- the state invariant of a `FactorGraph` during a run -/
def FGInv (T : ℝ) (s : FGState ℝ) : Prop := PosState (⟨s.messages.1, s.messages.2⟩ : FG.State ℝ) ∧ s.total = T

/-- the generated call, read on the model's state record -/
theorem objLBP_bp_eq (dom : Dom) (cliques : List Clique) (iters : Nat) (st : FGState ℝ) (θ : CliqueVec ℝ) :
    ((objLBP dom cliques iters).bp st θ).1 = (FG.lbp dom cliques θ st.total iters ⟨st.messages.1, st.messages.2⟩).1 ∧
    ((objLBP dom cliques iters).bp st θ).2.messages
      = PGM.FGGen.tup (FG.lbp dom cliques θ st.total iters ⟨st.messages.1, st.messages.2⟩).2 ∧
    ((objLBP dom cliques iters).bp st θ).2.potentials = θ ∧
    ((objLBP dom cliques iters).bp st θ).2.total = st.total :=
  ⟨C16.FGG.gen_lbp_return dom cliques st.total iters ⟨st.messages.1, st.messages.2⟩ θ,
   C16.FGG.gen_lbp_messages dom cliques st.total iters ⟨st.messages.1, st.messages.2⟩ θ, rfl, rfl⟩

/-- one generated `loopy_belief_propagation` call (no loss involved): valid tables out, state invariant kept -/
theorem lbp_call_inv (dom : Dom) (cliques : List Clique) (iters : Nat) (T : ℝ)
    (hT : 0 < T) (hdom : PosDom dom) (hnd : cliques.Nodup) (hcl : ∀ c ∈ cliques, PGM.Convex.RegOK dom c)
    (st : FGState ℝ) (θ : CliqueVec ℝ) (hI : FGInv T st) (hP : Laid dom cliques θ) :
    TablesOn T cliques ((objLBP dom cliques iters).bp st θ).1 ∧ FGInv T ((objLBP dom cliques iters).bp st θ).2 := by
  · obtain ⟨hm, ht⟩ := hI
    have hc : ∀ r ∈ cliques, PosDom (θ.get r).dom ∧ (θ.get r).vals.data.size ≠ 0 :=
      fun r hr => hP.pos hdom (fun c hc => (hcl c hc).2) r hr
    obtain ⟨e1, e2, -, e4⟩ := objLBP_bp_eq dom cliques iters st θ
    refine ⟨⟨?_, ?_⟩, ?_, e4.trans ht⟩
    · rw [e1]; exact C16.lbp_keys dom cliques θ st.total iters _ hnd
    · intro p hp
      rw [e1] at hp
      rw [← ht]
      exact C16.lbp_tables_valid_pos dom cliques θ st.total iters _ (ht ▸ hT) hc hm p hp
    · rw [e2]
      show PosState (RG.iterate (FG.lbpSweep dom cliques θ) iters ⟨st.messages.1, st.messages.2⟩)
      exact iterate_inv PosState _ (fun m hm' => lbpSweep_pos dom cliques θ m (fun cl h => (hc cl h).1) hm') iters _ hm

theorem keeps_lbp (dom : Dom) (cliques : List Clique) (iters : Nat) (T : ℝ) (loss : CliqueVec ℝ → ℝ × CliqueVec ℝ)
    (hT : 0 < T) (hdom : PosDom dom) (hnd : cliques.Nodup) (hcl : ∀ c ∈ cliques, PGM.Convex.RegOK dom c)
    (hgrad : ∀ mu, TablesOn T cliques mu → Laid dom cliques (loss mu).2) :
    Keeps (pyOps (objLBP dom cliques iters) loss) (Laid dom cliques) (TablesOn T cliques) (FGInv T) := by
  refine ⟨?_, ?_, ?_⟩
  · intro st θ hI hP
    exact lbp_call_inv dom cliques iters T hT hdom hnd hcl st θ hI hP
  · intro θ a mu hP hQ
    exact laid_update dom cliques θ (loss mu).2 a hP (hgrad mu hQ)
  · intro st hI
    exact hI

/-- the constructor `FactorGraph(domain, cliques, total, convex=False, iters=·)` as far as the state goes, from the generated
`__init__`: `messages` (`init_messages`), `total`; `self.potentials = None` is the empty vector (`_setup` overwrites it).
`convex=True` (`'pairwise-convex'`) is not translated: `facC`; a `RegionGraph` is not a `FactorGraph`: `reg` -/
noncomputable def mkFG (reg facC : Dom → List Clique → ℝ → Bool → Nat → FGState ℝ) : Ctor ℝ (FGState ℝ) where
  region := reg
  factor := fun d cl total convex inner =>
    if convex then facC d cl total convex inner
    else { potentials := [], messages := (FGG.init d cl total inner).2.2.2.2.2.2.2.2.2.1, total := (FGG.init d cl total inner).2.2.1 }

/-- **`marginal_oracle='pairwise'`, end to end** (same hypotheses as for `'approx'`, and the measured cliques are distinct: a
`FactorGraph` keeps the clique list as given).  The tables `mu` that the generated `mirror_descent` assigns to
`model.marginals` — the same tables the last `loopy_belief_propagation` call stored there itself
(`lbp_stores_what_it_returns`) — are the generated oracle's output on the returned `model.potentials`, have the model's
cliques as keys, and every table has strictly positive entries summing to `total`.

CONDITIONAL on `hgrad`, which the generated `_marginal_loss` does NOT satisfy; moreover the `∃ mu st, …` part of this
conclusion follows from `Laid dom cl m.potentials` alone (audit `pairwise_mu_part_is_free`) and so does not identify the `mu`
the run returned.  Cite `C18H.gen_local_estimate_tables_valid_pairwise_L2` / `_L1`: no hypothesis on the loss, and the
conclusion is about the `mu` of the run `mirrorDescentAuto … = .ok (l, m.potentials, mu, model', w')`.  `hnd` (measured cliques
pairwise distinct) is a genuine restriction of the 'pairwise' theorems -/
theorem gen_local_estimate_tables_valid_pairwise (dom : Dom) (meas : List (Loss.Meas ℝ)) (T : ℝ) (inner : Nat)
    (loss : CliqueVec ℝ → ℝ × CliqueVec ℝ) {κ : Type}
    (hT : 0 < T) (hdom : PosDom dom) (hmeas : ∀ m ∈ meas, PGM.Convex.RegOK dom m.proj)
    (hnd : (meas.map (·.proj)).Nodup)
    (hgrad : ∀ mu, TablesOn T (LocalG.setupCliques meas []) mu → Laid dom (LocalG.setupCliques meas []) (loss mu).2)
    (reg facC : Dom → List Clique → ℝ → Bool → Nat → FGState ℝ) (warm : Bool) (prev : Option (FGState ℝ))
    (hcold : (warm && prev.isSome) = false)
    (fuel : Nat) (w : κ) (oia : Option ℝ) (iters : Nat) (cb : Option (CliqueVec ℝ → κ → κ)) (log : Bool)
    (logger : CliqueVec ℝ → κ → κ) (m0 m1 m : FGState ℝ) (w' : κ)
    (h0 : LocalG.setupModel (mkFG reg facC) (objLBP dom (LocalG.setupCliques meas []) inner) dom
      (.name "pairwise") (LocalG.setupCliques meas []) T inner = .ok m0)
    (h1 : LocalG.setupPotentials (objLBP dom (LocalG.setupCliques meas []) inner) dom [] warm prev
      (.name "pairwise") m0 = .ok m1)
    (h : LocalG.estimate (objLBP dom (LocalG.setupCliques meas []) inner) loss fuel m1 w oia iters cb log
      logger = .ok (m, w')) :
    let cl := LocalG.setupCliques meas ([] : CliqueVec ℝ)
    Laid dom cl m.potentials ∧ m.total = T ∧
    ∃ mu st, FGInv T st ∧ st.total = T ∧
      mu = (FGG.loopyBeliefPropagation dom cl T inner st.messages m.potentials).1 ∧
      mu = (FGG.loopyBeliefPropagation dom cl T inner st.messages m.potentials).2.2.2.2 ∧
      TablesOn T cl mu := by
  intro cl
  have hcle : cl = meas.map (·.proj) := by
    show LocalG.setupCliques meas ([] : CliqueVec ℝ) = _
    rw [gen_setupCliques]
    simp [Local.setupCliques]
  have hcl : ∀ c ∈ cl, PGM.Convex.RegOK dom c := by
    intro c hc
    rw [hcle] at hc
    obtain ⟨mm, hmm, rfl⟩ := List.mem_map.mp hc
    exact hmeas mm hmm
  have hndc : cl.Nodup := hcle ▸ hnd
  rw [gen_setupModel] at h0
  have h0' : m0 = (mkFG reg facC).factor dom cl T false inner := by
    unfold Local.setupModel at h0
    simp at h0
    exact h0.symm
  rw [gen_setupPotentials _ (objLBP_potLens dom cl inner)] at h1
  simp only [Py.ok.injEq] at h1
  have hm1 : m1 = { m0 with potentials := CliqueVec.zerosV dom cl } := by
    rw [← h1]
    unfold Local.setupPotentials
    cases warm <;> cases prev <;> simp_all [PGM.CVSem.combine_nil] <;> rfl
  have hPm : Laid dom cl m1.potentials := by
    rw [hm1]
    exact laid_zerosV dom cl (fun c hc => (hcl c hc).1)
  have hIm : FGInv T m1 := by
    rw [hm1, h0']
    refine ⟨?_, rfl⟩
    show PosState (⟨((FGG.init dom cl T inner).2.2.2.2.2.2.2.2.2.1).1, ((FGG.init dom cl T inner).2.2.2.2.2.2.2.2.2.1).2⟩ : FG.State ℝ)
    rw [C16.FGG.gen_init_messages]
    exact fg_initMessages_pos dom cl hdom (fun c hc => (hcl c hc).2)
  obtain ⟨theta, mu, model', rfl, p1, p2, p3, st, p4, p5⟩ :=
    gen_estimate_inv (objLBP dom cl inner) (objLBP_frame dom cl inner) halfLaw_real loss _ _ _
      (keeps_lbp dom cl inner T loss hT hdom hndc hcl hgrad) fuel m1 w oia iters cb log logger m w' hPm hIm h
  refine ⟨p1, p2.2, mu, st, p4, p4.2, ?_, ?_, p3⟩
  · rw [← p4.2]; exact p5
  · rw [← p4.2]; exact p5

/-! ### the convex oracle (`marginal_oracle='convex'`) -/

/-- one generated `hazan_peng_shashua` call (no loss involved): valid tables out, state invariant kept -/
theorem hps_call_inv (dom : Dom) (g : RG.Graph) (conv : ℝ) (iters : Nat) (T : ℝ)
    (hT : 0 < T) (hi : 0 < iters) (hdom : PosDom dom) (hg : GraphHyp dom g)
    (st : RGState ℝ) (θ : CliqueVec ℝ) (hI : RGInv T st) (hP : Laid dom g.cliques θ) :
    TablesOn T g.regions ((objHPS dom g (fun _ => (1 : ℝ)) conv iters).bp st θ).1 ∧
      RGInv T ((objHPS dom g (fun _ => (1 : ℝ)) conv iters).bp st θ).2 := by
  · obtain ⟨hm, ht⟩ := hI
    have hcl : ∀ r ∈ g.cliques, PosDom (θ.get r).dom ∧ (θ.get r).vals.data.size ≠ 0 :=
      fun r hr => hP.pos hdom (fun c hc => (hg.cl_ok c hc).2) r hr
    have hpo : ∀ r ∈ g.regions, PosDom (RG.potOf dom g θ r).dom ∧ (RG.potOf dom g θ r).vals.data.size ≠ 0 := by
      intro r hr
      rw [potOf_eq_get dom g θ r ((hg.reg_cl r).mp hr)]
      exact hcl r ((hg.reg_cl r).mp hr)
    have hpot : ∀ r ∈ g.regions, PosDom (RG.potOf dom g θ r).dom ∧
        ∀ p ∈ RG.look g.parents r, PosDom (RG.potOf dom g θ p).dom :=
      fun r hr => ⟨(hpo r hr).1, fun p hp => (hpo p (hg.par r hr p hp)).1⟩
    have hb : (objHPS dom g (fun _ => (1 : ℝ)) conv iters).bp st θ
        = ((RGG.hazanPengShashua dom g.regions g.cliques g.children g.parents (fun _ => (1 : ℝ)) st.total st.damping conv iters θ st.messages).1,
           { st with messages :=
              (RGG.hazanPengShashua dom g.regions g.cliques g.children g.parents (fun _ => (1 : ℝ)) st.total st.damping conv iters θ st.messages).2 }) := rfl
    rw [hb]
    refine ⟨⟨?_, ?_⟩, ?_, ht⟩
    · exact C17G.gen_hps_keys dom g _ θ st.total iters st.damping conv st.messages hi hg.reg_nodup hg.par
    · intro p hp
      rw [← ht]
      exact C17G.gen_hps_tables_valid_pos dom g _ θ st.total iters st.damping conv st.messages (ht ▸ hT) hg.par hpot
        (fun r hr => (hpo r hr).2) hm p hp
    · show PosMsgs (RGG.hazanPengShashua dom g.regions g.cliques g.children g.parents (fun _ => (1 : ℝ)) st.total st.damping conv iters θ st.messages).2
      rw [C17G.gen_hps dom g _ θ st.total st.damping conv iters st.messages hg.par]
      exact hpsLoop_msgs_inv g _ _ st.total st.damping conv PosMsgs
        (fun msgs hm' => hpsSweep_pos g _ _ st.total st.damping msgs hpot hm') iters 0 st.messages [] hm

theorem keeps_hps (dom : Dom) (g : RG.Graph) (conv : ℝ) (iters : Nat) (T : ℝ) (loss : CliqueVec ℝ → ℝ × CliqueVec ℝ)
    (hT : 0 < T) (hi : 0 < iters) (hdom : PosDom dom) (hg : GraphHyp dom g)
    (hgrad : ∀ mu, TablesOn T g.regions mu → Laid dom g.cliques (loss mu).2) :
    Keeps (pyOps (objHPS dom g (fun _ => (1 : ℝ)) conv iters) loss) (Laid dom g.cliques) (TablesOn T g.regions) (RGInv T) := by
  refine ⟨?_, ?_, ?_⟩
  · intro st θ hI hP
    exact hps_call_inv dom g conv iters T hT hi hdom hg st θ hI hP
  · intro θ a mu hP hQ
    exact laid_update dom g.cliques θ (loss mu).2 a hP (hgrad mu hQ)
  · intro st hI
    exact hI

/-- the graph the generated convex `build_graph` builds is `RG.buildOn … true true` on the fields the oracle reads -/
theorem genGraphConvex_fields (dom : Dom) (cliques : List Clique) (hcl : ∀ c ∈ cliques, PGM.Convex.RegOK dom c) :
    let g' := genGraphConvex dom cliques
    let g := RG.buildOn (genRegions cliques true) true true
    g'.regions = g.regions ∧ g'.cliques = g.cliques ∧ g'.children = g.children ∧ g'.parents = g.parents ∧
      g'.messageOrder = g.messageOrder ∧ genMessagesC dom cliques = RG.initMessages dom g.messageOrder := by
  have hr := genRegions_ok dom cliques true hcl
  have hb := C17G.gen_buildGraphC dom (genRegions cliques true) true hr.1
  unfold genGraphConvex genMessagesC
  simp only [hb]
  refine ⟨?_, ?_, ?_, ?_, ?_, ?_⟩ <;> first | rfl | trivial

theorem graphHyp_genC (dom : Dom) (cliques : List Clique) (hcl : ∀ c ∈ cliques, PGM.Convex.RegOK dom c) :
    GraphHyp dom (genGraphConvex dom cliques) := by
  obtain ⟨f1, f2, -, f4, f5, -⟩ := genGraphConvex_fields dom cliques hcl
  exact graphHyp_congr dom _ _ f1 f2 f5 f4 (graphHyp_buildOn dom _ true true (genRegions_ok dom cliques true hcl))

theorem genMessagesC_pos (dom : Dom) (cliques : List Clique) (hdom : PosDom dom)
    (hcl : ∀ c ∈ cliques, PGM.Convex.RegOK dom c) : PosMsgs (genMessagesC dom cliques) := by
  have hr := genRegions_ok dom cliques true hcl
  have hok := PGM.Convex.buildOn_ok (genRegions cliques true) true true hr.1
  rw [(genGraphConvex_fields dom cliques hcl).2.2.2.2.2]
  apply initMessages_pos dom _ hdom
  intro e he a ha
  have hs := hok.order_sound e he
  have hc := hok.children_sub e.1 hs.1 e.2 hs.2
  rw [buildOn_regions] at hc
  exact (hr.2 e.2 hc.1).2 a ha

/-- **`marginal_oracle='convex'`, end to end** (`inner_iters > 0`: with 0 sweeps `hazan_peng_shashua` raises NameError).  The
counting numbers of the generated convex `build_graph` are 1 on every region (`C17G.gen_counting_convex`); `convergence`
(`1e-3` in `__init__`, not translated) is any `conv`; the damping is whatever the object holds — the late branch of
`mirror_descent_auto` raises it.  The marginals are keyed by `self.regions` (the order in which `hazan_peng_shashua` fills
`mu`), the potentials by `self.cliques = sorted(self.regions, key=len)` — the same set.

CONDITIONAL on `hgrad`, which is FALSE for the generated `_marginal_loss` even at well-formed marginals: its gradient is keyed
by `regions` (like its argument), `hgrad` wants the key order of `cliques` (`C18H.hgrad_convex_false`, machine-checked).  Cite
`C18H.gen_local_estimate_tables_valid_convex_L2` / `_L1` (no hypothesis on the loss; the update reads the gradient `get`-wise) -/
theorem gen_local_estimate_tables_valid_convex (dom : Dom) (meas : List (Loss.Meas ℝ)) (T conv : ℝ) (inner : Nat)
    (loss : CliqueVec ℝ → ℝ × CliqueVec ℝ) {κ : Type}
    (hT : 0 < T) (hi : 0 < inner) (hdom : PosDom dom) (hmeas : ∀ m ∈ meas, PGM.Convex.RegOK dom m.proj)
    (hgrad : ∀ mu, TablesOn T (genGraphConvex dom (LocalG.setupCliques meas [])).regions mu →
      Laid dom (genGraphConvex dom (LocalG.setupCliques meas [])).cliques (loss mu).2)
    (rest : RGState ℝ) (fac : Dom → List Clique → ℝ → Bool → Nat → RGState ℝ) (warm : Bool) (prev : Option (RGState ℝ))
    (hcold : (warm && prev.isSome) = false)
    (fuel : Nat) (w : κ) (oia : Option ℝ) (iters : Nat) (cb : Option (CliqueVec ℝ → κ → κ)) (log : Bool)
    (logger : CliqueVec ℝ → κ → κ) (m0 m1 m : RGState ℝ) (w' : κ)
    (h0 : LocalG.setupModel (mkRG rest fac)
      (objHPS dom (genGraphConvex dom (LocalG.setupCliques meas [])) (fun _ => (1 : ℝ)) conv inner) dom
      (.name "convex") (LocalG.setupCliques meas []) T inner = .ok m0)
    (h1 : LocalG.setupPotentials (objHPS dom (genGraphConvex dom (LocalG.setupCliques meas [])) (fun _ => (1 : ℝ)) conv inner)
      dom [] warm prev (.name "convex") m0 = .ok m1)
    (h : LocalG.estimate (objHPS dom (genGraphConvex dom (LocalG.setupCliques meas [])) (fun _ => (1 : ℝ)) conv inner) loss
      fuel m1 w oia iters cb log logger = .ok (m, w')) :
    let g := genGraphConvex dom (LocalG.setupCliques meas [])
    Laid dom g.cliques m.potentials ∧ TablesOn T g.regions m.marginals ∧ m.total = T ∧
    ∃ st, RGInv T st ∧ m.marginals = (C17G.genHps dom g m.potentials T st.damping conv inner st.messages).1 := by
  intro g
  have hcl : ∀ c ∈ LocalG.setupCliques meas ([] : CliqueVec ℝ), PGM.Convex.RegOK dom c := by
    intro c hc
    rw [gen_setupCliques] at hc
    simp only [Local.setupCliques, List.map_nil, List.append_nil, List.mem_map] at hc
    obtain ⟨mm, hmm, rfl⟩ := hc
    exact hmeas mm hmm
  have hg : GraphHyp dom g := graphHyp_genC dom _ hcl
  rw [gen_setupModel] at h0
  have h0' : m0 = (mkRG rest fac).region dom (LocalG.setupCliques meas []) T true inner := by
    unfold Local.setupModel at h0
    simp at h0
    exact h0.symm
  rw [gen_setupPotentials _ (objHPS_potLens dom g _ conv inner)] at h1
  simp only [Py.ok.injEq] at h1
  have hm1 : m1 = { m0 with potentials := CliqueVec.zerosV dom g.cliques } := by
    rw [← h1]
    unfold Local.setupPotentials
    cases warm <;> cases prev <;> simp_all [PGM.CVSem.combine_nil] <;> rfl
  have hPm : Laid dom g.cliques m1.potentials := by
    rw [hm1]
    exact laid_zerosV dom g.cliques (fun c hc => (hg.cl_ok c hc).1)
  have hIm : RGInv T m1 := by
    rw [hm1, h0']
    exact ⟨genMessagesC_pos dom _ hdom hcl, rfl⟩
  obtain ⟨theta, mu, model', rfl, p1, p2, p3, st, p4, p5⟩ :=
    gen_estimate_inv (objHPS dom g (fun _ => (1 : ℝ)) conv inner) (objHPS_frame dom g _ conv inner) halfLaw_real loss _ _ _
      (keeps_hps dom g conv inner T loss hT hi hdom hg hgrad) fuel m1 w oia iters cb log logger m w' hPm hIm h
  refine ⟨p1, p3, p2.2, st, p4, ?_⟩
  rw [← p4.2]
  exact p5

/-! ## 3. disjoint measured cliques: every oracle call of the run is the exact oracle -/

section disjoint
open PGM.Sem PGM.ExactDisjoint

/-- the generated non-convex oracle on the generated graph is the model's `RG.gbp` on `RG.build cliques false true` -/
theorem genGbp_approx_eq (dom : Dom) (cl : List Clique) (hcl : ∀ c ∈ cl, PGM.Convex.RegOK dom c) (θ : CliqueVec ℝ) (T : ℝ)
    (inner : Nat) (msgs : RGG.Msgs ℝ) :
    C17G.genGbp dom (genGraphApprox dom cl) θ T inner msgs = RG.gbp dom (RG.build cl false true) θ T inner msgs := by
  unfold genGraphApprox
  rw [C17G.gen_gbp_built_eq dom _ true _ θ T inner msgs (genRegions_ok dom cl false hcl).1]
  unfold genRegions
  rw [C17G.gen_build_regions]
  rfl

/-- the generated convex oracle on the generated graph is the model's `RG.hps` on `RG.build cliques true true` -/
theorem genHps_convex_eq (dom : Dom) (cl : List Clique) (hcl : ∀ c ∈ cl, PGM.Convex.RegOK dom c) (θ : CliqueVec ℝ)
    (T rho conv : ℝ) (inner : Nat) (msgs : RGG.Msgs ℝ) :
    C17G.genHps dom (genGraphConvex dom cl) θ T rho conv inner msgs
      = ((RG.hps dom (RG.build cl true true) (fun _ => 1) θ T inner rho conv msgs).1,
         (RG.hps dom (RG.build cl true true) (fun _ => 1) θ T inner rho conv msgs).2.1) := by
  obtain ⟨f1, f2, f3, f4, -, -⟩ := genGraphConvex_fields dom cl hcl
  have hr := genRegions_ok dom cl true hcl
  unfold C17G.genHps
  rw [f1, f2, f3, f4, C17G.gen_hps dom _ _ θ T rho conv inner msgs (graphHyp_buildOn dom _ true true hr).par]
  unfold genRegions
  rw [C17G.gen_build_regions]
  rfl

/-- **'approx' on a disjoint family**: EVERY call `model.belief_propagation(theta)` of the generated object — any persisted
messages, any potentials, any sweep count — returns `normalise total θ_c` on every measured clique -/
theorem gen_disjoint_call_gbp (dom : Dom) (cl : List Clique) (inner : Nat) (hcl : ∀ c ∈ cl, PGM.Convex.RegOK dom c)
    (hd : Disjoint cl) (hnd : cl.Nodup) (hne : ∀ c ∈ cl, c ≠ []) (st : RGState ℝ) (θ : CliqueVec ℝ) (c : Clique) (hc : c ∈ cl) :
    ((((objGBP dom (genGraphApprox dom cl) inner).bp st θ).1).get c).datavector
      = (RG.normalise st.total (θ.get c)).datavector := by
  show ((C17G.genGbp dom (genGraphApprox dom cl) θ st.total inner st.messages).1.get c).datavector = _
  rw [genGbp_approx_eq dom cl hcl]
  exact C16.gbp_disjoint_msgs dom cl θ st.total inner st.messages hd hnd hne c hc

/-- **'convex' on a disjoint family** (`inner_iters > 0`), any damping / tolerance / persisted messages -/
theorem gen_disjoint_call_hps (dom : Dom) (cl : List Clique) (conv : ℝ) (inner : Nat) (hi : 0 < inner)
    (hcl : ∀ c ∈ cl, PGM.Convex.RegOK dom c)
    (hd : Disjoint cl) (hnd : cl.Nodup) (hne : ∀ c ∈ cl, c ≠ []) (st : RGState ℝ) (θ : CliqueVec ℝ) (c : Clique) (hc : c ∈ cl) :
    ((((objHPS dom (genGraphConvex dom cl) (fun _ => (1 : ℝ)) conv inner).bp st θ).1).get c).datavector
      = (RG.normalise st.total (θ.get c)).datavector := by
  show ((C17G.genHps dom (genGraphConvex dom cl) θ st.total st.damping conv inner st.messages).1.get c).datavector = _
  rw [genHps_convex_eq dom cl hcl]
  exact hps_disjoint_msgs dom cl θ st.total inner st.damping conv st.messages hi hd hnd hne c hc

/-- the message invariant of loopy propagation on a disjoint family (`Oracle.Inv`: variable-to-factor messages are zero tables,
factor-to-variable messages well-formed tables over their attribute) -/
def FGInvD (dom : Dom) (cl : List Clique) (T : ℝ) (s : FGState ℝ) : Prop :=
  Oracle.Inv dom cl (⟨s.messages.1, s.messages.2⟩ : FG.State ℝ) ∧ s.total = T

/-- **'pairwise' on a disjoint family**: every call made from a message state satisfying the invariant, on potentials laid out
on the cliques, returns `normalise total θ_c` on every clique and leaves messages satisfying the invariant; the messages of a
fresh object satisfy it (`Oracle.initMessages_inv`) -/
theorem gen_disjoint_call_lbp (dom : Dom) (cl : List Clique) (inner : Nat) (T : ℝ)
    (hd : Disjoint cl) (hnd : cl.Nodup) (htup : ∀ c ∈ cl, c.Nodup) (st : FGState ℝ) (θ : CliqueVec ℝ)
    (hθ : Laid dom cl θ) (hI : FGInvD dom cl T st) :
    (∀ c ∈ cl, ((((objLBP dom cl inner).bp st θ).1).get c).datavector = (RG.normalise T (θ.get c)).datavector) ∧
    FGInvD dom cl T ((objLBP dom cl inner).bp st θ).2 := by
  obtain ⟨hm, ht⟩ := hI
  have hyp : LbpHyp dom cl θ := ⟨hd, hnd, htup, fun c hc => hθ.get c hc⟩
  obtain ⟨e1, e2, -, e4⟩ := objLBP_bp_eq dom cl inner st θ
  have hinv : Oracle.Inv dom cl (RG.iterate (FG.lbpSweep dom cl θ) inner ⟨st.messages.1, st.messages.2⟩) :=
    iterate_inv (Oracle.Inv dom cl) _ (fun s hs => lbpSweep_inv dom cl θ hyp s hs) inner _ hm
  refine ⟨?_, ?_, e4.trans ht⟩
  · intro c hc
    rw [e1, ht, lbp_get dom cl θ T inner _ c hc]
    apply normalise_datavector_congr
    unfold lbpBelief
    exact belief_datavector dom cl θ hyp _ hinv c hc
  · rw [e2]
    exact hinv

/-- the tables are `normalise T θ_c` of SOME potentials laid out on the cliques -/
def NormalisedOn (dom : Dom) (cl : List Clique) (T : ℝ) (mu : CliqueVec ℝ) : Prop :=
  ∃ θ, Laid dom cl θ ∧ ∀ c ∈ cl, (mu.get c).datavector = (RG.normalise T (θ.get c)).datavector

theorem keeps_lbp_disjoint (dom : Dom) (cl : List Clique) (inner : Nat) (T : ℝ) (loss : CliqueVec ℝ → ℝ × CliqueVec ℝ)
    (hd : Disjoint cl) (hnd : cl.Nodup) (htup : ∀ c ∈ cl, c.Nodup)
    (hgrad : ∀ mu, NormalisedOn dom cl T mu → Laid dom cl (loss mu).2) :
    Keeps (pyOps (objLBP dom cl inner) loss) (Laid dom cl) (NormalisedOn dom cl T) (FGInvD dom cl T) := by
  refine ⟨?_, ?_, ?_⟩
  · intro st θ hI hP
    have h := gen_disjoint_call_lbp dom cl inner T hd hnd htup st θ hP hI
    exact ⟨⟨θ, hP, h.1⟩, h.2⟩
  · intro θ a mu hP hQ
    exact laid_update dom cl θ (loss mu).2 a hP (hgrad mu hQ)
  · intro st hI
    exact hI

/-- **`gen_local_disjoint_exact_form`.**  Measured cliques pairwise disjoint (non-empty, duplicate-free tuples of attributes
of the domain).  For the three objects the generated `setupModel` selects:
1. 'approx': every oracle call of a run, whatever the object state, returns `normalise total θ_c` clique by clique;
2. 'convex' (`inner_iters > 0`): the same;
3. 'pairwise': the same for every call from a state satisfying `FGInvD`, which every call preserves; hence (`mda_inv`) on every
   successful run of the generated `mirror_descent_auto` started from such a state (a fresh object: `fresh_FGInvD`) on potentials
   laid out on the cliques, the returned tables are `normalise total θ_c` of the returned potentials.
`normalise total θ_c` is, cell by cell, `total · marginal / Z` of the product model `∏_c exp θ_c` — the exact marginal oracle of
C01 on the disjoint family (`gen_disjoint_call_is_exact` below, from `C16.disjoint_oracle_exact`; `C18.exact_eq_approx_disjoint`
identifies it with `GM.beliefPropagation` on any junction tree of the family).  So the generated descent of `LocalInference`
feeds its loss with the same tables, step by step, as exact mirror descent would from the same potentials.  That both reach
the optimum is the tested convergence clause. -/
theorem gen_local_disjoint_exact_form (dom : Dom) (cl : List Clique) (conv T : ℝ) (inner : Nat)
    (hcl : ∀ c ∈ cl, PGM.Convex.RegOK dom c) (hd : Disjoint cl) (hnd : cl.Nodup) (hne : ∀ c ∈ cl, c ≠ []) :
    (∀ (st : RGState ℝ) (θ : CliqueVec ℝ), ∀ c ∈ cl,
      ((((objGBP dom (genGraphApprox dom cl) inner).bp st θ).1).get c).datavector
        = (RG.normalise st.total (θ.get c)).datavector) ∧
    (0 < inner → ∀ (st : RGState ℝ) (θ : CliqueVec ℝ), ∀ c ∈ cl,
      ((((objHPS dom (genGraphConvex dom cl) (fun _ => (1 : ℝ)) conv inner).bp st θ).1).get c).datavector
        = (RG.normalise st.total (θ.get c)).datavector) ∧
    (∀ (st : FGState ℝ) (θ : CliqueVec ℝ), Laid dom cl θ → FGInvD dom cl T st →
      (∀ c ∈ cl, ((((objLBP dom cl inner).bp st θ).1).get c).datavector = (RG.normalise T (θ.get c)).datavector) ∧
      FGInvD dom cl T ((objLBP dom cl inner).bp st θ).2) ∧
    (∀ {κ : Type} (loss : CliqueVec ℝ → ℝ × CliqueVec ℝ) (cb : Option (CliqueVec ℝ → κ → κ)) (fuel : Nat) (model : FGState ℝ)
      (w : κ) (alpha : ℝ) (iters : Nat) (l : ℝ) (theta mu : CliqueVec ℝ) (model' : FGState ℝ) (w' : κ),
      (∀ mu, NormalisedOn dom cl T mu → Laid dom cl (loss mu).2) →
      Laid dom cl model.potentials → FGInvD dom cl T model →
      LocalG.mirrorDescentAuto (objLBP dom cl inner) loss cb fuel model w alpha iters = .ok (l, theta, mu, model', w') →
      Laid dom cl theta ∧ FGInvD dom cl T model' ∧
        ∀ c ∈ cl, (mu.get c).datavector = (RG.normalise T (theta.get c)).datavector) := by
  have htup : ∀ c ∈ cl, c.Nodup := fun c hc => (hcl c hc).1
  refine ⟨?_, ?_, ?_, ?_⟩
  · intro st θ c hc
    exact gen_disjoint_call_gbp dom cl inner hcl hd hnd hne st θ c hc
  · intro hi st θ c hc
    exact gen_disjoint_call_hps dom cl conv inner hi hcl hd hnd hne st θ c hc
  · intro st θ hθ hI
    exact gen_disjoint_call_lbp dom cl inner T hd hnd htup st θ hθ hI
  · intro κ loss cb fuel model w alpha iters l theta mu model' w' hgrad hP hI h
    obtain ⟨p1, p2, -, st, p4, p5⟩ := gen_mda_inv (objLBP dom cl inner) (objLBP_frame dom cl inner) halfLaw_real loss _ _ _
      (keeps_lbp_disjoint dom cl inner T loss hd hnd htup hgrad) cb fuel model w alpha iters l theta mu model' w' hP hI h
    refine ⟨p1, p2, ?_⟩
    intro c hc
    rw [p5]
    exact (gen_disjoint_call_lbp dom cl inner T hd hnd htup st theta p1 p4).1 c hc

/-- a fresh `FactorGraph` (messages of the generated `__init__`) satisfies the invariant -/
theorem fresh_FGInvD (dom : Dom) (cl : List Clique) (T : ℝ) (inner : Nat) (pot : CliqueVec ℝ) :
    FGInvD dom cl T (⟨pot, (FGG.init dom cl T inner).2.2.2.2.2.2.2.2.2.1, (FGG.init dom cl T inner).2.2.1⟩ : FGState ℝ) := by
  refine ⟨?_, rfl⟩
  show Oracle.Inv dom cl (⟨((FGG.init dom cl T inner).2.2.2.2.2.2.2.2.2.1).1, ((FGG.init dom cl T inner).2.2.2.2.2.2.2.2.2.1).2⟩ : FG.State ℝ)
  rw [C16.FGG.gen_init_messages]
  exact initMessages_inv dom cl

/-- **the oracle call inside the loop IS the exact oracle of the product family**: for potentials laid out on a disjoint family
(`OracleOK`), whatever the persisted messages / damping, the tables returned by the generated 'approx' and 'convex' objects, and
by the generated 'pairwise' object fresh from `__init__`, are at every valid assignment `total · marginal(σ) / Z` of the product
model `∏_c exp θ_c` (the brute-force semantics of C01) -/
theorem gen_disjoint_call_is_exact (dom : Dom) (cl : List Clique) (θ : CliqueVec ℝ) (hok : OracleOK dom cl θ)
    (conv : ℝ) (inner : Nat) (hi : 0 < inner) (st : RGState ℝ) (hT : 0 < st.total)
    (c : Clique) (hc : c ∈ cl) (σ : Attr → Nat) (hσ : dom.Valid σ) :
    ((((objGBP dom (genGraphApprox dom cl) inner).bp st θ).1).get c).sem σ
      = st.total * marginal dom (expPots θ) c σ / partition dom (expPots θ) ∧
    ((((objHPS dom (genGraphConvex dom cl) (fun _ => (1 : ℝ)) conv inner).bp st θ).1).get c).sem σ
      = st.total * marginal dom (expPots θ) c σ / partition dom (expPots θ) ∧
    ((((objLBP dom cl inner).bp (⟨θ, (FGG.init dom cl st.total inner).2.2.2.2.2.2.2.2.2.1, st.total⟩ : FGState ℝ) θ).1).get c).sem σ
      = st.total * marginal dom (expPots θ) c σ / partition dom (expPots θ) := by
  have hcl : ∀ c ∈ cl, PGM.Convex.RegOK dom c := hok.clique_ok
  obtain ⟨h1, h2, h3⟩ := C16.disjoint_oracle_exact dom cl θ hok st.total hT inner inner inner st.damping conv hi
    st.messages st.messages c hc σ hσ
  refine ⟨?_, ?_, ?_⟩
  · show ((C17G.genGbp dom (genGraphApprox dom cl) θ st.total inner st.messages).1.get c).sem σ = _
    rw [genGbp_approx_eq dom cl hcl]
    exact h1
  · show ((C17G.genHps dom (genGraphConvex dom cl) θ st.total st.damping conv inner st.messages).1.get c).sem σ = _
    rw [genHps_convex_eq dom cl hcl]
    exact h2
  · rw [(objLBP_bp_eq dom cl inner _ θ).1]
    show ((FG.lbp dom cl θ st.total inner ⟨((FGG.init dom cl st.total inner).2.2.2.2.2.2.2.2.2.1).1,
      ((FGG.init dom cl st.total inner).2.2.2.2.2.2.2.2.2.1).2⟩).1.get c).sem σ = _
    rw [C16.FGG.gen_init_messages]
    exact h3

end disjoint

/-! ## the hypotheses are jointly satisfiable -/

section examples

/-- a generated `estimate` with one iteration always returns (one activation suffices: nothing to compare the first loss with) -/
theorem gen_estimate_one_iter_ok {α : Type} [Scalar α] {Msg σ κ : Type} (obj : Obj α Msg σ) (hF : obj.Frame) (hH : HalfLaw α)
    (loss : CliqueVec α → α × CliqueVec α) (fuel : Nat) (model : σ) (w : κ) (oia : Option α)
    (cb : Option (CliqueVec α → κ → κ)) (log : Bool) (logger : CliqueVec α → κ → κ) :
    ∃ m w', LocalG.estimate obj loss (fuel + 1) model w oia 1 cb log logger = .ok (m, w') := by
  rcases gen_ok_or_named_failure obj hF hH loss (estimateCallback cb log logger) (fuel + 1) model w (oia.getD defaultAlpha) 1
    with ⟨v, hv⟩ | ⟨-, h⟩ | ⟨-, h⟩
  · rw [gen_estimate_plumbing]
    unfold LocalG.mirrorDescent
    rw [hv]
    exact ⟨_, _, rfl⟩
  · omega
  · obtain ⟨t, ht⟩ := h 0 (by omega)
    obtain ⟨s, hs⟩ := attempt_one_finished (pyOps obj loss) (obj.getPot model) model
      (iter (fun a => Scalar.div a (Scalar.add Scalar.one Scalar.one)) 0 (oia.getD defaultAlpha))
    rw [hs] at ht
    cases ht

/-- two measured cliques sharing an attribute: `{a,b}`, `{b,c}` over `a:2, b:3, c:2` -/
def exMeas : List (Loss.Meas ℝ) := [⟨[], [], 1, ["a", "b"]⟩, ⟨[], [], 1, ["b", "c"]⟩]

theorem exMeas_ok : ∀ m ∈ exMeas, PGM.Convex.RegOK exDom m.proj := by
  intro m hm
  simp only [exMeas, List.mem_cons, List.mem_nil_iff, or_false] at hm
  rcases hm with rfl | rfl <;> exact ⟨by decide, by decide⟩

/-- `gen_local_estimate_tables_valid_approx`: all hypotheses hold together (zero loss, one iteration, cold start) -/
example : let g := genGraphApprox exDom (LocalG.setupCliques exMeas [])
    let loss : CliqueVec ℝ → ℝ × CliqueVec ℝ := fun _ => (0, CliqueVec.zerosV exDom g.cliques)
    let rest : RGState ℝ := ⟨[], [], [], 1 / 2, 1⟩
    PosDom exDom ∧ (∀ m ∈ exMeas, PGM.Convex.RegOK exDom m.proj) ∧
    (∀ mu, TablesOn 10 g.cliques mu → Laid exDom g.cliques (loss mu).2) ∧
    ∃ m0 m1 m w',
      LocalG.setupModel (mkRG rest (fun _ _ _ _ _ => rest)) (objGBP exDom g 1) exDom (.name "approx")
        (LocalG.setupCliques exMeas []) 10 1 = .ok m0 ∧
      LocalG.setupPotentials (objGBP exDom g 1) exDom [] false none (.name "approx") m0 = .ok m1 ∧
      LocalG.estimate (objGBP exDom g 1) loss 1 m1 () none 1 (none : Option (CliqueVec ℝ → Unit → Unit)) false
        (fun _ u => u) = .ok (m, w') := by
  intro g loss rest
  have hcl : ∀ c ∈ LocalG.setupCliques exMeas ([] : CliqueVec ℝ), PGM.Convex.RegOK exDom c := by
    intro c hc
    rw [gen_setupCliques] at hc
    simp only [Local.setupCliques, List.map_nil, List.append_nil, List.mem_map] at hc
    obtain ⟨mm, hmm, rfl⟩ := hc
    exact exMeas_ok mm hmm
  have hg := graphHyp_genN exDom _ hcl
  refine ⟨exDom_pos, exMeas_ok, fun mu _ => laid_zerosV exDom g.cliques (fun c hc => (hg.cl_ok c hc).1), ?_⟩
  rw [gen_setupModel]
  obtain ⟨m, w', h⟩ := gen_estimate_one_iter_ok (objGBP exDom g 1) (objGBP_frame exDom g 1) halfLaw_real loss 0
    ((objGBP exDom g 1).setPot ((mkRG rest (fun _ _ _ _ _ => rest)).region exDom (LocalG.setupCliques exMeas []) 10 false 1)
      (CliqueVec.zerosV exDom g.cliques)) () none (none : Option (CliqueVec ℝ → Unit → Unit)) false (fun _ u => u)
  refine ⟨(mkRG rest (fun _ _ _ _ _ => rest)).region exDom (LocalG.setupCliques exMeas []) 10 false 1, _, m, w', ?_, ?_, h⟩
  · unfold Local.setupModel; simp
  · rw [gen_setupPotentials _ (objGBP_potLens exDom g 1)]; rfl

/-- `gen_local_estimate_tables_valid_convex`, likewise -/
example : let g := genGraphConvex exDom (LocalG.setupCliques exMeas [])
    let loss : CliqueVec ℝ → ℝ × CliqueVec ℝ := fun _ => (0, CliqueVec.zerosV exDom g.cliques)
    let rest : RGState ℝ := ⟨[], [], [], 1 / 2, 1⟩
    (∀ mu, TablesOn 10 g.regions mu → Laid exDom g.cliques (loss mu).2) ∧
    ∃ m0 m1 m w',
      LocalG.setupModel (mkRG rest (fun _ _ _ _ _ => rest)) (objHPS exDom g (fun _ => (1 : ℝ)) (1 / 1000) 1) exDom
        (.name "convex") (LocalG.setupCliques exMeas []) 10 1 = .ok m0 ∧
      LocalG.setupPotentials (objHPS exDom g (fun _ => (1 : ℝ)) (1 / 1000) 1) exDom [] false none (.name "convex") m0 = .ok m1 ∧
      LocalG.estimate (objHPS exDom g (fun _ => (1 : ℝ)) (1 / 1000) 1) loss 1 m1 () none 1
        (none : Option (CliqueVec ℝ → Unit → Unit)) false (fun _ u => u) = .ok (m, w') := by
  intro g loss rest
  have hcl : ∀ c ∈ LocalG.setupCliques exMeas ([] : CliqueVec ℝ), PGM.Convex.RegOK exDom c := by
    intro c hc
    rw [gen_setupCliques] at hc
    simp only [Local.setupCliques, List.map_nil, List.append_nil, List.mem_map] at hc
    obtain ⟨mm, hmm, rfl⟩ := hc
    exact exMeas_ok mm hmm
  have hg := graphHyp_genC exDom _ hcl
  refine ⟨fun mu _ => laid_zerosV exDom g.cliques (fun c hc => (hg.cl_ok c hc).1), ?_⟩
  rw [gen_setupModel]
  obtain ⟨m, w', h⟩ := gen_estimate_one_iter_ok (objHPS exDom g (fun _ => (1 : ℝ)) (1 / 1000) 1)
    (objHPS_frame exDom g _ _ 1) halfLaw_real loss 0
    ((objHPS exDom g (fun _ => (1 : ℝ)) (1 / 1000) 1).setPot
      ((mkRG rest (fun _ _ _ _ _ => rest)).region exDom (LocalG.setupCliques exMeas []) 10 true 1)
      (CliqueVec.zerosV exDom g.cliques)) () none (none : Option (CliqueVec ℝ → Unit → Unit)) false (fun _ u => u)
  refine ⟨(mkRG rest (fun _ _ _ _ _ => rest)).region exDom (LocalG.setupCliques exMeas []) 10 true 1, _, m, w', ?_, ?_, h⟩
  · unfold Local.setupModel; simp
  · rw [gen_setupPotentials _ (objHPS_potLens exDom g _ _ 1)]; rfl

/-- `gen_local_estimate_tables_valid_pairwise`, likewise (the two measured cliques are distinct) -/
example : let cl := LocalG.setupCliques exMeas ([] : CliqueVec ℝ)
    let loss : CliqueVec ℝ → ℝ × CliqueVec ℝ := fun _ => (0, CliqueVec.zerosV exDom cl)
    let junk : Dom → List Clique → ℝ → Bool → Nat → FGState ℝ := fun _ _ _ _ _ => ⟨[], ([], []), 1⟩
    (exMeas.map (·.proj)).Nodup ∧
    (∀ mu, TablesOn 10 cl mu → Laid exDom cl (loss mu).2) ∧
    ∃ m0 m1 m w',
      LocalG.setupModel (mkFG junk junk) (objLBP exDom cl 1) exDom (.name "pairwise") cl 10 1 = .ok m0 ∧
      LocalG.setupPotentials (objLBP exDom cl 1) exDom [] false none (.name "pairwise") m0 = .ok m1 ∧
      LocalG.estimate (objLBP exDom cl 1) loss 1 m1 () none 1 (none : Option (CliqueVec ℝ → Unit → Unit)) false
        (fun _ u => u) = .ok (m, w') := by
  intro cl loss junk
  have hcl : ∀ c ∈ cl, c.Nodup := by
    intro c hc
    have : cl = [["a", "b"], ["b", "c"]] := rfl
    rw [this] at hc
    simp only [List.mem_cons, List.mem_nil_iff, or_false] at hc
    rcases hc with rfl | rfl <;> decide
  refine ⟨by decide, fun mu _ => laid_zerosV exDom cl hcl, ?_⟩
  rw [gen_setupModel]
  obtain ⟨m, w', h⟩ := gen_estimate_one_iter_ok (objLBP exDom cl 1) (objLBP_frame exDom cl 1) halfLaw_real loss 0
    ((objLBP exDom cl 1).setPot ((mkFG junk junk).factor exDom cl 10 false 1) (CliqueVec.zerosV exDom cl)) () none
    (none : Option (CliqueVec ℝ → Unit → Unit)) false (fun _ u => u)
  refine ⟨(mkFG junk junk).factor exDom cl 10 false 1, _, m, w', ?_, ?_, h⟩
  · unfold Local.setupModel; simp
  · rw [gen_setupPotentials _ (objLBP_potLens exDom cl 1)]; rfl

/-- part 3: a disjoint family `{a,b}`, `{c}` over the same domain satisfies the hypotheses of `gen_local_disjoint_exact_form` -/
example : (∀ c ∈ exCliques, PGM.Convex.RegOK exDom c) ∧ Disjoint exCliques ∧ exCliques.Nodup ∧ ∀ c ∈ exCliques, c ≠ [] := by
  refine ⟨?_, exCliques_ok.1, exCliques_ok.2.1, exCliques_ok.2.2⟩
  intro c hc
  simp only [exCliques, List.mem_cons, List.mem_nil_iff, or_false] at hc
  rcases hc with rfl | rfl <;> exact ⟨by decide, by decide⟩

end examples

/-! ## 4. `hgrad` for the generated `_marginal_loss` of `LocalInference`: the loss half

For `LocalInference`'s generated copies of `_marginal_loss` (py2local, C18G `gen_marginalLossL2` / `L1`): marginals laid out
on a duplicate-free clique list give a gradient laid out on it — for every scalar type and ARBITRARY measurements.  This
reduces the `hgrad` hypothesis of section 2 to the layout of the ORACLE's answer (`Laid dom cliques mu`), which `TablesOn` /
`NormalisedOn` do not record (they speak of the cell values only): with these predicates as the `Q` of `Keeps`, `hgrad` cannot
be discharged for the generated loss.  Carrying `Laid` of the marginals through the three oracles needs an invariant on the
DOMAINS of the persisted messages (`RGInv` / `FGInv` record positivity only); for `'convex'` the marginals — hence the
gradient — are keyed by `g.regions`, not by `g.cliques`, so there the gradient can only be laid out `get`-wise.  Proved in
`Properties/C18H.lean` (`gen_lbp_laid` / `gen_gbp_laid` / `gen_hps_laid`, and the `…_L2` / `…_L1` end-to-end theorems without
`hgrad`). -/
section lossHalf
variable {α : Type} [Scalar α]

theorem gen_local_lossL2_laid (d : Dom) (cliques cl' : List Clique) (hcn : cliques.Nodup) (meas : List (Loss.Meas α))
    (mu : CliqueVec α) (hmu : Laid d cliques mu) : Laid d cliques (LocalG.marginalLossL2 d cl' meas mu).2 := by
  rw [gen_marginalLossL2 d cl' meas mu (hmu.1 ▸ hcn) (fun p hp => (hmu.2 p hp).2)]
  exact GradLaid.marginalLoss_laid d d cliques cl' meas mu hmu

theorem gen_local_lossL1_laid (d : Dom) (cliques cl' : List Clique) (hcn : cliques.Nodup) (meas : List (Loss.Meas α))
    (mu : CliqueVec α) (hmu : Laid d cliques mu) : Laid d cliques (LocalG.marginalLossL1 d cl' meas mu).2 := by
  rw [gen_marginalLossL1 d cl' meas mu (hmu.1 ▸ hcn) (fun p hp => (hmu.2 p hp).2)]
  exact GradLaid.marginalLossL1_laid d d cliques cl' meas mu hmu

end lossHalf

end PGM.C18E
