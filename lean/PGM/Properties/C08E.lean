import PGM.Proofs.E2EGen
import PGM.Proofs.E2ESem
import PGM.Properties.C13G
import PGM.Properties.C01E
import PGM.Properties.C04G
import PGM.Properties.C08B
import PGM.Properties.C02G
import PGM.Proofs.GradLaid
/-!
# C08 (end to end) — what the GENERATED `estimate` returns, composed from the translator ties

The generated `FactoredInference.estimate` (`tools/py2est.py`, `Generated/EstimateG.lean`) dispatches to the generated solver
method (`_setup` + the body translated by `tools/py2inf.py`, `Generated/InferenceG.lean`), whose marginal oracle
`model.belief_propagation` / refit `model.mle` are the generated `belief_propagation` / `mle` (`tools/py2gm.py`,
`Generated/GraphicalModelG.lean`) run on the fields stored by the generated `GraphicalModel.__init__`
(`tools/py2gminit.py`, `Generated/GraphicalModelInitG.lean`) for the constructor arguments `_setup` passes.

1. `gen_estimate_returns_coherent_pair` (every scalar type, engine MD / RDA / IG, every iteration count ≥ 0, every exit):
   the returned object is the stored object; MD: `marginals = belief_propagation(potentials)`, except on the early return
   `ans[0] == 0`, which leaves `marginals` UNSET and the potentials as `_setup` stored them; RDA / IG:
   `potentials = mle(marginals)`, except on the early return `L == 0`, which leaves `marginals` unset likewise.
   `gen_solver_exits_every_loss`: the same at the level of the solver bodies for EVERY loss/gradient function.
   `gen_unset_marginals_query`: with `marginals` unset the generated `project` answers every query from the potentials.
2. `gen_estimate_answers_valid_of_pair` (exp-space reading `LogOf K`; NO solver run): for the model object built by the generated
   `__init__` (any `Admissible` behaviour of the library contracts) and ANY potential vector `p` that is a family of nonnegative
   tables over its cliques (`PotsOK`) with `Z ≠ 0`, the tables the GENERATED `belief_propagation` computes from `p` are
   `total · marginal / Z` of ONE joint — the product of `p` (C01E `gen_exact_inference_end_to_end`) — hence nonnegative, summing
   to the total, and any two agree on shared attributes (`E2ESem.tables_sum` / `tables_agree`).

How 1 and 2 combine, and what is NOT proved.  For every scalar instance — the `Float` run included — the returned marginals ARE
`belief_propagation(returned potentials)` (1); at the exp-space instance `belief_propagation` of ANY potentials is the exact
marginal family (2).  The bridge between a log-space run (`Float`, or a real log-space instance such as `realScalar`) and the
exp-space reading is the scalar homomorphism `exp` (`add ↦ *`, `sub ↦ /` with the `−∞` rule, `lse ↦ Σ`).  No homomorphism lemma
for `belief_propagation` between two scalar instances exists in `Proofs/`; the bridge is EXERCISED by the C08 correspondence run
(`Float` instance of `bp` / `mle` / the MD run against the implementation), NOT PROVED.

**Audit finding (independent audit, `audit/scratch/c10_vacuous.lean`), machine-checked here as `md_run_degenerate_at_LogOf`.**
An earlier version stated `gen_estimate_answers_valid` (and `C10E.gen_estimate_answers_valid_closed` / `_nozeros`, clause 3 of
`C10E.gen_estimate_zeros_end_to_end*`) about the object the generated `estimate(engine='MD')` returns AT THE SCALAR TYPE `LogOf K`.
Those statements were VACUOUS: `Model/LogOf.lean` has `mul x _ := x`, `div x _ := x` (a log-space value times a scalar has no
exp-space reading in a field), so at `LogOf K` the generated `_marginal_loss` is constantly `⟨1⟩`, `eq0 ⟨1⟩ = true`, and the
generated mirror descent ALWAYS takes its `ans[0] == 0` early return: `marginals = none`, `potentials = theta0` of `_setup`.  The
antecedent `g.marginals = some m` was never satisfiable (`md_marginals_never_stored_at_LogOf`).  They are DELETED; the solver is
no longer run at `LogOf K` in any statement of this file.

NOT proved here (open): (a) the `exp` bridge above; (b) for RDA / IG the semantic half "`belief_propagation(mle w) = w` for the
`w` these solvers form".  The pieces are in place — `E2EGen.rda_inv` / `ig_inv` transport any property `R` of marginal vectors
that the oracle's answers have and the averaging step preserves to the returned `w` (with `R` = `Coherent.Realisable` this is
`C08.bp_realisable` + `C08.realisable_combination`, the weights being `2/(t+1)` resp. `igA`), and `C08.mle_roundtrip_preorder`
applies to `self.cliques` of the generated `__init__` (`Admissible.dfs_cliques`) — but RDA / IG average PLAIN marginal vectors
while the parameters are read in exp-space, so the run needs ONE scalar type carrying both readings (with `-inf`), for which
neither `realisable_combination` nor the C01 theorems are proved yet.
-/
namespace PGM.C08E
open PGM PGM.JT PGM.Sem PGM.EstG PGM.EstGen PGM.C01E PGM.C13G
set_option linter.unusedSectionVars false
set_option linter.unusedVariables false

/-! ## the oracles of the estimator's model object: generated `__init__` + generated `belief_propagation` / `mle` -/
section oracles
variable {α : Type} [Scalar α]

/-- the dynamic form of `self.elim_order` as `_setup` passes it to `GraphicalModel(..)` -/
def modeOf : Option (List Attr) → ElimMode
  | none => .none
  | some o => .given o

/-- the `GraphicalModel` object behind the estimator's model record: the generated `__init__` on its constructor arguments -/
def gmOf (nx : Nx) (g : GM α) : GMIG.Model α := genInit nx g.domain g.inCliques g.total (modeOf g.elim)

/-- py2est's contract `gmCliques`, discharged: `GraphicalModel(d, cs, total, elimination_order=eo).cliques` of the generated
`__init__` (the field does not depend on `total`) -/
def gmC (nx : Nx) : Dom → List Clique → Option (List Attr) → List Clique :=
  fun d cs eo => (genInit nx d cs () (modeOf eo)).cliques

/-- py2est's / py2inf's contract `bp`, discharged: the generated `belief_propagation` on the generated fields -/
def bpO (nx : Nx) (g : GM α) (theta : CliqueVec α) : CliqueVec α :=
  GMG.beliefPropagation (gmOf nx g).cliques (gmOf nx g).message_order theta (gmOf nx g).total

/-- the contract `mle`, discharged: the generated `mle` over the generated `self.cliques` (`logf` = `Factor.log`) -/
def mleO (logf : Factor α → Factor α) (nx : Nx) (g : GM α) (w : CliqueVec α) : CliqueVec α :=
  GMG.mle logf (gmOf nx g).cliques w

theorem gmOf_cliques (nx : Nx) (g : GM α) : (gmOf nx g).cliques = gmC nx g.domain g.inCliques g.elim := by
  simp only [gmOf, gmC, gen_init_cliques]

theorem gmOf_total (nx : Nx) (g : GM α) : (gmOf nx g).total = g.total := gen_init_total ..

/-- the model object does not depend on the two attributes the solvers assign -/
theorem gmOf_writeBack (nx : Nx) (g : GM α) (r : Solvers.Result α) : gmOf nx (writeBack g r) = gmOf nx g := rfl

/-- **the marginal oracle keeps the layout** (every scalar type): on the fields the generated `__init__` stores — whatever the
library contracts answer — the generated `belief_propagation` maps parameters laid out on the model's cliques (keys
`self.cliques` in order, each table well formed over `domain.project(clique)`) to marginals laid out on them -/
theorem gen_bp_laid (nx : Nx) (d : Dom) (cliques : List Clique) (total : α) (mode : ElimMode)
    (hd : d.WF) (hne : d.attrs ≠ []) (hcl : ∀ c ∈ cliques, c.Nodup ∧ ∀ a ∈ c, a ∈ d.attrs)
    (hadm : Admissible nx d cliques mode) (θ : CliqueVec α)
    (hθ : LocalE2E.Laid d (genInit nx d cliques total mode).cliques θ) :
    LocalE2E.Laid d (genInit nx d cliques total mode).cliques
      (GMG.beliefPropagation (genInit nx d cliques total mode).cliques (genInit nx d cliques total mode).message_order θ
        (genInit nx d cliques total mode).total) := by
  obtain ⟨hnd, hrecv⟩ := GradLaid.sched_of_check _ _ _ _ (gen_init_checkJT_nil nx d cliques total mode hd hne hcl hadm)
  exact GradLaid.gen_beliefPropagation_laid d _ _ θ _ hnd
    (gen_init_cliques_ok nx d cliques total mode hd hne hcl hadm).1 hrecv hθ

/-- **`hgrad`, discharged for the generated `_marginal_loss`** (every scalar type, both metrics, arbitrary measurements): the
gradient at marginals laid out on the (duplicate-free) clique list `cl` is laid out on it -/
theorem gen_lossOf_laid (c : Cfg α) (g : GM α) (ms : List (Loss.Meas α)) (cl : List Clique) (hcn : cl.Nodup)
    (mu : CliqueVec α) (hmu : LocalE2E.Laid c.domain cl mu) : LocalE2E.Laid c.domain cl (lossOf c g ms mu).2 := by
  unfold lossOf
  cases c.metric
  · exact GradLaid.gen_marginalLossL2_laid c.domain cl g.cliques hcn ms mu hmu
  · exact GradLaid.gen_marginalLossL1_laid c.domain cl g.cliques hcn ms mu hmu

end oracles

/-! ## 1. the returned pair, every scalar type -/
section pair
variable {α : Type} [Scalar α] {V Cb : Type}
variable (gmc : Dom → List Clique → Option (List Attr) → List Clique) (estT : List (Loss.Meas α) → α)
  (bp mle : GM α → CliqueVec α → CliqueVec α) (topEigs : List (Loss.Meas α) → List α)
  (logger : V) (cbVal : Option Cb → V)

/-- the generated `estimate` with the three generated solver methods plugged in -/
def estimateG (s : Est α) (a : Args α V Cb) : Est α × Opts V × Option (GM α) :=
  estimate logger cbVal (fun s ms t _ => mirrorDescentShell gmc estT bp s ms t)
    (fun s ms t _ => dualAveragingShell gmc estT bp mle topEigs s ms t)
    (fun s ms t _ => interiorGradientShell gmc estT bp mle topEigs s ms t)
    s a.measurements a.total a.engine a.callback a.options

/-- the measurements as `fix_measurements` hands them on -/
def measOf (s : Est α) (a : Args α V Cb) : List (Loss.Meas α) := fixMeasurements s.cfg.domain a.measurements

/-- the model object `_setup` stores (before the solver body runs) -/
def freshGM (s : Est α) (a : Args α V Cb) : GM α :=
  newGM gmc s.cfg (measOf s a) (totalOf estT (measOf s a) a.total) (theta0 gmc s (measOf s a))

/-- the value of `self._lipschitz(measurements)` -/
def lipOf (s : Est α) (a : Args α V Cb) : α :=
  InfG.lipschitz s.cfg.domain (freshGM gmc estT s a).cliques (measOf s a) (topEigs (measOf s a))

/-- the result record of the solver body the engine name selects, run on the fresh model -/
def solverRun (s : Est α) (a : Args α V Cb) : Solvers.Result α :=
  let g0 := freshGM gmc estT s a
  let ms := measOf s a
  if a.engine == "MD" then
    InfG.mirrorDescent (bp g0) (lossOf s.cfg g0 ms) s.cfg.iters g0.potentials g0.total
  else if a.engine == "RDA" then
    InfG.dualAveraging (bp g0) (lossOf s.cfg g0 ms) (mle g0) s.cfg.domain g0.cliques s.cfg.structural_zeros s.cfg.iters
      g0.potentials (lipOf gmc estT topEigs s a) g0.total
  else
    InfG.interiorGradient (bp g0) (lossOf s.cfg g0 ms) (mle g0) s.cfg.iters g0.potentials (lipOf gmc estT topEigs s a)
      g0.total

/-- **`estimate`, closed form over the generated solver bodies** (ties C13G `gen_estimate`, `gen_*Shell`): the returned
object IS the stored object, namely the fresh model of `_setup` with `potentials` / `marginals` as the selected generated
solver body leaves them; the configuration is untouched -/
theorem gen_estimate_closed (s : Est α) (a : Args α V Cb) (he : ValidEngine a.engine) :
    (estimateG gmc estT bp mle topEigs logger cbVal s a).2.2
        = some (writeBack (freshGM gmc estT s a) (solverRun gmc estT bp mle topEigs s a)) ∧
    (estimateG gmc estT bp mle topEigs logger cbVal s a).1.model
        = some (writeBack (freshGM gmc estT s a) (solverRun gmc estT bp mle topEigs s a)) ∧
    (estimateG gmc estT bp mle topEigs logger cbVal s a).1.cfg = s.cfg := by
  unfold estimateG
  rw [estimate_eq gmc estT logger cbVal _ _ _ (runMD bp) (runRDA bp mle topEigs) (runIG bp mle topEigs)
    (gen_mirrorDescentShell gmc estT bp) (gen_dualAveragingShell gmc estT bp mle topEigs)
    (gen_interiorGradientShell gmc estT bp mle topEigs) s a he]
  have key : resultGM gmc estT logger cbVal (runMD bp) (runRDA bp mle topEigs) (runIG bp mle topEigs) s.cfg a
      (theta0 gmc s (fixMeasurements s.cfg.domain a.measurements))
      = writeBack (freshGM gmc estT s a) (solverRun gmc estT bp mle topEigs s a) := by
    rcases he with he | he | he <;> simp only [resultGM, runOf, solverRun, he] <;> rfl
  exact ⟨congrArg some key, congrArg some key, rfl⟩

/-- what the caller can observe of the returned object `g`, in terms of the fresh model `g0`, per engine -/
structure PairSpec (bp mle : GM α → CliqueVec α → CliqueVec α) (engine : String) (loss0 L : α) (g0 g : GM α) : Prop where
  /-- the constructor arguments, the clique list and the total are those `_setup` fixed -/
  same_object : g = writeBack g0 ⟨g.potentials, g.marginals, none⟩
  /-- MD: early return `ans[0] == 0` (nothing written) or `marginals = belief_propagation(potentials)` -/
  md : engine = "MD" →
    (InfG.eq0 loss0 = true ∧ g.marginals = none ∧ g.potentials = g0.potentials) ∨
    (InfG.eq0 loss0 = false ∧ g.marginals = some (bp g g.potentials))
  /-- RDA / IG: early return `L == 0` (nothing written) or `potentials = mle(marginals)` -/
  rda_ig : engine = "RDA" ∨ engine = "IG" →
    (InfG.eq0 L = true ∧ g.marginals = none ∧ g.potentials = g0.potentials) ∨
    (InfG.eq0 L = false ∧ ∃ w, g.marginals = some w ∧ g.potentials = mle g w)

/-- **the solver bodies, for EVERY loss/gradient function** (`E2EGen.md_inv`, `rda_inv`, `ig_inv` with trivial
properties): which exit, and the stored pair -/
theorem gen_solver_exits_every_loss (bpF mleF : CliqueVec α → CliqueVec α) (lossgrad : CliqueVec α → α × CliqueVec α)
    (d : Dom) (cliques : List Clique) (zeros : CliqueVec α) (iters : Nat) (theta0 : CliqueVec α) (L total : α) :
    (let r := InfG.mirrorDescent bpF lossgrad iters theta0 total
     (InfG.eq0 (lossgrad (bpF theta0)).1 = true → r.potentials = theta0 ∧ r.marginals = none) ∧
     (InfG.eq0 (lossgrad (bpF theta0)).1 = false → r.marginals = some (bpF r.potentials))) ∧
    (let r := InfG.dualAveraging bpF lossgrad mleF d cliques zeros iters theta0 L total
     (InfG.eq0 L = true → r = ⟨theta0, none, none⟩) ∧ (InfG.eq0 L = false → ∃ w, r = ⟨mleF w, some w, none⟩)) ∧
    (let r := InfG.interiorGradient bpF lossgrad mleF iters theta0 L total
     (InfG.eq0 L = true → r = ⟨theta0, none, none⟩) ∧ (InfG.eq0 L = false → ∃ w, r = ⟨mleF w, some w, none⟩)) := by
  refine ⟨(E2EGen.md_inv (fun _ => True) bpF lossgrad iters theta0 total trivial (fun _ _ _ _ => trivial)).2, ?_, ?_⟩
  · have h := E2EGen.rda_inv (fun _ => True) bpF lossgrad mleF d cliques zeros iters theta0 L total trivial
      (fun _ => trivial) (fun _ _ _ _ _ _ _ => trivial)
    exact ⟨h.1, fun hL => let ⟨w, _, hw⟩ := h.2 hL; ⟨w, hw⟩⟩
  · have h := E2EGen.ig_inv (fun _ => True) (fun _ => True) bpF lossgrad mleF iters theta0 L total trivial
      (fun _ _ _ _ => trivial) (fun _ _ => trivial) (fun _ _ _ _ _ _ => trivial)
    exact ⟨h.1, fun hL => let ⟨w, _, hw⟩ := h.2 hL; ⟨w, hw⟩⟩

/-- **the returned pair, any oracles**: for the generated `estimate` + solver methods + solver bodies, whatever functions
of the model object `belief_propagation` and `mle` are — provided they read only what `__init__` fixed (`hbp`, `hmle`:
not the `potentials` / `marginals` attributes the solver assigns) -/
theorem gen_estimate_pair (hbp : ∀ g r, bp (writeBack g r) = bp g) (hmle : ∀ g r, mle (writeBack g r) = mle g)
    (s : Est α) (a : Args α V Cb) (he : ValidEngine a.engine) :
    ∃ g, (estimateG gmc estT bp mle topEigs logger cbVal s a).2.2 = some g ∧
      (estimateG gmc estT bp mle topEigs logger cbVal s a).1.model = some g ∧
      (estimateG gmc estT bp mle topEigs logger cbVal s a).1.cfg = s.cfg ∧
      PairSpec bp mle a.engine
        (lossOf s.cfg (freshGM gmc estT s a) (measOf s a) (bp (freshGM gmc estT s a) (freshGM gmc estT s a).potentials)).1
        (lipOf gmc estT topEigs s a) (freshGM gmc estT s a) g := by
  obtain ⟨h1, h2, h3⟩ := gen_estimate_closed gmc estT bp mle topEigs logger cbVal s a he
  refine ⟨_, h1, h2, h3, ⟨rfl, ?_, ?_⟩⟩
  · intro hMD
    have hr : solverRun gmc estT bp mle topEigs s a = InfG.mirrorDescent (bp (freshGM gmc estT s a))
        (lossOf s.cfg (freshGM gmc estT s a) (measOf s a)) s.cfg.iters (freshGM gmc estT s a).potentials
        (freshGM gmc estT s a).total := by
      simp only [solverRun, hMD]; rfl
    obtain ⟨_, e1, e2⟩ := E2EGen.md_inv (fun _ => True) (bp (freshGM gmc estT s a))
      (lossOf s.cfg (freshGM gmc estT s a) (measOf s a)) s.cfg.iters (freshGM gmc estT s a).potentials
      (freshGM gmc estT s a).total trivial (fun _ _ _ _ => trivial)
    rw [hr, hbp]
    cases hc : InfG.eq0 (lossOf s.cfg (freshGM gmc estT s a) (measOf s a)
        (bp (freshGM gmc estT s a) (freshGM gmc estT s a).potentials)).1
    · exact Or.inr ⟨rfl, e2 hc⟩
    · exact Or.inl ⟨rfl, (e1 hc).2, (e1 hc).1⟩
  · intro hE
    rw [hmle]
    rcases hE with hE | hE
    · have hr : solverRun gmc estT bp mle topEigs s a = InfG.dualAveraging (bp (freshGM gmc estT s a))
          (lossOf s.cfg (freshGM gmc estT s a) (measOf s a)) (mle (freshGM gmc estT s a)) s.cfg.domain
          (freshGM gmc estT s a).cliques s.cfg.structural_zeros s.cfg.iters (freshGM gmc estT s a).potentials
          (lipOf gmc estT topEigs s a) (freshGM gmc estT s a).total := by
        simp only [solverRun, hE]; rfl
      obtain ⟨e1, e2⟩ := (gen_solver_exits_every_loss (bp (freshGM gmc estT s a)) (mle (freshGM gmc estT s a))
        (lossOf s.cfg (freshGM gmc estT s a) (measOf s a)) s.cfg.domain (freshGM gmc estT s a).cliques
        s.cfg.structural_zeros s.cfg.iters (freshGM gmc estT s a).potentials (lipOf gmc estT topEigs s a)
        (freshGM gmc estT s a).total).2.1
      rw [hr]
      cases hc : InfG.eq0 (lipOf gmc estT topEigs s a)
      · obtain ⟨w, hw⟩ := e2 hc
        exact Or.inr ⟨rfl, w, by rw [hw]; exact ⟨rfl, rfl⟩⟩
      · exact Or.inl ⟨rfl, by rw [e1 hc]; exact ⟨rfl, rfl⟩⟩
    · have hr : solverRun gmc estT bp mle topEigs s a = InfG.interiorGradient (bp (freshGM gmc estT s a))
          (lossOf s.cfg (freshGM gmc estT s a) (measOf s a)) (mle (freshGM gmc estT s a)) s.cfg.iters
          (freshGM gmc estT s a).potentials (lipOf gmc estT topEigs s a) (freshGM gmc estT s a).total := by
        simp only [solverRun, hE]; rfl
      obtain ⟨e1, e2⟩ := (gen_solver_exits_every_loss (bp (freshGM gmc estT s a)) (mle (freshGM gmc estT s a))
        (lossOf s.cfg (freshGM gmc estT s a) (measOf s a)) s.cfg.domain (freshGM gmc estT s a).cliques
        s.cfg.structural_zeros s.cfg.iters (freshGM gmc estT s a).potentials (lipOf gmc estT topEigs s a)
        (freshGM gmc estT s a).total).2.2
      rw [hr]
      cases hc : InfG.eq0 (lipOf gmc estT topEigs s a)
      · obtain ⟨w, hw⟩ := e2 hc
        exact Or.inr ⟨rfl, w, by rw [hw]; exact ⟨rfl, rfl⟩⟩
      · exact Or.inl ⟨rfl, by rw [e1 hc]; exact ⟨rfl, rfl⟩⟩

end pair

/-! ## 1 (headline). the oracles are the generated `belief_propagation` / `mle` on the generated `__init__` -/
section headline
variable {α : Type} [Scalar α] {V Cb : Type}

/-- **THE RETURNED PAIR, END TO END, FOR THE GENERATED CODE** (every scalar type — the float run included).  For the
generated `estimate` (py2est) dispatching to the generated solver method and body (py2est, py2inf) whose marginal oracle is the
generated `belief_propagation` and whose refit is the generated `mle` (py2gm), both run on the fields the generated
`GraphicalModel.__init__` (py2gminit) stores for the constructor arguments `_setup` passes; for each engine MD / RDA / IG,
every iteration count `self.iters ≥ 0`, every metric, every measurement list, every total, every previous state (warm or
cold) and every behaviour of the library contracts `nx`:

* the returned object is the object stored in `self.model`; its `cliques` / `total` are those of the generated `__init__`;
* MD: either `ans[0] == 0` held before the loop — the source `return`s, `marginals` is UNSET and `potentials` are the initial
  parameters of `_setup` — or `marginals = belief_propagation(potentials)` exactly (zero iterations, accepted step or
  the forced 25th step of an exhausted line search alike);
* RDA / IG: either `L == 0` — the source `return`s, `marginals` UNSET, `potentials` the initial parameters — or
  `potentials = mle(marginals)` exactly (zero iterations included).

With `marginals` unset the object answers every query from `potentials` (`gen_unset_marginals_query`). -/
theorem gen_estimate_returns_coherent_pair (nx : Nx) (estT : List (Loss.Meas α) → α) (logf : Factor α → Factor α)
    (topEigs : List (Loss.Meas α) → List α) (logger : V) (cbVal : Option Cb → V)
    (s : Est α) (a : Args α V Cb) (he : ValidEngine a.engine) :
    ∃ g, (estimateG (gmC nx) estT (bpO nx) (mleO logf nx) topEigs logger cbVal s a).2.2 = some g ∧
      (estimateG (gmC nx) estT (bpO nx) (mleO logf nx) topEigs logger cbVal s a).1.model = some g ∧
      (estimateG (gmC nx) estT (bpO nx) (mleO logf nx) topEigs logger cbVal s a).1.cfg = s.cfg ∧
      g.cliques = (gmOf nx g).cliques ∧ g.total = (gmOf nx g).total ∧
      PairSpec (bpO nx) (mleO logf nx) a.engine
        (lossOf s.cfg (freshGM (gmC nx) estT s a) (measOf s a)
          (bpO nx (freshGM (gmC nx) estT s a) (freshGM (gmC nx) estT s a).potentials)).1
        (lipOf (gmC nx) estT topEigs s a) (freshGM (gmC nx) estT s a) g := by
  obtain ⟨g, h1, h2, h3, ps⟩ := gen_estimate_pair (gmC nx) estT (bpO nx) (mleO logf nx) topEigs logger cbVal
    (fun _ _ => rfl) (fun _ _ => rfl) s a he
  refine ⟨g, h1, h2, h3, ?_, ?_, ps⟩
  · rw [gmOf_cliques, ps.same_object]; rfl
  · rw [gmOf_total]

/-- **the query path when `marginals` is unset** (the early returns): `hasattr(self, 'marginals')` is false, so the
generated `project` (py2gmq) answers EVERY attribute tuple — inside a clique or not — by variable elimination on the stored
potentials (C02G `gen_project_correct_none`: the answer is `total · marginal / Z` of their product) -/
theorem gen_unset_marginals_query {β : Type} [Scalar β] (g : GM α) (hm : g.marginals = none)
    (toPlain : Factor α → Factor β) (greedy : Dom → List Clique → List Attr → List Attr) (b : Bool) (attrs : List Attr) :
    GMQ.project toPlain greedy g.domain g.cliques (g.marginals.map (fun _ => ([] : CliqueVec β))) g.potentials g.total b attrs
      = toPlain (GMQ.projectUncached greedy g.domain g.cliques g.potentials g.total b attrs) := by
  rw [hm]; exact C02.GMQ.gen_project_none toPlain greedy g.domain g.cliques g.potentials g.total b attrs

end headline

/-! ## 2. `belief_propagation` of ANY exp-space potentials is the exact marginal family of ONE joint (no solver run) -/
section valid
variable {K : Type} [Field K] [LinearOrder K] [IsStrictOrderedRing K] {V Cb : Type}

/-- **THE TABLES `belief_propagation` COMPUTES FROM ANY POTENTIALS ARE ONE VALID DISTRIBUTION (generated `__init__` + generated
`belief_propagation`, exp-space reading `LogOf K`, independent of the solver run).**  Let `g` be any model record — only its
constructor arguments `domain`, `inCliques`, `elim`, `total` are read: `gmOf nx g` is the object the generated
`GraphicalModel.__init__` builds from them, `bpO nx g` the generated `belief_propagation` on its fields — with a well-formed
non-empty domain, cliques inside it and ANY admissible behaviour of the library contracts; let `p` be ANY potential vector that is
a family of nonnegative tables over the cliques of the generated model (`PotsOK`) with `Z ≠ 0`.  Then there is ONE joint, the
product of `p`, such that

1. every table of `belief_propagation(p)` is `total · marginal_c / Z` of it (C01E `gen_exact_inference_end_to_end`), hence
2. nonnegative (for a nonnegative total),
3. summing to the model total, and
4. any two tables, summed down to any attribute tuple `A` both contain, agree (both are `total · marginal_A / Z`).

**How this combines with `gen_estimate_returns_coherent_pair`** (which gives `g.cliques = (gmOf nx g).cliques` and, on every exit of
MD that stores them, `g.marginals = some (bpO nx g g.potentials)`): for EVERY scalar instance the returned marginals ARE
`bp(returned potentials)`; at the EXP-SPACE instance `bp` of any potentials is the exact marginal family.  The bridge between a
log-space run (`Float` / a real log-space instance) and the exp-space reading is the scalar homomorphism `exp`; it is exercised by
the C08 correspondence run, NOT proved (no homomorphism lemma for `belief_propagation` between scalar instances exists).  The solver
itself must not be run at `LogOf K`: see `md_run_degenerate_at_LogOf`. -/
theorem gen_estimate_answers_valid_of_pair (nx : Nx) (g : GM (LogOf K))
    (hd : g.domain.WF) (hne : g.domain.attrs ≠ [])
    (hin : ∀ c ∈ g.inCliques, c.Nodup ∧ ∀ x ∈ c, x ∈ g.domain.attrs)
    (hadm : Admissible nx g.domain g.inCliques (modeOf g.elim))
    (p : CliqueVec (LogOf K)) (hpots : PotsOK g.domain (gmOf nx g).cliques p) (hZ : partition g.domain p ≠ 0) :
    (∀ c ∈ (gmOf nx g).cliques, ∀ σ, g.domain.Valid σ →
      (((bpO nx g p).get c).sem σ).v = g.total.v * marginal g.domain p c σ / partition g.domain p) ∧
    (0 ≤ g.total.v → ∀ c ∈ (gmOf nx g).cliques, ∀ σ, g.domain.Valid σ → 0 ≤ (((bpO nx g p).get c).sem σ).v) ∧
    ((∀ q ∈ g.domain, 0 < q.2) → ∀ c ∈ (gmOf nx g).cliques,
      sumOver g.domain c (fun _ => 0) (fun τ => (((bpO nx g p).get c).sem τ).v) = g.total.v) ∧
    (∀ c1 ∈ (gmOf nx g).cliques, ∀ c2 ∈ (gmOf nx g).cliques, ∀ A : List Attr, (∀ x ∈ A, x ∈ c1) → (∀ x ∈ A, x ∈ c2) →
      ∀ σ, g.domain.Valid σ →
      sumOver g.domain (c1.filter (fun x => !A.contains x)) σ (fun τ => (((bpO nx g p).get c1).sem τ).v)
        = sumOver g.domain (c2.filter (fun x => !A.contains x)) σ (fun τ => (((bpO nx g p).get c2).sem τ).v)) := by
  have hcl := (gen_init_cliques_ok nx g.domain g.inCliques g.total (modeOf g.elim) hd hne hin hadm).2.2
  have key : ∀ c ∈ (gmOf nx g).cliques, ∀ σ, g.domain.Valid σ →
      (((bpO nx g p).get c).sem σ).v = g.total.v * marginal g.domain p c σ / partition g.domain p :=
    fun c hc σ hσ =>
      (gen_exact_inference_anyTotal nx g.domain g.inCliques (modeOf g.elim) g.total hd hne hin hadm p hpots hZ c hc σ hσ).2
  refine ⟨key, fun hT c hc σ hσ => ?_, fun hsizes c hc => ?_, fun c1 hc1 c2 hc2 A hA1 hA2 σ hσ => ?_⟩
  · rw [key c hc σ hσ]
    exact div_nonneg (mul_nonneg hT (Bd.marginal_nonneg _ _ _ _ hpots.nonneg)) (Bd.partition_nonneg _ _ hpots.nonneg)
  · rw [sumOver_congr_valid g.domain hd c (fun _ => 0) _ _ (fun q hq => hsizes q hq) (fun τ hτ => key c hc τ hτ),
      E2ESem.tables_sum g.domain hd p _ _ c (hcl c hc).1 (hcl c hc).2]
    field_simp
  · rw [sumOver_congr_valid g.domain hd _ σ _ _ hσ (fun τ hτ => key c1 hc1 τ hτ),
      sumOver_congr_valid g.domain hd _ σ _ _ hσ (fun τ hτ => key c2 hc2 τ hτ),
      E2ESem.tables_agree g.domain hd p _ _ c1 A (hcl c1 hc1).1 (hcl c1 hc1).2 hA1 σ,
      E2ESem.tables_agree g.domain hd p _ _ c2 A (hcl c2 hc2).1 (hcl c2 hc2).2 hA2 σ]

end valid

/-! ## audit: the generated MD run is DEGENERATE at the carrier `LogOf K` (why no statement above runs the solver there) -/
section audit
variable {K : Type} [Field K] [LinearOrder K] [IsStrictOrderedRing K] {V Cb : Type}

theorem foldl_inv' {σ β : Type} (P : σ → Prop) (f : σ → β → σ) (l : List β) (s : σ) (h0 : P s)
    (hs : ∀ s b, P s → P (f s b)) : P (l.foldl f s) := by
  induction l generalizing s with
  | nil => exact h0
  | cons b bs ih => exact ih _ (hs s b h0)

/-- at `LogOf K` (`mul x _ := x`, `add` = product of the carriers, `zero = ⟨1⟩`) the generated L2 `_marginal_loss` is constantly `⟨1⟩` -/
theorem lossL2_const_at_LogOf (d : Dom) (cl : List Clique) (ms : List (Loss.Meas (LogOf K))) (mu : CliqueVec (LogOf K)) :
    (InfG.marginalLossL2 d cl ms mu).1 = ⟨1⟩ := by
  unfold InfG.marginalLossL2
  apply foldl_inv' (fun st : LogOf K × CliqueVec (LogOf K) => st.1 = ⟨1⟩)
  · rfl
  · intro st c hst
    apply foldl_inv' (fun st : LogOf K × CliqueVec (LogOf K) => st.1 = ⟨1⟩)
    · exact hst
    · intro st' it h'
      show (⟨st'.1.v * 1⟩ : LogOf K) = ⟨1⟩
      rw [h']; simp

theorem sum_ones_at_LogOf (l : List (LogOf K)) (h : ∀ x ∈ l, x = ⟨1⟩) : Scalar.sum l = (⟨1⟩ : LogOf K) := by
  unfold Scalar.sum
  suffices ∀ (a : LogOf K), a = ⟨1⟩ → l.foldl Scalar.add a = ⟨1⟩ from this _ rfl
  induction l with
  | nil => intro a ha; exact ha
  | cons b bs ih =>
    intro a ha
    apply ih (fun x hx => h x (List.mem_cons_of_mem _ hx))
    rw [ha, h b (List.mem_cons_self ..)]
    show (⟨1 * 1⟩ : LogOf K) = ⟨1⟩
    simp

/-- … and so is the generated L1 `_marginal_loss` -/
theorem lossL1_const_at_LogOf (d : Dom) (cl : List Clique) (ms : List (Loss.Meas (LogOf K))) (mu : CliqueVec (LogOf K)) :
    (InfG.marginalLossL1 d cl ms mu).1 = ⟨1⟩ := by
  unfold InfG.marginalLossL1
  apply foldl_inv' (fun st : LogOf K × CliqueVec (LogOf K) => st.1 = ⟨1⟩)
  · rfl
  · intro st c hst
    apply foldl_inv' (fun st : LogOf K × CliqueVec (LogOf K) => st.1 = ⟨1⟩)
    · exact hst
    · intro st' it h'
      show Scalar.add st'.1 (Scalar.sum _) = (⟨1⟩ : LogOf K)
      rw [h', sum_ones_at_LogOf]
      · show (⟨1 * 1⟩ : LogOf K) = ⟨1⟩; simp
      · intro x hx
        simp only [List.mem_map] at hx
        obtain ⟨y, ⟨z, _, rfl⟩, rfl⟩ := hx
        show Loss.absS (⟨1⟩ : LogOf K) = ⟨1⟩
        unfold Loss.absS
        show (if decide ((1:K) < 1) then (⟨1⟩ : LogOf K) else ⟨(1:K)⁻¹⟩) = ⟨1⟩
        simp

/-- the test `ans[0] == 0` succeeds on `⟨1⟩` (`LogOf`'s zero is the exp-space `1`) -/
theorem eq0_one_at_LogOf : InfG.eq0 (⟨1⟩ : LogOf K) = true := by
  show (!decide ((1:K) < 1) && !decide ((1:K) < (1:K)⁻¹)) = true
  simp

/-- **AUDIT WITNESS (machine-checked limitation): AT THE CARRIER `LogOf K` THE GENERATED `estimate(engine='MD')` ALWAYS TAKES THE
EARLY RETURN `ans[0] == 0`.**  For every estimator, every measurement list, both metrics, every iteration count, every behaviour of
the contracts: the returned object has `marginals` UNSET and its potentials are exactly those `_setup` stored.  Reason:
`Model/LogOf.lean` has `mul x _ := x` and `div x _ := x` (a log-space value times a scalar has no exp-space reading in a field),
so the generated `_marginal_loss` is constantly `⟨1⟩ = Scalar.zero`.  Consequently NO theorem about "the object the generated MD
run returns at `LogOf K`" says anything about a real (log-space `Float`) run beyond `_setup`; the former
`gen_estimate_answers_valid` / `C10E.gen_estimate_answers_valid_closed` / `_nozeros` / `C10E.gen_estimate_zeros_end_to_end*` were of
that kind and have been removed (independent audit, `audit/scratch/c10_vacuous.lean`: `md_always_early`). -/
theorem md_run_degenerate_at_LogOf (nx : Nx) (estT : List (Loss.Meas (LogOf K)) → LogOf K)
    (logf : Factor (LogOf K) → Factor (LogOf K)) (topEigs : List (Loss.Meas (LogOf K)) → List (LogOf K))
    (logger : V) (cbVal : Option Cb → V) (s : Est (LogOf K)) (a : Args (LogOf K) V Cb) (hMD : a.engine = "MD") :
    ∃ g, (estimateG (gmC nx) estT (bpO nx) (mleO logf nx) topEigs logger cbVal s a).2.2 = some g ∧
      g.marginals = none ∧ g.potentials = theta0 (gmC nx) s (measOf s a) := by
  obtain ⟨g, h1, _, _, _, _, ps⟩ := gen_estimate_returns_coherent_pair nx estT logf topEigs logger cbVal s a (Or.inl hMD)
  refine ⟨g, h1, ?_⟩
  have hl : (lossOf s.cfg (freshGM (gmC nx) estT s a) (measOf s a)
          (bpO nx (freshGM (gmC nx) estT s a) (freshGM (gmC nx) estT s a).potentials)).1 = ⟨1⟩ := by
    unfold lossOf
    cases s.cfg.metric
    · exact lossL2_const_at_LogOf ..
    · exact lossL1_const_at_LogOf ..
  rcases ps.md hMD with ⟨_, h2, h3⟩ | ⟨h2, _⟩
  · exact ⟨h2, h3⟩
  · rw [hl, eq0_one_at_LogOf] at h2; cases h2

/-- the antecedent `g.marginals = some m` of the removed theorems is NEVER satisfied (`answers_valid_antecedent_false` of the audit) -/
theorem md_marginals_never_stored_at_LogOf (nx : Nx) (estT : List (Loss.Meas (LogOf K)) → LogOf K)
    (logf : Factor (LogOf K) → Factor (LogOf K)) (topEigs : List (Loss.Meas (LogOf K)) → List (LogOf K))
    (logger : V) (cbVal : Option Cb → V) (s : Est (LogOf K)) (a : Args (LogOf K) V Cb) (hMD : a.engine = "MD")
    (g : GM (LogOf K)) (hg : (estimateG (gmC nx) estT (bpO nx) (mleO logf nx) topEigs logger cbVal s a).2.2 = some g)
    (m : CliqueVec (LogOf K)) : g.marginals ≠ some m := by
  obtain ⟨g', hg', hn, _⟩ := md_run_degenerate_at_LogOf nx estT logf topEigs logger cbVal s a hMD
  have : g' = g := Option.some.inj (hg'.symm.trans hg)
  subst this; rw [hn]; exact fun h => by cases h

end audit

/-! ## non-vacuity: an estimator over the domain of C01E's example, two measured cliques, `elim_order=["a","c","b"]` -/
section Example
open PGM.C01 (exD exCl)

/-- `FactoredInference(exD, iters=1, elim_order=["a","c","b"])`, exp-space reading -/
def exEst : Est (LogOf ℚ) := ⟨⟨exD, Metric.L2, false, 1, false, some exElim, []⟩, none, none⟩

/-- `estimate([(None, y, 1, ['a','b']), (None, y', 1, ('b','c'))], total=100, engine='MD')` -/
def exArgs : Args (LogOf ℚ) Nat Nat :=
  ⟨[⟨none, [], ⟨1⟩, .list ["a", "b"]⟩, ⟨none, [], ⟨1⟩, .tuple ["b", "c"]⟩], some ⟨100⟩, "MD", none, []⟩

/-- the clique list `_setup` hands to `GraphicalModel(..)` is the one of C01E's example … -/
theorem ex_inCliques : inCliques exEst.cfg (measOf exEst exArgs) = exCl := by decide

/-- … so the structural hypotheses on the estimator's inputs used in C08E / C10E hold: well-formed non-empty domain, measured
cliques inside it, an admissible behaviour of every library contract -/
example : ValidEngine exArgs.engine ∧ exEst.cfg.domain.WF ∧ exEst.cfg.domain.attrs ≠ [] ∧
    (∀ c ∈ inCliques exEst.cfg (measOf exEst exArgs), c.Nodup ∧ ∀ x ∈ c, x ∈ exEst.cfg.domain.attrs) ∧
    Admissible exNx exEst.cfg.domain (inCliques exEst.cfg (measOf exEst exArgs)) (modeOf exEst.cfg.elim_order) := by
  refine ⟨Or.inl rfl, by decide, by decide, ?_, ?_⟩
  · rw [ex_inCliques]; decide
  · rw [ex_inCliques]; exact ex_admissible

/-- a model record with the constructor arguments of C01E's example (`total = 100`, `elimination_order=["a","c","b"]`) -/
def exGM : GM (LogOf ℚ) := ⟨exD, exCl, some exElim, [], ⟨100⟩, [], none⟩

/-- `gen_estimate_answers_valid_of_pair` is NOT vacuous: all its hypotheses hold for `exGM` and the potentials `C01.exPots`
(nonnegative tables over the two cliques of the generated model, `Z ≠ 0`), so its four clauses hold for the tables the generated
`belief_propagation` computes from them -/
example := gen_estimate_answers_valid_of_pair exNx exGM (by decide) (by decide) (by decide) ex_admissible
  PGM.C01.exPots (ex_potsOK _) C01.exZ_ne

/-- the degenerate run, concretely: on the example estimator the object returned at `LogOf ℚ` has no stored marginals -/
example : ∃ g, (estimateG (gmC exNx) (fun _ => (⟨1⟩ : LogOf ℚ)) (bpO exNx) (mleO id exNx) (fun _ => []) (0 : Nat)
      (fun (_ : Option Nat) => (0 : Nat)) exEst exArgs).2.2 = some g ∧ g.marginals = none :=
  let ⟨g, h1, h2, _⟩ := md_run_degenerate_at_LogOf exNx _ id _ 0 _ exEst exArgs rfl
  ⟨g, h1, h2⟩

/-- the model the generated `_setup` builds on it has the two cliques of the generated `__init__` -/
example : (freshGM (gmC exNx) (fun _ => (⟨1⟩ : LogOf ℚ)) exEst exArgs).cliques = [["a", "b"], ["b", "c"]] := by
  decide +kernel

end Example

end PGM.C08E
