import PGM.Generated.SelectG
import PGM.Proofs.SelGen
import PGM.Properties.C20
/-!
# C05 / C20 — the private selections: declared sensitivity bounds the score change (generated sites)

`PGM/Generated/SelectG.lean` is regenerated from `mechanisms/{mechanism,aim,mwem+pgm,mst,adaptive_grid}.py` on every
run (`tools/py2sel.py`).  For every selection site this file proves, about the GENERATED definitions at `K = ℝ`
(`np = realOps`: `Real.exp`, `Real.log`, `Real.sqrt`, `Real.pi`):

* `gen_*` — closed forms: which scores are computed, from which candidates, and which sensitivity and epsilon the
  generated code hands to which exponential mechanism;
* `*_score_sensitivity` — if the private answer vectors of two datasets differ by at most 1 in L1 on every candidate
  (add / remove one record; 2 under bounded adjacency where the mechanism supports it), every score moves by at most
  the sensitivity the generated code passes (reverse triangle inequality);
* `*_selection_cost` — hence (`C20.em_logratio_le`, shift invariance) the log-probability of every candidate moves by
  at most the epsilon of the call: the `ε²/8` zCDP charge booked by the ledgers of `C05.lean` is sound for the site.

The sensitivity is a function of the candidates of the CURRENT call (`gen_aim_max_sensitivity`): a value cached on
the object, or computed from another candidate set, is not expressible by the translator (`self.<attr>` is outside
its subset) and would not satisfy `gen_aim_worst_approximated`.
-/
set_option linter.unusedSimpArgs false
set_option linter.unusedVariables false
namespace PGM.C05S
open PGM.SelectG PGM.SelGen

/-- "every log-probability moves by at most `e`" -/
def LogClose (e : ℝ) (p p' : List ℝ) : Prop := List.Forall₂ (fun a b => |Real.log a - Real.log b| ≤ e) p p'

variable (inf fmax : ℝ)
local notation "npR" => realOps inf fmax

/-! ## `Mechanism.exponential_mechanism` (mechanism.py) -/

section mechanism
variable {C : Type} [DecidableEq C]

/-- dict qualities, no base measure: keys in dict order, probabilities `softmax(0.5·ε/Δ·(q − max q))` -/
theorem gen_mech_em_dict (q : List (C × ℝ)) (eps sens : ℝ) :
    Mechanism_exponential_mechanism_dict npR q eps sens
      = (dictKeys q, choice (((dictKeys q).length : ℕ) : ℤ)
          (softmaxL npR ((dictKeys q).map (fun k => (0.5 * eps / sens) * (dictGet q k - pyMaxList ((dictKeys q).map (dictGet q))))))) := by
  simp [Mechanism_exponential_mechanism_dict, List.map_map, Function.comp_def, softmaxL]

/-- dict qualities with a dict base measure: `softmax(0.5·ε/Δ·(q − max q) + log b)` -/
theorem gen_mech_em_dict_base (q b : List (C × ℝ)) (eps sens : ℝ) :
    Mechanism_exponential_mechanism_dict_base npR q eps sens b
      = (dictKeys q, choice (((dictKeys q).length : ℕ) : ℤ)
          (softmaxL npR ((dictKeys q).map (fun k => (0.5 * eps / sens) * (dictGet q k - pyMaxList ((dictKeys q).map (dictGet q)))
              + Real.log (dictGet b k))))) := by
  simp only [Mechanism_exponential_mechanism_dict_base, List.map_map, List.zipWith_map, List.zipWith_self, softmaxL,
    List.length_map, Function.comp_def]
  rfl

/-- array qualities: keys `0 … n−1` -/
theorem gen_mech_em_array (q : List ℝ) (eps sens : ℝ) :
    Mechanism_exponential_mechanism_array npR q eps sens
      = (List.range q.length, choice ((q.length : ℕ) : ℤ)
          (softmaxL npR (q.map (fun t => (0.5 * eps / sens) * (t - pyMaxList q))))) := by
  simp [Mechanism_exponential_mechanism_array, List.map_map, Function.comp_def, softmaxL]

theorem gen_mech_em_array_base (q b : List ℝ) (eps sens : ℝ) :
    Mechanism_exponential_mechanism_array_base npR q eps sens b
      = (List.range q.length, choice (((List.zipWith (fun s t => s + t) (q.map (fun t => (0.5 * eps / sens) * (t - pyMaxList q))) b).length : ℕ) : ℤ)
          (softmaxL npR (List.zipWith (fun s t => s + t) (q.map (fun t => (0.5 * eps / sens) * (t - pyMaxList q))) b))) := by
  simp [Mechanism_exponential_mechanism_array_base, List.map_map, Function.comp_def, softmaxL]

/-- the number handed to `choice` is the length of the probability vector -/
theorem mech_em_dict_size (q : List (C × ℝ)) (eps sens : ℝ) :
    (Mechanism_exponential_mechanism_dict npR q eps sens).2.n
      = (((Mechanism_exponential_mechanism_dict npR q eps sens).2.p.length : ℕ) : ℤ) := by
  rw [gen_mech_em_dict]; simp [choice, softmaxL]

/-- **cost of the base-class primitive** (dict form): two quality dicts over the same keys whose values differ by at
most the sensitivity `Δ > 0` that is passed: same keys, every log-probability moves by at most `ε` -/
theorem mech_em_dict_selection_cost (q q' : List (C × ℝ)) (eps sens : ℝ) (heps : 0 ≤ eps) (hs : 0 < sens)
    (hk : dictKeys q = dictKeys q') (hq : ∀ k ∈ dictKeys q, |dictGet q k - dictGet q' k| ≤ sens) :
    (Mechanism_exponential_mechanism_dict npR q eps sens).1 = (Mechanism_exponential_mechanism_dict npR q' eps sens).1 ∧
    LogClose eps (Mechanism_exponential_mechanism_dict npR q eps sens).2.p
      (Mechanism_exponential_mechanism_dict npR q' eps sens).2.p := by
  rw [gen_mech_em_dict, gen_mech_em_dict]
  refine ⟨hk, ?_⟩
  simp only [choice, ← hk]
  have h := em_scores_logratio inf fmax (dictKeys q) (dictGet q) (dictGet q') (0.5 * eps / sens)
    (pyMaxList ((dictKeys q).map (dictGet q))) (pyMaxList ((dictKeys q).map (dictGet q'))) sens
    (by positivity) hq
  have e : 2 * (0.5 * eps / sens * sens) = eps := by field_simp; ring
  rw [e] at h
  exact h

/-- with a (data-independent) base measure the same bound holds -/
theorem mech_em_dict_base_selection_cost (q q' b : List (C × ℝ)) (eps sens : ℝ) (heps : 0 ≤ eps) (hs : 0 < sens)
    (hk : dictKeys q = dictKeys q') (hq : ∀ k ∈ dictKeys q, |dictGet q k - dictGet q' k| ≤ sens) :
    LogClose eps (Mechanism_exponential_mechanism_dict_base npR q eps sens b).2.p
      (Mechanism_exponential_mechanism_dict_base npR q' eps sens b).2.p := by
  rw [gen_mech_em_dict_base, gen_mech_em_dict_base]
  simp only [choice, ← hk]
  have h := em_scores_base_logratio inf fmax (dictKeys q) (dictGet q) (dictGet q') (fun k => Real.log (dictGet b k))
    (0.5 * eps / sens) (pyMaxList ((dictKeys q).map (dictGet q))) (pyMaxList ((dictKeys q).map (dictGet q'))) sens
    (by positivity) hq
  have e : 2 * (0.5 * eps / sens * sens) = eps := by field_simp; ring
  rw [e] at h
  exact h

/-- array form: qualities `[F a for a in l]`, `[F' a for a in l]` -/
theorem mech_em_array_selection_cost {α : Type} (l : List α) (F F' : α → ℝ) (eps sens : ℝ) (heps : 0 ≤ eps) (hs : 0 < sens)
    (hq : ∀ a ∈ l, |F a - F' a| ≤ sens) :
    LogClose eps (Mechanism_exponential_mechanism_array npR (l.map F) eps sens).2.p
      (Mechanism_exponential_mechanism_array npR (l.map F') eps sens).2.p := by
  rw [gen_mech_em_array, gen_mech_em_array]
  simp only [choice, List.map_map, Function.comp_def]
  have h := em_scores_logratio inf fmax l F F' (0.5 * eps / sens) (pyMaxList (l.map F)) (pyMaxList (l.map F')) sens
    (by positivity) hq
  have e : 2 * (0.5 * eps / sens * sens) = eps := by field_simp; ring
  rw [e] at h
  exact h
end mechanism

/-! ## AIM (aim.py) -/

section aim
variable {C : Type} [DecidableEq C]

/-- the score of candidate `cl`: `wgt·(‖x − xest‖₁ − √(2/π)·σ·size)` -/
noncomputable def aimScore (cands : List (C × ℝ)) (x xest : C → List ℝ) (size : C → ℝ) (sigma : ℝ) (cl : C) : ℝ :=
  dictGet cands cl * (l1 (x cl) (xest cl) - Real.sqrt (2 / Real.pi) * sigma * size cl)

/-- loop body of `worst_approximated`: `errors[cl] = score`, `sensitivity[cl] = abs(wgt)` -/
theorem gen_aim_loop (cands : List (C × ℝ)) (x xest : C → List ℝ) (size : C → ℝ) (cliques : List C) (eps sigma : ℝ) :
    AIM_worst_approximated_loop1 npR cands x xest size cliques eps sigma
      = fun st cl => ((fun d k => dictSet d k (aimScore cands x xest size sigma k)) st.1 cl,
                      (fun d k => dictSet d k |dictGet cands k|) st.2 cl) := by
  funext st cl
  simp [AIM_worst_approximated_loop1, aimScore, l1, absK_real, realOps]

theorem gen_aim_errors (cands : List (C × ℝ)) (x xest : C → List ℝ) (size : C → ℝ) (cliques : List C) (eps sigma : ℝ) :
    AIM_worst_approximated_errors npR cands x xest size cliques eps sigma
      = writeAll (aimScore cands x xest size sigma) [] (dictKeys cands) := by
  show (List.foldl (AIM_worst_approximated_loop1 npR cands x xest size cliques eps sigma) ([], []) (dictKeys cands)).1 = _
  rw [gen_aim_loop, foldl_pair (fun d k => dictSet d k (aimScore cands x xest size sigma k)) (fun d k => dictSet d k |dictGet cands k|)]
  rfl

theorem gen_aim_sensitivity (cands : List (C × ℝ)) (x xest : C → List ℝ) (size : C → ℝ) (cliques : List C) (eps sigma : ℝ) :
    AIM_worst_approximated_sensitivity npR cands x xest size cliques eps sigma
      = writeAll (fun k => |dictGet cands k|) [] (dictKeys cands) := by
  show (List.foldl (AIM_worst_approximated_loop1 npR cands x xest size cliques eps sigma) ([], []) (dictKeys cands)).2 = _
  rw [gen_aim_loop, foldl_pair (fun d k => dictSet d k (aimScore cands x xest size sigma k)) (fun d k => dictSet d k |dictGet cands k|)]
  rfl

/-- **the sensitivity handed to the exponential mechanism is the largest `|wgt|` among the candidates of this
call** — a function of the `candidates` argument alone -/
theorem gen_aim_max_sensitivity (cands : List (C × ℝ)) (x xest : C → List ℝ) (size : C → ℝ) (cliques : List C) (eps sigma : ℝ) :
    AIM_worst_approximated_max_sensitivity npR cands x xest size cliques eps sigma
      = pyMaxList ((keyOrder (dictKeys cands)).map (fun k => |dictGet cands k|)) := by
  have h : AIM_worst_approximated_max_sensitivity npR cands x xest size cliques eps sigma
      = pyMaxList (dictValues (AIM_worst_approximated_sensitivity npR cands x xest size cliques eps sigma)) := rfl
  rw [h, gen_aim_sensitivity, dictValues_eq_map_get, dictKeys_writeAll_nil]
  · congr 1
    apply List.map_congr_left
    intro k hk
    exact dictGet_writeAll _ _ _ _ ((mem_keyOrder _ _).1 hk)
  · rw [dictKeys_writeAll_nil]; exact nodup_keyOrder _

/-- the selection is the base-class exponential mechanism on THESE errors with THIS epsilon and THIS sensitivity -/
theorem gen_aim_worst_approximated (cands : List (C × ℝ)) (x xest : C → List ℝ) (size : C → ℝ) (cliques : List C) (eps sigma : ℝ) :
    AIM_worst_approximated npR cands x xest size cliques eps sigma
      = Mechanism_exponential_mechanism_dict npR
          (AIM_worst_approximated_errors npR cands x xest size cliques eps sigma) eps
          (AIM_worst_approximated_max_sensitivity npR cands x xest size cliques eps sigma) := rfl

/-- the candidates the mechanism chooses among do not depend on the private data -/
theorem aim_keys (cands : List (C × ℝ)) (x xest : C → List ℝ) (size : C → ℝ) (cliques : List C) (eps sigma : ℝ) :
    dictKeys (AIM_worst_approximated_errors npR cands x xest size cliques eps sigma) = keyOrder (dictKeys cands) := by
  rw [gen_aim_errors, dictKeys_writeAll_nil]

theorem aim_error_value (cands : List (C × ℝ)) (x xest : C → List ℝ) (size : C → ℝ) (cliques : List C) (eps sigma : ℝ)
    (cl : C) (h : cl ∈ dictKeys cands) :
    dictGet (AIM_worst_approximated_errors npR cands x xest size cliques eps sigma) cl = aimScore cands x xest size sigma cl := by
  rw [gen_aim_errors]; exact dictGet_writeAll _ _ _ _ h

/-- **AIM: the declared sensitivity bounds the score change.**  If the answer vectors of the two datasets differ by
at most 1 in L1 on every candidate, every score moves by at most `max_sensitivity` of the same call. -/
theorem aim_score_sensitivity (cands : List (C × ℝ)) (x x' xest : C → List ℝ) (size : C → ℝ) (cliques : List C) (eps sigma : ℝ)
    (hlen : ∀ cl ∈ dictKeys cands, (x cl).length = (xest cl).length ∧ (x' cl).length = (xest cl).length)
    (hnb : ∀ cl ∈ dictKeys cands, l1 (x cl) (x' cl) ≤ 1) (cl : C) (hcl : cl ∈ dictKeys cands) :
    |dictGet (AIM_worst_approximated_errors npR cands x xest size cliques eps sigma) cl
      - dictGet (AIM_worst_approximated_errors npR cands x' xest size cliques eps sigma) cl|
      ≤ AIM_worst_approximated_max_sensitivity npR cands x xest size cliques eps sigma := by
  rw [aim_error_value _ _ _ _ _ _ _ _ _ _ hcl, aim_error_value _ _ _ _ _ _ _ _ _ _ hcl, gen_aim_max_sensitivity]
  have hmax : |dictGet cands cl| ≤ pyMaxList ((keyOrder (dictKeys cands)).map (fun k => |dictGet cands k|)) :=
    le_pyMaxList _ _ (List.mem_map.2 ⟨cl, (mem_keyOrder _ _).2 hcl, rfl⟩)
  have htri := l1_rev_triangle (x cl) (x' cl) (xest cl) (hlen cl hcl).1 (hlen cl hcl).2
  have h1 := hnb cl hcl
  unfold aimScore
  rw [← mul_sub, abs_mul]
  have e : l1 (x cl) (xest cl) - Real.sqrt (2 / Real.pi) * sigma * size cl
      - (l1 (x' cl) (xest cl) - Real.sqrt (2 / Real.pi) * sigma * size cl) = l1 (x cl) (xest cl) - l1 (x' cl) (xest cl) := by ring
  rw [e]
  calc |dictGet cands cl| * |l1 (x cl) (xest cl) - l1 (x' cl) (xest cl)|
      ≤ |dictGet cands cl| * 1 := mul_le_mul_of_nonneg_left (le_trans htri h1) (abs_nonneg _)
    _ ≤ _ := by rw [mul_one]; exact hmax

/-- the sensitivity does not depend on the private data -/
theorem aim_max_sensitivity_data_indep (cands : List (C × ℝ)) (x x' xest : C → List ℝ) (size : C → ℝ) (cliques : List C) (eps sigma : ℝ) :
    AIM_worst_approximated_max_sensitivity npR cands x xest size cliques eps sigma
      = AIM_worst_approximated_max_sensitivity npR cands x' xest size cliques eps sigma := by
  rw [gen_aim_max_sensitivity, gen_aim_max_sensitivity]

theorem aim_max_sensitivity_pos (cands : List (C × ℝ)) (x xest : C → List ℝ) (size : C → ℝ) (cliques : List C) (eps sigma : ℝ)
    (hw : ∃ cl ∈ dictKeys cands, dictGet cands cl ≠ 0) :
    0 < AIM_worst_approximated_max_sensitivity npR cands x xest size cliques eps sigma := by
  obtain ⟨cl, hcl, hne⟩ := hw
  rw [gen_aim_max_sensitivity]
  exact lt_of_lt_of_le (abs_pos.2 hne) (le_pyMaxList _ _ (List.mem_map.2 ⟨cl, (mem_keyOrder _ _).2 hcl, rfl⟩))

/-- **AIM: one selection costs at most the `eps` it is called with** (so the `ε²/8` booked per round in
`C05.aimRoundCost` is sound): same candidate list on both datasets, every log-probability moves by at most `eps`.
`hw`: some candidate has a non-zero weight (otherwise the code divides by zero — "if all weights are 0, could be a
problem" in the source). -/
theorem aim_selection_cost (cands : List (C × ℝ)) (x x' xest : C → List ℝ) (size : C → ℝ) (cliques : List C) (eps sigma : ℝ)
    (heps : 0 ≤ eps) (hw : ∃ cl ∈ dictKeys cands, dictGet cands cl ≠ 0)
    (hlen : ∀ cl ∈ dictKeys cands, (x cl).length = (xest cl).length ∧ (x' cl).length = (xest cl).length)
    (hnb : ∀ cl ∈ dictKeys cands, l1 (x cl) (x' cl) ≤ 1) :
    (AIM_worst_approximated npR cands x xest size cliques eps sigma).1
      = (AIM_worst_approximated npR cands x' xest size cliques eps sigma).1 ∧
    LogClose eps (AIM_worst_approximated npR cands x xest size cliques eps sigma).2.p
      (AIM_worst_approximated npR cands x' xest size cliques eps sigma).2.p := by
  rw [gen_aim_worst_approximated, gen_aim_worst_approximated,
    ← aim_max_sensitivity_data_indep inf fmax cands x x' xest size cliques eps sigma]
  apply mech_em_dict_selection_cost inf fmax _ _ eps _ heps (aim_max_sensitivity_pos inf fmax cands x xest size cliques eps sigma hw)
  · rw [aim_keys, aim_keys]
  · intro k hk
    rw [aim_keys, mem_keyOrder] at hk
    exact aim_score_sensitivity inf fmax cands x x' xest size cliques eps sigma hlen hnb k hk

/-- `hypothetical_model_size`: megabytes of the model over the given cliques -/
theorem gen_aim_hypothetical_model_size {DS : Type} (g : GraphOps C DS ℝ) (cliques : List C) :
    aim_hypothetical_model_size npR g cliques = g.gm_size cliques * 8 / 2 ^ 20 := by
  simp [aim_hypothetical_model_size]
  norm_num

/-- `filter_candidates`: the candidates that keep the model within the size limit, or are free (inside the downward
closure of the model's cliques), in the original order and WITH THEIR ORIGINAL WEIGHTS -/
theorem gen_aim_filter_candidates {DS : Type} (g : GraphOps C DS ℝ) (cands : List (C × ℝ)) (xest : C → List ℝ) (size : C → ℝ)
    (cliques : List C) (size_limit : ℝ) :
    aim_filter_candidates npR g cands xest size cliques size_limit
      = writeAll (dictGet cands) [] ((dictKeys cands).filter (fun cl =>
          decide (aim_hypothetical_model_size npR g (cliques ++ [cl]) ≤ size_limit) || decide (cl ∈ g.downward_closure cliques))) := by
  rw [← foldl_cond_write]
  rfl

theorem aim_filter_candidates_weight {DS : Type} (g : GraphOps C DS ℝ) (cands : List (C × ℝ)) (xest : C → List ℝ) (size : C → ℝ)
    (cliques : List C) (size_limit : ℝ) (cl : C)
    (h : cl ∈ dictKeys (aim_filter_candidates npR g cands xest size cliques size_limit)) :
    cl ∈ dictKeys cands ∧ dictGet (aim_filter_candidates npR g cands xest size cliques size_limit) cl = dictGet cands cl := by
  rw [gen_aim_filter_candidates] at h ⊢
  rw [dictKeys_writeAll_nil, mem_keyOrder] at h
  exact ⟨(List.mem_filter.1 h).1, dictGet_writeAll _ _ _ _ h⟩

/-- the selection statements of `AIM.run`: the candidates are filtered first, and the sensitivity is that of the
FILTERED candidates (those of the current call) -/
theorem gen_aim_run_select {DS : Type} (g : GraphOps C DS ℝ) (cands : List (C × ℝ)) (x xest : C → List ℝ) (size : C → ℝ)
    (cliques : List C) (size_limit eps sigma : ℝ) :
    AIM_run_select npR g cands x xest size cliques size_limit eps sigma
      = AIM_worst_approximated npR (aim_filter_candidates npR g cands xest size cliques size_limit) x xest size cliques eps sigma := rfl

theorem aim_run_selection_cost {DS : Type} (g : GraphOps C DS ℝ) (cands : List (C × ℝ)) (x x' xest : C → List ℝ) (size : C → ℝ)
    (cliques : List C) (size_limit eps sigma : ℝ) (heps : 0 ≤ eps)
    (hw : ∃ cl ∈ dictKeys (aim_filter_candidates npR g cands xest size cliques size_limit),
      dictGet (aim_filter_candidates npR g cands xest size cliques size_limit) cl ≠ 0)
    (hlen : ∀ cl, (x cl).length = (xest cl).length ∧ (x' cl).length = (xest cl).length)
    (hnb : ∀ cl, l1 (x cl) (x' cl) ≤ 1) :
    LogClose eps (AIM_run_select npR g cands x xest size cliques size_limit eps sigma).2.p
      (AIM_run_select npR g cands x' xest size cliques size_limit eps sigma).2.p := by
  rw [gen_aim_run_select, gen_aim_run_select]
  exact (aim_selection_cost inf fmax _ x x' xest size cliques eps sigma heps hw (fun cl _ => hlen cl) (fun cl _ => hnb cl)).2
end aim

/-! ## MWEM+PGM (mwem+pgm.py) -/

section mwem
variable {C : Type} [DecidableEq C]

/-- the score of candidate `cl`: `‖x − xest‖₁ − (size if penalty else 0)` -/
noncomputable def mwemScore (x xest : C → List ℝ) (size : C → ℝ) (penalty : Bool) (cl : C) : ℝ :=
  l1 (x cl) (xest cl) - (if penalty = true then size cl else 0)

theorem gen_mwem_loop (x xest : C → List ℝ) (size : C → ℝ) (cliques workload : List C) (eps : ℝ) (penalty bounded : Bool) :
    mwem_worst_approximated_loop1 npR x xest size cliques workload eps penalty bounded
      = fun errs cl => errs ++ [mwemScore x xest size penalty cl] := by
  funext errs cl
  simp [mwem_worst_approximated_loop1, mwemScore, l1]

/-- one score per entry of the candidate list handed in (repetitions included), in order -/
theorem gen_mwem_errors (x xest : C → List ℝ) (size : C → ℝ) (cliques workload : List C) (eps : ℝ) (penalty bounded : Bool) :
    mwem_worst_approximated_errors npR x xest size cliques workload eps penalty bounded
      = workload.map (mwemScore x xest size penalty) := by
  show List.foldl (mwem_worst_approximated_loop1 npR x xest size cliques workload eps penalty bounded) [] workload = _
  rw [gen_mwem_loop, foldl_append_map]; simp

/-- **the sensitivity MWEM+PGM declares: 2 under bounded adjacency, 1 otherwise** -/
theorem gen_mwem_sensitivity (x xest : C → List ℝ) (size : C → ℝ) (cliques workload : List C) (eps : ℝ) (penalty bounded : Bool) :
    mwem_worst_approximated_sensitivity npR x xest size cliques workload eps penalty bounded
      = if bounded = true then 2 else 1 := by
  show (if bounded = true then (2.0 : ℝ) else (1.0 : ℝ)) = _
  norm_num

theorem gen_mwem_worst_approximated (x xest : C → List ℝ) (size : C → ℝ) (cliques workload : List C) (eps : ℝ) (penalty bounded : Bool) :
    mwem_worst_approximated npR x xest size cliques workload eps penalty bounded
      = (workload, choice ((workload.length : ℕ) : ℤ)
          (softmaxL npR (workload.map (fun cl =>
            (0.5 * eps / mwem_worst_approximated_sensitivity npR x xest size cliques workload eps penalty bounded)
              * (mwemScore x xest size penalty cl
                  - pyMaxList (mwem_worst_approximated_errors npR x xest size cliques workload eps penalty bounded)))))) := by
  have h : mwem_worst_approximated npR x xest size cliques workload eps penalty bounded
      = (workload, choice (((mwem_worst_approximated_errors npR x xest size cliques workload eps penalty bounded).length : ℕ) : ℤ)
          (softmaxL npR (((mwem_worst_approximated_errors npR x xest size cliques workload eps penalty bounded).map
              (fun t => t - pyMaxList (mwem_worst_approximated_errors npR x xest size cliques workload eps penalty bounded))).map
              (fun t => (0.5 * eps / mwem_worst_approximated_sensitivity npR x xest size cliques workload eps penalty bounded) * t)))) := rfl
  rw [h]
  conv_lhs => rw [gen_mwem_errors]
  simp only [List.map_map, List.length_map, Function.comp_def]
  rw [gen_mwem_errors]

/-- **MWEM+PGM: the declared sensitivity bounds the score change** — answer vectors differing by at most 1 in L1
(add / remove a record; `bounded = false`) or at most 2 (replace a record; `bounded = true`) -/
theorem mwem_score_sensitivity (x x' xest : C → List ℝ) (size : C → ℝ) (cliques workload : List C) (eps : ℝ) (penalty bounded : Bool)
    (cl : C) (hlen : (x cl).length = (xest cl).length ∧ (x' cl).length = (xest cl).length)
    (hnb : l1 (x cl) (x' cl) ≤ if bounded = true then 2 else 1) :
    |mwemScore x xest size penalty cl - mwemScore x' xest size penalty cl|
      ≤ mwem_worst_approximated_sensitivity npR x xest size cliques workload eps penalty bounded := by
  rw [gen_mwem_sensitivity]
  have htri := l1_rev_triangle (x cl) (x' cl) (xest cl) hlen.1 hlen.2
  unfold mwemScore
  have e : l1 (x cl) (xest cl) - (if penalty = true then size cl else 0)
      - (l1 (x' cl) (xest cl) - (if penalty = true then size cl else 0)) = l1 (x cl) (xest cl) - l1 (x' cl) (xest cl) := by ring
  rw [e]
  exact le_trans htri hnb

/-- **MWEM+PGM: one selection costs at most the `eps` it is called with**, under the adjacency notion named by `bounded` -/
theorem mwem_selection_cost (x x' xest : C → List ℝ) (size : C → ℝ) (cliques workload : List C) (eps : ℝ) (penalty bounded : Bool)
    (heps : 0 ≤ eps)
    (hlen : ∀ cl ∈ workload, (x cl).length = (xest cl).length ∧ (x' cl).length = (xest cl).length)
    (hnb : ∀ cl ∈ workload, l1 (x cl) (x' cl) ≤ if bounded = true then 2 else 1) :
    (mwem_worst_approximated npR x xest size cliques workload eps penalty bounded).1
      = (mwem_worst_approximated npR x' xest size cliques workload eps penalty bounded).1 ∧
    LogClose eps (mwem_worst_approximated npR x xest size cliques workload eps penalty bounded).2.p
      (mwem_worst_approximated npR x' xest size cliques workload eps penalty bounded).2.p := by
  rw [gen_mwem_worst_approximated, gen_mwem_worst_approximated]
  refine ⟨rfl, ?_⟩
  simp only [choice]
  have hs : mwem_worst_approximated_sensitivity npR x' xest size cliques workload eps penalty bounded
      = mwem_worst_approximated_sensitivity npR x xest size cliques workload eps penalty bounded := by
    rw [gen_mwem_sensitivity, gen_mwem_sensitivity]
  rw [hs]
  have hpos : 0 < mwem_worst_approximated_sensitivity npR x xest size cliques workload eps penalty bounded := by
    rw [gen_mwem_sensitivity]; split <;> norm_num
  have h := em_scores_logratio inf fmax workload (mwemScore x xest size penalty) (mwemScore x' xest size penalty)
    (0.5 * eps / mwem_worst_approximated_sensitivity npR x xest size cliques workload eps penalty bounded)
    (pyMaxList (mwem_worst_approximated_errors npR x xest size cliques workload eps penalty bounded))
    (pyMaxList (mwem_worst_approximated_errors npR x' xest size cliques workload eps penalty bounded))
    (mwem_worst_approximated_sensitivity npR x xest size cliques workload eps penalty bounded)
    (by positivity)
    (fun cl hcl => mwem_score_sensitivity inf fmax x x' xest size cliques workload eps penalty bounded cl (hlen cl hcl) (hnb cl hcl))
  have e : 2 * (0.5 * eps / mwem_worst_approximated_sensitivity npR x xest size cliques workload eps penalty bounded
      * mwem_worst_approximated_sensitivity npR x xest size cliques workload eps penalty bounded) = eps := by
    field_simp; ring
  rw [e] at h
  exact h

/-- the call in `mwem_pgm`: the penalty is on (default), and the adjacency flag of the run is the one handed on -/
theorem gen_mwem_pgm_select (x xest : C → List ℝ) (size : C → ℝ) (cliques candidates : List C) (exp_eps : ℝ) (bounded : Bool) :
    mwem_pgm_select npR x xest size cliques candidates exp_eps bounded
      = mwem_worst_approximated npR x xest size cliques candidates exp_eps true bounded := rfl

theorem mwem_pgm_selection_cost (x x' xest : C → List ℝ) (size : C → ℝ) (cliques candidates : List C) (exp_eps : ℝ) (bounded : Bool)
    (heps : 0 ≤ exp_eps)
    (hlen : ∀ cl ∈ candidates, (x cl).length = (xest cl).length ∧ (x' cl).length = (xest cl).length)
    (hnb : ∀ cl ∈ candidates, l1 (x cl) (x' cl) ≤ if bounded = true then 2 else 1) :
    LogClose exp_eps (mwem_pgm_select npR x xest size cliques candidates exp_eps bounded).2.p
      (mwem_pgm_select npR x' xest size cliques candidates exp_eps bounded).2.p := by
  rw [gen_mwem_pgm_select, gen_mwem_pgm_select]
  exact (mwem_selection_cost inf fmax x x' xest size cliques candidates exp_eps true bounded heps hlen hnb).2

/-- the hypotheses are satisfiable and the bound is attained: replacing a record moves a score by exactly 2, which is
more than the sensitivity declared for `bounded = false` (what a call that forgets to hand `bounded` on would use) -/
example : |mwemScore (fun _ : Unit => [2, 0]) (fun _ => [1, 0]) (fun _ => 0) true ()
      - mwemScore (fun _ : Unit => [1, 1]) (fun _ => [1, 0]) (fun _ => 0) true ()| = 0
    ∧ l1 [2, 0] [1, 1] = 2
    ∧ |mwemScore (fun _ : Unit => [2, 0]) (fun _ => [0, 0]) (fun _ => 0) true ()
      - mwemScore (fun _ : Unit => [0, 0]) (fun _ => [0, 0]) (fun _ => 0) true ()| = 2 := by
  simp [mwemScore, l1_cons, l1_nil]
  norm_num
end mwem

/-! ## MST and Adaptive Grid (mst.py, adaptive_grid.py): `exponential_mechanism` and `select` -/

/-- two draws: same size argument, log-probabilities within `e` -/
def DrawClose (e : ℝ) (d d' : Draw ℝ) : Prop := d.n = d'.n ∧ LogClose e d.p d'.p

/-- relational fold -/
theorem foldl_rel {σ β : Type} (R : σ → σ → Prop) (f f' : σ → β → σ) (l : List β) (s s' : σ) (h0 : R s s')
    (hstep : ∀ a a' b, R a a' → R (f a b) (f' a' b)) : R (l.foldl f s) (l.foldl f' s') := by
  induction l generalizing s s' with
  | nil => exact h0
  | cons b rest ih => exact ih _ _ (hstep _ _ b h0)

section mst
variable {A DS : Type} [DecidableEq A] [Inhabited A]

/-- the score of the candidate edge `e`: `‖x − xhat‖₁` on the two-way marginal -/
noncomputable def pairScore (x xest : List A → List ℝ) (extra : List A) (e : A × A) : ℝ :=
  l1 (x ([e.1, e.2] ++ extra)) (xest ([e.1, e.2] ++ extra))

/-- MST's own primitive: coefficient `0.5·ε/Δ` (or `ε/Δ` when declared monotonic) on max-shifted scores,
probabilities `exp(s − logsumexp s)` -/
theorem gen_mst_em (q : List ℝ) (eps sens : ℝ) (mono : Bool) :
    mst_exponential_mechanism npR q eps sens mono
      = choice ((q.length : ℕ) : ℤ)
          (softmaxL npR (q.map (fun t => ((if mono = true then 1 else 0.5) * eps / sens) * (t - pyMaxList q)))) := by
  have e1 : (1.0 : ℝ) = 1 := by norm_num
  cases mono <;>
  simp [mst_exponential_mechanism, List.map_map, Function.comp_def, softmaxL, e1]

theorem gen_ada_em (q : List ℝ) (eps sens : ℝ) (mono : Bool) :
    ada_exponential_mechanism npR q eps sens mono
      = choice ((q.length : ℕ) : ℤ)
          (softmaxL npR (q.map (fun t => ((if mono = true then 1 else 0.5) * (if eps = inf then fmax else eps) / sens) * (t - pyMaxList q)))) := by
  have e1 : (1.0 : ℝ) = 1 := by norm_num
  cases mono <;> by_cases h : eps = inf <;>
  simp [ada_exponential_mechanism, List.map_map, Function.comp_def, softmaxL, h, realOps, e1]

/-- **cost of MST's primitive** (non-monotonic): qualities `[F a for a in l]` moving by at most `Δ = sens`: `ε` -/
theorem mst_em_cost {α : Type} (l : List α) (F F' : α → ℝ) (eps sens : ℝ) (heps : 0 ≤ eps) (hs : 0 < sens)
    (hq : ∀ a ∈ l, |F a - F' a| ≤ sens) :
    DrawClose eps (mst_exponential_mechanism npR (l.map F) eps sens false)
      (mst_exponential_mechanism npR (l.map F') eps sens false) := by
  rw [gen_mst_em, gen_mst_em]
  refine ⟨by simp [choice], ?_⟩
  simp only [choice, List.map_map, Function.comp_def, Bool.false_eq_true, if_false]
  have h := em_scores_logratio inf fmax l F F' (0.5 * eps / sens) (pyMaxList (l.map F)) (pyMaxList (l.map F')) sens
    (by positivity) hq
  have e : 2 * (0.5 * eps / sens * sens) = eps := by field_simp; ring
  rw [e] at h
  exact h

/-- the monotonic variant has coefficient `ε/Δ`: on qualities that can move both ways it costs `2ε`
(no shipped mechanism selects with `monotonic=True`) -/
theorem mst_em_cost_monotonic {α : Type} (l : List α) (F F' : α → ℝ) (eps sens : ℝ) (heps : 0 ≤ eps) (hs : 0 < sens)
    (hq : ∀ a ∈ l, |F a - F' a| ≤ sens) :
    DrawClose (2 * eps) (mst_exponential_mechanism npR (l.map F) eps sens true)
      (mst_exponential_mechanism npR (l.map F') eps sens true) := by
  rw [gen_mst_em, gen_mst_em]
  refine ⟨by simp [choice], ?_⟩
  simp only [choice, List.map_map, Function.comp_def, if_true]
  have h := em_scores_logratio inf fmax l F F' (1 * eps / sens) (pyMaxList (l.map F)) (pyMaxList (l.map F')) sens
    (by positivity) hq
  have e : 2 * (1 * eps / sens * sens) = 2 * eps := by field_simp
  rw [e] at h
  exact h

/-- adaptive grid's primitive: the same with the effective epsilon (`finfo.max` in place of `inf`) -/
theorem ada_em_cost {α : Type} (l : List α) (F F' : α → ℝ) (eps sens : ℝ) (heps : 0 ≤ (if eps = inf then fmax else eps)) (hs : 0 < sens)
    (hq : ∀ a ∈ l, |F a - F' a| ≤ sens) :
    DrawClose (if eps = inf then fmax else eps) (ada_exponential_mechanism npR (l.map F) eps sens false)
      (ada_exponential_mechanism npR (l.map F') eps sens false) := by
  rw [gen_ada_em, gen_ada_em]
  refine ⟨by simp [choice], ?_⟩
  simp only [choice, List.map_map, Function.comp_def, Bool.false_eq_true, if_false]
  have h := em_scores_logratio inf fmax l F F' (0.5 * (if eps = inf then fmax else eps) / sens) (pyMaxList (l.map F)) (pyMaxList (l.map F')) sens
    (by positivity) hq
  have e : 2 * (0.5 * (if eps = inf then fmax else eps) / sens * sens) = (if eps = inf then fmax else eps) := by field_simp; ring
  rw [e] at h
  exact h

/-! ### `select` of mst.py -/

theorem gen_mst_loop1 (g : GraphOps A DS ℝ) (x : List A → List ℝ) (attrs : List A) (rho : ℝ) (cliques : List (A × A))
    (xest : List A → List ℝ) (size : List A → ℝ) (mcl : List (List A)) (draws : ℕ → ℕ) :
    mst_select_loop1 npR g x attrs rho cliques xest size mcl draws
      = fun w e => dictSet w e (pairScore x xest [] e) := by
  funext w e
  simp [mst_select_loop1, pairScore, l1]

/-- the weights: one L1 error per pair of attributes -/
theorem gen_mst_weights (g : GraphOps A DS ℝ) (x : List A → List ℝ) (attrs : List A) (rho : ℝ) (cliques : List (A × A))
    (xest : List A → List ℝ) (size : List A → ℝ) (mcl : List (List A)) (draws : ℕ → ℕ) :
    mst_select_weights npR g x attrs rho cliques xest size mcl draws
      = writeAll (pairScore x xest []) [] (comb2 attrs) := by
  show List.foldl (mst_select_loop1 npR g x attrs rho cliques xest size mcl draws) [] (comb2 attrs) = _
  rw [gen_mst_loop1]; rfl

/-- one round of the selection loop: the candidates are re-filtered, the weights of the CURRENT candidates are handed to
the primitive with the round's epsilon and the literal sensitivity `1.0`, non-monotonic -/
theorem gen_mst_loop3 (g : GraphOps A DS ℝ) (x : List A → List ℝ) (attrs : List A) (rho : ℝ) (cliques : List (A × A))
    (xest : List A → List ℝ) (size : List A → ℝ) (mcl : List (List A)) (draws : ℕ → ℕ)
    (weights : List ((A × A) × ℝ)) (epsilon : ℝ)
    (st : List (A × A) × (List A × List (A × A)) × DS × List (Draw ℝ)) (i : ℕ) :
    mst_select_loop3 npR g x attrs rho cliques xest size mcl draws weights epsilon st i
      = (st.1.filter (fun e => !(g.ds_connected st.2.2.1 e.1 e.2)),
         (st.2.1.1, st.2.1.2 ++ [listGet (st.1.filter (fun e => !(g.ds_connected st.2.2.1 e.1 e.2))) (draws st.2.2.2.length)]),
         g.ds_union st.2.2.1 (listGet (st.1.filter (fun e => !(g.ds_connected st.2.2.1 e.1 e.2))) (draws st.2.2.2.length)).1
            (listGet (st.1.filter (fun e => !(g.ds_connected st.2.2.1 e.1 e.2))) (draws st.2.2.2.length)).2,
         st.2.2.2 ++ [mst_exponential_mechanism npR
            ((st.1.filter (fun e => !(g.ds_connected st.2.2.1 e.1 e.2))).map (dictGet weights)) epsilon 1.0 false]) := rfl

/-- **MST: the declared sensitivity 1 bounds the score change** under add / remove of one record -/
theorem mst_score_sensitivity (g : GraphOps A DS ℝ) (x x' : List A → List ℝ) (attrs : List A) (rho : ℝ) (cliques : List (A × A))
    (xest : List A → List ℝ) (size : List A → ℝ) (mcl : List (List A)) (draws : ℕ → ℕ)
    (hlen : ∀ c, (x c).length = (xest c).length ∧ (x' c).length = (xest c).length)
    (hnb : ∀ c, l1 (x c) (x' c) ≤ 1) (e : A × A) (he : e ∈ comb2 attrs) :
    |dictGet (mst_select_weights npR g x attrs rho cliques xest size mcl draws) e
      - dictGet (mst_select_weights npR g x' attrs rho cliques xest size mcl draws) e| ≤ 1 := by
  rw [gen_mst_weights, gen_mst_weights, dictGet_writeAll _ _ _ _ he, dictGet_writeAll _ _ _ _ he]
  exact le_trans (l1_rev_triangle _ _ _ (hlen _).1 (hlen _).2) (hnb _)

/-- state relation of the selection loop on two neighbouring datasets: same candidates / tree / components,
transcripts of equal length whose draws are `e`-close -/
def SelRel (dom : List (A × A)) (e : ℝ)
    (st st' : List (A × A) × (List A × List (A × A)) × DS × List (Draw ℝ)) : Prop :=
  st.1 = st'.1 ∧ st.2.1 = st'.2.1 ∧ st.2.2.1 = st'.2.2.1 ∧ (∀ p ∈ st.1, p ∈ dom) ∧
    List.Forall₂ (DrawClose e) st.2.2.2 st'.2.2.2

/-- **MST: every round costs at most the round's epsilon**, and the continuation (remaining candidates, tree,
components) is the same on both datasets -/
theorem mst_round_selection_cost (g : GraphOps A DS ℝ) (x x' : List A → List ℝ) (attrs : List A) (rho : ℝ) (cliques : List (A × A))
    (xest : List A → List ℝ) (size : List A → ℝ) (mcl : List (List A)) (draws : ℕ → ℕ)
    (weights weights' : List ((A × A) × ℝ)) (dom : List (A × A)) (epsilon : ℝ) (heps : 0 ≤ epsilon)
    (hw : ∀ e ∈ dom, |dictGet weights e - dictGet weights' e| ≤ 1)
    (st st' : List (A × A) × (List A × List (A × A)) × DS × List (Draw ℝ)) (i : ℕ) (h : SelRel dom epsilon st st') :
    SelRel dom epsilon (mst_select_loop3 npR g x attrs rho cliques xest size mcl draws weights epsilon st i)
      (mst_select_loop3 npR g x' attrs rho cliques xest size mcl draws weights' epsilon st' i) := by
  obtain ⟨h1, h2, h3, h4, h5⟩ := h
  rw [gen_mst_loop3, gen_mst_loop3]
  have hl : st.2.2.2.length = st'.2.2.2.length := h5.length_eq
  rw [← h1, ← h2, ← h3, ← hl]
  refine ⟨rfl, rfl, rfl, fun p hp => h4 p (List.mem_filter.1 hp).1, ?_⟩
  refine List.rel_append h5 (List.Forall₂.cons ?_ List.Forall₂.nil)
  have := mst_em_cost inf fmax (st.1.filter (fun e => !(g.ds_connected st.2.2.1 e.1 e.2))) (dictGet weights) (dictGet weights')
    epsilon 1.0 heps (by norm_num) (fun a ha => by
      have := hw a (h4 a (List.mem_filter.1 ha).1); norm_num; exact this)
  exact this

theorem mst_select_epsilon_nonneg (g : GraphOps A DS ℝ) (x : List A → List ℝ) (attrs : List A) (rho : ℝ) (cliques : List (A × A))
    (xest : List A → List ℝ) (size : List A → ℝ) (mcl : List (List A)) (draws : ℕ → ℕ) :
    0 ≤ mst_select_epsilon npR g x attrs rho cliques xest size mcl draws := Real.sqrt_nonneg _

/-- the per-round epsilon does not depend on the private data, and is `√(8ρ/(r−1))` with `r` the number of components
of the forest of pre-selected edges — the expression the ledger `C05.mst_budget` composes (`mst_select_eps`) -/
theorem gen_mst_epsilon (g : GraphOps A DS ℝ) (x : List A → List ℝ) (attrs : List A) (rho : ℝ) (cliques : List (A × A))
    (xest : List A → List ℝ) (size : List A → ℝ) (mcl : List (List A)) (draws : ℕ → ℕ) :
    mst_select_epsilon npR g x attrs rho cliques xest size mcl draws
      = PGM.Gen.R.mst_select_eps rho
          ((g.ncomp (List.foldl (mst_select_loop2 npR g x attrs rho cliques xest size mcl draws) (([] ++ attrs, []), g.ds_empty) cliques).1 : ℕ) : ℝ) := by
  show Real.sqrt _ = Real.sqrt _
  congr 1
  push_cast
  rfl

theorem mst_epsilon_data_indep (g : GraphOps A DS ℝ) (x x' : List A → List ℝ) (attrs : List A) (rho : ℝ) (cliques : List (A × A))
    (xest : List A → List ℝ) (size : List A → ℝ) (mcl : List (List A)) (draws : ℕ → ℕ) :
    mst_select_epsilon npR g x attrs rho cliques xest size mcl draws
      = mst_select_epsilon npR g x' attrs rho cliques xest size mcl draws := rfl

/-- **MST `select`: the whole transcript.**  On two datasets whose two-way answer vectors differ by at most 1 in L1,
with the same outcomes of the draws, `select` returns the same edges, and makes the same number of draws, each of which
has log-probabilities within the per-round epsilon: the `(r−1)·ε²/8` booked by `C05.mst_budget` is sound. -/
theorem mst_select_cost (g : GraphOps A DS ℝ) (x x' : List A → List ℝ) (attrs : List A) (rho : ℝ) (cliques : List (A × A))
    (xest : List A → List ℝ) (size : List A → ℝ) (mcl : List (List A)) (draws : ℕ → ℕ)
    (hlen : ∀ c, (x c).length = (xest c).length ∧ (x' c).length = (xest c).length)
    (hnb : ∀ c, l1 (x c) (x' c) ≤ 1) :
    (mst_select npR g x attrs rho cliques xest size mcl draws).1 = (mst_select npR g x' attrs rho cliques xest size mcl draws).1 ∧
    List.Forall₂ (DrawClose (mst_select_epsilon npR g x attrs rho cliques xest size mcl draws))
      (mst_select npR g x attrs rho cliques xest size mcl draws).2 (mst_select npR g x' attrs rho cliques xest size mcl draws).2 := by
  have key := foldl_rel (SelRel (comb2 attrs) (mst_select_epsilon npR g x attrs rho cliques xest size mcl draws))
    (mst_select_loop3 npR g x attrs rho cliques xest size mcl draws (mst_select_weights npR g x attrs rho cliques xest size mcl draws)
      (mst_select_epsilon npR g x attrs rho cliques xest size mcl draws))
    (mst_select_loop3 npR g x' attrs rho cliques xest size mcl draws (mst_select_weights npR g x' attrs rho cliques xest size mcl draws)
      (mst_select_epsilon npR g x attrs rho cliques xest size mcl draws))
    (List.range ((((g.ncomp (List.foldl (mst_select_loop2 npR g x attrs rho cliques xest size mcl draws) (([] ++ attrs, []), g.ds_empty) cliques).1 : ℕ) : ℤ) - 1).toNat))
    (comb2 attrs, (List.foldl (mst_select_loop2 npR g x attrs rho cliques xest size mcl draws) (([] ++ attrs, []), g.ds_empty) cliques).1,
      (List.foldl (mst_select_loop2 npR g x attrs rho cliques xest size mcl draws) (([] ++ attrs, []), g.ds_empty) cliques).2, [])
    (comb2 attrs, (List.foldl (mst_select_loop2 npR g x attrs rho cliques xest size mcl draws) (([] ++ attrs, []), g.ds_empty) cliques).1,
      (List.foldl (mst_select_loop2 npR g x attrs rho cliques xest size mcl draws) (([] ++ attrs, []), g.ds_empty) cliques).2, [])
    ⟨rfl, rfl, rfl, fun p hp => hp, List.Forall₂.nil⟩
    (fun a a' b hab => mst_round_selection_cost inf fmax g x x' attrs rho cliques xest size mcl draws _ _ (comb2 attrs) _
      (mst_select_epsilon_nonneg inf fmax g x attrs rho cliques xest size mcl draws)
      (fun e he => mst_score_sensitivity inf fmax g x x' attrs rho cliques xest size mcl draws hlen hnb e he) a a' b hab)
  obtain ⟨k1, k2, k3, k4, k5⟩ := key
  exact ⟨congrArg Prod.snd k2, k5⟩
end mst

/-! ### `select` of adaptive_grid.py -/

section ada
variable {A DS : Type} [DecidableEq A] [Inhabited A]

theorem gen_ada_loop1 (g : GraphOps A DS ℝ) (x : List A → List ℝ) (attrs : List A)
    (xest : List A → List ℝ) (size : List A → ℝ) (mcl : List (List A)) (rho : ℝ) (targets : List A) (draws : ℕ → ℕ) :
    ada_select_loop1 npR g x attrs xest size mcl rho targets draws
      = fun w e => dictSet w e (pairScore x xest targets e) := by
  funext w e
  simp [ada_select_loop1, pairScore, l1]

/-- the candidate pairs are those of the attributes outside `targets` (`Domain.invert`, re-read from `domain.py`);
each weight is the L1 error on the marginal over the pair plus the targets -/
theorem gen_ada_weights (g : GraphOps A DS ℝ) (x : List A → List ℝ) (attrs : List A)
    (xest : List A → List ℝ) (size : List A → ℝ) (mcl : List (List A)) (rho : ℝ) (targets : List A) (draws : ℕ → ℕ) :
    ada_select_weights npR g x attrs xest size mcl rho targets draws
      = writeAll (pairScore x xest targets) [] (comb2 (attrs.filter (fun a => !(decide (a ∈ targets))))) := by
  show List.foldl (ada_select_loop1 npR g x attrs xest size mcl rho targets draws) [] _ = _
  rw [gen_ada_loop1]; rfl

theorem gen_ada_loop2 (g : GraphOps A DS ℝ) (x : List A → List ℝ) (attrs : List A)
    (xest : List A → List ℝ) (size : List A → ℝ) (mcl : List (List A)) (rho : ℝ) (targets : List A) (draws : ℕ → ℕ)
    (weights : List ((A × A) × ℝ)) (epsilon : ℝ)
    (st : List (A × A) × (List A × List (A × A)) × DS × List (Draw ℝ)) (i : ℕ) :
    ada_select_loop2 npR g x attrs xest size mcl rho targets draws weights epsilon st i
      = (st.1.filter (fun e => !(g.ds_connected st.2.2.1 e.1 e.2)),
         (st.2.1.1, st.2.1.2 ++ [listGet (st.1.filter (fun e => !(g.ds_connected st.2.2.1 e.1 e.2))) (draws st.2.2.2.length)]),
         g.ds_union st.2.2.1 (listGet (st.1.filter (fun e => !(g.ds_connected st.2.2.1 e.1 e.2))) (draws st.2.2.2.length)).1
            (listGet (st.1.filter (fun e => !(g.ds_connected st.2.2.1 e.1 e.2))) (draws st.2.2.2.length)).2,
         st.2.2.2 ++ [ada_exponential_mechanism npR
            ((st.1.filter (fun e => !(g.ds_connected st.2.2.1 e.1 e.2))).map (dictGet weights)) epsilon 1.0 false]) := rfl

/-- **Adaptive Grid: the declared sensitivity 1 bounds the score change** under add / remove of one record -/
theorem ada_score_sensitivity (g : GraphOps A DS ℝ) (x x' : List A → List ℝ) (attrs : List A)
    (xest : List A → List ℝ) (size : List A → ℝ) (mcl : List (List A)) (rho : ℝ) (targets : List A) (draws : ℕ → ℕ)
    (hlen : ∀ c, (x c).length = (xest c).length ∧ (x' c).length = (xest c).length)
    (hnb : ∀ c, l1 (x c) (x' c) ≤ 1) (e : A × A) (he : e ∈ comb2 (attrs.filter (fun a => !(decide (a ∈ targets))))) :
    |dictGet (ada_select_weights npR g x attrs xest size mcl rho targets draws) e
      - dictGet (ada_select_weights npR g x' attrs xest size mcl rho targets draws) e| ≤ 1 := by
  rw [gen_ada_weights, gen_ada_weights, dictGet_writeAll _ _ _ _ he, dictGet_writeAll _ _ _ _ he]
  exact le_trans (l1_rev_triangle _ _ _ (hlen _).1 (hlen _).2) (hnb _)

/-- **Adaptive Grid: every round costs at most the (effective) epsilon of the round** -/
theorem ada_round_selection_cost (g : GraphOps A DS ℝ) (x x' : List A → List ℝ) (attrs : List A)
    (xest : List A → List ℝ) (size : List A → ℝ) (mcl : List (List A)) (rho : ℝ) (targets : List A) (draws : ℕ → ℕ)
    (weights weights' : List ((A × A) × ℝ)) (dom : List (A × A)) (epsilon : ℝ) (heps : 0 ≤ (if epsilon = inf then fmax else epsilon))
    (hw : ∀ e ∈ dom, |dictGet weights e - dictGet weights' e| ≤ 1)
    (st st' : List (A × A) × (List A × List (A × A)) × DS × List (Draw ℝ)) (i : ℕ)
    (h : SelRel dom (if epsilon = inf then fmax else epsilon) st st') :
    SelRel dom (if epsilon = inf then fmax else epsilon)
      (ada_select_loop2 npR g x attrs xest size mcl rho targets draws weights epsilon st i)
      (ada_select_loop2 npR g x' attrs xest size mcl rho targets draws weights' epsilon st' i) := by
  obtain ⟨h1, h2, h3, h4, h5⟩ := h
  rw [gen_ada_loop2, gen_ada_loop2]
  have hl : st.2.2.2.length = st'.2.2.2.length := h5.length_eq
  rw [← h1, ← h2, ← h3, ← hl]
  refine ⟨rfl, rfl, rfl, fun p hp => h4 p (List.mem_filter.1 hp).1, ?_⟩
  refine List.rel_append h5 (List.Forall₂.cons ?_ List.Forall₂.nil)
  have := ada_em_cost inf fmax (st.1.filter (fun e => !(g.ds_connected st.2.2.1 e.1 e.2))) (dictGet weights) (dictGet weights')
    epsilon 1.0 heps (by norm_num) (fun a ha => by
      have := hw a (h4 a (List.mem_filter.1 ha).1); norm_num; exact this)
  exact this

/-- the per-round epsilon: `√(8ρ/(r−1))`, `r = #attributes − #targets` — the ledger's `ada_select_eps` -/
theorem gen_ada_epsilon (g : GraphOps A DS ℝ) (x : List A → List ℝ) (attrs : List A)
    (xest : List A → List ℝ) (size : List A → ℝ) (mcl : List (List A)) (rho : ℝ) (targets : List A) (draws : ℕ → ℕ) :
    ada_select_epsilon npR g x attrs xest size mcl rho targets draws
      = PGM.Gen.R.ada_select_eps rho ((attrs.length : ℝ) - (targets.length : ℝ)) := by
  show Real.sqrt _ = Real.sqrt _
  congr 1
  push_cast
  rfl

theorem ada_select_epsilon_nonneg (g : GraphOps A DS ℝ) (x : List A → List ℝ) (attrs : List A)
    (xest : List A → List ℝ) (size : List A → ℝ) (mcl : List (List A)) (rho : ℝ) (targets : List A) (draws : ℕ → ℕ) :
    0 ≤ ada_select_epsilon npR g x attrs xest size mcl rho targets draws := Real.sqrt_nonneg _

/-- **Adaptive Grid `select`: the whole transcript** (`hinf`: the computed epsilon is not the value `np.inf` stands for
here, so the `finfo.max` substitution does not fire) -/
theorem ada_select_cost (g : GraphOps A DS ℝ) (x x' : List A → List ℝ) (attrs : List A)
    (xest : List A → List ℝ) (size : List A → ℝ) (mcl : List (List A)) (rho : ℝ) (targets : List A) (draws : ℕ → ℕ)
    (hinf : ada_select_epsilon npR g x attrs xest size mcl rho targets draws ≠ inf)
    (hlen : ∀ c, (x c).length = (xest c).length ∧ (x' c).length = (xest c).length)
    (hnb : ∀ c, l1 (x c) (x' c) ≤ 1) :
    (ada_select npR g x attrs xest size mcl rho targets draws).1 = (ada_select npR g x' attrs xest size mcl rho targets draws).1 ∧
    List.Forall₂ (DrawClose (ada_select_epsilon npR g x attrs xest size mcl rho targets draws))
      (ada_select npR g x attrs xest size mcl rho targets draws).2 (ada_select npR g x' attrs xest size mcl rho targets draws).2 := by
  have heff : (if ada_select_epsilon npR g x attrs xest size mcl rho targets draws = inf then fmax
      else ada_select_epsilon npR g x attrs xest size mcl rho targets draws)
      = ada_select_epsilon npR g x attrs xest size mcl rho targets draws := if_neg hinf
  have key := foldl_rel (SelRel (comb2 (attrs.filter (fun a => !(decide (a ∈ targets)))))
      (if ada_select_epsilon npR g x attrs xest size mcl rho targets draws = inf then fmax
        else ada_select_epsilon npR g x attrs xest size mcl rho targets draws))
    (ada_select_loop2 npR g x attrs xest size mcl rho targets draws (ada_select_weights npR g x attrs xest size mcl rho targets draws)
      (ada_select_epsilon npR g x attrs xest size mcl rho targets draws))
    (ada_select_loop2 npR g x' attrs xest size mcl rho targets draws (ada_select_weights npR g x' attrs xest size mcl rho targets draws)
      (ada_select_epsilon npR g x attrs xest size mcl rho targets draws))
    (List.range ((((attrs.length : ℕ) : ℤ) - ((targets.length : ℕ) : ℤ) - 1).toNat))
    (comb2 (attrs.filter (fun a => !(decide (a ∈ targets)))), ([] ++ attrs, []), g.ds_empty, [])
    (comb2 (attrs.filter (fun a => !(decide (a ∈ targets)))), ([] ++ attrs, []), g.ds_empty, [])
    ⟨rfl, rfl, rfl, fun p hp => hp, List.Forall₂.nil⟩
    (fun a a' b hab => ada_round_selection_cost inf fmax g x x' attrs xest size mcl rho targets draws _ _ _ _
      (by rw [heff]; exact ada_select_epsilon_nonneg inf fmax g x attrs xest size mcl rho targets draws)
      (fun e he => ada_score_sensitivity inf fmax g x x' attrs xest size mcl rho targets draws hlen hnb e he) a a' b hab)
  rw [heff] at key
  obtain ⟨k1, k2, k3, k4, k5⟩ := key
  exact ⟨congrArg (fun T => T.2.map (fun e => [e.1, e.2] ++ targets)) k2, k5⟩
end ada

/-! ## the call sites in `MST` and `adagrid` -/

section calls
variable {A DS : Type} [DecidableEq A] [Inhabited A]

/-- `MST` hands `select` a third of the budget and no pre-selected edges -/
theorem gen_mst_select_call (g : GraphOps A DS ℝ) (x : List A → List ℝ) (attrs : List A) (rho : ℝ)
    (xest : List A → List ℝ) (size : List A → ℝ) (mcl : List (List A)) (draws : ℕ → ℕ) :
    mst_select_call npR g x attrs rho xest size mcl draws
      = mst_select npR g x attrs (PGM.Gen.R.mst_select_rho rho) [] xest size mcl draws := rfl

/-- `adagrid` hands `select` the model of the engine, the step-2 budget and the targets -/
theorem gen_ada_select_call (g : GraphOps A DS ℝ) (x : List A → List ℝ) (attrs : List A)
    (xest : List A → List ℝ) (size : List A → ℝ) (mcl : List (List A)) (rho2 : ℝ) (targets : List A) (draws : ℕ → ℕ) :
    ada_select_call npR g x attrs xest size mcl rho2 targets draws
      = ada_select npR g x attrs xest size mcl rho2 targets draws := rfl
end calls

/-! ## default arguments of the primitives -/

/-- a caller that omits them gets: sensitivity 1 (base class), non-monotonic coefficient (MST, adaptive grid), penalty on
and unbounded adjacency (MWEM+PGM) -/
theorem gen_defaults :
    (Mechanism_exponential_mechanism_dict_default_sensitivity : ℝ) = 1 ∧
    mst_exponential_mechanism_default_monotonic = false ∧ ada_exponential_mechanism_default_monotonic = false ∧
    mwem_worst_approximated_default_penalty = true ∧ mwem_worst_approximated_default_bounded = false := by
  refine ⟨?_, rfl, rfl, rfl, rfl⟩
  simp only [Mechanism_exponential_mechanism_dict_default_sensitivity]; norm_num

/-! ## the hypotheses are satisfiable -/

/-- AIM: two candidates with weights 1 and 2; adding one record to the first cell of each marginal -/
example : (0:ℝ) ≤ 1 ∧ (∃ cl ∈ dictKeys [(0, (1:ℝ)), (1, 2)], dictGet [((0:ℕ), (1:ℝ)), (1, 2)] cl ≠ 0) ∧
    (∀ cl ∈ dictKeys [((0:ℕ), (1:ℝ)), (1, 2)], ((fun _ : ℕ => [3, (4:ℝ)]) cl).length = ((fun _ : ℕ => [(2.5:ℝ), 4.5]) cl).length ∧
      ((fun _ : ℕ => [4, (4:ℝ)]) cl).length = ((fun _ : ℕ => [(2.5:ℝ), 4.5]) cl).length) ∧
    (∀ cl ∈ dictKeys [((0:ℕ), (1:ℝ)), (1, 2)], l1 ((fun _ : ℕ => [3, (4:ℝ)]) cl) ((fun _ : ℕ => [4, (4:ℝ)]) cl) ≤ 1) := by
  refine ⟨by norm_num, ⟨0, by simp [dictKeys], by simp [dictGet]⟩, fun cl _ => by simp, fun cl _ => ?_⟩
  simp [l1_cons, l1_nil]
  norm_num

/-- the bound of `aim_score_sensitivity` is attained by the heaviest candidate, and a smaller "sensitivity" (for
instance the maximum of an earlier, lighter candidate set) is exceeded: with weights `1, 2` the second score moves by 2 -/
example : |aimScore [((0:ℕ), (1:ℝ)), (1, 2)] (fun _ => [3, 4]) (fun _ => [2, 4]) (fun _ => 0) 1 1
      - aimScore [((0:ℕ), (1:ℝ)), (1, 2)] (fun _ => [4, 4]) (fun _ => [2, 4]) (fun _ => 0) 1 1| = 2
    ∧ pyMaxList ((keyOrder (dictKeys [((0:ℕ), (1:ℝ)), (1, 2)])).map (fun k => |dictGet [((0:ℕ), (1:ℝ)), (1, 2)] k|)) = 2
    ∧ pyMaxList ((keyOrder (dictKeys [((0:ℕ), (1:ℝ))])).map (fun k => |dictGet [((0:ℕ), (1:ℝ))] k|)) = 1 := by
  refine ⟨?_, ?_, ?_⟩
  · simp [aimScore, dictGet, l1_cons, l1_nil]; norm_num
  · simp [keyOrder, keysInsert, dictKeys, dictGet, pyMaxList]
  · simp [keyOrder, keysInsert, dictKeys, dictGet, pyMaxList]

/-- MST / adaptive grid: one record added to the first cell of every marginal -/
example : (∀ c : List ℕ, ((fun _ : List ℕ => [1, (0:ℝ)]) c).length = ((fun _ : List ℕ => [(0.5:ℝ), 0.5]) c).length ∧
      ((fun _ : List ℕ => [2, (0:ℝ)]) c).length = ((fun _ : List ℕ => [(0.5:ℝ), 0.5]) c).length) ∧
    (∀ c : List ℕ, l1 ((fun _ : List ℕ => [1, (0:ℝ)]) c) ((fun _ : List ℕ => [2, (0:ℝ)]) c) ≤ 1) := by
  refine ⟨fun c => by simp, fun c => ?_⟩
  simp [l1_cons, l1_nil]
  norm_num

end PGM.C05S
