import PGM.Generated.DatasetG
import PGM.Properties.C15G
/-!
# C15 (translator tie, datasets) — the regenerated reading of `src/mbi/dataset.py` is the hand-written model

`PGM/Generated/DatasetG.lean` is produced on every run by `tools/py2ds.py` from the current source of
`class Dataset`.  Each generated definition is proved equal to the definition of `PGM/Model/Dataset.lean`
that the dataset laws of `PGM/Properties/C15.lean` are about (`datavector_eq_count`,
`datavector_project_comm`, `project_inDomain`, …).  Library behaviour enters as contracts written out in the
model file: `df.loc[:, labels]` (`Table.select`, unique labels) and `np.histogramdd` with explicit edges
(`histogramdd`, `edgeBin`: last bin closed on the right).  The bin edges `range(n+1)` are *regenerated*; that
they make the general contract the model's `bin1` is `edgeBin_range` below.
-/
namespace PGM.C15
open PGM PGM.Dataset

variable {α : Type}

/-- `Dataset.__init__`, first assertion -/
theorem gen_ds_initPre (t : Table) (d : Dom) : DsG.initPre t d = Dataset.preMk t d := rfl

/-- `Dataset.__init__` -/
theorem gen_ds_init (t : Table) (d : Dom) (w : Option (List α)) : DsG.init t d w = Dataset.ofTable t d w := rfl

/-- the frame stored by `__init__` carries the domain's attributes as its labels, which is the reading
`DsG.frame` of a dataset value -/
theorem init_frame (t : Table) (d : Dom) (w : Option (List α)) :
    DsG.initCols t d = d.attrs ∧
    DsG.frame (DsG.init t d w) = { cols := d.attrs, rows := t.select d.attrs } := ⟨rfl, rfl⟩

theorem getD_map_idxOf (cols : List Attr) (f : Attr → Int) (a : Attr) (ha : a ∈ cols) :
    (cols.map f).getD (cols.idxOf a) 0 = f a := by
  have hi : cols.idxOf a < cols.length := List.idxOf_lt_length_iff.mpr ha
  have hi' : cols.idxOf a < (cols.map f).length := by simpa using hi
  simp [List.getD_eq_getElem?_getD, List.getElem?_eq_getElem hi', List.getElem_idxOf]

/-- selecting the labels a frame already has, in its own order, returns its rows -/
theorem select_self (cols : List Attr) (rows : List (List Int)) (g : List Int → Attr → Int) :
    Table.select { cols := cols, rows := rows.map (fun r => cols.map (g r)) } cols
      = rows.map (fun r => cols.map (g r)) := by
  simp only [Table.select, List.map_map]
  apply List.map_congr_left
  intro r _
  simp only [Function.comp]
  apply List.map_congr_left
  intro a ha
  exact getD_map_idxOf cols (g r) a ha

/-- `Dataset.project` (through `__init__`: the projected frame is selected once more by the projected
domain's attributes, which are `cols`) -/
theorem gen_ds_project (D : Dataset α) (cols : List Attr) : DsG.project D cols = Dataset.project D cols := by
  simp only [DsG.project, DsG.init, Dataset.project, C15.gen_project, Dom.attrs_project, DsG.frame]
  congr 1
  exact select_self cols D.rows (fun r a => r.getD (D.dom.attrs.idxOf a) 0)

/-- `Dataset.drop`: projection on the complement (`Domain.invert`) -/
theorem gen_ds_drop (D : Dataset α) (cols : List Attr) :
    DsG.drop D cols = Dataset.project D (D.dom.invert cols) := by
  simp only [DsG.drop, gen_ds_project, Dom.invert]

/-- `Dataset.records` -/
theorem gen_ds_records (D : Dataset α) : DsG.records D = Dataset.records D := rfl

theorem filter_le_range_length (k m : Nat) :
    ((List.range k).filter (fun e => decide (e ≤ m))).length = min k (m + 1) := by
  induction k with
  | zero => simp
  | succ k ih =>
    rw [List.range_succ, List.filter_append, List.length_append, ih]
    by_cases h : k ≤ m
    · simp [h]
      try omega
    · simp [h]
      try omega

/-- **the regenerated edges `range(n+1)` make numpy's contract the model's `bin1`**: values `0 … n-1` in
their own bin, the value `n` in the last bin, everything else dropped -/
theorem edgeBin_range (n : Nat) (v : Int) : edgeBin (List.range (n + 1)) v = bin1 n v := by
  unfold edgeBin bin1
  rw [List.getLast?_range]
  simp only [Nat.add_one_ne_zero, if_false, List.length_range, Nat.add_sub_cancel]
  by_cases hn : n = 0
  · subst hn
    simp
  · have h2 : ¬ (n + 1 < 2) := by omega
    have hh : (List.range (n + 1)).headD 0 = 0 := by
      cases n with
      | zero => rfl
      | succ k => simp [List.range_succ_eq_map]
    simp only [h2, if_false, hh]
    by_cases hv : v < 0
    · simp [hv]
    · have hv' : ¬ (v < ((0 : Nat) : Int)) := by simpa using hv
      simp only [hv', hv, if_false]
      by_cases h3 : v.toNat < n
      · have : ¬ (v.toNat > n) := by omega
        have h4 : ¬ (v.toNat = n) := by omega
        simp only [this, h4, h3, if_false, if_true, filter_le_range_length]
        congr 1
        omega
      · by_cases h4 : v.toNat = n
        · have : ¬ (v.toNat > n) := by omega
          have hn0 : 0 < n := by omega
          simp [h4, hn0]
        · have : v.toNat > n := by omega
          simp [this, h3, h4]

theorem edgeBins_range (shape : List Nat) (r : List Int) :
    edgeBins (shape.map (fun n => List.range (n + 1))) r = binOf shape r := by
  induction shape generalizing r with
  | nil => cases r <;> rfl
  | cons n ns ih =>
    cases r with
    | nil => rfl
    | cons v vs => simp only [List.map_cons, edgeBins, binOf, edgeBin_range, ih]

/-- `Dataset.datavector` -/
theorem gen_ds_datavector [Scalar α] (D : Dataset α) : DsG.datavector D = Dataset.datavector D := by
  rcases D with ⟨dom, rows, w⟩
  have hs : (dom.shape.map ((fun e => e.length - 1) ∘ fun n => List.range (n + 1))) = dom.shape := by
    conv => rhs; rw [← List.map_id dom.shape]
    apply List.map_congr_left
    intro n _
    simp
  cases w <;>
  · unfold DsG.datavector Dataset.histogramdd Dataset.datavector
    simp only [DsG.frame, List.map_map, edgeBins_range, Dataset.weightAt]
    rw [hs]

/-- evaluated instance: two records over a 2×3 domain, one on the closed right edge -/
example : DsG.datavector (α := ExtQ) ⟨[("a", 2), ("b", 3)], [[0, 1], [1, 3]], none⟩
    = [.fin 0, .fin 1, .fin 0, .fin 0, .fin 0, .fin 1] := by
  decide +kernel

end PGM.C15
