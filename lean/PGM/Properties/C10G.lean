import PGM.Generated.EstimateG
import PGM.Proofs.EstGen
import PGM.Properties.C10
import PGM.Properties.C13G
import Mathlib.Algebra.Order.Field.Rat
/-!
# C10 (translator tie) — the regenerated zero handling of `FactoredInference` is what the C10 theorems are about

`tools/py2est.py` regenerates, from the current source, `Factor.active` (factor.py), the loop of `__init__` that builds
`self.structural_zeros`, and `_setup` (`PGM/Generated/EstimateG.lean`).  Here:

* `gen_active` — the generated `Factor.active` (transpose of the cell list into index arrays, `np.zeros`, the advanced-index
  store `vals[idx] = -np.inf`) is the indicator table `Factor.active` of `Model/Solvers.lean`, for every list of cells of
  full width (the empty list included, `gen_active_nil`); `gen_active_sem` is C10 `active_sem` for the generated definition;
* `gen_init_zeros` / `gen_init_zeroVec` — `__init__` builds exactly `Zeros.zeroVec` (one indicator factor per key, a dict
  has distinct keys);
* `gen_zeros_installed` — C10 `zeros_installed` for the parameters the GENERATED `_setup` stores (cold call or first call);
  `gen_zeros_installed_init` chains it with the generated constructor;
* `gen_warm_keeps_combine` — under warm start the structural zeros are still `combine`d in BEFORE the previous parameters.

An EMPTY list of cells for a key (`structural_zeros={('a','b'): []}`) declares nothing: `gen_active_nil`.  This obligation
is what exposed a defect of the unguarded source text (`tuple(np.array([]).T) = ()`, and `vals[()] = -inf` stores into
EVERY cell, so the whole clique became impossible and `estimate` returned NaN / all-zero tables); with that text the
translator still runs and `EstGen.active_nil` / `gen_active` fail to build.  The repaired source guards the store with
`if len(structural_zeros) > 0:`.
-/
namespace PGM.C10G
open PGM PGM.JT PGM.Sem PGM.Zeros PGM.EstG PGM.EstGen
set_option linter.unusedSectionVars false

section generic
variable {α : Type} [Scalar α]

/-- **`Factor.active`** as regenerated = the hand model's indicator table, for every list of full-width cells -/
theorem gen_active (negInf : α) (d : Dom) (cs : List (List Nat))
    (hlen : ∀ c ∈ cs, c.length = d.length) : EstG.active negInf d cs = Factor.active negInf d cs :=
  active_eq negInf d cs hlen

/-- the hypothesis of `gen_active` holds for `{('a','b'): [(1,2),(0,0)]}` over a 2×3 domain -/
example : ∀ c ∈ ([[1, 2], [0, 0]] : List (List Nat)), c.length = ([("a", 2), ("b", 3)] : Dom).length := by decide

/-- **an empty cell list declares nothing** (the guard `len(structural_zeros) > 0`) -/
theorem gen_active_nil (negInf : α) (d : Dom) : EstG.active negInf d [] = Factor.active negInf d [] :=
  active_nil negInf d

/-- **`__init__`**: `self.structural_zeros` holds, per key of the specification and in its order, the indicator factor over
the projected domain -/
theorem gen_init_zeros (negInf : α) (d : Dom) (zs : List (JT.Clique × List (List Nat))) (m : Metric) (lg : Bool)
    (it : Nat) (w : Bool) (eo : Option (List Attr)) (hnd : (zs.map Prod.fst).Nodup)
    (hz : ∀ z ∈ zs, ∀ c ∈ z.2, c.length = z.1.length) :
    (init negInf d zs m lg it w eo).cfg.structural_zeros
      = zs.map (fun z => (z.1, Factor.active negInf (d.project z.1) z.2)) := by
  rw [init_zeros negInf d zs m lg it w eo hnd]
  apply List.map_congr_left
  intro z hzm
  have hl : (d.project z.1).length = z.1.length := by simp [Dom.project]
  rw [gen_active negInf (d.project z.1) z.2 (fun c hc => by rw [hl]; exact hz z hzm c hc)]

end generic

section logof
variable {K : Type} [Field K] [LinearOrder K] [IsStrictOrderedRing K]

/-- the caller's specification as a list of `ZeroSpec`s -/
def specOf (zs : List (JT.Clique × List (List Nat))) : List ZeroSpec := zs.map (fun z => ⟨z.1, z.2⟩)

/-- **`__init__` builds `Zeros.zeroVec`** (`-np.inf` read as exp-space 0) -/
theorem gen_init_zeroVec (d : Dom) (zs : List (JT.Clique × List (List Nat))) (m : Metric) (lg : Bool)
    (it : Nat) (w : Bool) (eo : Option (List Attr)) (hnd : (zs.map Prod.fst).Nodup)
    (hz : ∀ z ∈ zs, ∀ c ∈ z.2, c.length = z.1.length) :
    (init (⟨0⟩ : LogOf K) d zs m lg it w eo).cfg.structural_zeros = zeroVec d (specOf zs) := by
  rw [gen_init_zeros _ d zs m lg it w eo hnd hz]
  simp [zeroVec, specOf, List.map_map, Function.comp]

/-- C10 `active_sem` for the regenerated `Factor.active` -/
theorem gen_active_sem (d : Dom) (z : ZeroSpec) (τ : Attr → Nat) (hd : d.WF) (hnd : z.zc.Nodup)
    (hsub : ∀ a ∈ z.zc, a ∈ d.attrs) (hτ : d.Valid τ) (h3 : ∀ c ∈ z.cells, c.length = z.zc.length) :
    ((EstG.active (⟨0⟩ : LogOf K) (d.project z.zc) z.cells).sem τ).v
      = (open Classical in if Hits z τ then (0 : K) else 1) := by
  have hl : (d.project z.zc).length = z.zc.length := by simp [Dom.project]
  rw [gen_active _ (d.project z.zc) z.cells (fun c hc => by rw [hl]; exact h3 c hc)]
  exact C10.active_sem d z τ hd hnd hsub hτ

/-- **C10 `zeros_installed` for the generated `_setup`**: on a cold estimator, or on the first call of any estimator, the
parameters stored by `_setup` have a joint that vanishes exactly on the assignments extending a declared cell — given that
the junction tree's maximal cliques (`gmCliques`, a contract) are duplicate-free tuples of domain attributes, pairwise
distinct, and cover every zero clique (they do: the zero keys are passed to the constructor, `C13G.gen_setup_cliques`) -/
theorem gen_zeros_installed (gmC : Dom → List Clique → Option (List Attr) → List Clique)
    (estT : List (Loss.Meas (LogOf K)) → LogOf K) (c : Cfg (LogOf K)) (zs : List ZeroSpec)
    (hzs : c.structural_zeros = zeroVec c.domain zs) (prev : Option (GM (LogOf K)))
    (gr : Option (List (Clique × List (Loss.Meas (LogOf K))))) (hfresh : c.warm_start = false ∨ prev = none)
    (ms : List (Loss.Meas (LogOf K))) (t : Option (LogOf K)) (τ : Attr → Nat) (hd : c.domain.WF)
    (hcl : ∀ q ∈ modelCliques gmC c ms, q.Nodup ∧ ∀ a ∈ q, a ∈ c.domain.attrs)
    (hcn : (modelCliques gmC c ms).Nodup)
    (hz : ∀ z ∈ zs, z.zc.Nodup ∧ (∀ a ∈ z.zc, a ∈ c.domain.attrs) ∧ ∃ q ∈ modelCliques gmC c ms, JT.subset z.zc q = true)
    (hτ : c.domain.Valid τ) :
    (setup gmC estT ⟨c, prev, gr⟩ ms t).model.map (fun g => joint (K := K) g.potentials τ)
      = some (open Classical in if ∃ z ∈ zs, Hits z τ then (0 : K) else 1) := by
  rw [C13G.gen_setup]
  have hθ : Engine.initialTheta (cfgOf c) (modelCliques gmC c ms) (toState (⟨c, prev, gr⟩ : Est (LogOf K)))
      = CliqueVec.combine (CliqueVec.zerosV c.domain (modelCliques gmC c ms)) (zeroVec c.domain zs) := by
    rw [← hzs]
    rcases hfresh with h | rfl
    · simp [Engine.initialTheta, cfgOf, h]
    · exact C13.first_call_initial (cfgOf c) _
  simp only [Option.map_some, newGM, hθ]
  exact congrArg some (C10.zeros_installed c.domain _ zs τ hd hcl hcn hz hτ)

/-- the same, from the constructor on: `FactoredInference(domain, structural_zeros=zs, …)` followed by its first `_setup` -/
theorem gen_zeros_installed_init (gmC : Dom → List Clique → Option (List Attr) → List Clique)
    (estT : List (Loss.Meas (LogOf K)) → LogOf K) (d : Dom) (zs : List (JT.Clique × List (List Nat))) (m : Metric)
    (lg : Bool) (it : Nat) (w : Bool) (eo : Option (List Attr)) (hnd : (zs.map Prod.fst).Nodup)
    (hzc : ∀ z ∈ zs, ∀ c ∈ z.2, c.length = z.1.length)
    (ms : List (Loss.Meas (LogOf K))) (t : Option (LogOf K)) (τ : Attr → Nat) (hd : d.WF)
    (hcl : ∀ q ∈ modelCliques gmC (init (⟨0⟩ : LogOf K) d zs m lg it w eo).cfg ms, q.Nodup ∧ ∀ a ∈ q, a ∈ d.attrs)
    (hcn : (modelCliques gmC (init (⟨0⟩ : LogOf K) d zs m lg it w eo).cfg ms).Nodup)
    (hz : ∀ z ∈ specOf zs, z.zc.Nodup ∧ (∀ a ∈ z.zc, a ∈ d.attrs) ∧
      ∃ q ∈ modelCliques gmC (init (⟨0⟩ : LogOf K) d zs m lg it w eo).cfg ms, JT.subset z.zc q = true)
    (hτ : d.Valid τ) :
    (setup gmC estT (init (⟨0⟩ : LogOf K) d zs m lg it w eo) ms t).model.map (fun g => joint (K := K) g.potentials τ)
      = some (open Classical in if ∃ z ∈ specOf zs, Hits z τ then (0 : K) else 1) :=
  gen_zeros_installed gmC estT (init (⟨0⟩ : LogOf K) d zs m lg it w eo).cfg (specOf zs)
    (gen_init_zeroVec d zs m lg it w eo hnd hzc) none none (Or.inr rfl) ms t τ hd hcl hcn hz hτ

end logof

/-- the hypotheses of `gen_zeros_installed` are satisfiable: domain a×b (2×2), the cell (a,b) = (0,1) declared impossible, one
measured clique, a constructor contract that returns the single maximal clique (a,b) -/
example : ∃ (gmC : Dom → List Clique → Option (List Attr) → List Clique) (c : Cfg (LogOf ℚ)) (zs : List ZeroSpec)
    (ms : List (Loss.Meas (LogOf ℚ))) (τ : Attr → Nat),
    c.structural_zeros = zeroVec c.domain zs ∧ c.warm_start = false ∧ c.domain.WF ∧
    (∀ q ∈ modelCliques gmC c ms, q.Nodup ∧ ∀ a ∈ q, a ∈ c.domain.attrs) ∧ (modelCliques gmC c ms).Nodup ∧
    (∀ z ∈ zs, z.zc.Nodup ∧ (∀ a ∈ z.zc, a ∈ c.domain.attrs) ∧ ∃ q ∈ modelCliques gmC c ms, JT.subset z.zc q = true) ∧
    c.domain.Valid τ ∧ (∃ z ∈ zs, Hits z τ) :=
  ⟨fun _ _ _ => [["a", "b"]],
    ⟨[("a", 2), ("b", 2)], Metric.L2, false, 10, false, none, zeroVec [("a", 2), ("b", 2)] [⟨["a", "b"], [[0, 1]]⟩]⟩,
    [⟨["a", "b"], [[0, 1]]⟩], [⟨[], [], ⟨1⟩, ["a"]⟩], fun a => if a = "b" then 1 else 0,
    rfl, rfl, by decide, by decide, by decide, by decide, by simp [Dom.Valid], ⟨_, List.mem_singleton.mpr rfl, by simp [Hits]⟩⟩

/-- **warm start does not skip the zeros**: with a previous model the generated `_setup` stores
`combine (combine zeros₀ structural_zeros) previous.potentials` — the structural zeros are installed first -/
theorem gen_warm_keeps_combine {α : Type} [Scalar α] (gmC : Dom → List Clique → Option (List Attr) → List Clique)
    (estT : List (Loss.Meas α) → α) (c : Cfg α) (hw : c.warm_start = true) (prev : GM α)
    (gr : Option (List (Clique × List (Loss.Meas α)))) (ms : List (Loss.Meas α)) (t : Option α) :
    (setup gmC estT ⟨c, some prev, gr⟩ ms t).model.map (·.potentials)
      = some (CliqueVec.combine (CliqueVec.combine (CliqueVec.zerosV c.domain (modelCliques gmC c ms)) c.structural_zeros)
          prev.potentials) := by
  rw [C13G.gen_setup]
  simp [newGM, Engine.initialTheta, cfgOf, toState, toModel, hw]

end PGM.C10G
