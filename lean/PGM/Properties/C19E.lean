import PGM.Properties.C19G
import PGM.Proofs.PublicE2EQuad
/-!
# C19 (end to end) — the objective of the generated `PublicInference.estimate` IS the property's measurement loss

`C19G` proves C19 for the generated `estimate` with "fits the measurements" measured by the GENERATED closure
`PubG.lossAndGrad` (weights → `CliqueVector.from_data` → `_marginal_loss` → gather).  This file pins that closure to the
objective the PROPERTY speaks of, written out in plain real notation (`Proofs/PublicE2EReal.lean`):

* `table pub w cl` = `μ_cl(w)`, the weighted contingency table of the public records on the clique `cl` — the
  `Dataset.datavector` of the reweighted, projected data; by C15 (`table_is_contingency_table`) its entry at a cell is the
  total weight of the records in that cell;
* `measLossL2 pub ms w = Σ_m ½‖(Q_m·μ_{cl_m}(w) − y_m)/noise_m‖²`, `measLossL1 pub ms w = Σ_m ‖(Q_m·μ_{cl_m}(w) − y_m)/noise_m‖₁`;
* `measGrad dir pub ms w`: record by record, `Σ_m (Q_mᵀ dir(residual_m)/noise_m)[cell of the record on cl_m]` — the
  chain-rule gradient with respect to the record weights (`dir` = identity for L2, signs for L1: a subgradient).

1. `gen_loss_is_measurement_loss` (no hypothesis) and `gen_lossAndGrad_is_measurement_loss` (both components; records
   inside the domain): the generated `loss_and_grad` returns exactly `(measLoss, measGrad)`, metric L2 and L1.
2. `gen_reweighting_never_worse_than_uniform` (total given) / `…_estimated` (total = `estimate_total`, py2total): C19 with
   the property's objective written out, for POSITIVE noise scales (`hnoise : ∀ m ∈ ms, 0 < m.noise`, as the property
   quantifies): the objective divides by `noise`, and for `noise = 0` the model's field convention `x/0 = 0` makes a
   measurement contribute `0` at every weight vector (`measLoss_noise_zero`: never-worse would read `0 ≤ 0`) while Python
   computes `1.0/noise` (ZeroDivisionError for a Python float, `inf`/`nan` for a numpy scalar) — the theorems do not speak
   about that input.  `…_estimated` assumes the contract `Total.LsmrOK` of C09G on `lsmr` / `np.allclose` (minimum-norm
   solution where `Qᵀv = 1` is consistent; the test fails, whatever `lsmr` returns, where it is not — so lists with
   difference queries etc. are covered).  `eps0`: the generated `estimate` takes `np.nextafter(0, 1)` as the parameter
   `eps0`; the theorems instantiate it with `0` (over `ℝ` the smallest positive double has no counterpart; the guard only
   matters for zero weights, and `__init__` sets unit weights — C19G `gen_emd*`).
3. `lossgradQuad_is_measurement_loss`: the hand model's / driver's quadratic form `Public.lossgradQuad` with
   `A = (Q·Inc)/noise` (the matrices the harness builds) is the same pair, hence `gen_lossAndGrad_eq_lossgradQuad`: the
   correspondence stream `C19.emd` / `C19.objective` and the theorems are about ONE function.

**Records outside the domain** (what stays unmodelled, (b)): `InDom` asks `0 ≤ v < size` for every value.  The loss
component needs no such hypothesis in the MODEL, but the Python closure differs from the model there: for `v ≥ size` numpy's
gather `dL[cl].values[tuple(idx.T)]` raises `IndexError` (so `estimate` raises) although `np.histogramdd` counts `v = size`
in the last cell (C15 `bin1_boundary`); for `v < 0` the histogram DROPS the record while the gather wraps around (`-1` → last
cell) and hands the record the gradient entry of a cell it was not counted in (observed: rows `[[0,1],[-1,1],[0,1]]`,
table `[2,0]`, gathered `[-1,-1,-1]`, true gradient of the dropped record `0`).  The model's `gather` is total (`Int.toNat`,
`getD`): `gather_outside_domain` below shows what it reads.  None of this affects valid weights / never-worse (they hold for
every objective), only the reading of `dweights` as a gradient.
-/
namespace PGM.C19E
open PGM PGM.Public PGM.C19G

/-! ## 1. the generated `loss_and_grad` is the measurement loss and its gradient -/

theorem genL2_eq : (PubG.marginalLossL2 : List (Loss.Meas ℝ) → CliqueVec ℝ → ℝ × CliqueVec ℝ)
    = Public.marginalLossWith (fun d => Scalar.mul (Scalar.div Scalar.one (Scalar.add Scalar.one Scalar.one)) (Loss.dot d d))
        (fun d => d) :=
  funext fun a => funext fun b => gen_marginalLossL2 a b

theorem genL1_eq : (PubG.marginalLossL1 : List (Loss.Meas ℝ) → CliqueVec ℝ → ℝ × CliqueVec ℝ)
    = Public.marginalLossWith (fun d => Scalar.sum (d.map Loss.absS)) (fun d => d.map Loss.signS) :=
  funext fun a => funext fun b => gen_marginalLossL1 a b

/-- **the loss component, no hypothesis**: for every public dataset, measurement list and weight vector the loss the
generated closure returns is the property's objective — L2: `Σ ½‖(Q·μ_cl(w) − y)/noise‖²`, L1: `Σ ‖(Q·μ_cl(w) − y)/noise‖₁` -/
theorem gen_loss_is_measurement_loss (pub : Dataset ℝ) (ms : List (Loss.Meas ℝ)) (w : List ℝ) :
    (PubG.lossAndGrad PubG.marginalLossL2 ms (ms.map (fun M => M.proj)) pub w).1 = measLossL2 pub ms w ∧
    (PubG.lossAndGrad PubG.marginalLossL1 ms (ms.map (fun M => M.proj)) pub w).1 = measLossL1 pub ms w := by
  rw [gen_lossAndGrad, gen_lossAndGrad, genL2_eq, genL1_eq]
  exact ⟨lossAndGrad_loss_L2 pub ms w, lossAndGrad_loss_L1 pub ms w⟩

/-- `μ_cl(w)` is the weighted contingency table (C15 `datavector_eq_count`): the entry at cell `c` is the total weight of
the public records whose values on `cl` are `c` -/
theorem table_is_contingency_table (pub : Dataset ℝ) (ms : List (Loss.Meas ℝ)) (H : InDom pub ms) (w : List ℝ)
    (m : Loss.Meas ℝ) (hm : m ∈ ms) (c : List Nat) (hc : InRange (pub.dom.project m.proj).shape c) :
    (table pub w m.proj)[ravel (pub.dom.project m.proj).shape c]?
      = some (((reweight pub w).project m.proj).tableAt c) :=
  table_eq_count pub w m.proj H.wf H.rows (H.cl m hm).2 c hc

/-- **`gen_lossAndGrad_is_measurement_loss`**: for public records inside the domain (`InDom`: distinct attribute names,
every value `0 ≤ v < size`, measured cliques made of distinct domain attributes) and every weight vector with one weight per
record, the generated closure `loss_and_grad` returns
* metric L2: `(Σ_m ½‖(Q μ − y)/noise‖², its gradient)` — per record the entry of `Qᵀ((Qμ − y)/noise)/noise` at the record's
  cell, summed over the measurements;
* metric L1: `(Σ_m ‖(Q μ − y)/noise‖₁, the subgradient with sign(residual))`. -/
theorem gen_lossAndGrad_is_measurement_loss (pub : Dataset ℝ) (ms : List (Loss.Meas ℝ)) (w : List ℝ)
    (H : InDom pub ms) (hw : w.length = pub.records) :
    PubG.lossAndGrad PubG.marginalLossL2 ms (ms.map (fun M => M.proj)) pub w
      = (measLossL2 pub ms w, measGrad (fun d => d) pub ms w) ∧
    PubG.lossAndGrad PubG.marginalLossL1 ms (ms.map (fun M => M.proj)) pub w
      = (measLossL1 pub ms w, measGrad (fun d => d.map sgn) pub ms w) := by
  obtain ⟨l2, l1⟩ := gen_loss_is_measurement_loss pub ms w
  refine ⟨Prod.ext l2 ?_, Prod.ext l1 ?_⟩
  · rw [gen_lossAndGrad, genL2_eq]
    exact lossAndGrad_grad_with _ _ pub ms w H hw
  · rw [gen_lossAndGrad, genL1_eq]
    have hs : (fun d : List ℝ => d.map Loss.signS) = fun d => d.map sgn :=
      funext fun d => List.map_congr_left (fun x _ => signS_real x)
    have := lossAndGrad_grad_with (fun d => Scalar.sum (d.map Loss.absS)) (fun d => d.map Loss.signS) pub ms w H hw
    rw [this, hs]

/-- what the model's total `gather` reads outside the domain — where numpy raises (`v ≥ size`) or wraps around (`v < 0`):
index `2` of a length-2 table reads the default value, index `-1` reads cell 0 (numpy: the LAST cell); in two dimensions
`[0, 2]` aliases the cell `[1, 0]` -/
theorem gather_outside_domain {α : Type} [Scalar α] (a b c d : α) :
    PubG.gather ⟨[2], #[a, b]⟩ [[2]] = [default] ∧ PubG.gather ⟨[2], #[a, b]⟩ [[-1]] = [a] ∧
    PubG.gather ⟨[2, 2], #[a, b, c, d]⟩ [[0, 2]] = [c] := ⟨rfl, rfl, rfl⟩

/-! ## 2. C19 with the property's objective written out -/

/-- a measurement with noise scale `0` contributes `0` to the model's objective at EVERY weight vector (`x/0 = 0`), so
never-worse would be `0 ≤ 0` for it; Python computes `1.0/noise` there.  This is why the theorems below assume
`0 < noise` (the hypothesis restricts the statement to the inputs on which model and Python objective agree; the proof
does not use it) -/
theorem measLoss_noise_zero (pub : Dataset ℝ) (Q : List (List ℝ)) (y : List ℝ) (cl : List Attr) (w : List ℝ) :
    measLossL2 pub [⟨Q, y, 0, cl⟩] w = 0 ∧ measLossL1 pub [⟨Q, y, 0, cl⟩] w = 0 := by
  have zw0 : ∀ (a : List ℝ) (b : List ℝ), (List.zipWith (fun _ _ => (0 : ℝ)) a b).sum = 0 := by
    intro a
    induction a with
    | nil => simp
    | cons x xs ih => intro b; cases b <;> simp [ih]
  constructor <;> simp [measLossL2, measLossL1, resid, zw0]

set_option linter.unusedVariables false in
/-- **C19, total given, objective written out.**  For every public dataset with at least one record, every measurement
list with positive noise scales and every total > 0, a fresh `PublicInference(pub, metric).estimate(ms, total)` (generated code, metric 'L2' resp.
'L1') returns a dataset over the public domain and (distinct attribute names, full-width records) the unchanged public
records, carrying `self.weights`: one strictly positive weight per record, summing to `total`, and
`measLoss(returned weights) ≤ measLoss(uniform weights total/n)` — the reweighted data never fits the measurements worse
than the uniformly weighted public data with the same total. -/
theorem gen_reweighting_never_worse_than_uniform (pub : Dataset ℝ) (ms : List (Loss.Meas ℝ)) (total : ℝ)
    (hn : 0 < pub.records) (ht : 0 < total) (hnoise : ∀ m ∈ ms, 0 < m.noise) :
    (let r := PubG.estimateGiven PubG.marginalLossL2 pub (PubG.initWeights pub) ms total 0
     r.1.weights = some r.2 ∧ r.1.dom = pub.dom ∧
     (pub.dom.attrs.Nodup → (∀ row ∈ pub.rows, row.length = pub.dom.attrs.length) → r.1.rows = pub.rows) ∧
     r.2.length = pub.records ∧ (∀ w ∈ r.2, 0 < w) ∧ r.2.sum = total ∧
     measLossL2 pub ms r.2 ≤ measLossL2 pub ms (List.replicate pub.records (total / pub.records))) ∧
    (let r := PubG.estimateGiven PubG.marginalLossL1 pub (PubG.initWeights pub) ms total 0
     r.1.weights = some r.2 ∧ r.1.dom = pub.dom ∧
     (pub.dom.attrs.Nodup → (∀ row ∈ pub.rows, row.length = pub.dom.attrs.length) → r.1.rows = pub.rows) ∧
     r.2.length = pub.records ∧ (∀ w ∈ r.2, 0 < w) ∧ r.2.sum = total ∧
     measLossL1 pub ms r.2 ≤ measLossL1 pub ms (List.replicate pub.records (total / pub.records))) := by
  have h2 := gen_estimateGiven_c19 PubG.marginalLossL2 pub ms total hn ht
  have h1 := gen_estimateGiven_c19 PubG.marginalLossL1 pub ms total hn ht
  simp only [(gen_loss_is_measurement_loss pub ms _).1] at h2
  simp only [(gen_loss_is_measurement_loss pub ms _).2] at h1
  exact ⟨h2, h1⟩

set_option linter.unusedVariables false in
/-- **C19, total omitted, objective written out**: the total is `estimate_total(measurements)` as regenerated by
tools/py2total.py — under the contract `Total.LsmrOK` of C09G (`lsmr` = minimum-norm solution of `Qᵀv = 1` for the
measurements where that is consistent; for the others — difference queries etc. — whatever it returns fails the `allclose`
test) it is the model's `Total.totalEstimate` (`C09G.gen_public`) and at least 1 — and the same holds with that total,
for positive noise scales. -/
theorem gen_reweighting_never_worse_than_uniform_estimated (lsmrSolve : List (List ℝ) → List ℝ)
    (allclose : List ℝ → List ℝ → Bool) (pub : Dataset ℝ) (ms : List (Loss.Meas ℝ)) (hn : 0 < pub.records)
    (hl : Total.LsmrOK lsmrSolve allclose (ms.map measTuple)) (hnoise : ∀ m ∈ ms, 0 < m.noise) :
    let et := fun ms => PGM.TotalG.estimateTotal_public lsmrSolve allclose (ms.map measTuple)
    et ms = Total.totalEstimate ((ms.map measTuple).map Total.toMeas) ∧ 1 ≤ et ms ∧
    (let r := PubG.estimateNone PubG.marginalLossL2 et pub (PubG.initWeights pub) ms 0
     r.1.weights = some r.2 ∧ r.1.dom = pub.dom ∧
     (pub.dom.attrs.Nodup → (∀ row ∈ pub.rows, row.length = pub.dom.attrs.length) → r.1.rows = pub.rows) ∧
     r.2.length = pub.records ∧ (∀ w ∈ r.2, 0 < w) ∧ r.2.sum = et ms ∧
     measLossL2 pub ms r.2 ≤ measLossL2 pub ms (List.replicate pub.records (et ms / pub.records))) ∧
    (let r := PubG.estimateNone PubG.marginalLossL1 et pub (PubG.initWeights pub) ms 0
     r.1.weights = some r.2 ∧ r.1.dom = pub.dom ∧
     (pub.dom.attrs.Nodup → (∀ row ∈ pub.rows, row.length = pub.dom.attrs.length) → r.1.rows = pub.rows) ∧
     r.2.length = pub.records ∧ (∀ w ∈ r.2, 0 < w) ∧ r.2.sum = et ms ∧
     measLossL1 pub ms r.2 ≤ measLossL1 pub ms (List.replicate pub.records (et ms / pub.records))) := by
  intro et
  have h1 : 1 ≤ et ms := (C09.TotalG.gen_total_ge_one lsmrSolve allclose (ms.map measTuple) hl).2.2
  have ht : 0 < et ms := by linarith
  have e2 := gen_estimateNone_c19 PubG.marginalLossL2 et pub ms hn ht
  have e1 := gen_estimateNone_c19 PubG.marginalLossL1 et pub ms hn ht
  simp only [(gen_loss_is_measurement_loss pub ms _).1] at e2
  simp only [(gen_loss_is_measurement_loss pub ms _).2] at e1
  exact ⟨C09.TotalG.gen_public lsmrSolve allclose (ms.map measTuple) hl, h1, e2, e1⟩

/-! ## 3. the hand model's quadratic objective is the same function -/

/-- **`Public.lossgradQuad` is the measurement loss**: with the matrices the harness hands to the driver
(`quadMs`: `A_m = (Q_m · Inc_m)/noise_m`, `y_m/noise_m`, `Inc_m` = `incidence pub cl_m`, the record → cell incidence matrix)
the quadratic form `(Cert.loss, Cert.grad)` is `(measLossL2, its gradient)` — records inside the domain -/
theorem lossgradQuad_is_measurement_loss (pub : Dataset ℝ) (ms : List (Loss.Meas ℝ)) (w : List ℝ)
    (H : InDom pub ms) (hw : w.length = pub.records) :
    Public.lossgradQuad (quadMs pub ms) w = (measLossL2 pub ms w, measGrad (fun d => d) pub ms w) :=
  Prod.ext (lossgradQuad_loss pub ms w H hw) (lossgradQuad_grad pub ms w H hw)

/-- the weighted contingency table is linear in the weights: `μ_cl(w) = Inc · w` -/
theorem table_eq_incidence_mul (pub : Dataset ℝ) (ms : List (Loss.Meas ℝ)) (H : InDom pub ms) (w : List ℝ)
    (hw : w.length = pub.records) (m : Loss.Meas ℝ) (hm : m ∈ ms) :
    table pub w m.proj = (incidence pub m.proj).map (fun row => (List.zipWith (· * ·) row w).sum) :=
  table_linear pub w m.proj H.wf H.rows (H.cl m hm).2 hw

/-- **one function**: the generated closure (metric L2) and the quadratic form of the model / the driver agree, loss and
gradient, at every weight vector -/
theorem gen_lossAndGrad_eq_lossgradQuad (pub : Dataset ℝ) (ms : List (Loss.Meas ℝ)) (w : List ℝ)
    (H : InDom pub ms) (hw : w.length = pub.records) :
    PubG.lossAndGrad PubG.marginalLossL2 ms (ms.map (fun M => M.proj)) pub w = Public.lossgradQuad (quadMs pub ms) w := by
  rw [(gen_lossAndGrad_is_measurement_loss pub ms w H hw).1, lossgradQuad_is_measurement_loss pub ms w H hw]

/-! ## the hypotheses are satisfiable -/

/-- the public dataset and measurement of C19G: three records over two binary attributes, the one-way marginal on `a` -/
theorem exPub_inDom : InDom exPub exMs := by
  refine ⟨by decide, ?_, ?_⟩
  · intro r hr
    simp only [exPub, List.mem_cons, List.not_mem_nil, or_false] at hr
    rcases hr with rfl | rfl | rfl <;> decide
  · intro m hm
    simp only [exMs, List.mem_cons, List.not_mem_nil, or_false] at hm
    subst hm
    decide

theorem exMs_noise_pos : ∀ m ∈ exMs, 0 < m.noise := by
  intro m hm
  simp only [exMs, List.mem_cons, List.not_mem_nil, or_false] at hm
  subst hm
  exact one_pos

example : InDom exPub exMs ∧ ([1, 1, 1] : List ℝ).length = exPub.records ∧ 0 < exPub.records ∧ (0 : ℝ) < 4 ∧
    (∀ m ∈ exMs, 0 < m.noise) ∧
    Total.LsmrOK Total.minNormSol (fun a b : List ℝ => decide (a = b)) (exMs.map measTuple) :=
  ⟨exPub_inDom, rfl, by decide, by norm_num, exMs_noise_pos,
    Total.LsmrOK.of_exact _ _ _ (fun _ _ => rfl) (fun _ _ => rfl)⟩

/-- the instance of the theorems on that dataset -/
example :
    let r := PubG.estimateGiven PubG.marginalLossL2 exPub (PubG.initWeights exPub) exMs 4 0
    r.2.length = 3 ∧ r.2.sum = 4 ∧ measLossL2 exPub exMs r.2 ≤ measLossL2 exPub exMs [4 / 3, 4 / 3, 4 / 3] ∧
    PubG.lossAndGrad PubG.marginalLossL2 exMs (exMs.map (fun M => M.proj)) exPub [1, 1, 1]
      = Public.lossgradQuad (quadMs exPub exMs) [1, 1, 1] := by
  have h := (gen_reweighting_never_worse_than_uniform exPub exMs 4 (by decide) (by norm_num) exMs_noise_pos).1
  refine ⟨h.2.2.2.1, h.2.2.2.2.2.1, ?_, gen_lossAndGrad_eq_lossgradQuad exPub exMs _ exPub_inDom rfl⟩
  have h7 := h.2.2.2.2.2.2
  have : (List.replicate exPub.records ((4 : ℝ) / exPub.records)) = [4 / 3, 4 / 3, 4 / 3] := by
    show List.replicate 3 ((4 : ℝ) / (3 : ℕ)) = _
    simp [List.replicate]
  rw [this] at h7
  exact h7

/-! ## a concrete run: the unit weights on the example dataset (Python: loss 0.5, gathered gradient `[-1, 0, -1]`) -/

theorem exPub_incidence : incidence exPub ["a"] = [[1, 0, 1], [0, 1, 0]] := by
  have hc : cells (exPub.dom.project ["a"]).shape = [[0], [1]] := by decide
  unfold incidence
  rw [hc]
  have r0 : cellOn exPub.dom ["a"] [0, 1] = [0] := by decide
  have r1 : cellOn exPub.dom ["a"] [1, 1] = [1] := by decide
  simp [exPub] at r0 r1 ⊢
  simp [r0, r1]

/-- the weighted table of the three unit-weight records on `a`: two records with `a = 0`, one with `a = 1` -/
theorem exPub_table : table exPub [1, 1, 1] ["a"] = [2, 1] := by
  have ht := table_eq_incidence_mul exPub exMs exPub_inDom [1, 1, 1] rfl _ (List.mem_singleton_self _)
  rw [ht, exPub_incidence]
  norm_num

/-- measured `[3, 1]`, tabulated `[2, 1]`: loss `½·(2−3)² = ½`; the two records with `a = 0` get the gradient `−1`, the
record with `a = 1` gets `0` — and that is what the generated closure returns -/
theorem exPub_closure_value :
    PubG.lossAndGrad PubG.marginalLossL2 exMs (exMs.map (fun M => M.proj)) exPub [1, 1, 1] = (1 / 2, [-1, 0, -1]) := by
  rw [(gen_lossAndGrad_is_measurement_loss exPub exMs [1, 1, 1] exPub_inDom rfl).1]
  have r0 : ravel (exPub.dom.project ["a"]).shape (cellOn exPub.dom ["a"] [0, 1]) = 0 := by decide
  have r1 : ravel (exPub.dom.project ["a"]).shape (cellOn exPub.dom ["a"] [1, 1]) = 1 := by decide
  apply Prod.ext
  · show measLossL2 exPub exMs [1, 1, 1] = 1 / 2
    unfold measLossL2
    simp only [exMs, List.map_cons, List.map_nil, List.sum_cons, List.sum_nil, exPub_table]
    norm_num [resid]
  · show measGrad (fun d => d) exPub exMs [1, 1, 1] = [-1, 0, -1]
    unfold measGrad
    simp only [exMs, List.map_cons, List.map_nil, List.sum_cons, List.sum_nil, exPub_table]
    simp only [exPub] at r0 r1 ⊢
    simp only [List.map_cons, List.map_nil, r0, r1]
    norm_num [tabGrad, resid, List.range_succ]

end PGM.C19E
