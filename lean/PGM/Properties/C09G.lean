import PGM.Generated.TotalG
import PGM.Proofs.TotalGen
import PGM.Properties.C09
import Mathlib.Algebra.Order.Field.Rat
/-!
# C09 (translator tie) — the three copies of the "estimate the total" block are the hand-written model

`PGM/Generated/TotalG.lean` is produced on every run by `tools/py2total.py` from the current source of

* `inference.py`        `FactoredInference._setup`, body of `if total is None:`   → `estimateTotal_inference`
* `local_inference.py`  `LocalInference._setup`,    body of `if total is None:`   → `estimateTotal_local`
* `public_inference.py` `estimate_total(measurements)`                            → `estimateTotal_public`

statement by statement (the loop with the two `np.append` accumulators is a `List.foldl` over the state
`(variances, estimates)`; `1.0 / variances`, `estimates / variances` are element-wise), parametrised by the two
numerical contracts `lsmrSolve` (what `lsmr(Q.T, ones, atol=0, btol=0, maxiter=10*max(Q.shape))[0]` returns for
`Q`; the translator checks these arguments) and `allclose`.

Each generated definition is proved equal to `Total.totalEstimate` (`PGM/Model/Total.lean`) — the definition the
C09 theorems are about — when `lsmrSolve` returns the minimum-norm least-squares solution as the model computes
it (`Q (QᵀQ)⁺ 1`; only required for the matrices that occur in the measurement list) and `allclose` is read
exactly.  So "unknown totals are the best linear estimate" is re-checked against what the three sources say now:
a semantic change of any copy breaks the translation or one of these equalities.

Assumptions on the scalars: a field with a linear order (`[Field K] [LinearOrder K]`; the order supplies the
decidable `=` and `<` the executable model asks for; no compatibility between order and arithmetic is needed for
the equalities).  `ℚ` is an instance (`example`s at the end).  A measurement is the Python tuple
`(Q, y, noise, proj)`, `Total.toMeas` forgets `proj`.
-/
namespace PGM.C09.TotalG
open PGM PGM.Total

section copies
variable {K : Type} [Add K] [Mul K] [Div K] [Zero K] [One K] [LT K] [DecidableRel (α := K) (· < ·)] {P : Type}

/-- the three copies of the block say the same thing — for all contracts, over the bare operations -/
theorem three_copies_agree (lsmrSolve : List (List K) → List K) (allclose : List K → List K → Bool)
    (ms : List (List (List K) × List K × K × P)) :
    PGM.TotalG.estimateTotal_inference lsmrSolve allclose ms = PGM.TotalG.estimateTotal_local lsmrSolve allclose ms ∧
    PGM.TotalG.estimateTotal_local lsmrSolve allclose ms = PGM.TotalG.estimateTotal_public lsmrSolve allclose ms :=
  ⟨rfl, rfl⟩

end copies

variable {K : Type} [Field K] [LinearOrder K] {P : Type}

/-- `inference.py`, `FactoredInference._setup`: the block is `Total.totalEstimate` -/
theorem gen_inference (lsmrSolve : List (List K) → List K) (allclose : List K → List K → Bool)
    (ms : List (List (List K) × List K × K × P))
    (hl : ∀ t ∈ ms, lsmrSolve t.1 = matVec t.1 (solve (gram t.1) (List.replicate (ncols t.1) 1)))
    (ha : ∀ a b, allclose a b = decide (a = b)) :
    PGM.TotalG.estimateTotal_inference lsmrSolve allclose ms = totalEstimate (ms.map toMeas) :=
  Total.blockOf_eq_totalEstimate lsmrSolve allclose ms hl ha

/-- `local_inference.py`, `LocalInference._setup`: the block is `Total.totalEstimate` -/
theorem gen_local (lsmrSolve : List (List K) → List K) (allclose : List K → List K → Bool)
    (ms : List (List (List K) × List K × K × P))
    (hl : ∀ t ∈ ms, lsmrSolve t.1 = matVec t.1 (solve (gram t.1) (List.replicate (ncols t.1) 1)))
    (ha : ∀ a b, allclose a b = decide (a = b)) :
    PGM.TotalG.estimateTotal_local lsmrSolve allclose ms = totalEstimate (ms.map toMeas) :=
  Total.blockOf_eq_totalEstimate lsmrSolve allclose ms hl ha

/-- `public_inference.py`, `estimate_total`: the function is `Total.totalEstimate` -/
theorem gen_public (lsmrSolve : List (List K) → List K) (allclose : List K → List K → Bool)
    (ms : List (List (List K) × List K × K × P))
    (hl : ∀ t ∈ ms, lsmrSolve t.1 = matVec t.1 (solve (gram t.1) (List.replicate (ncols t.1) 1)))
    (ha : ∀ a b, allclose a b = decide (a = b)) :
    PGM.TotalG.estimateTotal_public lsmrSolve allclose ms = totalEstimate (ms.map toMeas) :=
  Total.blockOf_eq_totalEstimate lsmrSolve allclose ms hl ha

/-- the same, read from the model's side: for a list of model records (any `proj` attached) and the contracts
instantiated by the model's own computations, all three copies compute `Total.totalOf none` -/
theorem gen_totalOf_none (meas : List (Meas K)) (proj : Meas K → P) :
    let ms := meas.map (fun m => (m.Q, m.y, m.noise, proj m))
    PGM.TotalG.estimateTotal_inference minNormSol (fun a b => decide (a = b)) ms = totalOf none meas ∧
    PGM.TotalG.estimateTotal_local minNormSol (fun a b => decide (a = b)) ms = totalOf none meas ∧
    PGM.TotalG.estimateTotal_public minNormSol (fun a b => decide (a = b)) ms = totalOf none meas :=
  ⟨Total.blockOf_of_meas meas proj, Total.blockOf_of_meas meas proj, Total.blockOf_of_meas meas proj⟩

/-- a C09 law transported to the sources: what any of the three copies estimates is at least 1 -/
theorem gen_total_ge_one [IsStrictOrderedRing K] (lsmrSolve : List (List K) → List K)
    (allclose : List K → List K → Bool) (ms : List (List (List K) × List K × K × P))
    (hl : ∀ t ∈ ms, lsmrSolve t.1 = matVec t.1 (solve (gram t.1) (List.replicate (ncols t.1) 1)))
    (ha : ∀ a b, allclose a b = decide (a = b)) :
    1 ≤ PGM.TotalG.estimateTotal_inference lsmrSolve allclose ms ∧
    1 ≤ PGM.TotalG.estimateTotal_local lsmrSolve allclose ms ∧
    1 ≤ PGM.TotalG.estimateTotal_public lsmrSolve allclose ms := by
  rw [gen_inference lsmrSolve allclose ms hl ha, gen_local lsmrSolve allclose ms hl ha,
    gen_public lsmrSolve allclose ms hl ha]
  exact ⟨C09.total_ge_one _, C09.total_ge_one _, C09.total_ge_one _⟩

/-! ## the hypotheses are satisfiable, and a concrete run over `ℚ`

Three measurements of a 2-cell histogram: the total query (σ = 1, answer 10), the identity (σ = 2, answers 3, 5)
and the single cell query `[1 0]`, which cannot express the count and is skipped.  Estimates 10 and 8 with variances
1 and 8: `(10/1 + 8/8) / (1/1 + 1/8) = 88/9`. -/

/-- three measurements `(Q, y, noise, proj)` over `ℚ` (`proj` = the attribute list) -/
def exMeas : List (List (List ℚ) × List ℚ × ℚ × List Nat) :=
  [([[1, 1]], [10], 1, [0]), ([[1, 0], [0, 1]], [3, 5], 2, [0]), ([[1, 0]], [4], 1, [0])]

/-- the contracts of `gen_inference` / `gen_local` / `gen_public` hold for the model's own solver and the exact test -/
example : (∀ t ∈ exMeas, (minNormSol : List (List ℚ) → List ℚ) t.1
      = matVec t.1 (solve (gram t.1) (List.replicate (ncols t.1) 1))) ∧
    (∀ a b : List ℚ, (fun a b => decide (a = b)) a b = decide (a = b)) :=
  ⟨fun _ _ => rfl, fun _ _ => rfl⟩

/-- all three generated definitions and the model evaluate to `88/9` on it (two measurements qualify, one does not) -/
example :
    PGM.TotalG.estimateTotal_inference minNormSol (fun a b => decide (a = b)) exMeas = 88 / 9 ∧
    PGM.TotalG.estimateTotal_local minNormSol (fun a b => decide (a = b)) exMeas = 88 / 9 ∧
    PGM.TotalG.estimateTotal_public minNormSol (fun a b => decide (a = b)) exMeas = 88 / 9 ∧
    totalEstimate (exMeas.map toMeas) = 88 / 9 ∧
    (estimates (exMeas.map toMeas)).length = 2 := by
  decide +kernel

/-- with a different reading of `lsmr` (here: the zero vector) the copies still agree with each other, but give `1` -/
example :
    PGM.TotalG.estimateTotal_inference (fun Q => Q.map (fun _ => (0 : ℚ))) (fun a b => decide (a = b)) exMeas = 1 := by
  decide +kernel

/-- `gen_total_ge_one` on the example (its hypotheses hold by `rfl`) -/
example : 1 ≤ PGM.TotalG.estimateTotal_public minNormSol (fun a b => decide (a = b)) exMeas :=
  (gen_total_ge_one minNormSol (fun a b => decide (a = b)) exMeas (fun _ _ => rfl) (fun _ _ => rfl)).2.2

/-! ## outside the contracts (recorded, not hidden)

* `noise = 0` for a qualifying measurement: the field convention `1/0 = 0` of the model (and of the generated
  definitions) drops that measurement from the combination, whereas numpy's `1.0/0 = inf`, `0*inf = nan`,
  `max(1, nan) = 1` makes Python return `1`.  Input `[([[1,1]], [10], 0), (I₂, [3,5], 1)]`: model and generated
  definitions give `8`, Python gives `1`.  (The C09 theorems about the estimate assume `0 < noise`.)
* `allclose` is a tolerance test (`|a-b| ≤ 1e-8 + 1e-5|b|`), the hypothesis `ha` reads it exactly: for
  `Q = [[1, 1.0000001]]`, `y = [10]`, `noise = 1` Python accepts the measurement (total ≈ 9.9999995), the exact
  reading rejects it (total `1`). -/

/-- the `noise = 0` input: the exact-field reading gives `8` (Python: `nan`, hence `1`) -/
example :
    PGM.TotalG.estimateTotal_public minNormSol (fun a b => decide (a = b))
      ([([[1, 1]], [10], 0, ()), ([[1, 0], [0, 1]], [3, 5], 1, ())] : List (List (List ℚ) × List ℚ × ℚ × Unit)) = 8 ∧
    totalEstimate ([⟨[[1, 1]], [10], 0⟩, ⟨[[1, 0], [0, 1]], [3, 5], 1⟩] : List (Meas ℚ)) = 8 ∧
    totalEstimate ([⟨[[1, 10000001 / 10000000]], [10], 1⟩] : List (Meas ℚ)) = 1 := by
  decide +kernel

end PGM.C09.TotalG
