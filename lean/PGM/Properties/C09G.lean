import PGM.Generated.TotalG
import PGM.Proofs.TotalGen
import PGM.Properties.C09
import Mathlib.Algebra.Order.Field.Rat
/-!
# C09 (translator tie) — the three copies of the "estimate the total" block are the hand-written model

`PGM/Generated/TotalG.lean` is produced on every run by `tools/py2total.py` from the current source of

* `inference.py`        `FactoredInference._setup`, body of `if total is None:`   → `estimateTotal_inference`
* `local_inference.py`  `LocalInference._setup`,    body of `if total is None:`   → `estimateTotal_local`
* `public_inference.py` `estimate_total(measurements)`                            → `estimateTotal_public`

statement by statement (the loop with the two `np.append` accumulators is a `List.foldl` over the state
`(variances, estimates)`; `1.0 / variances`, `estimates / variances` are element-wise), parametrised by the two
numerical contracts `lsmrSolve` (what `lsmr(Q.T, ones, atol=0, btol=0, maxiter=10*max(Q.shape))[0]` returns for
`Q`; the translator checks these arguments) and `allclose`.

Each generated definition is proved equal to `Total.totalEstimate` (`PGM/Model/Total.lean`) — the definition the
C09 theorems are about — under the numerical contract `Total.LsmrOK lsmrSolve allclose ms` (`Proofs/TotalGen.lean`),
which asks, for every query matrix `Q` of the measurement list and nothing else:

* if `Qᵀ v = 1` is consistent (`Total.qualifies Q`; by `qualifies_iff_consistent` below: the ones vector is in the row
  space of `Q`), `lsmrSolve Q` is the minimum-norm solution as the model computes it (`Q (QᵀQ)⁺ 1`) — what LSMR converges
  to from `x₀ = 0` in exact arithmetic — and `allclose ones ones = true`;
* if it is inconsistent (difference queries, a single cell query, `[[1, 2]]`, …), `allclose (Qᵀ·lsmrSolve Q) ones =
  false`: WHATEVER `lsmr` returns there fails the test.  Nothing is assumed about the returned vector: scipy returns the
  least-squares solution (`0.6` for `[[1, 2]]`), the model's formula gives `1`; both are rejected and the measurement
  is skipped, so the value is irrelevant.  (An earlier version of this file assumed `lsmrSolve Q = Q (QᵀQ)⁺ 1` for every
  `Q` of the list, which scipy's `lsmr` violates on inconsistent systems — `LsmrOK.of_exact` keeps it as a sufficient
  condition, `lsmrOK_exLS` is an instance it does not cover.)

`np.allclose` enters only through these two clauses; its reading as exact equality is no longer assumed (a tolerance test
satisfies `allclose ones ones`; for inconsistent systems the clause idealises "the residual of the least-squares
solution is above the tolerance", see "outside the contracts" at the end).  So "unknown totals are the best linear
estimate" is re-checked against what the three sources say now: a semantic change of any copy breaks the translation or
one of these equalities.

The noise scale: the equalities need NO hypothesis on `noise` — model and generated definitions form the same
`noise² ⟨v,v⟩`, `1/var`, `est/var` over the same field, whatever `1/0` is; `noise = 0` separates both from numpy and is
recorded at the end (the C09 optimality theorems assume `0 < noise`).

Assumptions on the scalars: a field with a linear order (`[Field K] [LinearOrder K]`; the order supplies the
decidable `=` and `<` the executable model asks for; no compatibility between order and arithmetic is needed for
the equalities).  `ℚ` is an instance (`example`s at the end).  A measurement is the Python tuple
`(Q, y, noise, proj)`, `Total.toMeas` forgets `proj`.
-/
namespace PGM.C09.TotalG
open PGM PGM.Total

section copies
variable {K : Type} [Add K] [Mul K] [Div K] [Zero K] [One K] [LT K] [DecidableRel (α := K) (· < ·)] {P : Type}

/-- the three copies of the block say the same thing — for all contracts, over the bare operations -/
theorem three_copies_agree (lsmrSolve : List (List K) → List K) (allclose : List K → List K → Bool)
    (ms : List (List (List K) × List K × K × P)) :
    PGM.TotalG.estimateTotal_inference lsmrSolve allclose ms = PGM.TotalG.estimateTotal_local lsmrSolve allclose ms ∧
    PGM.TotalG.estimateTotal_local lsmrSolve allclose ms = PGM.TotalG.estimateTotal_public lsmrSolve allclose ms :=
  ⟨rfl, rfl⟩

end copies

variable {K : Type} [Field K] [LinearOrder K] {P : Type}

/-- `inference.py`, `FactoredInference._setup`: the block is `Total.totalEstimate` -/
theorem gen_inference (lsmrSolve : List (List K) → List K) (allclose : List K → List K → Bool)
    (ms : List (List (List K) × List K × K × P)) (hl : LsmrOK lsmrSolve allclose ms) :
    PGM.TotalG.estimateTotal_inference lsmrSolve allclose ms = totalEstimate (ms.map toMeas) :=
  Total.blockOf_eq_totalEstimate lsmrSolve allclose ms hl

/-- `local_inference.py`, `LocalInference._setup`: the block is `Total.totalEstimate` -/
theorem gen_local (lsmrSolve : List (List K) → List K) (allclose : List K → List K → Bool)
    (ms : List (List (List K) × List K × K × P)) (hl : LsmrOK lsmrSolve allclose ms) :
    PGM.TotalG.estimateTotal_local lsmrSolve allclose ms = totalEstimate (ms.map toMeas) :=
  Total.blockOf_eq_totalEstimate lsmrSolve allclose ms hl

/-- `public_inference.py`, `estimate_total`: the function is `Total.totalEstimate` -/
theorem gen_public (lsmrSolve : List (List K) → List K) (allclose : List K → List K → Bool)
    (ms : List (List (List K) × List K × K × P)) (hl : LsmrOK lsmrSolve allclose ms) :
    PGM.TotalG.estimateTotal_public lsmrSolve allclose ms = totalEstimate (ms.map toMeas) :=
  Total.blockOf_eq_totalEstimate lsmrSolve allclose ms hl

/-- the same, read from the model's side: for a list of model records (any `proj` attached) and any `lsmr` /
`allclose` meeting the contract on it, all three copies compute `Total.totalOf none` -/
theorem gen_totalOf_none (lsmrSolve : List (List K) → List K) (allclose : List K → List K → Bool)
    (meas : List (Meas K)) (proj : Meas K → P)
    (hl : LsmrOK lsmrSolve allclose (meas.map (fun m => (m.Q, m.y, m.noise, proj m)))) :
    let ms := meas.map (fun m => (m.Q, m.y, m.noise, proj m))
    PGM.TotalG.estimateTotal_inference lsmrSolve allclose ms = totalOf none meas ∧
    PGM.TotalG.estimateTotal_local lsmrSolve allclose ms = totalOf none meas ∧
    PGM.TotalG.estimateTotal_public lsmrSolve allclose ms = totalOf none meas := by
  intro ms
  have hm : ms.map toMeas = meas := by
    simp only [ms, List.map_map]
    exact List.map_id' meas
  have h := gen_inference lsmrSolve allclose ms hl
  rw [hm] at h
  exact ⟨h, h, h⟩

/-- … in particular with the contracts instantiated by the model's own computations -/
theorem gen_totalOf_none_model (meas : List (Meas K)) (proj : Meas K → P) :
    let ms := meas.map (fun m => (m.Q, m.y, m.noise, proj m))
    PGM.TotalG.estimateTotal_inference minNormSol (fun a b => decide (a = b)) ms = totalOf none meas ∧
    PGM.TotalG.estimateTotal_local minNormSol (fun a b => decide (a = b)) ms = totalOf none meas ∧
    PGM.TotalG.estimateTotal_public minNormSol (fun a b => decide (a = b)) ms = totalOf none meas :=
  ⟨Total.blockOf_of_meas meas proj, Total.blockOf_of_meas meas proj, Total.blockOf_of_meas meas proj⟩

/-- a C09 law transported to the sources: what any of the three copies estimates is at least 1 -/
theorem gen_total_ge_one [IsStrictOrderedRing K] (lsmrSolve : List (List K) → List K)
    (allclose : List K → List K → Bool) (ms : List (List (List K) × List K × K × P))
    (hl : LsmrOK lsmrSolve allclose ms) :
    1 ≤ PGM.TotalG.estimateTotal_inference lsmrSolve allclose ms ∧
    1 ≤ PGM.TotalG.estimateTotal_local lsmrSolve allclose ms ∧
    1 ≤ PGM.TotalG.estimateTotal_public lsmrSolve allclose ms := by
  rw [gen_inference lsmrSolve allclose ms hl, gen_local lsmrSolve allclose ms hl,
    gen_public lsmrSolve allclose ms hl]
  exact ⟨C09.total_ge_one _, C09.total_ge_one _, C09.total_ge_one _⟩

/-! ## the contract in mathematical terms

`Total.qualifies` is the model's decision procedure (Gauss–Jordan + certificate); C09 proves it complete. -/

/-- `Total.qualifies Q` says that `Qᵀ v = 1` is consistent (rectangular non-empty `Q`, ordered field) -/
theorem qualifies_iff_consistent [IsStrictOrderedRing K] (Q : List (List K)) (hQ : Rect Q) (hne : Q ≠ []) :
    qualifies Q = true ↔ ∃ u : List K, u.length = Q.length ∧ matTVec Q u = List.replicate (ncols Q) 1 :=
  C09.qualifies_iff_rowspace Q hQ hne

/-- the contract stated without reference to the model's elimination: on consistent systems `lsmr` returns the
minimum-norm solution and the test accepts the exact right-hand side; on inconsistent ones the test fails -/
theorem lsmrOK_of_consistency [IsStrictOrderedRing K] (lsmrSolve : List (List K) → List K)
    (allclose : List K → List K → Bool) (ms : List (List (List K) × List K × K × P))
    (hrect : ∀ t ∈ ms, Rect t.1 ∧ t.1 ≠ [])
    (hc : ∀ t ∈ ms, (∃ u : List K, u.length = t.1.length ∧ matTVec t.1 u = List.replicate (ncols t.1) 1) →
      lsmrSolve t.1 = minNormSol t.1 ∧
      allclose (List.replicate (ncols t.1) 1) (List.replicate (ncols t.1) 1) = true)
    (hi : ∀ t ∈ ms, (¬ ∃ u : List K, u.length = t.1.length ∧ matTVec t.1 u = List.replicate (ncols t.1) 1) →
      allclose (matTVec t.1 (lsmrSolve t.1)) (List.replicate (ncols t.1) 1) = false) :
    LsmrOK lsmrSolve allclose ms := by
  refine ⟨fun t ht hq => ?_, fun t ht hq => ?_, fun t ht hq => ?_⟩
  · exact (hc t ht ((qualifies_iff_consistent t.1 (hrect t ht).1 (hrect t ht).2).mp hq)).1
  · refine hi t ht (fun h => ?_)
    rw [(qualifies_iff_consistent t.1 (hrect t ht).1 (hrect t ht).2).mpr h] at hq
    exact Bool.noConfusion hq
  · exact (hc t ht ((qualifies_iff_consistent t.1 (hrect t ht).1 (hrect t ht).2).mp hq)).2

/-! ## the hypotheses are satisfiable, and a concrete run over `ℚ`

Three measurements of a 2-cell histogram: the total query (σ = 1, answer 10), the identity (σ = 2, answers 3, 5)
and the single cell query `[1 0]`, which cannot express the count and is skipped.  Estimates 10 and 8 with variances
1 and 8: `(10/1 + 8/8) / (1/1 + 1/8) = 88/9`. -/

/-- three measurements `(Q, y, noise, proj)` over `ℚ` (`proj` = the attribute list) -/
def exMeas : List (List (List ℚ) × List ℚ × ℚ × List Nat) :=
  [([[1, 1]], [10], 1, [0]), ([[1, 0], [0, 1]], [3, 5], 2, [0]), ([[1, 0]], [4], 1, [0])]

/-- the contract of `gen_inference` / `gen_local` / `gen_public` holds for the model's own solver and the exact test -/
theorem lsmrOK_exMeas : LsmrOK minNormSol (fun a b : List ℚ => decide (a = b)) exMeas :=
  LsmrOK.of_exact _ _ _ (fun _ _ => rfl) (fun _ _ => rfl)

/-- all three generated definitions and the model evaluate to `88/9` on it (two measurements qualify, one does not) -/
example :
    PGM.TotalG.estimateTotal_inference minNormSol (fun a b => decide (a = b)) exMeas = 88 / 9 ∧
    PGM.TotalG.estimateTotal_local minNormSol (fun a b => decide (a = b)) exMeas = 88 / 9 ∧
    PGM.TotalG.estimateTotal_public minNormSol (fun a b => decide (a = b)) exMeas = 88 / 9 ∧
    totalEstimate (exMeas.map toMeas) = 88 / 9 ∧
    (estimates (exMeas.map toMeas)).length = 2 := by
  decide +kernel

/-- with a different reading of `lsmr` (here: the zero vector) the copies still agree with each other, but give `1` -/
example :
    PGM.TotalG.estimateTotal_inference (fun Q => Q.map (fun _ => (0 : ℚ))) (fun a b => decide (a = b)) exMeas = 1 := by
  decide +kernel

/-- `gen_total_ge_one` on the example (its hypotheses hold by `rfl`) -/
example : 1 ≤ PGM.TotalG.estimateTotal_public minNormSol (fun a b => decide (a = b)) exMeas :=
  (gen_total_ge_one minNormSol (fun a b => decide (a = b)) exMeas lsmrOK_exMeas).2.2

/-! ### a list with qualifying AND non-qualifying matrices, `lsmr` as scipy behaves, `allclose` as a tolerance test

The identity (σ = 2, answers 3, 5) qualifies; `[[1, 2]]` and the difference query `[[1, -1]]` do not: `Qᵀ v = 1` is
inconsistent and scipy's `lsmr` returns the least-squares solutions `3/5` resp. `0` — not the model's formula
`Q (QᵀQ)⁺ 1` (`1` for both); `Qᵀ·(3/5) = [3/5, 6/5]` is not close to `[1, 1]`.  `allclose` is numpy's
`|a − b| ≤ 1e-8 + 1e-5·|b|`, not exact equality.  The contract holds, the former hypothesis `hl` does not. -/

/-- `lsmr` as scipy behaves on the three matrices of `exLS`: least-squares solutions on the two inconsistent systems -/
def lsmrLS (Q : List (List ℚ)) : List ℚ :=
  if Q = [[1, 2]] then [3 / 5] else if Q = [[1, -1]] then [0] else minNormSol Q

/-- `np.allclose(a, b)` with the default tolerances, on lists of equal length -/
def allcloseTol (a b : List ℚ) : Bool :=
  a.length == b.length &&
    (List.zipWith (fun x y => decide (|x - y| ≤ 1 / 100000000 + 1 / 100000 * |y|)) a b).all id

def exLS : List (List (List ℚ) × List ℚ × ℚ × List Nat) :=
  [([[1, 0], [0, 1]], [3, 5], 2, [0]), ([[1, 2]], [7], 1, [0]), ([[1, -1]], [-2], 1, [0])]

/-- **the weakened contract is satisfiable where the old one is false**: `LsmrOK` holds for the scipy-like `lsmrLS`
and the tolerance test on a list with one consistent and two inconsistent systems … -/
theorem lsmrOK_exLS : LsmrOK lsmrLS allcloseTol exLS := by
  refine ⟨?_, ?_, ?_⟩ <;> intro t ht <;>
    simp only [exLS, List.mem_cons, List.not_mem_nil, or_false] at ht <;>
    rcases ht with rfl | rfl | rfl <;> decide +kernel

/-- … while `lsmrLS [[1, 2]] = [3/5]` is not the model's formula `[1]` (the old `hl` fails on this list), the first
matrix qualifies and the other two do not … -/
example : lsmrLS [[1, 2]] = [3 / 5] ∧ minNormSol ([[1, 2]] : List (List ℚ)) = [1] ∧
    exLS.map (fun t => qualifies t.1) = [true, false, false] ∧
    ¬ (∀ t ∈ exLS, lsmrLS t.1 = matVec t.1 (solve (gram t.1) (List.replicate (ncols t.1) 1))) := by
  refine ⟨by decide +kernel, by decide +kernel, by decide +kernel, fun h => ?_⟩
  have := h ([[1, 2]], [7], 1, [0]) (by simp [exLS])
  revert this
  decide +kernel

/-- … and the three copies compute the model's value on it: only the identity is used, `3 + 5 = 8` -/
example :
    PGM.TotalG.estimateTotal_public lsmrLS allcloseTol exLS = totalEstimate (exLS.map toMeas) ∧
    PGM.TotalG.estimateTotal_public lsmrLS allcloseTol exLS = 8 :=
  ⟨gen_public _ _ _ lsmrOK_exLS, by decide +kernel⟩

/-! ## outside the contracts (recorded, not hidden)

* `noise = 0` for a qualifying measurement: the field convention `1/0 = 0` of the model (and of the generated
  definitions) drops that measurement from the combination, whereas numpy's `1.0/0 = inf`, `0*inf = nan`,
  `max(1, nan) = 1` makes Python return `1`.  Input `[([[1,1]], [10], 0), (I₂, [3,5], 1)]`: model and generated
  definitions give `8`, Python gives `1`.  (The C09 theorems about the estimate assume `0 < noise`.)
* `allclose` is a tolerance test (`|a-b| ≤ 1e-8 + 1e-5|b|`); the clause `LsmrOK.inconsistent` asks it to reject
  EVERY inconsistent system, which the tolerance test does not do for nearly consistent ones: for
  `Q = [[1, 1.0000001]]`, `y = [10]`, `noise = 1` Python accepts the measurement (total ≈ 9.9999995), the model
  (exact test) rejects it (total `1`) — `LsmrOK` is false for that list with the real `allclose`.
* floating point: `lsmr` with `atol = btol = 0` stops at `maxiter` or at machine precision; `consistent` reads its
  result as the exact minimum-norm solution. -/

/-- the `noise = 0` input: the exact-field reading gives `8` (Python: `nan`, hence `1`) -/
example :
    PGM.TotalG.estimateTotal_public minNormSol (fun a b => decide (a = b))
      ([([[1, 1]], [10], 0, ()), ([[1, 0], [0, 1]], [3, 5], 1, ())] : List (List (List ℚ) × List ℚ × ℚ × Unit)) = 8 ∧
    totalEstimate ([⟨[[1, 1]], [10], 0⟩, ⟨[[1, 0], [0, 1]], [3, 5], 1⟩] : List (Meas ℚ)) = 8 ∧
    totalEstimate ([⟨[[1, 10000001 / 10000000]], [10], 1⟩] : List (Meas ℚ)) = 1 := by
  decide +kernel

end PGM.C09.TotalG
