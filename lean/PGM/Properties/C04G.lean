import PGM.Generated.InferenceG
import PGM.Proofs.InfGen
import PGM.Properties.C04B
/-!
# C04 (translator tie) — the regenerated reading of the estimation code of `src/mbi/inference.py` is the hand model

`PGM/Generated/InferenceG.lean` is produced on every run by `tools/py2inf.py` from the current source of
`class FactoredInference`: the grouping loop of `_setup`, `_marginal_loss` (metric L2 and L1), `_lipschitz`, and the
solvers `mirror_descent` (line search), `dual_averaging`, `interior_gradient`, statement by statement (dictionaries
updated by key, `for … in range(1, n+1)`, `break` as a `done` flag, Python's comparisons and `max`, Python ints).
Each generated definition is identified here with the definition of `PGM/Model/Loss.lean` / `PGM/Model/Solvers.lean`
that C03B / C04 / C04B / C08 are about, so those theorems are re-checked against what the source says now; a semantic
change of `inference.py` breaks the translation or one of these equalities.

Where the source and the model differ by more than the shape of the code, the difference is a stated hypothesis:

* `(mu.map Prod.fst).Nodup`, `cliques.Nodup` — a Python dict has distinct keys (`marginals`; `eigs` / `gbar` are built
  over `model.cliques`);
* `p.2.dom = d.project p.1` — the marginals are the model's (`Q.shape[1]` is `domain.size(proj)`, the model uses the
  size of `mu.project(proj).domain`);
* `TotalOrderLaw` — no `nan`: Python's `x == 0`, `x >= y` are false on `nan`, the model's `isZero`, `ge` are true
  (`md_nan_differs`, confirmed on the Python: with `y = [nan]` `mirror_descent` runs its iterations and sets
  `model.marginals`; the model returns at once);
* `MaxLaw` — Python's `max(eigs.values())` keeps the first of two incomparable values, the model's `Scalar.max`
  propagates `nan` (`lipschitz_nan_differs`, confirmed on the Python: noise `nan` on the second clique gives `1.0`);
* `DALaws`, `IGLaws` — `t+1`, `-t*(t+1)` are computed on Python ints and then converted, `2*c*l` is `(2*c)*l`;
* `interior_gradient` returns early when `L == 0`; the model has no such test (`ig_zero_differs`).

The laws are proved for the scalars the theorems about the model use, `PlainOf K` and `ℝ` (`laws_plain`, `laws_real`).
Proofs live in `PGM/Proofs/InfGen.lean`.
-/
namespace PGM.C04.InfG
open PGM PGM.JT PGM.Loss PGM.InfGen
variable {α : Type} [Scalar α]

/-! ## the grouping loop of `_setup` -/

/-- `self.groups[cl]` after the grouping loop: the measurements charged to `cl` by `groupOf`, in order -/
theorem gen_setupGroups (d : Dom) (cliques : List Clique) (meas : List (Meas α)) (cl : Clique) :
    InfG.dgetD (InfG.setupGroups d cliques meas) cl []
      = meas.filter (fun m => groupOf d cliques m.proj == some cl) :=
  InfGen.setupGroups_eq d cliques meas cl

/-- one measurement: the loop with its `break` files it under `groupOf` (or nowhere) -/
theorem gen_groupOf (d : Dom) (cliques : List Clique) (m : Meas α) :
    InfG.setupGroups d cliques [m]
      = match groupOf d cliques m.proj with
        | some c => [(c, [m])]
        | none => [] :=
  InfGen.setupGroups_single d cliques m

/-- `m1` (on `b`) fits both cliques of `ExL1` and is filed under the first by size (`["a","b"]`, a tie kept in order);
`m2` (on `b, c`) under `["b","c"]` -/
example : (InfG.dgetD (InfG.setupGroups ExL1.d ExL1.cliques ExL1.meas) ["a", "b"] []).map (·.proj) = [["b"]]
    ∧ (InfG.dgetD (InfG.setupGroups ExL1.d ExL1.cliques ExL1.meas) ["b", "c"] []).map (·.proj) = [["b", "c"]] := by
  decide

/-! ## `_marginal_loss` -/

/-- `_marginal_loss` (L2) is `marginalLoss`, for a dict of marginals laid out on the model's domain -/
theorem gen_marginalLossL2 (d : Dom) (cliques : List Clique) (meas : List (Meas α)) (mu : CliqueVec α)
    (hkeys : (mu.map Prod.fst).Nodup) (hdom : ∀ p ∈ mu, p.2.dom = d.project p.1) :
    InfG.marginalLossL2 d cliques meas mu = marginalLoss d cliques meas mu :=
  InfGen.gen_marginalLossL2 d cliques meas mu hkeys hdom

/-- `_marginal_loss` with `metric='L1'` is `marginalLossL1` -/
theorem gen_marginalLossL1 (d : Dom) (cliques : List Clique) (meas : List (Meas α)) (mu : CliqueVec α)
    (hkeys : (mu.map Prod.fst).Nodup) (hdom : ∀ p ∈ mu, p.2.dom = d.project p.1) :
    InfG.marginalLossL1 d cliques meas mu = marginalLossL1 d cliques meas mu :=
  InfGen.gen_marginalLossL1 d cliques meas mu hkeys hdom

section
variable {K : Type} [Field K] [LinearOrder K] [IsStrictOrderedRing K]

omit [IsStrictOrderedRing K] in
/-- the hypotheses of C04 / C04B (`VecOK`) give those of the two theorems above -/
theorem gen_marginalLoss_of_vecOK (d : Dom) (cliques : List Clique) (meas : List (Meas (PlainOf K)))
    (mu : CliqueVec (PlainOf K)) (hmu : VecOK d cliques mu) :
    InfG.marginalLossL2 d cliques meas mu = marginalLoss d cliques meas mu
      ∧ InfG.marginalLossL1 d cliques meas mu = marginalLossL1 d cliques meas mu :=
  ⟨gen_marginalLossL2 d cliques meas mu (hmu.keys ▸ hmu.cliques_nodup) (fun p hp => (hmu.tables p hp).2),
   gen_marginalLossL1 d cliques meas mu (hmu.keys ▸ hmu.cliques_nodup) (fun p hp => (hmu.tables p hp).2)⟩
end

/-- the hypotheses hold on the instance of C04B (two overlapping cliques, two measurements) -/
example : (ExL1.mu.map Prod.fst).Nodup ∧ ∀ p ∈ ExL1.mu, p.2.dom = ExL1.d.project p.1 := by decide

/-! ## `_lipschitz` -/

/-- `_lipschitz` is `lipschitz` (`topEigs` = the model's `eigs`) -/
theorem gen_lipschitz (hmax : MaxLaw α) (d : Dom) (cliques : List Clique) (hkeys : cliques.Nodup)
    (meas : List (Meas α)) (eigs : List α) :
    InfG.lipschitz d cliques meas eigs = lipschitz d cliques meas eigs :=
  InfGen.gen_lipschitz hmax d cliques hkeys meas eigs

example : MaxLaw (PlainOf ℚ) ∧ ExL1.cliques.Nodup := ⟨InfGen.plain_max, by decide⟩

/-! ## the solvers -/

/-- `mirror_descent` (line search) is `Solvers.mirrorDescent` started at `alpha0 = 1/total²` -/
theorem gen_mirrorDescent (hord : TotalOrderLaw α)
    (bp : CliqueVec α → CliqueVec α) (lossgrad : CliqueVec α → α × CliqueVec α)
    (iters : Nat) (theta0 : CliqueVec α) (total : α) :
    InfG.mirrorDescent bp lossgrad iters theta0 total
      = Solvers.mirrorDescent bp lossgrad iters theta0 (Scalar.div Scalar.one (Scalar.mul total total)) :=
  InfGen.gen_mirrorDescent hord bp lossgrad iters theta0 total

/-- the hypothesis is satisfiable (`laws_plain`, `laws_real` below give it for every ordered field and for `ℝ`) -/
example : TotalOrderLaw (PlainOf ℚ) := InfGen.plain_totalOrder

/-- `dual_averaging` is `Solvers.dualAveraging` (the model's `grad` is the second component of `_marginal_loss`) -/
theorem gen_dualAveraging (hord : TotalOrderLaw α) (iters : Nat) (hlaws : DALaws α iters)
    (bp : CliqueVec α → CliqueVec α) (lossgrad : CliqueVec α → α × CliqueVec α) (mleF : CliqueVec α → CliqueVec α)
    (d : Dom) (cliques : List Clique) (hkeys : cliques.Nodup) (zeros : CliqueVec α)
    (theta0 : CliqueVec α) (L total : α) :
    InfG.dualAveraging bp lossgrad mleF d cliques zeros iters theta0 L total
      = Solvers.dualAveraging bp (fun u => (lossgrad u).2) mleF d cliques zeros iters theta0 L total :=
  InfGen.gen_dualAveraging hord iters hlaws bp lossgrad mleF d cliques hkeys zeros theta0 L total

example : TotalOrderLaw (PlainOf ℚ) ∧ DALaws (PlainOf ℚ) 1000 ∧ ExL1.cliques.Nodup :=
  ⟨InfGen.plain_totalOrder, InfGen.plain_da 1000, by decide⟩

/-- `interior_gradient` is `Solvers.interiorGradient` when `L != 0` … -/
theorem gen_interiorGradient (hlaws : IGLaws α)
    (bp : CliqueVec α → CliqueVec α) (lossgrad : CliqueVec α → α × CliqueVec α) (mleF : CliqueVec α → CliqueVec α)
    (iters : Nat) (theta0 : CliqueVec α) (L total : α) (hL : InfG.eq0 L = false) :
    InfG.interiorGradient bp lossgrad mleF iters theta0 L total
      = Solvers.interiorGradient bp (fun y => (lossgrad y).2) mleF iters theta0 L total :=
  InfGen.gen_interiorGradient hlaws bp lossgrad mleF iters theta0 L total hL

/-- the hypotheses are satisfiable: the rationals, `L = 2` -/
example : IGLaws (PlainOf ℚ) ∧ InfG.eq0 (⟨2⟩ : PlainOf ℚ) = false := ⟨InfGen.plain_ig, by decide⟩

/-- … and returns at once, leaving the model untouched, when `L == 0` (the hand model has no such exit) -/
theorem gen_interiorGradient_zero
    (bp : CliqueVec α → CliqueVec α) (lossgrad : CliqueVec α → α × CliqueVec α) (mleF : CliqueVec α → CliqueVec α)
    (iters : Nat) (theta0 : CliqueVec α) (L total : α) (hL : InfG.eq0 L = true) :
    InfG.interiorGradient bp lossgrad mleF iters theta0 L total = ⟨theta0, none, none⟩ :=
  InfGen.gen_interiorGradient_zero bp lossgrad mleF iters theta0 L total hL

/-- Python's `x == 0` / `x >= y` are the model's `isZero` / `ge` on a total order -/
theorem gen_comparisons (hord : TotalOrderLaw α) (x y : α) :
    InfG.eq0 x = Solvers.isZero x ∧ InfG.geG x y = Solvers.ge x y :=
  ⟨InfGen.eq0_eq hord x, InfGen.geG_eq hord x y⟩

/-! ## the laws, for the scalars the theorems about the model use -/

section
variable {K : Type} [Field K] [LinearOrder K] [IsStrictOrderedRing K]

theorem laws_plain (iters : Nat) :
    TotalOrderLaw (PlainOf K) ∧ MaxLaw (PlainOf K) ∧ DALaws (PlainOf K) iters ∧ IGLaws (PlainOf K) :=
  ⟨InfGen.plain_totalOrder, InfGen.plain_max, InfGen.plain_da iters, InfGen.plain_ig⟩

theorem laws_real (iters : Nat) : TotalOrderLaw ℝ ∧ MaxLaw ℝ ∧ DALaws ℝ iters ∧ IGLaws ℝ :=
  ⟨InfGen.real_totalOrder, InfGen.real_max, InfGen.real_da iters, InfGen.real_ig⟩
end

/-- `L == 0` holds of `0` (the early exit is reachable) -/
example : InfG.eq0 (⟨0⟩ : PlainOf ℚ) = true := by decide

/-! ## where the model is not the source (extended rationals with `nan`) -/

/-- `nan == 0` is false in Python, `isZero nan` is true; `nan >= x` is false, `ge nan x` is true -/
theorem comparisons_nan_differ :
    InfG.eq0 ExtQ.nan = false ∧ Solvers.isZero ExtQ.nan = true
      ∧ InfG.geG ExtQ.nan (ExtQ.fin 0) = false ∧ Solvers.ge ExtQ.nan (ExtQ.fin 0) = true := by decide

/-- a loss that is `nan`: the source goes through its iterations and stores marginals, the model returns at once -/
theorem md_nan_differs :
    let lossgrad : CliqueVec ExtQ → ExtQ × CliqueVec ExtQ := fun _ => (ExtQ.nan, [])
    (InfG.mirrorDescent id lossgrad 1 [] (ExtQ.fin 1)).marginals.isSome = true
      ∧ (Solvers.mirrorDescent id lossgrad 1 [] (ExtQ.fin 1)).marginals.isSome = false := by
  decide

/-- `max` of `[1, nan]`: Python keeps `1`, the model's `maxL` gives `nan` -/
theorem lipschitz_nan_differs :
    let d : Dom := [("a", 2), ("b", 2)]
    let cliques : List Clique := [["a"], ["b"]]
    let meas : List (Meas ExtQ) :=
      [⟨[[ExtQ.fin 1, ExtQ.fin 0]], [ExtQ.fin 0], ExtQ.fin 1, ["a"]⟩,
       ⟨[[ExtQ.fin 1, ExtQ.fin 0]], [ExtQ.fin 0], ExtQ.nan, ["b"]⟩]
    InfG.lipschitz d cliques meas [ExtQ.fin 1, ExtQ.fin 1] = ExtQ.fin 1
      ∧ lipschitz d cliques meas [ExtQ.fin 1, ExtQ.fin 1] = ExtQ.nan := by
  decide +kernel

/-- the same at the level of the two maxima -/
theorem pyMax_nan_differs :
    InfG.pyMax [ExtQ.fin 1, ExtQ.nan] = ExtQ.fin 1 ∧ Scalar.maxL [ExtQ.fin 1, ExtQ.nan] = ExtQ.nan := by decide

/-- `L = 0`: the source returns with the marginals unset, the model runs (with `l = 1/0`) and stores marginals -/
theorem ig_zero_differs :
    (InfG.interiorGradient id (fun y => ((ExtQ.fin 0), y)) id 1 [] (ExtQ.fin 0) (ExtQ.fin 1)).marginals.isSome = false
      ∧ (Solvers.interiorGradient (α := ExtQ) id (fun y => y) id 1 [] (ExtQ.fin 0) (ExtQ.fin 1)).marginals.isSome = true := by
  decide

end PGM.C04.InfG
