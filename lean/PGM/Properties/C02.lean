import PGM.Model.GM
namespace PGM.C02
end PGM.C02
