import PGM.Proofs.VECorrect
import PGM.Proofs.QueryCorrect
import PGM.Proofs.BPCorrect
/-!
# C02 — every query path answers from one and the same joint distribution

Theorems about `PGM/Model/GM.lean` (transcription of `graphical_model.py`'s `project`,
`variable_elimination(_logspace)`), over any linearly ordered field `K`; `Sem.joint`, `Sem.partition`,
`Sem.marginal` are the explicit joint distribution of the specification (`PGM/Proofs/Semantics.lean`).
-/
namespace PGM.C02
open PGM PGM.JT PGM.GM PGM.Sem
variable {K : Type} [Field K] [LinearOrder K] [IsStrictOrderedRing K]

/-- **variable elimination computes the sum-product**, for any factor list and *any* duplicate-free
elimination order — so the answer does not depend on the order `greedy_order` picks -/
theorem ve_correct (d : Dom) (fs : List (Factor (PlainOf K))) (elim : List Attr) (σ : Attr → Nat)
    (hd : d.WF) (hfs : FactorsOK d fs) (hpre : preVE fs elim = true) (hnd : elim.Nodup)
    (hsub : ∀ a ∈ elim, a ∈ d.attrs) (hσ : d.Valid σ) :
    ((variableElimination fs elim).sem σ).v
      = sumOver d elim σ (fun τ => (fs.map (fun f => (f.sem τ).v)).prod) ∧
    (∀ a, a ∈ (variableElimination fs elim).dom.attrs ↔ (a ∉ elim ∧ ∃ f ∈ fs, a ∈ f.dom.attrs)) :=
  Sem.ve_correct d fs elim σ hd hfs hpre hnd hsub hσ

theorem veLogspace_correct (d : Dom) (fs : List (Factor (LogOf K))) (elim : List Attr)
    (total : LogOf K) (σ : Attr → Nat)
    (hd : d.WF) (hfs : FactorsOK d fs) (hpre : preVE fs elim = true) (hnd : elim.Nodup)
    (hsub : ∀ a ∈ elim, a ∈ d.attrs) (hcover : ∀ a ∈ d.attrs, ∃ f ∈ fs, a ∈ f.dom.attrs) (hσ : d.Valid σ)
    (hZ : sumOver d d.attrs (fun _ => 0) (fun τ => (fs.map (fun f => (f.sem τ).v)).prod) ≠ 0) :
    ((veLogspace fs elim total).sem σ).v
      = total.v * sumOver d elim σ (fun τ => (fs.map (fun f => (f.sem τ).v)).prod)
        / sumOver d d.attrs (fun _ => 0) (fun τ => (fs.map (fun f => (f.sem τ).v)).prod) :=
  Sem.veLogspace_correct d fs elim total σ hd hfs hpre hnd hsub hcover hσ hZ

/-- **`project` (no cache)**: the answer for any duplicate-free attribute tuple, in any order,
including empty and full, is `total · marginal / Z` laid out in the requested order -/
theorem project_correct (d : Dom) (pots : CliqueVec (LogOf K)) (total : LogOf K) (attrs : List Attr)
    (σ : Attr → Nat) (hd : d.WF) (hfs : FactorsOK d (pots.map Prod.snd))
    (hne : pots ≠ []) (hcover : ∀ a ∈ d.attrs, ∃ p ∈ pots, a ∈ p.2.dom.attrs)
    (hnd : attrs.Nodup) (hsub : ∀ a ∈ attrs, a ∈ d.attrs) (hσ : d.Valid σ)
    (hZ : partition d pots ≠ 0) :
    (GMproject d pots total attrs).dom.attrs = attrs ∧
    ((GMproject d pots total attrs).sem σ).v = total.v * marginal d pots attrs σ / partition d pots :=
  Sem.project_correct d pots total attrs σ hd hfs hne hcover hnd hsub hσ hZ

/-- every answer sums to the model total -/
theorem project_sums_to_total (d : Dom) (pots : CliqueVec (LogOf K)) (total : LogOf K) (attrs : List Attr)
    (hd : d.WF) (hnd : attrs.Nodup) (hsub : ∀ a ∈ attrs, a ∈ d.attrs) (hZ : partition d pots ≠ 0) :
    sumOver d attrs (fun _ => 0) (fun σ => total.v * marginal d pots attrs σ / partition d pots) = total.v :=
  Sem.project_sums_to_total d pots total attrs hd hnd hsub hZ

/-- any two answers agree on the attributes they share -/
theorem marginal_consistent (d : Dom) (pots : CliqueVec (LogOf K)) (as bs : List Attr) (σ : Attr → Nat)
    (hd : d.WF) (has : as.Nodup) (hbs : bs.Nodup) (hsub : ∀ a ∈ as, a ∈ d.attrs) (hbsub : ∀ b ∈ bs, b ∈ as)
    (hσ : d.Valid σ) :
    sumOver d (as.filter (fun a => !bs.contains a)) σ (marginal d pots as) = marginal d pots bs σ :=
  Sem.marginal_consistent d pots as bs σ hd has hbs hsub hbsub hσ

/-- **`datavector`**: the materialised vector lists `total · joint / Z` over all cells of the
domain in row-major order (every attribute of the domain occurs in some clique) -/
theorem datavector_correct (d : Dom) (cliques : List Clique) (pots : CliqueVec (LogOf K))
    (total : LogOf K) (hd : d.WF) (hfs : FactorsOK d (pots.map Prod.snd)) (hkeys : pots.map Prod.fst = cliques)
    (hnd : cliques.Nodup)
    (hne : cliques ≠ []) (hcover : ∀ a ∈ d.attrs, ∃ p ∈ pots, a ∈ p.2.dom.attrs)
    (hsizes : ∀ p ∈ d, 0 < p.2) (hZ : partition d pots ≠ 0) (idx : List Nat) (hidx : InRange d.shape idx) :
    (datavectorScale ((datavectorCore d cliques pots).vals.data.toList.map (fun x => (⟨x.v⟩ : PlainOf K)))
        ⟨1⟩ ⟨total.v⟩)[ravel d.shape idx]?
      = some ⟨joint pots (Dom.assign d.attrs idx) / partition d pots * 1 * total.v⟩ := by
  apply Sem.datavector_correct <;> assumption

/-- **`krondot`**: entry `(r₁,…,r_k)` of the answer is
`Σ_x (Π_i Qᵢ[rᵢ, xᵢ]) · total · joint(x) / Z` — the Kronecker-product query applied to the joint.
`expPots` are the exponentiated potentials, `mats[i] = (rows, flat entries)` for attribute `i`. -/
theorem krondot_correct (d : Dom) (pots : CliqueVec (LogOf K)) (mats : List (Nat × List (PlainOf K)))
    (total z : PlainOf K) (hd : d.WF) (hfs : FactorsOK d (pots.map Prod.snd)) (hne : pots ≠ [])
    (hcover : ∀ a ∈ d.attrs, ∃ p ∈ pots, a ∈ p.2.dom.attrs)
    (hfresh : ∀ a ∈ d.attrs, (a ++ "-answer") ∉ d.attrs)
    (hinj : ∀ a ∈ d.attrs, ∀ b ∈ d.attrs, a ++ "-answer" = b ++ "-answer" → a = b)
    (hlen : mats.length = d.length)
    (hshape : ∀ i (hi : i < mats.length), (mats[i]).2.length = (mats[i]).1 * (d.shape.getD i 0))
    (hsizes : ∀ p ∈ d, 0 < p.2) (hz : z.v = partition d pots)
    (ridx : List Nat) (hr : InRange (mats.map (·.1)) ridx) :
    ((krondot d (pots.map (fun p => toPlain p.2.exp)) mats total z).get ridx).v
      = sumOver d d.attrs (fun _ => 0) (fun τ =>
          ((List.range d.length).map (fun i =>
            (((mats.getD i (0, [])).2).getD (ridx.getD i 0 * d.shape.getD i 0 + τ (d.attrs.getD i "")) ⟨0⟩).v)).prod
          * joint pots τ) * total.v / partition d pots := by
  apply Sem.krondot_correct <;> assumption

/-- **`calculate_many_marginals`** (Koller–Friedman §10.3 out-of-clique queries): on a valid
junction tree with calibrated clique marginals (`hcal`: each stored table is `s ·` the joint's
marginal — what `belief_propagation` returns, `s = total/Z`) and a correct fallback, every answer is
`s ·` the joint's marginal onto the requested tuple, laid out in the requested order. -/
theorem manyMarginals_correct (d : Dom) (cliques : List Clique) (t : Tree) (order : List (Clique × Clique))
    (pots : CliqueVec (LogOf K)) (marg : CliqueVec (PlainOf K)) (s : K)
    (fallback : List Attr → Factor (PlainOf K)) (projections : List (List Attr))
    (hok : ModelOK d cliques t order pots)
    (hkeys : marg.map Prod.fst = cliques)
    (hwf : ∀ p ∈ marg, p.2.WF ∧ p.2.dom.attrs.Perm p.1 ∧ p.2.dom.Agrees d)
    (hcal : ∀ c ∈ cliques, ∀ σ, d.Valid σ → ((marg.get c).sem σ).v = s * marginal d pots c σ)
    (hnonneg : ∀ p ∈ marg, ∀ x ∈ p.2.vals.data.toList, 0 ≤ x.v)
    (hfb : ∀ proj ∈ projections, ∀ σ, d.Valid σ →
      (fallback proj).dom.attrs = proj ∧ ((fallback proj).sem σ).v = s * marginal d pots proj σ)
    (hproj : ∀ proj ∈ projections, proj.Nodup ∧ ∀ a ∈ proj, a ∈ d.attrs)
    (e : List Attr × Factor (PlainOf K)) (he : e ∈ manyMarginals d cliques t marg fallback projections)
    (σ : Attr → Nat) (hσ : d.Valid σ) :
    e.2.dom.attrs = e.1 ∧ (e.2.sem σ).v = s * marginal d pots e.1 σ := by
  apply Sem.manyMarginals_correct <;> assumption

end PGM.C02
