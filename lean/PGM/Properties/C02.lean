import PGM.Proofs.VECorrect
/-!
# C02 — every query path answers from one and the same joint distribution

Theorems about `PGM/Model/GM.lean` (transcription of `graphical_model.py`'s `project`,
`variable_elimination(_logspace)`), over any linearly ordered field `K`; `Sem.joint`, `Sem.partition`,
`Sem.marginal` are the explicit joint distribution of the specification (`PGM/Proofs/Semantics.lean`).
-/
namespace PGM.C02
open PGM PGM.JT PGM.GM PGM.Sem
variable {K : Type} [Field K] [LinearOrder K] [IsStrictOrderedRing K]

/-- **variable elimination computes the sum-product**, for any factor list and *any* duplicate-free
elimination order — so the answer does not depend on the order `greedy_order` picks -/
theorem ve_correct (d : Dom) (fs : List (Factor (PlainOf K))) (elim : List Attr) (σ : Attr → Nat)
    (hd : d.WF) (hfs : FactorsOK d fs) (hpre : preVE fs elim = true) (hnd : elim.Nodup)
    (hsub : ∀ a ∈ elim, a ∈ d.attrs) (hσ : d.Valid σ) :
    ((variableElimination fs elim).sem σ).v
      = sumOver d elim σ (fun τ => (fs.map (fun f => (f.sem τ).v)).prod) ∧
    (∀ a, a ∈ (variableElimination fs elim).dom.attrs ↔ (a ∉ elim ∧ ∃ f ∈ fs, a ∈ f.dom.attrs)) :=
  Sem.ve_correct d fs elim σ hd hfs hpre hnd hsub hσ

theorem veLogspace_correct (d : Dom) (fs : List (Factor (LogOf K))) (elim : List Attr)
    (total : LogOf K) (σ : Attr → Nat)
    (hd : d.WF) (hfs : FactorsOK d fs) (hpre : preVE fs elim = true) (hnd : elim.Nodup)
    (hsub : ∀ a ∈ elim, a ∈ d.attrs) (hcover : ∀ a ∈ d.attrs, ∃ f ∈ fs, a ∈ f.dom.attrs) (hσ : d.Valid σ)
    (hZ : sumOver d d.attrs (fun _ => 0) (fun τ => (fs.map (fun f => (f.sem τ).v)).prod) ≠ 0) :
    ((veLogspace fs elim total).sem σ).v
      = total.v * sumOver d elim σ (fun τ => (fs.map (fun f => (f.sem τ).v)).prod)
        / sumOver d d.attrs (fun _ => 0) (fun τ => (fs.map (fun f => (f.sem τ).v)).prod) :=
  Sem.veLogspace_correct d fs elim total σ hd hfs hpre hnd hsub hcover hσ hZ

/-- **`project` (no cache)**: the answer for any duplicate-free attribute tuple, in any order,
including empty and full, is `total · marginal / Z` laid out in the requested order -/
theorem project_correct (d : Dom) (pots : CliqueVec (LogOf K)) (total : LogOf K) (attrs : List Attr)
    (σ : Attr → Nat) (hd : d.WF) (hfs : FactorsOK d (pots.map Prod.snd))
    (hne : pots ≠ []) (hcover : ∀ a ∈ d.attrs, ∃ p ∈ pots, a ∈ p.2.dom.attrs)
    (hnd : attrs.Nodup) (hsub : ∀ a ∈ attrs, a ∈ d.attrs) (hσ : d.Valid σ)
    (hZ : partition d pots ≠ 0) :
    (GMproject d pots total attrs).dom.attrs = attrs ∧
    ((GMproject d pots total attrs).sem σ).v = total.v * marginal d pots attrs σ / partition d pots :=
  Sem.project_correct d pots total attrs σ hd hfs hne hcover hnd hsub hσ hZ

/-- every answer sums to the model total -/
theorem project_sums_to_total (d : Dom) (pots : CliqueVec (LogOf K)) (total : LogOf K) (attrs : List Attr)
    (hd : d.WF) (hnd : attrs.Nodup) (hsub : ∀ a ∈ attrs, a ∈ d.attrs) (hZ : partition d pots ≠ 0) :
    sumOver d attrs (fun _ => 0) (fun σ => total.v * marginal d pots attrs σ / partition d pots) = total.v :=
  Sem.project_sums_to_total d pots total attrs hd hnd hsub hZ

/-- any two answers agree on the attributes they share -/
theorem marginal_consistent (d : Dom) (pots : CliqueVec (LogOf K)) (as bs : List Attr) (σ : Attr → Nat)
    (hd : d.WF) (has : as.Nodup) (hbs : bs.Nodup) (hsub : ∀ a ∈ as, a ∈ d.attrs) (hbsub : ∀ b ∈ bs, b ∈ as)
    (hσ : d.Valid σ) :
    sumOver d (as.filter (fun a => !bs.contains a)) σ (marginal d pots as) = marginal d pots bs σ :=
  Sem.marginal_consistent d pots as bs σ hd has hbs hsub hbsub hσ

end PGM.C02
