import PGM.Properties.C05
import PGM.Proofs.AdaGridSens
import PGM.Proofs.AdaGridSensApply
import PGM.Proofs.AdaGridSensBuilt
/-!
# C05 (continued) — Adaptive Grid: "Q has sensitivity 1 by construction"

`mechanisms/adaptive_grid.py:112-178, 287-348`: for a clique `cl` the mechanism releases
`Q @ mu + N(0, σ²)` with `Q = vstack([Q1', Q2])` (`PGM/Model/AdaGrid.lean: query`), and calibrates `σ`
for L2 sensitivity 1.  Below: the squared column norms (`colSq`) of every building block, the bound
`colSq Q j ≤ 1` for every column of every query matrix the mechanism can build — whatever the noisy,
data-dependent selections `sel` were — and the reading of `colSq` as the squared L2 change of the
released statistic when one record is added or removed.

Definitions used (in `PGM/Proofs/AdaGridSens*.lean`):
* `col M j`      — column `j` of `M` (`M.map (·.getD j 0)`);
* `sqDist a b`   — `Σ_i (a_i − b_i)²`;
* `Built Q`      — `Q = query n sel coef children` with `coef² · #children ≤ 1`, every child matrix
                   itself `Built`, every projection `σ` of length `n`; `sel`, `σ` arbitrary;
* `History h`    — the values of the dictionary `matrices` in insertion order: each new matrix is a
                   `query` whose children are among the matrices stored before.
-/
namespace PGM.C05
open PGM PGM.AdaGrid PGM.AdaGridSens

/-! ### 1. `kron(ones, Q_c) @ P` -/

/-- column `j` of the lifted matrix is column `σ[j]` of the child's matrix -/
theorem colSq_lift (Qc : Mat ℝ) (σ : List ℕ) (j : ℕ) (hj : j < σ.length) :
    colSq (lift Qc σ) j = colSq Qc (σ.getD j 0) :=
  AdaGridSens.colSq_lift Qc σ j hj

example : (2 : ℕ) < ([1, 0, 1] : List ℕ).length := by decide
/-- a 2×2 child lifted to 3 cells: column 2 is the child's column 1, squared norm `2² + 4² = 20` -/
example : colSq (lift ([[1, 2], [3, 4]] : Mat ℝ) [1, 0, 1]) 2 = 20 := by
  rw [colSq_lift _ _ _ (by decide), colSq_eq]; norm_num

/-! ### 2. `get_aggregate` -/

/-- `coef² · Σ_{c ∈ children} ‖column σ_c[j] of Q_c‖²` -/
theorem colSq_aggregate (coef : ℝ) (children : List (Mat ℝ × List ℕ)) (j : ℕ)
    (hj : ∀ c ∈ children, j < c.2.length) :
    colSq (aggregate coef children) j
      = coef ^ 2 * (children.map (fun c => colSq c.1 (c.2.getD j 0))).sum :=
  AdaGridSens.colSq_aggregate coef children j hj

/-- two children, `coef = 1/2`: `(1/4)·(2² + 3²)` -/
example : colSq (aggregate (1 / 2 : ℝ)
    [(([[1, 2]] : Mat ℝ), [1, 0]), (([[3, 0], [0, 5]] : Mat ℝ), [0, 1])]) 0 = 13 / 4 := by
  rw [colSq_aggregate _ _ _ (by simp)]
  simp only [List.map_cons, List.map_nil, colSq_eq]
  norm_num

/-! ### 3. `Q = vstack([Q1', Q2])` -/

/-- a selected cell gets a unit column; the others keep the aggregate's column.  Only `j < n` is
needed: no hypothesis on the shapes of the children or on `sel` (duplicates / out-of-range entries
in `sel` are harmless). -/
theorem colSq_query (n : ℕ) (sel : List ℕ) (coef : ℝ) (children : List (Mat ℝ × List ℕ))
    (j : ℕ) (hj : j < n) :
    colSq (query n sel coef children) j
      = if j ∈ sel then 1 else colSq (aggregate coef children) j :=
  AdaGridSens.colSq_query n sel coef children j hj

/-- beyond the clique's `n` cells the query matrix has no columns -/
theorem colSq_query_of_le (n : ℕ) (sel : List ℕ) (coef : ℝ) (children : List (Mat ℝ × List ℕ))
    (j : ℕ) (hj : n ≤ j) : colSq (query n sel coef children) j = 0 := by
  rw [AdaGridSens.colSq_query_all, if_neg (Nat.not_lt.mpr hj)]

example : colSq (query 2 [1, 1, 7] (1 / 2 : ℝ) [(([[1, 2]] : Mat ℝ), [1, 0])]) 1 = 1 := by
  rw [colSq_query _ _ _ _ _ (by decide), if_pos (by simp)]
example : colSq (query 2 [1, 1, 7] (1 / 2 : ℝ) [(([[1, 2]] : Mat ℝ), [1, 0])]) 0 = 1 := by
  rw [colSq_query _ _ _ _ _ (by decide), if_neg (by simp), colSq_aggregate _ _ _ (by simp)]
  simp only [List.map_cons, List.map_nil, colSq_eq]
  norm_num

/-! ### 4. sensitivity of one query matrix -/

/-- **if the children have column norms ≤ 1 and `coef² · #children ≤ 1`, so has the query** -/
theorem query_sensitivity_le_one (n : ℕ) (sel : List ℕ) (coef : ℝ)
    (children : List (Mat ℝ × List ℕ))
    (hch : ∀ c ∈ children, ∀ i, colSq c.1 i ≤ 1)
    (hcoef : coef ^ 2 * (children.length : ℝ) ≤ 1)
    (hσ : ∀ c ∈ children, c.2.length = n) :
    ∀ j, j < n → colSq (query n sel coef children) j ≤ 1 :=
  AdaGridSens.query_sensitivity_le_one n sel coef children hch hcoef hσ

/-- stronger: every column index, no shape hypothesis on the projections -/
theorem query_sensitivity_le_one_all (n : ℕ) (sel : List ℕ) (coef : ℝ)
    (children : List (Mat ℝ × List ℕ))
    (hch : ∀ c ∈ children, ∀ i, colSq c.1 i ≤ 1)
    (hcoef : coef ^ 2 * (children.length : ℝ) ≤ 1) :
    ∀ j, colSq (query n sel coef children) j ≤ 1 :=
  AdaGridSens.query_colSq_le_one n sel coef children hch hcoef

/-- the mechanism's coefficient `1/sqrt(len(children))` is admissible for every number of children -/
theorem coef_inv_sqrt (k : ℕ) : (1 / Real.sqrt k) ^ 2 * (k : ℝ) ≤ 1 :=
  AdaGridSens.coef_inv_sqrt k

example : (1 / Real.sqrt ((0 : ℕ) : ℝ)) ^ 2 * ((0 : ℕ) : ℝ) = 0 := by simp
example : (1 / Real.sqrt ((3 : ℕ) : ℝ)) ^ 2 * ((3 : ℕ) : ℝ) = 1 :=
  AdaGridSens.coef_inv_sqrt_eq 3 (by decide)

/-- the hypotheses of `query_sensitivity_le_one` hold for two identity children and `coef² = 1/2` -/
example : (∀ c ∈ [(([[1, 0], [0, 1]] : Mat ℝ), [0, 0, 1, 1]), (([[1, 0], [0, 1]] : Mat ℝ), [0, 1, 0, 1])],
      ∀ i, colSq c.1 i ≤ 1)
    ∧ (1 / Real.sqrt ((2 : ℕ) : ℝ)) ^ 2 * (([(([[1, 0], [0, 1]] : Mat ℝ), [0, 0, 1, 1]),
        (([[1, 0], [0, 1]] : Mat ℝ), [0, 1, 0, 1])].length : ℕ) : ℝ) ≤ 1
    ∧ (∀ c ∈ [(([[1, 0], [0, 1]] : Mat ℝ), [0, 0, 1, 1]), (([[1, 0], [0, 1]] : Mat ℝ), [0, 1, 0, 1])],
      c.2.length = 4) := by
  refine ⟨?_, coef_inv_sqrt 2, ?_⟩
  · intro c hc i
    have h : ∀ i, colSq ([[1, 0], [0, 1]] : Mat ℝ) i ≤ 1 := by
      intro i
      rw [colSq_eq]
      rcases i with _ | _ | i <;> simp
    simp only [List.mem_cons, List.not_mem_nil, or_false] at hc
    rcases hc with rfl | rfl <;> exact h i
  · intro c hc
    simp only [List.mem_cons, List.not_mem_nil, or_false] at hc
    rcases hc with rfl | rfl <;> rfl

/-! ### 5. one record changes `Q @ mu` by one column of `Q` -/

/-- adding one record to cell `j` changes `Q @ mu` by exactly column `j` of `Q` (rows of any length) -/
theorem apply_add_unit (M : Mat ℝ) (mu : List ℝ) (j : ℕ) (hj : j < mu.length) :
    AdaGrid.apply M (mu.set j (mu.getD j 0 + 1))
      = List.zipWith (· + ·) (AdaGrid.apply M mu) (col M j) :=
  AdaGridSens.apply_add_unit M mu j hj

/-- the squared L2 change of the released statistic is the squared column norm (record added) -/
theorem sqDist_apply_add_unit (M : Mat ℝ) (mu : List ℝ) (j : ℕ) (hj : j < mu.length) :
    sqDist (AdaGrid.apply M (mu.set j (mu.getD j 0 + 1))) (AdaGrid.apply M mu) = colSq M j :=
  AdaGridSens.sqDist_apply_add_unit M mu j hj

/-- … and when a record is removed -/
theorem sqDist_apply_sub_unit (M : Mat ℝ) (mu : List ℝ) (j : ℕ) (hj : j < mu.length) :
    sqDist (AdaGrid.apply M (mu.set j (mu.getD j 0 - 1))) (AdaGrid.apply M mu) = colSq M j :=
  AdaGridSens.sqDist_apply_sub_unit M mu j hj

/-- any change `mu[j] := v`: squared L2 change `(v − mu[j])² · colSq M j` -/
theorem sqDist_apply_set (M : Mat ℝ) (mu : List ℝ) (j : ℕ) (v : ℝ) (hj : j < mu.length) :
    sqDist (AdaGrid.apply M (mu.set j v)) (AdaGrid.apply M mu)
      = (v - mu.getD j 0) ^ 2 * colSq M j :=
  AdaGridSens.sqDist_apply_set M mu j v hj

example : AdaGrid.apply ([[1, 2], [3, 4]] : Mat ℝ) [5, 6] = [17, 39] := by
  rw [apply_eq]; norm_num [dot]
example : AdaGrid.apply ([[1, 2], [3, 4]] : Mat ℝ) (([5, 6] : List ℝ).set 1 (([5, 6] : List ℝ).getD 1 0 + 1))
    = [17 + 2, 39 + 4] := by
  rw [apply_add_unit _ _ _ (by decide), apply_eq]; norm_num [dot, col]

/-- zCDP cost of the Gaussian release under add/remove-one adjacency -/
theorem release_cost_le (M : Mat ℝ) (j : ℕ) (sigma : ℝ) (hσ : 0 < sigma) (h : colSq M j ≤ 1) :
    colSq M j / (2 * sigma ^ 2) ≤ 1 / (2 * sigma ^ 2) :=
  AdaGridSens.release_cost_le M j sigma hσ h

/-- in the charging rule of `C05`: true L2 change `Δ = sqrt(colSq M j)` never costs more than the
`Δ = 1` the noise scale is calibrated for -/
theorem release_gaussCost_le (M : Mat ℝ) (j : ℕ) (sigma : ℝ) (hσ : 0 < sigma) (h : colSq M j ≤ 1) :
    gaussCost (Real.sqrt (colSq M j)) sigma ≤ gaussCost 1 sigma := by
  unfold gaussCost
  rw [Real.sq_sqrt (AdaGridSens.colSq_nonneg M j), one_pow]
  exact AdaGridSens.release_cost_le M j sigma hσ h

example : (0 : ℝ) < 3 ∧ colSq ([[1, 0], [0, 1]] : Mat ℝ) 0 ≤ 1 := by
  constructor
  · norm_num
  · rw [colSq_eq]; norm_num

/-! ### 6. the induction over the mechanism's history -/

/-- **every query matrix adagrid can build has all column norms ≤ 1**, whatever the selections -/
theorem adagrid_queries_sensitivity {Q : Mat ℝ} (h : Built Q) : ∀ j, colSq Q j ≤ 1 :=
  AdaGridSens.built_colSq_le_one h

/-- the same over the dictionary `matrices`: every matrix ever stored and measured -/
theorem adagrid_history_sensitivity {hist : List (Mat ℝ)} (h : History hist) :
    ∀ Q ∈ hist, ∀ j, colSq Q j ≤ 1 :=
  AdaGridSens.history_colSq_le_one h

/-- hence each of its Gaussian releases costs at most `1/(2σ²)` zCDP per added/removed record -/
theorem adagrid_release_cost {Q : Mat ℝ} (h : Built Q) (mu : List ℝ) (j : ℕ) (hj : j < mu.length)
    (sigma : ℝ) (hσ : 0 < sigma) :
    sqDist (AdaGrid.apply Q (mu.set j (mu.getD j 0 + 1))) (AdaGrid.apply Q mu) / (2 * sigma ^ 2)
      ≤ 1 / (2 * sigma ^ 2) := by
  rw [sqDist_apply_add_unit Q mu j hj]
  exact release_cost_le Q j sigma hσ (adagrid_queries_sensitivity h j)

/-- the steps of the construction with the mechanism's coefficient -/
theorem built_step (n : ℕ) (sel : List ℕ) (children : List (Mat ℝ × List ℕ))
    (hch : ∀ c ∈ children, Built c.1) (hσ : ∀ c ∈ children, c.2.length = n) :
    Built (query n sel (1 / Real.sqrt children.length) children) :=
  Built.step n sel children hch hσ

/-- 2-level instance: one-way cliques `(a)` (cell 0 selected), `(b)` (both cells selected), then the
two-way clique `(a,b)` with cell `00` selected, children lifted along `x ↦ x_a`, `x ↦ x_b`,
`coef = 1/√2` -/
example : Built exAB := exAB_built
example : History [exA, exB, exAB] := ex_history
example : ∀ j, colSq exAB j ≤ 1 := adagrid_queries_sensitivity exAB_built
/-- and the bound is not attained trivially: column `11` has squared norm exactly `1/2` -/
example : colSq exAB 3 = 1 / 2 := exAB_col3

end PGM.C05
