import PGM.Proofs.BPCorrect
import PGM.Proofs.SumOver
import PGM.Proofs.VEFactor
/-!
# C01 — exact inference returns the true marginals of the product distribution

Theorems about `PGM/Model/GM.lean` (`bpLoop`, `logZ`, `beliefPropagation`: the transcription of
`graphical_model.py:148-176` over the factor model), instantiated at `LogOf K` for any linearly
ordered field `K` (the exp-space image of the log-space code).  `ModelOK` bundles the hypotheses:
a junction tree accepted by the verified `checkJT` (C12) with any schedule it accepts, one
nonnegative potential table per node over that node's attributes in any order.
-/
namespace PGM.C01
open PGM PGM.JT PGM.GM PGM.Sem
variable {K : Type} [Field K] [LinearOrder K] [IsStrictOrderedRing K]

/-- the log-partition value computed from the first clique's belief is the partition function -/
theorem logZ_correct (d : Dom) (cliques : List Clique) (t : Tree) (order : List (Clique × Clique))
    (pots : CliqueVec (LogOf K)) (hok : ModelOK d cliques t order pots) :
    (logZ cliques order pots).v = partition d pots :=
  Sem.BP.logZ_correct d cliques t order pots hok

/-- **exact inference is exact**: for every junction tree, every accepted message schedule, every
nonnegative potential (zeros = `-∞` included) and every POSITIVE total, each returned clique table is
`total · marginal / Z` of the product of the potentials.

`0 < total` is the property's "any positive total" and the range in which the model reads the code: the source computes
`np.log(total)`, which is `nan` for a negative total, whereas at `LogOf K` (`log := id` on the exp-space carrier) the
identity below is plain field algebra and holds for EVERY `total : K` (`Sem.BP.bp_marginals`, no sign hypothesis — a
negative total gives negative "marginals" there).  The hypothesis is therefore not used by the proof; it restricts the
statement to the inputs on which it is a statement about the code. -/
theorem bp_marginals (d : Dom) (cliques : List Clique) (t : Tree) (order : List (Clique × Clique))
    (pots : CliqueVec (LogOf K)) (hok : ModelOK d cliques t order pots) (total : LogOf K)
    (hZ : partition d pots ≠ 0) (_htot : 0 < total.v) (c : Clique) (hc : c ∈ cliques) (σ : Attr → Nat) (hσ : d.Valid σ) :
    ((beliefPropagation cliques order pots total).get c).dom.attrs = (pots.get c).dom.attrs ∧
    (((beliefPropagation cliques order pots total).get c).sem σ).v
      = total.v * marginal d pots c σ / partition d pots :=
  Sem.BP.bp_marginals d cliques t order pots hok total hZ c hc σ hσ

/-- **schedule independence**: any two dependency-respecting message orders give the same tables (positive total) -/
theorem bp_schedule_indep (d : Dom) (cliques : List Clique) (t : Tree)
    (order order' : List (Clique × Clique)) (pots : CliqueVec (LogOf K))
    (hok : ModelOK d cliques t order pots) (hok' : ModelOK d cliques t order' pots) (total : LogOf K)
    (hZ : partition d pots ≠ 0) (htot : 0 < total.v) (c : Clique) (hc : c ∈ cliques) (σ : Attr → Nat) (hσ : d.Valid σ) :
    (((beliefPropagation cliques order pots total).get c).sem σ).v
      = (((beliefPropagation cliques order' pots total).get c).sem σ).v := by
  rw [(bp_marginals d cliques t order pots hok total hZ htot c hc σ hσ).2,
      (bp_marginals d cliques t order' pots hok' total hZ htot c hc σ hσ).2]

/-- **independence of the junction tree** (hence of the elimination order that produced it) **and of constant shifts**:
two valid trees over possibly different node sets, carrying potentials whose products agree on every IN-RANGE assignment
up to a constant factor `k ≠ 0` (`k = 1`: the same distribution laid out on different trees; `k = exp c`: a constant `c`
added to a log-space potential), answer identically on any clique they share.

The products are compared on `d.Valid τ` only: on an out-of-range `τ` a table lookup reads the default `⟨1⟩`, so the
earlier hypothesis `∀ τ, joint pots τ = joint pots' τ` was unsatisfiable for two genuinely different layouts. -/
theorem bp_tree_indep (d : Dom) (cliques cliques' : List Clique) (t t' : Tree)
    (order order' : List (Clique × Clique)) (pots pots' : CliqueVec (LogOf K))
    (hok : ModelOK d cliques t order pots) (hok' : ModelOK d cliques' t' order' pots') (total : LogOf K)
    (k : K) (hk : k ≠ 0) (hjoint : ∀ τ, d.Valid τ → joint pots τ = k * joint pots' τ)
    (hZ : partition d pots ≠ 0) (htot : 0 < total.v) (c : Clique) (hc : c ∈ cliques) (hc' : c ∈ cliques')
    (σ : Attr → Nat) (hσ : d.Valid σ) :
    (((beliefPropagation cliques order pots total).get c).sem σ).v
      = (((beliefPropagation cliques' order' pots' total).get c).sem σ).v := by
  have h0 : d.Valid (fun _ => 0) := fun p hp => Nat.zero_lt_of_lt (hσ p hp)
  have hpart : partition d pots = k * partition d pots' := by
    unfold partition
    rw [← sumOver_mul_left]
    exact sumOver_congr_valid d hok.dom_wf _ _ _ _ h0 hjoint
  have hmarg : marginal d pots c σ = k * marginal d pots' c σ := by
    unfold marginal
    rw [← sumOver_mul_left]
    exact sumOver_congr_valid d hok.dom_wf _ _ _ _ hσ hjoint
  have hZ' : partition d pots' ≠ 0 := by
    intro h; apply hZ; rw [hpart, h, mul_zero]
  rw [(bp_marginals d cliques t order pots hok total hZ htot c hc σ hσ).2,
      (bp_marginals d cliques' t' order' pots' hok' total hZ' htot c hc' σ hσ).2, hpart, hmarg]
  rw [mul_left_comm, mul_div_mul_left _ _ hk]

/-- shifting one log-space potential by the constant `log k` (`k + θ_c0` in the source's notation: `Factor.__add__` with a
scalar; exp-space: every cell of that table times `k`) multiplies the product by `k` at every in-range assignment -/
theorem joint_addScalar (d : Dom) (hd : d.WF) (pre post : CliqueVec (LogOf K)) (c0 : Clique) (f : Factor (LogOf K))
    (hf : FactorOK d f) (k : K) (τ : Attr → Nat) (hτ : d.Valid τ) :
    joint (pre ++ (c0, f.addScalar ⟨k⟩) :: post) τ = k * joint (pre ++ (c0, f) :: post) τ := by
  have h : ((f.addScalar ⟨k⟩).sem τ).v = k * (f.sem τ).v := by
    unfold Factor.addScalar
    rw [sem_mapVals _ f τ hf.1 (hf.valid hd hτ)]
    rfl
  unfold joint
  simp only [List.map_append, List.map_cons, List.prod_append, List.prod_cons, h]
  ring

/-- **adding a constant to any potential does not change the answer**: multiplying ONE exp-space potential by a constant
`k > 0` (adding `log k` to the log-space table `θ_c0`) leaves every cell of every returned table unchanged -/
theorem bp_const_shift_invariant (d : Dom) (cliques : List Clique) (t : Tree) (order : List (Clique × Clique))
    (pre post : CliqueVec (LogOf K)) (c0 : Clique) (f : Factor (LogOf K))
    (hok : ModelOK d cliques t order (pre ++ (c0, f) :: post)) (total : LogOf K) (k : K) (hk : 0 < k)
    (hZ : partition d (pre ++ (c0, f) :: post) ≠ 0) (htot : 0 < total.v) (c : Clique) (hc : c ∈ cliques)
    (σ : Attr → Nat) (hσ : d.Valid σ) :
    (((beliefPropagation cliques order (pre ++ (c0, f.addScalar ⟨k⟩) :: post) total).get c).sem σ).v
      = (((beliefPropagation cliques order (pre ++ (c0, f) :: post) total).get c).sem σ).v := by
  have hmem : (c0, f) ∈ pre ++ (c0, f) :: post := by simp
  have hc0 : c0 ∈ cliques := by rw [← hok.keys]; exact List.mem_map_of_mem (f := Prod.fst) hmem
  obtain ⟨hwf, hperm, hagr⟩ := hok.pot_ok _ hmem
  have hfok : FactorOK d f := ⟨hwf, hagr, fun a ha => (hok.clique_ok c0 hc0).2 a (hperm.subset ha)⟩
  have hok' : ModelOK d cliques t order (pre ++ (c0, f.addScalar ⟨k⟩) :: post) := by
    refine ⟨hok.dom_wf, hok.nodes, hok.jt, hok.clique_ok, ?_, ?_, ?_⟩
    · rw [← hok.keys]; simp
    · intro p hp
      rcases List.mem_append.mp hp with h | h
      · exact hok.pot_ok p (List.mem_append_left _ h)
      · rcases List.mem_cons.mp h with rfl | h
        · exact ⟨mapVals_WF _ f hwf, hperm, hagr⟩
        · exact hok.pot_ok p (List.mem_append_right _ (List.mem_cons_of_mem _ h))
    · intro p hp x hx
      rcases List.mem_append.mp hp with h | h
      · exact hok.nonneg p (List.mem_append_left _ h) x hx
      · rcases List.mem_cons.mp h with rfl | h
        · have hx' : x ∈ (f.vals.data.map (fun v => Scalar.add (⟨k⟩ : LogOf K) v)).toList := hx
          rw [Array.toList_map] at hx'
          obtain ⟨y, hy, rfl⟩ := List.mem_map.mp hx'
          exact mul_nonneg hk.le (hok.nonneg _ hmem y hy)
        · exact hok.nonneg p (List.mem_append_right _ (List.mem_cons_of_mem _ h)) x hx
  refine (bp_tree_indep d cliques cliques t t order order _ _ hok hok' total k⁻¹ (inv_ne_zero hk.ne') (fun τ hτ => ?_)
    hZ htot c hc hc σ hσ).symm
  rw [joint_addScalar d hok.dom_wf pre post c0 f hfok k τ hτ, ← mul_assoc, inv_mul_cancel₀ hk.ne', one_mul]

end PGM.C01
