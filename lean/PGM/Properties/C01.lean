import PGM.Proofs.BPCorrect
/-!
# C01 — exact inference returns the true marginals of the product distribution

Theorems about `PGM/Model/GM.lean` (`bpLoop`, `logZ`, `beliefPropagation`: the transcription of
`graphical_model.py:148-176` over the factor model), instantiated at `LogOf K` for any linearly
ordered field `K` (the exp-space image of the log-space code).  `ModelOK` bundles the hypotheses:
a junction tree accepted by the verified `checkJT` (C12) with any schedule it accepts, one
nonnegative potential table per node over that node's attributes in any order.
-/
namespace PGM.C01
open PGM PGM.JT PGM.GM PGM.Sem
variable {K : Type} [Field K] [LinearOrder K] [IsStrictOrderedRing K]

/-- the log-partition value computed from the first clique's belief is the partition function -/
theorem logZ_correct (d : Dom) (cliques : List Clique) (t : Tree) (order : List (Clique × Clique))
    (pots : CliqueVec (LogOf K)) (hok : ModelOK d cliques t order pots) :
    (logZ cliques order pots).v = partition d pots :=
  Sem.BP.logZ_correct d cliques t order pots hok

/-- **exact inference is exact**: for every junction tree, every accepted message schedule, every
nonnegative potential (zeros = `-∞` included) and every total, each returned clique table is
`total · marginal / Z` of the product of the potentials -/
theorem bp_marginals (d : Dom) (cliques : List Clique) (t : Tree) (order : List (Clique × Clique))
    (pots : CliqueVec (LogOf K)) (hok : ModelOK d cliques t order pots) (total : LogOf K)
    (hZ : partition d pots ≠ 0) (c : Clique) (hc : c ∈ cliques) (σ : Attr → Nat) (hσ : d.Valid σ) :
    ((beliefPropagation cliques order pots total).get c).dom.attrs = (pots.get c).dom.attrs ∧
    (((beliefPropagation cliques order pots total).get c).sem σ).v
      = total.v * marginal d pots c σ / partition d pots :=
  Sem.BP.bp_marginals d cliques t order pots hok total hZ c hc σ hσ

/-- **schedule independence**: any two dependency-respecting message orders give the same tables -/
theorem bp_schedule_indep (d : Dom) (cliques : List Clique) (t : Tree)
    (order order' : List (Clique × Clique)) (pots : CliqueVec (LogOf K))
    (hok : ModelOK d cliques t order pots) (hok' : ModelOK d cliques t order' pots) (total : LogOf K)
    (hZ : partition d pots ≠ 0) (c : Clique) (hc : c ∈ cliques) (σ : Attr → Nat) (hσ : d.Valid σ) :
    (((beliefPropagation cliques order pots total).get c).sem σ).v
      = (((beliefPropagation cliques order' pots total).get c).sem σ).v := by
  rw [(bp_marginals d cliques t order pots hok total hZ c hc σ hσ).2,
      (bp_marginals d cliques t order' pots hok' total hZ c hc σ hσ).2]

/-- **independence of the junction tree** (hence of the elimination order that produced it): two
valid trees over possibly different node sets answer identically on any clique they share -/
theorem bp_tree_indep (d : Dom) (cliques cliques' : List Clique) (t t' : Tree)
    (order order' : List (Clique × Clique)) (pots pots' : CliqueVec (LogOf K))
    (hok : ModelOK d cliques t order pots) (hok' : ModelOK d cliques' t' order' pots') (total : LogOf K)
    (hjoint : ∀ τ, joint pots τ = joint pots' τ)
    (hZ : partition d pots ≠ 0) (c : Clique) (hc : c ∈ cliques) (hc' : c ∈ cliques')
    (σ : Attr → Nat) (hσ : d.Valid σ) :
    (((beliefPropagation cliques order pots total).get c).sem σ).v
      = (((beliefPropagation cliques' order' pots' total).get c).sem σ).v := by
  have hpart : partition d pots = partition d pots' := by
    unfold partition sumOver; simp only [hjoint]
  have hmarg : marginal d pots c σ = marginal d pots' c σ := by
    unfold marginal sumOver; simp only [hjoint]
  rw [(bp_marginals d cliques t order pots hok total hZ c hc σ hσ).2,
      (bp_marginals d cliques' t' order' pots' hok' total (hpart ▸ hZ) c hc' σ hσ).2, hpart, hmarg]

end PGM.C01
