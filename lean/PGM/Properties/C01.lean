import PGM.Model.GM
namespace PGM.C01
end PGM.C01
