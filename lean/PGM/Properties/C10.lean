import PGM.Model.Solvers
namespace PGM.C10
end PGM.C10
