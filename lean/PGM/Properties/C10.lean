import PGM.Proofs.ZerosSem
import Mathlib.Algebra.Order.Field.Rat
/-!
# C10 — structural zeros carry no mass in any answer

Theorems about the models of `Factor.active`, `CliqueVector.combine` and the solvers' parameter
updates (`PGM/Model/Solvers.lean`), at the `LogOf K` reading (exp-space 0 = log-space `-∞`), any
ordered field.  Chain: `zeros_installed` (after `_setup` the joint vanishes on every assignment
extending a declared cell) → `update_preserves_zeros` (MD / IG updates and warm-start `combine` keep
it so, for every iteration count) / `combine_reinstalls_zeros` (RDA, which rebuilds its parameters,
re-applies them) → `zero_in_all_answers` (hence every marginal onto a tuple covering the declared
attributes vanishes there; by C01/C02 these marginals are the answers).  The theorems are for
`tau = 0`; RDA/IG refit with `log(· + 1e-100)`, so numerically "zero" means `≤ 1e-80·total`.
-/
namespace PGM.C10
open PGM PGM.JT PGM.Sem PGM.Zeros
variable {K : Type} [Field K] [LinearOrder K] [IsStrictOrderedRing K]

/-- the indicator factor: exp-space 0 on declared cells, 1 elsewhere -/
theorem active_sem (d : Dom) (z : ZeroSpec) (τ : Attr → Nat) (hd : d.WF) (hnd : z.zc.Nodup)
    (hsub : ∀ a ∈ z.zc, a ∈ d.attrs) (hτ : d.Valid τ) :
    ((Factor.active (⟨0⟩ : LogOf K) (d.project z.zc) z.cells).sem τ).v
      = (open Classical in if Hits z τ then (0 : K) else 1) := by
  apply Zeros.active_sem <;> assumption

/-- **zeros are installed** (`_setup`): after combining the zero potentials with the structural
zeros — every zero clique being inside some model clique — the product of the potentials vanishes at
every joint assignment extending a declared cell, and is 1 elsewhere -/
theorem zeros_installed (d : Dom) (cliques : List Clique) (zs : List ZeroSpec) (τ : Attr → Nat)
    (hd : d.WF) (hcl : ∀ c ∈ cliques, c.Nodup ∧ ∀ a ∈ c, a ∈ d.attrs) (hcn : cliques.Nodup)
    (hz : ∀ z ∈ zs, z.zc.Nodup ∧ (∀ a ∈ z.zc, a ∈ d.attrs) ∧ ∃ c ∈ cliques, JT.subset z.zc c = true)
    (hτ : d.Valid τ) :
    joint (K := K) (CliqueVec.combine (CliqueVec.zerosV d cliques) (zeroVec d zs)) τ
      = (open Classical in if ∃ z ∈ zs, Hits z τ then (0 : K) else 1) := by
  apply Zeros.zeros_installed <;> assumption

/-- **additive parameter updates preserve zeros** (mirror descent `θ − α·dL`, interior gradient
`θ − (a/c/total)·g`, warm-start `combine`): adding *any* vector to the parameters multiplies the
exp-space value cell by cell, so a zero cell stays zero -/
theorem update_preserves_zeros (d : Dom) (theta h : CliqueVec (LogOf K)) (c : Clique) (τ : Attr → Nat)
    (hd : d.WF) (hθ : (theta.get c).WF ∧ (theta.get c).dom.Agrees d ∧ ∀ a ∈ (theta.get c).dom.attrs, a ∈ d.attrs)
    (hh : (h.get c).WF ∧ (h.get c).dom.Agrees d ∧ ∀ a ∈ (h.get c).dom.attrs, a ∈ (theta.get c).dom.attrs)
    (hc : c ∈ theta.map Prod.fst) (hτ : d.Valid τ) :
    (((CliqueVec.addV theta h).get c).sem τ).v = ((theta.get c).sem τ).v * ((h.get c).sem τ).v := by
  apply Zeros.update_preserves_zeros <;> assumption

/-- **dual averaging re-installs the zeros**: whatever vector `b` the averaged gradient produces,
`combine b zeros` vanishes (exp-space) at the declared cells -/
theorem combine_reinstalls_zeros (d : Dom) (cliques : List Clique) (b : CliqueVec (LogOf K)) (zs : List ZeroSpec)
    (τ : Attr → Nat) (hd : d.WF) (hcl : ∀ c ∈ cliques, c.Nodup ∧ ∀ a ∈ c, a ∈ d.attrs) (hcn : cliques.Nodup)
    (hkeys : b.map Prod.fst = cliques) (hb : ∀ p ∈ b, p.2.WF ∧ p.2.dom = d.project p.1)
    (hz : ∀ z ∈ zs, z.zc.Nodup ∧ (∀ a ∈ z.zc, a ∈ d.attrs) ∧ ∃ c ∈ cliques, JT.subset z.zc c = true)
    (hτ : d.Valid τ) (hit : ∃ z ∈ zs, Hits z τ) :
    joint (CliqueVec.combine b (zeroVec d zs)) τ = 0 := by
  apply Zeros.combine_reinstalls_zeros <;> assumption

/-- **zero in every answer**: if the joint vanishes at every IN-RANGE assignment (`d.Valid τ`) extending the
declared cell `(zc, cell)`, then the marginal onto any attribute tuple containing `zc` vanishes at every in-range
assignment extending that cell — in-clique, out-of-clique, full vector alike (the answers are
`total · marginal / Z` by C01/C02).

The vanishing is asked (and concluded) on in-range assignments only.  The earlier form `∀ τ, Hits z τ → joint pots τ = 0`
ranged over out-of-range `τ` too, where every table lookup (`getD`) reads the default `⟨1⟩`: that hypothesis is FALSE
for every model with an attribute outside the zero clique (`hzero_unrestricted_false` below), i.e. the old theorem was
vacuous on real models.  `zeros_installed` / `update_preserves_zeros` / `combine_reinstalls_zeros` deliver exactly the
valid form. -/
theorem zero_in_all_answers (d : Dom) (pots : CliqueVec (LogOf K)) (z : ZeroSpec) (as : List Attr)
    (σ : Attr → Nat) (hd : d.WF) (hzc : ∀ a ∈ z.zc, a ∈ as)
    (hzero : ∀ τ, d.Valid τ → Hits z τ → joint pots τ = 0) (hσv : d.Valid σ) (hσ : Hits z σ) :
    marginal d pots as σ = 0 := by
  apply Zeros.zero_in_all_answers <;> assumption

/-! ### Non-vacuity: a 2-attribute model with a zero on one attribute -/
section Example
/-- domain `a:2, b:2` -/
def exD : Dom := [("a", 2), ("b", 2)]
/-- structural zero `a = 0` (attribute `b` is outside the zero clique) -/
def exZ : ZeroSpec := ⟨["a"], [[0]]⟩
/-- the potentials after `_setup`: zeros on the clique `[a,b]` combined with the structural zero -/
def exPots : CliqueVec (LogOf ℚ) := CliqueVec.combine (CliqueVec.zerosV exD [["a", "b"]]) (zeroVec exD [exZ])

theorem ex_hzero : ∀ τ, exD.Valid τ → Hits exZ τ → joint exPots τ = 0 := by
  intro τ hτ hit
  have h := zeros_installed (K := ℚ) exD [["a", "b"]] [exZ] τ (by decide) (by decide) (by decide) (by decide) hτ
  rw [show joint exPots τ = _ from h, if_pos ⟨exZ, by simp, hit⟩]

/-- `zero_in_all_answers` is NOT vacuous: on the model `exD`, `exPots` its hypotheses hold, for the marginal onto `[a]`
(zero clique itself), onto `[a,b]` (the model clique) and for both in-range cells `a=0,b=0` / `a=0,b=1` -/
example : marginal exD exPots ["a"] (fun _ => 0) = 0 :=
  zero_in_all_answers exD exPots exZ ["a"] (fun _ => 0) (by decide) (by decide) ex_hzero
    (by unfold Dom.Valid; decide) (by unfold Hits; decide)
example : marginal exD exPots ["a", "b"] (fun x => if x = "b" then 1 else 0) = 0 :=
  zero_in_all_answers exD exPots exZ ["a", "b"] _ (by decide) (by decide) ex_hzero
    (by unfold Dom.Valid; decide) (by unfold Hits; decide)
/-- ... and the conclusion is not trivially true of every cell: the marginal at `a = 1` is `2` -/
example : marginal exD exPots ["a"] (fun _ => 1) = 2 := by decide +kernel

/-- the UNRESTRICTED hypothesis of the earlier statement fails on this model: `τ = (a ↦ 0, b ↦ 5)` hits the cell, is out of
range, and the joint reads the default `1` there -/
theorem hzero_unrestricted_false : ¬ ∀ τ, Hits exZ τ → joint exPots τ = 0 := by
  intro h
  have := h (fun x => if x = "b" then 5 else 0) (by unfold Hits; decide)
  revert this
  decide +kernel
end Example

end PGM.C10
