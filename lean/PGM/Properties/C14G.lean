import PGM.Generated.CliqueVecG
import PGM.Properties.C14B
/-!
# C14 (translator tie) — the regenerated reading of `src/mbi/clique_vector.py` is the hand-written model

`PGM/Generated/CliqueVecG.lean` is produced on every run by `tools/py2cv.py` from the current source of
`class CliqueVector`.  Each generated definition is proved equal to the definition of
`PGM/Model/Solvers.lean` (namespace `CliqueVec`) that the `C14B` theorems are about, so "collections of factors
combine clique by clique" is re-checked against what the source says now.
-/
namespace PGM.C14
open PGM
variable {α : Type} [Scalar α]

/-- `const * v` -/
theorem gen_mul (k : α) (v : CliqueVec α) : CVG.mul k v = CliqueVec.smul k v := rfl

/-- `a + b` for two vectors -/
theorem gen_add (a b : CliqueVec α) : CVG.add a b = CliqueVec.addV a b := rfl

/-- `a - b = a + -1*b` -/
theorem gen_sub (a b : CliqueVec α) : CVG.sub a b = CliqueVec.subV a b := rfl

/-- `a.dot(b)` -/
theorem gen_dot (a b : CliqueVec α) : CVG.dot a b = CliqueVec.dotV a b := rfl

/-- `a.combine(b)` -/
theorem gen_combine (a b : CliqueVec α) : CVG.combine a b = CliqueVec.combine a b := rfl

/-- `CliqueVector.zeros(domain, cliques)` -/
theorem gen_zeros (d : Dom) (cliques : List JT.Clique) :
    (CVG.zeros d cliques : CliqueVec α) = CliqueVec.zerosV d cliques := rfl

/-- `v + c` for a scalar `c`: the same key list, every table shifted by the scalar -/
theorem gen_addScalar_keys (v : CliqueVec α) (c : α) : (CVG.addScalar v c).map Prod.fst = v.map Prod.fst := by
  simp [CVG.addScalar, List.map_map, Function.comp_def]

/-- `v.exp()` / `v.log()` keep the key list -/
theorem gen_exp_log_keys (v : CliqueVec α) :
    (CVG.expV v).map Prod.fst = v.map Prod.fst ∧ (CVG.logV v).map Prod.fst = v.map Prod.fst := by
  constructor <;> simp [CVG.expV, CVG.logV, List.map_map, Function.comp_def]

end PGM.C14
