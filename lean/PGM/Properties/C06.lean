import PGM.Proofs.FlowSound
import PGM.Generated.MechProgs
/-!
# C06 — private data reaches mechanism output only through the DP primitives

`PGM/Generated/MechProgs.lean` is regenerated on every run by `tools/py2flow.py` from the bodies of
`MST`, `AIM.run`, `mwem_pgm` (once per adjacency notion) and `adagrid`, as terms of the small
language `PGM.Flow.Stmt` in which every non-primitive computation is an opaque deterministic
function.  `flow_sound` (proved once, for every program, every interpretation of the opaque
functions, every pair of private inputs and every primitive oracle) says that an accepted program
performs the same sequence of releases / selections with the same public scales and parameters and
returns the same value on any two datasets once the primitives' outcomes are identical.  The
`*_flow_ok` theorems below are the obligations re-checked against the current source.
-/
namespace PGM.C06
open PGM.Flow PGM.Gen.Flow

/-- soundness of the flow check (non-interference up to the primitives' outcomes) -/
theorem flow_sound {Val : Type} (I : Interp Val) (oracle : Nat → Val) (cf : Nat) (Γ Γ' : Env) (p : Stmt)
    (hflow : flow cf Γ p = some Γ') (fuel₁ fuel₂ : Nat) (s₁ s₂ t₁ t₂ : State Val)
    (hlow : LowEq Γ s₁ s₂)
    (h₁ : exec I oracle fuel₁ p s₁ = some t₁) (h₂ : exec I oracle fuel₂ p s₂ = some t₂) :
    LowEq Γ' t₁ t₂ :=
  Flow.flow_sound I oracle cf Γ Γ' p hflow fuel₁ fuel₂ s₁ s₂ t₁ t₂ hlow h₁ h₂

theorem mst_flow_ok : flowOK 200 mstEnv mstProg = true := by decide +kernel
theorem aim_flow_ok : flowOK 200 aimEnv aimProg = true := by decide +kernel
theorem mwem_bounded_flow_ok : flowOK 200 mwemBoundedEnv mwemBoundedProg = true := by decide +kernel
theorem mwem_unbounded_flow_ok : flowOK 200 mwemUnboundedEnv mwemUnboundedProg = true := by decide +kernel
theorem adagrid_flow_ok : flowOK 200 adagridEnv adagridProg = true := by decide +kernel

/-- **MST**: for every interpretation of the opaque computations, every two datasets (the `H`
variables differ arbitrarily, the `L` inputs — ε, δ, the domain — agree) and every sequence of
primitive outcomes, the two executions perform the same releases and selections with the same
scales and return the same data -/
theorem mst_noninterference {Val : Type} (I : Interp Val) (oracle : Nat → Val) (fuel₁ fuel₂ : Nat)
    (env₁ env₂ : String → Val) (hpub : ∀ x, mstEnv.get x = .L → env₁ x = env₂ x) (t₁ t₂ : State Val)
    (h₁ : exec I oracle fuel₁ mstProg ⟨env₁, 0, [], none⟩ = some t₁)
    (h₂ : exec I oracle fuel₂ mstProg ⟨env₂, 0, [], none⟩ = some t₂) :
    t₁.trace = t₂.trace ∧ t₁.ret = t₂.ret :=
  Flow.flow_sound_observable I oracle 200 mstEnv mstProg mst_flow_ok fuel₁ fuel₂ env₁ env₂ hpub t₁ t₂ h₁ h₂

theorem aim_noninterference {Val : Type} (I : Interp Val) (oracle : Nat → Val) (fuel₁ fuel₂ : Nat)
    (env₁ env₂ : String → Val) (hpub : ∀ x, aimEnv.get x = .L → env₁ x = env₂ x) (t₁ t₂ : State Val)
    (h₁ : exec I oracle fuel₁ aimProg ⟨env₁, 0, [], none⟩ = some t₁)
    (h₂ : exec I oracle fuel₂ aimProg ⟨env₂, 0, [], none⟩ = some t₂) :
    t₁.trace = t₂.trace ∧ t₁.ret = t₂.ret :=
  Flow.flow_sound_observable I oracle 200 aimEnv aimProg aim_flow_ok fuel₁ fuel₂ env₁ env₂ hpub t₁ t₂ h₁ h₂

theorem mwem_bounded_noninterference {Val : Type} (I : Interp Val) (oracle : Nat → Val) (fuel₁ fuel₂ : Nat)
    (env₁ env₂ : String → Val) (hpub : ∀ x, mwemBoundedEnv.get x = .L → env₁ x = env₂ x) (t₁ t₂ : State Val)
    (h₁ : exec I oracle fuel₁ mwemBoundedProg ⟨env₁, 0, [], none⟩ = some t₁)
    (h₂ : exec I oracle fuel₂ mwemBoundedProg ⟨env₂, 0, [], none⟩ = some t₂) :
    t₁.trace = t₂.trace ∧ t₁.ret = t₂.ret :=
  Flow.flow_sound_observable I oracle 200 mwemBoundedEnv mwemBoundedProg mwem_bounded_flow_ok fuel₁ fuel₂ env₁ env₂ hpub t₁ t₂ h₁ h₂

theorem mwem_unbounded_noninterference {Val : Type} (I : Interp Val) (oracle : Nat → Val) (fuel₁ fuel₂ : Nat)
    (env₁ env₂ : String → Val) (hpub : ∀ x, mwemUnboundedEnv.get x = .L → env₁ x = env₂ x) (t₁ t₂ : State Val)
    (h₁ : exec I oracle fuel₁ mwemUnboundedProg ⟨env₁, 0, [], none⟩ = some t₁)
    (h₂ : exec I oracle fuel₂ mwemUnboundedProg ⟨env₂, 0, [], none⟩ = some t₂) :
    t₁.trace = t₂.trace ∧ t₁.ret = t₂.ret :=
  Flow.flow_sound_observable I oracle 200 mwemUnboundedEnv mwemUnboundedProg mwem_unbounded_flow_ok fuel₁ fuel₂ env₁ env₂ hpub t₁ t₂ h₁ h₂

theorem adagrid_noninterference {Val : Type} (I : Interp Val) (oracle : Nat → Val) (fuel₁ fuel₂ : Nat)
    (env₁ env₂ : String → Val) (hpub : ∀ x, adagridEnv.get x = .L → env₁ x = env₂ x) (t₁ t₂ : State Val)
    (h₁ : exec I oracle fuel₁ adagridProg ⟨env₁, 0, [], none⟩ = some t₁)
    (h₂ : exec I oracle fuel₂ adagridProg ⟨env₂, 0, [], none⟩ = some t₂) :
    t₁.trace = t₂.trace ∧ t₁.ret = t₂.ret :=
  Flow.flow_sound_observable I oracle 200 adagridEnv adagridProg adagrid_flow_ok fuel₁ fuel₂ env₁ env₂ hpub t₁ t₂ h₁ h₂

/-- the check is not vacuous: a program that releases with a data-dependent scale is rejected -/
example : flowOK 10 [("data", .H), ("eps", .L)]
    (.release "y" (.var "data") (.call "scale" [.var "eps", .var "data"])) = false := by decide

/-- … and so is one whose control flow depends on the data -/
example : flowOK 10 [("data", .H)]
    (.ite (.call "gt" [.var "data"]) (.release "y" (.var "data") (.lit "1")) .skip) = false := by decide

end PGM.C06
