namespace PGM.C06
end PGM.C06
